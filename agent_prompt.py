import json,sys
pid=sys.argv[1]
extra=sys.argv[2] if len(sys.argv)>2 else ''
props={json.loads(l)['id']:json.loads(l) for l in open('/verif/properties.jsonl')}
p=props[pid]
ws=f'/var/tmp/ws-{pid}'
print(f"""You are building one property check of a Lean-4 verification framework for the Python library MusicLang.
You work ONLY inside your private workspace: {ws}/verif (a copy of the framework) and {ws}/repo (a copy of the
library, a git checkout). Never touch /verif or /repo. No network. Python: `/venv/bin/python` with PYTHONPATH={ws}/repo
(the `check` script sets this itself when you export VERIF_REPO={ws}/repo). Lean 4.33 + Mathlib are installed
(`lean`, `lake` on PATH; do NOT add a `require`; import single Mathlib modules only in Lemmas/Props files).

Read first, in this order: {ws}/verif/FRAMEWORK.md (the conventions and the bar), {ws}/verif/DESIGN.md sections 2-4 and
the section "### {pid}" of section 5 plus the related defect rows (D1..D13) of section 6, then the worked example
C01: lean/MV/Model/Types.lean, lean/MV/Model/Basic.lean, lean/MV/Model/Pitch.lean, lean/MV/Lemmas/Scale.lean,
lean/MV/Props/C01.lean, lean/MV/Drivers/C01.lean, lean/MV/Proto.lean, lean/MV/Codec.lean, harness/core.py,
harness/gen.py, harness/props/C01.py, harness/translate.py, check. Then read the library code the property is anchored in.

THE PROPERTY ({pid}) — fixed text, do not reinterpret it more strongly or more weakly:
Title: {p['title']}
Statement: {p['statement']}
Quantifier: {p['quantifier']['text']}
Why tests cannot settle it: {p['why_tests_cant']}
Anchored in: {', '.join(p['anchors']['files'])}

YOUR TASK: build the check for {pid} exactly as FRAMEWORK.md describes: the executable Lean model of the anchored
code (function for function, defects included), the property theorems proved for ALL inputs (unbounded, by
induction/invariants; `decide` only for finite generated tables and examples), the line-protocol driver, the Python
module harness/props/{pid}.py with a correspondence stream (model vs real code on generated inputs) and an independent
property oracle, optional table generators in harness/translate_{pid}.py. DESIGN.md section {pid} lists the intended
model functions (M), theorems (T), correspondence streams (Corr) and what is expected on the current tree (Now) —
follow it as far as you can; where a full proof does not close in reasonable effort keep the full statement visible
(`def …_full : Prop`), prove the strongest `_partial` you can and say precisely what is missing.
{extra}
Order of work (keep everything building at every step): 1. model + driver + correspondence stream green against the
real code; 2. oracle (the property itself in Python, independent of the model) incl. known-defect signatures;
3. theorems, the central ones first; 4. mutants (apply to {ws}/repo, run `VERIF_REPO={ws}/repo ./check {pid}`, expect
VIOLATION, then `git -C {ws}/repo checkout -- .`); 5. `for s in 0 1 2 3 4; do VERIF_SEED=$s VERIF_REPO={ws}/repo ./check {pid}; done`
all exit 0 on the clean copy (KNOWN-FINDING lines allowed once you have added the entries to YOUR copy of
known_findings.json), plus one `--tier thorough` run.
Always run checks from {ws}/verif with VERIF_REPO={ws}/repo exported. Use `./lk build MV.Props.{pid}` for Lean builds.

Your final message must be the deliverable checklist of FRAMEWORK.md (files added with paths relative to verif/,
theorem list with meanings and axioms, what remains unproved, timings, mutants and verdicts, proposed patches to the
library as unified diffs saved under {ws}/verif/patches/, proposed known_findings.json entries, DESIGN.md paragraph).
Leave all files in place in {ws}/verif; do not delete the workspace.""")
