/-
Model of harmonic projection (C13), function for function:

  musiclang/write/time_utils/time_utils.py : get_melody_between (modulo=False), get_chord_between
        (complete_if_missing=False), get_score_between, put_on_same_chord, project_on_score
  musiclang/transform/composing/project.py : offset_between_chords, project_on_one_chord,
        project_on_score_keep_notes
  musiclang/write/note.py    : Silence, Continuation, add_value, __and__, to_absolute_note, to_scale_note
  musiclang/write/melody.py  : to_absolute_note (last-pitch threading), __and__, to_scale_notes
  musiclang/write/chord.py   : __call__ (header of the chord, new parts), __and__, to_absolute_note,
        to_scale_notes
  musiclang/write/score.py   : instruments, duration, __mul__, to_absolute_note, to_scale_note,
        project_on_score (flags keep_pitch, voice_leading, keep_score, repeat_to_duration, allow_override)

A Python `dict` of parts is an association list (insertion order is observable).  `None`
results (`get_score_between`, `project_on_score`) are `Option`.  Exceptions are `Err` values.

Not modelled (the harness never sends such inputs, see ASSUMPTIONS of harness/props/C13.py):
`Fraction.limit_denominator(1000)` applied whenever a note is copied (identity when every
duration and every difference of partial sums has a denominator <= 1000); chords whose
tonality is `None`; part names that `Chord.preparse_named_melodies` rewrites (`piano` ->
`piano__0`, drum parts); melody / chord / score tags; the amplitude, tempo and pedal of
rests and continuations (`Silence.copy` / `Continuation.copy` reset some of them).
-/
import MV.Model.Render

namespace MV.Proj

open MV Gen

/-! ### note.py -/

/-- `Silence(d)` -/
def silence (d : Rat) : Note := { kind := .r, val := 0, oct := 0, dur := d }

/-- `Continuation(d)` -/
def continuation (d : Rat) : Note := { kind := .l, val := 0, oct := 0, dur := d }

/-- `Note.add_value(val, octave)` -/
def addValue (n : Note) (v o : Int) : Note :=
  let md : Option Int := match n.kind with
    | .s | .su | .sd => some 7
    | .h | .hu | .hd => some 12
    | .c | .cu | .cd => some 3
    | _ => none
  match md with
  | some m =>
      let val := n.val + v
      { n with val := val % m, oct := n.oct + o + val / m }
  | none => n

/-- `Note.__and__(k)`: only the exact types `s` and `h` move -/
def noteAnd (n : Note) (k : Int) : Note :=
  match n.kind with
  | .s | .h => addValue n k 0
  | _ => n

/-- `Melody.__and__` -/
def melodyAnd (m : Melody) (k : Int) : Melody := m.map (noteAnd · k)

/-- `Chord.__and__`: `self(**{part: melody & k})` -/
def chordAnd (c : Chord) (k : Int) : Chord :=
  { c with parts := c.parts.map (fun p => (p.1, melodyAnd p.2 k)) }

/-- `Note.to_absolute_note(chord, last_pitch)` -/
def noteToAbsolute (c : Chord) (n : Note) (last : Option Int) : Res Note :=
  if !n.kind.isNote then .ok n
  else do
    match ← c.toPitch n last with
    | some p => pure { n with kind := .a, val := p % 12, oct := p / 12 }
    | none => .error .type        -- `None % 12`

/-- `Melody.to_absolute_note(chord, last_pitch, return_last_pitch=True)` -/
def melodyToAbsolute (c : Chord) : Melody → Option Int → Res (Melody × Option Int)
  | [], last => .ok ([], last)
  | n :: ns, last => do
      let n' ← noteToAbsolute c n last
      let tmp ← c.toPitch n' last
      let last' := match tmp with | some p => some p | none => last
      let (rest, lastEnd) ← melodyToAbsolute c ns last'
      pure (n' :: rest, lastEnd)

/-- Python `d[k] = v` on an association list: replace in place or append -/
def dictSet (d : List (String × α)) (k : String) (v : α) : List (String × α) :=
  if d.any (·.1 == k) then d.map (fun p => if p.1 == k then (k, v) else p) else d ++ [(k, v)]

/-- Python `{**a, **b}` / `a.update(b)` -/
def dictUpdate (a b : List (String × α)) : List (String × α) :=
  b.foldl (fun acc p => dictSet acc p.1 p.2) a

/-- `Chord.to_absolute_note(last_pitch, return_last_pitch=True)`: the dictionary of last
pitches is shared between the chords (a part absent from a chord keeps its entry) -/
def chordToAbsolute (c : Chord) (lasts : List (String × Int)) : Res (Chord × List (String × Int)) := do
  let rec go : List (String × Melody) → List (String × Int) → Res (List (String × Melody) × List (String × Int))
    | [], lasts => .ok ([], lasts)
    | (p, m) :: ps, lasts => do
        let (m', l') ← melodyToAbsolute c m (lasts.lookup p)
        -- `last_pitch[part] = l'` : `None` is stored too; a stored `None` reads back as `None`
        let lasts' := match l' with
          | some v => dictSet lasts p v
          | none => lasts.filter (·.1 != p)
        let (rest, lastsEnd) ← go ps lasts'
        pure ((p, m') :: rest, lastsEnd)
  let (parts, lasts') ← go c.parts lasts
  pure ({ c with parts := parts }, lasts')

/-- `Score.to_absolute_note` -/
def scoreToAbsolute (s : Score) : Res Score :=
  let rec go : List Chord → List (String × Int) → Res (List Chord)
    | [], _ => .ok []
    | c :: cs, lasts => do
        let (c', lasts') ← chordToAbsolute c lasts
        let rest ← go cs lasts'
        pure (c' :: rest)
  go s []

/-- `Note.to_scale_note(chord)`: `chord.parse(chord.to_pitch(self))` with the duration, the
amplitude (`set_amp`: a float is truncated by `int`) and the tags of the note -/
def noteToScale (c : Chord) (n : Note) : Res Note :=
  if !n.kind.isNote then .ok n
  else do
    match ← c.toPitch n none with
    | some p =>
        let q ← c.parse p
        pure { q with dur := n.dur, amp := (n.amp.floor : Int), tags := n.tags }
    | none => .error .type

/-- `Chord.to_scale_notes` -/
def chordToScale (c : Chord) : Res Chord := do
  let parts ← c.parts.mapM (fun p => do
    let m ← p.2.mapM (noteToScale c)
    pure (p.1, m))
  pure { c with parts := parts }

/-- `Score.to_scale_note` (= `to_scale_notes`): absolute notes first, then re-notation -/
def scoreToScale (s : Score) : Res Score := do
  let a ← scoreToAbsolute s
  a.mapM chordToScale

/-! ### score.py helpers -/

/-- `Score.duration` -/
def scoreDuration (s : Score) : Rat := sumRat (s.map Chord.dur)

/-- `Score.instruments`: part names in order of first appearance -/
def instruments (s : Score) : List String := (s.flatMap (fun c => c.parts.map (·.1))).eraseDups

/-! ### time_utils.py -/

/-- the loop of `get_melody_between(voice, start, end)`; `time` is the loop variable -/
def gmbLoop : List Note → Rat → Rat → Rat → Res (List Note)
  | [], _, _, _ => .ok []
  | n :: ns, time, start, stop =>
      if time ≥ stop then .ok []
      else if time < start ∧ time + n.dur ≤ start then gmbLoop ns (time + n.dur) start stop
      else
        let toBreak := time + n.dur ≥ stop
        let d1 := if toBreak then stop - time else n.dur
        let cut := time < start
        let d2 := if cut then d1 - (start - time) else d1
        let time' := if cut then start else time
        let out := if cut then continuation d2 else { n with dur := d2 }
        if d2 < 0 then .error .other
        else if toBreak then .ok [out]
        else do
          let rest ← gmbLoop ns (time' + d2) start stop
          pure (out :: rest)

/-- `get_melody_between(voice, start, end)` -/
def getMelodyBetween (m : Melody) (start stop : Rat) : Res Melody := gmbLoop m 0 start stop

/-- `get_chord_between(chord, start, end)` -/
def getChordBetween (c : Chord) (start stop : Rat) : Res Chord := do
  let parts ← c.parts.mapM (fun p => do
    let m ← getMelodyBetween p.2 start stop
    pure (p.1, m))
  if parts.isEmpty then pure { c with parts := [("piano__0", [silence (stop - start)])] }
  else pure { c with parts := parts }

/-- the loop of `get_score_between`; returns the list of collected chords -/
def gsbLoop : List Chord → Rat → Rat → Rat → Res (List Chord)
  | [], _, _, _ => .ok []
  | c :: cs, time, start, stop =>
      let cstart := time
      let cend := time + c.dur
      if cend ≤ start then gsbLoop cs (time + c.dur) start stop
      else if cstart ≥ stop then .ok []
      else if cend < stop ∧ cstart ≥ start then do
        let rest ← gsbLoop cs (time + c.dur) start stop
        pure (c :: rest)
      else do
        let nc ← getChordBetween c (start - time) (stop - time)
        let rest ← gsbLoop cs (time + c.dur) start stop
        pure (nc :: rest)

/-- `get_score_between(score, start, end)`: `None` when no chord was collected -/
def getScoreBetween (s : Score) (start stop : Rat) : Res (Option Score) := do
  let l ← gsbLoop s 0 start stop
  pure (if l.isEmpty then none else some l)

/-- what `put_on_same_chord` gathers for one part: the part's melody, or a rest as long as the
chord where the part is absent -/
def gather (s : Score) (p : String) : Melody :=
  s.flatMap (fun c => match c.parts.lookup p with
    | some m => m
    | none => [silence c.dur])

/-- `put_on_same_chord(score)` -/
def putOnSameChord (s : Score) : Res Chord :=
  match s with
  | [] => .error .index
  | c0 :: _ => .ok { c0 with parts := (instruments s).map (fun p => (p, gather s p)) }

/-- the loop of `time_utils.project_on_score(score, score2, keep_score)`; `start` is `start_time` -/
def projLoop (src : Score) (keepScore : Bool) : List Chord → Rat → Res (List Chord)
  | [], _ => .ok []
  | c2 :: cs, start => do
      let stop := start + c2.dur
      match ← getScoreBetween src start stop with
      | none => pure []
      | some sub =>
          let g ← putOnSameChord sub
          let parts := if keepScore then dictUpdate c2.parts g.parts else g.parts
          let rest ← projLoop src keepScore cs stop
          pure ({ c2 with parts := parts } :: rest)

/-- `time_utils.project_on_score(score, score2, keep_score)` -/
def projectPlain (src tgt : Score) (keepScore : Bool := false) : Res (Option Score) := do
  let l ← projLoop src keepScore tgt 0
  pure (if l.isEmpty then none else some l)

/-! ### transform/composing/project.py -/

def sign (i : Int) : Int := if i > 0 then 1 else if i < 0 then -1 else 0

/-- `offset_between_chords(c1, c2)` -/
def offsetBetweenChords (c1 c2 : Chord) : Res Int := do
  let offsetDegrees := c2.elem - c1.elem
  let dd := c2.ton.deg - c1.ton.deg
  let t ← lookupKey (dd.natAbs : Int) DEGREE_TO_SCALE_DEGREE
  let offsetTonalities := sign dd * t
  let offsetOctave := (c1.oct + c1.ton.oct) - (c2.oct + c2.ton.oct)
  let offsetOctaveChords := c2.oct - c1.oct
  pure (offsetDegrees + offsetTonalities + 7 * (offsetOctave + offsetOctaveChords))

/-- `project_on_one_chord(score)`: (the chord carrying everything, the offsets per chord) -/
def projectOnOneChord (s : Score) : Res (Chord × List Int) :=
  match s with
  | [] => .error .index
  | c0 :: _ => do
      let allParts := instruments s
      let offsets ← s.mapM (offsetBetweenChords c0)
      let parts := allParts.map (fun p =>
        (p, (s.zip offsets).flatMap (fun (c, off) => match c.parts.lookup p with
          | some m => melodyAnd m off
          | none => [silence c.dur])))
      pure ({ c0 with parts := parts }, offsets)

/-- `project_on_score_keep_notes(score1, score2)` -/
def projectKeepNotes (s1 s2 : Score) : Res Score := do
  let (chord, _) ← projectOnOneChord s1
  let (_, offs) ← projectOnOneChord s2
  match ← projectPlain [chord] s2 false with
  | none => .error .attr         -- `None.chords`
  | some proj => pure ((proj.zip offs).map (fun (c, i) => chordAnd c (-i)))

/-! ### Score.project_on_score -/

structure Flags where
  keepPitch : Bool := false
  voiceLeading : Bool := true
  keepScore : Bool := false
  repeatToDuration : Bool := false
  allowOverride : Bool := false
  deriving DecidableEq, Repr, Inhabited

/-- first block of `Score.project_on_score`: `if repeat_to_duration and self.duration < score2.duration` -/
def stageRepeat (self score2 : Score) (f : Flags) : Res Score :=
  let d1 := scoreDuration self
  let d2 := scoreDuration score2
  if f.repeatToDuration ∧ d1 < d2 then
    if d1 = 0 then .error .zerodiv
    else .ok ((List.replicate ((d2 / d1).floor + 1).toNat self).flatten)
  else .ok self

/-- second block: `if keep_pitch: to_project = self.to_absolute_note()` (the repetition is dropped, as in the code) -/
def stageAbsolute (self : Score) (f : Flags) (toProject : Score) : Res Score :=
  if f.keepPitch then scoreToAbsolute self else .ok toProject

/-- third block: `project_on_score_keep_notes` or `time_utils.project_on_score` -/
def stageProject (score2 : Score) (f : Flags) (toProject : Score) : Res (Option Score) :=
  if f.voiceLeading then do
    let r ← projectKeepNotes toProject score2
    pure (some r)
  else projectPlain toProject score2 false

/-- fourth block: `if keep_score:` the clash test and the merge `c1(**{**c2.score, **c1.score})` -/
def stageKeepScore (score2 : Score) (f : Flags) (result : Option Score) : Res (Option Score) :=
  if f.keepScore then
    match result with
    | none => .error .attr
    | some r =>
        if !f.allowOverride ∧ (instruments r).any (fun p => (instruments score2).contains p) then .error .other
        else
          let l := (r.zip score2).map (fun (x : Chord × Chord) => { x.1 with parts := dictUpdate x.2.parts x.1.parts })
          .ok (if l.isEmpty then none else some l)
  else .ok result

/-- fifth block: `if keep_pitch: result_score = result_score.to_scale_notes()` -/
def stageScale (f : Flags) (result : Option Score) : Res (Option Score) :=
  if f.keepPitch then
    match result with
    | none => .error .attr
    | some r => do
        let r' ← scoreToScale r
        pure (some r')
  else .ok result

/-- `Score.project_on_score(score2, keep_pitch, voice_leading, keep_score, repeat_to_duration,
allow_override)`: its five blocks in sequence -/
def projectOnScore (self score2 : Score) (f : Flags) : Res (Option Score) := do
  let toProject ← stageRepeat self score2 f
  let toProject ← stageAbsolute self f toProject
  let result ← stageProject score2 f toProject
  let result ← stageKeepScore score2 f result
  stageScale f result

end MV.Proj
