/-
Model of the matrix form of the importer's items (`musiclang/analyze/item.py`): `Item.array()` gives the row
`[start, end, vel, pitch, track, channel, voice]` the voice separation works on, `Item.frommatrix(rows)` builds the items back.
(The source names the last two columns `voice, channel` in `frommatrix` and passes them on positionally, so column 5 is the
channel and column 6 the voice in both directions.)  Companion of `MV/Model/Import.lean`; no proofs here.
-/
import MV.Model.Import

namespace MV

/-- one row of the note matrix: start, end, vel, pitch, track, channel, voice -/
abbrev ItemRow := Rat × Rat × Int × Int × Int × Int × Int

/-- `Item.array()` -/
def Item.array (i : Item) : ItemRow := (i.start, i.stop, i.vel, i.pitch, i.track, i.channel, i.voice)

/-- `Item('', *row)` -/
def Item.ofRow (r : ItemRow) : Item :=
  { start := r.1, stop := r.2.1, vel := r.2.2.1, pitch := r.2.2.2.1, track := r.2.2.2.2.1, channel := r.2.2.2.2.2.1,
    voice := r.2.2.2.2.2.2 }

/-- `Item.frommatrix(matrix)` -/
def Item.frommatrix (m : List ItemRow) : List Item := m.map Item.ofRow

end MV
