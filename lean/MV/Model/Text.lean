/-
Model of the text form of musiclang objects and of its evaluation (C05).

Printer (what `str(x)` writes), as a symbol + chain of attribute / method applications
(`Code`) *and* as text:
  note.py        : Note.to_code / __repr__
  melody.py      : Melody.to_code / __repr__
  tonality.py    : Tonality.to_code / __repr__ (degree names of `DEGREE_TO_STR`)
  chord.py       : element_to_str, extension_to_str, tonality_to_str, to_code, melody_to_str, __repr__
  custom_chord.py: tonality_to_str, notes_to_str, to_code, __repr__
  score.py       : __repr__

Evaluator (what Python's `eval` of that text computes in the namespace of
`musiclang.library`), as the attribute / method protocol of the objects:
  note.py        : copy (Note / Silence / Continuation), __getattr__ (rhythmic suffix *multiplies*;
                   then the note properties), o, oabs, augment, add_tags, set_amp (integer), the ornament properties,
                   __add__ (melody), to_melody, convert_to_drum_note
  note_properties.py : dynamics, modes, accidentals
  element.py     : b, s, the nine modes, __getitem__, __mod__, __call__
  tonality.py    : b, s, modes, o, copy, __radd__, __call__ (custom chord)
  chord.py       : __getitem__, __mod__, o, copy, __call__, preparse_named_melodies, __add__
  custom_chord.py: __init__, copy
  score.py       : from_str (regex split on `)+(`, the `assert`, the fallback `eval`), __add__, copy
and the tabular form:
  sequence.py    : score_to_sequence / sequence_to_score (row encoding; pandas' sort and groupby
                   are parameters of the model, see `fromRows`)

Function for function, in the code's shape, on the repaired tree (fix commits 3b164a5 pattern-note
octave, bb99a14 drum dynamics, 5da6dce mode / accidental of drum and pattern notes + `.set_amp(0)`,
814ef78 figure '5', b066a4a split in front of custom chords).  Python's parsing of the text into
the attribute chain is *not* modelled (trusted; tied by the correspondence streams `print` / `ops`).

Modelling notes
* Python class of a note = its kind (`r` is a `Silence`, `l` a `Continuation`, everything else a
  `Note`): true of every library symbol and kept by every operation of the text grammar.
* `Note.tags` (a Python set) is a duplicate-free list; union keeps first occurrences.  The real
  iteration order is hash dependent: tags are compared as sets by the harness.
* a chord without tonality (`Chord(0)`, printed `(I)`) is not representable in `MV.Chord`; the
  intermediate `Chord(element=v)` of the evaluator is modelled with the default tonality `I.M`
  (`Chord.scale_pitches` does the same), which the following `% tonality` replaces.
* attribute names known to the evaluator: the rhythmic suffixes, dynamics, modes, accidentals,
  ornament properties, `pedal_on` / `pedal_off`; any other name is `AttributeError` (the real
  objects have more attributes — `is_note`, `copy`, … — that do not return notes; the harness
  never sends them).
* `int(number)` of a part name `name__number`: ASCII digits only (Python also accepts signs,
  blanks, underscores; never sent).
-/
import MV.Model.Equality
import MV.Model.Duration
import MV.Model.ExtText

namespace MV.Text
open MV Gen

/-! ## codes: the grammar of the printed text -/

/-- one application in the attribute chain of a printed note -/
inductive Op where
  | attr (name : String)          -- `.name`
  | o (k : Int)                   -- `.o(k)`
  | oabs (k : Int)                -- `.oabs(k)`
  | augment (a b : Int)           -- `.augment(frac(a, b))`
  | addTags (ts : List String)    -- `.add_tags({'t1', 't2'})`
  | setAmp (k : Int)              -- `.set_amp(k)` with an integer literal
  deriving DecidableEq, Repr, Inhabited

/-- a printed note: library symbol and chain -/
structure Code where
  sym : String
  ops : List Op := []
  deriving DecidableEq, Repr, Inhabited

/-- one application in the chain of a printed tonality -/
inductive TOp where
  | flat                          -- `.b`
  | sharp                         -- `.s`
  | mode (md : Mode)              -- `.M`, `.m`, …
  | o (k : Int)                   -- `.o(k)`
  deriving DecidableEq, Repr, Inhabited

structure TCode where
  sym : String                    -- `I` … `VII`
  ops : List TOp := []
  deriving DecidableEq, Repr, Inhabited

abbrev PartCodes := List (String × List Code)

/-- `(SYM['ext'] % TON).o(k)(part=melody, …)` -/
structure ChordCode where
  sym : String
  ext : Option Ext := none
  ton : TCode
  oct : Option Int := none
  parts : PartCodes := []
  deriving DecidableEq, Repr, Inhabited

/-- `TON(note,…).o(k)(part=melody, …)` -/
structure CustomCode where
  ton : TCode
  notes : List Code := []
  oct : Option Int := none
  parts : PartCodes := []
  deriving DecidableEq, Repr, Inhabited

inductive ItemCode where
  | plain (c : ChordCode)
  | custom (c : CustomCode)
  deriving DecidableEq, Repr, Inhabited

/-- a `CustomChord`: the chord fields (element 0) plus its own notes -/
structure Custom where
  notes : List Note := []
  chord : Chord
  deriving DecidableEq, Repr, Inhabited

/-- an element of `Score.chords` -/
inductive Item where
  | plain (c : Chord)
  | custom (c : Custom)
  deriving DecidableEq, Repr, Inhabited

def Item.chord : Item → Chord
  | .plain c => c
  | .custom c => c.chord

/-! ## printer -/

/-- the duration part of `Note.to_code` -/
def durOps (d : Rat) : List Op :=
  if d = 1 then []
  else match DURATION_TO_STR.lookup d with
    | some s => [.attr s]
    | none => [.augment d.num d.den]

/-- the symbol `Note.to_code` starts with -/
def symName (n : Note) : String :=
  if n.kind.isNote then n.kind.toStr ++ toString n.val
  else if n.kind = .d then "d" ++ toString n.val
  else if n.kind = .x then "x" ++ toString n.val
  else n.kind.toStr

def drumOctOps (n : Note) : List Op :=
  if n.kind = .d ∧ n.oct ≠ 0 then [.oabs n.oct] else []

def octOps (n : Note) : List Op :=
  if n.oct ≠ 0 ∧ (n.kind.isNote = true ∨ n.kind = .x) then [if !n.kind.isRelative then .o n.oct else .oabs n.oct] else []

/-- every kind but rests and continuations (`type not in ('r', 'l')`) -/
def printed (k : Kind) : Prop := k ≠ .r ∧ k ≠ .l

instance (k : Kind) : Decidable (printed k) := by unfold printed; exact inferInstance

def modeOps (n : Note) : List Op :=
  match n.mode with
  | some md => if printed n.kind then [.attr md.toStr] else []
  | none => []

def accOps (n : Note) : List Op :=
  match n.acc with
  | some a => if printed n.kind then [.attr a.toStr] else []
  | none => []

/-- the dynamics: the figure `n` (amplitude ≤ 0) is written `.set_amp(0)` — `.n` is the rhythmic suffix -/
def ampOps (n : Note) : List Op :=
  if n.kind.isNote = true ∨ n.kind = .x ∨ n.kind = .d then
    (if Eq.ampFigure n.amp = "n" then [.setAmp 0]
     else if Eq.ampFigure n.amp ≠ "mf" then [.attr (Eq.ampFigure n.amp)] else [])
  else []

def tagOps (n : Note) : List Op :=
  if n.tags.length > 0 then [.addTags n.tags] else []

/-- `Note.to_code` as a chain -/
def noteOps (n : Note) : List Op :=
  drumOctOps n ++ durOps n.dur ++ octOps n ++ modeOps n ++ accOps n ++ ampOps n ++ tagOps n

def noteCode (n : Note) : Code := { sym := symName n, ops := noteOps n }

/-- `Melody.to_code` as a list of note codes -/
def melodyCodes (m : Melody) : List Code := m.map noteCode

/-! ### text of the codes -/

def Op.text : Op → String
  | .attr s => "." ++ s
  | .o k => ".o(" ++ toString k ++ ")"
  | .oabs k => ".oabs(" ++ toString k ++ ")"
  | .augment a b => ".augment(frac(" ++ toString a ++ ", " ++ toString b ++ "))"
  | .addTags ts => ".add_tags(" ++ Eq.tagsRepr ts ++ ")"
  | .setAmp k => ".set_amp(" ++ toString k ++ ")"

def opsText : List Op → String
  | [] => ""
  | op :: ops => op.text ++ opsText ops

def Code.text (c : Code) : String := c.sym ++ opsText c.ops

def melodyText (cs : List Code) : String := " + ".intercalate (cs.map Code.text)

def TOp.text : TOp → String
  | .flat => ".b"
  | .sharp => ".s"
  | .mode md => "." ++ md.toStr
  | .o k => ".o(" ++ toString k ++ ")"

def topsText : List TOp → String
  | [] => ""
  | op :: ops => op.text ++ topsText ops

def TCode.text (c : TCode) : String := c.sym ++ topsText c.ops

/-- `.o(k)` of a chord / custom chord -/
def octText : Option Int → String
  | none => ""
  | some k => ".o(" ++ toString k ++ ")"

/-- `Chord.melody_to_str` followed by the closing parenthesis of `__repr__` -/
def partsText (ps : PartCodes) : String :=
  "(" ++ "\n" ++ ", \n".intercalate (ps.map (fun p => "\t" ++ p.1 ++ "=" ++ melodyText p.2)) ++ ")"

def extSubscript : Option Ext → String
  | none => ""
  | some e => "['" ++ e.toText ++ "']"

def ChordCode.text (c : ChordCode) : String :=
  "(" ++ c.sym ++ extSubscript c.ext ++ " % " ++ c.ton.text ++ ")" ++ octText c.oct ++ partsText c.parts

def CustomCode.text (c : CustomCode) : String :=
  c.ton.text ++ "(" ++ ",".intercalate (c.notes.map Code.text) ++ ")" ++ octText c.oct ++ partsText c.parts

def ItemCode.text : ItemCode → String
  | .plain c => c.text
  | .custom c => c.text

/-- `Score.__repr__` -/
def scoreText (items : List ItemCode) : String := "+ \n".intercalate (items.map ItemCode.text)

/-! ### tonality, chord, custom chord, score as codes -/

/-- split a list of characters on a separator character -/
def splitOnChar (sep : Char) : List Char → List Char → List (List Char)
  | [], cur => [cur.reverse]
  | c :: rest, cur => if c = sep then cur.reverse :: splitOnChar sep rest [] else splitOnChar sep rest (c :: cur)

/-- a value of `DEGREE_TO_STR` read as symbol + chain (`"II.b"` = `II` `.b`) -/
def parseDegree (s : String) : Option TCode :=
  match splitOnChar '.' s.toList [] with
  | [] => none
  | sym :: rest =>
      let ops := rest.mapM (fun (cs : List Char) =>
        if cs = ['b'] then some TOp.flat else if cs = ['s'] then some TOp.sharp else none)
      ops.map (fun ops => { sym := String.ofList sym, ops := ops })

/-- `Tonality.to_code`.  `DEGREE_TO_STR[degree]` raises KeyError outside 0..11; a table entry
outside the grammar (none on the generated table, theorem `degree_table_parses`) is `Exception`. -/
def tonCode (t : Tonality) : Res TCode := do
  let s ← lookupKey t.deg DEGREE_TO_STR
  match parseDegree s with
  | none => .error .other
  | some c => pure { c with ops := c.ops ++ [.mode t.mode] ++ (if t.oct ≠ 0 then [.o t.oct] else []) }

def chordOct (k : Int) : Option Int := if k ≠ 0 then some k else none

def partCodes (parts : List (String × Melody)) : PartCodes := parts.map (fun p => (p.1, melodyCodes p.2))

/-- `Chord.extension_to_str`: the stored (normalised) extension, nothing for `''` -/
def extCodeOf (c : Chord) : Option Ext :=
  let e := c.ext.normalize
  if e.toText == "" then none else some e

/-- `repr(chord)` -/
def chordCode (c : Chord) : Res ChordCode := do
  let sym ← lookupKey c.elem ELEMENT_TO_STR
  let t ← tonCode c.ton
  pure { sym := sym, ext := extCodeOf c, ton := t, oct := chordOct c.oct, parts := partCodes c.parts }

/-- `repr(custom_chord)` (the element and the extension are not printed) -/
def customCode (c : Custom) : Res CustomCode := do
  let t ← tonCode c.chord.ton
  pure { ton := t, notes := c.notes.map noteCode, oct := chordOct c.chord.oct, parts := partCodes c.chord.parts }

def itemCode : Item → Res ItemCode
  | .plain c => do pure (.plain (← chordCode c))
  | .custom c => do pure (.custom (← customCode c))

def scoreCodes (s : List Item) : Res (List ItemCode) := s.mapM itemCode

/-! ## evaluator: notes -/

/-- `copy()` of `Note` / `Silence` / `Continuation`: every field is re-passed to `__init__`
(which limits the denominator of the duration); the two subclasses rebuild from duration, tags,
tempo and pedal only -/
def copy (n : Note) : Note :=
  match n.kind with
  | .r => { kind := .r, val := 0, oct := 0, dur := limitD n.dur, tags := n.tags, tempo := n.tempo, pedal := n.pedal }
  | .l => { kind := .l, val := 0, oct := 0, dur := limitD n.dur, tags := n.tags, tempo := n.tempo, pedal := n.pedal }
  | _ => { n with dur := limitD n.dur }

/-- `set.add` -/
def addTag (ts : List String) (t : String) : List String := if ts.contains t then ts else ts ++ [t]

/-- `set.union` -/
def unionTags (ts new : List String) : List String := new.foldl addTag ts

/-- the properties of class `Note` that add a tag -/
def ORNAMENTS : List String :=
  ["interpolate", "accent", "mordant", "chroma_mordant", "inv_chroma_mordant", "inv_mordant", "grupetto",
   "inv_grupetto", "chroma_grupetto", "inv_chroma_grupetto", "roll", "roll_fast", "suspension_prev",
   "suspension_prev_repeat", "retarded"]

/-- `getattr(note, name)` for a note-valued attribute: class attributes first (ornaments, pedal),
then `Note.__getattr__`: rhythmic suffix (the duration is *multiplied*, no limit), then the note
properties (dynamics — `n` is shadowed by the suffix `n` —, modes, accidentals).  `cp` is the copy
every branch starts from. -/
def evalAttr (cp : Note) (name : String) : Res Note :=
  if ORNAMENTS.contains name then .ok { cp with tags := addTag cp.tags name }
  else if name = "pedal_on" then .ok { cp with pedal := some true }
  else if name = "pedal_off" then .ok { cp with pedal := some false }
  else match STR_TO_DURATION.lookup name with
    | some f => .ok { cp with dur := cp.dur * f }
    | none =>
      match DYNAMICS.lookup name with
      | some r => .ok { cp with amp := r.1 }
      | none =>
        match Mode.ofStr? name with
        | some md => .ok { cp with mode := some md }
        | none =>
          match Acc.ofStr? name with
          | some a => .ok { cp with acc := some a }
          | none => .error .attr

/-- kinds that `Note.o` moves -/
def movedByO : Kind → Bool
  | .s | .h | .c | .b | .a | .x => true
  | _ => false

/-- one application of the chain to a note -/
def evalOp (n : Note) : Op → Res Note
  | .attr name => evalAttr (copy n) name
  | .o k => if movedByO n.kind then .ok { copy n with oct := (copy n).oct + k } else .ok (copy n)
  | .oabs k => .ok { copy n with oct := (copy n).oct + k }
  | .augment a b =>
      if b = 0 then .error .zerodiv          -- `frac(a, 0)`
      else .ok { copy n with dur := limitD ((copy n).dur * ((a : Rat) / (b : Rat))) }
  | .addTags ts => .ok { copy n with tags := unionTags (copy n).tags ts }
  | .setAmp k => .ok { copy n with amp := (k : Rat) }      -- `Note.set_amp(int)`: copy, then the amplitude

def evalOps : Note → List Op → Res Note
  | n, [] => .ok n
  | n, op :: ops =>
      match evalOp n op with
      | .ok m => evalOps m ops
      | .error e => .error e

/-- a name of `musiclang.library` bound to a note (`NameError` otherwise) -/
def symbol (name : String) : Res Note :=
  match LIBRARY_NOTES.lookup name with
  | some n => .ok n
  | none => .error .other

def evalCode (c : Code) : Res Note :=
  match symbol c.sym with
  | .ok n => evalOps n c.ops
  | .error e => .error e

/-- `a + b + …` (operands left to right; `Note + Note` and `Melody + Note` copy nothing).  The
empty text is a `SyntaxError`. -/
def evalMelody : List Code → Res Melody
  | [] => .error .other
  | cs => cs.mapM evalCode

/-! ## evaluator: tonalities -/

/-- `I` … `VII` of the library -/
def elementOf (sym : String) : Res Int :=
  match ELEMENT_TO_STR.find? (fun p => p.2 == sym) with
  | some p => .ok p.1
  | none => .error .other

inductive TVal where
  | elem (v : Int)
  | ton (t : Tonality)
  deriving DecidableEq, Repr, Inhabited

/-- `Tonality(SCALE_DEGREE[val])` of the `Element` properties -/
def elementTon (v : Int) : Res Tonality := do
  let d ← lookupKey v SCALE_DEGREE
  pure ⟨d, .M, 0⟩

def evalTOp : TVal → TOp → Res TVal
  | .elem v, .flat => do pure (.ton (Eq.tonFlat (← elementTon v)))
  | .elem v, .sharp => do pure (.ton (Eq.tonSharp (← elementTon v)))
  | .elem v, .mode md => do pure (.ton { (← elementTon v) with mode := md })
  | .elem _, .o _ => .error .other       -- `Element.o` is a chord: `% chord` raises Exception
  | .ton t, .flat => .ok (.ton (Eq.tonFlat t))
  | .ton t, .sharp => .ok (.ton (Eq.tonSharp t))
  | .ton t, .mode md => .ok (.ton { t with mode := md })
  | .ton t, .o k => .ok (.ton (Eq.tonO t k))

def evalTOps : TVal → List TOp → Res TVal
  | v, [] => .ok v
  | v, op :: ops =>
      match evalTOp v op with
      | .ok w => evalTOps w ops
      | .error e => .error e

/-- a tonality expression; a bare element is not a tonality (`Following % should be a Tonality`) -/
def evalTCode (c : TCode) : Res Tonality := do
  let v ← elementOf c.sym
  match ← evalTOps (.elem v) c.ops with
  | .ton t => pure t
  | .elem _ => .error .other

/-! ## evaluator: chords -/

/-- `str.split('__')` on characters -/
def splitUU : List Char → List Char → List (List Char)
  | [], cur => [cur.reverse]
  | '_' :: '_' :: rest, cur => cur.reverse :: splitUU rest []
  | c :: rest, cur => splitUU rest (c :: cur)

/-- `int(text)` for a run of ASCII digits -/
def digitsToNat? (cs : List Char) : Option Nat :=
  if cs.isEmpty then none
  else cs.foldl (fun acc c => match acc with
    | none => none
    | some a => if c.isDigit then some (a * 10 + (c.toNat - '0'.toNat)) else none) (some 0)

/-- the key handling of `preparse_named_melodies`: (normalised key, is a drums part) -/
def partKey (key : String) : Res (String × Bool) :=
  match splitUU key.toList [] with
  | [obj] => .ok (String.ofList obj ++ "__" ++ toString (0 : Nat), "drums".toList.isPrefixOf obj)
  | obj :: num :: _ =>
      match digitsToNat? num with
      | some k => .ok (String.ofList obj ++ "__" ++ toString k, "drums".toList.isPrefixOf obj)
      | none => .error .value
  | [] => .error .value       -- not reached: `split` returns at least one piece

/-- `Note.convert_to_drum_note(chord)` -/
def convertToDrum (c : Chord) (n : Note) : Res Note :=
  if n.kind = .d || n.kind = .r || n.kind = .l then .ok (copy n)
  else do
    match ← c.toPitch n none with
    | some p => pure { copy n with kind := .d, val := p % 12, oct := p / 12 }
    | none => .error .type        -- `None % 12`

/-- the drums branch: `new_mel = None; for n in mel.notes: new_mel += n.convert_to_drum_note(self)`;
`None + note` copies the first note once more -/
def drumMelody (c : Chord) : Melody → Res Melody
  | [] => .error .other         -- the part would be `None`; not expressible in the text
  | n :: ns => do
      let first ← convertToDrum c n
      let rest ← ns.mapM (convertToDrum c)
      pure (copy first :: rest)

/-- assignment into the result dict (a repeated key keeps its first position) -/
def dictSet (d : List (String × Melody)) (k : String) (v : Melody) : List (String × Melody) :=
  if d.any (fun p => p.1 == k) then d.map (fun p => if p.1 == k then (k, v) else p) else d ++ [(k, v)]

/-- `Chord.preparse_named_melodies` (melodies only, no list values); the melodies are the values
after `to_melody()` -/
def preparse (c : Chord) : List (String × Melody) → List (String × Melody) → Res (List (String × Melody))
  | [], acc => .ok acc
  | (key, mel) :: rest, acc => do
      let (k, drums) ← partKey key
      let m ← if drums then drumMelody c mel else pure mel
      preparse c rest (dictSet acc k m)

/-- the keyword arguments of a call: every melody expression is evaluated first, in order -/
def evalParts : PartCodes → Res (List (String × Melody))
  | [] => .ok []
  | (k, cs) :: rest => do
      let m ← evalMelody cs
      let r ← evalParts rest
      pure ((k, m) :: r)

/-- `Chord.copy` without the parts (`Chord.__init__` normalises the extension again) -/
def copyHead (c : Chord) : Chord := { c with ext := c.ext.normalize, ton := Eq.tonCopy c.ton }

def copyMelody (m : Melody) : Melody := m.map copy

/-- `Chord.copy` -/
def copyChord (c : Chord) : Chord :=
  { copyHead c with parts := c.parts.map (fun p => (p.1, copyMelody p.2)) }

/-- `x.to_melody()` of the value of a melody expression: a lone note is wrapped
(`Melody([note])`, nothing copied), a melody (two notes or more) is copied -/
def toMelody : Melody → Melody
  | [n] => [n]
  | ns => copyMelody ns

/-- `chord(**named_melodies)` -/
def callChord (c : Chord) (ps : PartCodes) : Res Chord := do
  let ms ← evalParts ps
  let parts ← preparse c (ms.map (fun p => (p.1, toMelody p.2))) []
  pure { copyHead c with parts := parts }

/-- `.o(k)` of a chord: copy, then `octave += k` -/
def chordO (c : Chord) : Option Int → Chord
  | none => c
  | some k => { copyChord c with oct := c.oct + k }

/-- `SYM` or `SYM['ext']`: the chord `Chord(element=v)` (no tonality yet), through `Chord.__getitem__`
when a figure is written -/
def elementExt (v : Int) : Option Ext → Res Chord
  | none => .ok { elem := v }
  | some e => ({ elem := v } : Chord).withExt e

/-- `(SYM['ext'] % TON).o(k)` — `Element.__getitem__` = `Chord(element)[ext]`, `Element.__mod__` =
`Chord(element) % other`, `Chord.__mod__` (the chord has no tonality yet: `None + other` is
`other`, a copy whose octave got the chord octave added) -/
def evalChordHead (cc : ChordCode) : Res Chord := do
  let v ← elementOf cc.sym
  let c1 ← elementExt v cc.ext
  let t ← evalTCode cc.ton
  let c2 : Chord := { copyChord c1 with ton := { Eq.tonCopy t with oct := t.oct + c1.oct }, oct := 0 }
  pure (chordO c2 cc.oct)

def evalChord (cc : ChordCode) : Res Chord := do
  let h ← evalChordHead cc
  callChord h cc.parts

/-- `TON(notes…).o(k)(parts)`: `Tonality.__call__` builds `CustomChord(notes, tonality=self)`;
`CustomChord.copy` keeps the same `notes` tuple -/
def evalCustom (cc : CustomCode) : Res Custom := do
  let t ← evalTCode cc.ton
  let notes ← cc.notes.mapM evalCode
  let c0 : Chord := { elem := 0, ton := t }
  let c1 := chordO c0 cc.oct
  let c2 ← callChord c1 cc.parts
  pure { notes := notes, chord := c2 }

def evalItem : ItemCode → Res Item
  | .plain c => do pure (.plain (← evalChord c))
  | .custom c => do pure (.custom (← evalCustom c))

/-! ## evaluator: scores (`Score.from_str`) -/

def ItemCode.isPlain : ItemCode → Bool
  | .plain _ => true
  | .custom _ => false

/-- does the text of the item start with `(`, `I` or `V` (the look-ahead `(?=[(IV])` of the split)?
A plain chord starts with `(`, a custom chord with the symbol of its tonality -/
def cutSym (sym : String) : Bool :=
  match sym.toList with
  | ch :: _ => ch == 'I' || ch == 'V'
  | [] => false

def ItemCode.cutBefore : ItemCode → Bool
  | .plain _ => true
  | .custom c => cutSym c.ton.sym

/-- `re.split(r'(?<=\))\s*\+\s*(?=[(IV])', text)` on the items: the text is cut in front of every
item whose text starts with `(`, `I` or `V` (every item ends with `)`), except the first item -/
def pieces : List ItemCode → List (List ItemCode)
  | [] => []
  | x :: rest => go [x] rest
where
  go (cur : List ItemCode) : List ItemCode → List (List ItemCode)
    | [] => [cur.reverse]
    | y :: ys => if y.cutBefore then cur.reverse :: go [y] ys else go (y :: cur) ys

def copyItem : Item → Item
  | .plain c => .plain (copyChord c)
  | .custom c => .custom { c with chord := copyChord c.chord }

/-- what `Score.chords` can hold after `from_str`: chords, or a whole score when a piece was a sum
(only for a custom chord whose tonality symbol the look-ahead does not know; never for printed text) -/
inductive Obj where
  | chord (i : Item)
  | score (l : List Item)
  deriving DecidableEq, Repr, Inhabited

/-- `c0 + c1 + … + ck` for k ≥ 1: `Chord + Chord` copies both, `Score + Chord` copies the score
and appends the chord itself -/
def sumItems : List Item → List Item
  | [] => []
  | [a] => [a]
  | a :: b :: rest => rest.foldl (fun acc c => acc.map copyItem ++ [c]) [copyItem a, copyItem b]

/-- value of one piece: the chord itself, or the score of a sum -/
def evalPiece (p : List ItemCode) : Res Obj := do
  let items ← p.mapM evalItem
  match items with
  | [a] => pure (.chord a)
  | l => pure (.score (sumItems l))

/-- `Score.from_str(text)` for the text of the given items: the chords of the result (a single
chord is returned as such by the code; here it is the one-element list).  First branch: every
piece is evaluated, the first must be a chord; otherwise (or on any exception) the whole text is
evaluated as one sum. -/
def fromStr (items : List ItemCode) : Res (List Obj) :=
  let viaPieces : Res (List Obj) := do
    let objs ← (pieces items).mapM evalPiece
    match objs with
    | .chord _ :: _ => pure objs
    | _ => .error .assertion
  match viaPieces with
  | .ok objs => .ok objs
  | .error _ => do
      let all ← items.mapM evalItem
      match all with
      | [] => .error .other            -- the empty text is a SyntaxError
      | l => pure ((sumItems l).map Obj.chord)

/-- the chords of a result without nesting (`none` when a score sits inside the score) -/
def flat : List Obj → Option (List Item)
  | [] => some []
  | .chord i :: rest => (flat rest).map (i :: ·)
  | .score _ :: _ => none

/-- the whole round trip `Score.from_str(str(score))` -/
def reread (s : List Item) : Res (List Obj) := do
  let codes ← scoreCodes s
  fromStr codes

/-! ## the tabular form (`to_sequence` / `from_sequence`) -/

/-- one row of the DataFrame: the columns `sequence_to_score` reads, plus `start` -/
structure SeqRow where
  chordIdx : Nat
  start : Rat
  elem : Int
  ext : Ext
  coct : Int
  ton : Tonality
  inst : String
  silence : Bool
  cont : Bool
  kind : Kind
  val : Int
  oct : Int
  amp : Rat
  dur : Rat
  deriving DecidableEq, Repr, Inhabited

/-- `Melody.to_sequence`: `chord.to_pitch(note)` is evaluated for every note (it raises for a
relative note, `last_pitch` being `None`) -/
def melodyRows (c : Chord) (idx : Nat) (inst : String) : Melody → Rat → Res (List SeqRow)
  | [], _ => .ok []
  | n :: ns, time => do
      let _ ← c.toPitch n none
      let rest ← melodyRows c idx inst ns (time + n.dur)
      pure ({ chordIdx := idx, start := time, elem := c.elem, ext := c.ext.normalize, coct := c.oct, ton := c.ton,
              inst := inst, silence := n.kind == .r, cont := n.kind == .l, kind := n.kind, val := n.val,
              oct := n.oct, amp := n.amp, dur := n.dur } :: rest)

def chordRows (c : Chord) (idx : Nat) (time : Rat) : List (String × Melody) → Res (List SeqRow)
  | [] => .ok []
  | (inst, m) :: rest => do
      let a ← melodyRows c idx inst m time
      let b ← chordRows c idx time rest
      pure (a ++ b)

/-- `score_to_sequence` before the final `sort_values(by='start')` -/
def scoreRows : Score → Nat → Rat → Res (List SeqRow)
  | [], _, _ => .ok []
  | c :: cs, idx, time => do
      let a ← chordRows c idx time c.parts
      let b ← scoreRows cs (idx + 1) (time + Chord.duration c)
      pure (a ++ b)

/-- first-appearance order of the values of a key (`groupby(..., sort=False)`) -/
def firstSeen [DecidableEq κ] (key : α → κ) (l : List α) : List κ :=
  l.foldl (fun acc x => if acc.contains (key x) then acc else acc ++ [key x]) []

/-- Python `int(x)`: truncation towards zero -/
def pyInt (q : Rat) : Int := if q ≥ 0 then q.floor else -((-q).floor)

/-- a note from a row -/
def rowNote (r : SeqRow) : Note :=
  if r.silence then { kind := .r, val := 0, oct := 0, dur := limitD r.dur }
  else if r.cont then { kind := .l, val := 0, oct := 0, dur := limitD r.dur }
  else { kind := r.kind, val := r.val, oct := r.oct, dur := limitD (limitDenominator 8 r.dur), amp := (pyInt r.amp : Int) }

/-- one chord of `sequence_to_score` from the rows of its `chord_idx` group: header from the first row,
instruments in order of first appearance (`groupby('instrument', sort=False)`), the notes of an
instrument in row order; the chord is then called with the parts (`chord(**parts)`: key handling and
drums conversion of `preparse_named_melodies`; every part is a `Melody`, so `to_melody()` copies it) -/
def groupChord (g : List SeqRow) : Res Chord :=
  match g with
  | [] => .error .index
  | r0 :: _ => do
      let head : Chord := { elem := r0.elem, ext := r0.ext.normalize, ton := r0.ton, oct := r0.coct }
      let insts := firstSeen (·.inst) g
      let parts := insts.map (fun i => (i, copyMelody ((g.filter (fun r => r.inst == i)).map rowNote)))
      let ps ← preparse head parts []
      pure { copyHead head with parts := ps }

/-- `sequence_to_score` on the rows in the order given (the DataFrame after `sort_values`): chords in
ascending `chord_idx` (`groupby('chord_idx')`) -/
def fromRows (rows : List SeqRow) : Res Score :=
  let idxs := sortedDedup ((rows.map (fun r => (r.chordIdx : Int))))
  idxs.mapM (fun i => groupChord (rows.filter (fun r => (r.chordIdx : Int) == i)))

end MV.Text
