/-
Text level of `Chord.get_extension_properties` (chord.py): the regex / `str.replace`
parser that turns an extension *string* into (base figure, replacements, additions,
removals).  Kept apart from the structured model: theorems are stated on `Ext`; this
glue is tied to the code by the correspondence stream only.
-/
import MV.Model.Pitch

namespace MV

/-- `re.findall(r'\<open>(.*?)\<close>', s)`: non-greedy groups, left to right -/
def findGroups (op cl : Char) (s : List Char) : List String :=
  go s none [] s.length
where
  go : List Char → Option (List Char) → List String → Nat → List String
  | _, _, acc, 0 => acc.reverse
  | [], _, acc, _ => acc.reverse
  | ch :: rest, none, acc, fuel + 1 =>
      if ch == op then
        if rest.contains cl then go rest (some []) acc fuel else acc.reverse
      else go rest none acc fuel
  | ch :: rest, some cur, acc, fuel + 1 =>
      if ch == cl then go rest none (String.ofList cur.reverse :: acc) fuel
      else go rest (some (ch :: cur)) acc fuel

/-- `get_extension_properties` on text: leftover text, sorted modifier lists -/
def extPropsText (text : String) : String × List String × List String × List String :=
  let ext := (text.splitOn "|").headD ""
  let cs := ext.toList
  let repl := sortStrs (findGroups '(' ')' cs)
  let add := sortStrs (findGroups '[' ']' cs)
  let rem := sortStrs (findGroups '{' '}' cs)
  let stripped := (repl ++ add ++ rem).foldl (fun (e : String) r => if r.isEmpty then e else e.replace r "") ext
  let stripped := ((stripped.replace "()" "").replace "[]" "").replace "{}" ""
  (stripped, repl, add, rem)

/-- the structured extension a text denotes; an unknown leftover figure is the `KeyError`
of `BASE_EXTENSION_DICT[extension]` -/
def Ext.ofText (text : String) : Res Ext :=
  let (figText, r, a, m) := extPropsText text
  match Fig.ofStr? figText with
  | some f => .ok { fig := f, repl := r, add := a, rem := m }
  | none => .error .key

end MV
