/-
Data model shared by every property model (import-free, executable).

It mirrors the Python objects of `musiclang.write` field for field:
`Note` (note.py), `Tonality` (tonality.py), `Chord` (chord.py), `Score` (score.py).
Nothing here is "what the code should do": conversions and arithmetic live in the
per-module model files.
-/

namespace MV

/-- `Note.type` strings of the library.  `au`/`ad` do not exist as library symbols. -/
inductive Kind where
  | s | h | c | b | a | d | x | r | l
  | su | sd | hu | hd | cu | cd | bu | bd
  deriving DecidableEq, Repr, Inhabited

namespace Kind

def toStr : Kind → String
  | s => "s" | h => "h" | c => "c" | b => "b" | a => "a" | d => "d" | x => "x" | r => "r" | l => "l"
  | su => "su" | sd => "sd" | hu => "hu" | hd => "hd" | cu => "cu" | cd => "cd" | bu => "bu" | bd => "bd"

def all : List Kind := [s, h, c, b, a, d, x, r, l, su, sd, hu, hd, cu, cd, bu, bd]

def ofStr? (t : String) : Option Kind := all.find? (fun k => k.toStr == t)

/-- `NoteProperties.is_relative`: type ≠ "d" and contains "u" or "d" -/
def isRelative : Kind → Bool
  | su | sd | hu | hd | cu | cd | bu | bd => true
  | _ => false

/-- `is_up`: "u" in type[1:] -/
def isUp : Kind → Bool
  | su | hu | cu | bu => true
  | _ => false

/-- `is_down`: "d" in type[1:] -/
def isDown : Kind → Bool
  | sd | hd | cd | bd => true
  | _ => false

/-- `is_note`: type not in r, l, d, x -/
def isNote : Kind → Bool
  | r | l | d | x => false
  | _ => true

def isScale : Kind → Bool
  | s | su | sd => true
  | _ => false
def isChromatic : Kind → Bool
  | h | hu | hd => true
  | _ => false
def isChord : Kind → Bool
  | c | cu | cd => true
  | _ => false
def isBass : Kind → Bool
  | b | bu | bd => true
  | _ => false
def isAbsolute : Kind → Bool
  | a => true
  | _ => false
/-- `is_drum_note`: "d" in type (also true for sd, hd, cd, bd) -/
def isDrumNote : Kind → Bool
  | d | sd | hd | cd | bd => true
  | _ => false

end Kind

inductive Mode where
  | M | m | mm | dorian | phrygian | lydian | mixolydian | aeolian | locrian
  deriving DecidableEq, Repr, Inhabited

namespace Mode
def toStr : Mode → String
  | M => "M" | m => "m" | mm => "mm" | dorian => "dorian" | phrygian => "phrygian"
  | lydian => "lydian" | mixolydian => "mixolydian" | aeolian => "aeolian" | locrian => "locrian"
def all : List Mode := [M, m, mm, dorian, phrygian, lydian, mixolydian, aeolian, locrian]
def ofStr? (t : String) : Option Mode := all.find? (fun k => k.toStr == t)
end Mode

inductive Acc where
  | min | maj | natural | dim | aug
  deriving DecidableEq, Repr, Inhabited

namespace Acc
def toStr : Acc → String
  | min => "min" | maj => "maj" | natural => "natural" | dim => "dim" | aug => "aug"
def all : List Acc := [min, maj, natural, dim, aug]
def ofStr? (t : String) : Option Acc := all.find? (fun k => k.toStr == t)
end Acc

structure Note where
  kind : Kind
  val : Int
  oct : Int
  dur : Rat := 1
  mode : Option Mode := none
  acc : Option Acc := none
  amp : Rat := 66
  tags : List String := []
  tempo : Option Int := none
  pedal : Option Bool := none
  deriving DecidableEq, Repr, Inhabited

structure Tonality where
  deg : Int
  mode : Mode
  oct : Int
  deriving DecidableEq, Repr, Inhabited

/-- The base figure of a figured-bass extension (keys of `BASE_EXTENSION_DICT`;
`f5` is the explicit `'5'`, `f0` the empty figure). -/
inductive Fig where
  | f0 | f5 | f6 | f64 | f7 | f65 | f43 | f2 | f9 | f11 | f13
  deriving DecidableEq, Repr, Inhabited

namespace Fig
def toStr : Fig → String
  | f0 => "" | f5 => "5" | f6 => "6" | f64 => "64" | f7 => "7" | f65 => "65" | f43 => "43"
  | f2 => "2" | f9 => "9" | f11 => "11" | f13 => "13"
def all : List Fig := [f0, f5, f6, f64, f7, f65, f43, f2, f9, f11, f13]
def ofStr? (t : String) : Option Fig := all.find? (fun k => k.toStr == t)
end Fig

/-- A figured-bass extension in structured form: base figure and the three
modifier lists *in the order written*. -/
structure Ext where
  fig : Fig := .f0
  repl : List String := []
  add : List String := []
  rem : List String := []
  deriving DecidableEq, Repr, Inhabited

abbrev Melody := List Note

structure Chord where
  elem : Int
  ext : Ext := {}
  ton : Tonality := ⟨0, .M, 0⟩
  oct : Int := 0
  parts : List (String × Melody) := []
  deriving DecidableEq, Repr, Inhabited

abbrev Score := List Chord

/-- error values shared by models: the class of exception the Python code raises -/
inductive Err where
  | index     -- IndexError
  | key       -- KeyError
  | value     -- ValueError
  | type      -- TypeError
  | zerodiv   -- ZeroDivisionError
  | attr      -- AttributeError
  | assertion -- AssertionError
  | other     -- Exception(...)
  deriving DecidableEq, Repr, Inhabited

namespace Err
def toStr : Err → String
  | index => "IndexError" | key => "KeyError" | value => "ValueError" | type => "TypeError"
  | zerodiv => "ZeroDivisionError" | attr => "AttributeError" | assertion => "AssertionError"
  | other => "Exception"
end Err

abbrev Res (α : Type) := Except Err α

deriving instance DecidableEq for Except

end MV
