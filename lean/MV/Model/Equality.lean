/-
Model of equality, copying and hashing of the five kinds of objects (C20):

  note.py     : Note.__eq__ (= `MV.Note.pyEq`), Note.__hash__ (REPAIRED code, D12: hash of the
                tuple of compared fields), Note.copy / Silence.copy / Continuation.copy,
                Note.oabs / o / set_duration (copy-based), Note.to_code (the printed form)
  note_properties.py : amp_figure (cascade on exact rationals; tied to the float code by
                `MV.Gen.Dynamics`)
  fractions.py: Fraction.limit_denominator (applied by `Note.__init__`, hence by every copy)
  melody.py   : Melody.to_code / __repr__, __eq__ (equality of the printed form), __hash__, copy
  tonality.py : add, _eq, __eq__ (normal form), to_code / __repr__, __hash__, copy, s, b, o
  chord.py    : chord_equals, score_equals (dict equality), __eq__, to_code, melody_to_str,
                __repr__, __hash__, copy, o
  score.py    : __eq__, copy, __repr__; `Score` defines `__eq__` and no `__hash__` => unhashable
  mask.py     : NoteInMask, ChordInMask, TonalityInMask (set / list membership)
  Python      : `x in set`, `set(list)`, `x in list`, `dict == dict`

Function for function, defects included.  What "the hash" is: Python's `hash` of a *key*
(the printed form, or for notes the tuple of compared fields); the model computes the key
(`Res`: `hash(x)` raises where `repr(x)` raises) and takes the hash function of keys as a
parameter `h` wherever a hash is compared, so that nothing depends on it being injective.

Tags: `Note.tags` is the *iteration order* of the Python set (the harness sends it as such);
`to_code` prints the set in that order.  A copy re-inserts the tags into a new set, whose
iteration order is an input of the model (`noteCopyWith`).

Domain notes: chords carry a tonality; chord degree is looked up in `ELEMENT_TO_STR` (KeyError
outside 0..6); inside melodies a note of kind `r` / `l` is an instance of `Silence` /
`Continuation` (the library's own `r` and `l`), every other kind an instance of `Note`.
-/
import MV.Model.Pitch
import MV.Gen.Dynamics

namespace MV.Eq
open MV Gen

/-! ### Python containers -/

/-- `x in S` for a set (or the keys of a dict) given as the list of its stored elements:
the hash of `x` is computed first (may raise), then a stored `y` matches when the hashes agree
and `y == x` (`y is x` implies both for our objects). -/
def pyIn (hash : α → Res η) [DecidableEq η] (eq : α → α → Bool) (x : α) (S : List α) : Res Bool := do
  let hx ← hash x
  pure (S.any (fun y => decide (hash y = .ok hx) && eq y x))

/-- `set(l)`: elements are inserted left to right, an element that is already `in` is dropped -/
def pySetOf (hash : α → Res η) [DecidableEq η] (eq : α → α → Bool) : List α → List α → Res (List α)
  | [], acc => .ok acc
  | x :: xs, acc => do
      let present ← pyIn hash eq x acc
      pySetOf hash eq xs (if present then acc else acc ++ [x])

/-- `x in l` for a list: `any(y is x or y == x for y in l)`, no hashing -/
def pyInList (eq : α → α → Bool) (x : α) (l : List α) : Bool := l.any (fun y => eq y x)

/-! ### fractions.py -/

/-- the `while True` loop of `limit_denominator` (fuel = an upper bound on the number of
continued-fraction steps, at most about 1.45·log2 of the denominator) -/
def limitLoop (maxD : Int) : Nat → (Int × Int × Int × Int) → (Int × Int) → (Int × Int × Int × Int) × (Int × Int)
  | 0, pq, nd => (pq, nd)
  | fuel + 1, (p0, q0, p1, q1), (n, d) =>
      if d = 0 then ((p0, q0, p1, q1), (n, d))      -- not reached: q2 exceeds maxD before d = 0
      else
        let a := n / d
        let q2 := q0 + a * q1
        if q2 > maxD then ((p0, q0, p1, q1), (n, d))
        else limitLoop maxD fuel (p1, q1, p0 + a * p1, q2) (d, n - a * d)

/-- `Fraction.limit_denominator(max_denominator)` for `max_denominator ≥ 1` -/
def limitDenominator (q : Rat) (maxD : Nat) : Rat :=
  if q.den ≤ maxD then q
  else
    let ((p0, q0, p1, q1), (_, d)) := limitLoop maxD (2 * Nat.log2 q.den + 8) (0, 1, 1, 0) (q.num, q.den)
    let k := ((maxD : Int) - q0) / q1
    if 2 * d * (q0 + k * q1) ≤ q.den then mkRat p1 q1.toNat
    else mkRat (p0 + k * p1) (q0 + k * q1).toNat

/-! ### note.py -/

/-- `Note.__eq__`: type, val, duration, octave, mode -/
def noteEq (a b : Note) : Bool := a.pyEq b

/-- the tuple hashed by `Note.__hash__` (repaired code): exactly the compared fields -/
abbrev NoteKey := Kind × Int × Rat × Int × Option Mode

def noteKey (n : Note) : NoteKey := (n.kind, n.val, n.dur, n.oct, n.mode)

/-- `hash(note)` for a hash function `h` of tuples; never raises -/
def noteHash (h : NoteKey → η) (n : Note) : Res η := .ok (h (noteKey n))

/-- the Python class of a note object -/
inductive NoteClass where
  | note | silence | continuation
  deriving DecidableEq, Repr, Inhabited

/-- class of a note met inside a melody (domain note above) -/
def classOf (n : Note) : NoteClass :=
  match n.kind with
  | .r => .silence
  | .l => .continuation
  | _ => .note

/-- `copy()` of the three classes; `tags'` is the iteration order of the new tag set.
`Note.copy` re-passes every field to `Note.__init__` (which limits the denominator of the
duration); `Silence.copy` = `Silence(duration, tempo, pedal, tags)` and `Continuation.copy` =
`Continuation(duration, tempo, pedal, tags)` (the tempo is kept since fix 4db7f2f) rebuild the note from the duration only. -/
def noteCopyWith (tags' : List String) (cls : NoteClass) (n : Note) : Note :=
  let dur := limitDenominator n.dur LIMIT_DENOM
  match cls with
  | .note => { n with dur := dur, tags := tags' }
  | .silence => { kind := .r, val := 0, oct := 0, dur := dur, tags := tags', tempo := n.tempo, pedal := n.pedal }
  | .continuation => { kind := .l, val := 0, oct := 0, dur := dur, tags := tags', tempo := n.tempo, pedal := n.pedal }

/-- `copy()` when the new set iterates like the old one (CPython copies the table of a set
without deleted slots as is) -/
def noteCopy (cls : NoteClass) (n : Note) : Note := noteCopyWith n.tags cls n

/-- `Note.oabs`: copy, then `octave += k` -/
def noteOabs (cls : NoteClass) (n : Note) (k : Int) : Note :=
  let c := noteCopy cls n
  { c with oct := c.oct + k }

/-- `Note.o`: kinds s h c b a x move, every other kind is only copied -/
def noteO (cls : NoteClass) (n : Note) (k : Int) : Note :=
  match n.kind with
  | .s | .h | .c | .b | .a | .x => noteOabs cls n k
  | _ => noteCopy cls n

/-- `Note.set_duration(value)` for an integer or `Fraction` value -/
def noteSetDuration (cls : NoteClass) (n : Note) (v : Rat) : Note :=
  { noteCopy cls n with dur := limitDenominator v LIMIT_DENOM }

/-- the cascade of `NoteProperties.amp_figure` on the exact quotient `amp / 120` -/
def ampCascade (amp : Rat) : String :=
  let n := amp / 120
  match AMP_THRESHOLDS.find? (fun p => n ≤ p.1) with
  | some p => p.2
  | none => AMP_TOP

/-- `NoteProperties.amp_figure`.  The code divides in floating point: `120 * 0.26 / 120` rounds
back to `0.26` although the exact quotient of the float `120 * 0.26` is above the float `0.26`.
Float rounding is not modelled; for the amplitudes set by the eight dynamics (`ppp` … `fff`, the
only non-integer amplitudes of the library) the figure is the one the live code computes
(generated table `DYNAMICS`), every other amplitude goes through the exact cascade. -/
def ampFigure (amp : Rat) : String :=
  match DYNAMICS.find? (fun r => r.2.1 == amp) with
  | some r => r.2.2
  | none => ampCascade amp

/-- the duration part of `Note.to_code` -/
def durCode (d : Rat) : String :=
  if d = 1 then ""
  else match DURATION_TO_STR.lookup d with
    | some s => "." ++ s
    | none => ".augment(frac(" ++ toString d.num ++ ", " ++ toString d.den ++ "))"

/-- `str(set_of_strings)` in the given iteration order -/
def tagsRepr (tags : List String) : String :=
  "{" ++ ", ".intercalate (tags.map (fun t => "'" ++ t ++ "'")) ++ "}"

/-- `Note.to_code` = `repr(note)` -/
def noteCode (n : Note) : String :=
  let isNote := n.kind.isNote
  let head :=
    if isNote then n.kind.toStr ++ toString n.val
    else if n.kind = .d then
      "d" ++ toString n.val ++ (if n.oct ≠ 0 then ".oabs(" ++ toString n.oct ++ ")" else "")
    else if n.kind = .x then "x" ++ toString n.val
    else n.kind.toStr
  let printed := n.kind ≠ .r && n.kind ≠ .l          -- every kind but rests and continuations
  let oct :=
    if n.oct ≠ 0 && (isNote || n.kind = .x) then
      (if !n.kind.isRelative then ".o(" else ".oabs(") ++ toString n.oct ++ ")"
    else ""
  let mode := match n.mode with
    | some md => if printed then "." ++ md.toStr else ""
    | none => ""
  let acc := match n.acc with
    | some a => if printed then "." ++ a.toStr else ""
    | none => ""
  let amp :=
    if isNote || n.kind = .x || n.kind = .d then
      let f := ampFigure n.amp
      if f = "n" then ".set_amp(0)"          -- `.n` would be the rhythmic suffix n
      else if f ≠ "mf" then "." ++ f else ""
    else ""
  let tags := if n.tags.length > 0 then ".add_tags(" ++ tagsRepr n.tags ++ ")" else ""
  head ++ durCode n.dur ++ oct ++ mode ++ acc ++ amp ++ tags

/-! ### melody.py -/

/-- `Melody.to_code` = `repr(melody)` -/
def melodyCode (m : Melody) : String := " + ".intercalate (m.map noteCode)

/-- `Melody.__eq__` (two melodies): `str(other) == str(self)` -/
def melodyEq (a b : Melody) : Bool := melodyCode b == melodyCode a

/-- `hash(melody)` = hash of the printed form; the key never raises -/
def melodyKey (m : Melody) : Res String := .ok (melodyCode m)

/-- `Melody.copy` with the iteration orders of the new tag sets given note by note
(a missing entry = same order) -/
def melodyCopyWith : List (List String) → Melody → Melody
  | _, [] => []
  | [], n :: ns => noteCopy (classOf n) n :: melodyCopyWith [] ns
  | t :: ts, n :: ns => noteCopyWith t (classOf n) n :: melodyCopyWith ts ns

def melodyCopy (m : Melody) : Melody := m.map (fun n => noteCopy (classOf n) n)

/-! ### tonality.py -/

/-- `Tonality.add` -/
def tonAdd (a b : Tonality) : Tonality :=
  let newAbs := a.deg + b.deg
  { deg := newAbs % 12, mode := b.mode, oct := a.oct + b.oct + newAbs / 12 }

/-- `Tonality._eq` -/
def tonRawEq (a b : Tonality) : Bool := a.deg == b.deg && a.mode == b.mode && a.oct == b.oct

/-- `Tonality.__eq__`: `(Tonality(0) + self)._eq(Tonality(0) + other)` -/
def tonEq (a b : Tonality) : Bool := tonRawEq (tonAdd ⟨0, .M, 0⟩ a) (tonAdd ⟨0, .M, 0⟩ b)

def tonCopy (t : Tonality) : Tonality := { deg := t.deg, mode := t.mode, oct := t.oct }

/-- `Tonality.s` -/
def tonSharp (t : Tonality) : Tonality :=
  let c := tonCopy t
  let d := c.deg + 1
  if d = 12 then { c with deg := 0, oct := c.oct + 1 } else { c with deg := d }

/-- `Tonality.b` -/
def tonFlat (t : Tonality) : Tonality :=
  let c := tonCopy t
  let d := c.deg - 1
  if d = -1 then { c with deg := 11, oct := c.oct - 1 } else { c with deg := d }

/-- `Tonality.o` -/
def tonO (t : Tonality) (k : Int) : Tonality := { tonCopy t with oct := t.oct + k }

def octCode (k : Int) : String := if k ≠ 0 then ".o(" ++ toString k ++ ")" else ""

/-- `Tonality.to_code` = `repr(tonality)`; `DEGREE_TO_STR[degree]` raises KeyError outside 0..11 -/
def tonCode (t : Tonality) : Res String := do
  let d ← lookupKey t.deg DEGREE_TO_STR
  pure (d ++ "." ++ t.mode.toStr ++ octCode t.oct)

/-- `hash(tonality)` = hash of the printed form -/
def tonKey (t : Tonality) : Res String := tonCode t

/-! ### chord.py -/

/-- `Chord.extension` as stored: `Chord.__init__` normalises the written text -/
def extText (c : Chord) : String := c.ext.normalize.toText

/-- `Chord.chord_equals` -/
def chordEquals (a b : Chord) : Bool :=
  a.elem == b.elem && extText a == extText b && tonEq a.ton b.ton && a.oct == b.oct

/-- Python `dict == dict` on the parts: same number of keys, every key of the left dict is in
the right one with an equal value -/
def dictEq (a b : List (String × Melody)) : Bool :=
  a.length == b.length &&
  a.all (fun p => match b.lookup p.1 with
    | some m => melodyEq p.2 m
    | none => false)

/-- `Chord.score_equals` -/
def scoreEquals (a b : Chord) : Bool := dictEq a.parts b.parts

/-- `Chord.__eq__` (two chords) -/
def chordEq (a b : Chord) : Bool := chordEquals a b && scoreEquals a b

/-- `Chord.extension_to_str` -/
def extCode (c : Chord) : String :=
  let e := extText c
  if e == "" then "" else "['" ++ e ++ "']"

/-- `Chord.to_code` -/
def chordCode (c : Chord) : Res String := do
  let e ← lookupKey c.elem ELEMENT_TO_STR
  let t ← tonCode c.ton
  pure ("(" ++ e ++ extCode c ++ " % " ++ t ++ ")" ++ octCode c.oct)

/-- `Chord.melody_to_str` -/
def partsCode (parts : List (String × Melody)) : String :=
  "\n" ++ ", \n".intercalate (parts.map (fun p => "\t" ++ p.1 ++ "=" ++ melodyCode p.2))

/-- `repr(chord)` -/
def chordRepr (c : Chord) : Res String := do
  let code ← chordCode c
  pure (code ++ "(" ++ partsCode c.parts ++ ")")

/-- `hash(chord)` = hash of the printed form -/
def chordKey (c : Chord) : Res String := chordRepr c

/-- `Chord.copy` -/
def chordCopy (c : Chord) : Chord :=
  { elem := c.elem, ext := c.ext.normalize, ton := tonCopy c.ton, oct := c.oct,
    parts := c.parts.map (fun p => (p.1, melodyCopy p.2)) }

/-- `Chord.o` -/
def chordO (c : Chord) (k : Int) : Chord := { chordCopy c with oct := c.oct + k }

/-! ### score.py -/

/-- `Score.__eq__` (two scores) -/
def scoreEq (a b : Score) : Bool :=
  if b.length != a.length then false
  else (a.zip b).all (fun p => chordEq p.1 p.2)

def scoreCopy (s : Score) : Score := s.map chordCopy

/-- `repr(score)` -/
def scoreRepr (s : Score) : Res String := do
  let cs ← s.mapM chordRepr
  pure ("+ \n".intercalate cs)

/-- `hash(score)`: the class defines `__eq__` without `__hash__`, so `hash` raises TypeError -/
def scoreKey (_ : Score) : Res String := .error .type

/-! ### mask.py -/

/-- `NoteInMask(notes, ignore_octave, ignore_rythm)(note)` -/
def noteInMask [DecidableEq η] (h : NoteKey → η) (notes : List Note) (ignOct ignRhy : Bool) (note : Note) : Res Bool := do
  let S ← pySetOf (noteHash h) noteEq notes []
  let S1 := if ignOct then S.map (fun c => noteO (classOf c) c (-c.oct)) else S
  let S2 := if ignRhy then S1.map (fun c => noteSetDuration (classOf c) c 1) else S1
  let n1 := if ignOct then noteO (classOf note) note (-note.oct) else note
  let n2 := if ignRhy then noteSetDuration (classOf n1) n1 1 else n1
  if ignOct || ignRhy then pure (pyInList noteEq n2 S2)      -- `self.notes` became a list
  else pyIn (noteHash h) noteEq n2 S2

/-- `hash(x)` through a hash function of the printed key -/
def hashVia (h : String → η) (key : α → Res String) (x : α) : Res η := do
  let k ← key x
  pure (h k)

/-- `ChordInMask(chords, ignore_octave)(element)` -/
def chordInMask [DecidableEq η] (h : String → η) (chords : List Chord) (ignOct : Bool) (element : Chord) : Res Bool := do
  let S ← pySetOf (hashVia h chordKey) chordEq chords []
  if ignOct then
    pure (pyInList chordEq (chordO element (-element.oct)) (S.map (fun c => chordO c (-c.oct))))
  else pyIn (hashVia h chordKey) chordEq element S

/-- `TonalityInMask(tonalities, ignore_octave)(element)` on `element.tonality`; with
`ignore_octave` the code evaluates `element.tonality.o(element.tonality.octave)` [sic] -/
def tonalityInMask [DecidableEq η] (h : String → η) (tons : List Tonality) (ignOct : Bool) (t : Tonality) : Res Bool := do
  let S ← pySetOf (hashVia h tonKey) tonEq tons []
  if ignOct then
    pure (pyInList tonEq (tonO t t.oct) (S.map (fun c => tonO c (-c.oct))))
  else pyIn (hashVia h tonKey) tonEq t S

end MV.Eq
