/-
Python built-ins used by the generated source images of group `SrcBetween` (`MV/Gen/SrcBetween*.lean`, written by
`harness/py2lean.py`): dicts read as association lists in insertion order, attribute access on an Optional value,
true division of Fractions.  Model-independent (no note / chord semantics here).
-/
import MV.Model.Basic

namespace MV.PyB

/-- `d[k] = v`: replace the value in place, or append the new key -/
def dictSet (d : List (String × α)) (k : String) (v : α) : List (String × α) :=
  if d.any (·.1 == k) then d.map (fun p => if p.1 == k then (k, v) else p) else d ++ [(k, v)]

/-- `d.get(k, default)` -/
def dictGet (d : List (String × α)) (k : String) (dflt : α) : α := (d.lookup k).getD dflt

/-- `d.update(e)` / `{**d, **e}` -/
def dictUpdate (d e : List (String × α)) : List (String × α) := e.foldl (fun acc p => dictSet acc p.1 p.2) d

/-- `x.attr` on an Optional value: `None.attr` raises AttributeError -/
def attrOf : Option α → Res α
  | some x => .ok x
  | none => .error .attr

/-- `a / b` on Fractions (`ZeroDivisionError` on 0) -/
def ratDiv (a b : Rat) : Res Rat := if b = 0 then .error .zerodiv else .ok (a / b)

end MV.PyB
