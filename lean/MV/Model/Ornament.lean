/-
Model of ornament realisation (C16):
  fractions.py      : Fraction.limit_denominator                     (`limitDenominator`)
  note.py           : set_duration, augment, `.n`, clear_note_tags, __add__/__radd__
  melody.py         : duration, set_duration (= augment(v / duration)), `.n`, __add__,
                      clear_note_tags, realize_tags (context threading)
  ornementation.py  : the 15 builders and `realize_tags` (order of the `if`s, the final
                      assertion, tag clearing)
  chord.py/score.py : Chord.realize_tags, Score.realize_tags (incl. the stale `final_notes`
                      of the last chord), Chord.duration
  out/to_midi.py    : get_track_list, create_melody_for_track (neighbour lookup with the
                      `Silence(1)` default, onset bookkeeping) — offsets and durations only

Function for function, in the code's shape.  Every place where the code rounds a duration
(`Fraction.limit_denominator(LIMIT_DENOM)` in `set_duration` / `augment`) goes through the
parameter `rd : Rat → Rat`; the code is `rd := limitDen` (below), exact arithmetic is
`rd := id`.  `new_note` of `ornementation.realize_tags` is a `Note` or a `Melody`: type `NM`.

Not modelled (not observable for the property, never compared): `copy()` of `Silence` /
`Continuation` resetting amp / tempo, `Melody.tags`, `nb_bars`.
-/
import MV.Model.Basic
import MV.Gen.Tables

namespace MV.Orn
open MV

/-! ### fractions.Fraction.limit_denominator -/

/-- the `while True` loop of `limit_denominator`; returns `(p0, q0, p1, q1, d)` at the `break`.
`fuel` bounds the number of turns (the `q` grow at least like Fibonacci numbers, so the loop
leaves after < 2·log₂(max)+4 turns; out of fuel is unreachable and returns the current state). -/
def limitLoop (maxd : Int) : Nat → Int → Int → Int → Int → Int → Int → (Int × Int × Int × Int × Int)
  | 0, p0, q0, p1, q1, _, d => (p0, q0, p1, q1, d)
  | fuel + 1, p0, q0, p1, q1, n, d =>
      let a := n / d
      let q2 := q0 + a * q1
      if q2 > maxd then (p0, q0, p1, q1, d)
      else limitLoop maxd fuel p1 q1 (p0 + a * p1) q2 d (n - a * d)

/-- `Fraction.limit_denominator(max_denominator)` for `max_denominator ≥ 1` (Python 3.12) -/
def limitDenominator (maxd : Nat) (q : Rat) : Rat :=
  if q.den ≤ maxd then q
  else
    let (p0, q0, p1, q1, d) := limitLoop maxd (2 * Nat.log2 maxd + 8) 0 1 1 0 q.num q.den
    let k := ((maxd : Int) - q0) / q1
    if 2 * d * (q0 + k * q1) ≤ q.den then mkRat p1 q1.toNat
    else mkRat (p0 + k * p1) (q0 + k * q1).toNat

/-- the rounding `note.py` applies to every duration it stores -/
def limitDen : Rat → Rat := limitDenominator Gen.LIMIT_DENOM

/-! ### note.py / melody.py pieces -/

/-- `Note.copy()` : `Note(…, self.duration, …)`, and `Note.__init__` rounds the duration -/
def copy (rd : Rat → Rat) (n : Note) : Note := { n with dur := rd n.dur }

/-- `Note.set_duration(value)` (value a `Fraction`): copy, store, round -/
def setDur (rd : Rat → Rat) (n : Note) (v : Rat) : Note := { n with dur := rd v }

/-- `Note.augment(value)` : copy (rounds), `duration *= value`, round -/
def augment (rd : Rat → Rat) (n : Note) (v : Rat) : Note := { n with dur := rd ((copy rd n).dur * v) }

/-- `note.n` : copy, `duration *= STR_TO_DURATION["n"]` (= 0; not rounded again) -/
def zeroDur (rd : Rat → Rat) (n : Note) : Note := { n with dur := (copy rd n).dur * 0 }

/-- `Note.clear_note_tags` : a copy without tags -/
def clearTags (rd : Rat → Rat) (n : Note) : Note := { copy rd n with tags := [] }

/-- `Melody.duration` : `sum(n.duration for n in notes)` -/
def durSum : List Note → Rat
  | [] => 0
  | n :: ns => n.dur + durSum ns

/-- library constants used by the builders (tied to `Gen.LIBRARY_NOTES` by a theorem) -/
def su1 : Note := { kind := .su, val := 1, oct := 0 }
def sd1 : Note := { kind := .sd, val := 1, oct := 0 }
def hu1 : Note := { kind := .hu, val := 1, oct := 0 }
def hd1 : Note := { kind := .hd, val := 1, oct := 0 }
def lCont : Note := { kind := .l, val := 0, oct := 0 }

/-- the value of `new_note` inside `ornementation.realize_tags`: a `Note` or a `Melody` -/
inductive NM where
  | note (n : Note)
  | mel (ns : List Note)
  deriving DecidableEq, Repr, Inhabited

namespace NM

def notes : NM → List Note
  | note n => [n]
  | mel ns => ns

/-- `.duration` of a note / a melody -/
def duration : NM → Rat
  | note n => n.dur
  | mel ns => durSum ns

/-- `x.set_duration(v)`; a melody scales every note by `v / self.duration` -/
def setDuration (rd : Rat → Rat) (x : NM) (v : Rat) : Res NM :=
  match x with
  | note n => .ok (note (setDur rd n v))
  | mel ns =>
      if durSum ns = 0 then .error .zerodiv
      else .ok (mel (ns.map (fun n => augment rd n (v / durSum ns))))

/-- `x.n` -/
def n (rd : Rat → Rat) : NM → NM
  | note k => note (zeroDur rd k)
  | mel ns => mel (ns.map (zeroDur rd))

/-- `a + b` (`Note.__add__`, `Melody.__add__`) -/
def add (a b : NM) : NM := mel (a.notes ++ b.notes)

/-- `x.clear_note_tags()`; `sum([...], None)` of an empty melody is `None`, written `mel []` -/
def clearNoteTags (rd : Rat → Rat) : NM → NM
  | note k => note (clearTags rd k)
  | mel ns => mel (ns.map (clearTags rd))

end NM

/-! ### ornementation.py : the builders -/

def accent (x : NM) : Res NM :=
  match x with
  | .note n => .ok (.note { n with amp := if 120 ≤ n.amp + 10 then 120 else n.amp + 10 })
  -- on a Melody `new_note.amp` is a melody of amplitudes (`Melody.__getattr__`), `+ 10` on it is `None`
  -- (`Melody.__add__` falls through) and `min(120, None)` raises; never reached from `realize_tags`, where
  -- `accent` is the first step and runs on `note.copy()`
  | .mel _ => .error .type

/-- common body of the four mordants (`aux` is `su1`, `sd1`, `hu1`, `hd1`) -/
def mordantWith (rd : Rat → Rat) (aux : Note) (x : NM) : Res NM :=
  let duration := x.duration
  let md : Rat := 1 / 4
  if duration ≥ 1 / 2 then do
    let a ← x.setDuration rd md
    let b := NM.note (setDur rd aux md)
    let c ← x.setDuration rd (x.duration - 2 * md)
    pure ((a.add b).add c)
  else pure x

def mordant (rd : Rat → Rat) (x : NM) : Res NM := mordantWith rd su1 x
def invMordant (rd : Rat → Rat) (x : NM) : Res NM := mordantWith rd sd1 x
def chromaMordant (rd : Rat → Rat) (x : NM) : Res NM := mordantWith rd hu1 x
def invChromaMordant (rd : Rat → Rat) (x : NM) : Res NM := mordantWith rd hd1 x

/-- `x.n + up(md) + x.set_duration(md) + down(md) + up(duration - 3*md)` -/
def grupettoFigure (rd : Rat → Rat) (up down : Note) (md : Rat) (x : NM) : Res NM := do
  let duration := x.duration
  let b := NM.note (setDur rd up md)
  let c ← x.setDuration rd md
  let d := NM.note (setDur rd down md)
  let e := NM.note (setDur rd up (duration - 3 * md))
  pure (((((x.n rd).add b).add c).add d).add e)

def grupetto (rd : Rat → Rat) (x : NM) : Res NM :=
  let duration := x.duration
  if duration ≥ 3 / 2 then grupettoFigure rd su1 sd1 (1 / 2) x
  else if duration ≥ 1 / 2 then grupettoFigure rd su1 sd1 ((2 / 3) * (1 / 4)) x
  else pure x

def invGrupetto (rd : Rat → Rat) (x : NM) : Res NM :=
  if x.duration ≥ 1 / 2 then grupettoFigure rd sd1 su1 ((2 / 3) * (1 / 4)) x else pure x

def chromaGrupetto (rd : Rat → Rat) (x : NM) : Res NM :=
  if x.duration ≥ 1 / 2 then grupettoFigure rd hu1 hd1 ((2 / 3) * (1 / 4)) x else pure x

def invChromaGrupetto (rd : Rat → Rat) (x : NM) : Res NM :=
  if x.duration ≥ 1 / 2 then grupettoFigure rd hd1 hu1 ((2 / 3) * (1 / 4)) x else pure x

/-- Python `int(q)` of a `Fraction`: truncation towards zero -/
def pyInt (q : Rat) : Int := Int.tdiv q.num q.den

/-- the `for i in range(nb_rolls)` loop: even turns append `x.set_duration(md)`, odd turns `su1` -/
def rollLoop (piece : List Note) (aux : Note) : Nat → Nat → List Note
  | _, 0 => []
  | i, k + 1 => (if i % 2 = 0 then piece else [aux]) ++ rollLoop piece aux (i + 1) k

/-- common body of `roll` (`md = 1/4`) and `roll_fast` (`md = 1/6`) -/
def rollWith (rd : Rat → Rat) (md : Rat) (x : NM) : Res NM :=
  let duration := x.duration
  let nb := pyInt (duration / md)
  if nb ≤ 0 then pure x
  else do
    let piece ← x.setDuration rd md      -- same value on every even turn; turn 0 always runs
    let body := rollLoop piece.notes (setDur rd su1 md) 0 nb.toNat
    if (nb : Rat) ≠ duration / md then
      pure (.mel (body ++ [setDur rd lCont (duration - nb * md)]))
    else pure (.mel body)

def roll (rd : Rat → Rat) (x : NM) : Res NM := rollWith rd (1 / 4) x
def rollFast (rd : Rat → Rat) (x : NM) : Res NM := rollWith rd (1 / 6) x

/-- `suspension` (tag `suspension_prev`); a `Note` is always truthy (`__len__` = 1) -/
def suspension (rd : Rat → Rat) (x : NM) (last : Option Note) : Res NM :=
  let duration := x.duration
  if last.isSome ∧ duration > 0 then do
    let b ← x.setDuration rd (duration / 2)
    pure ((NM.note (setDur rd lCont (duration / 2))).add b)
  else pure x

def suspensionPrevRepeat (rd : Rat → Rat) (x : NM) (last : Option Note) : Res NM :=
  let duration := x.duration
  match last with
  | some ln =>
      if duration > 0 then do
        let b ← x.setDuration rd (duration / 2)
        pure ((NM.note (setDur rd ln (duration / 2))).add b)
      else pure x
  | none => pure x

def retarded (rd : Rat → Rat) (x : NM) : Res NM :=
  let duration := x.duration
  let rdur : Rat := 1 / 12
  if duration > rdur then do
    let b ← x.setDuration rd (duration - rdur)
    pure ((NM.note (setDur rd lCont rdur)).add b)
  else pure x

/-- `val if type == 's' else int(7 * val / 12)`, `+ 7 * octave` -/
def scaleVal (n : Note) : Int :=
  (if n.kind = .s then n.val else Int.tdiv (7 * n.val) 12) + 7 * n.oct

/-- `Note.set_amp(amp)` for a numeric amp (`int(amp)` of a float) -/
def setAmp (n : Note) (amp : Rat) : Note := { n with amp := (pyInt amp : Rat) }

def interpolate (rd : Rat → Rat) (x : NM) (next : Option Note) : Res NM :=
  match x with
  | .mel ns => pure (.mel ns)                       -- not a Note: left alone
  | .note nn =>
    match next with
    | none => pure x
    | some nx =>
      if !nx.kind.isNote || !nn.kind.isNote then pure x
      else
        let first := scaleVal nn
        let second := scaleVal nx
        let delta := second - first
        if delta = 0 then pure x
        else
          let k := delta.natAbs
          let duration := nn.dur / (k : Rat)
          let temp := if delta > 0 then setDur rd su1 duration else setDur rd sd1 duration
          -- first turn: the note itself, the other |delta| - 1 turns: `temp_note`
          let melody := setDur rd nn duration :: List.replicate (k - 1) temp
          pure (.mel (melody.map (fun p => setAmp p nn.amp)))

/-! ### ornementation.realize_tags -/

/-- one `if '<tag>' in note.tags: new_note = builder(new_note, last_note, next_note)` -/
def stepIf (c : Bool) (f : NM → Res NM) (x : NM) : Res NM := if c then f x else pure x

/-- the fifteen `if`s in the code's order -/
def steps (rd : Rat → Rat) (tags : List String) (last next : Option Note) : List (NM → Res NM) :=
  [ stepIf (tags.contains "accent") accent,
    stepIf (tags.contains "mordant") (mordant rd),
    stepIf (tags.contains "inv_mordant") (invMordant rd),
    stepIf (tags.contains "chroma_mordant") (chromaMordant rd),
    stepIf (tags.contains "inv_chroma_mordant") (invChromaMordant rd),
    stepIf (tags.contains "grupetto") (grupetto rd),
    stepIf (tags.contains "inv_grupetto") (invGrupetto rd),
    stepIf (tags.contains "chroma_grupetto") (chromaGrupetto rd),
    stepIf (tags.contains "inv_chroma_grupetto") (invChromaGrupetto rd),
    stepIf (tags.contains "roll") (roll rd),
    stepIf (tags.contains "roll_fast") (rollFast rd),
    stepIf (tags.contains "suspension_prev") (fun x => suspension rd x last),
    stepIf (tags.contains "suspension_prev_repeat") (fun x => suspensionPrevRepeat rd x last),
    stepIf (tags.contains "retarded") (retarded rd),
    stepIf (tags.contains "interpolate") (fun x => interpolate rd x next) ]

/-- run the steps left to right, stopping at the first exception -/
def chain : List (NM → Res NM) → NM → Res NM
  | [], x => .ok x
  | f :: fs, x => match f x with
      | .ok y => chain fs y
      | .error e => .error e

/-- the tail of `realize_tags`: `assert new_note.duration == note.duration`, clear the tags -/
def finish (rd : Rat → Rat) (note : Note) (x : NM) : Res NM :=
  if x.duration = note.dur then .ok (x.clearNoteTags rd) else .error .assertion

/-- `ornementation.realize_tags(note, last_note, next_note)`; `new_note = note.copy()` -/
def realizeTags (rd : Rat → Rat) (note : Note) (last next : Option Note) : Res NM :=
  match chain (steps rd note.tags last next) (.note (copy rd note)) with
  | .ok x => finish rd note x
  | .error e => .error e

/-! ### melody.py : Melody.realize_tags -/

/-- the loop body for the notes from index `idx` on; `prev` is `last_note` at that index.
`new_melody += figure` concatenates, so the result is the list of all pieces.  (`None + figure`
copies the first figure once more; its durations were rounded by `clear_note_tags` just before
and `limit_denominator` is idempotent, so that copy is not written out.) -/
def melodyLoop (rd : Rat → Rat) (final : Option Note) : Option Note → List Note → Res (List Note)
  | _, [] => .ok []
  | prev, [n] => do
      let r ← realizeTags rd n prev final
      pure r.notes
  | prev, n :: m :: rest => do
      let r ← realizeTags rd n prev (some m)
      let tl ← melodyLoop rd final (some n) (m :: rest)
      pure (r.notes ++ tl)

/-- `Melody.realize_tags(last_note, final_note)`; an empty melody ends in
`None.nb_bars = …` → `AttributeError` -/
def melodyRealize (rd : Rat → Rat) (notes : List Note) (last final : Option Note) : Res (List Note) :=
  match notes with
  | [] => .error .attr
  | _ => melodyLoop rd final last notes

/-! ### chord.py / score.py -/

/-- `Chord.realize_tags(last_note, final_note)` with the two dictionaries as association lists -/
def chordRealize (rd : Rat → Rat) (c : Chord) (lastD finalD : List (String × Note)) : Res Chord := do
  let parts ← c.parts.mapM (fun (p : String × Melody) => do
    let m ← melodyRealize rd p.2 (lastD.lookup p.1) (finalD.lookup p.1)
    pure (p.1, m))
  pure { c with parts := parts }

/-- `{ins: chord.score[ins].notes[-1] …}` -/
def lastNotes (c : Chord) : Res (List (String × Note)) :=
  c.parts.mapM (fun (p : String × Melody) => do
    let n ← pyIndex p.2 (-1)
    pure (p.1, n))

/-- `{ins: chord.score[ins].notes[0] …}` -/
def firstNotes (c : Chord) : Res (List (String × Note)) :=
  c.parts.mapM (fun (p : String × Melody) => do
    let n ← pyIndex p.2 0
    pure (p.1, n))

/-- `if idx > 0: last_notes = {…chords[idx-1]…}` (else the variable keeps its value) -/
def lastNotesAt (prev : Option Chord) (lastD : List (String × Note)) : Res (List (String × Note)) :=
  match prev with
  | some p => lastNotes p
  | none => pure lastD

/-- `if idx < len(self.chords)-1: final_notes = {…chords[idx+1]…}` (else the variable keeps its value) -/
def finalNotesAt (rest : List Chord) (finalD : List (String × Note)) : Res (List (String × Note)) :=
  match rest with
  | nx :: _ => firstNotes nx
  | [] => pure finalD

/-- the loop of `Score.realize_tags` from chord `idx` on; `lastD` / `finalD` are the loop
variables `last_notes` / `final_notes` *as left by the previous turn* (`final_notes` is not
reset on the last chord, so it still holds the first notes of that very chord). -/
def scoreLoop (rd : Rat → Rat) : List (String × Note) → List (String × Note) → Option Chord →
    List Chord → Res (List Chord)
  | _, _, _, [] => .ok []
  | lastD, finalD, prev, c :: rest => do
      let lastD ← lastNotesAt prev lastD
      let finalD ← finalNotesAt rest finalD
      let c' ← chordRealize rd c lastD finalD
      let tl ← scoreLoop rd lastD finalD (some c) rest
      pure (c' :: tl)

/-- `Score.realize_tags()`; `none` is the `None` an empty score returns -/
def scoreRealize (rd : Rat → Rat) (s : Score) : Res (Option Score) :=
  match s with
  | [] => .ok none
  | _ => do
      let r ← scoreLoop rd [] [] none s
      pure (some r)

/-- `Chord.duration` : max over the parts, 0 without parts -/
def chordDuration (c : Chord) : Rat :=
  match c.parts with
  | [] => 0
  | p :: ps => ps.foldl (fun acc q => if acc < durSum q.2 then durSum q.2 else acc) (durSum p.2)

/-! ### out/to_midi.py : onsets of one track -/

/-- `get_track_list` : `list(dict.fromkeys(sum([chord.parts …], [])))` -/
def trackList (s : Score) : List String :=
  (s.flatMap (fun c => c.parts.map (·.1))).foldl (fun acc k => if acc.contains k then acc else acc ++ [k]) []

/-- `score.chords[i].score.get(track, Melody([Silence(1)]))` -/
def partOrSilence (c : Chord) (track : String) : Melody :=
  match c.parts.lookup track with
  | some m => m
  | none => [{ kind := .r, val := 0, oct := 0, dur := 1 }]

/-- `melody_to_pitches` : one row `(offset, duration)` per note -/
def rowsOf : Rat → List Note → List (Rat × Rat)
  | _, [] => []
  | t, n :: ns => (t, n.dur) :: rowsOf (t + n.dur) ns

/-- `score.chords[idx_chord - 1].score.get(track, Melody([Silence(1)])).notes[-1] if idx_chord - 1 >= 0 else None` -/
def trackLast (prev : Option Chord) (track : String) : Res (Option Note) :=
  match prev with
  | some p => do let n ← pyIndex (partOrSilence p track) (-1); pure (some n)
  | none => pure none

/-- `score.chords[idx_chord + 1].score.get(track, Melody([Silence(1)])).notes[0] if idx_chord + 1 < len(score.chords) else None` -/
def trackNext (rest : List Chord) (track : String) : Res (Option Note) :=
  match rest with
  | nx :: _ => do let n ← pyIndex (partOrSilence nx track) 0; pure (some n)
  | [] => pure none

/-- the rows of one chord: nothing when the chord does not have the track -/
def trackChord (rd : Rat → Rat) (track : String) (time : Rat) (prev : Option Chord) (c : Chord)
    (rest : List Chord) : Res (List (Rat × Rat)) :=
  match c.parts.lookup track with
  | some part => do
      let last ← trackLast prev track
      let next ← trackNext rest track
      let enriched ← melodyRealize rd part last next
      pure (rowsOf time enriched)
  | none => pure []

/-- the chord loop of `create_melody_for_track` (offset and duration columns only) -/
def trackLoop (rd : Rat → Rat) (track : String) : Rat → Option Chord → List Chord → Res (List (Rat × Rat))
  | _, _, [] => .ok []
  | time, prev, c :: rest => do
      let here ← trackChord rd track time prev c rest
      let tl ← trackLoop rd track (time + chordDuration c) (some c) rest
      pure (here ++ tl)

def trackRows (rd : Rat → Rat) (s : Score) (track : String) : Res (List (Rat × Rat)) :=
  trackLoop rd track 0 none s

/-- `get_notes` : all tracks, in `get_track_list` order -/
def scoreRows (rd : Rat → Rat) (s : Score) : Res (List (List (Rat × Rat))) :=
  (trackList s).mapM (trackRows rd s)

end MV.Orn
