/-
Python built-ins as used by the generated source image `MV/Gen/SrcImport.lean` (written by `harness/py2lean.py` from
`musiclang/analyze/to_musiclang.py` and `item.py`): companion of `MV/Model/Py.lean` / `PyList.lean`; each definition states the
Python semantics of one construct.  No proofs here.
-/
import MV.Model.Basic

namespace MV.PyI

/-- `enumerate(l)` counting from `i` -/
def enumerateFrom (i : Int) : List α → List (Int × α)
  | [] => []
  | x :: xs => (i, x) :: enumerateFrom (i + 1) xs

/-- `enumerate(l)`: the pairs (index, item) -/
def enumerate (l : List α) : List (Int × α) := enumerateFrom 0 l

end MV.PyI
