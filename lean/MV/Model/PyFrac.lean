/-
Python built-ins on `fractions.Fraction` and the three-argument `range`, as used by the generated source image
`MV/Gen/SrcOrn.lean` (written by `harness/py2lean.py`).  Same role as `MV/Model/Py.lean`; kept in its own file so that
the source images generated before it are untouched.
-/
import MV.Model.Py

namespace MV.Py

/-- `a / b` on fractions, also `Fraction(a, b)` (`ZeroDivisionError` on 0) -/
def fracDiv (a b : Rat) : Res Rat := if b = 0 then .error .zerodiv else .ok (a / b)

/-- `int(q)` of a `Fraction`: truncation towards zero -/
def intOfFrac (q : Rat) : Int := Int.tdiv q.num q.den

/-- `int(a / b)` on ints with `b > 0`: the truncated quotient (the float quotient read as exact) -/
def intOfQuot (p : Int × Int) : Int := Int.tdiv p.1 p.2

/-- `list(range(a, b, s))` (`ValueError` on step 0) -/
def rangeStep (a b s : Int) : Res (List Int) :=
  if s = 0 then .error .value
  else if s > 0 then .ok ((List.range ((b - a + s - 1) / s).toNat).map (fun (i : Nat) => a + (i : Int) * s))
  else .ok ((List.range ((a - b + (-s) - 1) / (-s)).toNat).map (fun (i : Nat) => a + (i : Int) * s))

end MV.Py
