/-
Model of the transformer machinery (C18), function for function, in the code's shape:

  transform/mask.py             : every mask class (`__call__`, `child`, `__invert__`), the public
                                  constructors (`Mask.BeatIn` = `Note > BeatInMask`, …)
  transform/base_transformer.py : get_default, apply_on_melody / apply_on_chord / apply_on_score
                                  (with the kwargs each level adds)
  transform/transformer.py      : NoteTransformer / MelodyTransformer / ChordTransformer `__call__`
                                  (type dispatch), the *FilterTransform (`get_default = None`) and
                                  *MaskFilter (`on = self.on & on`) families
  transform/pipeline.py         : TransformPipeline / ConcatPipeline `__call__` (step tags)
  transform/note/basics.py      : LimitRegister, ApplySilence, ApplyContinuation, TransposeDiatonic,
                                  TransposeChromatic
  transform/melody/basics.py    : CircularPermutationMelody, ReverseMelody, InvertMelody
  write/note.py, melody.py, chord.py, score.py : copy, add_tag(s), add_tag_children, `+`,
                                  duration, `Chord.__call__` (as far as the dispatcher uses them)

The model follows the REPAIRED code (patches/C18-*.diff): every `apply_on_*` freezes the mask
at its own level first (`on = on.child(element, **kwargs)`), `TransposeDiatonic`,
`TransposeChromatic`, `LimitRegister` return a copy for the notes they do not handle, and
`Continuation.copy` keeps the tempo, `apply_on_score` accumulates into an empty score.

Objects are values (aliasing / in-place mutation is C06's business).  A tag set is a list of
strings read as a set (printed sorted, without duplicates).  `nb_bars` of a melody and the
`config` of a score are not part of the data model (the dispatcher resets both).

Domain notes (the harness never sends anything else): part names are in the normal form
`name__k` that `Chord.__call__` produces and do not start with `drums`; a rest / continuation
is an instance of `Silence` / `Continuation` (kind `r` / `l`); attribute-reading atoms
(`DurationInMask`, `ModeInMask`, …) are only ever called on the element type their public
constructor guards them with — on any other element `Atom.eval` answers `false`, where Python
could raise `AttributeError`.
-/
import MV.Model.Pitch

namespace MV.Transform

open MV Gen

/-! ### containers with tags (melody.py, chord.py, score.py) -/

structure TMelody where
  notes : List Note
  tags : List String := []
  deriving DecidableEq, Repr, Inhabited

/-- a chord with its parts: `base` carries element, extension, tonality, octave (`base.parts`
is not used) -/
structure TChord where
  base : Chord
  parts : List (String × TMelody) := []
  tags : List String := []
  deriving DecidableEq, Repr, Inhabited

structure TScore where
  chords : List TChord
  tags : List String := []
  deriving DecidableEq, Repr, Inhabited

/-- `set.add` -/
def addTag (t : String) (tags : List String) : List String := if t ∈ tags then tags else tags ++ [t]

/-- `set.union` -/
def unionTags (a b : List String) : List String := a ++ b.filter (fun t => !(a.contains t))

/-- `Silence.copy` / `Continuation.copy` rebuild the object from (duration, tempo, pedal, tags);
`Note.copy` keeps every field -/
def noteCopy (n : Note) : Note :=
  match n.kind with
  | .r | .l => { kind := n.kind, val := 0, oct := 0, dur := n.dur, mode := none, acc := none,
                 amp := DEFAULT_AMP, tags := n.tags, tempo := n.tempo, pedal := n.pedal }
  | _ => n

/-- `Note.add_tag` -/
def noteAddTag (t : String) (n : Note) : Note := { noteCopy n with tags := addTag t (noteCopy n).tags }

/-- `Melody.copy` -/
def TMelody.copy (m : TMelody) : TMelody := { notes := m.notes.map noteCopy, tags := m.tags }

def TMelody.addTag (t : String) (m : TMelody) : TMelody := { m.copy with tags := Transform.addTag t m.tags }

/-- `Melody.duration`: `sum([n.duration for n in self.notes])` -/
def TMelody.duration (m : TMelody) : Rat := (m.notes.map (·.dur)).sum

/-- `Chord.copy` -/
def TChord.copy (c : TChord) : TChord :=
  { base := c.base, parts := c.parts.map (fun p => (p.1, p.2.copy)), tags := c.tags }

def TChord.addTag (t : String) (c : TChord) : TChord := { c.copy with tags := Transform.addTag t c.tags }

/-- Python `max` of a non-empty list of rationals (first maximal element) -/
def maxRat : List Rat → Rat
  | [] => 0
  | x :: xs => xs.foldl (fun a b => if b > a then b else a) x

/-- `Chord.duration`: 0 without parts, else the longest part -/
def TChord.duration (c : TChord) : Rat :=
  if c.parts.isEmpty then 0 else maxRat (c.parts.map (fun p => p.2.duration))

/-- `Score.copy` -/
def TScore.copy (s : TScore) : TScore := { chords := s.chords.map TChord.copy, tags := s.tags }

/-- `Score.add_tag_children` -/
def TScore.addTagChildren (t : String) (s : TScore) : TScore :=
  { chords := s.chords.map (TChord.addTag t), tags := s.tags }

/-! ### what a mask is called on -/

inductive Lvl where
  | score | chord | melody | note
  deriving DecidableEq, Repr, Inhabited

inductive Elem where
  | score (s : TScore)
  | chord (c : TChord)
  | melody (m : TMelody)
  | note (n : Note)
  deriving DecidableEq, Repr, Inhabited

def Elem.lvl : Elem → Lvl
  | .score _ => .score | .chord _ => .chord | .melody _ => .melody | .note _ => .note

def Elem.tags : Elem → List String
  | .score s => s.tags | .chord c => c.tags | .melody m => m.tags | .note n => n.tags

/-- the keyword arguments the dispatcher accumulates on the way down -/
structure Ctx where
  chordBeat : Option Rat := none     -- chord_beat
  chordIdx : Option Int := none      -- chord_idx
  lastChord : Option TChord := none  -- last_chord
  chord : Option TChord := none      -- chord
  instrument : Option String := none -- instrument
  beat : Option Rat := none          -- beat
  idx : Option Int := none           -- idx
  lastNote : Option Note := none     -- last_note
  deriving DecidableEq, Repr, Inhabited

/-! ### mask.py : the leaf classes -/

inductive Atom where
  | has (tags : List String)                 -- HasMask
  | hasAtLeast (tags : List String)          -- HasAtLeastMask
  | beatIn (beats : List Rat)                -- BeatInMask
  | beatPlayingIn (beats : List Rat)         -- BeatPlayingInMask
  | durationIn (ds : List Rat)               -- DurationInMask
  | durationBetween (a b : Rat)              -- DurationBetweenMask
  | beatBetween (a b : Rat)                  -- BeatBetweenMask
  | instruments (names : List String)        -- InstrumentsMask
  | chordBeatIn (beats : List Rat)           -- ChordBeatInMask
  | chordBeatPlayingIn (beats : List Rat)    -- ChordBeatPlayingInMask
  | chordDurationIn (ds : List Rat)          -- ChordDurationInMask
  | chordDurationBetween (a b : Rat)         -- ChordDurationBetweenMask
  | chordBeatBetween (a b : Rat)             -- ChordBeatBetweenMask
  | modeIn (modes : List String)             -- ModeInMask
  | chordDegreeIn (ds : List Int)            -- ChordDegreeInMask
  | chordExtensionIn (es : List String)      -- ChordExtensionInMask
  | tonalityDegreeIn (ds : List Int)         -- TonalityDegreeInMask
  | idxIn (is : List Int)                    -- FuncMask(lambda x, idx=None, **k: idx in is)
  | chordIdxIn (is : List Int)               -- FuncMask(lambda x, chord_idx=None, **k: chord_idx in is)
  deriving DecidableEq, Repr, Inhabited

/-- the default value of the `beat` / `chord_beat` keyword is 0 -/
def Ctx.beatD (k : Ctx) : Rat := k.beat.getD 0
def Ctx.chordBeatD (k : Ctx) : Rat := k.chordBeat.getD 0

def Atom.eval (a : Atom) (e : Elem) (k : Ctx) : Bool :=
  match a with
  | .has tags => tags.all (fun t => e.tags.contains t)                 -- element.tags.issuperset(tags)
  | .hasAtLeast tags => tags.any (fun t => e.tags.contains t)          -- len(intersection) > 0
  | .beatIn beats => beats.contains k.beatD
  | .beatPlayingIn beats =>
      match e with
      | .note n => beats.any (fun b => decide (k.beatD ≤ b) && decide (b < k.beatD + n.dur))
      | _ => false
  | .durationIn ds => match e with | .note n => ds.contains n.dur | _ => false
  | .durationBetween a b => match e with | .note n => decide (a ≤ n.dur) && decide (n.dur < b) | _ => false
  | .beatBetween a b => decide (a ≤ k.beatD) && decide (k.beatD < b)
  | .instruments names => match k.instrument with | some i => names.contains i | none => false
  | .chordBeatIn beats => beats.contains k.chordBeatD
  | .chordBeatPlayingIn beats =>
      match e with
      | .chord c => beats.any (fun b => decide (k.chordBeatD ≤ b) && decide (b < k.chordBeatD + c.duration))
      | _ => false
  | .chordDurationIn ds => match e with | .chord c => ds.contains c.duration | _ => false
  | .chordDurationBetween a b =>
      match e with | .chord c => decide (a ≤ c.duration) && decide (c.duration < b) | _ => false
  | .chordBeatBetween a b => decide (a ≤ k.chordBeatD) && decide (k.chordBeatD < b)
  | .modeIn modes => match e with | .chord c => modes.contains c.base.ton.mode.toStr | _ => false
  | .chordDegreeIn ds => match e with | .chord c => ds.contains c.base.elem | _ => false
  | .chordExtensionIn es => match e with | .chord c => es.contains c.base.ext.toText | _ => false
  | .tonalityDegreeIn ds => match e with | .chord c => ds.contains c.base.ton.deg | _ => false
  | .idxIn is => match k.idx with | some i => is.contains i | none => false
  | .chordIdxIn is => match k.chordIdx with | some i => is.contains i | none => false

/-! ### mask.py : the mask classes -/

inductive Mask where
  | base                      -- `Mask()`: always true, `child` = self
  | atom (a : Atom)
  | bool (b : Bool)           -- BoolMask
  | type (l : Lvl)            -- ScoreMask / ChordMask / MelodyMask / NoteMask: "not an instance of"
  | not (m : Mask)            -- NotMask
  | and (ts : List Mask)      -- AndMask
  | or (ts : List Mask)       -- OrMask
  | gt (g m : Mask)           -- GtMask([g, m]); `TypeMask > m` is the only public way to build it
  deriving Repr, Inhabited

mutual
/-- `mask(element, **kwargs)` -/
def Mask.call : Mask → Elem → Ctx → Bool
  | .base, _, _ => true
  | .atom a, e, k => a.eval e k
  | .bool b, _, _ => b
  | .type l, e, _ => e.lvl != l
  | .not m, e, k => !(m.call e k)
  | .and ts, e, k => Mask.callAll ts e k
  | .or ts, e, k => Mask.callAny ts e k
  | .gt g m, e, k => g.call e k || m.call e k
/-- `all(t(element, **kwargs) for t in terms)` -/
def Mask.callAll : List Mask → Elem → Ctx → Bool
  | [], _, _ => true
  | t :: ts, e, k => t.call e k && Mask.callAll ts e k
/-- `any(t(element, **kwargs) for t in terms)` -/
def Mask.callAny : List Mask → Elem → Ctx → Bool
  | [], _, _ => false
  | t :: ts, e, k => t.call e k || Mask.callAny ts e k
end

mutual
/-- `mask.child(element, **kwargs)`: And / Or map over their terms, a GtMask whose guard matches
the element freezes to the boolean it evaluates to, every other class returns itself -/
def Mask.child : Mask → Elem → Ctx → Mask
  | .and ts, e, k => .and (Mask.childList ts e k)
  | .or ts, e, k => .or (Mask.childList ts e k)
  | .gt g m, e, k => if g.call e k then .gt g m else .bool (g.call e k || m.call e k)
  | .base, _, _ => .base
  | .atom a, _, _ => .atom a
  | .bool b, _, _ => .bool b
  | .type l, _, _ => .type l
  | .not m, _, _ => .not m
def Mask.childList : List Mask → Elem → Ctx → List Mask
  | [], _, _ => []
  | t :: ts, e, k => t.child e k :: Mask.childList ts e k
end

mutual
/-- `~mask` (`__invert__` of each class) -/
def Mask.invert : Mask → Mask
  | .base => .not .base
  | .atom a => .not (.atom a)
  | .bool b => .bool (!b)
  | .type l => .type l
  | .not m => .not (.not m)
  | .and ts => .or (Mask.invertList ts)
  | .or ts => .and (Mask.invertList ts)
  | .gt g m => .gt g m.invert
def Mask.invertList : List Mask → List Mask
  | [] => []
  | t :: ts => t.invert :: Mask.invertList ts
end

/-! ### base_transformer.py / transformer.py -/

inductive TLevel where
  | note | melody | chord
  deriving DecidableEq, Repr, Inhabited

/-- A transformer: its class family (`level`), its `action` at that level (may raise, may
return `None`), whether `get_default` is `None` (the *FilterTransform classes) and the mask a
*MaskFilter class conjoins (`on = self.on & on`) -/
structure Transformer where
  level : TLevel
  actNote : Note → Ctx → Res (Option Note) := fun n _ => pure (some n)
  actMelody : TMelody → Ctx → Res (Option TMelody) := fun m _ => pure (some m)
  actChord : TChord → Ctx → Res (Option TChord) := fun c _ => pure (some c)
  filter : Bool := false
  pre : Option Mask := none

/-- `get_default(element)`: `element.copy()`, or `None` for the filter classes -/
def Transformer.defaultNote (T : Transformer) (n : Note) : Option Note :=
  if T.filter then none else some (noteCopy n)
def Transformer.defaultMelody (T : Transformer) (m : TMelody) : Option TMelody :=
  if T.filter then none else some m.copy
def Transformer.defaultChord (T : Transformer) (c : TChord) : Option TChord :=
  if T.filter then none else some c.copy

/-- the mask `__call__` hands to `super().__call__` (`self.on & on` for the *MaskFilter classes) -/
def Transformer.onOf (T : Transformer) (on : Mask) : Mask :=
  match T.pre with
  | some p => .and [p, on]
  | none => on

/-- the loop of `apply_on_melody` (beat, idx, last_note are its running variables) -/
def melodyLoop (T : Transformer) (on : Mask) (K : Ctx) : List Note → Rat → Int → Option Note → Res (List Note)
  | [], _, _, _ => pure []
  | m :: rest, beat, idx, last => do
      let k : Ctx := { K with beat := some beat, idx := some idx, lastNote := last }
      let r ← if on.call (.note m) k then T.actNote m k else pure (T.defaultNote m)
      let tail ← melodyLoop T on K rest (beat + m.dur) (idx + 1) (some m)
      match r with
      | some n => pure (n :: tail)
      | none => pure tail

/-- `Transformer.apply_on_melody` -/
def applyOnMelody (T : Transformer) (el : TMelody) (on : Mask) (K : Ctx) : Res TMelody := do
  let on := on.child (.melody el) K
  let notes ← melodyLoop T on K el.notes 0 0 none
  pure { notes := notes, tags := el.tags }

/-- `T(melody, on=…, **kwargs)` -/
def callMelody (T : Transformer) (m : TMelody) (on : Mask) (K : Ctx) : Res (Option TMelody) :=
  match T.level with
  | .note => do pure (some (← applyOnMelody T m (T.onOf on) K))
  | .melody => T.actMelody m K
  | .chord => .error .other

/-- the dict comprehension of `apply_on_chord`; the final `chord(**parts)` copies each melody
(`to_melody()`) and drops the `None` ones -/
def partsLoop (T : Transformer) (on : Mask) (K : Ctx) (c : TChord) :
    List (String × TMelody) → Res (List (String × TMelody))
  | [] => pure []
  | (key, mel) :: rest => do
      let k : Ctx := { K with chord := some c, instrument := some key }
      let r ← if on.call (.melody mel) k then callMelody T mel on k else pure (T.defaultMelody mel)
      let tail ← partsLoop T on K c rest
      match r with
      | some m => pure ((key, m.copy) :: tail)
      | none => pure tail

/-- `Transformer.apply_on_chord` -/
def applyOnChord (T : Transformer) (el : TChord) (on : Mask) (K : Ctx) : Res TChord := do
  let on := on.child (.chord el) K
  let parts ← partsLoop T on K el el.parts
  pure { base := el.base, parts := parts, tags := el.tags }

/-- `T(chord, on=…, **kwargs)` -/
def callChord (T : Transformer) (c : TChord) (on : Mask) (K : Ctx) : Res (Option TChord) :=
  match T.level with
  | .note | .melody => do pure (some (← applyOnChord T c (T.onOf on) K))
  | .chord => T.actChord c K

/-- the loop of `apply_on_score` (`score += chord` copies every chord) -/
def chordsLoop (T : Transformer) (on : Mask) (K : Ctx) : List TChord → Rat → Int → Option TChord → Res (List TChord)
  | [], _, _, _ => pure []
  | m :: rest, beat, idx, last => do
      let k : Ctx := { K with chordBeat := some beat, chordIdx := some idx, lastChord := last }
      let r ← if on.call (.chord m) k then callChord T m on k else pure (T.defaultChord m)
      let tail ← chordsLoop T on K rest (beat + m.duration) (idx + 1) (some m)
      match r with
      | some c => pure (c.copy :: tail)
      | none => pure tail

/-- `Transformer.apply_on_score` (the accumulator starts as an empty score) -/
def applyOnScore (T : Transformer) (el : TScore) (on : Mask) (K : Ctx) : Res TScore := do
  let on := on.child (.score el) K
  let chords ← chordsLoop T on K el.chords 0 0 none
  pure { chords := chords, tags := el.tags }

/-- `T(score, on=…, **kwargs)` -/
def callScore (T : Transformer) (s : TScore) (on : Mask) (K : Ctx) : Res (Option TScore) := do
  pure (some (← applyOnScore T s (T.onOf on) K))

/-- `T(note, on=…, **kwargs)`: a note transformer tests the mask on the note (and returns a
*copy*, not `get_default`, when it fails); a melody transformer acts on `Melody([note])` -/
def callNote (T : Transformer) (n : Note) (on : Mask) (K : Ctx) : Res (Option Elem) :=
  match T.level with
  | .note =>
      if (T.onOf on).call (.note n) K then do
        pure ((← T.actNote n K).map Elem.note)
      else pure (some (.note (noteCopy n)))
  | .melody => do pure ((← T.actMelody { notes := [n], tags := [] } K).map Elem.melody)
  | .chord => .error .other

/-- `Transformer.__call__(element, on, **kwargs)` for the four element types -/
def callElem (T : Transformer) (e : Elem) (on : Mask) (K : Ctx) : Res (Option Elem) :=
  match e with
  | .note n => callNote T n on K
  | .melody m => do pure ((← callMelody T m on K).map Elem.melody)
  | .chord c => do pure ((← callChord T c on K).map Elem.chord)
  | .score s => do pure ((← callScore T s on K).map Elem.score)

/-! ### pipeline.py -/

structure Step where
  name : String
  T : Transformer
  on : Mask := .base

def stepTag (name : String) : String := "step_" ++ name

/-- the body of the `for` loop of `TransformPipeline.__call__` -/
def transformStep (st : Step) (x : Option Elem) : Res (Option Elem) :=
  match x with
  | none => .error .other            -- `f(None, …)`: "Cannot apply to type NoneType"
  | some e => do
      let r ← callElem st.T e st.on {}
      match r with
      | some (.score s) => pure (some (.score (s.addTagChildren (stepTag st.name))))
      | r => pure r

/-- `TransformPipeline.__call__` -/
def transformPipeline : List Step → Option Elem → Res (Option Elem)
  | [], x => pure x
  | st :: rest, x => do
      let y ← transformStep st x
      transformPipeline rest y

/-- `score += to_add` for the operand types that can meet in a ConcatPipeline -/
def elemAdd (a : Elem) (b : Option Elem) : Res Elem :=
  match a, b with
  | .score s, some (.score t) =>
      pure (.score { chords := s.copy.chords ++ t.copy.chords, tags := unionTags s.tags t.tags })
  | .score s, none => pure (.score s.copy)
  | .chord c, some (.chord d) => pure (.score { chords := [c.copy, d.copy], tags := [] })
  | .chord c, none => pure (.chord c.copy)
  | .melody m, some (.melody m2) =>
      pure (.melody { notes := m.notes ++ m2.notes, tags := unionTags m.tags m2.tags })
  | .melody m, none => pure (.melody m.copy)
  | .note n, some (.note n2) => pure (.melody { notes := [n, n2], tags := [] })
  | .note n, some (.melody m2) => pure (.melody { notes := n :: m2.notes, tags := [] })
  | .note n, none => pure (.note (noteCopy n))
  | _, _ => .error .type

/-- the body of the `for` loop of `ConcatPipeline.__call__` -/
def concatStep (st : Step) (x : Option Elem) : Res (Option Elem) :=
  match x with
  | none => .error .other
  | some e => do
      let r ← callElem st.T e st.on {}
      match e with
      | .score _ =>
          match r with
          | some (.score t) => do pure (some (← elemAdd e (some (.score (t.addTagChildren (stepTag st.name))))))
          | _ => .error .attr        -- `None.add_tag_children`
      | _ => do pure (some (← elemAdd e r))

/-- `ConcatPipeline.__call__` -/
def concatPipeline : List Step → Option Elem → Res (Option Elem)
  | [], x => pure x
  | st :: rest, x => do
      let y ← concatStep st x
      concatPipeline rest y

/-! ### transform/note/basics.py -/

/-- `TransposeDiatonic.action` -/
def transposeDiatonic (n : Int) (keepMode keepAcc : Bool) (note : Note) : Res (Option Note) :=
  if note.kind = .s then
    let nn : Note := { noteCopy note with kind := .s, val := note.val + n }
    let nn : Note := if !keepMode then { nn with mode := none }
                     else if !keepAcc then { nn with acc := none } else nn
    pure (some nn)
  else if note.kind.isRelative then pure (some (noteCopy note))
  else if note.kind = .h then do
    let v ← lookupKey note.val DEGREE_TO_SCALE_DEGREE
    pure (some { noteCopy note with kind := .s, val := v })
  else pure (some (noteCopy note))

/-- `NoteProperties.scale_pitch` -/
def scalePitch (n : Note) : Res Int :=
  match n.kind with
  | .s => pure (n.val + 7 * n.oct)
  | .h => pure (7 * n.val / 12 + 7 * n.oct)
  | _ => .error .other

/-- a constructed `LimitRegister` (its two scale pitches) -/
structure LimitRegister where
  pmin : Int
  pmax : Int
  deriving DecidableEq, Repr

/-- `LimitRegister.__init__` -/
def LimitRegister.make (noteMin noteMax : Note) : Res LimitRegister := do
  let b ← scalePitch noteMax
  let a ← scalePitch noteMin
  if b - a < 7 then .error .value else pure { pmin := a, pmax := b }

/-- `LimitRegister.limit`, recursion bounded by explicit fuel (`.error .other` = RecursionError;
`limit_terminates` shows the fuel chosen by `limit` always suffices) -/
def limitFuel (L : LimitRegister) : Nat → Note → Res Note
  | 0, _ => .error .other
  | f + 1, n =>
      if n.kind ≠ .s ∧ n.kind ≠ .h then pure (noteCopy n) else do
        let sp ← scalePitch n
        if sp > L.pmax then limitFuel L f (n.o (-1))
        else if sp < L.pmin then limitFuel L f (n.o 1)
        else pure (noteCopy n)

def limitFuelFor (L : LimitRegister) (n : Note) : Nat :=
  match scalePitch n with
  | .ok sp => (sp - L.pmax).toNat + (L.pmin - sp).toNat + 1
  | .error _ => 1

def LimitRegister.limit (L : LimitRegister) (n : Note) : Res Note := limitFuel L (limitFuelFor L n) n

/-- `Silence(element.duration)` -/
def applySilence (n : Note) : Note := { kind := .r, val := 0, oct := 0, dur := n.dur, amp := DEFAULT_AMP }
/-- `Continuation(element.duration)` -/
def applyContinuation (n : Note) : Note := { kind := .l, val := 0, oct := 0, dur := n.dur, amp := DEFAULT_AMP }

/-- `Chord.pitch_dict` as the list of its items in insertion order (chromatic notes first,
then the scale notes); a lookup takes the LAST pair with the key -/
def pitchDictItems (c : Chord) : Res (List (Int × Note)) := do
  let mk (kind : Kind) (i : Nat) : Res (List (Int × Note)) := do
    let n : Note := { kind := kind, val := (i : Int), oct := 0, dur := 1 }
    match ← c.toPitch n with
    | some p => pure [(p, n)]
    | none => pure []
  let chrom ← (List.range 12).mapM (mk .h)
  let diat ← (List.range 7).mapM (mk .s)
  pure (chrom.flatten ++ diat.flatten)

/-- `TransposeChromatic.action` -/
def transposeChromatic (n : Int) (note : Note) (k : Ctx) : Res (Option Note) :=
  if note.kind.isRelative then pure (some (noteCopy note))
  else match k.chord with
    | none => .error .attr                      -- `None.pitch_dict`
    | some tc => do
        let c := tc.base
        let d ← pitchDictItems c
        match ← c.toPitch note with
        | none => pure (some (noteCopy note))
        | some p => do
            let ref ← lookupKey ((p + n) % 12) d.reverse
            let ref := ref.o ((p + n) / 12)
            pure (some { noteCopy note with val := ref.val, kind := ref.kind, oct := ref.oct,
                                            acc := none, mode := none })

/-! ### transform/melody/basics.py -/

/-- `CircularPermutationMelody.action` -/
def circularPermutation (n : Int) (m : TMelody) : Res TMelody := do
  let len : Int := m.notes.length
  let notes ← (List.range m.notes.length).mapM (fun (i : Nat) => pyIndex m.notes (((i : Int) + n) % len))
  pure { notes := notes, tags := m.tags }

/-- `ReverseMelody.action` -/
def reverseMelody (m : TMelody) : TMelody := { notes := m.notes.reverse, tags := m.tags }

/-- `Note.set_val` -/
def noteSetVal (n : Note) (v : Int) : Note := { noteCopy n with val := v }

/-- `InvertMelody.action` -/
def invertMelody (m : TMelody) : Res TMelody := do
  let first ← pyIndex m.notes 0
  pure { notes := m.notes.map (fun n => noteSetVal n (2 * first.val - n.val)), tags := m.tags }

/-! ### user-defined actions of the correspondence harness -/

def showRat (q : Rat) : String :=
  if q.den == 1 then toString q.num else toString q.num ++ "/" ++ toString q.den

def showOpt (f : α → String) : Option α → String
  | none => "-"
  | some x => f x

/-- the text a `ctx` action writes into a tag: every keyword argument the dispatcher passed -/
def ctxText (k : Ctx) : String :=
  ":".intercalate
    [showOpt toString k.idx, showOpt showRat k.beat, showOpt (fun (n : Note) => n.kind.toStr ++ toString n.val) k.lastNote,
     showOpt id k.instrument, showOpt (fun (c : TChord) => toString c.base.elem) k.chord,
     showOpt toString k.chordIdx, showOpt showRat k.chordBeat,
     showOpt (fun (c : TChord) => toString c.base.elem) k.lastChord]

end MV.Transform
