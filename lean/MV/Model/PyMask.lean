/-
Python-side vocabulary of the source-tie group `SrcMask` (DESIGN.md §9.6): what the generated source images of
`musiclang/transform/mask.py` and of the dispatcher of `base_transformer.py` (`MV/Gen/SrcMask.lean`) are typed with.

The Python masks are a class hierarchy; the model (`MV/Model/Transform.lean`) is one inductive type.  Each class the
model has a constructor for gets a record of its instance attributes here (`self`), and `toMask` says which value of
the model's `Mask` an instance is.  The tie theorems (`MV/Props/TieSrcMask.lean`) then read, class by class,

    Src.<Class>_call   self element kwargs = self.toMask.call  element kwargs
    Src.<Class>_child  self element kwargs = self.toMask.child element kwargs
    Src.<Class>_invert self                = self.toMask.invert

Sets (`self.beats`, `self.tags`, `element.tags` …) are lists read as sets, as in the model; `x in s` is `s.contains x`
(numbers compare by value: `hash(Fraction(2)) == hash(2)`).

No proofs here; imported by the generated file.
-/
import MV.Model.Transform

namespace MV.PyMask

open MV MV.Transform

/-! ### one record per mask class (`self`) -/

/-- `Mask()` itself -/
structure BaseMask where
  deriving Repr
structure HasMask where tags : List String
structure HasAtLeastMask where tags : List String
structure BeatInMask where beats : List Rat
structure BeatPlayingInMask where beats : List Rat
structure DurationInMask where durations : List Rat
structure DurationBetweenMask where
  start : Rat
  «end» : Rat
structure BeatBetweenMask where
  start : Rat
  «end» : Rat
structure InstrumentsMask where instruments : List String
structure ChordBeatInMask where beats : List Rat
structure ChordBeatPlayingInMask where beats : List Rat
structure ChordDurationInMask where durations : List Rat
structure ChordDurationBetweenMask where
  start : Rat
  «end» : Rat
structure ChordBeatBetweenMask where
  start : Rat
  «end» : Rat
structure ModeInMask where modes : List String
structure ChordDegreeInMask where degrees : List Int
structure ChordExtensionInMask where extensions : List String
structure TonalityDegreeInMask where degrees : List Int
structure BoolMask where bool : Bool
structure ScoreMask where
  deriving Repr
structure ChordMask where
  deriving Repr
structure MelodyMask where
  deriving Repr
structure NoteMask where
  deriving Repr
structure NotMask where other : Mask
structure AndMask where terms : List Mask
structure OrMask where terms : List Mask
/-- `GtMask([g, m])`: `self.terms[0]` is `g`, `self.terms[1]` is `m` (the model has no GtMask with another number of terms) -/
structure GtMask where
  g : Mask
  m : Mask
/-- the type of `self.terms` of a GtMask (indexed with the constants 0 and 1 only) -/
abbrev GtTerms := GtMask

def BaseMask.toMask (_ : BaseMask) : Mask := .base
def HasMask.toMask (s : HasMask) : Mask := .atom (.has s.tags)
def HasAtLeastMask.toMask (s : HasAtLeastMask) : Mask := .atom (.hasAtLeast s.tags)
def BeatInMask.toMask (s : BeatInMask) : Mask := .atom (.beatIn s.beats)
def BeatPlayingInMask.toMask (s : BeatPlayingInMask) : Mask := .atom (.beatPlayingIn s.beats)
def DurationInMask.toMask (s : DurationInMask) : Mask := .atom (.durationIn s.durations)
def DurationBetweenMask.toMask (s : DurationBetweenMask) : Mask := .atom (.durationBetween s.start s.end)
def BeatBetweenMask.toMask (s : BeatBetweenMask) : Mask := .atom (.beatBetween s.start s.end)
def InstrumentsMask.toMask (s : InstrumentsMask) : Mask := .atom (.instruments s.instruments)
def ChordBeatInMask.toMask (s : ChordBeatInMask) : Mask := .atom (.chordBeatIn s.beats)
def ChordBeatPlayingInMask.toMask (s : ChordBeatPlayingInMask) : Mask := .atom (.chordBeatPlayingIn s.beats)
def ChordDurationInMask.toMask (s : ChordDurationInMask) : Mask := .atom (.chordDurationIn s.durations)
def ChordDurationBetweenMask.toMask (s : ChordDurationBetweenMask) : Mask := .atom (.chordDurationBetween s.start s.end)
def ChordBeatBetweenMask.toMask (s : ChordBeatBetweenMask) : Mask := .atom (.chordBeatBetween s.start s.end)
def ModeInMask.toMask (s : ModeInMask) : Mask := .atom (.modeIn s.modes)
def ChordDegreeInMask.toMask (s : ChordDegreeInMask) : Mask := .atom (.chordDegreeIn s.degrees)
def ChordExtensionInMask.toMask (s : ChordExtensionInMask) : Mask := .atom (.chordExtensionIn s.extensions)
def TonalityDegreeInMask.toMask (s : TonalityDegreeInMask) : Mask := .atom (.tonalityDegreeIn s.degrees)
def BoolMask.toMask (s : BoolMask) : Mask := .bool s.bool
def ScoreMask.toMask (_ : ScoreMask) : Mask := .type .score
def ChordMask.toMask (_ : ChordMask) : Mask := .type .chord
def MelodyMask.toMask (_ : MelodyMask) : Mask := .type .melody
def NoteMask.toMask (_ : NoteMask) : Mask := .type .note
def NotMask.toMask (s : NotMask) : Mask := .not s.other
def AndMask.toMask (s : AndMask) : Mask := .and s.terms
def OrMask.toMask (s : OrMask) : Mask := .or s.terms
def GtMask.toMask (s : GtMask) : Mask := .gt s.g s.m

/-- `GtMask(terms)`: the model's guarded mask has exactly two terms.  Every construction site in the library writes a
two-element list display; any other length is reported as `IndexError` (what `terms[1]` raises on a shorter list at
the first call), so that a changed construction site cannot go unnoticed. -/
def gtOfTerms : List Mask → Res Mask
  | [g, m] => .ok (.gt g m)
  | _ => .error .index

/-- `a.intersection(b)` on tag sets (no repeated element, so that `len` is the cardinality) -/
def setInter (a b : List String) : List String := (a.filter (fun t => b.contains t)).eraseDups

/-- `f(k1=v1, …, **kwargs)`: a keyword written in the call that is also a key of `kwargs` is a TypeError ("got multiple
values for keyword argument"); the list says, for each keyword written, whether the record has it -/
def kwDistinct (present : List Bool) : Res Unit := if present.any (fun b => b) then .error .type else .ok ()

/-- `Score.__add__(chord)`: `Score(self.copy().chords + [chord], tags=self.tags)` (the operand itself is not copied) -/
def scoreAddChord (s : TScore) (c : TChord) : TScore := { chords := s.copy.chords ++ [c], tags := s.tags }

/-- `Score.add_tags(tags)`: a copy whose tags are `cp.tags.union(set(tags))` -/
def scoreAddTags (s : TScore) (tags : List String) : TScore := { s.copy with tags := unionTags s.tags tags }

/-- the `Chord` object `apply_on_chord` builds first: its `score` holds `None` for the parts a filter transformer drops -/
structure PChord where
  base : Chord
  score : List (String × Option TMelody)
  tags : List String

/-- the dict `element.score` -/
abbrev TParts := List (String × TMelody)
/-- the dict `chord.score` of a `PChord` -/
abbrev OParts := List (String × Option TMelody)

/-- `chord(**parts)` (`Chord.__call__`) for part names in the normal form `name__k`, none of them a drum part (the domain of
C18): a copy of the chord with exactly these parts, each melody copied (`melody.to_melody()`) -/
def chordCall (c : PChord) (parts : List (String × TMelody)) : TChord :=
  { base := c.base, parts := parts.map (fun p => (p.1, p.2.copy)), tags := c.tags }

/-- `self.on` of a transformer: the mask a *MaskFilter instance was built with; the other classes have no such attribute -/
def preOf (T : Transformer) : Res Mask :=
  match T.pre with
  | some p => .ok p
  | none => .error .attr

end MV.PyMask
