/-
Model of the re-voicing code (C19):
  chord.py : get_parsimonious_voice_leading
  score.py : get_parsimonious_voice_leading, instruments, normalize_instruments
  transform/composing/voice_leading.py : VoiceLeading.find_optimal_octaves, init (arrays, masks,
      candidates), get_pitch_solution, get_movement, one iteration of voices_optim /
      optimize_rules (proposal), the loops, random_optim, get_corrected_note, get_score,
      optimize, __call__.
Function for function, in the code's shape.  The stochastic parts are *oracles*: every
random draw (`rg.random(..) < proba`, `rg.randint(..)`), every accept / reject decision
(a comparison of floating-point scores) and Python's set iteration order in
`normalize_instruments` are parameters of the model; the theorems quantify over all of them.

Domain notes: part names are in the library's normal form `name__k` (so that
`Chord.__call__` does not rename them) and are not drum parts; `np.int16` wrap-around is
not modelled (|val|, |octave|, |pitch| < 2^15).
-/
import MV.Model.Render

namespace MV

/-! ### Python `round` on a quotient of integers -/

/-- `round(num / den)` for integers with `den > 0`: round half to even.  The float
quotient is correctly rounded and the half-way points `k + 1/2` are exactly
representable, so on |num| < 2^52 this is what Python computes. -/
def roundHalfEven (num den : Int) : Int :=
  let q := num / den
  let r := num % den
  if 2 * r < den then q
  else if 2 * r > den then q + 1
  else if q % 2 = 0 then q else q + 1

/-! ### chord.py : get_parsimonious_voice_leading -/

/-- the `direction` argument: `'up'`, `'down'`, anything else (`None`) -/
inductive Dir where
  | none | up | down
  deriving DecidableEq, Repr, Inhabited

/-- the body of `get_parsimonious_voice_leading` after `root = self.bass_pitch` and
`nb_notes_candidate = len(candidate.chord_notes)` have been computed -/
def Chord.pvlFrom (root : Int) (cand : Chord) (nb : Int) (dir : Dir) : Res Chord := do
  -- final_chord = candidate.copy(); .octave = 0; .tonality.octave = 0
  let fc0 : Chord := { cand with oct := 0, ton := { cand.ton with oct := 0 } }
  let fc1 ← fc0.toRootExt
  let otherRoot ← fc1.bassPitch
  let transposition := otherRoot - root
  let offsetOctave := roundHalfEven transposition 12
  let normalized := transposition - offsetOctave * 12
  let fc2 := fc1.o (-offsetOctave)
  let optimal := - roundHalfEven (nb * normalized) 12
  let fc3 ← fc2.invert optimal
  let fc4 := if optimal < 0 then fc3.o (-1) else fc3
  let b ← fc4.bassPitch
  if b > root ∧ dir = .down then
    let idx ← fc4.inversionIndex
    let fin := idx - 1
    let fc5 ← fc4.invert (fin - idx)
    pure (if fin < 0 then fc5.o (-1) else fc5)
  else if b < root ∧ dir = .up then
    let idx ← fc4.inversionIndex
    let fin := idx + 1
    let fc5 ← fc4.invert (fin - idx)
    pure (if fin > nb - 1 then fc5.o 1 else fc5)
  else
    pure fc4

/-- `Chord.get_parsimonious_voice_leading(self, candidate, direction)` -/
def Chord.parsimonious (self cand : Chord) (dir : Dir) : Res Chord := do
  let _ ← self.chordNotes
  let cn ← cand.chordNotes
  let root ← self.bassPitch
  Chord.pvlFrom root cand cn.length dir

/-- the `directions` argument of `Score.get_parsimonious_voice_leading` -/
inductive DirSpec where
  | none                    -- None
  | all (d : Dir)           -- a string
  | list (l : List Dir)     -- a list
  deriving Repr, Inhabited

def pvlLoop (fromFirst : Bool) : Chord → List (Dir × Chord) → Res (List Chord)
  | _, [] => pure []
  | prev, (d, c) :: rest => do
      let nw ← prev.parsimonious c d
      let tl ← pvlLoop fromFirst (if fromFirst then prev else nw) rest
      pure (nw :: tl)

/-- `Score.get_parsimonious_voice_leading(from_first, directions)` -/
def Score.parsimonious (s : Score) (fromFirst : Bool) (spec : DirSpec) : Res Score := do
  let base ← pyIndex s 0
  let dirs := match spec with
    | .none => List.replicate (s.length - 1) Dir.none
    | .all d => List.replicate (s.length - 1) d
    | .list l => l
  if dirs.length ≠ s.length - 1 then .error .assertion
  else do
    let fin ← pvlLoop fromFirst base (dirs.zip (s.drop 1))
    pure (base :: fin)

/-! ### small matrix helpers (numpy arrays of shape (instruments, chords)) -/

abbrev Mat := List (List Int)

/-- element-wise binary operation; numpy raises `ValueError` on a shape mismatch -/
def rowZip (f : Int → Int → Int) : List Int → List Int → Res (List Int)
  | [], [] => pure []
  | x :: xs, y :: ys => do let t ← rowZip f xs ys; pure (f x y :: t)
  | _, _ => .error .value

def matZip (f : Int → Int → Int) : Mat → Mat → Res Mat
  | [], [] => pure []
  | r :: rs, q :: qs => do let h ← rowZip f r q; let t ← matZip f rs qs; pure (h :: t)
  | _, _ => .error .value

/-- `np.zeros(shape)` of the shape of `m` -/
def matZeros (m : Mat) : Mat := m.map (fun r => r.map (fun _ => 0))

/-- `np.clip(x, lo, hi)` = `minimum(maximum(x, lo), hi)` -/
def clipInt (lo hi x : Int) : Int := min (max x lo) hi

/-- `np.diff(row)` -/
def diffRow : List Int → List Int
  | x :: y :: r => (y - x) :: diffRow (y :: r)
  | _ => []

/-- `get_movement`: `np.diff(pitches, axis=1)` -/
def movement (p : Mat) : Mat := p.map diffRow

/-- build a row / matrix from a function of the indices (the oracle draws) -/
def rowOfFn (f : Nat → Int) (n : Nat) : List Int := (List.range n).map f

/-! ### voice_leading.py -/

structure VLCfg where
  types : List Kind := [.b, .c, .s, .h]
  fixed : List String := []
  /-- `change_octave_fixed` after the broadcast of a boolean (zipped with `fixed`) -/
  change : List Bool := []
  deriving Repr, Inhabited

/-- `Melody.o` -/
def Melody.o (m : Melody) (k : Int) : Melody := m.map (fun n => n.o k)

/-- `chord.score[name] = m` for a key that exists (position kept) -/
def Chord.setPart (c : Chord) (name : String) (m : Melody) : Chord :=
  { c with parts := c.parts.map (fun p => if p.1 == name then (p.1, m) else p) }

/-- the loop `for voice, change in zip(fixed_voices, change_octave_fixed): if not change: …` -/
def shiftKept (k : Int) : List (String × Bool) → Chord → Res Chord
  | [], c => pure c
  | (v, ch) :: rest, c =>
      if ch then shiftKept k rest c
      else do
        let m ← lookupKey v c.parts
        shiftKept k rest (c.setPart v (Melody.o m k))

/-- `recursive_correct_octave`; `fuel` stands for Python's recursion limit -/
def correctOctave (fixed : List (String × Bool)) : Nat → Chord → Res Chord
  | 0, _ => .error .other
  | fuel + 1, c => do
      let b ← c.bassPitch
      if b > 6 then do
        let c' ← shiftKept 1 fixed (c.o (-1))
        correctOctave fixed fuel c'
      else if b ≤ -6 then do
        let c' ← shiftKept (-1) fixed (c.o 1)
        correctOctave fixed fuel c'
      else pure c

/-- `find_optimal_octaves`: the corrected chords.  The code accumulates them from `new_score = None`
(`new_score += chord`), so its result is `None` — not an empty score — exactly when this list is
empty (see `VLCfg.call`). -/
def VLCfg.findOptimalOctaves (cfg : VLCfg) (fuel : Nat) (s : Score) : Res Score :=
  s.mapM (correctOctave (cfg.fixed.zip cfg.change) fuel)

/-- `Silence(d)` -/
def silence (d : Rat) : Note := { kind := .r, val := 0, oct := 0, dur := d }

/-- `Score.instruments` (order of first appearance) -/
def Score.instruments (s : Score) : List String := trackList s

/-- one chord of `normalize_instruments`: the instruments of the score that the chord lacks
are appended with a rest of the chord's duration.  Python iterates over a `set`; `order`
is that iteration order (an oracle): the names listed there come first, in that order, any
other missing instrument follows in score order. -/
def normalizeChord (instruments : List String) (order : List String) (c : Chord) : Chord :=
  let present := c.parts.map (·.1)
  let missing := instruments.filter (fun i => !present.contains i)
  let first := (order.filter (fun i => missing.contains i)).eraseDups
  let rest := missing.filter (fun i => !first.contains i)
  { c with parts := c.parts ++ (first ++ rest).map (fun i => (i, [silence c.dur])) }

/-- `Score.normalize_instruments` (`orders[j]` = set iteration order in chord `j`) -/
def normalizeInstruments (s : Score) (orders : List (List String)) : Score :=
  let ins := s.instruments
  (s.zipIdx).map (fun (c, j) => normalizeChord ins (orders.getD j []) c)

/-- `candidates_raw[i]` -/
structure CandRaw where
  b : List Int
  c : List Int
  s : List Int
  h : List Int
  deriving Repr, Inhabited

/-- `candidates_raw[idxc][type]` (`KeyError` for any other type) -/
def CandRaw.get (r : CandRaw) : Kind → Res (List Int)
  | .b => pure r.b
  | .c => pure r.c
  | .s => pure r.s
  | .h => pure r.h
  | .a => pure ((List.range 12).map Int.ofNat)
  | .r => pure [0]
  | .l => pure [0]
  | _ => .error .key

structure VLState where
  instruments : List String
  kind : List (List Kind)
  val : Mat
  oct : Mat
  pitch : Mat
  mask : Mat
  cands : List (List (List Int))
  deriving Repr, Inhabited

/-- `list.index` -/
def indexOfStr (l : List String) (x : String) : Res Nat :=
  match l.findIdx? (· == x) with
  | some i => pure i
  | none => .error .value

def firstNotes (ns : Score) (ins : String) : Res (List Note) :=
  ns.mapM (fun c => do let m ← lookupKey ins c.parts; pyIndex m 0)

/-- `VoiceLeading.init(score)`; returns the state and the normalised score -/
def VLCfg.init (cfg : VLCfg) (s : Score) (orders : List (List String)) : Res (VLState × Score) := do
  let ns := normalizeInstruments s orders
  let instruments := ns.instruments
  let pc ← ns.mapM (fun c => c.chordPitches)
  let pe ← ns.mapM (fun c => c.extensionPitches)
  let ps := ns.map (fun c => c.scalePitches)
  let ph ← ns.mapM (fun c => c.chromaticPitches)
  let _ ← pe.mapM (fun l => pyIndex l 0)      -- 'bass': pitches_extensions[i][0]
  let raws : List CandRaw := (List.range ns.length).map (fun j =>
    { b := pe.getD j [], c := pc.getD j [], s := ps.getD j [], h := ph.getD j [] })
  let array ← instruments.mapM (firstNotes ns)
  let kind := array.map (fun r => r.map (·.kind))
  let val := array.map (fun r => r.map (·.val))
  let oct := array.map (fun r => r.map (·.oct))
  let pitch ← instruments.mapM (fun ins => ns.mapM (fun c => do
    let m ← lookupKey ins c.parts
    let n ← pyIndex m 0
    let p ← c.toPitch n none
    pure (p.getD 0)))
  let idxs ← cfg.fixed.mapM (indexOfStr instruments)
  let mask : Mat := (kind.zipIdx).map (fun (row, i) =>
    row.map (fun k => if idxs.contains i then 0 else if cfg.types.contains k then 1 else 0))
  let cands ← kind.mapM (fun row => (row.zipIdx).mapM (fun (k, j) => (raws.getD j default).get k))
  pure ({ instruments, kind, val, oct, pitch, mask, cands }, ns)

/-- one entry of `get_pitch_solution` (before `+ 12 * octs`) -/
def candPitch (cand : List Int) (nv : Int) : Res Int :=
  let n : Int := cand.length
  if n = 0 then .error .index      -- numpy: `x % 0 == 0`, then `[][0]`
  else do
    let x ← pyIndex cand (nv % n)
    pure (x + 12 * (nv / n))

def candRow : List (List Int) → List Int → Res (List Int)
  | [], [] => pure []
  | c :: cs, v :: vs => do let p ← candPitch c v; let t ← candRow cs vs; pure (p :: t)
  | _, [] => pure []               -- `enumerate(row)` drives the loop
  | [], _ :: _ => .error .index

def candMat : List (List (List Int)) → Mat → Res Mat
  | [], [] => pure []
  | c :: cs, v :: vs => do let p ← candRow c v; let t ← candMat cs vs; pure (p :: t)
  | _, [] => pure []
  -- `self.candidates[idxi]` is evaluated per entry of the row: beyond the last row of candidates a row without
  -- entries asks for nothing (no error), any other row raises `IndexError` at its first entry
  | [], v :: vs => do let p ← candRow [] v; let t ← candMat [] vs; pure (p :: t)

/-- `get_pitch_solution(dvals)` -/
def VLState.pitchSolution (st : VLState) (dvals : Mat) : Res Mat := do
  let newVals ← matZip (· + ·) st.val dvals
  let p ← candMat st.cands newVals
  matZip (fun x o => x + 12 * o) p st.oct

/-- the random draws of one iteration of `voices_optim`: `rg.random(shape) < proba`, twice -/
structure Draw where
  u1 : Nat → Nat → Bool
  u2 : Nat → Nat → Bool

def dropLast (l : List Int) : List Int := l.take (l.length - 1)

/-- `np.sign(mov * dvalsmask[:, :-1])` -/
def VLState.sgnMov (st : VLState) (pitches : Mat) : Res Mat :=
  matZip (fun m k => Int.sign (m * k)) (movement pitches) (st.mask.map dropLast)

/-- the proposal of one iteration of `voices_optim` (`proposed_sol`) -/
def VLState.voicesProposal (st : VLState) (dvals : Mat) (d : Draw) (maxNorm : Int) : Res Mat := do
  let pitches ← st.pitchSolution dvals
  let sgn ← st.sgnMov pitches
  -- `np.max(proba)` of an empty array raises ValueError (a single chord, or no instrument)
  if sgn.all (fun r => r.isEmpty) then .error .value
  else do
    let delta1 := (sgn.zipIdx).map (fun (r, i) => (r.zipIdx).map (fun (x, j) => if d.u1 i j then x else 0) ++ [0])
    let delta2 := (sgn.zipIdx).map (fun (r, i) => 0 :: (r.zipIdx).map (fun (x, j) => if d.u2 i j then -x else 0))
    let mov ← matZip (· + ·) delta1 delta2
    let s ← matZip (· + ·) dvals mov
    pure (s.map (fun r => r.map (clipInt (-maxNorm) maxNorm)))

/-- `voices_optim`: `maxIter` iterations starting at iteration number `it`; `accept it`
stands for `score < min_score` -/
def VLState.voicesOptim (st : VLState) (maxNorm : Int) (draw : Nat → Draw) (accept : Nat → Bool) :
    Nat → Nat → Mat → Res Mat
  | 0, _, dvals => do let _ ← st.pitchSolution dvals; pure dvals
  | n + 1, it, dvals => do
      let prop ← st.voicesProposal dvals (draw it) maxNorm
      st.voicesOptim maxNorm draw accept n (it + 1) (if accept it then prop else dvals)

/-- the proposal of one iteration of `optimize_rules`: `delta i j` stands for
`rg.randint(..) * (rg.random(..) < proba)` -/
def VLState.rulesProposal (st : VLState) (dvals : Mat) (delta : Nat → Nat → Int) (maxNorm : Int) : Res Mat := do
  let _ ← st.pitchSolution dvals
  let dl : Mat := (dvals.zipIdx).map (fun (r, i) => (r.zipIdx).map (fun (_, j) => clipInt (-maxNorm) maxNorm (delta i j)))
  let s ← matZip (· + ·) dvals dl
  matZip (· * ·) s st.mask

/-- `optimize_rules`: `accept it` stands for "not tried before, fewer problems, no more
crossings"; the early `break` is a run with fewer iterations -/
def VLState.rulesOptim (st : VLState) (maxNorm : Int) (delta : Nat → Nat → Nat → Int) (accept : Nat → Bool) :
    Nat → Nat → Mat → Res Mat
  | 0, _, dvals => do let _ ← st.pitchSolution dvals; pure dvals
  | n + 1, it, dvals => do
      let prop ← st.rulesProposal dvals (delta it) maxNorm
      st.rulesOptim maxNorm delta accept n (it + 1) (if accept it then prop else dvals)

/-- `random_optim`: the `best`-th of `max_iter - 1` random solutions `dvals + randint(..)`,
or `dvals` itself (no mask is applied — D11) -/
def VLState.randomOptim (st : VLState) (dvals : Mat) (maxIter : Nat) (r : Nat → Nat → Nat → Int) (best : Nat) : Res Mat := do
  let sols := (List.range (maxIter - 1)).map (fun k =>
    (dvals.zipIdx).map (fun (row, i) => (row.zipIdx).map (fun (x, j) => x + r k i j)))
  let sols := sols ++ [dvals]
  let _ ← sols.mapM st.pitchSolution
  match sols[best]? with
  | some s => pure s
  | none => .error .index

/-- `get_corrected_note` -/
def correctedNote (n : Note) (nb : Int) (nv : Int) : Note :=
  if nb = 0 then { n with val := 0, oct := n.oct + 0 }      -- numpy: `x % 0 == 0`, `x // 0 == 0`
  else { n with val := nv % nb, oct := n.oct + nv / nb }

def idx2 (m : List (List α)) (i j : Nat) : Res α :=
  match m[i]? with
  | none => .error .index
  | some r => match r[j]? with
    | none => .error .index
    | some x => pure x

/-- the inner loop of `get_score` for chord number `j` -/
def scoreChord (st : VLState) (newVals : Mat) (j : Nat) : List (String × Nat) → Chord → Res Chord
  | [], c => pure c
  | (ins, i) :: rest, c =>
      match c.parts.lookup ins with
      | none => scoreChord st newVals j rest c
      | some mel => do
          let first ← pyIndex mel 0
          if first.kind != .r && first.kind != .l then do
            let cand ← idx2 st.cands i j
            let nv ← idx2 newVals i j
            scoreChord st newVals j rest (c.setPart ins (correctedNote first cand.length nv :: mel.drop 1))
          else scoreChord st newVals j rest c

/-- `get_score(score, dvals)` -/
def VLState.getScore (st : VLState) (s : Score) (dvals : Mat) : Res Score := do
  let newVals ← matZip (· + ·) st.val dvals
  (s.zipIdx).mapM (fun (c, j) => scoreChord st newVals j st.instruments.zipIdx c)

/-- the optimisation method and its oracles -/
inductive Method where
  | voices (maxIter : Nat) (maxNorm : Int) (draw : Nat → Draw) (accept : Nat → Bool)
  | rules (maxIter : Nat) (maxNorm : Int) (delta : Nat → Nat → Nat → Int) (accept : Nat → Bool)
  | voicesAndRules (maxIter : Nat) (maxNorm : Int) (draw : Nat → Draw) (accept : Nat → Bool)
      (maxIterRules : Nat) (maxNormRules : Int) (delta : Nat → Nat → Nat → Int) (acceptRules : Nat → Bool)
  | random (maxIter : Nat) (r : Nat → Nat → Nat → Int) (best : Nat)
  | unknown

def VLState.solve (st : VLState) (dvals : Mat) : Method → Res Mat
  | .voices n m d a => st.voicesOptim m d a n 0 dvals
  | .rules n m d a => st.rulesOptim m d a n 0 dvals
  | .voicesAndRules n m d a n2 m2 d2 a2 => do
      let dv ← st.voicesOptim m d a n 0 dvals
      st.rulesOptim m2 d2 a2 n2 0 dv
  | .random n r best => st.randomOptim dvals n r best
  | .unknown => .error .other

/-- `VoiceLeading.optimize(score)` -/
def VLCfg.optimize (cfg : VLCfg) (meth : Method) (orders : List (List String)) (s : Score) : Res Score := do
  let (st, _) ← cfg.init s orders
  let dvals := matZeros st.pitch
  let sol ← st.solve dvals meth
  st.getScore s sol

/-- `VoiceLeading.__call__(score)` -/
def VLCfg.call (cfg : VLCfg) (meth : Method) (orders : List (List String)) (fuel : Nat) (s : Score) : Res Score := do
  let s1 ← cfg.findOptimalOctaves fuel s
  -- a score without chords: `find_optimal_octaves` returns `None` and `optimize(None)` raises AttributeError
  if s1.isEmpty then .error .attr else cfg.optimize meth orders s1

end MV
