/-
Denotations used by the C08 statements (definitions only, executable):

* `soundV` — what a music21 voice sounds: elements laid end to end from offset 0, a note
  whose predecessor carries a tie `start`/`continue` and has the same pitch prolongs it
  (music21's own reading, `stripTies`, merges exactly these on the exporter's output);
  a rest ends the sounding note.
* `soundR` — what the rows of one track of the MIDI note matrix sound: a continuation row
  prolongs the sounding note of the track, a silence row ends it (this is `impl_sound` of
  harness/sound.py and what `matrix_to_events` does per track).

Both are left folds with an explicit accumulator so that appending one element is one step.
-/
import MV.Model.Mxl

namespace MV.Mxl

/-- one sounding note: pitch (MIDI number for voices, `pitch` of the matrix for rows), onset, duration -/
structure Ev where
  pitch : Int
  onset : Rat
  dur : Rat
  deriving DecidableEq, Repr, Inhabited

/-- fold state: finished notes (oldest first), the note still sounding, whether the last
element carries a tie `start`/`continue`, the current offset -/
structure Acc where
  closed : List Ev := []
  opn : Option Ev := none
  tied : Bool := false
  time : Rat := 0
  deriving DecidableEq, Repr, Inhabited

def Acc.flush (a : Acc) : List Ev := a.closed ++ a.opn.toList

def tieOut (t : Option Tie) : Bool := t == some .start || t == some .cont

def stepV (a : Acc) (e : Elem) : Acc :=
  match e.pitch with
  | none => { closed := a.flush, opn := none, tied := false, time := a.time + e.dur }
  | some p =>
      match a.opn with
      | some ev =>
          if a.tied && ev.pitch == p then
            { a with opn := some { ev with dur := ev.dur + e.dur }, tied := tieOut e.tie, time := a.time + e.dur }
          else
            { closed := a.flush, opn := some ⟨p, a.time, e.dur⟩, tied := tieOut e.tie, time := a.time + e.dur }
      | none => { closed := a.closed, opn := some ⟨p, a.time, e.dur⟩, tied := tieOut e.tie, time := a.time + e.dur }

/-- accumulator of a voice given in reverse (last element first) -/
def accRev : List Elem → Acc
  | [] => {}
  | e :: r => stepV (accRev r) e

/-- the notes a voice sounds -/
def soundV (v : List Elem) : List Ev := (v.foldl stepV {}).flush

def stepR (a : Acc) (r : Row) : Acc :=
  if r.cont then { a with opn := a.opn.map (fun ev => { ev with dur := ev.dur + r.dur }) }
  else if r.silence then { a with closed := a.flush, opn := none }
  else { a with closed := a.flush, opn := some ⟨r.pitch, r.offset, r.dur⟩ }

/-- the notes the rows of one track sound -/
def soundR (rows : List Row) : List Ev := (rows.foldl stepR {}).flush

/-- MIDI key number of a matrix pitch -/
def Ev.key (e : Ev) : Ev := { e with pitch := 60 + e.pitch }

/-- rows of the note matrix for one part (`create_melody_for_track`) -/
def rowsOf (s : Score) (part : String) : Res (List Row) :=
  trackRows part ((trackList s).idxOf part) s 0 none

end MV.Mxl

namespace MV.Mxl

/-! ### the domain of the claim, as a walk over the part

`Sync` is what exporter and MIDI renderer can know about a part at a given moment:
`fresh`  — no sounded note to refer to (start of the score, or the part was absent from a chord);
`snd`    — a note of the part is sounding (a continuation prolongs it);
`sil`    — the part has sounded before and is now in a rest;
`desync` — the part was shorter than its chord while a note was sounding: the exporter has padded
           with a rest, the MIDI renderer still holds the note. -/
inductive Sync where
  | fresh | snd | sil | desync
  deriving DecidableEq, Repr, Inhabited

/-- one note of the part.  `none`: the note is outside the claim — a drum or pattern note, a
relative note without a reference, and (only when `strict`) a continuation in `desync`. -/
def syncNote (strict : Bool) (σ : Sync) (n : Note) : Option Sync :=
  if n.kind.isNote then
    if n.kind.isRelative && σ == .fresh then none else some .snd
  else if n.kind == .r then some (if σ == .fresh then .fresh else .sil)
  else if n.kind == .l then (if σ == .desync && strict then none else some σ)
  else none

def syncMelody (strict : Bool) : Sync → Melody → Option Sync
  | σ, [] => some σ
  | σ, n :: ns =>
      match syncNote strict σ n with
      | some σ' => syncMelody strict σ' ns
      | none => none

def syncPad (σ : Sync) : Sync := if σ == .snd then .desync else σ

def syncChord (strict : Bool) (part : String) (σ : Sync) (c : Chord) : Option Sync :=
  match c.parts.lookup part with
  | some m =>
      match syncMelody strict σ m with
      | some σ' => some (if melodyDuration m < c.dur then syncPad σ' else σ')
      | none => none
  | none => some .fresh

def syncScore (strict : Bool) (part : String) : Sync → Score → Option Sync
  | σ, [] => some σ
  | σ, c :: cs =>
      match syncChord strict part σ c with
      | some σ' => syncScore strict part σ' cs
      | none => none

/-- the property's domain for one part: no drum / pattern-placeholder notes, and every relative
note has an earlier sounded note of the part to refer to (no absence of the part in between,
because the MIDI renderer forgets the reference there) -/
def InClaim (s : Score) (part : String) : Prop := (syncScore false part .fresh s).isSome = true

/-- `InClaim` and, in addition, no continuation directly follows the padding of a short part
while a note is still held by the MIDI renderer -/
def NoContAfterGap (s : Score) (part : String) : Prop := (syncScore true part .fresh s).isSome = true

/-- every part present in a chord lasts as long as the chord (no padding is ever needed) -/
def Filled (s : Score) (part : String) : Prop :=
  ∀ c ∈ s, ∀ m, c.parts.lookup part = some m → ¬ melodyDuration m < c.dur

instance (s : Score) (part : String) : Decidable (InClaim s part) := by unfold InClaim; exact inferInstance
instance (s : Score) (part : String) : Decidable (NoContAfterGap s part) := by unfold NoContAfterGap; exact inferInstance

end MV.Mxl
