/-
Executable model of `musiclang/write/rhythm/metric.py` (class `Metric`),
`musiclang/write/rhythm/utils_metric.py` (`bjorklund_algorithm`) and of the call
`ScoreRhythm.__call__` makes into them (`apply_to_melody(start=, end=)`).

Function for function, in the code's shape (same comparisons, same index arithmetic,
same error branches).  Loops are written as structural recursions whose accumulator
is consed instead of appended; `while True` loops carry a fuel (the theorems of
`Props/C17.lean` show it is never exhausted).

What is *not* modelled: the Python objects' `amp / tags / tempo / pedal` bookkeeping
of `Note.copy` (a `Silence` copy resets the amplitude, a `Continuation` copy drops the
tempo); a tatum given as a tuple or a float (the harness passes `Fraction`/`int`).
No Mathlib, no proofs.
-/
import MV.Model.Basic
import MV.Gen.Tables
import MV.Gen.MetricTables

namespace MV.Rhythm
open MV

/-! ### `fractions.Fraction` helpers -/

/-- the `while True` loop of `Fraction.limit_denominator` (state `p0 q0 p1 q1 n d`);
returns `(p0, q0, p1, q1, d)` at the `break` -/
def limitLoop : Nat → Int → Int → Int → Int → Int → Int → Int → (Int × Int × Int × Int × Int)
  | 0, _, p0, q0, p1, q1, _, d => (p0, q0, p1, q1, d)
  | f + 1, M, p0, q0, p1, q1, n, d =>
      let a := n / d
      let q2 := q0 + a * q1
      if q2 > M then (p0, q0, p1, q1, d)
      else limitLoop f M p1 q1 (p0 + a * p1) q2 d (n - a * d)

/-- `Fraction.limit_denominator(max_denominator)` (CPython 3.12), `max_denominator ≥ 1` -/
def limitDenominator (q : Rat) (M : Nat) : Rat :=
  if q.den ≤ M then q
  else
    match limitLoop (q.den + 2) M 0 1 1 0 q.num q.den with
    | (p0, q0, p1, q1, d) =>
      let k := ((M : Int) - q0) / q1
      if 2 * d * (q0 + k * q1) ≤ q.den then mkRat p1 q1.toNat
      else mkRat (p0 + k * p1) (q0 + k * q1).toNat

/-- `a // b` on fractions (`b ≠ 0`) -/
def ratFloorDiv (a b : Rat) : Int := (a / b).floor

/-- `a % b` on fractions (`b ≠ 0`): `a - b * (a // b)` -/
def ratMod (a b : Rat) : Rat := a - b * ((a / b).floor : Int)

/-- `int(q)`: truncation toward zero -/
def ratTrunc (q : Rat) : Int := Int.tdiv q.num q.den

/-! ### notes -/

/-- `Note.set_duration(value)`: a copy whose duration is `value.limit_denominator(LIMIT_DENOM)` -/
def setDuration (n : Note) (v : Rat) : Note := { n with dur := limitDenominator v Gen.LIMIT_DENOM }

/-- `Silence(1)` -/
def silence1 : Note := { kind := .r, val := 0, oct := 0, dur := 1 }

/-- `Melody.duration` -/
def melDuration (l : List Note) : Rat := (l.map (·.dur)).sum

/-- `Melody.get_note_times`: onsets of the elements with `is_note or type in ["x", "d"]` -/
def noteTimesFrom : Rat → List Note → List Rat
  | _, [] => []
  | t, n :: ns =>
      if n.kind.isNote || n.kind == .x || n.kind == .d then t :: noteTimesFrom (t + n.dur) ns
      else noteTimesFrom (t + n.dur) ns

def noteTimes (l : List Note) : List Rat := noteTimesFrom 0 l

/-! ### the metric -/

structure Metric where
  array : List Int
  sig : Int × Int
  tatum : Rat
  nbBars : Int
  deriving DecidableEq, Repr, Inhabited

/-- `Metric.duration` = `nb_bars * nom * frac(4, den)` (callers have checked `den ≠ 0`) -/
def durationOf (sig : Int × Int) (nbBars : Int) : Rat := (nbBars : Rat) * (sig.1 : Rat) * ((4 : Rat) / (sig.2 : Rat))

def Metric.duration (m : Metric) : Rat := durationOf m.sig m.nbBars

/-- `Metric.nb_notes` -/
def Metric.nbNotes (m : Metric) : Int := m.array.sum

/-- `Metric.__init__` -/
def Metric.mk? (array : List Int) (sig : Int × Int) (tatum : Rat) (nbBars : Int) : Res Metric :=
  if ¬ (sig ∈ Gen.SIGNATURES) then .error .value
  else if sig.2 = 0 then .error .zerodiv             -- frac(4, den)
  else if tatum = 0 then .error .zerodiv             -- self.duration / self.tatum
  else if durationOf sig nbBars / tatum ≠ (array.length : Rat) then .error .value
  else .ok { array, sig, tatum, nbBars }

/-- the `for b in array[1:]` loop of `get_beat_durations`; state `(is_note, curr_dur)` -/
def beatLoop (tatum : Rat) : List Int → Bool → Rat → List (Bool × Rat)
  | [], isNote, cur => [(isNote, cur)]
  | b :: bs, isNote, cur =>
      if b = 0 then beatLoop tatum bs isNote (cur + tatum)
      else if b = 1 then (isNote, cur) :: beatLoop tatum bs true tatum
      else (isNote, cur) :: beatLoop tatum bs false tatum

/-- `Metric.get_beat_durations(array)` → `(result, first_has_note)` -/
def getBeatDurations (tatum : Rat) : List Int → Res (List (Bool × Rat) × Bool)
  | [] => .error .index                               -- array[0]
  | a0 :: rest => .ok (beatLoop tatum rest (a0 == 1) tatum, a0 == 1)

/-- the loop of `_apply_durations_to_melody`, `idx` = position in `beat_durations` -/
def applyLoop (notes : List Note) (first expand : Bool) : Nat → List (Bool × Rat) → Res (List Note)
  | _, [] => .ok []
  | idx, (hasNote, beat) :: rest =>
      if idx = 0 ∧ first = false then do
        let r ← applyLoop notes first expand (idx + 1) rest
        pure (setDuration silence1 beat :: r)
      else if expand = false ∧ idx > notes.length then .ok []      -- break
      else if hasNote then
        if notes.length = 0 then .error .zerodiv                     -- idx % len(notes)
        else match notes[idx % notes.length]? with
          | none => .error .index
          | some n => do
              let r ← applyLoop notes first expand (idx + 1) rest
              pure (setDuration n beat :: r)
      else do
        let r ← applyLoop notes first expand (idx + 1) rest
        pure (setDuration silence1 beat :: r)

/-- `Metric._apply_durations_to_melody` -/
def applyDurations (notes : List Note) (beats : List (Bool × Rat)) (first expand : Bool) : Res (List Note) :=
  applyLoop notes first expand 0 beats

/-- `range(a, b)` -/
def intRange (a b : Int) : List Int := (List.range (b - a).toNat).map (fun (i : Nat) => a + (i : Int))

/-- `Metric.get_array_between(start, end)` -/
def Metric.getArrayBetween (m : Metric) (start stop : Option Rat) : Res (List Int × Rat × Rat) :=
  let s := start.getD 0
  let e := stop.getD m.duration
  if m.tatum = 0 then .error .zerodiv
  else
    let idxStart := ratFloorDiv s m.tatum
    let idxEnd := ratFloorDiv e m.tatum
    let idxs := intRange idxStart idxEnd
    if idxs ≠ [] ∧ m.array.length = 0 then .error .zerodiv       -- idx % len(self.array)
    else .ok (idxs.map (fun idx => m.array.getD (idx % (m.array.length : Int)).toNat 0), s, e)

/-- replace the last element (`result.notes[-1] = …`) -/
def setLast (l : List Note) (f : Note → Note) : Res (List Note) :=
  match l.getLast? with
  | none => .error .index
  | some x => .ok (l.dropLast ++ [f x])

/-- `Metric.apply_to_melody(notes, expand, start, end)` on a list of notes -/
def Metric.applyToMelody (m : Metric) (notes : List Note) (expand : Bool := true)
    (start stop : Option Rat := none) : Res (List Note) := do
  let (array, s, e) ← m.getArrayBetween start stop
  let total := array.sum
  let notes := if expand = false ∧ (notes.length : Int) < total
    then notes ++ List.replicate (total - notes.length).toNat silence1 else notes
  let (beats, first) ← getBeatDurations m.tatum array
  let result ← applyDurations notes beats first expand
  if melDuration result > e - s then do
    let delta := ratMod (e - s) m.tatum
    let result ← setLast result (fun n => setDuration n (n.dur - delta))
    if melDuration result = e - s then pure result else .error .assertion
  else if melDuration result < e - s then
    let delta := ratMod (e - s) m.tatum
    setLast result (fun n => setDuration n (n.dur + delta))
  else pure result

/-- `Metric.complementary` -/
def Metric.complementary (m : Metric) : Res Metric :=
  Metric.mk? (m.array.map (fun a => 1 - a)) m.sig m.tatum m.nbBars

/-- `Metric.reversed` -/
def Metric.reversed (m : Metric) : Res Metric :=
  Metric.mk? m.array.reverse m.sig m.tatum m.nbBars

/-- `Metric.circular_shift(n)`: `array[(-n % len):] + array[:(-n % len)]` -/
def Metric.circularShift (m : Metric) (n : Int) : Res Metric :=
  if m.array.length = 0 then .error .zerodiv
  else
    let k := ((-n) % (m.array.length : Int)).toNat
    Metric.mk? (m.array.drop k ++ m.array.take k) m.sig m.tatum m.nbBars

/-- the per-note loop of `Metric.FromMelody` -/
def fromMelodyLoop (tatum : Rat) : List Note → Res (List Int)
  | [] => .ok []
  | n :: ns =>
      if tatum = 0 then .error .zerodiv
      else
        let nb := n.dur / tatum
        if nb.den ≠ 1 then .error .value              -- nb_tatums != int(nb_tatums)
        else do
          let rest ← fromMelodyLoop tatum ns
          pure ((if n.kind.isNote || n.kind == .x || n.kind == .d then (1 : Int) else 0)
            :: List.replicate (nb.num - 1).toNat (0 : Int) ++ rest)

/-- minimum of a non-empty list of rationals -/
def minRat : List Rat → Res Rat
  | [] => .error .value                               -- min([])
  | x :: xs => .ok (xs.foldl (fun a b => if b < a then b else a) x)

/-- `Metric.FromMelody(melody, signature, tatum, nb_bars)` -/
def fromMelody (notes : List Note) (sig : Int × Int) (tatum : Option Rat) (nbBars : Int) : Res Metric := do
  let t ← match tatum with
    | some t => pure t
    | none => minRat (notes.map (·.dur))
  let array ← fromMelodyLoop t notes
  if nbBars = 0 then .error .zerodiv                  -- len(array) // nb_bars
  else Metric.mk? array sig t nbBars

/-- `metric.from_melody(melody)` -/
def Metric.fromMelody (m : Metric) (notes : List Note) : Res Metric :=
  Rhythm.fromMelody notes m.sig (some m.tatum) m.nbBars

/-! ### Bjorklund -/

/-- the `while True` loop of `bjorklund_algorithm`, one call per iteration:
`d` = `divisor`, `r` = `remainders[level]`.  Returns the entries appended to `counts`
(including the final `counts.append(divisor)`) and those appended to `remainders`.
`none` = out of fuel. -/
def euclidLoop : Nat → Int → Int → Option (Res (List Int × List Int))
  | 0, _, _ => none
  | f + 1, d, r =>
      if r = 0 then some (.error .zerodiv)             -- divisor // remainders[level]
      else
        let c := Int.fdiv d r
        let r' := Int.fmod d r
        if r' ≤ 1 then some (.ok ([c, r], [r']))
        else match euclidLoop f r r' with
          | none => none
          | some (.error e) => some (.error e)
          | some (.ok (cs, rs)) => some (.ok (c :: cs, r' :: rs))

/-- `word` repeated `k` times -/
def repeatWord (k : Nat) (w : List Int) : List Int :=
  match k with
  | 0 => []
  | k + 1 => w ++ repeatWord k w

/-- `build(level)` with the level shifted by two (`0` ↦ level −2, `1` ↦ level −1);
returns what the call appends to `pattern` -/
def build (counts remainders : List Int) : Nat → Res (List Int)
  | 0 => .ok [1]
  | 1 => .ok [0]
  | lv + 2 =>
      match counts[lv]?, remainders[lv]? with
      | some c, some r => do
          let w1 ← build counts remainders (lv + 1)
          let body := repeatWord c.toNat w1
          if r ≠ 0 then do
            let w2 ← build counts remainders lv
            pure (body ++ w2)
          else pure body
      | _, _ => .error .index

/-- `bjorklund_algorithm(steps, pulses)`; `.error .other` = the loop ran out of fuel -/
def bjorklund (steps pulses : Int) : Res (List Int) :=
  if pulses > steps then .error .value
  else
    match euclidLoop (pulses.toNat + 1) (steps - pulses) pulses with
    | none => .error .other
    | some (.error e) => .error e
    | some (.ok (counts, rems)) =>
        let remainders := pulses :: rems
        let level := counts.length - 1               -- value of `level` after the loop
        match build counts remainders (level + 2) with
        | .error e => .error e
        | .ok pattern =>
            match pattern.findIdx? (· == 1) with
            | none => .error .value                     -- pattern.index(1)
            | some i => .ok (pattern.drop i ++ pattern.take i)

/-- `Metric._nb_steps(signature, tatum, nb_bars)` -/
def nbSteps (sig : Int × Int) (tatum : Rat) (nbBars : Int) : Res Int :=
  if sig.2 = 0 then .error .zerodiv
  else
    let duration := (sig.1 : Rat) * ((4 : Rat) / (sig.2 : Rat))
    if tatum = 0 then .error .zerodiv
    else .ok (ratTrunc ((nbBars : Rat) * (duration / tatum)))

/-- `Metric.Euclidian(pulses, signature, tatum, nb_bars)` -/
def euclidian (pulses : Int) (sig : Int × Int) (tatum : Rat) (nbBars : Int) : Res Metric := do
  let steps ← nbSteps sig tatum nbBars
  let array ← bjorklund steps pulses
  Metric.mk? array sig tatum nbBars

end MV.Rhythm
