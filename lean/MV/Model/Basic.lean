/-
Small executable helpers mirroring Python built-ins used all over the code base.
Import-free.
-/
import MV.Model.Types

namespace MV

/-- stable insertion of `x` (with key `k x`) after every element whose key is `≤` -/
def insertByKey (k : α → Int) (x : α) : List α → List α
  | [] => [x]
  | y :: ys => if k y ≤ k x then y :: insertByKey k x ys else x :: y :: ys

/-- Python's `sorted(l, key=k)` (stable) for integer keys, as insertion sort:
fold from the right so that equal keys keep their original order -/
def sortByKey (k : α → Int) (l : List α) : List α :=
  l.foldr (fun x acc => insertFront k x acc) []
where
  /-- insert `x` *before* every element whose key is `≥` (used from the right) -/
  insertFront (k : α → Int) (x : α) : List α → List α
    | [] => [x]
    | y :: ys => if k x ≤ k y then x :: y :: ys else y :: insertFront k x ys

/-- Python's `sorted` on a list of integers -/
def sortInts (l : List Int) : List Int := sortByKey id l

/-- `sorted(set(l))` for integers -/
def sortedDedup (l : List Int) : List Int :=
  dedupAdj (sortInts l)
where
  dedupAdj : List Int → List Int
    | [] => []
    | [x] => [x]
    | x :: y :: r => if x = y then dedupAdj (y :: r) else x :: dedupAdj (y :: r)

/-- Python's `sorted` on strings (code-point lexicographic order = Lean's `String` order) -/
def sortStrs (l : List String) : List String := l.mergeSort (fun a b => decide (a ≤ b))

/-- Python list index with a possibly negative `Int` index (`l[i]`) -/
def pyIndex (l : List α) (i : Int) : Res α :=
  let n : Int := l.length
  let j := if i < 0 then i + n else i
  if j < 0 ∨ j ≥ n then .error .index
  else match l[j.toNat]? with
    | some x => .ok x
    | none => .error .index

/-- association-list lookup raising `KeyError` -/
def lookupKey [BEq κ] (k : κ) (l : List (κ × ν)) : Res ν :=
  match l.lookup k with
  | some v => .ok v
  | none => .error .key

def sumRat (l : List Rat) : Rat := l.foldl (· + ·) 0

end MV
