/-
Model of the renderer `musiclang/write/out/to_midi.py` (note matrix and `to_events`)
for notes without ornament tags (`realize_tags` is then a copy; tagged notes are C16's):
  get_track_list, note_to_pitch, melody_to_pitches, create_melody_for_track, get_notes,
  matrix_to_events.
Durations are assumed to have denominators ≤ 1000 (the copy made by `realize_tags`
re-limits them, a no-op on that domain).
-/
import MV.Model.Pitch

namespace MV

/-- one row of the note matrix (`NotePitch.to_midi_note`) -/
structure Row where
  pitch : Int
  offset : Rat
  dur : Rat
  vel : Rat
  track : Nat
  silence : Bool
  cont : Bool
  tempo : Option Int := none
  pedal : Option Bool := none
  deriving DecidableEq, Repr, Inhabited

/-- `Melody.duration` -/
def melodyDuration (m : Melody) : Rat := sumRat (m.map (·.dur))

/-- `Chord.duration` as Python computes it: `max` of the part durations (0 if none) -/
def Chord.dur (c : Chord) : Rat :=
  match c.parts.map (fun p => melodyDuration p.2) with
  | [] => 0
  | d :: ds => ds.foldl max d

/-- `get_track_list`: part names in order of first appearance -/
def trackList (s : Score) : List String :=
  (s.flatMap (fun c => c.parts.map (·.1))).foldl (fun acc p => if acc.contains p then acc else acc ++ [p]) []

/-- `note_to_pitch`: one row and the new "last sounding pitch" -/
def noteToRow (n : Note) (c : Chord) (track : Nat) (time : Rat) (last : Option Int) :
    Res (Row × Option Int) := do
  let p ← noteToPitch c n (last.getD 0)
  let pitch := p.getD 0
  let isSil := n.kind == .r || (n.kind == .l && last.isNone)
  let isCont := n.kind == .l && last.isSome
  let row : Row := { pitch, offset := time, dur := n.dur, vel := n.amp, track,
                     silence := isSil, cont := isCont, tempo := n.tempo, pedal := n.pedal }
  pure (row, if !(isSil || isCont) then some pitch else last)

/-- `melody_to_pitches` -/
def melodyToRows : Melody → Chord → Nat → Rat → Option Int → Res (List Row × Option Int)
  | [], _, _, _, last => pure ([], last)
  | n :: ns, c, track, time, last => do
      let (row, last') ← noteToRow n c track time last
      let (rows, last'') ← melodyToRows ns c track (time + n.dur) last'
      pure (row :: rows, last'')

/-- `create_melody_for_track` over the remaining chords -/
def trackRows (track : String) (idx : Nat) : Score → Rat → Option Int → Res (List Row)
  | [], _, _ => pure []
  | c :: cs, time, last =>
      match c.parts.lookup track with
      | some part => do
          let (rows, last') ← melodyToRows part c idx time last
          let rest ← trackRows track idx cs (time + c.dur) last'
          pure (rows ++ rest)
      | none => trackRows track idx cs (time + c.dur) none

/-- `get_notes`: the note matrix, track after track -/
def getNotes (s : Score) : Res (List Row) := do
  let tracks := trackList s
  let per ← tracks.zipIdx.mapM (fun (t, i) => trackRows t i s 0 none)
  pure per.flatten

/-- one event of `to_events` (times in seconds, exact) -/
structure Event where
  pitch : Int
  offset : Rat
  dur : Rat
  vel : Int
  track : Nat
  silence : Bool
  deriving DecidableEq, Repr, Inhabited

/-- stable insertion sort by a rational key (`sorted(matrix, key=lambda x: x[1])`) -/
def sortByRat (k : α → Rat) (l : List α) : List α :=
  l.foldr (fun x acc => ins x acc) []
where
  ins (x : α) : List α → List α
    | [] => [x]
    | y :: ys => if k x ≤ k y then x :: y :: ys else y :: ins x ys

/-- per-track event lists of `matrix_to_events`, in order of first appearance -/
abbrev EvMap := List (Nat × List Event)

def EvMap.get (m : EvMap) (t : Nat) : Option (List Event) := m.lookup t

def EvMap.set (m : EvMap) (t : Nat) (evs : List Event) : EvMap :=
  if m.any (·.1 == t) then m.map (fun p => if p.1 == t then (t, evs) else p) else m ++ [(t, evs)]

/-- the loop of `matrix_to_events` (tempo changes included; `int(velocity)` truncates) -/
def eventsLoop : List Row → Rat → EvMap → EvMap
  | [], _, m => m
  | r :: rs, tempo, m =>
      let tempo := match r.tempo with | some t => (t : Rat) | none => tempo
      let secOff := r.offset * 60 / tempo
      let secDur := r.dur * 60 / tempo
      let ev : Event := { pitch := r.pitch, offset := secOff, dur := secDur, vel := r.vel.floor,
                          track := r.track, silence := r.silence }
      if !r.cont then
        eventsLoop rs tempo (m.set r.track ((m.get r.track).getD [] ++ [ev]))
      else
        match m.get r.track with
        | some evs =>
            match evs.reverse with
            | lastEv :: before =>
                eventsLoop rs tempo (m.set r.track (before.reverse ++ [{ lastEv with dur := lastEv.dur + secDur }]))
            | [] => eventsLoop rs tempo m    -- cannot happen: lists are never empty
        | none => eventsLoop rs tempo (m.set r.track [{ ev with silence := true }])

/-- `matrix_to_events` -/
def matrixToEvents (rows : List Row) (tempo : Rat) : List Event :=
  let sorted := sortByRat (·.offset) rows
  let m := eventsLoop sorted tempo []
  let evs := (m.map (·.2)).flatten
  sortByRat (·.offset) (evs.filter (fun e => !e.silence))

/-- `Score.to_events(tempo)` -/
def toEvents (s : Score) (tempo : Rat) : Res (List Event) := do
  pure (matrixToEvents (← getNotes s) tempo)

end MV
