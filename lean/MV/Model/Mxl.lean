/-
Model of the music21 / MusicXML exporter `musiclang/write/out/to_mxl.py`
(on the tree with the three C08 repairs: chromatic fallback for modes without a spelling
table, running silence flag, padding of short parts):

  get_note_spelling           → `getNoteSpelling`   (table lookup, octave `(p+48) // 12`, `B#`/`Cb`
                                 correction, chromatic fallback)
  music21's reading of a name → `parseName`, `nameToMidi` (letter + accidentals + octave → MIDI number)
  chord_instrument_to_notes   → `noteStep`, `tieOrRest`, `notesLoop`, `chordStep`
                                 (the tie / rest / `last_is_silence` bookkeeping, verbatim)
  score_instrument_to_notes   → `chordsLoop`, `voiceOf`
  tonality_to_music21_key     → `keyName`

What is written to the voice is kept as a list of `Elem` (notes with their sounding MIDI number,
duration and tie mark; rests).  `music21.stream.Voice.append` puts every element at the current
end of the voice, so offsets are the running sums of the durations (`offsets`).  Dynamics marks and
lyrics are not modelled (zero duration, not part of the sounding claim); `no_repeat=True` is
modelled for notes of constant dynamics.

Domain notes.  The voice is kept *reversed* (`rev`, last appended element first) so that
`voice[-1]` is the head.  Outside the notation range (a spelled octave below 0) music21 misreads
the text (`'C-1'` is C-flat 1) or raises `AccidentalException` (`'Eb-1'`); the model returns
`Err.other` there and the harness stays in range.
-/
import MV.Model.Render
import MV.Gen.Mxl

namespace MV.Mxl

open MV Gen

/-! ### music21's reading of a spelled name -/

/-- semitone of a step letter above C -/
def letterSemitone : Char → Option Int
  | 'C' => some 0 | 'D' => some 2 | 'E' => some 4 | 'F' => some 5
  | 'G' => some 7 | 'A' => some 9 | 'B' => some 11
  | _ => none

/-- accidental characters after the letter: `#` raises, `b` and `-` lower -/
def alterOf : List Char → Option Int
  | [] => some 0
  | c :: cs =>
      match alterOf cs with
      | none => none
      | some a => if c == '#' then some (a + 1) else if c == 'b' || c == '-' then some (a - 1) else none

/-- `(letter semitone, alteration)` of a name like `F##`, `Bb`, `E-` -/
def parseName (name : String) : Option (Int × Int) :=
  match name.toList with
  | [] => none
  | c :: cs =>
      match letterSemitone c, alterOf cs with
      | some s, some a => some (s, a)
      | _, _ => none

/-- MIDI number music21 gives to `name ++ str(octave)` for `octave ≥ 0` (C4 = 60) -/
def nameToMidi (name : String) (oct : Int) : Option Int :=
  match parseName name with
  | some (s, a) => some (s + a + 12 * (oct + 1))
  | none => none

/-- what `get_note_spelling` builds: a named note (`Note(name + str(octave))`) or a
pitch-class note with its octave set (`Note(pc); .octave = o`) -/
inductive Spelling where
  | named (name : String) (oct : Int)
  | chromatic (pc : Int) (oct : Int)
  deriving DecidableEq, Repr, Inhabited

/-- sounding MIDI number (music21 `pitch.ps`) of a spelling -/
def Spelling.midi : Spelling → Res Int
  | .named name oct =>
      if oct < 0 then .error .other      -- outside the notation range (see header)
      else match nameToMidi name oct with
        | some m => .ok m
        | none => .error .other          -- music21 rejects the name
  | .chromatic pc oct => .ok (pc + 12 * (oct + 1))

/-! ### get_note_spelling -/

/-- `note_to_pitch_result(note, chord, last_pitch)` as the exporter calls it: `last_pitch`
may be `None` (then relative notes raise `TypeError`); a `None` result makes `pitch % 12`
raise `TypeError` -/
def pitchResult (c : Chord) (n : Note) (last : Option Int) : Res Int := do
  let r ← if n.kind.isRelative then
      match last with
      | none => .error .type
      | some lp => noteToPitch c n lp
    else noteToPitch c n 0
  match r with
  | some p => pure p
  | none => .error .type

/-- `SCALES[mode][tonality_degree][idx]` once `mode in SCALES` is known -/
def tableName (tab : List (Int × List String)) (deg : Int) (idx : Nat) : Res String := do
  let row ← lookupKey deg tab
  pyIndex row (Int.ofNat idx)

/-- `get_note_spelling(note, chord, last_pitch)`: the spelling and the pitch -/
def getNoteSpelling (c : Chord) (n : Note) (last : Option Int) : Res (Spelling × Int) := do
  let pitch ← pitchResult c n last
  let tsp := c.ton.scalePitches.map (· % 12)
  match tsp.findIdx? (· == pitch % 12), MXL_SCALES c.ton.mode with
  | some idx, some tab => do
      let name ← tableName tab c.ton.deg idx
      let octave := (pitch + 48) / 12
      let octave := if name == "B#" then octave - 1 else if name == "Cb" then octave + 1 else octave
      pure (.named name octave, pitch)
  | _, _ => pure (.chromatic (pitch % 12) ((pitch + 48) / 12), pitch)

/-! ### the voice -/

inductive Tie where
  | start | stop | cont
  deriving DecidableEq, Repr, Inhabited

def Tie.toStr : Tie → String
  | .start => "start" | .stop => "stop" | .cont => "continue"

/-- one element appended to the music21 voice: `pitch = none` is a rest -/
structure Elem where
  pitch : Option Int
  dur : Rat
  tie : Option Tie := none
  deriving DecidableEq, Repr, Inhabited

def Elem.rest (d : Rat) : Elem := { pitch := none, dur := d }

/-- the loop state of `score_instrument_to_notes` (`curr_dynamic` left out) -/
structure VState where
  rev : List Elem := []                  -- the voice, last appended first
  lastSpelling : Option Int := none      -- sounding number of `last_spelling` (re-read by `Note(last_spelling)`)
  lastPitch : Option Int := none
  lastIsSilence : Bool := true
  deriving DecidableEq, Repr, Inhabited

/-- the `try: if last_spelling is not None and not last_is_silence: … else: Rest` block
(identical in the continuation branch and in the `no_repeat` branch) -/
def tieOrRest (st : VState) (d : Rat) : VState :=
  match st.lastSpelling, st.lastIsSilence, st.rev with
  | some m, false, e :: r =>
      { st with rev := { pitch := some m, dur := d, tie := some .stop } :: { e with tie := some .start } :: r }
  | _, _, _ => { st with rev := Elem.rest d :: st.rev, lastIsSilence := true }

/-- body of the loop over `part.notes` in `chord_instrument_to_notes` -/
def noteStep (c : Chord) (noRepeat : Bool) (st : VState) (n : Note) : Res VState :=
  if n.kind.isNote then do
    let old := st.lastPitch
    let (sp, p) ← getNoteSpelling c n st.lastPitch
    let m ← sp.midi
    let st := { st with lastPitch := some p, lastSpelling := some m }
    if (some p != old) || !noRepeat then
      pure { st with rev := { pitch := some m, dur := n.dur } :: st.rev, lastIsSilence := false }
    else
      pure (tieOrRest st n.dur)
  else if n.kind == .r then
    pure { st with rev := Elem.rest n.dur :: st.rev, lastIsSilence := true }
  else if n.kind == .l then
    pure (tieOrRest st n.dur)
  else
    pure st          -- drum and pattern notes: nothing is written

def notesLoop (c : Chord) (noRepeat : Bool) : VState → Melody → Res VState
  | st, [] => pure st
  | st, n :: ns => do
      let st' ← noteStep c noRepeat st n
      notesLoop c noRepeat st' ns

/-- `chord_instrument_to_notes` -/
def chordStep (part : String) (noRepeat : Bool) (st : VState) (c : Chord) : Res VState :=
  match c.parts.lookup part with
  | some m => do
      let st' ← notesLoop c noRepeat st m
      if melodyDuration m < c.dur then
        pure { st' with rev := Elem.rest (c.dur - melodyDuration m) :: st'.rev, lastIsSilence := true }
      else pure st'
  | none => pure { st with rev := Elem.rest c.dur :: st.rev, lastIsSilence := true }

def chordsLoop (part : String) (noRepeat : Bool) : VState → Score → Res VState
  | st, [] => pure st
  | st, c :: cs => do
      let st' ← chordStep part noRepeat st c
      chordsLoop part noRepeat st' cs

/-- `score_instrument_to_notes`: the elements of the voice in order -/
def voiceOf (s : Score) (part : String) (noRepeat : Bool := false) : Res (List Elem) := do
  let st ← chordsLoop part noRepeat {} s
  pure st.rev.reverse

/-- offsets given by `Voice.append`: running sums of the durations -/
def offsets : List Elem → Rat → List (Rat × Elem)
  | [], _ => []
  | e :: es, t => (t, e) :: offsets es (t + e.dur)

/-! ### header -/

def keysMajor : List String := ["C", "Db", "D", "Eb", "E", "F", "F#", "G", "Ab", "A", "Bb", "B"]
def keysMinor : List String := ["c", "c#", "d", "d#", "e", "f", "f#", "g", "g#", "a", "bb", "b"]

/-- `tonality_to_music21_key`: the name handed to `music21.key.Key` -/
def keyName (t : Tonality) : Res String :=
  pyIndex (if t.mode == .M || t.mode == .lydian || t.mode == .mixolydian then keysMajor else keysMinor) t.deg

end MV.Mxl
