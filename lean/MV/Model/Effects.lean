/-
Effect IR for C06 (immutability): datatypes, an executable abstract-heap semantics, and the
checker `ana` (provenance analysis with procedure summaries).  Import-free, no proofs.

The IR is what `harness/translate_C06.py` extracts from the Python source (one `FnDef` per
function).  It abstracts a Python function body to the operations that matter for aliasing:

  prim x            x := a value that is not a music object (int, str, Fraction, a VoiceLeading ...)
  ext x             x := some pre-existing object (global, library symbol, unknown callee result)
  move x y          x := y
  load x y f        x := y.f            (also y[i], iteration over y, y.items() ...; field-insensitive)
  new x args        x := a new object / container holding the values of `args`   (constructor,
                                         literal, comprehension, slice, list + list)
  copy x y          x := deep copy of y                                         (`.copy()` idiom of
                                         builtin containers of prims, `copy.deepcopy`, assumed sites)
  store x f y       x.f := y            (also x[i] = y, del, x.append(y), x.sort() ... with f = 0)
  call x fn args    x := fn(args)       (callee looked up in the table)
  ret y             return y            (non-deterministically: later code is still executed,
                                         which over-approximates the paths)
  seq / choice / loop                    control flow (conditions are abstracted by an oracle)

Provenance of a value (the four classes of DESIGN §5 C06, plus the origin of an external):
  prim     NotMusicObject            deep   DeepFresh  (allocated in this run, closed under loads)
  fresh k  ShallowFresh, with the number k of loads that are known to stay inside fresh objects
           (`fresh 0` = a new container holding aliases; `fresh 1` = a new object whose fields are new
           containers of aliases, e.g. the result of `Chord.__call__` ...)
  par i    External reached through parameter i              ext   External (unknown origin)
-/

namespace MV.Effects

-- variables, fields, locations and function ids are natural numbers (scoped notations rather than
-- abbreviations, so that `omega` sees `Nat` in the proofs)
scoped notation "Var" => Nat
scoped notation "Field" => Nat
scoped notation "Loc" => Nat
scoped notation "FnId" => Nat

inductive Val where
  | prim
  | ref (l : Loc)
  deriving DecidableEq, Repr, Inhabited

inductive Prov where
  | prim | deep
  | fresh (k : Nat)
  | par (i : Nat)
  | ext
  deriving DecidableEq, Repr, Inhabited

inductive Cmd where
  | prim (x : Var)
  | ext (x : Var)
  | move (x y : Var)
  | load (x y : Var) (f : Field)
  | new (x : Var) (args : List Var)
  | copy (x y : Var)
  | store (x : Var) (f : Field) (y : Var)
  | call (x : Var) (fn : FnId) (args : List Var)
  | ret (y : Var)
  deriving Repr, Inhabited

inductive Prog where
  | skip
  | cmd (c : Cmd)
  | seq (p q : Prog)
  | choice (p q : Prog)
  | loop (p : Prog)
  deriving Repr, Inhabited

/-- One function of the table.  Variable 0 is the return slot, variables `1..nparams` are the
parameters.  `writes` lists the (1-based) parameters the body stores through: the body is checked
with those parameters assumed DeepFresh and every call site must pass a DeepFresh argument there.
`clobbers`: the body may store a non-DeepFresh pointer into a fresh object (which, when a parameter
is written, ends the closedness of the caller's DeepFresh region).  `ret`: claimed provenance of the result. -/
structure FnDef where
  nparams : Nat
  writes : List Nat
  clobbers : Bool
  ret : Prov
  body : Prog
  deriving Repr, Inhabited

/-- the table of all functions: a lookup function (generated as a balanced decision tree, which the
kernel evaluates in logarithmic time) -/
abbrev Table := Nat → Option FnDef

/-! ## Abstract heap semantics -/

structure Heap where
  next : Nat
  cell : Loc → Field → Val

structure St where
  env : Var → Val
  heap : Heap
  orc : List Nat

def St.pop (s : St) : Nat × St :=
  match s.orc with
  | [] => (0, s)
  | k :: ks => (k, { s with orc := ks })

def St.setVar (s : St) (x : Var) (v : Val) : St :=
  { s with env := fun y => if y = x then v else s.env y }

/-- value shifted into the copy block `[n, 2n)` -/
def shiftVal (n : Nat) : Val → Val
  | .ref j => if j < n then .ref (j + n) else .prim
  | .prim => .prim

/-- deep copy: the whole allocated heap `[0, n)` is copied to `[n, 2n)` with every pointer shifted,
so the copy of `l` is `l + n` and everything reachable from it lies in the new block -/
def Heap.copyAll (h : Heap) : Heap :=
  let n := h.next
  { next := n + n,
    cell := fun l f => if n ≤ l ∧ l < n + n then shiftVal n (h.cell (l - n) f) else h.cell l f }

def Heap.alloc (h : Heap) (vals : List Val) : Heap :=
  { next := h.next + 1,
    cell := fun l f => if l = h.next then vals.getD f .prim else h.cell l f }

def Heap.write (h : Heap) (l : Loc) (f : Field) (v : Val) : Heap :=
  { h with cell := fun l' f' => if l' = l ∧ f' = f then v else h.cell l' f' }

/-- how a call is executed: callee id, argument values, heap, oracle ↦ result, heap, oracle -/
abbrev CallSem := FnId → List Val → Heap → List Nat → Val × Heap × List Nat

def iter (k : Nat) (f : St → St) (s : St) : St :=
  match k with
  | 0 => s
  | k + 1 => iter k f (f s)

def execCmd (callF : CallSem) (c : Cmd) (s : St) : St :=
  match c with
  | .prim x => s.setVar x .prim
  | .ext x =>
      let (k, s) := s.pop
      s.setVar x (if k = 0 then .prim else if k - 1 < s.heap.next then .ref (k - 1) else .prim)
  | .move x y => s.setVar x (s.env y)
  | .load x y f =>
      s.setVar x (match s.env y with
        | .ref l => s.heap.cell l f
        | .prim => .prim)
  | .new x args =>
      let l := s.heap.next
      ({ s with heap := s.heap.alloc (args.map s.env) }).setVar x (.ref l)
  | .copy x y =>
      let n := s.heap.next
      ({ s with heap := s.heap.copyAll }).setVar x (shiftVal n (s.env y))
  | .store x f y =>
      match s.env x with
      | .ref l => { s with heap := s.heap.write l f (s.env y) }
      | .prim => s
  | .call x fn args =>
      let (v, h, o) := callF fn (args.map s.env) s.heap s.orc
      ({ s with heap := h, orc := o }).setVar x v
  | .ret y =>
      let (k, s) := s.pop
      if k = 0 then s else s.setVar 0 (s.env y)

def execP (callF : CallSem) : Prog → St → St
  | .skip, s => s
  | .cmd c, s => execCmd callF c s
  | .seq p q, s => execP callF q (execP callF p s)
  | .choice p q, s =>
      let (k, s) := s.pop
      if k = 0 then execP callF p s else execP callF q s
  | .loop p, s =>
      let (k, s) := s.pop
      iter k (execP callF p) s

def initEnv (nparams : Nat) (args : List Val) : Var → Val :=
  fun x => if x = 0 ∨ nparams < x then .prim else args.getD (x - 1) .prim

/-- calls with fuel (recursion depth); out of fuel or unknown callee: no effect, result `prim` -/
def callFn (tbl : Table) : Nat → CallSem
  | 0 => fun _ _ h o => (.prim, h, o)
  | fuel + 1 => fun fn args h o =>
      match tbl fn with
      | none => (.prim, h, o)
      | some d =>
          let s := execP (callFn tbl fuel) d.body { env := initEnv d.nparams args, heap := h, orc := o }
          (s.env 0, s.heap, s.orc)

def exec (tbl : Table) (fuel : Nat) (p : Prog) (s : St) : St := execP (callFn tbl fuel) p s

/-! ## The checker -/

namespace Prov

def le : Prov → Prov → Bool
  | .prim, _ => true
  | _, .ext => true
  | .deep, .deep => true
  | .deep, .fresh _ => true
  | .fresh j, .fresh k => decide (k ≤ j)
  | .par i, .par j => i == j
  | _, _ => false

def join : Prov → Prov → Prov
  | .prim, p => p
  | p, .prim => p
  | .deep, .deep => .deep
  | .deep, .fresh k => .fresh k
  | .fresh k, .deep => .fresh k
  | .fresh j, .fresh k => .fresh (min j k)
  | .par i, .par j => if i == j then .par i else .ext
  | _, _ => .ext

/-- provenance of `y.f` given the provenance of `y` -/
def loadOf : Prov → Prov
  | .prim => .prim
  | .deep => .deep
  | .fresh (k + 1) => .fresh k
  | .fresh 0 => .ext
  | .par i => .par i
  | .ext => .ext

/-- may a store go through a value of this provenance? -/
def writable : Prov → Bool
  | .prim | .deep | .fresh _ => true
  | _ => false

/-- a value that keeps a DeepFresh region closed when stored into it -/
def closedVal : Prov → Bool
  | .prim | .deep => true
  | _ => false

/-- freshness level an object can keep after a value of this provenance was stored into it
(`none` = no bound: the value is closed) -/
def capOf : Prov → Option Nat
  | .prim | .deep => none
  | .fresh j => some (j + 1)
  | _ => some 0

/-- bound every freshness level by `c` -/
def cap (c : Nat) : Prov → Prov
  | .deep => .fresh c
  | .fresh k => .fresh (min k c)
  | p => p

def origin : Prov → Option Nat
  | .par i => some i
  | _ => none

end Prov

abbrev AEnv := List Prov

def AEnv.get (E : AEnv) (x : Var) : Prov := E.getD x .prim

def AEnv.set : AEnv → Var → Prov → AEnv
  | [], 0, p => [p]
  | [], x + 1, p => .prim :: AEnv.set [] x p
  | _ :: E, 0, p => p :: E
  | q :: E, x + 1, p => q :: AEnv.set E x p

def AEnv.join : AEnv → AEnv → AEnv
  | [], E => E
  | E, [] => E
  | p :: E, q :: F => p.join q :: AEnv.join E F

def AEnv.le : AEnv → AEnv → Bool
  | [], _ => true
  | p :: E, [] => p.le .prim && AEnv.le E []
  | p :: E, q :: F => p.le q && AEnv.le E F

def AEnv.cap (c : Nat) (E : AEnv) : AEnv := E.map (Prov.cap c)

/-- level of a new object holding values of the given provenances -/
def newLevel : List Prov → Option Nat
  | [] => none
  | p :: ps =>
      match p.capOf, newLevel ps with
      | none, r => r
      | some a, none => some a
      | some a, some b => some (min a b)

def provOfLevel : Option Nat → Prov
  | none => .deep
  | some k => .fresh k

/-- a rejected site: origin of the object written (parameter index, or `none` = global / unknown)
and the field; field `callField` marks "passed to a callee that writes it" -/
structure Viol where
  root : Option Nat
  field : Field
  deriving DecidableEq, Repr, Inhabited

def callField : Field := 1000000
def unstableField : Field := 1000001

structure ARes where
  env : AEnv
  clob : Bool
  viol : List Viol
  deriving Repr, Inhabited

def anaCmd (tbl : Table) (c : Cmd) (E : AEnv) : ARes :=
  match c with
  | .prim x => ⟨E.set x .prim, false, []⟩
  | .ext x => ⟨E.set x .ext, false, []⟩
  | .move x y => ⟨E.set x (E.get y), false, []⟩
  | .load x y _ => ⟨E.set x (E.get y).loadOf, false, []⟩
  | .new x args => ⟨E.set x (provOfLevel (newLevel (args.map E.get))), false, []⟩
  | .copy x _ => ⟨E.set x .deep, false, []⟩
  | .store x f y =>
      let px := E.get x
      let viol := if px.writable then [] else [⟨px.origin, f⟩]
      match (E.get y).capOf with
      | none => ⟨E, false, viol⟩
      | some c => if px == .prim then ⟨E, false, viol⟩ else ⟨E.cap c, true, viol⟩
  | .call x fn args =>
      match tbl fn with
      | none => ⟨E.set x .prim, false, []⟩
      | some d =>
          let viol := d.writes.filterMap (fun i =>
            let p := E.get (args.getD (i - 1) 0)
            if i = 0 ∨ args.length < i then some ⟨none, callField⟩
            else if p.closedVal then none else some ⟨p.origin, callField⟩)
          let clob := d.clobbers && !d.writes.isEmpty
          let E1 := if clob then E.cap 0 else E
          let r := match d.ret with
            | .prim => Prov.prim
            | .deep => .deep
            | .fresh k => .fresh k
            | .par i => (match E.get (args.getD (i - 1) 0) with
                | .par j => if i = 0 ∨ args.length < i then .ext else .par j
                | _ => .ext)
            | .ext => .ext
          ⟨E1.set x r, clob, viol⟩
  | .ret y => ⟨E.set 0 ((E.get 0).join (E.get y)), false, []⟩

/-- iterate `E := E ⊔ step E` until nothing changes (or the budget ends); returns the environment reached
and the result of the body analysed from it -/
def loopFix (step : AEnv → ARes) : Nat → AEnv → AEnv × ARes
  | 0, E => (E, step E)
  | k + 1, E =>
      match step E with
      | r => if (E.join r.env).le E then (E, r) else loopFix step k (E.join r.env)

def ana (tbl : Table) : Prog → AEnv → ARes
  | .skip, E => ⟨E, false, []⟩
  | .cmd c, E => anaCmd tbl c E
  | .seq p q, E =>
      let r1 := ana tbl p E
      let r2 := ana tbl q r1.env
      ⟨r2.env, r1.clob || r2.clob, r1.viol ++ r2.viol⟩
  | .choice p q, E =>
      let r1 := ana tbl p E
      let r2 := ana tbl q E
      ⟨r1.env.join r2.env, r1.clob || r2.clob, r1.viol ++ r2.viol⟩
  | .loop p, E =>
      match loopFix (ana tbl p) (3 * E.length + 8) E with
      | (Es, r) =>
          ⟨Es, r.clob, if r.env.le Es && E.le Es then r.viol else ⟨none, unstableField⟩ :: r.viol⟩

/-- abstract environment at function entry: return slot `prim`, written parameters DeepFresh,
the others `par i` -/
def entryEnv (d : FnDef) : AEnv :=
  .prim :: (List.range d.nparams).map (fun i => if d.writes.contains (i + 1) then Prov.deep else .par (i + 1))

/-- result of checking one definition against its own declared summary -/
def anaFn (tbl : Table) (d : FnDef) : ARes := ana tbl d.body (entryEnv d)

def retOK (claimed actual : Prov) : Bool :=
  match claimed with
  | .ext | .par _ => true
  | c => actual.le c

/-- the definition is consistent with its declared summary (`writes`, `clobbers`, `ret`) -/
def checkFn (tbl : Table) (d : FnDef) : Bool :=
  let r := anaFn tbl d
  r.viol.isEmpty && (!r.clob || d.clobbers) && retOK d.ret (r.env.get 0)
    && d.writes.all (fun i => 0 < i && i ≤ d.nparams)

/-- every definition of the table is consistent with its summary -/
def TableOK (tbl : Table) : Prop := ∀ fn d, tbl fn = some d → checkFn tbl d = true

/-- definition number `i` of the table is consistent with its summary -/
def okAt (tbl : Table) (i : Nat) : Bool :=
  match tbl i with
  | some d => checkFn tbl d
  | none => false

/-- the function stores through none of its parameters (a public operation must satisfy this) -/
def pureEntry (tbl : Table) (fn : FnId) : Bool :=
  match tbl fn with
  | none => false
  | some d => d.writes.isEmpty

/-- rejected sites of a definition analysed as a public entry (no parameter assumed fresh):
the *declared write set* of an explicitly in-place form -/
def writeSet (tbl : Table) (d : FnDef) : List Viol :=
  (ana tbl d.body (entryEnv { d with writes := [] })).viol

end MV.Effects
