/-
Python built-ins as used by the *generated* source images (`MV/Gen/Src*.lean`, written by
`harness/py2lean.py` from the AST of the live modules).  Each definition states the Python
semantics of one construct for the types the translator admits (ints, lists of ints, numpy
integer vectors read as lists).  Import-free apart from the shared basics.
-/
import MV.Model.Basic

namespace MV.Py

/-- `a // b` for ints (floor division, `ZeroDivisionError` on 0) -/
def floordiv (a b : Int) : Res Int := if b = 0 then .error .zerodiv else .ok (Int.fdiv a b)

/-- `a % b` for ints (sign of the divisor, `ZeroDivisionError` on 0) -/
def mod (a b : Int) : Res Int := if b = 0 then .error .zerodiv else .ok (Int.fmod a b)

/-- `int(bool)` / arithmetic on a bool -/
def b2i (b : Bool) : Int := if b then 1 else 0

/-- `abs(x)` on ints -/
def abs (x : Int) : Int := (x.natAbs : Int)

/-- `range(a, b)` with step 1 -/
def range (a b : Int) : List Int := (List.range (b - a).toNat).map (fun (i : Nat) => a + (i : Int))

/-- `len(l)` -/
def len (l : List α) : Int := (l.length : Int)

/-- normalise a slice bound the way CPython does for step 1: negative counts from the end, then clamp -/
def clampIdx (n : Nat) (i : Int) : Nat :=
  let j := if i < 0 then i + (n : Int) else i
  if j < 0 then 0 else if j > (n : Int) then n else j.toNat

/-- `l[i:]` -/
def sliceFrom (l : List α) (i : Int) : List α := l.drop (clampIdx l.length i)

/-- `l[:i]` -/
def sliceTo (l : List α) (i : Int) : List α := l.take (clampIdx l.length i)

/-- numpy boolean-mask indexing `arr[mask]` (mask of the same length) -/
def npMask (arr : List Int) (mask : List Bool) : List Int :=
  ((arr.zip mask).filter (fun p => p.2)).map (fun p => p.1)

/-- `x in l` for a list of ints -/
def isIn (x : Int) (l : List Int) : Bool := l.contains x

/-- `sum(l)` for ints -/
def sum (l : List Int) : Int := l.foldl (· + ·) 0

/-- `l.index(x)` (`ValueError` when absent) -/
def index (l : List Int) (x : Int) : Res Int :=
  match l.findIdx? (· == x) with
  | some i => .ok (i : Int)
  | none => .error .value

/-- `max(l)` on fractions (`ValueError` on an empty list; the first maximal element, as Python) -/
def maxRat : List Rat → Res Rat
  | [] => .error .value
  | x :: xs => .ok (xs.foldl (fun m y => if y > m then y else m) x)

/-- `max(l)` on ints -/
def maxInt : List Int → Res Int
  | [] => .error .value
  | x :: xs => .ok (xs.foldl (fun m y => if y > m then y else m) x)

/-- a note-type string read as a `Kind` (the model has the 17 library types only) -/
def kindOfStr (s : String) : Res Kind :=
  match Kind.ofStr? s with
  | some k => .ok k
  | none => .error .value

end MV.Py
