/-
Model of the time slicing code, function for function:
  musiclang/write/time_utils/time_utils.py : get_melody_between, get_chord_between,
                                            get_score_between, repeat_until_duration
  musiclang/write/melody.py : duration, `+`, `* int`, get_between
  musiclang/write/chord.py  : duration (Render.lean), copy, `__call__` / preparse_named_melodies
                              (drum conversion of parts whose name starts with "drums"), get_chord_between
  musiclang/write/score.py  : duration, `+`, `* int`, get_score_between, get_chord_between,
                              repeat_until_duration
  musiclang/write/note.py   : Continuation, Silence, convert_to_drum_note
The comparisons (`>=`, `<`, `<=`), the order of the tests and the arithmetic on `time` are the
code's.  Domain notes (also in harness/props/C12.py ASSUMPTIONS):
 * `Note.__init__` rounds every duration with `Fraction.limit_denominator(LIMIT_DENOM)`; every `copy`
   goes through it.  It is modelled (`limitDenominator`, `lim`, `limNote`) at the places where the slicing
   code constructs or copies notes; durations assigned directly (`new_note.duration = end - time`) are
   not rounded until the next copy.  Copies of copies are not repeated (rounding is idempotent);
 * part names are the canonical `name__k` the library itself produces (`preparse_named_melodies`
   re-derives the key from `key.split('__')`, the identity on such names);
 * only the fields the property talks about are kept faithfully through copies: kind, val,
   octave, duration, mode, accident, amp (`Continuation.copy` drops `tempo`; not modelled);
 * a drums part whose window is empty is stored as `None` by the code (every later use raises
   AttributeError); the model returns that error at once.
-/
import MV.Model.Render

namespace MV

/-- the `while True` loop of `Fraction.limit_denominator` (CPython 3.12); returns `(p0, q0, p1, q1, d)`.
`d` strictly decreases, the fuel is never exhausted. -/
def limitLoop (maxDen : Int) : Nat → Int → Int → Int → Int → Int → Int → Int × Int × Int × Int × Int
  | 0, p0, q0, p1, q1, _, d => (p0, q0, p1, q1, d)
  | fuel + 1, p0, q0, p1, q1, n, d =>
      let a := n / d
      let q2 := q0 + a * q1
      if q2 > maxDen then (p0, q0, p1, q1, d)
      else limitLoop maxDen fuel p1 q1 (p0 + a * p1) q2 d (n - a * d)

/-- `Fraction.limit_denominator(max_denominator)` for `max_denominator ≥ 1` -/
def limitDenominator (q : Rat) (maxDen : Nat) : Rat :=
  if q.den ≤ maxDen then q
  else
    match limitLoop maxDen (q.den + 2) 0 1 1 0 q.num q.den with
    | (p0, q0, p1, q1, d) =>
      let k := ((maxDen : Int) - q0) / q1
      if 2 * d * (q0 + k * q1) ≤ (q.den : Int) then mkRat p1 q1.toNat
      else mkRat (p0 + k * p1) (q0 + k * q1).toNat

/-- `frac(duration).limit_denominator(LIMIT_DENOM)` of `Note.__init__` -/
def lim (q : Rat) : Rat := limitDenominator q Gen.LIMIT_DENOM

/-- `Note.copy()` as far as the duration goes -/
def limNote (n : Note) : Note := { n with dur := lim n.dur }

/-- `Continuation(d)` -/
def continuation (d : Rat) : Note := { kind := .l, val := 0, oct := 0, dur := lim d }

/-- `Silence(d)` -/
def silence (d : Rat) : Note := { kind := .r, val := 0, oct := 0, dur := lim d }

/-- Python `int(q)` for a `Fraction`: truncation toward zero -/
def pyTrunc (q : Rat) : Int := if q ≥ 0 then q.floor else -((-q).floor)

/-- `list * k` (empty for `k ≤ 0`) -/
def repeatList (l : List α) (k : Int) : List α := (List.replicate k.toNat l).flatten

/-- `Melody.copy()` -/
def copyMelody (m : Melody) : Melody := m.map limNote

/-- `Chord.copy()` -/
def copyChord (c : Chord) : Chord := { c with parts := c.parts.map (fun p => (p.1, copyMelody p.2)) }

/-- `Score.duration`: sum of the chord durations -/
def scoreDuration (s : Score) : Rat := sumRat (s.map Chord.dur)

/-- the `for note in voice` loop of `get_melody_between` from the current `time` on -/
def melodyBetweenLoop (start stop : Rat) : Melody → Rat → Res Melody
  | [], _ => pure []
  | n :: ns, time =>
      let noteDur := n.dur                                           -- note_duration = note.duration
      let d0 := lim n.dur                                            -- new_note = note.copy()
      if time ≥ stop then pure []                                   -- break
      else if time < start ∧ time + noteDur ≤ start then             -- continue
        melodyBetweenLoop start stop ns (time + d0)
      else
        let toBreak : Bool := time + noteDur ≥ stop
        let d1 := if toBreak then stop - time else d0
        let addCont : Bool := time < start
        let d2 := if addCont then d1 - (start - time) else d1
        let time1 := if addCont then time + (start - time) else time
        let out := if addCont then continuation d2 else { n with dur := d2 }
        if d2 < 0 then .error .other                                 -- raise Exception(...)
        else if toBreak then pure [out]
        else do
          let rest ← melodyBetweenLoop start stop ns (time1 + d2)
          pure (out :: rest)

/-- `get_melody_between(voice, start, end, modulo)` -/
def getMelodyBetween (voice : Melody) (start stop : Rat) (modulo : Bool := false) : Res Melody := do
  let voice' ←
    if stop > melodyDuration voice ∧ modulo then
      if melodyDuration voice = 0 then .error .zerodiv
      else pure (repeatList (copyMelody voice) (pyTrunc (stop / melodyDuration voice) + 1))
    else pure voice
  melodyBetweenLoop start stop voice' 0

/-- `key_obj.startswith('drums')` where `key_obj = key.split('__')[0]` -/
def isDrumsName (name : String) : Bool := name.startsWith "drums"

/-- `Note.convert_to_drum_note(chord)` -/
def convertToDrumNote (c : Chord) (n : Note) : Res Note :=
  if n.kind = .d ∨ n.kind = .r ∨ n.kind = .l then pure n
  else do
    match ← c.toPitch n none with
    | some p => pure { n with kind := .d, val := p % 12, oct := p / 12 }
    | none => .error .type                                           -- None % 12

/-- one entry of `preparse_named_melodies` (`to_melody()` copies the melody) -/
def preparsePart (c : Chord) (p : String × Melody) : Res (String × Melody) :=
  let mel := copyMelody p.2
  if isDrumsName p.1 then
    if mel.isEmpty then .error .attr                                 -- the part becomes None
    else do
      let m ← mel.mapM (convertToDrumNote c)
      pure (p.1, m)
  else pure (p.1, mel)

/-- `chord(**parts)` -/
def Chord.call (c : Chord) (parts : List (String × Melody)) : Res Chord := do
  let ps ← parts.mapM (preparsePart c)
  pure { c with parts := ps }

/-- the body of the `for part in chord.score.keys()` loop of `get_chord_between` -/
def chordBetweenPart (start stop : Rat) (complete : Bool) (p : String × Melody) : Res (String × Melody) := do
  let total := stop - start
  let v ← getMelodyBetween p.2 start stop false
  let v := if complete ∧ melodyDuration v < total then v ++ [silence (total - melodyDuration v)] else v
  if complete ∧ melodyDuration v ≠ total then .error .assertion
  else pure (p.1, v)

/-- `get_chord_between(chord, start, end, complete_if_missing)` -/
def getChordBetween (c : Chord) (start stop : Rat) (complete : Bool := false) : Res Chord := do
  let parts ← c.parts.mapM (chordBetweenPart start stop complete)
  if parts.isEmpty then c.call [("piano__0", [silence (stop - start)])]
  else c.call parts

/-- the `for chord in score.chords` loop of `get_score_between`; the chords added to `new_score` -/
def scoreBetweenLoop (start stop : Rat) : Score → Rat → Res (List Chord)
  | [], _ => pure []
  | c :: cs, time =>
      let chordStart := time
      let chordEnd := time + c.dur
      if chordEnd ≤ start then scoreBetweenLoop start stop cs (time + c.dur)
      else if chordStart ≥ stop then pure []                          -- break
      else if chordEnd < stop ∧ chordStart ≥ start then do            -- copy the full chord
        let rest ← scoreBetweenLoop start stop cs (time + c.dur)
        pure (copyChord c :: rest)
      else do
        let nc ← getChordBetween c (start - time) (stop - time)
        let rest ← scoreBetweenLoop start stop cs (time + c.dur)
        pure (nc :: rest)

/-- `get_score_between(score, start, end)`; `none` = the Python `None` (nothing in the window) -/
def getScoreBetween (s : Score) (start stop : Option Rat := none) : Res (Option Score) := do
  let start := start.getD 0
  let stop := stop.getD (scoreDuration s)
  let out ← scoreBetweenLoop start stop s 0
  pure (if out.isEmpty then none else some out)

/-- `repeat_until_duration(score, duration)` -/
def repeatUntilDuration (s : Score) (d : Rat) : Res (Option Score) := do
  let s' ←
    if scoreDuration s < d then
      if scoreDuration s = 0 then .error .zerodiv
      else
        let nb := pyTrunc (d / scoreDuration s) + 1
        if nb ≤ 0 then .error .attr                                   -- sum([], None) is None
        else pure (repeatList (s.map copyChord) nb)
    else pure s
  getScoreBetween s' (some 0) (some d)

end MV
