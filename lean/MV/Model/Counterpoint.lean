/-
Model of the melody-level counterpoint code (C19):
  transform/composing/project.py     : parse_relative_to_absolute (chord=None), project_on_rhythm
  transform/composing/counterpoint.py: get_array, get_array_fixed, get_projections_on_voice,
      get_counterpoint (the chosen delta of every note is an oracle), convert_array_to_melody,
      create_counterpoint
  note.py : add_value, add_interval
The greedy scorer (`scorer`, `get_counterpoint_for_one_note`) picks `note + delta` with
`delta` in a shuffled list (`np.random.shuffle`, unseeded); which delta wins is an oracle
`delta : voice index → note index → Int` here, and the theorems hold for every such oracle.
Domain note: notes carry no `tempo` / `pedal` (`Continuation.copy` drops the tempo).
-/
import MV.Model.Render

namespace MV

/-- `Note.add_value(val, octave)` -/
def Note.addValue (n : Note) (v o : Int) : Note :=
  let md : Option Int := match n.kind with
    | .s | .su | .sd => some 7
    | .h | .hu | .hd => some 12
    | .c | .cu | .cd => some 3
    | _ => none
  match md with
  | none => n
  | some m =>
      let val := n.val + v
      { n with val := val % m, oct := n.oct + o + val / m }

/-- `Note.add_interval(note)` for a relative `note` (`type[1]` in `u`, `d`) -/
def Note.addInterval (n : Note) (rel : Note) : Res Note :=
  if rel.kind.isUp then pure (n.addValue rel.val rel.oct)
  else if rel.kind.isDown then pure (n.addValue (-rel.val) rel.oct)
  else .error .other

/-- the `DICT_NOTES` literal of `parse_relative_to_absolute` -/
def DICT_NOTES : List (Int × Int) :=
  [(0, 0), (1, 1), (2, 1), (3, 2), (4, 2), (5, 3), (6, 3), (7, 4), (8, 5), (9, 5), (10, 6), (11, 6)]

/-- `parse_relative_to_absolute(melody, chord=None)` -/
def parseRel : Option Note → Melody → Res Melody
  | _, [] => pure []
  | prev, n :: ns =>
    match n.kind with
    | .su | .sd =>
        match prev with
        | none => .error .attr
        | some p => do
            let t0 ← p.addInterval n
            let t := { t0 with dur := n.dur }
            let r ← parseRel (some t) ns
            pure (t :: r)
    | .s | .a | .d => do
        let r ← parseRel (some n) ns
        pure (n :: r)
    | .r | .l => do
        let r ← parseRel prev ns
        pure (n :: r)
    | .h => do
        let v ← lookupKey n.val DICT_NOTES
        let r ← parseRel prev ns
        pure ({ n with kind := .s, val := v } :: r)
    | _ => .error .other

def parseRelativeToAbsolute (m : Melody) : Res Melody := parseRel none m

/-- `get_array` -/
def getArray (m : Melody) : List (Option Int) :=
  m.map (fun n => if n.kind.isNote then some (n.val + 7 * n.oct) else none)

/-- `get_array_fixed` (a note of type `d` / `x` appends nothing) -/
def getArrayFixed : Option Int → Melody → List (Option Int)
  | _, [] => []
  | prev, n :: ns =>
    if n.kind.isNote then some (n.val + 7 * n.oct) :: getArrayFixed (some (n.val + 7 * n.oct)) ns
    else if n.kind = .r then none :: getArrayFixed prev ns
    else if n.kind = .l then prev :: getArrayFixed prev ns
    else getArrayFixed prev ns

/-- first note of `melody` sounding at `time` (`is_in_time`) -/
def noteAt (time : Rat) : Rat → Melody → Option Note
  | _, [] => none
  | start, n :: ns => if start ≤ time ∧ start + n.dur > time then some n else noteAt time (start + n.dur) ns

/-- the loop of `project_on_rhythm` over the rhythm notes -/
def projLoop (abs : Melody) : Rat → Option Note → Melody → Melody
  | _, _, [] => []
  | time, prev, rn :: rs =>
    match noteAt time 0 abs with
    | none => silence' rn.dur :: projLoop abs (time + rn.dur) prev rs
    | some cand =>
        let toAdd : Note :=
          if cand.kind = .l then
            match prev with
            | none => cont' rn.dur
            | some p => { p with dur := rn.dur }
          else if rn.kind = .l then cont' rn.dur
          else { cand with dur := rn.dur }
        toAdd :: projLoop abs (time + rn.dur) (if toAdd.kind ≠ .l then some toAdd else prev) rs
where
  silence' (d : Rat) : Note := { kind := .r, val := 0, oct := 0, dur := d }
  cont' (d : Rat) : Note := { kind := .l, val := 0, oct := 0, dur := d }

/-- `project_on_rhythm(rhythm, melody, chord=None)` -/
def projectOnRhythm (rhythm melody : Melody) : Res Melody := do
  let abs ← parseRelativeToAbsolute melody
  pure (projLoop abs 0 none rhythm)

/-- `get_counterpoint(subjects, to_fix)`: every sounding entry moves by the chosen delta.
With no subject at all `np.asarray([])[:, i]` raises `IndexError` at the first note. -/
def getCounterpoint (nSubjects : Nat) (delta : Nat → Int) (toFix : List (Option Int)) : Res (List (Option Int)) :=
  (toFix.zipIdx).mapM (fun (x, i) =>
    match x with
    | none => pure none
    | some n => if nSubjects = 0 then .error .index else pure (some (n + delta i)))

/-- `convert_array_to_melody(rythm, notes)` -/
def convertArrayToMelody : Melody → List (Option Int) → Res Melody
  | [], _ => pure []
  | n :: ns, arr =>
    if n.kind.isNote then
      match arr with
      | [] => .error .index
      | none :: _ => .error .type
      | some v :: rest => do
          let r ← convertArrayToMelody ns rest
          pure ({ n with kind := .s, val := v % 7, oct := v / 7 } :: r)
    else do
      let r ← convertArrayToMelody ns (arr.drop 1)
      pure (n :: r)

/-- the loop of `create_counterpoint` over the voices to adapt (`k` = index of the voice) -/
def cpLoop (delta : Nat → Nat → Int) : Nat → List Melody → List Melody → Res (List Melody)
  | _, _, [] => pure []
  | k, subjects, v :: vs => do
      let voice ← parseRelativeToAbsolute v
      let projs ← subjects.mapM (fun s => projectOnRhythm voice s)
      let _arrs := projs.map (getArrayFixed none)
      let fixedArr ← getCounterpoint subjects.length (delta k) (getArray voice)
      let mel ← convertArrayToMelody voice fixedArr
      let rest ← cpLoop delta (k + 1) (subjects ++ [mel]) vs
      pure (mel :: rest)

/-- `create_counterpoint(fixed_voices, voices)` -/
def createCounterpoint (delta : Nat → Nat → Int) (fixedVoices voices : List Melody) : Res (List Melody) := do
  let fixed ← fixedVoices.mapM parseRelativeToAbsolute
  cpLoop delta 0 fixed voices

end MV
