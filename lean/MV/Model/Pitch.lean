/-
Model of the pitch calculus:
  tonality.py  : abs_degree, scale_pitches
  chord.py     : scale_pitches, chromatic_pitches, get_extension_properties (on the
                 structured `Ext`), properties_to_extension / normalize_extension,
                 _chord_notes_calc, chord_notes, extension_notes, chord_pitches,
                 chord_extension_pitches, invert, to_root_extension, get_inversion_index,
                 to_pitch, parse
  pitches_utils.py : get_value_to_scale_note, get_value_to_scale_note_with_accident,
                 note_to_pitch_result
  note.py      : real_chord, __eq__, o / oabs
Function for function, in the code's shape.  Domain note: `Chord.elem` is meant to be
in `0..6` (the seven `Element`s of the library); Python slicing with other values is not
modelled and the harness never sends them.
-/
import MV.Model.Rel
import MV.Gen.Tables
import MV.Gen.Library

namespace MV

open Gen

/-! ### note.py -/

/-- `Note.__eq__`: type, val, duration, octave, mode (accident, amp, tags ignored) -/
def Note.pyEq (a b : Note) : Bool :=
  a.kind == b.kind && a.val == b.val && a.dur == b.dur && a.oct == b.oct && a.mode == b.mode

/-- `Note.oabs` -/
def Note.oabs (n : Note) (k : Int) : Note := { n with oct := n.oct + k }

/-- `Note.o`: only kinds s h c b a x move -/
def Note.o (n : Note) (k : Int) : Note :=
  match n.kind with
  | .s | .h | .c | .b | .a | .x => n.oabs k
  | _ => n

/-! ### tonality.py -/

def Tonality.absDegree (t : Tonality) : Int := t.deg + 12 * t.oct

def Tonality.scalePitches (t : Tonality) : List Int := (SCALES t.mode).map (· + t.absDegree)

/-- `Tonality.o` -/
def Tonality.o (t : Tonality) (k : Int) : Tonality := { t with oct := t.oct + k }

/-! ### chord.py : scales -/

/-- `Chord.o` -/
def Chord.o (c : Chord) (k : Int) : Chord := { c with oct := c.oct + k }

/-- `Chord.scale_pitches` -/
def Chord.scalePitches (c : Chord) : List Int :=
  let t := c.ton.scalePitches
  let e := c.elem.toNat
  ((t.drop e) ++ (t.take e).map (· + 12)).map (· + 12 * c.oct)

/-- `Chord.chromatic_pitches` -/
def Chord.chromaticPitches (c : Chord) : Res (List Int) := do
  let root ← pyIndex c.scalePitches 0
  pure ((List.range 12).map (fun (i : Nat) => root + Int.ofNat i))

/-- `Chord.change_mode` / `Note.real_chord` -/
def Note.realChord (n : Note) (c : Chord) : Chord :=
  match n.mode with
  | none => c
  | some md => { c with ton := { c.ton with mode := md } }

/-! ### pitches_utils.py -/

/-- `get_value_to_scale_note` -/
def valueToScale (v : Int) (l : List Int) : Res Int :=
  if l.length = 0 then .error .zerodiv
  else do
    let x ← pyIndex l (v % l.length)
    pure (x + 12 * (v / l.length))

/-- `get_value_to_scale_note_with_accident` -/
def withAccident (n : Note) (a : Acc) (real : Chord) : Res Int := do
  let tonic ← pyIndex real.scalePitches 0
  let d ← lookupKey (n.val, a) ACCIDENTS_TO_NOTE
  pure (tonic + d + 12 * n.oct)

/-- the part of `note_to_pitch_result` that does not need the chord's own tones:
scale, chromatic, absolute and drum notes (`none` for other kinds) -/
def basicPitch (c : Chord) (n : Note) : Res (Option Int) :=
  let real := n.realChord c
  let sp := real.scalePitches
  match n.kind with
  | .s => match n.acc with
      | some a => do let p ← withAccident n a real; pure (some p)
      | none => do let p ← valueToScale (n.val + 7 * n.oct) sp; pure (some p)
  | .a | .d => do
      let p ← valueToScale (n.val + 12 * n.oct) ((List.range 12).map Int.ofNat)
      pure (some p)
  | .h => do
      let root ← pyIndex sp 0
      let p ← valueToScale (n.val + 12 * n.oct) ((List.range 12).map (fun (i : Nat) => root + Int.ofNat i))
      pure (some p)
  | _ => pure none

/-- total key used by the stable sort of `_chord_notes_calc` (errors were ruled out
before the sort is reached) -/
def pitchKey (c : Chord) (n : Note) : Int :=
  match basicPitch c n with
  | .ok (some p) => p
  | _ => 0

/-- the pitch of a table note, required to exist (a `None` key makes `sorted` raise TypeError) -/
def reqPitch (c : Chord) (n : Note) : Res Int := do
  match ← basicPitch c n with
  | some p => pure p
  | none => .error .type

/-! ### chord.py : extensions -/

/-- `get_extension_properties` on the structured form: the three lists sorted -/
def Ext.props (e : Ext) : Fig × List String × List String × List String :=
  (e.fig, sortStrs e.repl, sortStrs e.add, sortStrs e.rem)

/-- `normalize_extension` (`properties_to_extension ∘ get_extension_properties`) in
structured form -/
def Ext.normalize (e : Ext) : Ext :=
  { fig := e.fig, repl := sortStrs e.repl, add := sortStrs e.add, rem := sortStrs e.rem }

/-- `properties_to_extension`: the text of an extension -/
def Ext.toText (e : Ext) : String :=
  e.fig.toStr ++ String.join (e.repl.map (fun r => "(" ++ r ++ ")"))
    ++ String.join (e.add.map (fun a => "[" ++ a ++ "]"))
    ++ String.join (e.rem.map (fun r => "{" ++ r ++ "}"))

def noOct (n : Note) : Note := n.o (-n.oct)

def idxOfPy (x : Note) (l : List Note) : Option Nat := l.findIdx? (fun y => y.pyEq x)

structure CalcState where
  notes : List Note
  nwo : List Note
  replaced : List (Note × Note) := []   -- dict_replaced, later entries win

/-- first loop of `_chord_notes_calc`; returns the state and the (mutated) additions -/
def calcReplacements : List String → CalcState → List String → Res (CalcState × List String)
  | [], st, adds => .ok (st, adds)
  | r :: rs, st, adds => do
      let (replacedNote, newNote) ← lookupKey r DICT_REPLACEMENT
      match idxOfPy replacedNote st.nwo with
      | none => calcReplacements rs st (adds ++ [r])
      | some idx =>
          let old := st.notes[idx]?.getD default
          let newNwo := newNote.o (-newNote.oct)
          let st' : CalcState :=
            { notes := st.notes.set idx (newNote.o old.oct)
              nwo := st.nwo.set idx newNwo
              replaced := (replacedNote, newNwo) :: st.replaced.filter (fun p => !(p.1.pyEq replacedNote)) }
          calcReplacements rs st' adds

def calcAdditions : List String → CalcState → Res CalcState
  | [], st => .ok st
  | a :: as, st => do
      let (noteAfter, newNote) ← lookupKey a DICT_ADDITION
      let query := match st.replaced.find? (fun p => p.1.pyEq noteAfter) with
        | some p => p.2
        | none => noteAfter
      match idxOfPy query st.nwo with
      | none => .error .value
      | some i =>
          let idx := i + 1
          let nn := newNote.o noteAfter.oct
          calcAdditions as { st with notes := st.notes.insertIdx idx nn, nwo := st.nwo.insertIdx idx (nn.o (-nn.oct)) }

def calcRemovals : List String → CalcState → Res CalcState
  | [], st => .ok st
  | r :: rs, st => do
      let removed ← lookupKey r DICT_REMOVAL
      match idxOfPy removed st.nwo.reverse with
      | none => .error .value
      | some i =>
          let idx := st.notes.length - i - 1
          calcRemovals rs { st with notes := st.notes.eraseIdx idx, nwo := st.nwo.eraseIdx idx }

/-- `_chord_notes_calc(extension, replacements, additions, removals)`; the final
stable sort by pitch uses `to_pitch`, which for the s/h notes of the tables is
`basicPitch`. -/
def Chord.chordNotesCalc (c : Chord) (fig : Fig) (repl add rem : List String) : Res (List Note) := do
  let base ← match BASE_EXTENSION_DICT fig with
    | some l => pure l
    | none => .error .key
  let st0 : CalcState := { notes := base, nwo := base.map noOct }
  let (st1, adds) ← calcReplacements repl st0 add
  let st2 ← calcAdditions adds st1
  let st3 ← calcRemovals rem st2
  -- `sorted(notes, key=self.to_pitch)`: the keys are evaluated first (an exception or a
  -- `None` key aborts), then the stable sort only compares them
  let _ ← st3.notes.mapM (reqPitch c)
  pure (sortByKey (pitchKey c) st3.notes)

/-- root-position figure used by `chord_notes` -/
def Fig.rootFig : Fig → Fig
  | .f2 | .f65 | .f43 | .f7 => .f7
  | .f9 => .f9 | .f11 => .f11 | .f13 => .f13
  | _ => .f0

/-- `Chord.chord_notes` -/
def Chord.chordNotes (c : Chord) : Res (List Note) :=
  let (fig, r, a, m) := c.ext.props
  c.chordNotesCalc fig.rootFig r a m

/-- `Chord.extension_notes` -/
def Chord.extensionNotes (c : Chord) : Res (List Note) :=
  let (fig, r, a, m) := c.ext.props
  c.chordNotesCalc fig r a m

def pitchesOf (c : Chord) (ns : List Note) : Res (List Int) := ns.mapM (reqPitch c)

/-- `Chord.chord_pitches` -/
def Chord.chordPitches (c : Chord) : Res (List Int) := do pitchesOf c (← c.chordNotes)

/-- `Chord.chord_extension_pitches` -/
def Chord.extensionPitches (c : Chord) : Res (List Int) := do pitchesOf c (← c.extensionNotes)

/-- `Chord.bass_pitch` -/
def Chord.bassPitch (c : Chord) : Res Int := do pyIndex (← c.extensionPitches) 0

/-- `Chord.__getitem__`: sets the extension, checks that `extension_notes` can be
computed, normalises -/
def Chord.withExt (c : Chord) (e : Ext) : Res Chord := do
  let c' := { c with ext := e }
  let _ ← c'.extensionNotes
  pure { c' with ext := e.normalize }

def fourFigs : List Fig := [.f7, .f65, .f43, .f2]
def threeFigs : List Fig := [.f0, .f6, .f64]

/-- `Chord.invert` -/
def Chord.invert (c : Chord) (k : Int) : Res Chord :=
  let (fig, r, a, m) := c.ext.props
  match fourFigs.findIdx? (· == fig) with
  | some i => do
      let nf ← pyIndex fourFigs ((Int.ofNat i + k) % 4)
      c.withExt { fig := nf, repl := r, add := a, rem := m }
  | none =>
    match threeFigs.findIdx? (· == fig) with
    | some i => do
        let nf ← pyIndex threeFigs ((Int.ofNat i + k) % 3)
        c.withExt { fig := nf, repl := r, add := a, rem := m }
    | none => .error .other

/-- `Chord.to_root_extension` -/
def Chord.toRootExt (c : Chord) : Res Chord :=
  let (fig, r, a, m) := c.ext.props
  let nf := match fig with
    | .f0 | .f6 | .f64 => Fig.f0
    | .f7 | .f65 | .f43 | .f2 => Fig.f7
    | f => f
  c.withExt { fig := nf, repl := r, add := a, rem := m }

/-- `Chord.get_inversion_index` -/
def Chord.inversionIndex (c : Chord) : Res Int :=
  match BASE_CHORDAL_TRANSLATION_DICT c.ext.fig with
  | some i => .ok i
  | none => .error .key

/-! ### note_to_pitch_result -/

/-- `note_to_pitch_result(note, chord, last_pitch)`; `none` = the Python `None`
(rests, continuations, pattern notes).  `last` is only read by relative kinds. -/
def noteToPitch (c : Chord) (n : Note) (last : Int := 0) : Res (Option Int) :=
  let real := n.realChord c
  let sp := real.scalePitches
  match n.kind with
  | .s | .h | .a | .d => basicPitch c n
  | .c => do
      let sc ← c.chordPitches
      let p ← valueToScale (n.val + (sc.length : Int) * n.oct) sc
      pure (some p)
  | .b => do
      let sc ← c.extensionPitches
      let p ← valueToScale (n.val + (sc.length : Int) * n.oct) sc
      pure (some p)
  | .su | .sd => do
      let p ← Rel.relValue n.kind.isDown n.val n.oct last sp
      pure (some p)
  | .cu | .cd => do
      let sc ← c.chordPitches
      let p ← Rel.relValue n.kind.isDown n.val n.oct last sc
      pure (some p)
  | .bu | .bd => do
      let sc ← c.extensionPitches
      let p ← Rel.relValue n.kind.isDown n.val n.oct last sc
      pure (some p)
  | .hu | .hd => do
      let sc ← c.chromaticPitches
      let p ← Rel.relValue n.kind.isDown n.val n.oct last sc
      pure (some p)
  | .r | .l | .x => pure none

/-- `Chord.to_pitch(note, last_pitch)`: continuation → last pitch, non-notes → None -/
def Chord.toPitch (c : Chord) (n : Note) (last : Option Int := none) : Res (Option Int) :=
  if n.kind = .l then pure last
  else if !n.kind.isNote then pure none
  else if n.kind.isRelative then
    match last with
    | none => .error .type        -- comparisons with `None` raise TypeError
    | some lp => noteToPitch c n lp
  else noteToPitch c n 0

/-- `Chord.parse(pitch)` (kind, val, oct; duration 1) -/
def Chord.parse (c : Chord) (p : Int) : Res Note := do
  let sp := c.scalePitches
  let inScale := (sp.map (· % 12)).contains (p % 12)
  let scale ← if inScale then pure sp else c.chromaticPitches
  let sm := scale.map (· % 12)
  let s0 ← pyIndex scale 0
  match sm.findIdx? (· == p % 12) with
  | none => .error .value
  | some idx =>
      pure { kind := if inScale then .s else .h, val := Int.ofNat idx, oct := (p - s0) / 12, dur := 1 }

end MV
