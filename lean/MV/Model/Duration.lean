/-
Model of the duration calculus (C10):
  fractions.py : Fraction.limit_denominator (CPython 3.12), float(Fraction), float / float
  note.py      : Note.__init__ / copy (limit on construction), __getattr__ (rhythmic suffix:
                 multiplies, *no* limit), set_duration, augment, __add__, __mul__,
                 decompose_duration (recursion `_recurse` + the reversal fix-up)
  melody.py    : duration, __add__, __mul__, augment, set_duration, __getattr__,
                 decompose_duration, get_onset_times, copy
  chord.py     : duration, augment, set_duration, __getattr__ (suffix), __mul__, __add__,
                 decompose_duration, copy, __call__ (to_melody = copy of every part)
  score.py     : duration, __add__, __mul__ (returns None for k ≤ 0), set_duration,
                 __getattr__ (suffix, augment), decompose_duration
Function for function, in the code's shape, defects included.  Executable, import-free
(only the generated tables), no proofs.
-/
import MV.Model.Basic
import MV.Gen.Tables

namespace MV

open Gen

/-! ### fractions.Fraction.limit_denominator -/

/-- the `while True` loop of `limit_denominator`; state `(p0, q0, p1, q1, n, d)`, returns
`(p0, q0, p1, q1, d)` at the `break`.  `d` strictly decreases (Euclid), so `fuel = denominator`
is never exhausted; `d > 0` whenever `n / d` is evaluated (the step that would make `d = 0`
has `q2 = denominator > max` and breaks). -/
def limitLoop (maxDen : Int) : Nat → Int → Int → Int → Int → Int → Int → (Int × Int × Int × Int × Int)
  | 0, p0, q0, p1, q1, _, d => (p0, q0, p1, q1, d)
  | fuel + 1, p0, q0, p1, q1, n, d =>
      let a := n / d
      let q2 := q0 + a * q1
      if q2 > maxDen then (p0, q0, p1, q1, d)
      else limitLoop maxDen fuel p1 q1 (p0 + a * p1) q2 d (n - a * d)

/-- `Fraction.limit_denominator(max_denominator)` for `max_denominator ≥ 1` -/
def limitDenominator (maxDen : Nat) (x : Rat) : Rat :=
  if x.den ≤ maxDen then x
  else
    let (p0, q0, p1, q1, d) := limitLoop maxDen x.den 0 1 1 0 x.num x.den
    let k := ((maxDen : Int) - q0) / q1
    if 2 * d * (q0 + k * q1) ≤ (x.den : Int) then mkRat p1 q1.toNat
    else mkRat (p0 + k * p1) (q0 + k * q1).toNat

/-- with the `ValueError` of `max_denominator < 1` -/
def limitDenominatorChecked (maxDen : Int) (x : Rat) : Res Rat :=
  if maxDen < 1 then .error .value else .ok (limitDenominator maxDen.toNat x)

/-- `.limit_denominator(LIMIT_DENOM)` as used in note.py (`LIMIT_DENOM ≥ 1` is a theorem on the
generated constant, so the `ValueError` branch cannot be taken there) -/
def limitD (x : Rat) : Rat := limitDenominator LIMIT_DENOM x

/-! ### floats (only what `set_duration` / `augment` do with them) -/

/-- nearest IEEE-754 double, ties to even, normal range only (durations are nowhere near the
subnormal or overflow range): `float(Fraction)` and the result of `float / float` -/
def roundDouble (q : Rat) : Rat :=
  if q = 0 then 0 else
  let a : Rat := if q < 0 then -q else q
  let scale (e : Int) : Rat := if e ≥ 0 then a / ((2 ^ e.toNat : Nat) : Rat) else a * ((2 ^ (-e).toNat : Nat) : Rat)
  let e0 : Int := (a.num.toNat.log2 : Int) - (a.den.log2 : Int) - 52
  let lo : Rat := ((2 ^ 52 : Nat) : Rat)
  let hi : Rat := ((2 ^ 53 : Nat) : Rat)
  let e : Int := if scale e0 < lo then e0 - 1 else if scale e0 ≥ hi then e0 + 1 else e0
  let s := scale e
  let m : Int := s.floor
  let r : Rat := s - (m : Rat)
  let half : Rat := (1 : Rat) / 2
  let m' : Int := if r < half then m else if r > half then m + 1 else if m % 2 = 0 then m else m + 1
  let v : Rat := if e ≥ 0 then (m' : Rat) * ((2 ^ e.toNat : Nat) : Rat) else (m' : Rat) / ((2 ^ (-e).toNat : Nat) : Rat)
  if q < 0 then -v else v

/-- a Python value passed as duration / factor: the code branches on its type -/
inductive DArg where
  | int (i : Int)
  | float (x : Rat)      -- the exact value of the double
  | frac (q : Rat)
  | bad                  -- anything else (a `str`)
  deriving DecidableEq, Repr, Inhabited

/-! ### note.py -/

/-- `Note.__init__`: `frac(duration).limit_denominator(LIMIT_DENOM)`; every `copy()` goes
through it -/
def Note.copy (n : Note) : Note := { n with dur := limitD n.dur }

/-- `Continuation(d)` = `Note("l", 0, 0, d)` -/
def continuation (d : Rat) : Note := { kind := .l, val := 0, oct := 0, dur := limitD d }

/-- `Silence(d)` = `Note("r", 0, 0, d)` -/
def silence (d : Rat) : Note := { kind := .r, val := 0, oct := 0, dur := limitD d }

/-- `Note.__getattr__(item)` for a rhythmic suffix: copy, then `duration *= STR_TO_DURATION[item]`
(no limit).  Other names go to the note properties; an unknown one raises `AttributeError`. -/
def Note.suffix (n : Note) (item : String) : Res Note :=
  match STR_TO_DURATION.lookup item with
  | some f => .ok { n.copy with dur := n.copy.dur * f }
  | none => .error .attr

/-- `Note.set_duration(value)` -/
def Note.setDuration (n : Note) (v : DArg) : Res Note :=
  match v with
  | .float x => .ok { n.copy with dur := limitD (limitD x) }
  | .int i => .ok { n.copy with dur := limitD (i : Rat) }
  | .frac q => .ok { n.copy with dur := limitD q }
  | .bad => .error .attr        -- 'str' object has no attribute 'limit_denominator'

/-- `Note.augment(value)` -/
def Note.augment (n : Note) (v : DArg) : Res Note :=
  match v with
  | .float x => .ok { n.copy with dur := limitD (n.copy.dur * limitD x) }
  | .int i => .ok { n.copy with dur := limitD (n.copy.dur * (i : Rat)) }
  | .frac q => .ok { n.copy with dur := limitD (n.copy.dur * q) }
  | .bad => .error .type        -- Fraction *= str

/-- `Note.__mul__(int)`: a melody of copies -/
def Note.mul (n : Note) (k : Int) : Melody := List.replicate k.toNat n.copy

/-! ### melody.py -/

/-- `Melody.duration`: `sum([n.duration for n in self.notes])` -/
def Melody.duration (m : Melody) : Rat := sumRat (m.map (·.dur))

/-- `Melody.copy` -/
def Melody.copy (m : Melody) : Melody := m.map Note.copy

/-- `Melody.__add__` (also `Note + Note`, `Note + Melody`, `Melody + Note`): the note lists are
concatenated, nothing is copied -/
def Melody.add (a b : Melody) : Melody := a ++ b

/-- `Melody.__mul__(int)`: `self.copy().notes * other` (a non-positive count gives `[]`) -/
def Melody.mul (m : Melody) (k : Int) : Melody := (List.replicate k.toNat (Melody.copy m)).flatten

/-- `Melody.augment` -/
def Melody.augment (m : Melody) (v : DArg) : Res Melody := m.mapM (·.augment v)

/-- `Melody.__getattr__(item)`: every exception becomes `AttributeError` -/
def Melody.suffix (m : Melody) (item : String) : Res Melody :=
  match m.mapM (·.suffix item) with
  | .ok r => .ok r
  | .error _ => .error .attr

/-- `duration / self.duration` as Python evaluates it (`self.duration` is the `int` 0 for an
empty melody, a `Fraction` otherwise; a float numerator forces a float division) -/
def divByDuration (v : DArg) (D : Rat) : Res DArg :=
  match v with
  | .bad => .error .type
  | .int i => if D = 0 then .error .zerodiv else .ok (.frac ((i : Rat) / D))
  | .frac q => if D = 0 then .error .zerodiv else .ok (.frac (q / D))
  | .float x => if D = 0 then .error .zerodiv else .ok (.float (roundDouble (x / roundDouble D)))

/-- `Melody.set_duration(d)` = `self.augment(d / self.duration)` -/
def Melody.setDuration (m : Melody) (v : DArg) : Res Melody := do
  let f ← divByDuration v (Melody.duration m)
  Melody.augment m f

/-- `Melody.get_onset_times` -/
def Melody.onsetTimes (m : Melody) : List Rat :=
  (m.foldl (fun (acc : Rat × List Rat) n => (acc.1 + n.dur, acc.1 :: acc.2)) (0, [])).2.reverse

/-! ### decompose_duration -/

/-- `d in DURATION_TO_STR` -/
def inDurTable (d : Rat) : Bool := DURATION_TO_STR.any (fun p => p.1 == d)

/-- the candidate figures of `_recurse`: non-zero keys `c` with `duration / c` an integer and
`c < duration`, in dict order -/
def decompCandidates (d : Rat) : List Rat :=
  ((DURATION_TO_STR.map (·.1)).filter (fun c => c != 0)).filter (fun c => (d / c).den == 1 && decide (c < d))

/-- Python `max` of a non-empty list (first maximal element; values only, so plain max) -/
def maxRat : List Rat → Rat
  | [] => 0
  | x :: xs => xs.foldl (fun a b => if b > a then b else a) x

/-- `_recurse(note)`; always a list of notes here (the code returns the bare `Note` when nothing
is split off).  Out of fuel = Python's `RecursionError`. -/
def decompRecurse : Nat → Note → Res (List Note)
  | 0, _ => .error .other
  | fuel + 1, note =>
      if inDurTable note.dur then .ok [note]
      else
        let d := note.dur
        let cands := decompCandidates d
        if cands.length = 0 then .ok [note]
        else do
          let chosen := maxRat cands
          if d = 0 then .error .zerodiv          -- `chosen_candidate / duration`
          let base ← note.augment (.frac (chosen / d))
          let newNote ← note.augment (.frac ((d - base.dur) / d))
          let rest ← decompRecurse fuel (continuation newNote.dur)
          pure (base :: rest)

/-- common denominator of the figure table (the recursion removes at least `1 / tableLcm`
per step) -/
def tableLcm : Nat := DURATION_TO_STR.foldl (fun a p => Nat.lcm a p.1.den) 1

/-- enough fuel for `_recurse`: `d * tableLcm ≤ numerator * tableLcm`, and every step removes a
positive multiple of `1 / tableLcm` (theorem `decompose_total`: never exhausted) -/
def decompFuel (d : Rat) : Nat := d.num.toNat * tableLcm + 2

/-- `Note.decompose_duration`: `_recurse`, then reversal and the fix-up of both ends -/
def Note.decomposeDuration (n : Note) : Res (List Note) := do
  let result ← decompRecurse (decompFuel n.dur) n
  if result.length > 1 then
    let rev := result.reverse
    let first ← pyIndex rev 0
    let last ← pyIndex rev (-1)
    let dur := first.dur
    if last.dur = 0 then .error .zerodiv
    let newFirst ← last.copy.augment (.frac (dur / last.dur))
    let newLast := continuation last.dur
    pure ((rev.set 0 newFirst).set (rev.length - 1) newLast)
  else pure result

/-- `Melody.decompose_duration`: `sum([...], None).notes`; `None.notes` on an empty melody -/
def Melody.decomposeDuration (m : Melody) : Res Melody :=
  if m.length = 0 then .error .attr
  else do
    let parts ← m.mapM Note.decomposeDuration
    -- `None + x` copies the first summand (`__radd__`), the others are appended as they are
    match parts with
    | [] => .error .attr
    | p :: ps => pure (Melody.copy p ++ ps.flatten)

/-! ### chord.py -/

/-- `Chord.duration`: 0 without parts, else `max` of the parts' durations -/
def Chord.duration (c : Chord) : Rat :=
  match c.parts with
  | [] => 0
  | p :: ps => maxRat ((p :: ps).map (fun q => Melody.duration q.2))

/-- `Chord.copy` (every melody, every note is rebuilt) -/
def Chord.copy (c : Chord) : Chord := { c with parts := c.parts.map (fun p => (p.1, Melody.copy p.2)) }

/-- `self(**parts)`: `chord.copy()` with the score replaced by `melody.to_melody()` (= copy) of
each given part (part names already in `name__idx` form) -/
def Chord.withParts (c : Chord) (parts : List (String × Melody)) : Chord :=
  { c with parts := parts.map (fun p => (p.1, Melody.copy p.2)) }

/-- value of `frac(duration)` in `Silence(duration)` -/
def DArg.toFrac : DArg → Res Rat
  | .int i => .ok (i : Rat)
  | .float x => .ok x
  | .frac q => .ok q
  | .bad => .error .value      -- Fraction('q'): invalid literal

/-- `self(silence)`: a bare note becomes `Melody([note])` (not copied) in `piano__0` -/
def Chord.withSilence (c : Chord) (d : Rat) : Chord := { c with parts := [("piano__0", [silence d])] }

def mapParts (f : Melody → Res Melody) : List (String × Melody) → Res (List (String × Melody))
  | [] => .ok []
  | p :: ps => do
      let m ← f p.2
      let r ← mapParts f ps
      pure ((p.1, m) :: r)

/-- `Chord.augment` -/
def Chord.augment (c : Chord) (v : DArg) : Res Chord :=
  if c.parts.length = 0 then do
    let d ← v.toFrac
    pure (c.withSilence d)
  else do
    let ps ← mapParts (fun m => Melody.augment m v) c.parts
    pure (c.withParts ps)

/-- `Chord.set_duration`: on an empty chord a float is first rounded to denominators ≤ 8 -/
def Chord.setDuration (c : Chord) (v : DArg) : Res Chord :=
  if c.parts.length = 0 then do
    let v' := match v with
      | .float x => DArg.frac (limitDenominator 8 x)
      | w => w
    let d ← v'.toFrac
    pure (c.withSilence d)
  else do
    let ps ← mapParts (fun m => Melody.setDuration m v) c.parts
    pure (c.withParts ps)

/-- `Chord.__getattr__(item)` -/
def Chord.suffix (c : Chord) (item : String) : Res Chord :=
  match STR_TO_DURATION.lookup item, c.parts.isEmpty with
  | some f, true => .ok (c.withSilence f)
  | _, _ =>
    if c.parts.length = 0 then .error .attr
    else match mapParts (fun m => Melody.suffix m item) c.parts with
      | .ok ps => .ok (c.withParts ps)
      | .error _ => .error .attr

/-- `Chord.__mul__(int)` -/
def Chord.mul (c : Chord) (k : Int) : Score := List.replicate k.toNat c.copy

/-- `Chord.__add__(Chord)` -/
def Chord.add (a b : Chord) : Score := [a.copy, b.copy]

/-- `Chord.decompose_duration` -/
def Chord.decomposeDuration (c : Chord) : Res Chord := do
  let ps ← mapParts Melody.decomposeDuration c.parts
  pure (c.withParts ps)

/-! ### score.py -/

/-- `Score.duration` -/
def Score.duration (s : Score) : Rat := sumRat (s.map Chord.duration)

def Score.copy (s : Score) : Score := s.map Chord.copy

/-- `Score.__add__(Score)`: both sides copied -/
def Score.add (a b : Score) : Score := Score.copy a ++ Score.copy b

/-- `Score.__add__(Chord)`: the chord is *not* copied -/
def Score.addChord (a : Score) (c : Chord) : Score := Score.copy a ++ [c]

/-- `Score.__mul__(int)` = `sum([self.copy() for i in range(k)], None)`: Python `None` when
`k ≤ 0`; otherwise a left fold of `__add__` (which copies again, harmless) -/
def Score.mul (s : Score) (k : Int) : Option Score :=
  match List.replicate k.toNat (Score.copy s) with
  | [] => none
  | x :: xs => some (xs.foldl Score.add (Score.copy x))

/-- `Score.set_duration(d)`: *every chord* is set to `d` -/
def Score.setDuration (s : Score) (v : DArg) : Res Score := s.mapM (·.setDuration v)

/-- `score.augment(k)` (through `Score.__getattr__` and `Score.__call__`) -/
def Score.augment (s : Score) (v : DArg) : Res Score := s.mapM (·.augment v)

/-- `Score.__getattr__(item)` for a rhythmic suffix -/
def Score.suffix (s : Score) (item : String) : Res Score := s.mapM (·.suffix item)

def Score.decomposeDuration (s : Score) : Res Score := s.mapM Chord.decomposeDuration

end MV
