/-
Model of the transposition code (C04):
  tonality.py : add / __add__, __sub__, __eq__ (normalising equality), b, s   (o, abs_degree are in Pitch.lean)
  chord.py    : __mod__ / modulate, o (Pitch.lean), o_melody, __call__ + preparse_named_melodies
  element.py  : __mod__ (an Element is a chord without tonality: `None + t` is `t` itself)
  note.py     : o / oabs (Pitch.lean), convert_to_drum_note
  melody.py   : o
  score.py    : __mod__, o, and the element-wise `Score.__getattr__`-style lifting of `Chord.o`
Function for function, in the code's shape.  Domain notes:
* `Note.copy` is the identity on the model's notes (the harness only sends rests / continuations in
  the canonical form produced by `Silence` / `Continuation`, whose `copy` re-creates exactly that);
* tags of tonalities / chords / scores are not modelled (no pitch or timing depends on them);
* a chord's tonality is never `None` here except in `Element.modulate`;
* `__call__` is modelled for named melodies (`chord(**parts)`) whose values are melodies; a drum part
  is assumed non-empty (Python stores `None` for an empty drum melody).
-/
import MV.Model.Pitch

namespace MV

/-! ### tonality.py -/

/-- `Tonality.add` (`__add__` with a tonality operand) -/
def Tonality.add (a b : Tonality) : Tonality :=
  let newAbs := a.deg + b.deg
  let newOct := a.oct + b.oct
  let deltaOct := newAbs / 12
  let newDeg := newAbs % 12
  { deg := newDeg, mode := b.mode, oct := newOct + deltaOct }

/-- `Tonality.__sub__` -/
def Tonality.sub (a b : Tonality) : Tonality :=
  let newAbs := a.deg - b.deg
  let newOct := a.oct - b.oct
  let deltaOct := newAbs / 12
  let newDeg := newAbs % 12
  { deg := newDeg, mode := a.mode, oct := newOct + deltaOct }

/-- `Tonality._eq` -/
def Tonality.rawEq (a b : Tonality) : Bool := a.deg == b.deg && a.mode == b.mode && a.oct == b.oct

/-- `Tonality(0)` -/
def Tonality.zero : Tonality := ⟨0, .M, 0⟩

/-- `Tonality.__eq__`: `(Tonality(0) + self)._eq(Tonality(0) + other)` -/
def Tonality.pyEq (a b : Tonality) : Bool := (Tonality.zero.add a).rawEq (Tonality.zero.add b)

/-- `Tonality.b` (flat) -/
def Tonality.flat (t : Tonality) : Tonality :=
  let d := t.deg - 1
  if d = -1 then { t with deg := 11, oct := t.oct - 1 } else { t with deg := d }

/-- `Tonality.s` (sharp) -/
def Tonality.sharp (t : Tonality) : Tonality :=
  let d := t.deg + 1
  if d = 12 then { t with deg := 0, oct := t.oct + 1 } else { t with deg := d }

/-! ### chord.py -/

/-- `Chord.__mod__` / `Chord.modulate`: the chord octave is folded into the tonality -/
def Chord.modulate (c : Chord) (t : Tonality) : Chord :=
  let other := { t with oct := t.oct + c.oct }
  { c with ton := c.ton.add other, oct := 0 }

/-- `Element.__mod__`: `Chord(element=val) % t` where the chord has no tonality yet, so that
`None + other` is `other` itself (`__radd__`), not normalised -/
def Element.modulate (elem : Int) (t : Tonality) : Chord :=
  { elem := elem, ton := { t with oct := t.oct + 0 }, oct := 0 }

/-! ### note.py / melody.py -/

/-- `Melody.o` -/
def Melody.o (m : Melody) (k : Int) : Melody := m.map (·.o k)

/-- `Note.convert_to_drum_note(chord)` -/
def Note.convertToDrum (n : Note) (c : Chord) : Res Note :=
  if n.kind = .d || n.kind = .r || n.kind = .l then .ok n      -- `type.startswith('d')`: only "d"
  else do
    match ← c.toPitch n none with
    | none => .error .type                                    -- `None % 12`
    | some p => pure { n with kind := .d, val := p % 12, oct := p / 12 }

/-! ### chord.py : `__call__` -/

/-- `key.split('__')` on the characters (leftmost matches, like Python) -/
def splitDU : List Char → List Char → List (List Char)
  | acc, [] => [acc.reverse]
  | acc, '_' :: '_' :: rest => acc.reverse :: splitDU [] rest
  | acc, ch :: rest => splitDU (ch :: acc) rest

def digitsVal : List Char → Nat → Option Nat
  | [], acc => some acc
  | ch :: rest, acc => if ch.isDigit then digitsVal rest (acc * 10 + (ch.toNat - '0'.toNat)) else none

/-- `int(text)` for an optional minus sign followed by ASCII digits (anything else: `ValueError`;
Python also accepts `+`, blanks and `_` separators, which the harness never sends) -/
def parseInt? : List Char → Option Int
  | [] => none
  | '-' :: rest => if rest.isEmpty then none else (digitsVal rest 0).map (fun v => -(v : Int))
  | cs => (digitsVal cs 0).map (fun v => (v : Int))

/-- the key handling of `preparse_named_melodies`: `name` or `name__k` (text after a second `__`
is ignored); the result key is `name__<int>` -/
def partKey (key : String) : Res (String × String) :=
  match splitDU [] key.toList with
  | [a] => .ok (String.ofList a, String.ofList a ++ "__0")
  | a :: b :: _ =>
      match parseInt? b with
      | some k => .ok (String.ofList a, String.ofList a ++ "__" ++ toString k)
      | none => .error .value
  | [] => .ok (key, key ++ "__0")

/-- `name.startswith('drums')` -/
def isDrumName (name : String) : Bool := "drums".toList.isPrefixOf name.toList

/-- dict assignment on an association list: an existing key keeps its position -/
def setPart (ps : List (String × Melody)) (k : String) (m : Melody) : List (String × Melody) :=
  if ps.any (·.1 == k) then ps.map (fun p => if p.1 == k then (k, m) else p) else ps ++ [(k, m)]

/-- `Chord.preparse_named_melodies` for melody values (drum parts are converted note by note) -/
def Chord.preparse (c : Chord) : List (String × Melody) → List (String × Melody) → Res (List (String × Melody))
  | [], acc => .ok acc
  | (key, mel) :: rest, acc => do
      let (name, outKey) ← partKey key
      let mel' ← if isDrumName name then mel.mapM (·.convertToDrum c) else pure mel
      c.preparse rest (setPart acc outKey mel')

/-- `Chord.__call__(**named_melodies)` -/
def Chord.call (c : Chord) (parts : List (String × Melody)) : Res Chord := do
  let ps ← c.preparse parts []
  pure { c with parts := ps }

/-- `Chord.o_melody`: octave the melodies, not the chord (goes through `__call__`) -/
def Chord.oMelody (c : Chord) (k : Int) : Res Chord :=
  c.call (c.parts.map (fun p => (p.1, Melody.o p.2 k)))

/-! ### score.py -/

/-- `Score.__mod__` -/
def Score.modulate (s : Score) (t : Tonality) : Score := s.map (·.modulate t)

/-- `Score.o` -/
def Score.o (s : Score) (k : Int) : Res Score := s.mapM (·.oMelody k)

/-- every chord raised by `k` octaves (`Score([c.o(k) for c in score])`) -/
def Score.chordsO (s : Score) (k : Int) : Score := s.map (·.o k)

end MV
