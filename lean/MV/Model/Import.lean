/-
Model of the importer core (`musiclang/analyze/to_musiclang.py`, `musiclang/analyze/item.py`)
on the REPAIRED tree (patch D6-importer-held-notes: a pending tie is popped when used, and a
voice with a pending tie but no new note in a bar still gets a part):

  item.py          : Item (start, end, vel, pitch, track, channel, voice)
  note.py          : Note.__init__ / augment (duration limited to denominators ≤ 1000),
                     Silence, Continuation
  fractions.py     : Fraction.limit_denominator (continued fractions, Python 3.12 text)
  to_musiclang.py  : _parse_voice (with its nested _parse_note), infer_score_with_chords_durations

Function for function, in the code's shape: the melody of a bar is a list that is appended to,
whose last element is shortened (`melody[-1].duration -= …`) and possibly popped; `continuations`
and `chord_dict` are insertion-ordered dictionaries (association lists); the asserts at the end
of `_parse_voice` are error branches.

Domain notes (the harness stays inside them, see ASSUMPTIONS of harness/props/C14.py):
* track and voice ids are small non-negative ints, for which iterating a Python `set` of ints
  yields them in ascending order (`sortedDedup`);
* instrument names contain no "__" and do not start with "drum" at score level (the drum
  rewriting of note ends inside `_parse_voice` *is* modelled, the conversion of drum parts by
  `Chord.__call__` is not).
-/
import MV.Model.Render

namespace MV

/-- `musiclang.analyze.item.Item` (the fields the importer reads) -/
structure Item where
  start : Rat
  stop : Rat          -- `end`
  vel : Int
  pitch : Int
  track : Int := 0
  channel : Int := 0
  voice : Int := 0
  deriving DecidableEq, Repr, Inhabited

/-! ### fractions.Fraction.limit_denominator -/

/-- the `while True` loop of `limit_denominator`; returns `(p0, q0, p1, q1, d)` at the `break` -/
def limitLoop (maxDen : Int) : Nat → Int → Int → Int → Int → Int → Int → Int × Int × Int × Int × Int
  | 0, p0, q0, p1, q1, _, d => (p0, q0, p1, q1, d)
  | fuel + 1, p0, q0, p1, q1, n, d =>
      let a := n / d
      let q2 := q0 + a * q1
      if q2 > maxDen then (p0, q0, p1, q1, d)
      else limitLoop maxDen fuel p1 q1 (p0 + a * p1) q2 d (n - a * d)

/-- `Fraction.limit_denominator(max_denominator)` for `max_denominator ≥ 1` -/
def limitDenominator (q : Rat) (maxDen : Nat) : Rat :=
  if q.den ≤ maxDen then q
  else
    let (p0, q0, p1, q1, d) := limitLoop maxDen (q.den + 2) 0 1 1 0 q.num q.den
    let k := ((maxDen : Int) - q0) / q1
    if 2 * d * (q0 + k * q1) ≤ (q.den : Int) then mkRat p1 q1.toNat
    else mkRat (p0 + k * p1) (q0 + k * q1).toNat

/-- `LIMIT_DENOM` of note.py -/
def LIMIT_DENOM : Nat := 1000

/-- the duration a `Note(...)` constructor stores -/
def limDur (q : Rat) : Rat := limitDenominator q LIMIT_DENOM

/-! ### note.py -/

/-- `Note.augment(value)` (value a Fraction or int) -/
def Note.augment (n : Note) (v : Rat) : Note := { n with dur := limDur (limDur n.dur * v) }

/-- `Silence(duration)` -/
def mkSilence (d : Rat) : Note := { kind := .r, val := 0, oct := 0, dur := limDur d }

/-- `Continuation(duration)` -/
def mkContinuation (d : Rat) : Note := { kind := .l, val := 0, oct := 0, dur := limDur d }

/-! ### to_musiclang.py : _parse_voice -/

/-- nested `_parse_note(note, duration, chord, tick_value)` -/
def parseNote (c : Chord) (it : Item) (duration tick : Rat) : Res Note := do
  let v ← c.parse (it.pitch - 60)
  let v := v.augment duration
  let v := { v with amp := (it.vel : Rat) }
  pure (v.augment tick)

/-- `melody[-1].duration -= x; if melody[-1].duration == 0: melody.pop()` -/
def trimLast (m : Melody) (x : Rat) : Res Melody :=
  match m.getLast? with
  | none => .error .index
  | some n =>
      let n' : Note := { n with dur := n.dur - x }
      if n'.dur = 0 then .ok m.dropLast else .ok (m.dropLast ++ [n'])

/-- `n = _parse_note(...); if n.duration > 0: melody.append(n)` -/
def appendParsed (c : Chord) (it : Item) (duration tick : Rat) (m : Melody) : Res Melody := do
  let n ← parseNote c it duration tick
  pure (if n.dur > 0 then m ++ [n] else m)

/-- the `for idx, note in enumerate(voice_notes)` loop; state = (melody, local_time_end) -/
def voiceLoop (c : Chord) (barEnd tick : Rat) (isDrum : Bool) : List Item → Melody → Rat → Res (Melody × Rat)
  | [], m, lte => pure (m, lte)
  | it :: rest, m, lte => do
      let stop := if isDrum then (match rest with | nx :: _ => nx.start | [] => barEnd) else it.stop
      let overlap := lte - it.start
      let m ←
        if overlap > 0 then do
          let m ← trimLast m (overlap * tick)
          appendParsed c it (stop - it.start) tick m
        else if overlap < 0 then
          let m := m ++ [mkSilence (-overlap * tick)]
          if stop - it.start > 0 then appendParsed c it (stop - it.start) tick m else pure m
        else
          if stop - it.start > 0 then appendParsed c it (stop - it.start) tick m else pure m
      voiceLoop c barEnd tick isDrum rest m stop

/-- the lines of `_parse_voice` before the loop: the melody starts with the pending tie, or with
a rest up to the first note; returns (melody, local_time_end)
(repaired: an empty `voice_notes` starts at the bar start) -/
def voiceInit (notes : List Item) (barStart tick : Rat) (cont : Option Note) : Melody × Rat :=
  let lte0 : Rat := match notes with
    | it :: _ => it.start
    | [] => barStart
  match cont with
  | some ct => ((if ct.dur > 0 then [ct] else []), barStart + ct.dur / tick)
  | none =>
      if lte0 > barStart then
        let d := (lte0 - barStart) * tick
        ((if d > 0 then [mkSilence d] else []), lte0)
      else ([], lte0)

/-- the lines of `_parse_voice` after the loop: rest up to the bar line, or cut the last note at
the bar line and return the tie; drop empty notes; the three asserts -/
def voiceFinish (m : Melody) (lte barStart barEnd tick : Rat) : Res (Melody × Option Note) := do
  let m := if lte < barEnd then m ++ [mkSilence ((barEnd - lte) * tick)] else m
  let (m, ret) ←
    if lte > barEnd then do
      let m ← trimLast m ((lte - barEnd) * tick)
      pure (m, some (mkContinuation ((lte - barEnd) * tick)))
    else pure (m, none)
  let m := m.filter (fun n => n.dur > 0)
  let delta := melodyDuration m - (barEnd - barStart) * tick
  let delta := if delta < 0 then -delta else delta
  if !(delta < 1 / 4) then .error .assertion
  else match m with
    | [] => .error .index
    | n :: _ => if n.dur > 0 then pure (m, ret) else .error .assertion

/-- `_parse_voice(voice_notes, chord, bar_time_start, bar_time_end, tick_value, cont, is_drum)` -/
def parseVoice (notes : List Item) (c : Chord) (barStart barEnd tick : Rat) (cont : Option Note)
    (isDrum : Bool := false) : Res (Melody × Option Note) := do
  let (m0, lte0) := voiceInit notes barStart tick cont
  let (m, lte) ← voiceLoop c barEnd tick isDrum notes m0 lte0
  voiceFinish m lte barStart barEnd tick

/-! ### to_musiclang.py : infer_score_with_chords_durations -/

/-- insertion-ordered `dict` as an association list: `d[k] = v` -/
def dictSet (d : List (String × β)) (k : String) (v : β) : List (String × β) :=
  if d.any (·.1 == k) then d.map (fun p => if p.1 == k then (k, v) else p) else d ++ [(k, v)]

/-- `d.pop(k, None)`: the value and the dictionary without the key -/
def dictPop (d : List (String × β)) (k : String) : Option β × List (String × β) :=
  (d.lookup k, d.filter (fun p => !(p.1 == k)))

def intDictSet (d : List (Int × Int)) (k v : Int) : List (Int × Int) :=
  if d.any (·.1 == k) then d.map (fun p => if p.1 == k then (k, v) else p) else d ++ [(k, v)]

/-- Python `max` of a list of ints (`ValueError` on an empty one) -/
def maxInts : List Int → Res Int
  | [] => .error .value
  | x :: xs => .ok (xs.foldl max x)

/-- body of the two nested loops that fill `offsets_voices` (state: `offsets_voices`, `offsets_voices_raw`) -/
def offsetStep (seq : List Item) (ci : Int × String) (st : List (Int × Int) × List (Int × Int)) (t : Int) :
    Res (List (Int × Int) × List (Int × Int)) := do
  let (offs, raw) := st
  let voices := (seq.filter (fun n => n.track == t)).map (·.voice)
  let offs := intDictSet offs t ((raw.lookup ci.1).getD 0)
  let mx ← maxInts voices
  let raw := match raw.lookup ci.1 with
    | none => intDictSet raw ci.1 (mx + 1)
    | some r => intDictSet raw ci.1 (r + (mx + 1))
  pure (offs, raw)

/-- the two nested loops that fill `offsets_voices` (per channel, per track) -/
def voiceOffsets (seq : List Item) (instruments : List (Int × String)) (tracks : List Int) :
    Res (List (Int × Int)) := do
  let (offs, _) ← instruments.foldlM (fun st ci => tracks.foldlM (offsetStep seq ci) st) ([], [])
  pure offs

/-- the name of the part a voice group goes to:
`instruments.get(channel, 'piano') + '__' + str(offsets_voices.get(track, 0) + int(voice))` -/
def voiceName (instruments : List (Int × String)) (offs : List (Int × Int)) (first : Item) : String :=
  (instruments.lookup first.channel).getD "piano" ++ "__" ++
    toString ((offs.lookup first.track).getD 0 + first.voice)

/-- the voice groups of one bar in the order the loops `for track in tracks: for voice in voices`
visit them: (part name, is_drum, notes of the group) -/
def barGroups (instruments : List (Int × String)) (offs : List (Int × Int)) (tracks : List Int)
    (chordNotes : List Item) : List (String × Bool × List Item) :=
  tracks.flatMap (fun t =>
    let trackNotes := chordNotes.filter (fun n => n.track == t)
    (sortedDedup (trackNotes.map (·.voice))).filterMap (fun v =>
      let voiceNotes := trackNotes.filter (fun n => n.voice == v)
      match voiceNotes with
      | [] => none
      | first :: _ =>
          let ins := (instruments.lookup first.channel).getD "piano"
          some (voiceName instruments offs first, ins.startsWith "drum", voiceNotes)))

/-- state carried from bar to bar -/
structure ImportState where
  idx : Nat := 0
  timeStart : Rat := 0
  timeEnd : Rat := 0
  prevDur : Rat := 0                       -- chords[idx-1].duration
  conts : List (String × Note) := []       -- `continuations`
  last : Option Chord := none              -- `score[-1]`
  deriving Repr

/-- body of the voice loop for one group: pop the pending tie, parse, store the new one -/
def groupStep (c : Chord) (ts te : Rat) (st : List (String × Melody) × List (String × Note))
    (g : String × Bool × List Item) : Res (List (String × Melody) × List (String × Note)) := do
  let (cd, conts) := st
  let (cont, conts) := dictPop conts g.1
  let (mel, ret) ← parseVoice g.2.2 c ts te 1 cont g.2.1
  let cd := dictSet cd g.1 mel
  pure (cd, match ret with | some r => dictSet conts g.1 r | none => conts)

/-- body of the repaired second loop (voices with a pending tie and nothing new in the bar) -/
def heldStep (c : Chord) (ts te : Rat) (st : List (String × Melody) × List (String × Note))
    (name : String) : Res (List (String × Melody) × List (String × Note)) := do
  let (cd, conts) := st
  match dictPop conts name with
  | (none, _) => .error .key
  | (some ct, conts) =>
      let (mel, ret) ← parseVoice [] c ts te 1 (some ct) false
      let cd := dictSet cd name mel
      pure (cd, match ret with | some r => dictSet conts name r | none => conts)

/-- `Note.copy()` (also `Silence.copy`, `Continuation.copy`): the constructor limits the duration again -/
def Note.copyLim (n : Note) : Note := { n with dur := limDur n.dur }

/-- `chord(**chord_dict)`: a copy of the chord with exactly these parts, each melody copied
(`melody.to_melody()` = `Melody.copy`, note by note) -/
def Chord.withParts (c : Chord) (parts : List (String × Melody)) : Chord :=
  { c with parts := parts.map (fun p => (p.1, p.2.map Note.copyLim)) }

/-- the two voice loops of one bar: `chord_dict` and the updated `continuations` -/
def barDicts (seq : List Item) (instruments : List (Int × String)) (offs : List (Int × Int))
    (tracks : List Int) (conts0 : List (String × Note)) (chord : Chord) (ts te : Rat) :
    Res (List (String × Melody) × List (String × Note)) := do
  let chordNotes := seq.filter (fun n => decide (ts ≤ n.start) && decide (n.start < te))
  let groups := barGroups instruments offs tracks chordNotes
  let (cd, conts) ← groups.foldlM (groupStep chord ts te) ([], conts0)
  let held := (conts.map (·.1)).filter (fun v => !(cd.any (·.1 == v)))
  held.foldlM (heldStep chord ts te) (cd, conts)

/-- the chord of the bar: the parts, or one rest when nothing sounds (in the first part of the
previous chord, or `piano__0` for the first bar) -/
def barChord (st : ImportState) (chord : Chord) (chordDuration : Rat) (cd : List (String × Melody)) : Res Chord :=
  if cd.isEmpty then
    if st.idx > 0 then
      match st.last with
      | none => .error .index
      | some prev =>
          match prev.parts with
          | [] => .error .index
          | (ins, _) :: _ => pure (prev.withParts [(ins, [mkSilence chordDuration])])
    else pure (chord.withParts [("piano__0", [mkSilence chordDuration])])
  else pure (chord.withParts cd)

/-- one iteration of `for idx, (chord, bar) in enumerate(zip(chords, bars))`:
the chord to append (if any) and the next state -/
def barStep (seq : List Item) (instruments : List (Int × String)) (offs : List (Int × Int))
    (tracks : List Int) (nbars : Nat) (st : ImportState) (chord : Chord) (bar : Rat × Rat) :
    Res (Option Chord × ImportState) := do
  let isLast := decide ((st.idx : Int) = (nbars : Int) - 1)
  let chordDuration := bar.2 - bar.1
  let ts := if st.idx = 0 then 0 else st.timeStart + st.prevDur
  let te := st.timeEnd + chord.dur
  let (cd, conts) ← barDicts seq instruments offs tracks st.conts chord ts te
  let final ← barChord st chord chordDuration cd
  let emit := !(isLast && cd.isEmpty)
  let st' : ImportState :=
    { idx := st.idx + 1, timeStart := ts, timeEnd := te, prevDur := chord.dur, conts := conts,
      last := if emit then some final else st.last }
  pure (if emit then some final else none, st')

/-- the bar loop -/
def barLoop (seq : List Item) (instruments : List (Int × String)) (offs : List (Int × Int))
    (tracks : List Int) (nbars : Nat) : ImportState → List (Chord × (Rat × Rat)) → Res Score
  | _, [] => pure []
  | st, (chord, bar) :: rest => do
      let (out, st') ← barStep seq instruments offs tracks nbars st chord bar
      let tail ← barLoop seq instruments offs tracks nbars st' rest
      pure (match out with | some c => c :: tail | none => tail)

/-- `infer_score_with_chords_durations(sequence, chords, instruments, bars)` -/
def inferScore (seq : List Item) (chords : List Chord) (instruments : List (Int × String))
    (bars : List (Rat × Rat)) : Res Score := do
  let tracks := sortedDedup (seq.map (·.track))
  let offs ← voiceOffsets seq instruments tracks
  barLoop seq instruments offs tracks bars.length {} (chords.zip bars)

end MV
