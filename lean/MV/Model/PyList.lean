/-
Python list / dict surgery as used by the *generated* source images (`MV/Gen/Src*.lean`, written by
`harness/py2lean.py`): in-place list updates, membership / `index` through a bound `__eq__`, dicts as
association lists in insertion order, `sorted(..., key=...)`.  Companion of `MV/Model/Py.lean`
(each definition states the Python semantics of one construct); no proofs here.
-/
import MV.Model.Py

namespace MV.PyL

/-- `x in l`: CPython compares `item == x` from the left (identity implies equality for the bound `__eq__`s,
which are reflexive) -/
def containsBy (eq : α → α → Bool) (l : List α) (x : α) : Bool := l.any (fun y => eq y x)

/-- `l.index(x)` (`ValueError` when absent) -/
def indexBy (eq : α → α → Bool) (l : List α) (x : α) : Res Int :=
  match l.findIdx? (fun y => eq y x) with
  | some i => .ok (i : Int)
  | none => .error .value

/-- an index as `l[i]` reads it: negative counts from the end; `none` = out of range -/
def normIdx (n : Nat) (i : Int) : Option Nat :=
  let j := if i < 0 then i + (n : Int) else i
  if j < 0 ∨ j ≥ (n : Int) then none else some j.toNat

/-- `l[i] = v` (`IndexError` out of range) -/
def setItem (l : List α) (i : Int) (v : α) : Res (List α) :=
  match normIdx l.length i with
  | some j => .ok (l.set j v)
  | none => .error .index

/-- `l.insert(i, v)`: the index is clamped like a slice bound -/
def insert (l : List α) (i : Int) (v : α) : List α := l.insertIdx (Py.clampIdx l.length i) v

/-- `l.pop(i)` used as a statement: the list without item `i` (`IndexError` out of range / empty list) -/
def popAt (l : List α) (i : Int) : Res (List α) :=
  match normIdx l.length i with
  | some j => .ok (l.eraseIdx j)
  | none => .error .index

/-- `d[k]` on a dict kept as its association list (`KeyError` when absent); the stored key is compared from the left -/
def dictGet (eq : κ → κ → Bool) (d : List (κ × ν)) (k : κ) : Res ν :=
  match d.find? (fun p => eq p.1 k) with
  | some p => .ok p.2
  | none => .error .key

/-- `d[k] = v`: an existing key keeps its place (and its key object), a new key goes to the end -/
def dictSet (eq : κ → κ → Bool) : List (κ × ν) → κ → ν → List (κ × ν)
  | [], k, v => [(k, v)]
  | p :: ps, k, v => if eq p.1 k then (p.1, v) :: ps else p :: dictSet eq ps k v

/-- all keys present (`none` as soon as one key is `None`) -/
def allKeys : List (α × Option Int) → Option (List (α × Int))
  | [] => some []
  | (x, some k) :: r => (allKeys r).map ((x, k) :: ·)
  | (_, none) :: _ => none

/-- `sorted(l, key=f)` where `f` returns an int or `None`: every key is computed first, in list order (an exception
aborts); with two or more elements every element takes part in a comparison, and `None < …` raises `TypeError`;
otherwise the sort is stable -/
def sortedByOptKey (f : α → Res (Option Int)) (l : List α) : Res (List α) := do
  let ks ← l.mapM (fun x => do let k ← f x; pure (x, k))
  if ks.length ≤ 1 then pure l
  else match allKeys ks with
    | none => .error .type
    | some ds => pure ((sortByKey (fun p => p.2) ds).map (fun p => p.1))

/-- `sep.join(l)` on strings -/
def strJoin (sep : String) : List String → String
  | [] => ""
  | x :: xs => xs.foldl (fun r s => r ++ sep ++ s) x

/-- `s.split(sep)` for a non-empty separator: never the empty list -/
def strSplit (s sep : String) : List String :=
  match s.splitOn sep with
  | [] => [""]
  | l => l

/-- `s.replace(old, new)`; with an empty `old` Python inserts `new` around every character -/
def strReplace (s old new : String) : String :=
  if old.isEmpty then
    (if new.isEmpty then s else new ++ String.join (s.toList.map (fun c => String.singleton c ++ new)))
  else s.replace old new

end MV.PyL
