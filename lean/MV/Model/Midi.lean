/-
Model of the MIDI writer `musiclang/write/out/midi_utils.py` (`matrix_to_mid` and what it calls)
and of `to_midi.py: tracks_to_instruments / score_to_midi`, on top of the note matrix of
`MV/Model/Render.lean` (`getNotes`).  The code modelled is the REPAIRED one (patch
`patches/C07-midi-delta-groupby.diff`: per-track delta times by `groupby('TRACK')['OFFSET'].diff()`).

Function for function:
  tracks_to_instruments, merge_continuation_to_previous_note, setup_instruments, number_to_channel,
  voice_to_channel, prepare_df_for_events, init_midi_file, set_tracks, apply_events, matrix_to_mid.
The result is what ends up in the `mido.MidiFile`: per track the list of messages with their delta
times.  Not modelled (outside the property; the harness projects them away): the `track_name` text,
the extra `set_tempo` / `control_change` messages that notes carrying a `tempo` / `pedal` attribute add
with delta 0 after their own note message (they move no tick), `end_of_track`.
mido's range checks (`ValueError`) are modelled where a value reaches a `Message`/`MetaMessage`.
-/
import MV.Model.Render
import MV.Gen.Instruments

namespace MV.Midi
open MV

/-! ### small Python built-ins -/

/-- `t.split('__')[0]` on the characters of `t` -/
def beforeDunder : List Char → List Char
  | [] => []
  | [c] => [c]
  | c :: d :: cs => if c = '_' ∧ d = '_' then [] else c :: beforeDunder (d :: cs)

def splitName (t : String) : String := String.ofList (beforeDunder t.toList)

/-- `int(q)` of a `Fraction`/float: truncation toward zero -/
def truncRat (q : Rat) : Int := Int.tdiv q.num q.den

/-- Python 3 `round(x)` (ties to even) of an exact rational -/
def roundHalfEven (x : Rat) : Int :=
  let f := x.floor
  let r := x - f
  if r < 1 / 2 then f
  else if 1 / 2 < r then f + 1
  else if f % 2 = 0 then f else f + 1

/-- `mido.bpm2tempo(bpm)` = `int(round(60 * 1e6 / bpm))` (default time signature argument) -/
def bpm2tempo (bpm : Int) : Int := roundHalfEven ((60000000 : Rat) / bpm)

def TICKS : Int := 480

/-! ### to_midi.tracks_to_instruments -/

/-- `INSTRUMENTS_DICT.get(name, 0)` -/
def programOf (name : String) : Int := (MV.Gen.INSTRUMENTS_DICT.lookup name).getD 0

/-- `tracks_to_instruments`: (programs by track index, names) -/
def tracksToInstruments (tracks : List String) : List Int × List String :=
  let names := tracks.map splitName
  (names.map programOf, names)

/-! ### merge_continuation_to_previous_note -/

/-- `df.at[i, 'DURATION'] += d` -/
def addDur (rows : List Row) (i : Nat) (d : Rat) : List Row :=
  rows.modify i (fun r => { r with dur := r.dur + d })

/-- `last_note_index[track] = index` -/
def setLast (last : List (Nat × Nat)) (track idx : Nat) : List (Nat × Nat) :=
  (track, idx) :: last.filter (fun p => p.1 != track)

/-- the `iterrows` loop: `acc` is the visited part of the frame (rows not yet visited are never
written), `last` is `last_note_index`.  A silence row also becomes the "last note" of its track. -/
def mergeLoop : List Row → List Row → List (Nat × Nat) → List Row
  | [], acc, _ => acc
  | r :: rs, acc, last =>
      if r.cont then
        match last.lookup r.track with
        | some i => mergeLoop rs (addDur acc i r.dur ++ [r]) last
        | none => mergeLoop rs (acc ++ [r]) last       -- prints an error, changes nothing
      else
        mergeLoop rs (acc ++ [r]) (setLast last r.track acc.length)

/-- `merge_continuation_to_previous_note`: then drop continuation and silence rows -/
def mergeContinuations (rows : List Row) : List Row :=
  (mergeLoop rows [] []).filter (fun r => !r.cont && !r.silence)

/-! ### setup_instruments -/

/-- `instruments[idx] = -1` for every name starting with 'drums' -/
def markDrums (names : List String) (programs : List Int) : List Int :=
  (names.zip programs).map (fun (n, p) => if n.startsWith "drums" then -1 else p)

/-- `instrument_group`: key → tracks, keys in order of first appearance -/
abbrev Groups := List (Int × List Nat)

def Groups.add (g : Groups) (key : Int) (track : Nat) : Groups :=
  if g.any (·.1 == key) then g.map (fun p => if p.1 == key then (p.1, p.2 ++ [track]) else p)
  else g ++ [(key, [track])]

def groupTracks (names : List String) (programs : List Int) : Groups :=
  ((names.zip programs).zipIdx).foldl
    (fun g ((n, p), i) => if n.startsWith "drums_" then g.add (-1) i else g.add p i) []

/-- `matrix[matrix[:, TRACK] == track, TRACK] = new` (in place, one old track at a time) -/
def relabelOne (rows : List Row) (old new : Nat) : List Row :=
  rows.map (fun r => if r.track = old then { r with track := new } else r)

def relabel (rows : List Row) (g : Groups) : List Row :=
  (g.zipIdx).foldl (fun rows (p, i) => p.2.foldl (fun rows t => relabelOne rows t i) rows) rows

/-- `setup_instruments` → (new names, matrix, new instruments = program per new track) -/
def setupInstruments (rows : List Row) (names : List String) (programs : List Int) :
    List String × List Row × List Int :=
  let programs := markDrums names programs
  let g := groupTracks names programs
  let instruments := g.map (fun p => if p.1 = -1 then 0 else p.1)
  let names' := g.map (fun p => if p.1 = -1 then "drums_0" else (names[p.2.headD 0]?).getD "")
  (names', relabel rows g, instruments)

/-! ### number_to_channel, voice_to_channel, init_midi_file -/

def numberToChannel (n : Int) : Int := if n < 9 then n else n + 1

/-- `list(sorted(list(set([0] + list(instruments.values())))))` -/
def instrumentList (instruments : List Int) : List Int := sortedDedup (0 :: instruments)

/-- `instrument_list.index(instruments.get(voice, 0))` -/
def voiceToChannel (il : List Int) (instruments : List Int) (voice : Nat) : Int :=
  (il.idxOf ((instruments[voice]?).getD 0) : Nat)

/-- `matrix[:, TRACK].max()` (ValueError on an empty matrix) -/
def nbTracks (rows : List Row) : Res Nat :=
  match rows.map (·.track) with
  | [] => .error .value
  | t :: ts => .ok (ts.foldl max t)

def initChannels (instruments : List Int) (nb : Nat) : List Int :=
  (List.range (nb + 1)).map (fun i => numberToChannel (voiceToChannel (instrumentList instruments) instruments i))

/-! ### messages -/

inductive Msg where
  | program (delta channel program : Int)
  | trackName (delta : Int)
  | setTempo (delta tempo : Int)
  | timeSig (delta num den : Int)
  | noteOn (delta channel key vel : Int)
  | noteOff (delta channel key vel : Int)
  deriving DecidableEq, Repr, Inhabited

def byteOK (x : Int) : Bool := 0 ≤ x && x ≤ 127
def channelOK (c : Int) : Bool := 0 ≤ c && c ≤ 15

/-- `Message('program_change', …)`: mido checks channel and program -/
def mkProgram (channel program : Int) : Res Msg :=
  if channelOK channel && byteOK program then .ok (.program 0 channel program) else .error .value

def isPow2 (fuel : Nat) (d : Int) : Bool :=
  match fuel with
  | 0 => false
  | fuel + 1 => d == 1 || (d > 1 && d % 2 == 0 && isPow2 fuel (d / 2))

/-- `MetaMessage("set_tempo", tempo=mido.bpm2tempo(tempo))` -/
def mkTempo (bpm : Int) : Res Msg :=
  if bpm = 0 then .error .zerodiv
  else
    let t := bpm2tempo bpm
    if 0 ≤ t && t ≤ 16777215 then .ok (.setTempo 0 t) else .error .value

/-- `MetaMessage("time_signature", numerator=…, denominator=…)` -/
def mkTimeSig (num den : Int) : Res Msg :=
  if 0 ≤ num && num ≤ 255 && isPow2 64 den then .ok (.timeSig 0 num den) else .error .value

/-! ### set_tracks -/

/-- `(len(instrument_names) > i) and instrument_names[i].startswith('drum')` -/
def isDrumAt (names : List String) (i : Nat) : Bool :=
  decide (names.length > i) && ((names[i]?).getD "").startsWith "drum"

/-- one turn of the `for i in range(nb_tracks + 1)` loop: the first message of track `i` and the
channel list (`channels[i] = 9` for a drum track) -/
def headStep (names : List String) (instruments : List Int) (channels : List Int) (i : Nat) :
    Res (List Msg × List Int) :=
  if isDrumAt names i then
    (mkProgram 9 0).map (fun m => ([m], channels.set i 9))
  else if i < instruments.length then
    (mkProgram ((channels[i]?).getD 0) ((instruments[i]?).getD 0)).map (fun m => ([m], channels))
  else if i ≠ 9 then
    (mkProgram ((channels[i]?).getD 0) 0).map (fun m => ([m], channels))
  else pure ([], channels)

/-- the loop over the tracks `i, i+1, …` (`n` of them) -/
def trackHeads (names : List String) (instruments : List Int) (channels : List Int) :
    Nat → Nat → Res (List (List Msg) × List Int)
  | _, 0 => .ok ([], channels)
  | i, n + 1 =>
      match headStep names instruments channels i with
      | .error e => .error e
      | .ok (head, channels) =>
          match trackHeads names instruments channels (i + 1) n with
          | .error e => .error e
          | .ok (rest, channels) => .ok (head :: rest, channels)

def setTracks (nb : Nat) (names : List String) (instruments : List Int) (channels : List Int)
    (tempo : Int) (ts : Int × Int) : Res (List (List Msg) × List Int) := do
  let (heads, channels) ← trackHeads names instruments channels 0 (nb + 1)
  let t ← mkTempo tempo
  let s ← mkTimeSig ts.1 ts.2
  match heads with
  | [] => .error .index
  | h :: hs => pure ((h ++ [.trackName 0, t, s]) :: hs, channels)

/-! ### prepare_df_for_events -/

/-- one row of `df_events`; `isOn = false` is 'NOTE_OFF' (which sorts before 'NOTE_ON') -/
structure Ev where
  isOn : Bool
  offset : Rat
  pitch : Int      -- already `+ 60`
  vel : Rat
  track : Nat
  delta : Rat := 0
  deriving DecidableEq, Repr, Inhabited

/-- stable insertion sort for an order given as a Boolean `le` (pandas' multi-column `sort_values` is stable);
structurally recursive so that examples evaluate in the kernel -/
def insertBy (le : α → α → Bool) (x : α) : List α → List α
  | [] => [x]
  | y :: ys => if le x y then x :: y :: ys else y :: insertBy le x ys

def sortBy (le : α → α → Bool) (l : List α) : List α := l.foldr (insertBy le) []

/-- `sort_values(['TRACK', 'OFFSET'])` (stable) -/
def rowLe (a b : Row) : Bool :=
  a.track < b.track || (a.track == b.track && decide (a.offset ≤ b.offset))

/-- `sort_values(['TRACK', 'OFFSET', 'EVENT_TYPE'])` (stable; 'NOTE_OFF' < 'NOTE_ON') -/
def evLe (a b : Ev) : Bool :=
  a.track < b.track ||
    (a.track == b.track && (decide (a.offset < b.offset) || (a.offset == b.offset && (!a.isOn || b.isOn))))

/-- `groupby('TRACK')['OFFSET'].diff()`, the first event of a track keeping its own offset:
`prev` is the offset of the previous event of each track -/
def deltaOf (prev : Option Rat) (offset : Rat) : Rat :=
  match prev with
  | some o => offset - o
  | none => offset          -- `where(delta.notna(), OFFSET)`

def withDeltas : List Ev → List (Nat × Rat) → List Ev
  | [], _ => []
  | e :: es, prev =>
      { e with delta := deltaOf (prev.lookup e.track) e.offset } :: withDeltas es ((e.track, e.offset) :: prev)

/-- the 'NOTE_ON' row of a note: `df` itself -/
def rowOn (r : Row) : Ev := { isOn := true, offset := r.offset, pitch := r.pitch, vel := r.vel, track := r.track }

/-- the 'NOTE_OFF' row of a note: `df_copy` with `OFFSET + DURATION` -/
def rowOff (r : Row) : Ev := { isOn := false, offset := r.offset + r.dur, pitch := r.pitch, vel := r.vel, track := r.track }

/-- `df_events['PITCH'] + 60` -/
def addMiddleC (e : Ev) : Ev := { e with pitch := e.pitch + 60 }

def prepareEvents (rows : List Row) : List Ev :=
  let sorted := sortBy rowLe rows
  let evs := sortBy evLe (sorted.map rowOn ++ sorted.map rowOff)
  (withDeltas evs []).map addMiddleC

/-! ### apply_events -/

/-- the `Message('note_on' | 'note_off', …)` of one event row (mido checks the three data bytes) -/
def evMsg (channels : List Int) (e : Ev) : Res Msg :=
  let vel := truncRat e.vel
  let delta := truncRat (e.delta * TICKS)
  let ch := (channels[e.track]?).getD 0
  if channelOK ch && byteOK e.pitch && byteOK vel then
    .ok (if e.isOn then .noteOn delta ch e.pitch vel else .noteOff delta ch e.pitch vel)
  else .error .value

/-- `apply_events`: every event row appends its message to `mid.tracks[track_nb]` -/
def applyEvents : List Ev → List (List Msg) → List Int → Res (List (List Msg))
  | [], tracks, _ => .ok tracks
  | e :: es, tracks, channels => do
      let m ← evMsg channels e
      if e.track < tracks.length then
        applyEvents es (tracks.modify e.track (· ++ [m])) channels
      else .error .index

/-! ### matrix_to_mid, score_to_midi -/

def matrixToMid (rows : List Row) (names : List String) (programs : List Int) (tempo : Int)
    (ts : Int × Int) : Res (List (List Msg)) := do
  let rows := mergeContinuations rows
  let (names, rows, instruments) := setupInstruments rows names programs
  let evs := prepareEvents rows
  let nb ← nbTracks rows
  let channels := initChannels instruments nb
  let (tracks, channels) ← setTracks nb names instruments channels tempo ts
  applyEvents evs tracks channels

/-- `Score.to_midi(path, tempo=…, time_signature=…)` -/
def scoreToMidi (s : Score) (tempo : Int) (ts : Int × Int) : Res (List (List Msg)) := do
  let rows ← getNotes s
  let (programs, names) := tracksToInstruments (trackList s)
  matrixToMid rows names programs tempo ts

/-! ### reading a track back: absolute ticks -/

def Msg.delta : Msg → Int
  | .program d _ _ | .trackName d | .setTempo d _ | .timeSig d _ _ | .noteOn d _ _ _ | .noteOff d _ _ _ => d

/-- messages with their absolute tick (running sum of the delta times from `t0`) -/
def decodeFrom : Int → List Msg → List (Int × Msg)
  | _, [] => []
  | t0, m :: ms => (t0 + m.delta, m) :: decodeFrom (t0 + m.delta) ms

def decode (ms : List Msg) : List (Int × Msg) := decodeFrom 0 ms

end MV.Midi
