/-
What `ornementation.py` sees of its operands, for the generated source image `MV/Gen/SrcOrn.lean` (DESIGN.md §9.6).

`new_note` is `None`, a `Note` or a `Melody`: `Option NM` over the model's `NM` (`MV/Model/Ornament.lean`).  Every
attribute / method the builders use on it is bound here to the model function of the same name, with the `None` case
(`AttributeError`) and, for a melody, what the library really does.  `rd` is the rounding of `Note.__init__`
(`limit_denominator(LIMIT_DENOM)`); the spec of the group instantiates it with `Orn.limitDen`.
-/
import MV.Model.Ornament

namespace MV.OrnPy
open MV MV.Orn

/-- a `Note` object as `ornementation.py` uses it (`set_duration` / `copy` round the duration) -/
abbrev PNote := Note

/-- the module `musiclang.library` (`L.su1`, `L.l`, …) -/
abbrev Lib := Unit

/-- `x.duration` -/
def duration : Option NM → Res Rat
  | none => .error .attr
  | some x => .ok x.duration

/-- `x.set_duration(v)` -/
def setDuration (rd : Rat → Rat) : Option NM → Rat → Res NM
  | none, _ => .error .attr
  | some x, v => x.setDuration rd v

/-- `x.n` -/
def zero (rd : Rat → Rat) : Option NM → Res NM
  | none => .error .attr
  | some x => .ok (x.n rd)

/-- `x.amp` read as a number.  On a `Melody` the attribute is a melody of amplitudes (`Melody.__getattr__`); the
arithmetic the only reader (`accent`) does on it ends in `min(120, None)` → `TypeError`. -/
def amp : Option NM → Res Rat
  | none => .error .attr
  | some (.note n) => .ok n.amp
  | some (.mel _) => .error .type

/-- `x.amp = v` (on a melody: an attribute of the `Melody` object, the notes are untouched) -/
def storeAmp : Option NM → Rat → Res (Option NM)
  | none, _ => .error .attr
  | some (.note n), v => .ok (some (.note { n with amp := v }))
  | some (.mel ns), _ => .ok (some (.mel ns))

/-- `last_note.set_duration(v)` on an optional note -/
def optSetDur (rd : Rat → Rat) : Option Note → Rat → Res Note
  | none, _ => .error .attr
  | some n, v => .ok (setDur rd n v)

/-- `x.copy()` of a note / a melody: every note goes through `Note.__init__` again -/
def copied (rd : Rat → Rat) (x : NM) : NM := .mel (x.notes.map (copy rd))

/-- `acc + x` where `acc` is `None` or a melody under construction: `None + x` is `x.__radd__(None)`, a melody
holding copies -/
def raddOpt (rd : Rat → Rat) : Option NM → NM → NM
  | none, x => copied rd x
  | some a, x => a.add x

/-- `Note.set_amp(amp)` for a numeric amp: copy, then `amp = int(amp)` -/
def noteSetAmp (rd : Rat → Rat) (n : Note) (a : Rat) : Note := setAmp (copy rd n) a

/-- `x.set_amp(a)` -/
def setAmpV (rd : Rat → Rat) : Option NM → Rat → Res NM
  | none, _ => .error .attr
  | some (.note n), a => .ok (.note (noteSetAmp rd n a))
  | some (.mel ns), a => .ok (.mel (ns.map (fun p => noteSetAmp rd p a)))

/-- `x.clear_note_tags()` -/
def clearNoteTags (rd : Rat → Rat) : Option NM → Res NM
  | none => .error .attr
  | some x => .ok (x.clearNoteTags rd)

end MV.OrnPy
