/-
Python built-ins as used by the generated source image `MV/Gen/SrcEuclid.lean` (written by `harness/py2lean.py`,
group SrcEuclid): two-sided slices, `enumerate`, `//` and `%` on fractions, `list * int`, a store through a
(possibly negative) index, `Silence(d)`.  Same role as `MV/Model/Py.lean` / `PyFrac.lean`: each definition states the
Python semantics of one construct; kept in its own file so that the images generated before it are untouched.
No proofs here (lemmas: `MV/Lemmas/TieSrcEuclidLemmas.lean`).
-/
import MV.Model.PyFrac
import MV.Model.Metric

namespace MV.Py

/-- `l[a:b]`: both bounds are normalised (negative counts from the end) and clamped, as CPython does for step 1 -/
def slice (l : List α) (a b : Int) : List α := (l.take (clampIdx l.length b)).drop (clampIdx l.length a)

/-- `list(enumerate(l, i))` -/
def enumerateFrom (i : Int) : List α → List (Int × α)
  | [] => []
  | x :: xs => (i, x) :: enumerateFrom (i + 1) xs

/-- `list(enumerate(l))` -/
def enumerate (l : List α) : List (Int × α) := enumerateFrom 0 l

/-- `m.notes[i] = v` (`IndexError` out of range; a negative index counts from the end) -/
def setItem (l : List α) (i : Int) (v : α) : Res (List α) :=
  let j := if i < 0 then i + (l.length : Int) else i
  if j < 0 ∨ j ≥ (l.length : Int) then .error .index else .ok (l.set j.toNat v)

/-- `a // b` on fractions (also int // Fraction): an int, the floor of the quotient; `ZeroDivisionError` on 0 -/
def ratFloorDiv (a b : Rat) : Res Int := if b = 0 then .error .zerodiv else .ok (a / b).floor

/-- `a % b` on fractions: `a - b * (a // b)`; `ZeroDivisionError` on 0 -/
def ratMod (a b : Rat) : Res Rat := if b = 0 then .error .zerodiv else .ok (a - b * (((a / b).floor : Int) : Rat))

/-- `l * k` for a list and an int: `k` concatenated copies, `[]` for `k ≤ 0` -/
def listMul (l : List α) (k : Int) : List α := (List.replicate k.toNat l).flatten

/-- `Silence(d)` = `Note("r", 0, 0, d)`: `Note.__init__` rounds the duration (`limit_denominator(LIMIT_DENOM)`) -/
def silenceOf (d : Rat) : Note := { kind := .r, val := 0, oct := 0, dur := Rhythm.limitDenominator d Gen.LIMIT_DENOM }

end MV.Py
