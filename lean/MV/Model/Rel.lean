/-
Model of `musiclang/write/pitches/pitches_utils.py`, relative part:
`relative_scale_up_value`, `relative_scale_down_value`, `get_relative_scale_value`.
Kept in the code's shape: the octave-replicated window `range(-10, 10)`, the filter,
the data-dependent index offset.  Outside the window the code raises `IndexError`
and so does the model.
-/
import MV.Model.Basic

namespace MV.Rel

/-- `[s + octave * 12 for octave in range(-10, 10) for s in scale_mod]` -/
def wholeScale (scaleMod : List Int) : List Int :=
  (List.range 20).flatMap (fun (o : Nat) => scaleMod.map (fun s => s + (Int.ofNat o - 10) * 12))

/-- `sorted([i % 12 for i in scale_pitches])` -/
def scaleMod (scale : List Int) : List Int := sortInts (scale.map (· % 12))

def relUp (delta : Int) (last : Int) (scale : List Int) : Res Int :=
  let ws := wholeScale (scaleMod scale)
  let ge := ws.filter (fun s => s ≥ last)
  if delta = 0 then pyIndex ge 0
  else pyIndex ge (delta - (if ws.contains last then 0 else 1))

def relDown (delta : Int) (last : Int) (scale : List Int) : Res Int :=
  let ws := wholeScale (scaleMod scale)
  let le := ws.filter (fun s => s ≤ last)
  if delta = 0 then pyIndex le (-1)
  else pyIndex le (-(delta + 1) + (if ws.contains last then 0 else 1))

/-- `get_relative_scale_value` with `total_val` already computed from the note
(`val + len(scale) * octave`, negated for down kinds). -/
def relTotal (total : Int) (last : Int) (pcs : List Int) : Res Int :=
  if total > 0 then relUp total last pcs
  else if total < 0 then relDown (-total) last pcs
  else if (pcs.map (· % 12)).contains (last % 12) then .ok last
  else do
    let up ← relUp 0 last pcs
    let down ← relDown 0 last pcs
    if (up - last).natAbs ≤ (down - last).natAbs then .ok up else .ok down

/-- `get_relative_scale_value(note, last_pitch, scale_pitches)` -/
def relValue (isDown : Bool) (val oct : Int) (last : Int) (scale : List Int) : Res Int :=
  let pcs := sortedDedup (scale.map (· % 12))
  let total := val + (pcs.length : Int) * oct
  let total := if isDown then -total else total
  relTotal total last pcs

end MV.Rel
