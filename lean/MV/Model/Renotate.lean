/-
Model of the re-notations of a score (C11), function for function, on the repaired tree
(commits "fix: octave correction leaves absolute notes …", "fix: to_chord_note /
to_extension_note leave notes with an accidental …", "fix: to_standard_note of an absolute
note drops its per-note mode …"):

  note.py    : to_absolute_note, to_scale_note, to_standard_note, as_key, to_extension_note,
               to_chord_note, add_value / `& n`, decompose_duration
  melody.py  : to_absolute_note (last-pitch threading), to_scale_notes, to_standard_note,
               to_chord_note, to_extension_note, decompose_duration, `&`
  chord.py   : to_absolute_note (dictionary of last pitches), to_scale_notes, to_standard_note,
               to_chord_note, to_extension_note, decompose_duration, correct_chord_octave, split
  score.py   : to_absolute_note, to_scale_note, to_standard_note, to_chord_note,
               to_extension_note, decompose_duration, correct_chord_octave, normalize_instruments,
               normalize_instrument_names / replace_instruments, split_too_long_chords,
               remove_empty_chords, normalize
  analyze/pattern_analyzer.py : inverse_recursive_correct_octave, _o_chord_relative_notes
  write/time_utils/time_utils.py : get_melody_between, get_chord_between and the projection
               pipeline as `Chord.split` uses it (one-chord score, voice_leading=True)

Conventions.  `chord(**parts)` copies the chord and replaces its parts (part names of the form
`name__idx`; the drum conversion of `preparse_named_melodies` is the identity on parts that
were built through `__call__`, whose notes are already of kind `d`).  Durations are taken in
the library's resolution (denominators ≤ 1000), where the `limit_denominator` applied by every
`Note(...)` / `augment` / `set_duration` is the identity.  Only the fields that decide what is
played are kept exact (kind, value, octave, duration, mode, accidental; amplitude where the
code sets it explicitly); tags / tempo / pedal bookkeeping of `copy()` is not modelled.
-/
import MV.Model.Render

namespace MV

open Gen

/-! ### note.py -/

/-- `Note.to_absolute_note(chord, last_pitch)` -/
def Note.toAbsoluteNote (n : Note) (c : Chord) (last : Option Int) : Res Note :=
  if !n.kind.isNote then pure n
  else do
    match ← c.toPitch n last with
    | none => .error .type            -- `None % 12`
    | some p => pure { n with kind := .a, val := p % 12, oct := p / 12 }

/-- `Note.set_amp` as `to_scale_note` uses it: a float amplitude is truncated -/
def ampInt (a : Rat) : Rat := (a.floor : Rat)

/-- `Note.to_scale_note(chord)` -/
def Note.toScaleNote (n : Note) (c : Chord) : Res Note :=
  if !n.kind.isNote then pure n
  else do
    match ← c.toPitch n none with
    | none => .error .type
    | some p => do
        let b ← c.parse p
        pure { b with dur := n.dur, amp := ampInt n.amp, tags := n.tags }

/-- `Note.to_standard_note(chord)` -/
def Note.toStandardNote (n : Note) (c : Chord) : Res Note :=
  match n.kind with
  | .b | .c => do
      let cands ← if n.kind == .b then c.extensionNotes else c.chordNotes
      if cands.length = 0 then .error .zerodiv
      else do
        let L : Int := cands.length
        let cand ← pyIndex cands (n.val % L)
        let nn := cand.o (n.val / L + n.oct)
        pure { nn with dur := n.dur, amp := n.amp }
  | .a => do
      match ← c.toPitch n none with
      | none => .error .type
      | some p => do
          let b ← c.parse p
          pure { n with kind := b.kind, val := b.val, oct := b.oct, mode := b.mode, acc := b.acc }
  | _ => pure n

/-- `Note.as_key()` (octave 0, duration 1, default amplitude) -/
def Note.asKey (n : Note) : Note :=
  { kind := n.kind, val := n.val, oct := 0, dur := 1, mode := n.mode, acc := n.acc, amp := 66 }

/-- shared body of `to_extension_note` / `to_chord_note`: `list.index` by `Note.__eq__`;
a failed lookup (`ValueError`, swallowed by the bare `except`) leaves the note as it is -/
def Note.toToneNote (n : Note) (kind : Kind) (cands : List Note) : Note :=
  let woOct := cands.map (fun c => c.o (-c.oct))
  match woOct.findIdx? (fun y => y.pyEq n.asKey) with
  | none => n
  | some idx =>
      match cands[idx]? with
      | none => n
      | some cand => { n with kind := kind, val := Int.ofNat idx, oct := n.oct - cand.oct }

/-- `Note.to_extension_note(chord)`; the candidates are computed before the `try` -/
def Note.toExtensionNote (n : Note) (c : Chord) : Res Note :=
  if n.acc.isSome then pure n
  else do
    let cands ← c.extensionNotes
    pure (n.toToneNote .b cands)

/-- `Note.to_chord_note(chord)` -/
def Note.toChordNote (n : Note) (c : Chord) : Res Note :=
  if n.acc.isSome then pure n
  else do
    let cands ← c.chordNotes
    pure (n.toToneNote .c cands)

/-- `Note.add_value(val, octave)` -/
def Note.addValue (n : Note) (v o : Int) : Note :=
  let md : Option Int := match n.kind with
    | .s | .su | .sd => some 7
    | .h | .hu | .hd => some 12
    | .c | .cu | .cd => some 3
    | _ => none
  match md with
  | none => n
  | some m =>
      let val := n.val + v
      { n with val := val % m, oct := n.oct + o + val / m }

/-- `note & k` (`Note.__and__`): only plain `s` / `h` notes move -/
def Note.andInt (n : Note) (k : Int) : Note :=
  match n.kind with
  | .s | .h => n.addValue k 0
  | _ => n

/-- keys of `DURATION_TO_STR` -/
def tableDurations : List Rat := DURATION_TO_STR.map (·.1)

def maxRat : List Rat → Option Rat
  | [] => none
  | x :: xs => some (xs.foldl max x)

/-- `_recurse` of `Note.decompose_duration`: the chain of durations, the note's share first
(`base_note + _recurse(Continuation(rest))`).  Fuel bounds the Python recursion depth. -/
def decomposeDurs : Nat → Rat → Res (List Rat)
  | 0, _ => .error .other
  | fuel + 1, d =>
      if tableDurations.contains d then pure [d]
      else
        let cands := (tableDurations.filter (· != 0)).filter (fun c => (d / c).den == 1 && c < d)
        match maxRat cands with
        | none => pure [d]
        | some ch => do
            let rest ← decomposeDurs fuel (d - ch)
            pure (ch :: rest)

def continuation (d : Rat) : Note := { kind := .l, val := 0, oct := 0, dur := d }
def silence (d : Rat) : Note := { kind := .r, val := 0, oct := 0, dur := d }

/-- recursion budget: every step removes at least the smallest non-zero table duration -/
def decomposeFuel (d : Rat) : Nat := (d * 28).ceil.toNat + 2

/-- `Note.decompose_duration()`: the chain is reversed, the note takes the first (smallest)
duration, continuations take the others -/
def Note.decomposeDuration (n : Note) : Res Melody := do
  let ds ← decomposeDurs (decomposeFuel n.dur) n.dur
  match ds.reverse with
  | [] => pure [n]
  | [_] => pure [n]
  | d0 :: rest => pure ({ n with dur := d0 } :: rest.map continuation)

/-! ### melody.py -/

/-- `Melody.to_absolute_note(chord, last_pitch, return_last_pitch=True)` -/
def melodyToAbsolute (c : Chord) : Melody → Option Int → Res (Melody × Option Int)
  | [], last => pure ([], last)
  | n :: ns, last => do
      let n' ← n.toAbsoluteNote c last
      let t ← c.toPitch n' last
      let last' := match t with
        | some p => some p
        | none => last
      let (r, l) ← melodyToAbsolute c ns last'
      pure (n' :: r, l)

/-- `Melody.decompose_duration()`; `sum([], None)` is `None`, whose `.notes` raises -/
def melodyDecompose (m : Melody) : Res Melody :=
  if m.isEmpty then .error .attr
  else do pure (← m.mapM Note.decomposeDuration).flatten

/-! ### chord.py -/

/-- `chord(**parts)` -/
def Chord.withParts (c : Chord) (parts : List (String × Melody)) : Chord := { c with parts := parts }

/-- note-wise conversions `self(**{key: val.f(self) …})` -/
def Chord.mapNotesM (c : Chord) (f : Note → Chord → Res Note) : Res Chord := do
  let parts ← c.parts.mapM (fun (p : String × Melody) => do
    let m ← p.2.mapM (fun n => f n c)
    pure (p.1, m))
  pure (c.withParts parts)

def Chord.toScaleNotes (c : Chord) : Res Chord := c.mapNotesM Note.toScaleNote
def Chord.toStandardNote (c : Chord) : Res Chord := c.mapNotesM Note.toStandardNote
def Chord.toChordNote (c : Chord) : Res Chord := c.mapNotesM Note.toChordNote
def Chord.toExtensionNote (c : Chord) : Res Chord := c.mapNotesM Note.toExtensionNote

def Chord.decomposeDuration (c : Chord) : Res Chord := do
  let parts ← c.parts.mapM (fun (p : String × Melody) => do pure (p.1, ← melodyDecompose p.2))
  pure (c.withParts parts)

/-- the dictionary `last_pitch` of `to_absolute_note` -/
abbrev LastMap := List (String × Option Int)

def LastMap.get (m : LastMap) (k : String) : Option Int := (m.lookup k).getD none

def LastMap.set (m : LastMap) (k : String) (v : Option Int) : LastMap :=
  if m.any (·.1 == k) then m.map (fun p => if p.1 == k then (k, v) else p) else m ++ [(k, v)]

/-- the loop of `Chord.to_absolute_note(last_pitch, return_last_pitch=True)` -/
def chordPartsToAbsolute (c : Chord) : List (String × Melody) → LastMap → Res (List (String × Melody) × LastMap)
  | [], lm => pure ([], lm)
  | (name, m) :: ps, lm => do
      let (m', l) ← melodyToAbsolute c m (lm.get name)
      let (rest, lm') ← chordPartsToAbsolute c ps (lm.set name l)
      pure ((name, m') :: rest, lm')

def Chord.toAbsoluteNote (c : Chord) (lm : LastMap) : Res (Chord × LastMap) := do
  let (parts, lm') ← chordPartsToAbsolute c c.parts lm
  pure (c.withParts parts, lm')

/-- `_o_chord_relative_notes(melody, octave)` -/
def oChordRelative (m : Melody) (k : Int) : Melody :=
  m.map (fun n => if n.kind == .a then n else n.o k)

/-- `inverse_recursive_correct_octave(chord)`.  The Python recursion has no bound; the model
recursion carries fuel and reports exhaustion as an error (`RecursionError`).  `C11` proves
that `octaveFuel` is always enough. -/
def correctOctaveFuel : Nat → Chord → Res Chord
  | 0, _ => .error .other
  | fuel + 1, c => do
      let bass ← c.bassPitch
      if bass > 6 then
        correctOctaveFuel fuel ((c.o (-1)).withParts (c.parts.map (fun p => (p.1, oChordRelative p.2 1))))
      else if bass ≤ -6 then
        correctOctaveFuel fuel ((c.o 1).withParts (c.parts.map (fun p => (p.1, oChordRelative p.2 (-1)))))
      else pure c

def octaveFuel (bass : Int) : Nat := bass.natAbs / 12 + 2

/-- `Chord.correct_chord_octave()` -/
def Chord.correctOctave (c : Chord) : Res Chord := do
  let bass ← c.bassPitch
  correctOctaveFuel (octaveFuel bass) c

/-! ### time_utils.py -/

/-- `get_melody_between(voice, start, end)` (`modulo=False`) -/
def getMelodyBetween (voice : Melody) (start stop : Rat) : Res Melody :=
  go voice 0 []
where
  go : Melody → Rat → Melody → Res Melody
  | [], _, acc => pure acc
  | note :: rest, time, acc =>
      if time ≥ stop then pure acc
      else if time < start ∧ time + note.dur ≤ start then go rest (time + note.dur) acc
      else
        let toBreak := decide (time + note.dur ≥ stop)
        let d1 := if toBreak then stop - time else note.dur
        let cut := decide (time < start)
        let d2 := if cut then d1 - (start - time) else d1
        let time' := if cut then start else time
        let newNote := if cut then continuation d2 else { note with dur := d2 }
        if d2 < 0 then .error .other
        else if toBreak then pure (acc ++ [newNote])
        else go rest (time' + d2) (acc ++ [newNote])

/-- `get_chord_between(chord, start, end)` (`complete_if_missing=False`) -/
def getChordBetween (c : Chord) (start stop : Rat) : Res Chord :=
  if c.parts.isEmpty then pure (c.withParts [("piano__0", [silence (stop - start)])])
  else do
    let parts ← c.parts.mapM (fun (p : String × Melody) => do pure (p.1, ← getMelodyBetween p.2 start stop))
    pure (c.withParts parts)

/-- `chord & k` -/
def Chord.andInt (c : Chord) (k : Int) : Chord :=
  c.withParts (c.parts.map (fun p => (p.1, p.2.map (fun n => n.andInt k))))

/-- the durations of the template chords built by `Chord.split(max_length)`:
`1 + duration // max` chords of `max`, the last one shortened to `duration % max`
(dropped when that is 0) -/
def splitTemplate (dur mx : Rat) : List Rat :=
  let q : Int := (dur / mx).floor
  let nb : Nat := (1 + q).toNat
  let rem : Rat := dur - mx * (q : Rat)
  let full := List.replicate (nb - 1) mx
  if rem > 0 then (if nb = 0 then [] else full ++ [rem]) else full

/-- `project_on_score` of a one-chord score on the template chords (`keep_score=False`):
the cut of the chord between consecutive template boundaries, each re-applied `& 0` -/
def projectOnTemplate (c : Chord) (total : Rat) : List Rat → Rat → Res (List Chord)
  | [], _ => pure []
  | d :: ds, start =>
      let stop := start + d
      if total ≤ start then pure []                 -- `get_score_between` returns None: break
      else do
        let cut ← if total < stop ∧ start ≤ 0 then pure c else getChordBetween c start stop
        let rest ← projectOnTemplate c total ds stop
        pure ((cut.andInt 0) :: rest)

/-- `Chord.split(max_length)` for a chord longer than `max_length` (a chord that is not is
returned as it is).  `max_length ≤ 0` makes Python raise `ZeroDivisionError` (0) or build an
empty template list, whose `sum(…, None)` is `None` (`AttributeError`). -/
def Chord.split (c : Chord) (mx : Rat) : Res (List Chord) :=
  if c.dur ≤ mx then pure [c]
  else if mx = 0 then .error .zerodiv
  else
    let tpl := splitTemplate c.dur mx
    if tpl.isEmpty then .error .attr
    else projectOnTemplate (c.andInt 0) c.dur tpl 0

/-! ### score.py -/

def scoreMapM (s : Score) (f : Chord → Res Chord) : Res Score := s.mapM f

/-- `Score.to_absolute_note()` -/
def scoreToAbsolute : Score → LastMap → Res Score
  | [], _ => pure []
  | c :: cs, lm => do
      let (c', lm') ← c.toAbsoluteNote lm
      let rest ← scoreToAbsolute cs lm'
      pure (c' :: rest)

def Score.toAbsoluteNote (s : Score) : Res Score := scoreToAbsolute s []

/-- `Score.to_scale_note()` -/
def Score.toScaleNote (s : Score) : Res Score := do
  let a ← Score.toAbsoluteNote s
  scoreMapM a Chord.toScaleNotes

def Score.toStandardNote (s : Score) : Res Score := scoreMapM s Chord.toStandardNote
def Score.toChordNote (s : Score) : Res Score := scoreMapM s Chord.toChordNote
def Score.toExtensionNote (s : Score) : Res Score := scoreMapM s Chord.toExtensionNote
def Score.decomposeDuration (s : Score) : Res Score := scoreMapM s Chord.decomposeDuration
def Score.correctChordOctave (s : Score) : Res Score := scoreMapM s Chord.correctOctave

/-- `Score.normalize_instruments()`: a missing part is added as one rest of the chord's
duration (the Python code adds them in set order; the order is not observable in what is
played and the harness compares parts by name) -/
def Score.normalizeInstruments (s : Score) : Score :=
  let instruments := trackList s
  s.map (fun c =>
    let missing := instruments.filter (fun i => !(c.parts.map (·.1)).contains i)
    c.withParts (c.parts ++ missing.map (fun i => (i, [silence c.dur]))))

/-- `'__'.join(ins.split('__')[:-1])` -/
def partBaseName (ins : String) : String := "__".intercalate (ins.splitOn "__").dropLast

/-- the renaming dictionary of `normalize_instrument_names` -/
def renameDict (instruments : List String) : List (String × String) :=
  (instruments.foldl (fun (acc : List (String × String) × List (String × Nat)) ins =>
    let name := partBaseName ins
    let k := match acc.2.lookup name with
      | some j => j + 1
      | none => 0
    (acc.1 ++ [(ins, name ++ "__" ++ toString k)], (name, k) :: acc.2.filter (·.1 != name))) ([], [])).1

/-- `Score.replace_instruments(**dict)`: per chord, the parts present, in the order of the
score's instrument list, under their new names (a later equal key overwrites in place) -/
def Score.replaceInstruments (s : Score) (dict : List (String × String)) : Score :=
  let instruments := trackList s
  s.map (fun c =>
    let parts := instruments.foldl (fun (acc : List (String × Melody)) ins =>
      match c.parts.lookup ins with
      | none => acc
      | some m =>
          let nn := (dict.lookup ins).getD ins
          if acc.any (·.1 == nn) then acc.map (fun p => if p.1 == nn then (nn, m) else p) else acc ++ [(nn, m)]) []
    c.withParts parts)

/-- `Score.normalize_instrument_names()` -/
def Score.normalizeInstrumentNames (s : Score) : Score :=
  Score.replaceInstruments s (renameDict (trackList s))

/-- `Score.split_too_long_chords(max_length)` -/
def Score.splitTooLongChords (s : Score) (mx : Rat) : Res Score := do
  let parts ← s.mapM (fun c => if c.dur > mx then c.split mx else pure [c])
  pure parts.flatten

/-- `Score.remove_empty_chords()` -/
def Score.removeEmptyChords (s : Score) : Score := s.filter (fun c => c.dur > 0)

/-- `Score.normalize()` -/
def Score.normalize (s : Score) : Res Score := do
  let s1 ← Score.toStandardNote s
  let s2 ← Score.correctChordOctave s1
  let s3 := Score.normalizeInstrumentNames s2
  let s4 ← Score.splitTooLongChords s3 8
  pure (Score.removeEmptyChords s4)


/-! ### what is played (the reading of the note matrix the property talks about) -/

/-- what of a matrix row is played: pitch, onset, duration, track, silence / continuation flags -/
def Row.core (r : Row) : Int × Rat × Rat × Nat × Bool × Bool :=
  (r.pitch, r.offset, r.dur, r.track, r.silence, r.cont)

/-- a continuation of duration `d`: it extends the note it directly follows, if one is open -/
def contStep (acc : List (Int × Rat × Rat) × Bool) (d : Rat) : List (Int × Rat × Rat) × Bool :=
  if acc.2 then
    match acc.1.reverse with
    | (p, o, x) :: before => (before.reverse ++ [(p, o, x + d)], true)
    | [] => (acc.1, acc.2)
  else acc

/-- one row read into the list of sounding notes of its track: a continuation extends the
open note, a rest closes it, a sounding row opens a new one -/
def soundStep (acc : List (Int × Rat × Rat) × Bool) (r : Int × Rat × Rat × Nat × Bool × Bool) :
    List (Int × Rat × Rat) × Bool :=
  if r.2.2.2.2.2 then contStep acc r.2.2.1
  else if r.2.2.2.2.1 then (acc.1, false)
  else (acc.1 ++ [(r.1, r.2.1, r.2.2.1)], true)

/-- per track the (pitch, onset, duration) of every sounding row, continuations merged -/
def soundOfCores (cs : List (Int × Rat × Rat × Nat × Bool × Bool)) (ntracks : Nat) : List (List (Int × Rat × Rat)) :=
  (List.range ntracks).map (fun t => ((cs.filter (fun r => r.2.2.2.1 == t)).foldl soundStep ([], false)).1)

/-- what a score plays: per track, in order of first appearance -/
def plays (s : Score) : Res (List (List (Int × Rat × Rat))) := do
  let rows ← getNotes s
  pure (soundOfCores (rows.map Row.core) (trackList s).length)

end MV
