/-
Model of the roman-numeral annotation parser (C15), function for function:

  analyze/roman_parser.py           : analyze_one_chord, _analyze_one_chord, _clean,
                                      _replace_special_cases, _get_degree_and_extension,
                                      _clean_extension, _get_degree_and_tonality
  analyze/constants.py              : DEGREE_REGEX (hand-written matcher of the generated pattern),
                                      the three generated tables (MV.Gen.Roman)
  analyze/score_formatter_elements.py : BarLine (init, is_beat, is_tonality, get_elements), MultiBar.init,
                                      TimeSignature, TonalityLine, CurrentTonality.init, Beat.get_real_value,
                                      BarChord.parse (with its catch-all `except`)
  analyze/score_formatter.py        : ScoreFormatter.init (time-signature defaulting, line classifier,
                                      bar de-duplication, multibar copy), set_time_signature,
                                      set_bar_number, set_current_beat, duration / prev_duration,
                                      add_chord, ScoreInterpreter.parse, the tail of ScoreFormatter.parse
  write/chord.py                    : get_extension_properties on the *text* of an extension
  fractions.py                      : Fraction.limit_denominator

The model follows the code after the two `fix:` commits of C15: `init` no longer renames the
first bar line to `m1` (D7: the next bar was dropped / the first chord stretched), and
`CurrentTonality.init` takes the first character as the note name (keys `b:` / `bb:` were read
as major keys).

Strings are `List Char` (`Str`) with structurally recursive helpers, so that the kernel can
evaluate the model (`decide`) and so that proofs can go by induction on the text.

Outside the model (the harness never sends them): event lines (`!voicing`, `!instruments`,
`!rhythm`, `!voice_leading`, `!counterpoint`, `!generate`) - they are lexed as `Elem.event`
and the driver answers `unsupported`; non-ASCII digits; `int()`/`float()` literals other than
plain decimal digits (no sign, underscore, exponent, surrounding blanks).
Floats: `4*n/d`, `float(beat)` and `duration - current_beat` are modelled by the exact rational
(see ASSUMPTIONS in harness/props/C15.py).
-/
import MV.Model.Pitch
import MV.Gen.Roman

namespace MV.Roman
open MV Gen

abbrev Str := List Char

/-! ### Python string built-ins on `List Char` -/

def startsWith (p s : Str) : Bool := p.isPrefixOf s

/-- `pat in s` -/
def hasSub (pat : Str) : Str → Bool
  | [] => pat.isEmpty
  | c :: cs => pat.isPrefixOf (c :: cs) || hasSub pat cs

/-- `s.replace(pat, rep)` for a non-empty `pat`: leftmost, non-overlapping.  `skip` counts the
characters of a match still to be dropped. -/
def replaceGo (pat rep : Str) : Nat → Str → Str
  | _, [] => []
  | skip + 1, _ :: cs => replaceGo pat rep skip cs
  | 0, c :: cs =>
      if pat.isPrefixOf (c :: cs) then rep ++ replaceGo pat rep (pat.length - 1) cs
      else c :: replaceGo pat rep 0 cs

/-- `s.replace(pat, rep)`; with the empty pattern Python inserts `rep` around every character -/
def replace (pat rep s : Str) : Str :=
  if pat.isEmpty then rep ++ (s.flatMap (fun c => c :: rep))
  else replaceGo pat rep 0 s

/-- `s.split(sep)` for a one-character separator (empty pieces kept) -/
def splitOn (sep : Char) : Str → List Str
  | [] => [[]]
  | c :: cs =>
      if c == sep then [] :: splitOn sep cs
      else match splitOn sep cs with
        | h :: t => (c :: h) :: t
        | [] => [[c]]

/-- `s.split(pat)[0]` for a non-empty `pat`: the text before its first occurrence -/
def beforeFirst (pat : Str) : Str → Str
  | [] => []
  | c :: cs => if pat.isPrefixOf (c :: cs) then [] else c :: beforeFirst pat cs

def count (c : Char) (s : Str) : Int := ((s.filter (· == c)).length : Nat)

def lstripChar (c : Char) (s : Str) : Str := s.dropWhile (· == c)

def isAsciiDigit (c : Char) : Bool := '0' ≤ c && c ≤ '9'

def lowerChar (c : Char) : Char := if 'A' ≤ c && c ≤ 'Z' then Char.ofNat (c.toNat + 32) else c
def upperChar (c : Char) : Char := if 'a' ≤ c && c ≤ 'z' then Char.ofNat (c.toNat - 32) else c
def lower (s : Str) : Str := s.map lowerChar
def upper (s : Str) : Str := s.map upperChar

def digitsToNat : Str → Nat → Nat
  | [], acc => acc
  | c :: cs, acc => digitsToNat cs (acc * 10 + (c.toNat - '0'.toNat))

/-- `int(s)` for plain decimal digits (ValueError otherwise; signs only through `parseInt`) -/
def parseNat (s : Str) : Res Nat :=
  if s.isEmpty || !s.all isAsciiDigit then .error .value else .ok (digitsToNat s 0)

/-- `int(s)`: optional sign, digits -/
def parseInt (s : Str) : Res Int :=
  match s with
  | '-' :: r => do let n ← parseNat r; pure (-(n : Int))
  | '+' :: r => do let n ← parseNat r; pure (n : Int)
  | _ => do let n ← parseNat s; pure (n : Int)

/-- `float(s)` for `digits[.digits]` / `.digits`, as the exact decimal value -/
def parseDecimal (s : Str) : Res Rat :=
  match splitOn '.' s with
  | [a] => do let n ← parseNat a; pure (n : Rat)
  | [a, b] =>
      if a.isEmpty && b.isEmpty then .error .value
      else if !(a.all isAsciiDigit) || !(b.all isAsciiDigit) then .error .value
      else pure (((digitsToNat a 0 : Nat) : Rat) + mkRat (digitsToNat b 0 : Nat) (10 ^ b.length))
  | _ => .error .value

/-! ### fractions.Fraction.limit_denominator -/

/-- the `while True` loop of `limit_denominator`; returns `(p0, q0, p1, q1, d)` at the `break` -/
def limitLoop (maxDen : Int) : Nat → Int → Int → Int → Int → Int → Int → Int × Int × Int × Int × Int
  | 0, p0, q0, p1, q1, _, d => (p0, q0, p1, q1, d)
  | fuel + 1, p0, q0, p1, q1, n, d =>
      if d = 0 then (p0, q0, p1, q1, d) else     -- unreachable before the break (q2 exceeds first)
      let a := n / d
      let q2 := q0 + a * q1
      if q2 > maxDen then (p0, q0, p1, q1, d)
      else limitLoop maxDen fuel p1 q1 (p0 + a * p1) q2 d (n - a * d)

/-- `Fraction.limit_denominator(max_denominator)` for `max_denominator ≥ 1` -/
def limitDen (maxDen : Nat) (x : Rat) : Rat :=
  if x.den ≤ maxDen then x
  else
    let (p0, q0, p1, q1, d) := limitLoop maxDen (x.den + 2) 0 1 1 0 x.num x.den
    let k := ((maxDen : Int) - q0) / q1
    if 2 * d * (q0 + k * q1) ≤ x.den then mkRat p1 q1.toNat
    else mkRat (p0 + k * p1) (q0 + k * q1).toNat

/-! ### analyze/constants.py : DEGREE_REGEX

`(Cad|III\+|N|Ger|Fr|It|[b|#]*?[I|V|i|v|o|ø]+)` with `re.match` (anchored at the start). -/

def degreePattern : String := "(Cad|III\\+|N|Ger|Fr|It|[b|#]*?[I|V|i|v|o|ø]+)"

def inPrefixClass (c : Char) : Bool := c == 'b' || c == '|' || c == '#'
def inNumeralClass (c : Char) : Bool :=
  c == 'I' || c == '|' || c == 'V' || c == 'i' || c == 'v' || c == 'o' || c == 'ø'

/-- last alternative: the shortest run of prefix characters that is followed by a numeral
character, then the longest run of numeral characters -/
def matchNumeral : Str → Option Str
  | [] => none
  | c :: cs =>
      if inNumeralClass c then some ((c :: cs).takeWhile inNumeralClass)
      else if inPrefixClass c then (matchNumeral cs).map (c :: ·)
      else none

/-- `DEGREE_REGEX.match(data)`: the matched text, `none` when there is no match -/
def matchDegree (s : Str) : Option Str :=
  if startsWith "Cad".toList s then some "Cad".toList
  else if startsWith "III+".toList s then some "III+".toList
  else if startsWith "N".toList s then some "N".toList
  else if startsWith "Ger".toList s then some "Ger".toList
  else if startsWith "Fr".toList s then some "Fr".toList
  else if startsWith "It".toList s then some "It".toList
  else matchNumeral s

/-! ### analyze/roman_parser.py -/

/-- the `mode` strings that reach `analyze_one_chord`: `ScoreFormatter.mode` starts as `'M'`,
`CurrentTonality` sets `'major'` / `'minor'` -/
inductive KMode where
  | major | minor | M | m
  deriving DecidableEq, Repr, Inhabited

def KMode.toStr : KMode → String
  | .major => "major" | .minor => "minor" | .M => "M" | .m => "m"
def KMode.all : List KMode := [.major, .minor, .M, .m]
def KMode.ofStr? (t : String) : Option KMode := KMode.all.find? (fun k => k.toStr == t)

/-- `{'major': 'M', 'minor': 'm', 'M': 'M', 'm': 'm'}[mode]` -/
def KMode.toMode : KMode → Mode
  | .major | .M => .M
  | .minor | .m => .m

def rep (a b : String) (s : Str) : Str := replace a.toList b.toList s

/-- `_clean` -/
def clean (data : Str) : Str :=
  let data := rep "/4" "4" (rep "/" "" (rep "/3" "" (rep "4/3" "43" (rep "42" "2" data))))
  rep "%" "ø" data

/-- `_replace_special_cases` -/
def replaceSpecialCases (prim : Str) : Str :=
  if hasSub "Ger".toList prim then prim
  else if hasSub "It".toList prim then "It".toList ++ rep "It" "" prim
  else if hasSub "Fr".toList prim then "Fr".toList ++ rep "Fr" "" prim
  else prim

/-- `_get_degree_and_extension` on a figure that is present (`None` is handled by the caller);
`DEGREE_REGEX.match(data)[0]` on no match is `None[0]`, a TypeError -/
def getDegreeAndExtension (data : Str) : Res (Str × Str) :=
  match matchDegree data with
  | none => .error .type
  | some degree =>
      let extension := replace degree [] data
      let d := String.ofList degree
      let e := String.ofList extension
      let extension :=
        if d == "N" && e == "" then "6".toList
        else if d == "Ger" && e == "" then "7".toList
        else if d == "Ger" && e == "6" then "65".toList
        else if d == "It" && e == "" then "7[no5]".toList
        else if d == "It" && e == "53" then "7[no5]".toList
        else if d == "It" && e == "6" then "65[no5]".toList
        else if d == "It" && e == "64" then "2[no5]".toList
        else if d == "Fr" && e == "" then "7[b5]".toList
        else if d == "Fr" && e == "6" then "65[b5]".toList
        else if d == "Fr" then extension ++ "[b5]".toList
        else if d == "It" then extension ++ "[no5]".toList
        else extension
      .ok (degree, extension)

/-- `_get_degree_and_extension(None)` is `(None, None)` -/
def getDegreeOpt : Option Str → Res (Option Str)
  | none => .ok none
  | some s => do let (d, _) ← getDegreeAndExtension s; pure (some d)

/-- `_clean_extension`: brackets out, doubled figures, then the replacer rows one after the other -/
def cleanExtension (figure : Str) : Str :=
  let f := rep ")" "" (rep "]" "" (rep "(" "" (rep "[" "" figure)))
  let f := rep "643" "43" (rep "62" "2" (rep "67" "7" (rep "66" "6" f)))
  EXTENSION_REPLACER.foldl (fun acc kv => rep kv.1 kv.2 acc) f

def lookupStr (k : Str) (tbl : List (String × α)) : Res α :=
  match tbl.find? (fun kv => kv.1.toList == k) with
  | some kv => .ok kv.2
  | none => .error .key

def dictTonality : Mode → List (String × (Int × Mode))
  | .M => DICT_TONALITY_M
  | .m => DICT_TONALITY_m
  | _ => []
def dictRelativeChange : Mode → List (String × (Int × Mode × Int))
  | .M => DICT_RELATIVE_CHANGE_M
  | .m => DICT_RELATIVE_CHANGE_m
  | _ => []

/-- `_get_degree_and_tonality` -/
def getDegreeAndTonality (sec ter : Option Str) (degree : Str) (key : Int) (mode : Mode) :
    Res (Int × Int × Mode) := do
  let (key, mode) ← match ter with
    | some t => do
        let (keyAdd, newMode) ← lookupStr t (dictTonality mode)
        pure ((key + keyAdd) % 12, newMode)
    | none => pure (key, mode)
  let (newKey, newMode) ← match sec with
    | none => pure (key, mode)
    | some s => do
        let (keyAdd, newMode) ← lookupStr s (dictTonality mode)
        pure ((key + keyAdd) % 12, newMode)
  let (deg, newMode, keyAdd) ← lookupStr degree (dictRelativeChange newMode)
  pure (deg, (newKey + keyAdd) % 12, newMode)

/-- `_analyze_one_chord(prim, sec, ter, key, mode)` -/
def analyzeParts (prim : Str) (sec ter : Option Str) (key : Int) (mode : KMode) :
    Res (Int × Str × Int × Mode) := do
  let mode := mode.toMode
  let prim := replaceSpecialCases (clean prim)
  let (degree, extension) ← getDegreeAndExtension prim
  let secDegree ← getDegreeOpt sec
  let terDegree ← getDegreeOpt ter
  let extension := cleanExtension extension
  let (fd, fk, fm) ← getDegreeAndTonality secDegree terDegree degree key mode
  pure (fd, extension, fk, fm)

/-- the string clean-ups at the head of `analyze_one_chord` -/
def preClean (figure : Str) (mode : KMode) : Str :=
  let f := rep "4/3" "43" (rep "/o" "ø" figure)
  let f := rep "/5" "5" (rep "/2" "" (rep "/3" "" (rep "/4" "4" f)))
  if mode = .major then rep "III+" "III(+)" f else f

/-- `analyze_one_chord(figure, key, mode)` → (degree, extension, key, mode) -/
def analyzeOneChord (figure : Str) (key : Int) (mode : KMode) : Res (Int × Str × Int × Mode) :=
  match splitOn '/' (preClean figure mode) with
  | [p] => analyzeParts p none none key mode
  | [p, s] => analyzeParts p (some s) none key mode
  | [p, s, t] => analyzeParts p (some s) (some t) key mode
  | _ => .error .other

/-! ### write/chord.py : the text of an extension -/

/-- `re.findall(open (.*?) close, s)`: from each opening bracket to the next closing one
(`cur = some acc` while inside a group) -/
def findGroups (op cl : Char) : Option Str → Str → List Str
  | _, [] => []
  | none, c :: cs => if c == op then findGroups op cl (some []) cs else findGroups op cl none cs
  | some acc, c :: cs =>
      if c == cl then acc.reverse :: findGroups op cl none cs
      else findGroups op cl (some (c :: acc)) cs

def sortStrList (l : List Str) : List Str := (sortStrs (l.map String.ofList)).map String.toList

/-- `Chord.get_extension_properties` on the text: (base figure text, replacements, additions,
removals), the three lists sorted -/
def getExtensionProperties (text : Str) : Str × List Str × List Str × List Str :=
  let extension := (splitOn '|' text).headD []
  let repls := sortStrList (findGroups '(' ')' none extension)
  let adds := sortStrList (findGroups '[' ']' none extension)
  let rems := sortStrList (findGroups '{' '}' none extension)
  let ext := (repls ++ adds ++ rems).foldl (fun e r => replace r [] e) extension
  let ext := rep "{}" "" (rep "[]" "" (rep "()" "" ext))
  (ext, repls, adds, rems)

def figOfStr (s : Str) : Option Fig := Fig.all.find? (fun f => f.toStr.toList == s)

/-- the structured extension of a text; an unknown base figure is the `KeyError` of
`BASE_EXTENSION_DICT[extension]` -/
def extOfText (text : Str) : Res Ext :=
  let (base, r, a, m) := getExtensionProperties text
  match figOfStr base with
  | none => .error .key
  | some f => .ok { fig := f, repl := r.map String.ofList, add := a.map String.ofList, rem := m.map String.ofList }

/-- `Chord(degree, tonality=Tonality(key, mode))[extension]` -/
def makeChord (deg : Int) (extension : Str) (key : Int) (mode : Mode) : Res Chord := do
  let e ← extOfText extension
  let c : Chord := { elem := deg, ton := ⟨key, mode, 0⟩ }
  c.withExt e

/-- what `BarChord.parse` computes before the clock is touched -/
def chordOfFigure (figure : Str) (key : Int) (mode : KMode) : Res Chord := do
  let (d, e, k, md) ← analyzeOneChord figure key mode
  makeChord d e k md

/-! ### analyze/score_formatter_elements.py : lexing -/

inductive Elem where
  | ts (num den : Str)                 -- TimeSignature(line): the two texts, `int()` happens in parse
  | tonLine (ton : Str)                -- TonalityLine(line).tonality
  | bar (idx : Int)                    -- BarLine
  | beat (value : Str)                 -- Beat(text).value  (text without its `b`s)
  | curTon (key : Int) (mode : KMode)  -- CurrentTonality(text) (evaluated when constructed)
  | chord (text : Str)                 -- BarChord(text)
  | event                              -- `!…` lines, outside the model
  deriving DecidableEq, Repr, Inhabited

/-- Python `str.index` of a one-character string in "CDEFGAB", with the note values -/
def noteTable : List (Char × Int) :=
  [('C', 0), ('D', 2), ('E', 4), ('F', 5), ('G', 7), ('A', 9), ('B', 11)]

/-- `CurrentTonality.init`: (key, mode).  `tab.index(note.upper())` finds the empty string at 0 and
raises ValueError for anything that is not a (sub)string of "CDEFGAB". -/
def currentTonality (text : Str) : Res (Int × KMode) :=
  let name := rep ":" "" text
  let accidentals := name.drop 1
  let note := name.take 1 ++ rep "-" "" (rep "b" "" (rep "#" "" accidentals))
  let up := upper note
  let idx : Option Int :=
    if up.isEmpty then some 0
    else if hasSub up "CDEFGAB".toList then
      match up with
      | [c] => noteTable.lookup c
      | c :: _ => noteTable.lookup c     -- a longer substring such as "CD": index of its first letter
      | [] => some 0
    else none
  match idx with
  | none => .error .value
  | some tone =>
      let mode := if up == note then KMode.major else KMode.minor
      .ok (tone + count '#' accidentals - count 'b' accidentals - count '-' accidentals, mode)

/-- `BarLine.is_beat`: `element.startswith('b') and element[1].isdigit()` -/
def isBeat (element : Str) : Res Bool :=
  match element with
  | 'b' :: rest =>
      match rest with
      | [] => .error .index
      | c :: _ => .ok (isAsciiDigit c)
  | _ => .ok false

/-- `BarLine.is_tonality` -/
def isTonalityElem (element : Str) : Bool := element.contains ':' && !element.contains '|'

/-- `BarLine.get_elements` over `text.split(' ')[1:]` -/
def getElements : List Str → Bool → Res (List Elem)
  | [], _ => .ok []
  | e :: es, lastWasChord => do
      if ← isBeat e then
        let rest ← getElements es false
        pure (.beat (rep "b" "" e) :: rest)
      else if isTonalityElem e then
        let (k, md) ← currentTonality e
        let rest ← getElements es lastWasChord
        pure (.curTon k md :: rest)
      else if !lastWasChord then
        if e != [] then
          let rest ← getElements es true
          pure (.chord e :: rest)
        else getElements es lastWasChord
      else getElements es lastWasChord

/-- `BarLine.init`: the bar index (`x` = previous + 1), variations ignored -/
def barIdx (text : Str) (initBar : Int) : Res Int :=
  let barNumber := beforeFirst "var".toList ((splitOn ' ' text).headD [])
  if barNumber.contains 'x' then .ok (initBar + 1)
  else parseInt (barNumber.drop 1)

/-- `MultiBar.init`: receiver range and emitter range (`range(a, b)`) -/
def multiBarRanges (text : Str) : Res ((Int × Int) × (Int × Int)) :=
  let side (s : Str) : Res (Int × Int) :=
    match splitOn '-' (s.drop 1) with
    | [a] => do let a ← parseInt a; pure (a, a + 1)
    | [a, b] => do let a ← parseInt a; let b ← parseInt b; pure (a, b + 1)
    | _ => .error .value
  match splitOn '=' (rep " " "" text) with
  | [new, old] => do
      let (a, b) ← side new
      let (c, d) ← side old
      if d - c ≠ b - a then .error .other else pure ((a, b), (c, d))
  | _ => .error .value

/-! ### analyze/score_formatter.py : ScoreFormatter.init -/

def isTimeSignature (line : Str) : Bool := startsWith "Time".toList line || startsWith "time".toList line
def isTonalityLine (line : Str) : Bool :=
  startsWith "tonality".toList (lower line) || startsWith "key".toList (lower line)
def isEvent (line : Str) : Bool := startsWith "!".toList line
def isBar (line : Str) : Bool := startsWith "m".toList line
def isMultibar (line : Str) : Bool :=
  let firstWord := (splitOn ' ' line).headD []
  startsWith "m".toList line && (firstWord.contains '-' || line.contains '=')

/-- the first loop of `init`: is there a time signature before the first bar? -/
def firstTimeSignature : List Str → Bool
  | [] => false
  | l :: ls =>
      if isTimeSignature l then true
      else if isBar l || isMultibar l then false
      else firstTimeSignature ls

structure LexState where
  elements : List Elem := []
  barElements : List (Int × List Elem) := []   -- `bar_elements`, later entries first
  initBar : Int := -1

/-- `range(a, b)` as a list -/
def pyRange (a b : Int) : List Int := (List.range (b - a).toNat).map (fun (i : Nat) => a + i)

/-- the loop body of the multibar branch -/
def copyBars : List (Int × Int) → LexState → Res LexState
  | [], st => .ok st
  | (idx, old) :: rest, st => do
      let els ← lookupKey old st.barElements
      copyBars rest { st with elements := st.elements ++ [Elem.bar idx] ++ els,
                              barElements := (idx, els) :: st.barElements }

/-- one line of the third loop of `init` -/
def lexLine (raw : Str) (st : LexState) : Res LexState :=
  let line := lstripChar ' ' (lstripChar '\t' raw)
  if isTimeSignature line then
    match splitOn ':' line with
    | _ :: x :: _ =>
        match splitOn '/' (rep " " "" x) with
        | [n, d] => .ok { st with elements := st.elements ++ [Elem.ts n d] }
        | _ => .error .value
    | _ => .error .index
  else if isTonalityLine line then
    match splitOn ':' line with
    | _ :: x :: _ => .ok { st with elements := st.elements ++ [Elem.tonLine (rep " " "" x)] }
    | _ => .error .index
  else if isEvent line then .ok { st with elements := st.elements ++ [Elem.event] }
  else if isMultibar line then do
    let ((a, b), (c, d)) ← multiBarRanges line
    copyBars ((pyRange a b).zip (pyRange c d)) st
  else if isBar line then do
    let idx ← barIdx line st.initBar
    let els ← getElements ((splitOn ' ' line).drop 1) false
    if st.initBar > idx then pure st
    else if st.initBar ≠ idx then
      pure { elements := st.elements ++ [Elem.bar idx] ++ els,
             barElements := (idx, els) :: st.barElements, initBar := idx }
    else pure st
  else .ok st

def lexLines : List Str → LexState → Res LexState
  | [], st => .ok st
  | l :: ls, st => do let st' ← lexLine l st; lexLines ls st'

/-- `ScoreFormatter.__init__` / `init`: the element list of a text -/
def lexText (text : Str) : Res (List Elem) := do
  let lines := splitOn '\n' text
  let lines := if firstTimeSignature lines then lines else "Time Signature: 4/4".toList :: lines
  let st ← lexLines lines {}
  pure st.elements

/-! ### the clock and the interpreter -/

structure OutChord where
  chord : Chord
  dur : Rat
  deriving DecidableEq, Repr, Inhabited

structure St where
  ts : Int × Int := (4, 4)
  prevTs : Int × Int := (4, 4)
  firstChange : Bool := true
  key : Int := 0
  mode : KMode := .M
  barNumber : Int := 0
  currentBeat : Rat := 0
  pickup : Rat := 0
  started : Int × Rat := (0, 0)
  score : Option (List OutChord) := none
  deriving DecidableEq, Repr, Inhabited

/-- `4 * n / d` (true division: ZeroDivisionError for `d = 0`), exact -/
def barLen (ts : Int × Int) : Res Rat :=
  if ts.2 = 0 then .error .zerodiv else .ok ((4 * ts.1 : Int) / (ts.2 : Int))

/-- `ScoreFormatter.duration` -/
def St.duration (st : St) : Res Rat := barLen st.ts

/-- `ScoreFormatter.prev_duration` -/
def St.prevDuration (st : St) : Res Rat := do
  let l ← barLen st.prevTs
  pure (limitDen 8 l)

/-- `set_time_signature` (`allow_multi_signature` is True) -/
def St.setTimeSignature (st : St) (ts : Int × Int) : St :=
  let prev := st.ts
  let (first, prev) := if st.firstChange then (false, ts) else (st.firstChange, prev)
  { st with prevTs := prev, firstChange := first, ts := ts }

/-- `set_bar_number` -/
def St.setBarNumber (st : St) (idx : Int) : Res St :=
  if idx > st.barNumber ∨ st.barNumber = 0 then .ok { st with barNumber := idx, currentBeat := 0 }
  else .error .assertion

/-- `set_current_beat` -/
def St.setCurrentBeat (st : St) (beat : Rat) : St :=
  if beat ≤ st.currentBeat then st else { st with currentBeat := beat }

/-- `CONVENTION_DICT = {(6, 8): 2, (2, 2): 2}` -/
def conventionBeats (ts : Int × Int) : Option Rat :=
  if ts = (6, 8) then some 2 else if ts = (2, 2) then some 2 else none

/-- `Beat.get_real_value` as a function of the time signature in force and the label text -/
def beatPos (ts : Int × Int) (value : Str) : Res Rat := do
  let dur ← barLen ts
  let nb := (conventionBeats ts).getD dur
  if dur = 0 then .error .zerodiv
  let ratio := limitDen 8 (nb / dur)
  let v ← parseDecimal value
  let real := limitDen 8 v - 1
  if ratio = 0 then .error .zerodiv
  pure (real / ratio)

/-- `Beat.get_real_value(parent)` -/
def beatRealValue (st : St) (value : Str) : Res Rat := beatPos st.ts value

/-- replace the last element of a list -/
def setLast (l : List α) (x : α) : List α := l.dropLast ++ [x]

/-- outcome of `add_chord` inside the `try` of `BarChord.parse`: the new state, or the exception
class together with the state the `except` branch is left with -/
def St.addChord (st : St) (c : Chord) (newDur : Rat) : Except (Err × St) St :=
  let close : Except (Err × St) (List OutChord) :=
    match st.score with
    | none => .ok []
    | some cs =>
        match st.prevDuration with
        | .error e => .error (e, st)
        | .ok pd =>
          let duration := pd * ((st.barNumber - st.started.1 : Int) : Rat) + (st.currentBeat - st.started.2)
          if duration = 0 then .ok cs.dropLast
          else match cs.getLast? with
            | none => .error (.index, st)
            | some last =>
                if last.dur = 0 then .error (.zerodiv, st)
                else
                  let nd := limitDen LIMIT_DENOM (last.dur * (duration / last.dur))
                  let cs' := setLast cs { last with dur := nd }
                  if nd = duration then .ok cs'
                  else .error (.assertion, { st with score := some cs' })
  match close with
  | .error e => .error e
  | .ok cs =>
      .ok { st with
            started := (st.barNumber, st.currentBeat)
            pickup := if st.score.isNone ∧ st.currentBeat > 0 then st.currentBeat else st.pickup
            score := some (cs ++ [{ chord := c, dur := newDur }])
            prevTs := st.ts }

/-- `BarChord.parse`: every exception is printed and swallowed -/
def St.barChord (st : St) (text : Str) : St :=
  match chordOfFigure text st.key st.mode with
  | .error _ => st
  | .ok c =>
      match st.duration with
      | .error _ => st
      | .ok d =>
          -- chord(**voicing).set_duration(duration - current_beat): quarter notes augmented by a float
          let newDur := limitDen LIMIT_DENOM (limitDen LIMIT_DENOM (d - st.currentBeat))
          match st.addChord c newDur with
          | .ok st' => st'
          | .error (_, st') => st'

/-- `element.parse(score, parent)` -/
def St.step (st : St) : Elem → Res St
  | .ts n d => do
      let n ← parseInt n
      let d ← parseInt d
      pure (st.setTimeSignature (n, d))
  | .tonLine t => do
      let (k, md) ← currentTonality t
      pure { st with key := k, mode := md }
  | .bar idx => st.setBarNumber idx
  | .beat v => do
      let r ← beatRealValue st v
      pure (st.setCurrentBeat r)
  | .curTon k md => pure { st with key := k, mode := md }
  | .chord t => pure (st.barChord t)
  | .event => pure st

/-- `ScoreInterpreter.parse` -/
def run : List Elem → St → Res St
  | [], st => .ok st
  | e :: es, st => do let st' ← st.step e; run es st'

structure Parsed where
  chords : List OutChord
  pickup : Rat
  ts : Int × Int
  deriving DecidableEq, Repr

/-- the tail of `ScoreFormatter.parse`: without any chord `score` is `None` and
`score.normalize_instruments()` raises AttributeError -/
def finish (st : St) : Res Parsed :=
  match st.score with
  | none => .error .attr
  | some cs => .ok { chords := cs, pickup := st.pickup, ts := st.ts }

/-- `ScoreFormatter(text).parse()` on the observables of C15 -/
def parseElems (els : List Elem) : Res Parsed := do
  let st ← run els {}
  finish st

def parseText (text : Str) : Res Parsed := do
  let els ← lexText text
  parseElems els

end MV.Roman
