/-
Line protocol shared by all correspondence drivers.

One request per line, written as an s-expression; one reply per line.  Atoms are
runs of characters other than space and parentheses.  Integers are atoms like `-12`,
rationals are atoms `n/d` (or a plain integer), strings are atoms (the harness never
sends spaces or parentheses inside an atom; the empty string is written `""`).
This file imports nothing so that drivers start quickly under `lean --run`.
-/

namespace MV

inductive SExp where
  | atom (s : String)
  | list (xs : List SExp)
  deriving Repr, Inhabited, BEq

namespace SExp

partial def toStr : SExp → String
  | atom s => if s.isEmpty then "\"\"" else s
  | list xs => "(" ++ " ".intercalate (xs.map toStr) ++ ")"

instance : ToString SExp := ⟨toStr⟩

/-- tokenizer: parentheses are their own tokens, everything else is split on blanks -/
def tokenize (s : String) : List String := Id.run do
  let mut out : Array String := #[]
  let mut cur : String := ""
  for c in s.toList do
    if c == '(' || c == ')' then
      if !cur.isEmpty then out := out.push cur; cur := ""
      out := out.push (String.singleton c)
    else if c == ' ' || c == '\t' || c == '\n' || c == '\r' then
      if !cur.isEmpty then out := out.push cur; cur := ""
    else
      cur := cur.push c
  if !cur.isEmpty then out := out.push cur
  return out.toList

/-- parse a token list into a sequence of s-expressions (stack machine, total) -/
def parseToks (toks : List String) : Option (List SExp) := Id.run do
  let mut stack : List (List SExp) := [[]]   -- innermost first, each reversed
  for t in toks do
    if t == "(" then
      stack := [] :: stack
    else if t == ")" then
      match stack with
      | top :: nxt :: rest => stack := (SExp.list top.reverse :: nxt) :: rest
      | _ => return none
    else
      let a := if t == "\"\"" then SExp.atom "" else SExp.atom t
      match stack with
      | top :: rest => stack := (a :: top) :: rest
      | [] => return none
  match stack with
  | [top] => return some top.reverse
  | _ => return none

def parseLine (s : String) : Option (List SExp) := parseToks (tokenize s)

def asAtom? : SExp → Option String
  | atom s => some s
  | _ => none

def asList? : SExp → Option (List SExp)
  | list xs => some xs
  | _ => none

def asInt? (e : SExp) : Option Int := do
  let s ← e.asAtom?
  s.toInt?

def asNat? (e : SExp) : Option Nat := do
  let s ← e.asAtom?
  s.toNat?

def asRat? (e : SExp) : Option Rat := do
  let s ← e.asAtom?
  match s.splitOn "/" with
  | [n] => do let n ← n.toInt?; pure (n : Rat)
  | [n, d] => do
      let n ← n.toInt?
      let d ← d.toNat?
      if d == 0 then none else pure (mkRat n d)
  | _ => none

def asInts? (e : SExp) : Option (List Int) := do
  let xs ← e.asList?
  xs.mapM asInt?

def asStrs? (e : SExp) : Option (List String) := do
  let xs ← e.asList?
  xs.mapM asAtom?

def ofInt (i : Int) : SExp := atom (toString i)
def ofRat (q : Rat) : SExp :=
  if q.den == 1 then atom (toString q.num) else atom (toString q.num ++ "/" ++ toString q.den)
def ofInts (l : List Int) : SExp := list (l.map ofInt)
def ofStr (s : String) : SExp := atom s
def ofBool (b : Bool) : SExp := atom (if b then "1" else "0")

end SExp

/-- Run a line-oriented driver: `step` maps a parsed request to a reply string. -/
partial def driverLoop (h : IO.FS.Stream) (out : IO.FS.Stream) (step : List SExp → String) : IO Unit := do
  let line ← h.getLine
  if line.isEmpty then return ()
  let reply := match SExp.parseLine line with
    | some [SExp.list req] => step req     -- a request is one parenthesised list
    | some req => step req
    | none => "bad-line"
  out.putStrLn reply
  driverLoop h out step

def runDriver (step : List SExp → String) : IO Unit := do
  let i ← IO.getStdin
  let o ← IO.getStdout
  driverLoop i o step
  o.flush

end MV
