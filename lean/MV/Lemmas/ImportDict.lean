/-
C14 importer lemmas 8/15 — insertion-ordered dictionaries as association lists (`dictSet`, `dictPop`): lookups and key uniqueness.
-/
import MV.Model.Import
namespace MV

/-! ### insertion-ordered dictionaries as association lists -/

theorem lookup_dictSet_self {β : Type} (d : List (String × β)) (k : String) (v : β) :
    (dictSet d k v).lookup k = some v := by
  unfold dictSet
  by_cases h : d.any (·.1 == k) = true
  · simp only [h, if_true]
    induction d with
    | nil => simp at h
    | cons p ps ih =>
        simp only [List.map_cons]
        by_cases hp : p.1 == k
        · simp only [hp, if_true, List.lookup_cons, beq_self_eq_true]
        · simp only [hp, Bool.false_eq_true, if_false]
          have hne : (k == p.1) = false := by
            simp only [beq_eq_false_iff_ne, ne_eq] at hp ⊢; simpa using fun e => hp (by simp [e])
          rw [List.lookup_cons, hne]
          apply ih
          simpa [hp] using h
  · simp only [h, Bool.false_eq_true, if_false]
    have hn : d.lookup k = none := by
      induction d with
      | nil => rfl
      | cons p ps ih =>
          have hp : (p.1 == k) = false := by
            cases hh : (p.1 == k) with
            | false => rfl
            | true => exact absurd (by simp [hh]) h
          have hne : (k == p.1) = false := by
            simp only [beq_eq_false_iff_ne, ne_eq] at hp ⊢; exact fun e => hp e.symm
          rw [List.lookup_cons, hne]
          apply ih
          intro hc; apply h; simp [hc]
    rw [List.lookup_append, hn]
    simp

end MV

namespace MV

theorem lookup_none_iff {β : Type} (d : List (String × β)) (k : String) :
    d.lookup k = none ↔ k ∉ d.map (·.1) := by
  induction d with
  | nil => simp
  | cons p ps ih =>
      rw [List.lookup_cons]
      by_cases hp : k = p.1
      · subst hp; simp
      · have : (k == p.1) = false := by simpa using hp
        rw [this]; simp only [List.map_cons, List.mem_cons, not_or]
        rw [ih]; exact ⟨fun h => ⟨hp, h⟩, fun h => h.2⟩

theorem any_key_iff {β : Type} (d : List (String × β)) (k : String) :
    d.any (·.1 == k) = true ↔ k ∈ d.map (·.1) := by
  simp only [List.any_eq_true, beq_iff_eq, List.mem_map]

theorem lookup_mapReplace_ne {β : Type} (d : List (String × β)) (k k' : String) (v : β) (hne : k' ≠ k) :
    (d.map (fun p => if p.1 == k then (k, v) else p)).lookup k' = d.lookup k' := by
  induction d with
  | nil => rfl
  | cons p ps ih =>
      obtain ⟨pk, pv⟩ := p
      simp only [List.map_cons, List.lookup_cons]
      by_cases hp : pk == k
      · have hpk : pk = k := by simpa using hp
        have e1 : (k' == k) = false := by simpa using hne
        have e2 : (k' == pk) = false := by rw [hpk]; exact e1
        simp only [hp, if_true, List.lookup_cons, e1, e2, ih]
      · simp only [hp, Bool.false_eq_true, if_false, List.lookup_cons, ih]

theorem lookup_dictSet_ne {β : Type} (d : List (String × β)) (k k' : String) (v : β) (hne : k' ≠ k) :
    (dictSet d k v).lookup k' = d.lookup k' := by
  unfold dictSet
  by_cases h : d.any (·.1 == k) = true
  · simp only [h, if_true]; exact lookup_mapReplace_ne d k k' v hne
  · simp only [h, Bool.false_eq_true, if_false]
    rw [List.lookup_append]
    have : (k' == k) = false := by simpa using hne
    simp [List.lookup_cons, this]

theorem lookup_pop_self {β : Type} (d : List (String × β)) (k : String) :
    (d.filter (fun p => !(p.1 == k))).lookup k = none := by
  rw [lookup_none_iff]
  simp only [List.mem_map, List.mem_filter, Bool.not_eq_true', beq_eq_false_iff_ne, ne_eq, not_exists, not_and]
  intro p hp e; exact hp.2 e

theorem lookup_pop_ne {β : Type} (d : List (String × β)) (k k' : String) (hne : k' ≠ k) :
    (d.filter (fun p => !(p.1 == k))).lookup k' = d.lookup k' := by
  induction d with
  | nil => rfl
  | cons p ps ih =>
      obtain ⟨pk, pv⟩ := p
      by_cases hp : pk == k
      · have hpk : pk = k := by simpa using hp
        have e2 : (k' == pk) = false := by rw [hpk]; simpa using hne
        simp only [List.filter_cons, hp, Bool.not_true, Bool.false_eq_true, if_false, List.lookup_cons, e2, ih]
      · simp only [List.filter_cons, hp, Bool.not_false, if_true, List.lookup_cons, ih]

/-- keys of a dictionary -/
def keys {β : Type} (d : List (String × β)) : List String := d.map (·.1)

theorem keys_dictSet_nodup {β : Type} (d : List (String × β)) (k : String) (v : β) (h : (keys d).Nodup) :
    (keys (dictSet d k v)).Nodup := by
  unfold dictSet
  by_cases ha : d.any (·.1 == k) = true
  · simp only [ha, if_true]
    have : keys (d.map (fun p => if p.1 == k then (k, v) else p)) = keys d := by
      unfold keys
      rw [List.map_map]
      apply List.map_congr_left
      intro p _
      simp only [Function.comp]
      by_cases hp : p.1 == k
      · simp only [hp, if_true]; exact (by simpa using hp : p.1 = k).symm
      · simp only [hp, Bool.false_eq_true, if_false]
    rw [this]; exact h
  · simp only [ha, Bool.false_eq_true, if_false]
    unfold keys at h ⊢
    rw [List.map_append, List.nodup_append]
    refine ⟨h, by simp, ?_⟩
    intro a ha' b hb
    simp only [List.map_cons, List.map_nil, List.mem_singleton] at hb
    subst hb
    intro e; subst e
    exact ha ((any_key_iff d _).mpr ha')

theorem keys_pop_nodup {β : Type} (d : List (String × β)) (k : String) (h : (keys d).Nodup) :
    (keys (d.filter (fun p => !(p.1 == k)))).Nodup := by
  unfold keys at h ⊢
  exact h.sublist (List.Sublist.map _ (List.filter_sublist))

end MV
