/-
Lemmas for the source tie of the group `SrcEuclid` (DESIGN.md §9.6, `MV/Props/TieSrcEuclid.lean`): the Python built-ins of
`MV/Model/PyEuclid.lean`, the generated loop bodies of `_apply_durations_to_melody` / `FromMelody` as named step functions
with their fold inductions against the model's recursions, the cyclic comprehension of `get_array_between`, and for
`bjorklund_algorithm` the generated `while` loop against `euclidLoop` (same bound; `euclidLoop` is monotone in the bound),
the generated closure `build` (pattern threaded through, bounded depth) against the model's `build` (word appended,
structural), the rotation.
-/
import Mathlib.Data.Rat.Lemmas
import Mathlib.Tactic.Ring
import Mathlib.Tactic.Linarith
import MV.Gen.SrcEuclid
import MV.Lemmas.PyTie
import MV.Lemmas.Metric
import MV.Lemmas.Bjorklund
import MV.Props.TieMetric
set_option linter.unusedSimpArgs false
namespace MV.Tie
open MV MV.Rhythm


/-! ### Python built-ins of `MV/Model/Py*.lean` -/

theorem pySum_eq (l : List Int) : Py.sum l = l.sum := by
  unfold Py.sum
  have : ∀ (l : List Int) (a : Int), l.foldl (· + ·) a = a + l.sum := by
    intro l
    induction l with
    | nil => intro a; simp
    | cons x xs ih => intro a; rw [List.foldl_cons, ih, List.sum_cons]; omega
  rw [this]; simp

theorem sumRat_eq (l : List Rat) : sumRat l = l.sum := by
  unfold sumRat
  have : ∀ (l : List Rat) (a : Rat), l.foldl (· + ·) a = a + l.sum := by
    intro l
    induction l with
    | nil => intro a; simp
    | cons x xs ih => intro a; rw [List.foldl_cons, ih, List.sum_cons]; ring
  rw [this]; simp

theorem melodyDuration_eq (l : Melody) : Src.Melody_duration l = melDuration l := by
  unfold Src.Melody_duration melDuration
  exact sumRat_eq _

theorem listMul_single {α : Type} (x : α) (k : Int) : Py.listMul [x] k = List.replicate k.toNat x := by
  unfold Py.listMul
  generalize k.toNat = n
  induction n with
  | zero => rfl
  | succ n ih => rw [List.replicate_succ, List.flatten_cons, ih, List.replicate_succ]; rfl

theorem pyIndex_last {α : Type} (init : List α) (x : α) : pyIndex (init ++ [x]) (-1) = .ok x := by
  unfold pyIndex
  have hlen : ((init ++ [x]).length : Int) = (init.length : Int) + 1 := by simp
  simp only [hlen]
  have h1 : (-1 : Int) < 0 := by decide
  simp only [h1, if_true]
  have hr : ¬ (-1 + ((init.length : Int) + 1) < 0 ∨ -1 + ((init.length : Int) + 1) ≥ (init.length : Int) + 1) := by omega
  rw [if_neg hr]
  have : (-1 + ((init.length : Int) + 1)).toNat = init.length := by omega
  rw [this]
  simp

theorem setItem_last {α : Type} (init : List α) (x v : α) : Py.setItem (init ++ [x]) (-1) v = .ok (init ++ [v]) := by
  unfold Py.setItem
  have hlen : ((init ++ [x]).length : Int) = (init.length : Int) + 1 := by simp
  simp only [hlen]
  have h1 : (-1 : Int) < 0 := by decide
  simp only [h1, if_true]
  have hr : ¬ (-1 + ((init.length : Int) + 1) < 0 ∨ -1 + ((init.length : Int) + 1) ≥ (init.length : Int) + 1) := by omega
  rw [if_neg hr]
  have : (-1 + ((init.length : Int) + 1)).toNat = init.length := by omega
  rw [this]
  simp

theorem setLast_concat (init : List Note) (x : Note) (f : Note → Note) : setLast (init ++ [x]) f = .ok (init ++ [f x]) := by
  unfold setLast
  simp

theorem ratMod_ok (a b : Rat) (h : b ≠ 0) : Py.ratMod a b = .ok (ratMod a b) := by
  unfold Py.ratMod ratMod
  rw [if_neg h]


/-! ### `duration`, `get_array_between` -/

theorem fracDiv_four (d : Int) :
    Py.fracDiv (((4 : Int) : Int) : Rat) ((d : Int) : Rat) = if d = 0 then .error .zerodiv else .ok ((4 : Rat) / (d : Rat)) := by
  unfold Py.fracDiv
  by_cases h : d = 0
  · subst h; simp
  · have : ¬ ((d : Rat) = 0) := by exact_mod_cast h
    simp [h, this]

theorem mapM_ok_of {α β : Type} (f : α → Res β) (g : α → β) (l : List α) (h : ∀ x ∈ l, f x = .ok (g x)) :
    l.mapM f = .ok (l.map g) := by
  induction l with
  | nil => rfl
  | cons x xs ih =>
    rw [List.mapM_cons, h x (List.mem_cons_self ..), ih (fun y hy => h y (List.mem_cons_of_mem _ hy))]
    rfl

theorem pyIndex_lt (arr : List Int) (i : Int) (h0 : 0 ≤ i) (h1 : i < (arr.length : Int)) :
    pyIndex arr i = .ok (arr.getD i.toNat 0) := by
  unfold pyIndex
  have hn : ¬ i < 0 := by omega
  have hr : ¬ (i ≥ (arr.length : Int)) := by omega
  simp only [hn, if_false, false_or]
  have hlt : i.toNat < arr.length := by omega
  rw [List.getElem?_eq_getElem hlt, List.getD_eq_getElem?_getD, List.getElem?_eq_getElem hlt, if_neg hr]
  rfl

/-- the cyclic comprehension `[self.array[idx % len(self.array)] for idx in …]` -/
theorem cyc_mapM (arr : List Int) (idxs : List Int) :
    idxs.mapM (fun (idx : Int) => do let t ← Py.mod idx (Py.len arr); let u ← pyIndex arr t; pure u)
      = if idxs ≠ [] ∧ arr.length = 0 then .error .zerodiv
        else .ok (idxs.map (fun idx => arr.getD (idx % (arr.length : Int)).toNat 0)) := by
  by_cases hl : arr.length = 0
  · cases idxs with
    | nil => simp; rfl
    | cons i is =>
      have : Py.mod i (Py.len arr) = .error .zerodiv := by simp [Py.mod, Py.len, hl]
      rw [List.mapM_cons, this]
      simp [hl]; rfl
  · have hc : ¬ (idxs ≠ [] ∧ arr.length = 0) := fun h => hl h.2
    rw [if_neg hc]
    apply mapM_ok_of
    intro idx _
    have hpos : (0 : Int) < (arr.length : Int) := by omega
    have hne : ¬ ((arr.length : Int) = 0) := by omega
    have hm : Py.mod idx (Py.len arr) = .ok (idx % (arr.length : Int)) := by
      simp only [Py.mod, Py.len, hne, if_false, Int.fmod_eq_emod_of_nonneg _ (Int.le_of_lt hpos)]
    rw [hm]
    show (do let u ← pyIndex arr (idx % (arr.length : Int)); pure u) = _
    rw [pyIndex_lt arr _ (Int.emod_nonneg _ (by omega)) (Int.emod_lt_of_pos _ hpos)]

theorem gab_core (m : Metric) (s e : Rat) :
    (do let t_1 ← Py.ratFloorDiv s m.tatum
        let t_2 ← Py.ratFloorDiv e m.tatum
        let t_5 ← (Py.range t_1 t_2).mapM (fun (idx : Int) => do
          let t_3 ← Py.mod idx (Py.len m.array); let t_4 ← pyIndex m.array t_3; pure t_4)
        pure (t_5, s, e) : Res (List Int × Rat × Rat))
      = m.getArrayBetween (some s) (some e) := by
  unfold Metric.getArrayBetween Py.ratFloorDiv
  by_cases ht : m.tatum = 0
  · simp [ht]; rfl
  · simp only [ht, if_false, Option.getD_some]
    show (do let t_5 ← (Py.range _ _).mapM _; pure (t_5, s, e) : Res (List Int × Rat × Rat)) = _
    rw [cyc_mapM]
    unfold ratFloorDiv intRange Py.range
    split <;> rfl

theorem gab_tatum (m : Metric) (start stop : Option Rat) (r : List Int × Rat × Rat)
    (h : m.getArrayBetween start stop = .ok r) : m.tatum ≠ 0 := by
  intro ht
  unfold Metric.getArrayBetween at h
  simp [ht] at h


/-! ### `_apply_durations_to_melody`: the fold over `enumerate(beat_durations)` with `break` -/

theorem silenceOf_one : Py.silenceOf (((1 : Int) : Int) : Rat) = silence1 := by
  unfold Py.silenceOf silence1
  have h1 : (((1 : Int) : Int) : Rat) = 1 := Int.cast_one
  rw [h1, limitDenominator_id 1 _ (by decide)]

/-- the body of the loop of `_apply_durations_to_melody` as py2lean generates it -/
def admStep (notes : List Note) (first expand : Bool) (st : Bool × List Note) (it : Int × Bool × Rat) : Res (Bool × List Note) :=
  if st.1 then pure st
  else
    if ((decide (it.1 = (0 : Int))) && (!first)) then pure (false, st.2 ++ [setDuration silence1 it.2.2])
    else if ((!expand) && (decide (it.1 > (Py.len notes)))) then pure (true, st.2)
    else if it.2.1 then do
      let t_4 ← Py.mod it.1 (Py.len notes)
      let t_5 ← pyIndex notes t_4
      pure (false, st.2 ++ [setDuration t_5 it.2.2])
    else pure (false, st.2 ++ [setDuration silence1 it.2.2])

theorem adm_unfold (cls : Src.MetricClass) (notes : List Note) (beats : List (Bool × Rat)) (first expand : Bool) :
    Src.Metric_apply_durations_to_melody cls notes beats first expand
      = (do let st ← (Py.enumerate beats).foldlM (admStep notes first expand) (false, []); pure st.2) := by
  unfold Src.Metric_apply_durations_to_melody
  simp only [silenceOf_one]
  rfl

theorem adm_broken (notes : List Note) (first expand : Bool) (l : List (Int × Bool × Rat)) (acc : List Note) :
    l.foldlM (admStep notes first expand) (true, acc) = .ok (true, acc) := by
  induction l with
  | nil => rfl
  | cons x xs ih =>
    rw [List.foldlM_cons]
    show (do let st ← (pure (true, acc) : Res _); xs.foldlM _ st) = _
    exact ih

theorem adm_fold (notes : List Note) (first expand : Bool) :
    ∀ (beats : List (Bool × Rat)) (idx : Nat) (acc : List Note),
      (do let st ← (Py.enumerateFrom (idx : Int) beats).foldlM (admStep notes first expand) (false, acc); pure st.2 : Res (List Note))
        = (do let r ← applyLoop notes first expand idx beats; pure (acc ++ r)) := by
  intro beats
  induction beats with
  | nil => intro idx acc; simp [Py.enumerateFrom, applyLoop]; rfl
  | cons b rest ih =>
    intro idx acc
    obtain ⟨hasNote, beat⟩ := b
    have hcast : ((idx : Int) + 1) = ((idx + 1 : Nat) : Int) := by push_cast; rfl
    unfold Py.enumerateFrom applyLoop
    rw [List.foldlM_cons, hcast]
    by_cases h1 : idx = 0 ∧ first = false
    · have hs : admStep notes first expand (false, acc) ((idx : Int), hasNote, beat)
          = .ok (false, acc ++ [setDuration silence1 beat]) := by
        obtain ⟨hi, hf⟩ := h1
        subst hi; subst hf
        simp [admStep]; rfl
      rw [hs, if_pos h1]
      show (do let st ← List.foldlM _ (false, acc ++ [setDuration silence1 beat]) _; pure st.2 : Res (List Note)) = _
      rw [ih (idx + 1) (acc ++ [setDuration silence1 beat])]
      cases applyLoop notes first expand (idx + 1) rest with
      | error e => rfl
      | ok r => simp [bind, Except.bind, pure, Except.pure]
    · rw [if_neg h1]
      have hc1 : ((decide (((idx : Nat) : Int) = (0 : Int))) && (!first)) = false := by
        cases first <;> simp_all
      by_cases h2 : expand = false ∧ idx > notes.length
      · have hs : admStep notes first expand (false, acc) ((idx : Int), hasNote, beat) = .ok (true, acc) := by
          obtain ⟨he, hi⟩ := h2
          have hb : ((!expand) && (decide (((idx : Nat) : Int) > (Py.len notes)))) = true := by
            subst he; simp [Py.len]; omega
          simp only [admStep, Bool.false_eq_true, ↓reduceIte, hc1, hb]; rfl
        rw [hs, if_pos h2]
        show (do let st ← List.foldlM _ (true, acc) _; pure st.2 : Res (List Note)) = _
        rw [adm_broken]
        simp [bind, Except.bind, pure, Except.pure]
      · rw [if_neg h2]
        have hc2 : ((!expand) && (decide (((idx : Nat) : Int) > (Py.len notes)))) = false := by
          cases expand
          · have : ¬ idx > notes.length := fun h => h2 ⟨rfl, h⟩
            simp [Py.len]; omega
          · simp
        cases hasNote with
        | false =>
          have hs : admStep notes first expand (false, acc) ((idx : Int), false, beat)
              = .ok (false, acc ++ [setDuration silence1 beat]) := by
            simp only [admStep, Bool.false_eq_true, ↓reduceIte, hc1, hc2]; rfl
          rw [hs]
          show (do let st ← List.foldlM _ (false, acc ++ [setDuration silence1 beat]) _; pure st.2 : Res (List Note)) = _
          rw [ih (idx + 1) (acc ++ [setDuration silence1 beat])]
          cases applyLoop notes first expand (idx + 1) rest with
          | error e => rfl
          | ok r => simp [bind, Except.bind, pure, Except.pure]
        | true =>
          by_cases hl : notes.length = 0
          · have hs : admStep notes first expand (false, acc) ((idx : Int), true, beat) = .error .zerodiv := by
              have hm : Py.mod (idx : Int) (Py.len notes) = .error .zerodiv := by simp [Py.mod, Py.len, hl]
              simp only [admStep, Bool.false_eq_true, ↓reduceIte, hc1, hc2, hm]; rfl
            rw [hs]
            simp [hl]; rfl
          · have hpos : (0 : Int) < (notes.length : Int) := by omega
            have hne : ¬ ((notes.length : Int) = 0) := by omega
            have hlt : idx % notes.length < notes.length := Nat.mod_lt _ (by omega)
            have hm : Py.mod (idx : Int) (Py.len notes) = .ok (((idx % notes.length : Nat)) : Int) := by
              simp only [Py.mod, Py.len, hne, if_false, Int.fmod_eq_emod_of_nonneg _ (Int.le_of_lt hpos), Int.natCast_mod]
            have hp : pyIndex notes (((idx % notes.length : Nat)) : Int) = .ok (notes[idx % notes.length]'hlt) := by
              unfold pyIndex
              have hn : ¬ (((idx % notes.length : Nat)) : Int) < 0 := by omega
              have hr : ¬ ((((idx % notes.length : Nat)) : Int) ≥ (notes.length : Int)) := by omega
              simp only [hn, if_false, false_or, if_neg hr, Int.toNat_natCast, List.getElem?_eq_getElem hlt]
            have hs : admStep notes first expand (false, acc) ((idx : Int), true, beat)
                = .ok (false, acc ++ [setDuration (notes[idx % notes.length]'hlt) beat]) := by
              simp only [admStep, Bool.false_eq_true, ↓reduceIte, hc1, hc2, hm]
              show (do let t_5 ← pyIndex notes _; pure (false, acc ++ [setDuration t_5 beat]) : Res (Bool × List Note)) = _
              rw [hp]; rfl
            rw [hs]
            simp only [hl, if_false, List.getElem?_eq_getElem hlt]
            show (do let st ← List.foldlM _ (false, acc ++ [setDuration _ beat]) _; pure st.2 : Res (List Note)) = _
            rw [ih (idx + 1) _]
            cases applyLoop notes first expand (idx + 1) rest with
            | error e => rfl
            | ok r => simp [bind, Except.bind, pure, Except.pure]


/-! ### `FromMelody`: the per-note loop -/

theorem intOfFrac_ne_iff (q : Rat) : (q ≠ (((Py.intOfFrac q) : Int) : Rat)) ↔ q.den ≠ 1 := by
  unfold Py.intOfFrac
  constructor
  · intro h hd
    apply h
    rw [hd]
    simp only [Nat.cast_one, Int.tdiv_one]
    exact (Rat.coe_int_num_of_den_eq_one hd).symm
  · intro h he
    apply h
    rw [he]
    exact Rat.den_intCast _

theorem intOfFrac_of_den_one (q : Rat) (h : q.den = 1) : Py.intOfFrac q = q.num := by
  unfold Py.intOfFrac
  rw [h]; simp

theorem sounding_kind (k : Kind) : (k.isNote || (([Kind.x, Kind.d] : List Kind).contains k)) = (k.isNote || k == .x || k == .d) := by
  cases k <;> rfl

/-- the body of the loop of `FromMelody` as py2lean generates it -/
def fmStep (tatum : Rat) (st : List Int) (note : Note) : Res (List Int) := do
  let t_1 ← Py.fracDiv note.dur tatum
  if (decide (t_1 ≠ (((Py.intOfFrac t_1) : Int) : Rat))) then
    throw Err.value
  else
    if (note.kind.isNote || (([Kind.x, Kind.d] : List Kind).contains note.kind)) then
      pure (st ++ ([(1 : Int)] ++ (Py.listMul [(0 : Int)] ((Py.intOfFrac t_1) - (1 : Int)))))
    else
      pure (st ++ ([(0 : Int)] ++ (Py.listMul [(0 : Int)] ((Py.intOfFrac t_1) - (1 : Int)))))

theorem fm_fold (t : Rat) : ∀ (notes : List Note) (acc : List Int),
    notes.foldlM (fmStep t) acc = (do let r ← fromMelodyLoop t notes; pure (acc ++ r)) := by
  intro notes
  induction notes with
  | nil => intro acc; simp [fromMelodyLoop]; rfl
  | cons n ns ih =>
    intro acc
    rw [List.foldlM_cons]
    unfold fromMelodyLoop
    by_cases ht : t = 0
    · have : fmStep t acc n = .error .zerodiv := by simp [fmStep, Py.fracDiv, ht]; rfl
      rw [this, if_pos ht]; rfl
    · rw [if_neg ht]
      have hf : Py.fracDiv n.dur t = .ok (n.dur / t) := by simp [Py.fracDiv, ht]
      by_cases hd : (n.dur / t).den ≠ 1
      · have : fmStep t acc n = .error .value := by
          unfold fmStep
          rw [hf]
          show (if (decide ((n.dur / t) ≠ _)) then throw Err.value else _) = _
          rw [if_pos (by simpa using (intOfFrac_ne_iff _).2 hd)]; rfl
        rw [this, if_pos hd]; rfl
      · have hd1 : (n.dur / t).den = 1 := by simpa using hd
        have hs : fmStep t acc n = .ok (acc ++ ((if n.kind.isNote || n.kind == .x || n.kind == .d then (1 : Int) else 0)
            :: List.replicate ((n.dur / t).num - 1).toNat (0 : Int))) := by
          unfold fmStep
          rw [hf]
          show (if (decide ((n.dur / t) ≠ _)) then throw Err.value else _) = _
          have hno : ¬ ((n.dur / t) ≠ (((Py.intOfFrac (n.dur / t)) : Int) : Rat)) := fun h => ((intOfFrac_ne_iff _).1 h) hd1
          rw [if_neg (by simpa using hno)]
          simp only [sounding_kind, listMul_single, intOfFrac_of_den_one _ hd1]
          split <;> rfl
        rw [hs]
        simp only [hd, if_false]
        show List.foldlM (fmStep t) _ ns = _
        rw [ih]
        cases fromMelodyLoop t ns with
        | error e => rfl
        | ok r => simp [bind, Except.bind, pure, Except.pure]

theorem fm_tail (array : List Int) (sig : Int × Int) (t : Rat) (nb : Int) :
    (do let t_3 ← Py.floordiv (Py.len array) nb
        let t_4 ← Py.floordiv (Py.len array) nb
        if (decide (t_3 ≠ t_4)) then throw Err.value
        else do
          let t_5 ← Rhythm.Metric.mk? array sig t nb
          pure t_5 : Res Metric)
      = if nb = 0 then .error .zerodiv else Metric.mk? array sig t nb := by
  unfold Py.floordiv
  by_cases h : nb = 0
  · simp [h]; rfl
  · simp only [h, if_false]
    show (if (decide (_ ≠ _)) then throw Err.value else _) = _
    simp

theorem fm_some (melody : Melody) (sig : Int × Int) (t : Rat) (nb : Int) :
    (do let st ← melody.foldlM (fmStep t) []
        let t_3 ← Py.floordiv (Py.len st) nb
        let t_4 ← Py.floordiv (Py.len st) nb
        if (decide (t_3 ≠ t_4)) then throw Err.value
        else do
          let t_5 ← Rhythm.Metric.mk? st sig t nb
          pure t_5 : Res Metric)
      = fromMelody melody sig (some t) nb := by
  unfold fromMelody
  rw [fm_fold]
  show _ = (do let array ← fromMelodyLoop t melody; _)
  cases fromMelodyLoop t melody with
  | error e => rfl
  | ok r =>
    show (do let t_3 ← Py.floordiv (Py.len ([] ++ r)) nb; _) = _
    rw [List.nil_append]
    exact fm_tail r sig t nb


/-! ### `bjorklund_algorithm`: the `while` loop, the closure `build`, the rotation -/

theorem euclidLoop_shape (f : Nat) (d r : Int) (cs rs : List Int) (h : euclidLoop f d r = some (.ok (cs, rs))) :
    cs.length = rs.length + 1 ∧ rs.length ≤ f := by
  induction f generalizing d r cs rs with
  | zero => simp [euclidLoop] at h
  | succ f ih =>
    unfold euclidLoop at h
    dsimp only at h
    split at h
    · simp at h
    · split at h
      · simp only [Option.some.injEq, Except.ok.injEq, Prod.mk.injEq] at h
        obtain ⟨rfl, rfl⟩ := h
        simp
      · split at h
        · cases h
        · simp at h
        · rename_i cs' rs' heq
          simp only [Option.some.injEq, Except.ok.injEq, Prod.mk.injEq] at h
          obtain ⟨rfl, rfl⟩ := h
          have := ih _ _ _ _ heq
          simp; omega

theorem euclidLoop_mono (f : Nat) (d r : Int) (x : Res (List Int × List Int)) (h : euclidLoop f d r = some x) (k : Nat) :
    euclidLoop (f + k) d r = some x := by
  induction f generalizing d r x with
  | zero => simp [euclidLoop] at h
  | succ f ih =>
    have : f + 1 + k = (f + k) + 1 := by omega
    rw [this]
    unfold euclidLoop at h ⊢
    dsimp only at h ⊢
    split
    · rename_i hr
      rw [if_pos hr] at h
      exact h
    · rename_i hr
      rw [if_neg hr] at h
      split
      · rename_i hle
        rw [if_pos hle] at h
        exact h
      · rename_i hle
        rw [if_neg hle] at h
        cases hrec : euclidLoop f r (d.fmod r) with
        | none => rw [hrec] at h; cases h
        | some y => rw [ih _ _ _ hrec]; rw [hrec] at h; exact h

theorem pyIndex_append_last (l : List Int) (x : Int) (lv : Nat) (h : l.length = lv) : pyIndex (l ++ [x]) (lv : Int) = .ok x := by
  unfold pyIndex
  have hlen : ((l ++ [x]).length : Int) = (lv : Int) + 1 := by simp [h]
  simp only [hlen]
  have h1 : ¬ ((lv : Int) < 0) := by omega
  have hr : ¬ (((lv : Int) < 0) ∨ (lv : Int) ≥ (lv : Int) + 1) := by omega
  simp only [h1, if_false, false_or]
  rw [if_neg (by omega)]
  simp [h]

theorem pyIndex_append_prev (l : List Int) (x y : Int) (lv : Nat) (h : l.length = lv) : pyIndex (l ++ [x] ++ [y]) (lv : Int) = .ok x := by
  unfold pyIndex
  have hlen : ((l ++ [x] ++ [y]).length : Int) = (lv : Int) + 2 := by simp [h]
  simp only [hlen]
  have h1 : ¬ ((lv : Int) < 0) := by omega
  simp only [h1, if_false, false_or]
  rw [if_neg (by omega)]
  simp [h]

/-- the `while True` loop of `bjorklund_algorithm` as generated, against the model's `euclidLoop` (same bound) -/
theorem loop_tie (f : Nat) : ∀ (d r : Int) (cs0 rs0 : List Int) (lv : Nat), rs0.length = lv →
    Src.bjorklund_algorithm_loop1 f cs0 (rs0 ++ [r]) d (lv : Int) =
      match euclidLoop f d r with
      | none => .error .other
      | some (.error e) => .error e
      | some (.ok (cs, rs)) => .ok (cs0 ++ cs.dropLast, rs0 ++ r :: rs, cs.getLastD 0, ((lv + rs.length : Nat) : Int)) := by
  induction f with
  | zero => intro d r cs0 rs0 lv _; rfl
  | succ f ih =>
    intro d r cs0 rs0 lv hlen
    unfold Src.bjorklund_algorithm_loop1 euclidLoop
    simp only [pyIndex_append_last rs0 r lv hlen]
    dsimp only [bind, Except.bind]
    by_cases hr : r = 0
    · simp [hr, Py.floordiv]
    · simp only [Py.floordiv, Py.mod, hr, if_false]
      have hcast : ((lv : Int) + 1) = ((lv + 1 : Nat) : Int) := by push_cast; rfl
      rw [pyIndex_append_prev rs0 r _ lv hlen, hcast, pyIndex_append_last (rs0 ++ [r]) _ (lv + 1) (by simp [hlen])]
      dsimp only
      by_cases hle : d.fmod r ≤ 1
      · simp [hle]; rfl
      · simp only [hle, decide_false, Bool.false_eq_true, if_false]
        rw [ih r (d.fmod r) (cs0 ++ [d.fdiv r]) (rs0 ++ [r]) (lv + 1) (by simp [hlen])]
        cases hrec : euclidLoop f r (d.fmod r) with
        | none => rfl
        | some x =>
          cases x with
          | error e => rfl
          | ok p =>
            obtain ⟨cs, rs⟩ := p
            have hsh := euclidLoop_shape _ _ _ _ _ hrec
            have hne : cs ≠ [] := by intro h; rw [h] at hsh; simp at hsh
            dsimp only
            congr 1
            rw [List.dropLast_cons_of_ne_nil hne]
            simp only [List.append_assoc, List.singleton_append, List.length_cons, Prod.mk.injEq, true_and]
            refine ⟨?_, ?_⟩
            · cases cs with
              | nil => exact absurd rfl hne
              | cons a as => simp [List.getLastD]
            · push_cast; omega

theorem range_zero_length (c : Int) : (Py.range 0 c).length = c.toNat := by
  unfold Py.range; simp

/-- `for i in range(..): build(level - 1)` when the inner call appends the word `w` -/
theorem fold_repeat (g : List Int → Res (List Int)) (w : List Int) (hg : ∀ p, g p = .ok (p ++ w)) :
    ∀ (l : List Int) (pat : List Int),
      l.foldlM (fun (st : List Int) (_ : Int) => g st) pat = .ok (pat ++ repeatWord l.length w) := by
  intro l
  induction l with
  | nil => intro pat; simp [repeatWord]; rfl
  | cons x xs ih =>
    intro pat
    rw [List.foldlM_cons, hg]
    show List.foldlM _ (pat ++ w) xs = _
    rw [ih]
    simp [repeatWord]

theorem fold_fail (g : List Int → Res (List Int)) (e : Err) (hg : ∀ p, g p = .error e) :
    ∀ (l : List Int) (pat : List Int), l ≠ [] → l.foldlM (fun (st : List Int) (_ : Int) => g st) pat = .error e := by
  intro l pat hl
  cases l with
  | nil => exact absurd rfl hl
  | cons x xs => rw [List.foldlM_cons, hg]; rfl

theorem pyIndex_nat (l : List Int) (i : Nat) : pyIndex l (i : Int) = match l[i]? with | some x => .ok x | none => .error .index := by
  unfold pyIndex
  have h1 : ¬ ((i : Int) < 0) := by omega
  simp only [h1, if_false, false_or, Int.toNat_natCast]
  by_cases h : i < l.length
  · rw [if_neg (by omega), List.getElem?_eq_getElem h]
  · rw [if_pos (by omega), List.getElem?_eq_none (by omega)]

theorem build_succ2 (counts rems : List Int) (lv : Nat) :
    build counts rems (lv + 2) =
      match counts[lv]?, rems[lv]? with
      | some c, some r => do
          let w1 ← build counts rems (lv + 1)
          if r ≠ 0 then do
            let w2 ← build counts rems lv
            pure (repeatWord c.toNat w1 ++ w2)
          else pure (repeatWord c.toNat w1)
      | _, _ => .error .index := by
  rw [build]; rfl

/-- the local function `build` as generated (the pattern threaded through) against the model's `build` (the word
appended), for every depth bound above the level -/
theorem build_tie (counts rems : List Int) : ∀ (lv : Nat) (fuel : Nat) (pat : List Int), lv + 1 ≤ fuel →
    Src.bjorklund_algorithm_build fuel counts rems pat ((lv : Int) - 2)
      = (do let w ← build counts rems lv; pure (pat ++ w)) := by
  intro lv
  induction lv using Nat.strongRecOn with
  | _ lv ih =>
    intro fuel pat hf
    obtain ⟨f, rfl⟩ : ∃ f, fuel = f + 1 := ⟨fuel - 1, by omega⟩
    unfold Src.bjorklund_algorithm_build
    match lv with
    | 0 => rfl
    | 1 => rfl
    | lv + 2 =>
      have hl : (((lv + 2 : Nat) : Int) - 2) = (lv : Int) := by push_cast; omega
      rw [hl]
      have hn1 : ¬ ((lv : Int) = -(1 : Int)) := by omega
      have hn2 : ¬ ((lv : Int) = -(2 : Int)) := by omega
      simp only [hn1, hn2, decide_false, Bool.false_eq_true, if_false]
      have hl1 : ((lv : Int) - (1 : Int)) = (((lv + 1 : Nat)) : Int) - 2 := by push_cast; omega
      have hl2 : ((lv : Int) - (2 : Int)) = ((lv : Nat) : Int) - 2 := rfl
      have ih1 := fun pat => ih (lv + 1) (by omega) f pat (by omega)
      have ih0 := fun pat => ih lv (by omega) f pat (by omega)
      simp only [hl1, ih1, ih0, bind_pure, pyIndex_nat]
      rw [build_succ2]
      cases hc : counts[lv]? with
      | none => rfl
      | some c =>
        cases hr : rems[lv]? with
        | none =>
          dsimp only [bind, Except.bind]
          cases hb : build counts rems (lv + 1) with
          | error e =>
            have he := build_error _ _ _ _ hb
            subst he
            by_cases hne : Py.range 0 c = []
            · rw [hne]; rfl
            · rw [fold_fail (fun p => match (Except.error Err.index : Res (List Int)) with
                  | .error err => .error err | .ok v => pure (p ++ v)) .index (fun _ => rfl) _ _ hne]
          | ok w1 =>
            rw [fold_repeat (fun p => match (Except.ok w1 : Res (List Int)) with
                  | .error err => .error err | .ok v => pure (p ++ v)) w1 (fun _ => rfl)]
        | some r =>
          have hcl : lv < counts.length := by
            by_contra hcon; rw [List.getElem?_eq_none (by omega)] at hc; cases hc
          have hrl : lv < rems.length := by
            by_contra hcon; rw [List.getElem?_eq_none (by omega)] at hr; cases hr
          have hb1 := build_eq_buildP counts rems (lv + 1) (by omega) (by omega)
          have hb0 := build_eq_buildP counts rems lv (by omega) (by omega)
          rw [hb1, hb0]
          dsimp only [bind, Except.bind]
          rw [fold_repeat (fun p => match (Except.ok (buildP counts rems (lv + 1)) : Res (List Int)) with
                  | .error err => .error err | .ok v => pure (p ++ v)) _ (fun _ => rfl), range_zero_length]
          dsimp only
          by_cases hr0 : r = 0
          · simp [hr0, pure, Except.pure]
          · simp [hr0, pure, Except.pure]

theorem slice_zero (l : List Int) (i : Int) : Py.slice l 0 i = Py.sliceTo l i := by
  unfold Py.slice Py.sliceTo
  have : Py.clampIdx l.length 0 = 0 := by simp [Py.clampIdx]
  rw [this]; rfl

theorem rotate_tie (pattern : List Int) :
    (do let t_10 ← Py.index pattern (1 : Int)
        pure ((Py.sliceFrom pattern t_10) ++ (Py.slice pattern (0 : Int) t_10)) : Res (List Int))
      = match pattern.findIdx? (· == 1) with
        | none => .error .value
        | some i => .ok (pattern.drop i ++ pattern.take i) := by
  unfold Py.index
  cases pattern.findIdx? (· == 1) with
  | none => rfl
  | some i =>
    show Except.ok _ = _
    rw [slice_zero, Py.sliceFrom_nonneg _ _ (by omega), Py.sliceTo_nonneg _ _ (by omega)]
    rfl


end MV.Tie
