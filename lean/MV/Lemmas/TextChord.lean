/-
Lemmas for C05, part 2: tonalities, chord heads, the keyword arguments of a chord call
(`preparse_named_melodies`), custom chords.
-/
import MV.Lemmas.Text
import MV.Lemmas.Equality

namespace MV.Text
open MV Gen

/-! ### tonalities -/

theorem evalTOps_append (v : TVal) (a b : List TOp) :
    evalTOps v (a ++ b) = match evalTOps v a with
      | .ok w => evalTOps w b
      | .error e => .error e := by
  induction a generalizing v with
  | nil => simp [evalTOps]
  | cons op ops ih =>
      simp only [List.cons_append, evalTOps]
      cases evalTOp v op with
      | ok w => simp [ih]
      | error e => simp

def degrees12 : List Int := [0, 1, 2, 3, 4, 5, 6, 7, 8, 9, 10, 11]

theorem mem_degrees12 (d : Int) (h0 : 0 ≤ d) (h1 : d < 12) : d ∈ degrees12 := by
  have : d = 0 ∨ d = 1 ∨ d = 2 ∨ d = 3 ∨ d = 4 ∨ d = 5 ∨ d = 6 ∨ d = 7 ∨ d = 8 ∨ d = 9 ∨ d = 10 ∨ d = 11 := by omega
  rcases this with h | h | h | h | h | h | h | h | h | h | h | h <;> subst h <;> decide

theorem mem_modes (md : Mode) : md ∈ Mode.all := by cases md <;> decide

/-- every entry of `DEGREE_TO_STR` is inside the grammar `SYM(.b|.s)*` -/
theorem degree_table_parses : ∀ p ∈ DEGREE_TO_STR, (parseDegree p.2).isSome = true := by decide +kernel

/-- table part of the tonality round trip: the twelve degree names, the nine modes, octave 0 -/
theorem degree_table_roundtrip : ∀ d ∈ degrees12, ∀ md ∈ Mode.all,
    (tonCode ⟨d, md, 0⟩ >>= evalTCode) = .ok ⟨d, md, 0⟩ := by decide +kernel

/-- the code of a tonality with an octave = the code at octave 0 followed by `.o(k)` -/
theorem tonCode_oct (d : Int) (md : Mode) (k : Int) (hk : k ≠ 0) :
    tonCode ⟨d, md, k⟩ = (tonCode ⟨d, md, 0⟩).map (fun c => { c with ops := c.ops ++ [.o k] }) := by
  unfold tonCode
  simp only [bind, Except.bind]
  cases lookupKey d DEGREE_TO_STR with
  | error e => rfl
  | ok s =>
      simp only []
      cases parseDegree s with
      | none => rfl
      | some c => simp [Except.map, pure, Except.pure, hk]

theorem evalTCode_snoc_o (c : TCode) (t : Tonality) (k : Int) (h : evalTCode c = .ok t) :
    evalTCode { c with ops := c.ops ++ [.o k] } = .ok { t with oct := t.oct + k } := by
  unfold evalTCode at h ⊢
  simp only [bind, Except.bind] at h ⊢
  cases hv : elementOf c.sym with
  | error e => simp [hv] at h
  | ok v =>
      simp only [hv] at h ⊢
      rw [evalTOps_append]
      cases hw : evalTOps (.elem v) c.ops with
      | error e => simp [hw] at h
      | ok w =>
          simp only [hw] at h ⊢
          cases w with
          | elem u => simp at h
          | ton t' =>
              have : t' = t := by simpa [pure, Except.pure] using h
              subst this
              simp [evalTOps, evalTOp, Eq.tonO, Eq.tonCopy, pure, Except.pure]

/-- **tonality round trip** in the form used by chords: the code exists and evaluates to the tonality -/
theorem tonality_code_eval (t : Tonality) (h0 : 0 ≤ t.deg) (h1 : t.deg < 12) :
    ∃ c, tonCode t = .ok c ∧ evalTCode c = .ok t := by
  obtain ⟨d, md, k⟩ := t
  simp only at h0 h1
  have hb := degree_table_roundtrip d (mem_degrees12 d h0 h1) md (mem_modes md)
  cases hc : tonCode ⟨d, md, 0⟩ with
  | error e => simp [hc, bind, Except.bind] at hb
  | ok c0 =>
      have he : evalTCode c0 = .ok ⟨d, md, 0⟩ := by simpa [hc, bind, Except.bind] using hb
      by_cases hk : k = 0
      · subst hk; exact ⟨c0, hc, he⟩
      · refine ⟨{ c0 with ops := c0.ops ++ [.o k] }, ?_, ?_⟩
        · rw [tonCode_oct d md k hk, hc]; rfl
        · have := evalTCode_snoc_o c0 ⟨d, md, 0⟩ k he
          simpa using this

theorem tonCode_rejects (t : Tonality) (h : t.deg < 0 ∨ 12 ≤ t.deg) : tonCode t = .error .key := by
  have hl : DEGREE_TO_STR.lookup t.deg = none := by
    have : ∀ p ∈ DEGREE_TO_STR, 0 ≤ p.1 ∧ p.1 < 12 := by decide
    cases hh : DEGREE_TO_STR.lookup t.deg with
    | none => rfl
    | some s =>
        have := this _ (lookup_mem _ _ _ hh)
        simp only at this
        omega
  unfold tonCode lookupKey
  simp [hl, bind, Except.bind]

/-! ### elements -/

def elements7 : List Int := [0, 1, 2, 3, 4, 5, 6]

theorem mem_elements7 (e : Int) (h0 : 0 ≤ e) (h1 : e < 7) : e ∈ elements7 := by
  have : e = 0 ∨ e = 1 ∨ e = 2 ∨ e = 3 ∨ e = 4 ∨ e = 5 ∨ e = 6 := by omega
  rcases this with h | h | h | h | h | h | h <;> subst h <;> decide

theorem element_table : ∀ e ∈ elements7, (lookupKey e ELEMENT_TO_STR >>= elementOf) = .ok e := by decide +kernel

theorem element_code_eval (e : Int) (h0 : 0 ≤ e) (h1 : e < 7) :
    ∃ s, lookupKey e ELEMENT_TO_STR = .ok s ∧ elementOf s = .ok e := by
  have := element_table e (mem_elements7 e h0 h1)
  cases hs : lookupKey e ELEMENT_TO_STR with
  | error x => simp [hs, bind, Except.bind] at this
  | ok s => exact ⟨s, rfl, by simpa [hs, bind, Except.bind] using this⟩

/-! ### copies -/

theorem copy_reread (n : Note) (hd : Den n.dur) : copy (rereadNote n) = rereadNote n := by
  by_cases hk : n.kind = .r ∨ n.kind = .l
  · simp only [rereadNote, hk, ↓reduceIte]
    exact copy_rest hk hd n.tags
  · have hs : Sounding n.kind := by unfold Sounding; tauto
    apply copy_id
    · simpa [rereadNote, hk] using hs
    · simpa [rereadNote, hk] using hd

theorem rereadNote_kind (n : Note) : (rereadNote n).kind = n.kind := by
  by_cases hk : n.kind = .r ∨ n.kind = .l <;> simp [rereadNote, hk, restNote]

theorem copyMelody_reread (m : Melody) (h : ∀ n ∈ m, Den n.dur) :
    copyMelody (m.map rereadNote) = m.map rereadNote := by
  unfold copyMelody
  rw [List.map_map]
  apply List.map_congr_left
  intro n hn
  exact copy_reread n (h n hn)

theorem toMelody_reread (m : Melody) (h : ∀ n ∈ m, Den n.dur) : toMelody (m.map rereadNote) = m.map rereadNote := by
  unfold toMelody
  split
  · rename_i heq; exact heq.symm
  · exact copyMelody_reread m h

/-! ### the keyword arguments -/

/-- closed form of the value of a part: every note re-read -/
def rereadMelody (m : Melody) : Melody := m.map rereadNote

def rereadParts (ps : List (String × Melody)) : List (String × Melody) := ps.map (fun p => (p.1, rereadMelody p.2))

theorem evalMelody_codes (m : Melody) (hne : m ≠ [])
    (h : ∀ n ∈ m, InLibrary n ∧ Den n.dur ∧ n.tags.Nodup) :
    evalMelody (melodyCodes m) = .ok (rereadMelody m) := by
  have hm : (melodyCodes m).mapM evalCode = .ok (m.map rereadNote) := by
    unfold melodyCodes
    have := mapM_ok (fun n => evalCode (noteCode n)) rereadNote m
      (fun n hn => evalCode_noteCode n (h n hn).1 (h n hn).2.1 (h n hn).2.2)
    rw [← this]
    clear this h hne
    induction m with
    | nil => rfl
    | cons x xs ih => simp only [List.map_cons, List.mapM_cons, ih]
  cases m with
  | nil => exact absurd rfl hne
  | cons x xs => simpa [evalMelody, melodyCodes, rereadMelody] using hm

/-- a melody as it can stand in a chord: non-empty, every note in the library domain -/
def MelodyOK (m : Melody) : Prop := m ≠ [] ∧ ∀ n ∈ m, InLibrary n ∧ Den n.dur ∧ n.tags.Nodup

theorem evalParts_codes (ps : List (String × Melody)) (h : ∀ p ∈ ps, MelodyOK p.2) :
    evalParts (partCodes ps) = .ok (rereadParts ps) := by
  induction ps with
  | nil => rfl
  | cons p ps ih =>
      obtain ⟨k, m⟩ := p
      have hm := h (k, m) (by simp)
      have := ih (fun q hq => h q (by simp [hq]))
      simp only [partCodes, List.map_cons] at this ⊢
      simp only [evalParts, evalMelody_codes m hm.1 hm.2, bind, Except.bind]
      rw [this]
      rfl

/-- a drums part as `Chord.__call__` leaves it: drum notes, rests, continuations -/
def DrumKinds (m : Melody) : Prop := ∀ n ∈ m, n.kind = .d ∨ n.kind = .r ∨ n.kind = .l

theorem convertToDrum_reread (c : Chord) (n : Note) (hk : n.kind = .d ∨ n.kind = .r ∨ n.kind = .l) (hd : Den n.dur) :
    convertToDrum c (rereadNote n) = .ok (rereadNote n) := by
  unfold convertToDrum
  have : ((rereadNote n).kind = .d || (rereadNote n).kind = .r || (rereadNote n).kind = .l) = true := by
    rw [rereadNote_kind]; rcases hk with h | h | h <;> simp [h]
  simp only [this, ↓reduceIte, copy_reread n hd]

theorem drumMelody_reread (c : Chord) (m : Melody) (hne : m ≠ []) (hk : DrumKinds m) (hd : ∀ n ∈ m, Den n.dur) :
    drumMelody c (rereadMelody m) = .ok (rereadMelody m) := by
  cases m with
  | nil => exact absurd rfl hne
  | cons x xs =>
      have hx := convertToDrum_reread c x (hk x (by simp)) (hd x (by simp))
      have hxs : (xs.map rereadNote).mapM (convertToDrum c) = .ok (xs.map rereadNote) := by
        have := mapM_ok (convertToDrum c) id (xs.map rereadNote) (by
          intro y hy
          obtain ⟨z, hz, rfl⟩ := List.mem_map.mp hy
          exact convertToDrum_reread c z (hk z (by simp [hz])) (hd z (by simp [hz])))
        simpa using this
      simp only [rereadMelody, List.map_cons, drumMelody, hx, hxs, bind, Except.bind, pure, Except.pure,
        copy_reread x (hd x (by simp))]

/-- the part of the chord the evaluator's call keeps -/
def PartOK (p : String × Melody) : Prop :=
  MelodyOK p.2 ∧ ∃ drums, partKey p.1 = .ok (p.1, drums) ∧ (drums = true → DrumKinds p.2)

theorem dictSet_fresh (d : List (String × Melody)) (k : String) (v : Melody) (h : ∀ p ∈ d, p.1 ≠ k) :
    dictSet d k v = d ++ [(k, v)] := by
  unfold dictSet
  have : d.any (fun p => p.1 == k) = false := by
    rw [List.any_eq_false]
    intro p hp
    simpa using h p hp
  simp [this]

theorem preparse_reread (c : Chord) (ps acc : List (String × Melody))
    (h : ∀ p ∈ ps, PartOK p) (hnd : ((acc ++ ps).map Prod.fst).Nodup) :
    preparse c ((rereadParts ps).map (fun p => (p.1, toMelody p.2))) acc = .ok (acc ++ rereadParts ps) := by
  induction ps generalizing acc with
  | nil => simp [rereadParts, preparse]
  | cons p ps ih =>
      obtain ⟨k, m⟩ := p
      obtain ⟨hm, drums, hkey, hdr⟩ := h (k, m) (by simp)
      have hden : ∀ n ∈ m, Den n.dur := fun n hn => (hm.2 n hn).2.1
      have hfresh : ∀ q ∈ acc, q.1 ≠ k := by
        intro q hq hqk
        have hnd' := hnd
        simp only [List.map_append, List.map_cons] at hnd'
        have := (List.nodup_append.mp hnd').2.2 q.1 (List.mem_map_of_mem hq) k (by simp)
        exact this hqk
      have htm : toMelody (rereadMelody m) = rereadMelody m := toMelody_reread m hden
      have hnd2 : (((acc ++ [(k, rereadMelody m)]) ++ ps).map Prod.fst).Nodup := by
        simpa [List.map_append] using hnd
      have := ih (acc ++ [(k, rereadMelody m)]) (fun q hq => h q (by simp [hq])) hnd2
      simp only [rereadParts, List.map_cons, preparse, hkey, bind, Except.bind, htm]
      simp only [rereadParts] at this
      by_cases hd : drums = true
      · simp only [hd, ↓reduceIte, drumMelody_reread c m hm.1 (hdr hd) hden, dictSet_fresh acc k _ hfresh]
        rw [this]
        simp
      · simp only [hd, Bool.false_eq_true, ↓reduceIte, pure, Except.pure, dictSet_fresh acc k _ hfresh]
        rw [this]
        simp

/-! ### chord heads -/

theorem tonCopy_id (t : Tonality) : Eq.tonCopy t = t := rfl

theorem normalize_empty : ({} : Ext).normalize = {} := by simp [Ext.normalize, sortStrs]

/-- the extension `Element[...]` accepts: `extension_notes` can be computed (it does not depend on
the tonality, which the element does not have yet) -/
def ExtAccepted (elem : Int) (e : Ext) : Prop :=
  ∃ ns, ({ elem := elem, ext := e } : Chord).extensionNotes = .ok ns

theorem extAccepted_of_isOk (elem : Int) (e : Ext)
    (h : (({ elem := elem, ext := e } : Chord).extensionNotes).isOk = true) : ExtAccepted elem e := by
  unfold ExtAccepted
  cases hx : ({ elem := elem, ext := e } : Chord).extensionNotes with
  | ok ns => exact ⟨ns, rfl⟩
  | error err => simp [hx, Except.isOk, Except.toBool] at h

theorem withExt_accepted (elem : Int) (e : Ext) (h : ExtAccepted elem e) :
    ({ elem := elem } : Chord).withExt e = .ok { elem := elem, ext := e.normalize } := by
  obtain ⟨ns, hns⟩ := h
  unfold Chord.withExt
  simp only [hns, bind, Except.bind, pure, Except.pure]

/-! ### the closed form of a chord's round trip -/

/-- the extension after the round trip: the stored one (the empty text is read as the empty extension) -/
def rereadExt (c : Chord) : Ext :=
  match extCodeOf c with
  | some e => e
  | none => {}

theorem extCodeOf_some (c : Chord) (e : Ext) (h : extCodeOf c = some e) : e = c.ext.normalize := by
  unfold extCodeOf at h
  simp only [] at h
  split at h
  · simp at h
  · simpa using h.symm

theorem rereadExt_normalize (c : Chord) : (rereadExt c).normalize = rereadExt c := by
  unfold rereadExt
  cases h : extCodeOf c with
  | none => exact normalize_empty
  | some e => simp only []; rw [extCodeOf_some c e h]; exact Eq.normalize_idem _

theorem rereadExt_of_printed (c : Chord) (h2 : c.ext.normalize.toText ≠ "") :
    rereadExt c = c.ext.normalize := by
  unfold rereadExt extCodeOf
  simp [h2]

def rereadChord (c : Chord) : Chord :=
  { elem := c.elem, ext := rereadExt c, ton := c.ton, oct := c.oct, parts := rereadParts c.parts }

/-- the chords of the library domain: a degree `I` … `VII`, a tonality degree 0..11, an extension
that `Element[...]` accepts, parts the call keeps as they are (canonical names `name__index`, all
different; non-empty melodies of library notes; drums parts made of drum notes and rests) -/
structure ChordOK (c : Chord) : Prop where
  elem : 0 ≤ c.elem ∧ c.elem < 7
  deg : 0 ≤ c.ton.deg ∧ c.ton.deg < 12
  ext : ∀ e, extCodeOf c = some e → ExtAccepted c.elem e
  parts : ∀ p ∈ c.parts, PartOK p
  names : (c.parts.map Prod.fst).Nodup

theorem callChord_reread (h : Chord) (hp : h.parts = []) (hn : h.ext.normalize = h.ext) (ps : List (String × Melody))
    (hps : ∀ p ∈ ps, PartOK p) (hnd : (ps.map Prod.fst).Nodup) :
    callChord h (partCodes ps) = .ok { h with parts := rereadParts ps } := by
  unfold callChord
  have h1 := evalParts_codes ps (fun p hp => (hps p hp).1)
  have h2 := preparse_reread h ps [] hps (by simpa using hnd)
  simp only [h1, bind, Except.bind, h2, pure, Except.pure, copyHead, hn, tonCopy_id, List.nil_append]

theorem chordO_head (c : Chord) (hp : c.parts = []) (hn : c.ext.normalize = c.ext) (ho : c.oct = 0) (k : Int) :
    chordO c (chordOct k) = { c with oct := k } := by
  unfold chordO chordOct
  by_cases hk : k = 0
  · subst hk
    obtain ⟨elem, ext, ton, oct, parts⟩ := c
    simp only at ho; subst ho; simp
  · simp only [ne_eq, hk, not_false_eq_true, ↓reduceIte, copyChord, copyHead, hn, tonCopy_id, hp, List.map_nil, ho, zero_add]

/-- `eval(repr(chord))` in closed form -/
theorem chord_code_eval (c : Chord) (h : ChordOK c) :
    ∃ cc, chordCode c = .ok cc ∧ evalChord cc = .ok (rereadChord c) := by
  obtain ⟨sym, hsym, hel⟩ := element_code_eval c.elem h.elem.1 h.elem.2
  obtain ⟨tc, htc, hte⟩ := tonality_code_eval c.ton h.deg.1 h.deg.2
  refine ⟨{ sym := sym, ext := extCodeOf c, ton := tc, oct := chordOct c.oct, parts := partCodes c.parts }, ?_, ?_⟩
  · simp only [chordCode, hsym, htc, bind, Except.bind, pure, Except.pure]
  · -- the head
    have hc1 : elementExt c.elem (extCodeOf c) = .ok { elem := c.elem, ext := rereadExt c } := by
      cases he : extCodeOf c with
      | none => simp [elementExt, rereadExt, he]
      | some e =>
          simp only [elementExt, rereadExt, he]
          rw [withExt_accepted c.elem e (h.ext e he), extCodeOf_some c e he, Eq.normalize_idem]
    have hc2 : ({ copyChord ({ elem := c.elem, ext := rereadExt c } : Chord) with
          ton := { Eq.tonCopy c.ton with oct := c.ton.oct + ({ elem := c.elem, ext := rereadExt c } : Chord).oct }, oct := 0 } : Chord)
        = { elem := c.elem, ext := rereadExt c, ton := c.ton, oct := 0 } := by
      simp [copyChord, copyHead, rereadExt_normalize, tonCopy_id]
    have hhead : evalChordHead { sym := sym, ext := extCodeOf c, ton := tc, oct := chordOct c.oct, parts := partCodes c.parts }
        = .ok { elem := c.elem, ext := rereadExt c, ton := c.ton, oct := c.oct } := by
      unfold evalChordHead
      simp only [hel, bind, Except.bind, hc1, hte, pure, Except.pure]
      rw [hc2, chordO_head _ rfl (rereadExt_normalize c) rfl]
    unfold evalChord
    simp only [hhead, bind, Except.bind]
    rw [callChord_reread _ rfl (rereadExt_normalize c) c.parts h.parts h.names]
    rfl

end MV.Text
