/-
Lemmas for C11 (re-notations), note level: what `noteToPitch` reads of a chord, the kinds of
the chord-tone tables, stability of the chord tones under a chord octave change, round trip of
`Chord.parse`, and the pitch of each re-notated note.
-/
import MV.Model.Renotate
import MV.Props.C02
namespace MV
open Gen C02

/-! ### congruence: `noteToPitch` reads degree, figure, tonality and octave only -/


/-- same harmony and same figure: everything `noteToPitch` reads -/
def SameHead (c c' : Chord) : Prop := SameHarm c c' ∧ c.ext = c'.ext

theorem sameHead_withParts (c : Chord) (p : List (String × Melody)) : SameHead (c.withParts p) c :=
  ⟨⟨rfl, rfl, rfl⟩, rfl⟩

theorem chordNotes_congr (c c' : Chord) (h : SameHead c c') : c.chordNotes = c'.chordNotes := by
  unfold Chord.chordNotes; rw [h.2]; simp only [calc_congr c c' h.1]

theorem extensionNotes_congr (c c' : Chord) (h : SameHead c c') : c.extensionNotes = c'.extensionNotes := by
  unfold Chord.extensionNotes; rw [h.2]; simp only [calc_congr c c' h.1]

theorem chordPitches_congr (c c' : Chord) (h : SameHead c c') : c.chordPitches = c'.chordPitches := by
  unfold Chord.chordPitches; rw [chordNotes_congr c c' h, pitchesOf_congr c c' h.1]

theorem extensionPitches_congr (c c' : Chord) (h : SameHead c c') : c.extensionPitches = c'.extensionPitches := by
  unfold Chord.extensionPitches; rw [extensionNotes_congr c c' h, pitchesOf_congr c c' h.1]

theorem scalePitches_congr' (c c' : Chord) (h : SameHarm c c') : c.scalePitches = c'.scalePitches := by
  unfold Chord.scalePitches; rw [h.1, h.2.1, h.2.2]

theorem chromaticPitches_congr (c c' : Chord) (h : SameHarm c c') : c.chromaticPitches = c'.chromaticPitches := by
  unfold Chord.chromaticPitches; rw [scalePitches_congr' c c' h]

theorem noteToPitch_congr (c c' : Chord) (h : SameHead c c') (n : Note) (last : Int) :
    noteToPitch c n last = noteToPitch c' n last := by
  unfold noteToPitch
  simp only [basicPitch_congr c c' h.1, chordPitches_congr c c' h, extensionPitches_congr c c' h,
    chromaticPitches_congr c c' h.1, scalePitches_congr c c' h.1 n]

theorem toPitch_congr (c c' : Chord) (h : SameHead c c') (n : Note) (last : Option Int) :
    c.toPitch n last = c'.toPitch n last := by
  unfold Chord.toPitch
  simp only [noteToPitch_congr c c' h]

theorem parse_congr (c c' : Chord) (h : SameHarm c c') (p : Int) : c.parse p = c'.parse p := by
  unfold Chord.parse
  rw [scalePitches_congr' c c' h, chromaticPitches_congr c c' h]

/-! ### the chord-tone tables hold plain `s` / `h` notes -/


/-- a note of the chord-tone tables: plain `s` / `h` note without accidental or mode -/
def ToneOK (n : Note) : Prop := (n.kind = .s ∨ n.kind = .h) ∧ n.acc = none ∧ n.mode = none

instance (n : Note) : Decidable (ToneOK n) := by unfold ToneOK; exact inferInstance

theorem toneOK_o (n : Note) (k : Int) (h : ToneOK n) : ToneOK (n.o k) := by
  unfold Note.o Note.oabs; split <;> exact h

theorem base_table_tones (f : Fig) (l : List Note) (h : BASE_EXTENSION_DICT f = some l) : ∀ n ∈ l, ToneOK n := by
  have : ∀ f, ((BASE_EXTENSION_DICT f).getD []).all (fun n => decide (ToneOK n)) = true := by
    intro f; cases f <;> decide
  have := this f
  rw [h] at this
  simpa using this

theorem replacement_table_tones : ∀ e ∈ DICT_REPLACEMENT, ToneOK e.2.2 := by decide
theorem addition_table_tones : ∀ e ∈ DICT_ADDITION, ToneOK e.2.2 := by decide

theorem lookupKey_mem {κ ν : Type} [BEq κ] [LawfulBEq κ] (k : κ) (l : List (κ × ν)) (v : ν)
    (h : lookupKey k l = .ok v) : (k, v) ∈ l := by
  unfold lookupKey at h
  split at h
  · rename_i v' hv
    injection h with h; subst h
    obtain ⟨l1, l2, rfl, _⟩ := List.lookup_eq_some_iff.mp hv
    simp
  · cases h

def StateOK (st : CalcState) : Prop := ∀ n ∈ st.notes, ToneOK n

theorem calcReplacements_ok (rs : List String) (st : CalcState) (adds : List String) (st' : CalcState)
    (adds' : List String) (hst : StateOK st) (h : calcReplacements rs st adds = .ok (st', adds')) : StateOK st' := by
  induction rs generalizing st adds with
  | nil => simp only [calcReplacements] at h; injection h with h; injection h with h1 h2; subst h1; exact hst
  | cons r rs ih =>
    simp only [calcReplacements, bind, Except.bind] at h
    split at h
    · cases h
    · rename_i v hv
      obtain ⟨a, b⟩ := v
      simp only at h
      split at h
      · exact ih st _ hst h
      · rename_i idx hidx
        refine ih _ _ ?_ h
        intro n hn
        simp only at hn
        rcases List.mem_or_eq_of_mem_set hn with h1 | h1
        · exact hst n h1
        · rw [h1]; exact toneOK_o _ _ (replacement_table_tones _ (lookupKey_mem _ _ _ hv))

theorem calcAdditions_ok (as : List String) (st st' : CalcState) (hst : StateOK st)
    (h : calcAdditions as st = .ok st') : StateOK st' := by
  induction as generalizing st with
  | nil => simp only [calcAdditions] at h; injection h with h; subst h; exact hst
  | cons a as ih =>
    simp only [calcAdditions, bind, Except.bind] at h
    split at h
    · cases h
    · rename_i v hv
      obtain ⟨x, y⟩ := v
      simp only at h
      split at h
      · cases h
      · rename_i idx hidx
        refine ih _ ?_ h
        intro n hn
        simp only at hn
        by_cases hle : idx + 1 ≤ st.notes.length
        · rcases (List.mem_insertIdx hle).mp hn with h1 | h1
          · rw [h1]; exact toneOK_o _ _ (addition_table_tones _ (lookupKey_mem _ _ _ hv))
          · exact hst n h1
        · rw [List.insertIdx_of_length_lt (by omega)] at hn; exact hst n hn

theorem calcRemovals_ok (rs : List String) (st st' : CalcState) (hst : StateOK st)
    (h : calcRemovals rs st = .ok st') : StateOK st' := by
  induction rs generalizing st with
  | nil => simp only [calcRemovals] at h; injection h with h; subst h; exact hst
  | cons a as ih =>
    simp only [calcRemovals, bind, Except.bind] at h
    split at h
    · cases h
    · split at h
      · cases h
      · refine ih _ ?_ h
        intro n hn
        exact hst n (List.mem_of_mem_eraseIdx hn)

/-! ### stable sort and keys -/


theorem mem_insertFrontK {α : Type} (k : α → Int) (x y : α) (l : List α) :
    y ∈ sortByKey.insertFront k x l ↔ y = x ∨ y ∈ l := by
  induction l with
  | nil => simp [sortByKey.insertFront]
  | cons a t ih =>
    unfold sortByKey.insertFront
    split
    · simp
    · simp only [List.mem_cons, ih]
      constructor
      · rintro (h | h | h) <;> simp [h]
      · rintro (h | h | h) <;> simp [h]

theorem mem_sortByKey {α : Type} (k : α → Int) (y : α) (l : List α) : y ∈ sortByKey k l ↔ y ∈ l := by
  induction l with
  | nil => simp [sortByKey]
  | cons a t ih =>
    have : sortByKey k (a :: t) = sortByKey.insertFront k a (sortByKey k t) := by
      unfold sortByKey; rfl
    rw [this, mem_insertFrontK, ih]; simp

theorem insertFront_congr {α : Type} (k1 k2 : α → Int) (x : α) (l : List α)
    (h : ∀ y ∈ l, (k1 x ≤ k1 y ↔ k2 x ≤ k2 y)) :
    sortByKey.insertFront k1 x l = sortByKey.insertFront k2 x l := by
  induction l with
  | nil => rfl
  | cons a t ih =>
    unfold sortByKey.insertFront
    have ha := h a (by simp)
    by_cases h1 : k1 x ≤ k1 a
    · simp [h1, ha.mp h1]
    · have h2 : ¬ k2 x ≤ k2 a := fun hh => h1 (ha.mpr hh)
      simp only [h1, h2, if_false]
      rw [ih (fun y hy => h y (by simp [hy]))]

theorem sortByKey_congr {α : Type} (k1 k2 : α → Int) (l : List α)
    (h : ∀ x ∈ l, ∀ y ∈ l, (k1 x ≤ k1 y ↔ k2 x ≤ k2 y)) : sortByKey k1 l = sortByKey k2 l := by
  induction l with
  | nil => rfl
  | cons a t ih =>
    have e1 : sortByKey k1 (a :: t) = sortByKey.insertFront k1 a (sortByKey k1 t) := by unfold sortByKey; rfl
    have e2 : sortByKey k2 (a :: t) = sortByKey.insertFront k2 a (sortByKey k2 t) := by unfold sortByKey; rfl
    rw [e1, e2, ih (fun x hx y hy => h x (by simp [hx]) y (by simp [hy]))]
    apply insertFront_congr
    intro y hy
    rw [mem_sortByKey] at hy
    exact h a (by simp) y (by simp [hy])

/-! ### the chord-independent part of `_chord_notes_calc` -/
/-- the chord-independent part of `_chord_notes_calc`: the notes before the final sort -/
def calcNotes (fig : Fig) (repl add rem : List String) : Res (List Note) := do
  let base ← match BASE_EXTENSION_DICT fig with
    | some l => pure l
    | none => .error .key
  let st0 : CalcState := { notes := base, nwo := base.map noOct }
  let (st1, adds) ← calcReplacements repl st0 add
  let st2 ← calcAdditions adds st1
  let st3 ← calcRemovals rem st2
  pure st3.notes

/-- the chord-dependent end of `_chord_notes_calc`: keys evaluated, then the stable sort -/
def sortTones (c : Chord) (ns : List Note) : Res (List Note) := do
  let _ ← ns.mapM (reqPitch c)
  pure (sortByKey (pitchKey c) ns)

theorem chordNotesCalc_eq (c : Chord) (fig : Fig) (r a m : List String) :
    c.chordNotesCalc fig r a m = (calcNotes fig r a m).bind (sortTones c) := by
  unfold Chord.chordNotesCalc calcNotes sortTones
  cases BASE_EXTENSION_DICT fig with
  | none => rfl
  | some base =>
    simp only [bind, Except.bind, pure, Except.pure]
    cases calcReplacements r { notes := base, nwo := base.map noOct } a with
    | error e => rfl
    | ok v =>
      obtain ⟨st1, adds⟩ := v
      simp only
      cases calcAdditions adds st1 with
      | error e => rfl
      | ok st2 =>
        simp only
        cases calcRemovals m st2 with
        | error e => rfl
        | ok st3 => rfl

theorem calcNotes_tones (fig : Fig) (r a m : List String) (ns : List Note)
    (h : calcNotes fig r a m = .ok ns) : ∀ n ∈ ns, ToneOK n := by
  unfold calcNotes at h
  cases hb : BASE_EXTENSION_DICT fig with
  | none => rw [hb] at h; cases h
  | some base =>
    rw [hb] at h
    simp only [bind, Except.bind, pure, Except.pure] at h
    have h0 : StateOK { notes := base, nwo := base.map noOct } := base_table_tones fig base hb
    cases h1 : calcReplacements r { notes := base, nwo := base.map noOct } a with
    | error e => rw [h1] at h; cases h
    | ok v =>
      obtain ⟨st1, adds⟩ := v
      rw [h1] at h
      simp only at h
      have hs1 := calcReplacements_ok _ _ _ _ _ h0 h1
      cases h2 : calcAdditions adds st1 with
      | error e => rw [h2] at h; cases h
      | ok st2 =>
        rw [h2] at h
        simp only at h
        have hs2 := calcAdditions_ok _ _ _ hs1 h2
        cases h3 : calcRemovals m st2 with
        | error e => rw [h3] at h; cases h
        | ok st3 =>
          rw [h3] at h
          simp only at h
          injection h with h; subst h
          exact calcRemovals_ok _ _ _ hs2 h3

theorem sortTones_mem (c : Chord) (ns l : List Note) (h : sortTones c ns = .ok l) (n : Note) : n ∈ l ↔ n ∈ ns := by
  unfold sortTones at h
  simp only [bind, Except.bind, pure, Except.pure] at h
  split at h
  · cases h
  · injection h with h; subst h; exact mem_sortByKey _ _ _

theorem chordNotesCalc_tones (c : Chord) (fig : Fig) (r a m : List String) (l : List Note)
    (h : c.chordNotesCalc fig r a m = .ok l) : ∀ n ∈ l, ToneOK n := by
  rw [chordNotesCalc_eq] at h
  cases hc : calcNotes fig r a m with
  | error e => rw [hc] at h; cases h
  | ok ns =>
    rw [hc] at h
    intro n hn
    exact calcNotes_tones _ _ _ _ _ hc n ((sortTones_mem c ns l h n).mp hn)

theorem chordNotes_tones (c : Chord) (l : List Note) (h : c.chordNotes = .ok l) : ∀ n ∈ l, ToneOK n := by
  unfold Chord.chordNotes at h; exact chordNotesCalc_tones _ _ _ _ _ _ h

theorem extensionNotes_tones (c : Chord) (l : List Note) (h : c.extensionNotes = .ok l) : ∀ n ∈ l, ToneOK n := by
  unfold Chord.extensionNotes at h; exact chordNotesCalc_tones _ _ _ _ _ _ h


/-! ### a chord octave change moves every chord tone by exactly 12 per octave -/
def ElemOK (c : Chord) : Prop := 0 ≤ c.elem ∧ c.elem < 7

theorem noteToPitch_basic (c : Chord) (n : Note) (last : Int) (hk : n.kind = .s ∨ n.kind = .h) :
    noteToPitch c n last = basicPitch c n := by
  unfold noteToPitch; rcases hk with h | h <;> simp only [h]

theorem basicPitch_o (c : Chord) (k : Int) (n : Note) (hk : n.kind = .s ∨ n.kind = .h) (he : ElemOK c) :
    basicPitch (c.o k) n = C01.shift k (basicPitch c n) := by
  have := ((C01.chord_octave_12 c n k 0 he).1 hk).1
  rwa [noteToPitch_basic _ _ _ hk, noteToPitch_basic _ _ _ hk] at this

theorem basicPitch_tone_ne_none (c : Chord) (n : Note) (hk : n.kind = .s ∨ n.kind = .h) :
    basicPitch c n ≠ .ok none := by
  unfold basicPitch
  rcases hk with h | h
  · simp only [h]
    cases n.acc with
    | none =>
      simp only [bind, Except.bind, pure, Except.pure]
      cases valueToScale (n.val + 7 * n.oct) (n.realChord c).scalePitches <;> simp
    | some a =>
      simp only [bind, Except.bind, pure, Except.pure]
      cases withAccident n a (n.realChord c) <;> simp
  · simp only [h, bind, Except.bind, pure, Except.pure]
    cases pyIndex (n.realChord c).scalePitches 0 with
    | error e => simp
    | ok root =>
      simp only
      cases valueToScale (n.val + 12 * n.oct) (List.map (fun (i : Nat) => root + Int.ofNat i) (List.range 12)) <;> simp

/-- `Except.map` on results -/
def rmap {α β : Type} (f : α → β) : Res α → Res β
  | .ok x => .ok (f x)
  | .error e => .error e

theorem reqPitch_o (c : Chord) (k : Int) (n : Note) (hn : ToneOK n) (he : ElemOK c) :
    reqPitch (c.o k) n = rmap (· + 12 * k) (reqPitch c n) := by
  unfold reqPitch
  rw [basicPitch_o c k n hn.1 he]
  have hne := basicPitch_tone_ne_none c n hn.1
  cases hb : basicPitch c n with
  | error e => rfl
  | ok v =>
    cases v with
    | none => exact absurd hb hne
    | some p => rfl

theorem pitchKey_o (c : Chord) (k : Int) (n : Note) (hn : ToneOK n) (he : ElemOK c) (p : Int)
    (hp : reqPitch c n = .ok p) : pitchKey (c.o k) n = p + 12 * k ∧ pitchKey c n = p := by
  unfold pitchKey
  rw [basicPitch_o c k n hn.1 he]
  unfold reqPitch at hp
  cases hb : basicPitch c n with
  | error e => rw [hb] at hp; cases hp
  | ok v =>
    rw [hb] at hp
    cases v with
    | none => cases hp
    | some q =>
      simp only [bind, Except.bind, pure, Except.pure] at hp
      injection hp with hp; subst hp
      exact ⟨rfl, rfl⟩

theorem mapM_forall_ok {α β : Type} (f : α → Res β) (l : List α) (ps : List β) (h : l.mapM f = .ok ps) :
    ∀ x ∈ l, ∃ p, f x = .ok p := by
  induction l generalizing ps with
  | nil => intro x hx; cases hx
  | cons a t ih =>
    simp only [List.mapM_cons, bind, Except.bind, pure, Except.pure] at h
    cases ha : f a with
    | error e => rw [ha] at h; cases h
    | ok p =>
      rw [ha] at h
      simp only at h
      cases ht : t.mapM f with
      | error e => rw [ht] at h; cases h
      | ok ps' =>
        intro x hx
        rcases List.mem_cons.mp hx with rfl | hx
        · exact ⟨p, ha⟩
        · exact ih ps' ht x hx

theorem mapM_rmap {α β : Type} (f g : α → Res β) (φ : β → β) (l : List α)
    (h : ∀ x ∈ l, g x = rmap φ (f x)) : l.mapM g = rmap (List.map φ) (l.mapM f) := by
  induction l with
  | nil => rfl
  | cons a t ih =>
    simp only [List.mapM_cons, bind, Except.bind, pure, Except.pure]
    rw [h a (by simp), ih (fun x hx => h x (by simp [hx]))]
    cases f a with
    | error e => rfl
    | ok p =>
      simp only [rmap]
      cases t.mapM f with
      | error e => rfl
      | ok ps => rfl

theorem pitchesOf_o (c : Chord) (k : Int) (ns : List Note) (hn : ∀ n ∈ ns, ToneOK n) (he : ElemOK c) :
    pitchesOf (c.o k) ns = rmap (List.map (· + 12 * k)) (pitchesOf c ns) := by
  unfold pitchesOf
  exact mapM_rmap _ _ _ _ (fun n h => reqPitch_o c k n (hn n h) he)

theorem sortTones_o (c : Chord) (k : Int) (ns : List Note) (hn : ∀ n ∈ ns, ToneOK n) (he : ElemOK c) :
    sortTones (c.o k) ns = sortTones c ns := by
  unfold sortTones
  have hm := mapM_rmap (reqPitch c) (reqPitch (c.o k)) (· + 12 * k) ns (fun n h => reqPitch_o c k n (hn n h) he)
  rw [hm]
  cases hps : ns.mapM (reqPitch c) with
  | error e => rfl
  | ok ps =>
    simp only [rmap, bind, Except.bind, pure, Except.pure]
    congr 1
    apply sortByKey_congr
    intro x hx y hy
    obtain ⟨px, hpx⟩ := mapM_forall_ok _ _ _ hps x hx
    obtain ⟨py, hpy⟩ := mapM_forall_ok _ _ _ hps y hy
    rw [(pitchKey_o c k x (hn x hx) he px hpx).1, (pitchKey_o c k y (hn y hy) he py hpy).1,
      (pitchKey_o c k x (hn x hx) he px hpx).2, (pitchKey_o c k y (hn y hy) he py hpy).2]
    omega

theorem chordNotesCalc_o (c : Chord) (k : Int) (fig : Fig) (r a m : List String) (he : ElemOK c) :
    (c.o k).chordNotesCalc fig r a m = c.chordNotesCalc fig r a m := by
  rw [chordNotesCalc_eq, chordNotesCalc_eq]
  cases hc : calcNotes fig r a m with
  | error e => rfl
  | ok ns => exact sortTones_o c k ns (calcNotes_tones _ _ _ _ _ hc) he

theorem chordNotes_o (c : Chord) (k : Int) (he : ElemOK c) : (c.o k).chordNotes = c.chordNotes := by
  unfold Chord.chordNotes; exact chordNotesCalc_o c k _ _ _ _ he

theorem extensionNotes_o (c : Chord) (k : Int) (he : ElemOK c) : (c.o k).extensionNotes = c.extensionNotes := by
  unfold Chord.extensionNotes; exact chordNotesCalc_o c k _ _ _ _ he

theorem chordPitches_o (c : Chord) (k : Int) (he : ElemOK c) :
    (c.o k).chordPitches = rmap (List.map (· + 12 * k)) c.chordPitches := by
  unfold Chord.chordPitches
  rw [chordNotes_o c k he]
  cases h : c.chordNotes with
  | error e => rfl
  | ok l => simp only [bind, Except.bind]; exact pitchesOf_o c k l (chordNotes_tones c l h) he

theorem extensionPitches_o (c : Chord) (k : Int) (he : ElemOK c) :
    (c.o k).extensionPitches = rmap (List.map (· + 12 * k)) c.extensionPitches := by
  unfold Chord.extensionPitches
  rw [extensionNotes_o c k he]
  cases h : c.extensionNotes with
  | error e => rfl
  | ok l => simp only [bind, Except.bind]; exact pitchesOf_o c k l (extensionNotes_tones c l h) he


/-! ### octave correction at note level -/
theorem scalePitches_o (c : Chord) (k : Int) : (c.o k).scalePitches = c.scalePitches.map (· + 12 * k) := by
  unfold Chord.scalePitches Chord.o
  simp only [List.map_map]
  apply List.map_congr_left
  intro x _
  simp only [Function.comp]
  omega

theorem realChord_o (n : Note) (c : Chord) (k : Int) : n.realChord (c.o k) = (n.realChord c).o k := by
  unfold Note.realChord Chord.o; cases n.mode <;> rfl

theorem pyIndex_map {α β : Type} (f : α → β) (l : List α) (i : Int) :
    pyIndex (l.map f) i = rmap f (pyIndex l i) := by
  unfold pyIndex
  simp only [List.length_map, List.getElem?_map]
  generalize (if i < 0 then i + (l.length : Int) else i) = j
  by_cases hj : j < 0 ∨ j ≥ (l.length : Int)
  · simp only [hj, if_true]; rfl
  · simp only [hj, if_false]
    cases l[j.toNat]? <;> rfl

theorem valueToScale_shift (l : List Int) (v j d : Int) :
    valueToScale (v + (l.length : Int) * j) (l.map (· + d)) = rmap (· + d + 12 * j) (valueToScale v l) := by
  unfold valueToScale
  simp only [List.length_map]
  by_cases h0 : l.length = 0
  · simp [h0, rmap]
  · simp only [h0, if_false]
    have hp : (l.length : Int) ≠ 0 := by omega
    rw [Int.add_mul_emod_self_left, Int.add_mul_ediv_left _ _ hp, pyIndex_map]
    cases pyIndex l (v % (l.length : Int)) with
    | error e => rfl
    | ok x => simp only [rmap, bind, Except.bind, pure, Except.pure]; congr 1; omega

theorem chromaticPitches_o (c : Chord) (k : Int) :
    (c.o k).chromaticPitches = rmap (List.map (· + 12 * k)) c.chromaticPitches := by
  unfold Chord.chromaticPitches
  rw [scalePitches_o, pyIndex_map]
  cases pyIndex c.scalePitches 0 with
  | error e => rfl
  | ok root =>
    simp only [rmap, bind, Except.bind, pure, Except.pure, List.map_map]
    congr 1
    apply List.map_congr_left
    intro i _
    simp only [Function.comp]; omega

theorem relValue_shift (isDown : Bool) (val oct last k : Int) (scale : List Int) :
    Rel.relValue isDown val oct last (scale.map (· + 12 * k)) = Rel.relValue isDown val oct last scale := by
  unfold Rel.relValue
  have : (scale.map (· + 12 * k)).map (· % 12) = scale.map (· % 12) := by
    simp only [List.map_map]
    apply List.map_congr_left
    intro x _
    simp only [Function.comp]; omega
  rw [this]

theorem shift_shift (k j : Int) (r : Res (Option Int)) (h : k + j = 0) : C01.shift k (C01.shift j r) = r := by
  cases r with
  | error e => rfl
  | ok v =>
    cases v with
    | none => rfl
    | some p => simp only [C01.shift]; congr 2; have : 12 * j + 12 * k = 0 := by omega
                omega

/-- the melody-side compensation of `_o_chord_relative_notes` -/
def shiftNote (n : Note) (k : Int) : Note := if n.kind == .a then n else n.o k

theorem o_kind (n : Note) (k : Int) : (n.o k).kind = n.kind := by
  unfold Note.o Note.oabs; split <;> rfl

theorem o_relative (n : Note) (k : Int) (h : n.kind.isRelative = true) : n.o k = n := by
  unfold Note.o; cases hk : n.kind <;> simp_all [Kind.isRelative]

/-- **octave correction, note level**: lowering the chord by `k` octaves and raising every
note that is written relatively to the chord by `k` octaves leaves every pitch where it was
(all seventeen kinds, any last pitch) -/
theorem noteToPitch_octaveShift (c : Chord) (n : Note) (k last : Int) (he : ElemOK c) :
    noteToPitch (c.o (-k)) (shiftNote n k) last = noteToPitch c n last := by
  have he' : ElemOK (c.o (-k)) := he
  unfold shiftNote
  cases hk : n.kind with
  | a =>
    simp only [beq_self_eq_true, if_true]
    exact (C01.chord_octave_12 c n (-k) last he).2 hk
  | s =>
    simp only [reduceCtorEq, beq_iff_eq, if_false]
    have hk' : (n.o k).kind = .s := by rw [o_kind]; exact hk
    rw [((C01.chord_octave_12 c (n.o k) (-k) last he).1 (Or.inl hk')).1,
      C01.note_octave_12 c n k last (Or.inl hk) he]
    exact shift_shift _ _ _ (by omega)
  | h =>
    simp only [reduceCtorEq, beq_iff_eq, if_false]
    have hk' : (n.o k).kind = .h := by rw [o_kind]; exact hk
    rw [((C01.chord_octave_12 c (n.o k) (-k) last he).1 (Or.inr hk')).1,
      C01.note_octave_12 c n k last (Or.inr (Or.inl hk)) he]
    exact shift_shift _ _ _ (by omega)
  | d =>
    simp only [reduceCtorEq, beq_iff_eq, if_false]
    have : n.o k = n := by unfold Note.o; simp [hk]
    rw [this, C01.pitch_drum _ n last hk, C01.pitch_drum _ n last hk]
  | r =>
    simp only [reduceCtorEq, beq_iff_eq, if_false]
    rw [C01.pitch_none _ _ last (Or.inl (by rw [o_kind]; exact hk)), C01.pitch_none _ _ last (Or.inl hk)]
  | l =>
    simp only [reduceCtorEq, beq_iff_eq, if_false]
    rw [C01.pitch_none _ _ last (Or.inr (Or.inl (by rw [o_kind]; exact hk))), C01.pitch_none _ _ last (Or.inr (Or.inl hk))]
  | x =>
    simp only [reduceCtorEq, beq_iff_eq, if_false]
    rw [C01.pitch_none _ _ last (Or.inr (Or.inr (by rw [o_kind]; exact hk))), C01.pitch_none _ _ last (Or.inr (Or.inr hk))]
  | c =>
    simp only [reduceCtorEq, beq_iff_eq, if_false]
    have hv : (n.o k).val = n.val ∧ (n.o k).oct = n.oct + k ∧ (n.o k).kind = .c := by
      unfold Note.o Note.oabs; simp [hk]
    unfold noteToPitch
    simp only [hv.2.2, hk, hv.1, hv.2.1]
    rw [chordPitches_o c (-k) he]
    cases c.chordPitches with
    | error e => rfl
    | ok sc =>
      simp only [rmap, bind, Except.bind, pure, Except.pure, List.length_map]
      have := valueToScale_shift sc (n.val + (sc.length : Int) * n.oct) k (12 * -k)
      have e1 : n.val + (sc.length : Int) * (n.oct + k) = n.val + (sc.length : Int) * n.oct + (sc.length : Int) * k := by
        rw [Int.mul_add]; omega
      rw [e1, this]
      cases valueToScale (n.val + (sc.length : Int) * n.oct) sc with
      | error e => rfl
      | ok p => simp only [rmap]; congr 2; omega
  | b =>
    simp only [reduceCtorEq, beq_iff_eq, if_false]
    have hv : (n.o k).val = n.val ∧ (n.o k).oct = n.oct + k ∧ (n.o k).kind = .b := by
      unfold Note.o Note.oabs; simp [hk]
    unfold noteToPitch
    simp only [hv.2.2, hk, hv.1, hv.2.1]
    rw [extensionPitches_o c (-k) he]
    cases c.extensionPitches with
    | error e => rfl
    | ok sc =>
      simp only [rmap, bind, Except.bind, pure, Except.pure, List.length_map]
      have := valueToScale_shift sc (n.val + (sc.length : Int) * n.oct) k (12 * -k)
      have e1 : n.val + (sc.length : Int) * (n.oct + k) = n.val + (sc.length : Int) * n.oct + (sc.length : Int) * k := by
        rw [Int.mul_add]; omega
      rw [e1, this]
      cases valueToScale (n.val + (sc.length : Int) * n.oct) sc with
      | error e => rfl
      | ok p => simp only [rmap]; congr 2; omega
  | su | sd =>
    simp only [reduceCtorEq, beq_iff_eq, if_false]
    rw [o_relative n k (by rw [hk]; rfl)]
    unfold noteToPitch
    simp only [hk, realChord_o, scalePitches_o, relValue_shift]
  | cu | cd =>
    simp only [reduceCtorEq, beq_iff_eq, if_false]
    rw [o_relative n k (by rw [hk]; rfl)]
    unfold noteToPitch
    simp only [hk]
    rw [chordPitches_o c (-k) he]
    cases c.chordPitches with
    | error e => rfl
    | ok sc => simp only [rmap, bind, Except.bind, relValue_shift]
  | bu | bd =>
    simp only [reduceCtorEq, beq_iff_eq, if_false]
    rw [o_relative n k (by rw [hk]; rfl)]
    unfold noteToPitch
    simp only [hk]
    rw [extensionPitches_o c (-k) he]
    cases c.extensionPitches with
    | error e => rfl
    | ok sc => simp only [rmap, bind, Except.bind, relValue_shift]
  | hu | hd =>
    simp only [reduceCtorEq, beq_iff_eq, if_false]
    rw [o_relative n k (by rw [hk]; rfl)]
    unfold noteToPitch
    simp only [hk]
    rw [chromaticPitches_o c (-k)]
    cases c.chromaticPitches with
    | error e => rfl
    | ok sc => simp only [rmap, bind, Except.bind, relValue_shift]

/-! ### round trip of `Chord.parse` -/
/-- the chord scale stays within one octave above its first entry -/
theorem scalePitches_window (c : Chord) (he : ElemOK c) (i : Nat) (hi : i < 7) :
    c.scalePitches.getD 0 0 ≤ c.scalePitches.getD i 0 ∧ c.scalePitches.getD i 0 < c.scalePitches.getD 0 0 + 12 := by
  have hL := C01.scales_len c.ton.mode
  have hok := C01.scales_ok c.ton.mode
  rw [scalePitches_getD c i hL he hi, scalePitches_getD c 0 hL he (by omega)]
  have h7 := C01.degSemitone_octave (SCALES c.ton.mode) c.elem.toNat
  have hlt := degSemitone_strictMono _ hok (c.elem.toNat + i) (c.elem.toNat + 7) (by omega)
  simp only [Nat.add_zero]
  by_cases h0 : i = 0
  · subst h0; simp only [Nat.add_zero]; omega
  · have hgt := degSemitone_strictMono _ hok (c.elem.toNat) (c.elem.toNat + i) (by omega)
    omega

theorem realChord_nomode (n : Note) (c : Chord) (h : n.mode = none) : n.realChord c = c := by
  unfold Note.realChord; rw [h]

/-- **round trip of `Chord.parse`**: every pitch is re-notated as a plain `s` / `h` note of the
chord that sounds exactly that pitch -/
theorem parse_roundtrip (c : Chord) (p last : Int) (he : ElemOK c) :
    ∃ b, c.parse p = .ok b ∧ (b.kind = .s ∨ b.kind = .h) ∧ b.mode = none ∧ b.acc = none ∧
      noteToPitch c b last = .ok (some p) := by
  have hlen : c.scalePitches.length = 7 := scalePitches_length c (C01.scales_len _) he
  have hs0 : pyIndex c.scalePitches 0 = .ok (c.scalePitches.getD 0 0) :=
    pyIndex_nonneg _ 0 0 (by omega) (by omega)
  unfold Chord.parse
  by_cases hin : ((c.scalePitches.map (· % 12)).contains (p % 12)) = true
  · simp only [hin, if_true, bind, Except.bind, pure, Except.pure, hs0]
    cases hf : List.findIdx? (fun x => x == p % 12) (c.scalePitches.map (· % 12)) with
    | none =>
      rw [List.findIdx?_eq_none_iff] at hf
      have := List.contains_iff_mem.mp hin
      have := hf _ this
      simp at this
    | some idx =>
      obtain ⟨hlt, hp, _⟩ := List.findIdx?_eq_some_iff_getElem.mp hf
      simp only [List.length_map] at hlt
      simp only [List.getElem_map, beq_iff_eq] at hp
      refine ⟨_, rfl, Or.inl rfl, rfl, rfl, ?_⟩
      unfold noteToPitch basicPitch
      simp only [Note.realChord, bind, Except.bind, pure, Except.pure]
      rw [valueToScale_seven _ _ hlen]
      have hi7 : idx < 7 := by omega
      have hw := scalePitches_window c he idx hi7
      have hg : c.scalePitches.getD idx 0 = c.scalePitches[idx] := by
        simp [List.getD_eq_getElem?_getD, List.getElem?_eq_getElem hlt]
      have e1 : ((Int.ofNat idx + 7 * ((p - c.scalePitches.getD 0 0) / 12)) % 7).toNat = idx := by
        have : (Int.ofNat idx : Int) = (idx : Int) := rfl
        omega
      have e2 : (Int.ofNat idx + 7 * ((p - c.scalePitches.getD 0 0) / 12)) / 7 = (p - c.scalePitches.getD 0 0) / 12 := by
        have : (Int.ofNat idx : Int) = (idx : Int) := rfl
        omega
      rw [e1, e2]
      have hp' : c.scalePitches.getD idx 0 % 12 = p % 12 := by rw [hg]; exact hp
      generalize c.scalePitches.getD idx 0 = x at hw hp' ⊢
      generalize c.scalePitches.getD 0 0 = s0 at hw ⊢
      have : x + 12 * ((p - s0) / 12) = p := by omega
      rw [this]
  · have hin' : ((c.scalePitches.map (· % 12)).contains (p % 12)) = false := Bool.eq_false_iff.mpr hin
    unfold Chord.chromaticPitches
    simp only [hin', Bool.false_eq_true, if_false, bind, Except.bind, pure, Except.pure, hs0]
    generalize hroot : c.scalePitches.getD 0 0 = root
    have hidx : pyIndex (List.map (fun (i : Nat) => root + Int.ofNat i) (List.range 12)) 0 = .ok root := by
      rw [pyIndex_nonneg _ 0 0 (by omega) (by simp)]
      simp
    simp only [hidx]
    cases hf : List.findIdx? (fun x => x == p % 12)
        ((List.map (fun (i : Nat) => root + Int.ofNat i) (List.range 12)).map (· % 12)) with
    | none =>
      rw [List.findIdx?_eq_none_iff] at hf
      have hmem : p % 12 ∈ (List.map (fun (i : Nat) => root + Int.ofNat i) (List.range 12)).map (· % 12) := by
        simp only [List.map_map, List.mem_map, List.mem_range, Function.comp]
        refine ⟨((p - root) % 12).toNat, by omega, ?_⟩
        have : Int.ofNat ((p - root) % 12).toNat = (p - root) % 12 := by
          show ((((p - root) % 12).toNat : Nat) : Int) = _
          omega
        rw [this]; omega
      have := hf _ hmem
      simp at this
    | some idx =>
      obtain ⟨hlt, hp, _⟩ := List.findIdx?_eq_some_iff_getElem.mp hf
      simp only [List.length_map, List.length_range] at hlt
      simp only [List.getElem_map, List.getElem_range, beq_iff_eq] at hp
      refine ⟨_, rfl, Or.inr rfl, rfl, rfl, ?_⟩
      rw [C01.pitch_chromatic c _ last rfl he]
      have hr : C01.rootPitch c { kind := .h, val := Int.ofNat idx, oct := (p - root) / 12, dur := 1 } = root := by
        have h1 := C01.real_root c { kind := .h, val := Int.ofNat idx, oct := (p - root) / 12, dur := 1 } he
        simp only [Note.realChord] at h1
        rw [hs0, hroot] at h1
        injection h1 with h1; exact h1.symm
      rw [hr]
      congr 2
      have : (Int.ofNat idx : Int) = (idx : Int) := rfl
      simp only
      omega

/-! ### sounding kinds always have a pitch -/
theorem noteToPitch_last_irrelevant (c : Chord) (n : Note) (a b : Int) (h : n.kind.isRelative = false) :
    noteToPitch c n a = noteToPitch c n b := by
  unfold noteToPitch
  cases hk : n.kind <;> simp_all [Kind.isRelative]

theorem basicPitch_abs_ne_none (c : Chord) (n : Note) (hk : n.kind = .a ∨ n.kind = .d) :
    basicPitch c n ≠ .ok none := by
  unfold basicPitch
  rcases hk with h | h <;>
  · simp only [h, bind, Except.bind, pure, Except.pure]
    cases valueToScale (n.val + 12 * n.oct) (List.map Int.ofNat (List.range 12)) <;> simp

/-- a sounding kind never evaluates to "no pitch" -/
theorem noteToPitch_isNote_some (c : Chord) (n : Note) (last : Int) (v : Option Int) (hn : n.kind.isNote = true)
    (h : noteToPitch c n last = .ok v) : ∃ p, v = some p := by
  cases v with
  | some p => exact ⟨p, rfl⟩
  | none =>
    exfalso
    unfold noteToPitch at h
    cases hk : n.kind <;> rw [hk] at h hn <;> simp only [Kind.isNote] at hn <;> try simp only [] at h
    all_goals first
      | exact absurd hn (by decide)
      | exact basicPitch_tone_ne_none c n (Or.inl hk) h
      | exact basicPitch_tone_ne_none c n (Or.inr hk) h
      | exact basicPitch_abs_ne_none c n (Or.inl hk) h
      | cases h
      | (simp only [bind, Except.bind, pure, Except.pure] at h
         repeat' split at h
         all_goals cases h)

/-! ### absolute and scale notes -/
/-- `noteToPitch` reads kind, value, octave, mode and accidental of the note only -/
theorem noteToPitch_fields (c : Chord) (n m : Note) (last : Int) (h1 : n.kind = m.kind) (h2 : n.val = m.val)
    (h3 : n.oct = m.oct) (h4 : n.mode = m.mode) (h5 : n.acc = m.acc) :
    noteToPitch c n last = noteToPitch c m last := by
  unfold noteToPitch basicPitch withAccident Note.realChord
  simp only [h1, h2, h3, h4, h5]

theorem isNote_not_l (n : Note) (hn : n.kind.isNote = true) : n.kind ≠ .l ∧ n.kind ≠ .r := by
  cases hk : n.kind <;> rw [hk] at hn <;> simp_all [Kind.isNote]

/-- `Chord.to_pitch` on a sounding kind -/
theorem toPitch_isNote (c : Chord) (n : Note) (last : Option Int) (hn : n.kind.isNote = true) :
    c.toPitch n last =
      if n.kind.isRelative then (match last with | none => .error .type | some lp => noteToPitch c n lp)
      else noteToPitch c n 0 := by
  unfold Chord.toPitch
  simp only [(isNote_not_l n hn).1, hn, if_false, Bool.not_true, Bool.false_eq_true]
  rfl

/-- an absolute note written from a pitch sounds that pitch in every chord -/
theorem absolute_of_pitch (c : Chord) (n : Note) (p last : Int) :
    noteToPitch c { n with kind := .a, val := p % 12, oct := p / 12 } last = .ok (some p) := by
  rw [C01.pitch_absolute _ _ _ rfl]
  congr 2
  simp only
  omega

theorem toAbsoluteNote_spec (c : Chord) (n n' : Note) (last : Option Int) (hn : n.kind.isNote = true)
    (h : n.toAbsoluteNote c last = .ok n') :
    ∃ p, c.toPitch n last = .ok (some p) ∧ n' = { n with kind := .a, val := p % 12, oct := p / 12 } := by
  unfold Note.toAbsoluteNote at h
  simp only [hn, Bool.not_true, Bool.false_eq_true, if_false, bind, Except.bind] at h
  cases hp : c.toPitch n last with
  | error e => rw [hp] at h; cases h
  | ok v =>
    rw [hp] at h
    cases v with
    | none => cases h
    | some p =>
      simp only [pure, Except.pure] at h
      injection h with h
      exact ⟨p, rfl, h.symm⟩

theorem toAbsoluteNote_rest (c : Chord) (n : Note) (last : Option Int) (hn : n.kind.isNote = false) :
    n.toAbsoluteNote c last = .ok n := by
  unfold Note.toAbsoluteNote; simp [hn]; rfl

theorem toScaleNote_spec (c : Chord) (n n' : Note) (hn : n.kind.isNote = true) (h : n.toScaleNote c = .ok n') :
    ∃ p b, c.toPitch n none = .ok (some p) ∧ c.parse p = .ok b ∧
      n' = { b with dur := n.dur, amp := ampInt n.amp, tags := n.tags } := by
  unfold Note.toScaleNote at h
  simp only [hn, Bool.not_true, Bool.false_eq_true, if_false, bind, Except.bind] at h
  cases hp : c.toPitch n none with
  | error e => rw [hp] at h; cases h
  | ok v =>
    rw [hp] at h
    cases v with
    | none => cases h
    | some p =>
      simp only at h
      cases hb : c.parse p with
      | error e => rw [hb] at h; cases h
      | ok b =>
        rw [hb] at h
        simp only [pure, Except.pure] at h
        injection h with h
        exact ⟨p, b, rfl, hb, h.symm⟩

/-- `to_scale_note` keeps the pitch of every note it rewrites (non-relative kinds; a relative
note makes `Chord.to_pitch` raise, there is no last pitch at this level) -/
theorem toScaleNote_pitch (c : Chord) (n n' : Note) (last : Int) (he : ElemOK c) (hn : n.kind.isNote = true)
    (h : n.toScaleNote c = .ok n') :
    n.kind.isRelative = false ∧ noteToPitch c n' last = noteToPitch c n last ∧ n'.dur = n.dur ∧
      (n'.kind = .s ∨ n'.kind = .h) := by
  obtain ⟨p, b, hp, hb, rfl⟩ := toScaleNote_spec c n n' hn h
  rw [toPitch_isNote c n none hn] at hp
  cases hr : n.kind.isRelative with
  | true => rw [hr] at hp; simp at hp
  | false =>
    rw [hr] at hp
    simp only [Bool.false_eq_true, if_false] at hp
    obtain ⟨b', hb', hk, hm, ha, hpb⟩ := parse_roundtrip c p last he
    rw [hb] at hb'; injection hb' with hb'; subst hb'
    refine ⟨rfl, ?_, rfl, hk⟩
    rw [noteToPitch_last_irrelevant c n last 0 hr, hp, ← hpb]
    exact noteToPitch_fields _ _ _ _ rfl rfl rfl rfl rfl

/-! ### standard notes of chord-tone and bass-tone notes -/
theorem mapM_index {α β : Type} [Inhabited α] (f : α → Res β) (l : List α) (ps : List β) (h : l.mapM f = .ok ps) :
    ps.length = l.length ∧ ∀ (i : Nat) (hi : i < l.length) (d : β), f l[i] = .ok (ps.getD i d) := by
  induction l generalizing ps with
  | nil =>
    simp only [List.mapM_nil, pure, Except.pure] at h
    injection h with h; subst h
    exact ⟨rfl, fun i hi => absurd hi (by simp)⟩
  | cons a t ih =>
    simp only [List.mapM_cons, bind, Except.bind, pure, Except.pure] at h
    cases ha : f a with
    | error e => rw [ha] at h; cases h
    | ok p =>
      rw [ha] at h
      simp only at h
      cases ht : t.mapM f with
      | error e => rw [ht] at h; cases h
      | ok ps' =>
        rw [ht] at h
        simp only at h
        injection h with h; subst h
        obtain ⟨hl, hi⟩ := ih ps' ht
        refine ⟨by simp [hl], ?_⟩
        intro i hi' d
        cases i with
        | zero => simpa using ha
        | succ j =>
          simp only [List.getElem_cons_succ, List.getD_cons_succ]
          exact hi j (by simpa using hi') d

/-- the pitch of a table tone, as `reqPitch` returns it, is what `noteToPitch` gives -/
theorem noteToPitch_of_reqPitch (c : Chord) (n : Note) (p last : Int) (hn : ToneOK n) (h : reqPitch c n = .ok p) :
    noteToPitch c n last = .ok (some p) := by
  rw [noteToPitch_basic c n last hn.1]
  unfold reqPitch at h
  cases hb : basicPitch c n with
  | error e => rw [hb] at h; cases h
  | ok v =>
    rw [hb] at h
    cases v with
    | none => cases h
    | some q =>
      simp only [bind, Except.bind, pure, Except.pure] at h
      injection h with h; rw [h]

theorem tone_o (n : Note) (k : Int) (h : ToneOK n) : n.o k = { n with oct := n.oct + k } := by
  unfold Note.o Note.oabs
  rcases h.1 with hk | hk <;> simp [hk]

/-- common part of `to_standard_note` for chord-tone (`c`) and bass-tone (`b`) notes: the
candidate at index `val mod L`, raised by `val div L + octave`, sounds what the note sounds -/
theorem tone_index_pitch (c : Chord) (n : Note) (cands : List Note) (sc : List Int) (last : Int) (he : ElemOK c)
    (hc : ∀ x ∈ cands, ToneOK x) (hs : pitchesOf c cands = .ok sc) (hL : 0 < cands.length)
    (cand : Note) (hcand : pyIndex cands (n.val % (cands.length : Int)) = .ok cand) :
    noteToPitch c (cand.o (n.val / (cands.length : Int) + n.oct)) last
      = .ok (some (sc.getD (n.val % (sc.length : Int)).toNat 0 + 12 * (n.val / (sc.length : Int) + n.oct))) := by
  obtain ⟨hlen, hidx⟩ := mapM_index (reqPitch c) cands sc hs
  have hpos : (0 : Int) < (cands.length : Int) := by omega
  have hm0 := Int.emod_nonneg n.val (by omega : (cands.length : Int) ≠ 0)
  have hm1 := Int.emod_lt_of_pos n.val hpos
  have hi : (n.val % (cands.length : Int)).toNat < cands.length := by omega
  rw [pyIndex_nonneg cands default _ hm0 hm1] at hcand
  injection hcand with hcand
  have hget : cands.getD (n.val % (cands.length : Int)).toNat default = cands[(n.val % (cands.length : Int)).toNat] := by
    simp [List.getD_eq_getElem?_getD, List.getElem?_eq_getElem hi]
  rw [hget] at hcand
  have hmem : cand ∈ cands := by rw [← hcand]; exact List.getElem_mem hi
  have hreq := hidx _ hi 0
  rw [hcand] at hreq
  have hbase := noteToPitch_of_reqPitch c cand _ last (hc cand hmem) hreq
  rw [C01.note_octave_12 c cand _ last (by rcases (hc cand hmem).1 with h | h <;> simp [h]) he, hbase, hlen]
  rfl

theorem toStandardNote_tone_pitch (c : Chord) (n n' : Note) (last : Int) (he : ElemOK c)
    (hk : n.kind = .c ∨ n.kind = .b) (h : n.toStandardNote c = .ok n') (p : Option Int)
    (hp : noteToPitch c n last = .ok p) :
    noteToPitch c n' last = .ok p ∧ n'.dur = n.dur ∧ (n'.kind = .s ∨ n'.kind = .h) := by
  unfold Note.toStandardNote at h
  rcases hk with hk | hk
  · simp only [hk, beq_iff_eq, reduceCtorEq, if_false, bind, Except.bind] at h
    cases hc : c.chordNotes with
    | error e => rw [hc] at h; cases h
    | ok cands =>
      rw [hc] at h
      simp only at h
      by_cases h0 : cands.length = 0
      · simp [h0] at h
      · simp only [h0, if_false] at h
        cases hcand : pyIndex cands (n.val % (cands.length : Int)) with
        | error e => rw [hcand] at h; cases h
        | ok cand =>
          rw [hcand] at h
          simp only [pure, Except.pure] at h
          injection h with h; subst h
          have htones := chordNotes_tones c cands hc
          have hsc : ∃ sc, c.chordPitches = .ok sc ∧ pitchesOf c cands = .ok sc := by
            unfold noteToPitch at hp
            simp only [hk, bind, Except.bind] at hp
            cases hcp : c.chordPitches with
            | error e => rw [hcp] at hp; cases hp
            | ok sc =>
              refine ⟨sc, rfl, ?_⟩
              unfold Chord.chordPitches at hcp
              rw [hc] at hcp; exact hcp
          obtain ⟨sc, hcp, hpo⟩ := hsc
          have hlen := (mapM_index (reqPitch c) cands sc hpo).1
          have hmain := tone_index_pitch c n cands sc last he htones hpo (by omega) cand hcand
          have hsrc := C01.pitch_chord_tone c n last sc hk hcp (by omega)
          rw [hsrc] at hp
          have hmem : cand ∈ cands := by
            have hpos : (0 : Int) < (cands.length : Int) := by omega
            have hm0 := Int.emod_nonneg n.val (by omega : (cands.length : Int) ≠ 0)
            have hm1 := Int.emod_lt_of_pos n.val hpos
            rw [pyIndex_nonneg cands default _ hm0 hm1] at hcand
            injection hcand with hcand
            rw [← hcand, List.getD_eq_getElem?_getD, List.getElem?_eq_getElem (by omega)]
            exact List.getElem_mem _
          refine ⟨?_, rfl, ?_⟩
          · rw [← hp, ← hmain]
            exact noteToPitch_fields _ _ _ _ rfl rfl rfl rfl rfl
          · have := (toneOK_o cand (n.val / (cands.length : Int) + n.oct) (htones cand hmem)).1
            exact this
  · simp only [hk, beq_self_eq_true, if_true, bind, Except.bind] at h
    cases hc : c.extensionNotes with
    | error e => rw [hc] at h; cases h
    | ok cands =>
      rw [hc] at h
      simp only at h
      by_cases h0 : cands.length = 0
      · simp [h0] at h
      · simp only [h0, if_false] at h
        cases hcand : pyIndex cands (n.val % (cands.length : Int)) with
        | error e => rw [hcand] at h; cases h
        | ok cand =>
          rw [hcand] at h
          simp only [pure, Except.pure] at h
          injection h with h; subst h
          have htones := extensionNotes_tones c cands hc
          have hsc : ∃ sc, c.extensionPitches = .ok sc ∧ pitchesOf c cands = .ok sc := by
            unfold noteToPitch at hp
            simp only [hk, bind, Except.bind] at hp
            cases hcp : c.extensionPitches with
            | error e => rw [hcp] at hp; cases hp
            | ok sc =>
              refine ⟨sc, rfl, ?_⟩
              unfold Chord.extensionPitches at hcp
              rw [hc] at hcp; exact hcp
          obtain ⟨sc, hcp, hpo⟩ := hsc
          have hlen := (mapM_index (reqPitch c) cands sc hpo).1
          have hmain := tone_index_pitch c n cands sc last he htones hpo (by omega) cand hcand
          have hsrc := C01.pitch_bass_tone c n last sc hk hcp (by omega)
          rw [hsrc] at hp
          have hmem : cand ∈ cands := by
            have hpos : (0 : Int) < (cands.length : Int) := by omega
            have hm0 := Int.emod_nonneg n.val (by omega : (cands.length : Int) ≠ 0)
            have hm1 := Int.emod_lt_of_pos n.val hpos
            rw [pyIndex_nonneg cands default _ hm0 hm1] at hcand
            injection hcand with hcand
            rw [← hcand, List.getD_eq_getElem?_getD, List.getElem?_eq_getElem (by omega)]
            exact List.getElem_mem _
          refine ⟨?_, rfl, ?_⟩
          · rw [← hp, ← hmain]
            exact noteToPitch_fields _ _ _ _ rfl rfl rfl rfl rfl
          · have := (toneOK_o cand (n.val / (cands.length : Int) + n.oct) (htones cand hmem)).1
            exact this

/-! ### standard notes of absolute notes; chord-tone and bass-tone notes -/
theorem toStandardNote_abs_pitch (c : Chord) (n n' : Note) (last : Int) (he : ElemOK c)
    (hk : n.kind = .a) (h : n.toStandardNote c = .ok n') :
    noteToPitch c n' last = noteToPitch c n last ∧ n'.dur = n.dur ∧ (n'.kind = .s ∨ n'.kind = .h) := by
  unfold Note.toStandardNote at h
  simp only [hk, bind, Except.bind] at h
  have hn : n.kind.isNote = true := by rw [hk]; rfl
  cases hp : c.toPitch n none with
  | error e => rw [hp] at h; cases h
  | ok v =>
    rw [hp] at h
    cases v with
    | none => cases h
    | some p =>
      simp only at h
      cases hb : c.parse p with
      | error e => rw [hb] at h; cases h
      | ok b =>
        rw [hb] at h
        simp only [pure, Except.pure] at h
        injection h with h; subst h
        obtain ⟨b', hb', hkb, hm, ha, hpb⟩ := parse_roundtrip c p last he
        rw [hb] at hb'; injection hb' with hb'; subst hb'
        rw [toPitch_isNote c n none hn] at hp
        have hr : n.kind.isRelative = false := by rw [hk]; rfl
        simp only [hr, Bool.false_eq_true, if_false] at hp
        refine ⟨?_, rfl, hkb⟩
        rw [noteToPitch_last_irrelevant c n last 0 hr, hp, ← hpb]
        exact noteToPitch_fields _ _ _ _ rfl rfl rfl rfl rfl

theorem toStandardNote_other (c : Chord) (n : Note) (hk : n.kind ≠ .a ∧ n.kind ≠ .b ∧ n.kind ≠ .c) :
    n.toStandardNote c = .ok n := by
  unfold Note.toStandardNote
  cases h : n.kind <;> simp_all <;> rfl

/-- **to_standard_note, note level**: whenever the source note has a pitch the result has the
same pitch, for every kind and last pitch -/
theorem toStandardNote_pitch (c : Chord) (n n' : Note) (last : Int) (he : ElemOK c)
    (h : n.toStandardNote c = .ok n') (p : Option Int) (hp : noteToPitch c n last = .ok p) :
    noteToPitch c n' last = .ok p ∧ n'.dur = n.dur ∧ n'.kind.isNote = n.kind.isNote
      ∧ (n'.kind == .r) = (n.kind == .r) ∧ (n'.kind == .l) = (n.kind == .l) := by
  by_cases hc : n.kind = .c ∨ n.kind = .b
  · obtain ⟨h1, h2, h3⟩ := toStandardNote_tone_pitch c n n' last he hc h p hp
    refine ⟨h1, h2, ?_, ?_, ?_⟩ <;> rcases hc with hc | hc <;> rcases h3 with h3 | h3 <;> rw [hc, h3] <;> decide
  · by_cases ha : n.kind = .a
    · obtain ⟨h1, h2, h3⟩ := toStandardNote_abs_pitch c n n' last he ha h
      refine ⟨by rw [h1]; exact hp, h2, ?_, ?_, ?_⟩ <;> rcases h3 with h3 | h3 <;> rw [ha, h3] <;> decide
    · have := toStandardNote_other c n ⟨ha, fun hb => hc (Or.inr hb), fun hcc => hc (Or.inl hcc)⟩
      rw [this] at h; injection h with h; subst h
      exact ⟨hp, rfl, rfl, rfl, rfl⟩

/-! chord-tone / bass-tone notes -/

theorem pyEq_fields (a b : Note) (h : a.pyEq b = true) : a.kind = b.kind ∧ a.val = b.val ∧ a.oct = b.oct ∧ a.mode = b.mode := by
  unfold Note.pyEq at h
  simp only [Bool.and_eq_true, beq_iff_eq] at h
  exact ⟨h.1.1.1.1, h.1.1.1.2, h.1.2, h.2⟩

/-- a note matched by `to_chord_note` / `to_extension_note` sounds what the tone at the matched
index sounds, corrected by the octave difference -/
theorem toToneNote_pitch (c : Chord) (n : Note) (kind : Kind) (cands : List Note) (sc : List Int) (last : Int)
    (he : ElemOK c) (hacc : n.acc = none) (hc : ∀ x ∈ cands, ToneOK x) (hs : pitchesOf c cands = .ok sc)
    (hpitch : ∀ m : Note, m.kind = kind → noteToPitch c m last =
      (if sc.length = 0 then .error .zerodiv
       else .ok (some (sc.getD (m.val % (sc.length : Int)).toNat 0 + 12 * (m.val / (sc.length : Int) + m.oct))))) :
    noteToPitch c (n.toToneNote kind cands) last = noteToPitch c n last ∧
      (n.toToneNote kind cands).dur = n.dur ∧
      ((n.toToneNote kind cands).kind = n.kind ∨
        ((n.toToneNote kind cands).kind = kind ∧ (n.kind = .s ∨ n.kind = .h))) := by
  simp only [Note.toToneNote]
  cases hf : List.findIdx? (fun y => y.pyEq n.asKey) (cands.map (fun c => c.o (-c.oct))) with
  | none => exact ⟨rfl, rfl, Or.inl rfl⟩
  | some idx =>
    obtain ⟨hlt, hp, _⟩ := List.findIdx?_eq_some_iff_getElem.mp hf
    simp only [List.length_map] at hlt
    simp only [List.getElem_map] at hp
    simp only [List.getElem?_eq_getElem hlt]
    have hmem : cands[idx] ∈ cands := List.getElem_mem hlt
    have htone := hc _ hmem
    obtain ⟨hlen, hidx⟩ := mapM_index (reqPitch c) cands sc hs
    have hreq := hidx idx hlt 0
    have hbase := noteToPitch_of_reqPitch c cands[idx] _ last htone hreq
    obtain ⟨f1, f2, f3, f4⟩ := pyEq_fields _ _ hp
    rw [tone_o _ _ htone] at f1 f2 f4
    simp only [Note.asKey] at f1 f2 f4
    -- the source note is the candidate moved by the octave difference
    have hsrc : noteToPitch c n last = C01.shift (n.oct - cands[idx].oct) (noteToPitch c cands[idx] last) := by
      rw [← C01.note_octave_12 c cands[idx] _ last (by rcases htone.1 with h | h <;> simp [h]) he]
      rw [tone_o _ _ htone]
      apply noteToPitch_fields
      · exact f1.symm
      · exact f2.symm
      · simp only; omega
      · exact f4.symm
      · rw [hacc]; exact htone.2.1.symm
    refine ⟨?_, by trivial, Or.inr ⟨by trivial, by rw [← f1]; exact htone.1⟩⟩
    rw [hsrc, hbase]
    have hm := hpitch { n with kind := kind, val := Int.ofNat idx, oct := n.oct - cands[idx].oct } rfl
    rw [hm]
    have hne : ¬ sc.length = 0 := by omega
    simp only [hne, if_false, C01.shift]
    have hi : (Int.ofNat idx : Int) = (idx : Int) := rfl
    have e1 : ((Int.ofNat idx) % (sc.length : Int)).toNat = idx := by
      rw [hi, Int.emod_eq_of_lt (by omega) (by omega)]; omega
    have e2 : (Int.ofNat idx) / (sc.length : Int) = 0 := by
      rw [hi]; exact Int.ediv_eq_zero_of_lt (by omega) (by omega)
    rw [e1, e2]
    congr 2
    omega

/-- a table tone always has a pitch on a chord of degree 0..6 -/
theorem reqPitch_tone_ok (c : Chord) (x : Note) (hx : ToneOK x) (he : ElemOK c) : ∃ q, reqPitch c x = .ok q := by
  have hb : ∃ q, basicPitch c x = .ok (some q) := by
    rcases hx.1 with hk | hk
    · have := C01.pitch_scale c x 0 hk hx.2.1 he
      rw [noteToPitch_basic c x 0 (Or.inl hk)] at this
      exact ⟨_, this⟩
    · have := C01.pitch_chromatic c x 0 hk he
      rw [noteToPitch_basic c x 0 (Or.inr hk)] at this
      exact ⟨_, this⟩
  obtain ⟨q, hq⟩ := hb
  exact ⟨q, by unfold reqPitch; rw [hq]; rfl⟩

theorem pitchesOf_tones_ok (c : Chord) (l : List Note) (hl : ∀ x ∈ l, ToneOK x) (he : ElemOK c) :
    ∃ sc, pitchesOf c l = .ok sc := by
  unfold pitchesOf
  induction l with
  | nil => exact ⟨[], rfl⟩
  | cons a t ih =>
    obtain ⟨q, hq⟩ := reqPitch_tone_ok c a (hl a (by simp)) he
    obtain ⟨sc, hsc⟩ := ih (fun x hx => hl x (by simp [hx]))
    exact ⟨q :: sc, by simp only [List.mapM_cons, hq, hsc, bind, Except.bind, pure, Except.pure]⟩

theorem kindFlags_of_tone (k1 k2 : Kind) (h : k1 = k2 ∨ ((k1 = .c ∨ k1 = .b) ∧ (k2 = .s ∨ k2 = .h))) :
    (k1 == .r) = (k2 == .r) ∧ (k1 == .l) = (k2 == .l) ∧ k1.isNote = k2.isNote := by
  rcases h with h | ⟨h1 | h1, h2 | h2⟩ <;> subst_vars <;> (try exact ⟨rfl, rfl, rfl⟩) <;> decide

/-- **to_chord_note, note level** -/
theorem toChordNote_pitch (c : Chord) (n n' : Note) (last : Int) (he : ElemOK c) (h : n.toChordNote c = .ok n') :
    noteToPitch c n' last = noteToPitch c n last ∧ n'.dur = n.dur ∧
      (n'.kind == .r) = (n.kind == .r) ∧ (n'.kind == .l) = (n.kind == .l) ∧ n'.kind.isNote = n.kind.isNote := by
  unfold Note.toChordNote at h
  cases hacc : n.acc with
  | some a =>
    simp only [hacc, Option.isSome_some, if_true, pure, Except.pure] at h
    injection h with h; subst h; exact ⟨rfl, rfl, rfl, rfl, rfl⟩
  | none =>
    simp only [hacc, Option.isSome_none, Bool.false_eq_true, if_false, bind, Except.bind, pure, Except.pure] at h
    cases hc : c.chordNotes with
    | error e => rw [hc] at h; cases h
    | ok cands =>
      rw [hc] at h
      injection h with h; subst h
      have htones := chordNotes_tones c cands hc
      obtain ⟨sc, hsc⟩ := pitchesOf_tones_ok c cands htones he
      have hcp : c.chordPitches = .ok sc := by unfold Chord.chordPitches; rw [hc]; exact hsc
      have := toToneNote_pitch c n .c cands sc last he hacc htones hsc (by
        intro m hm
        unfold noteToPitch
        simp only [hm, hcp, bind, Except.bind, pure, Except.pure]
        by_cases h0 : sc.length = 0
        · simp only [h0, if_true]; unfold valueToScale; simp [h0]
        · simp only [h0, if_false]
          rw [valueToScale_pos _ _ (by omega)]
          have hp : (sc.length : Int) ≠ 0 := by omega
          rw [Int.add_mul_emod_self_left, Int.add_mul_ediv_left _ _ hp])
      obtain ⟨h1, h2, h3⟩ := this
      have hf := kindFlags_of_tone (n.toToneNote .c cands).kind n.kind (by
        rcases h3 with h3 | ⟨h3, h4⟩
        · exact Or.inl h3
        · exact Or.inr ⟨Or.inl h3, h4⟩)
      exact ⟨h1, h2, hf.1, hf.2.1, hf.2.2⟩

/-- **to_extension_note, note level** -/
theorem toExtensionNote_pitch (c : Chord) (n n' : Note) (last : Int) (he : ElemOK c) (h : n.toExtensionNote c = .ok n') :
    noteToPitch c n' last = noteToPitch c n last ∧ n'.dur = n.dur ∧
      (n'.kind == .r) = (n.kind == .r) ∧ (n'.kind == .l) = (n.kind == .l) ∧ n'.kind.isNote = n.kind.isNote := by
  unfold Note.toExtensionNote at h
  cases hacc : n.acc with
  | some a =>
    simp only [hacc, Option.isSome_some, if_true, pure, Except.pure] at h
    injection h with h; subst h; exact ⟨rfl, rfl, rfl, rfl, rfl⟩
  | none =>
    simp only [hacc, Option.isSome_none, Bool.false_eq_true, if_false, bind, Except.bind, pure, Except.pure] at h
    cases hc : c.extensionNotes with
    | error e => rw [hc] at h; cases h
    | ok cands =>
      rw [hc] at h
      injection h with h; subst h
      have htones := extensionNotes_tones c cands hc
      obtain ⟨sc, hsc⟩ := pitchesOf_tones_ok c cands htones he
      have hcp : c.extensionPitches = .ok sc := by unfold Chord.extensionPitches; rw [hc]; exact hsc
      have := toToneNote_pitch c n .b cands sc last he hacc htones hsc (by
        intro m hm
        unfold noteToPitch
        simp only [hm, hcp, bind, Except.bind, pure, Except.pure]
        by_cases h0 : sc.length = 0
        · simp only [h0, if_true]; unfold valueToScale; simp [h0]
        · simp only [h0, if_false]
          rw [valueToScale_pos _ _ (by omega)]
          have hp : (sc.length : Int) ≠ 0 := by omega
          rw [Int.add_mul_emod_self_left, Int.add_mul_ediv_left _ _ hp])
      obtain ⟨h1, h2, h3⟩ := this
      have hf := kindFlags_of_tone (n.toToneNote .b cands).kind n.kind (by
        rcases h3 with h3 | ⟨h3, h4⟩
        · exact Or.inl h3
        · exact Or.inr ⟨Or.inr h3, h4⟩)
      exact ⟨h1, h2, hf.1, hf.2.1, hf.2.2⟩

end MV
