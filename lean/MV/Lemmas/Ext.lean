/-
Lemmas for figured-bass extensions (C02, also used by C01/C14): sorting of modifier lists,
closed form of the figure tables without modifiers.
-/
import MV.Lemmas.Scale
import MV.Props.C01
namespace MV
open Gen

def leS (a b : String) : Bool := decide (a ≤ b)

theorem leS_trans (a b c : String) : leS a b = true → leS b c = true → leS a c = true := by
  unfold leS; simp only [decide_eq_true_eq]; exact String.le_trans
theorem leS_total (a b : String) : (leS a b || leS b a) = true := by
  unfold leS; rcases String.le_total a b with h | h <;> simp [h]

theorem sortStrs_sorted (l : List String) : (sortStrs l).Pairwise (fun a b => leS a b = true) := by
  unfold sortStrs
  exact List.pairwise_mergeSort leS_trans leS_total l

theorem sortStrs_perm (l : List String) : (sortStrs l).Perm l := List.mergeSort_perm l _

theorem sortStrs_congr (l1 l2 : List String) (h : l1.Perm l2) : sortStrs l1 = sortStrs l2 := by
  apply List.Perm.eq_of_pairwise (le := fun a b => leS a b = true)
  · intro a b _ _ h1 h2
    unfold leS at h1 h2
    simp only [decide_eq_true_eq] at h1 h2
    exact String.le_antisymm h1 h2
  · exact sortStrs_sorted l1
  · exact sortStrs_sorted l2
  · exact (sortStrs_perm l1).trans (h.trans (sortStrs_perm l2).symm)

theorem sortStrs_idem (l : List String) : sortStrs (sortStrs l) = sortStrs l := by
  conv => lhs; unfold sortStrs
  exact List.mergeSort_of_pairwise (sortStrs_sorted l)


/-- base pitch of a chord: tonic + 12 per tonality / chord octave -/
def Chord.base (c : Chord) : Int := c.ton.deg + 12 * c.ton.oct + 12 * c.oct

/-- a note of the figure tables: plain scale note, value 0..6, octave ≥ 0 -/
def PlainNote (n : Note) : Prop :=
  n.kind = .s ∧ n.mode = none ∧ n.acc = none ∧ 0 ≤ n.val ∧ n.val < 7 ∧ 0 ≤ n.oct

instance (n : Note) : Decidable (PlainNote n) := by unfold PlainNote; exact inferInstance

/-- scale-degree offset above the chord root of a table note -/
def noteOffset (n : Note) : Nat := (n.val + 7 * n.oct).toNat

theorem degSemitone_add_octaves (L : List Int) (j o : Nat) :
    degSemitone L (j + 7 * o) = degSemitone L j + 12 * (o : Int) := by
  unfold degSemitone
  have h1 : (j + 7 * o) % 7 = j % 7 := by omega
  have h2 : (j + 7 * o) / 7 = j / 7 + o := by omega
  rw [h1, h2]; push_cast; omega

/-- pitch of a table note: root-relative degree `noteOffset` of the chord's scale -/
def Chord.degPitch (c : Chord) (j : Nat) : Int :=
  c.base + degSemitone (SCALES c.ton.mode) (c.elem.toNat + j)

theorem basicPitch_plain (c : Chord) (n : Note) (hn : PlainNote n) (he : 0 ≤ c.elem ∧ c.elem < 7) :
    basicPitch c n = .ok (some (c.degPitch (noteOffset n))) := by
  obtain ⟨hk, hm, ha, h0, h7, ho⟩ := hn
  have := C01.pitch_scale c n 0 hk ha he
  unfold noteToPitch at this
  simp only [hk] at this
  rw [this]
  have hmode : C01.effMode c n = c.ton.mode := by unfold C01.effMode; rw [hm]; rfl
  have hv : (n.val % 7).toNat = n.val.toNat := by congr 1; omega
  have hd : n.val / 7 = 0 := by omega
  have hoff : noteOffset n = n.val.toNat + 7 * n.oct.toNat := by unfold noteOffset; omega
  rw [hmode, hv, hd]
  unfold Chord.degPitch Chord.base
  rw [hoff, ← Nat.add_assoc, degSemitone_add_octaves]
  congr 2
  have : ((n.oct.toNat : Nat) : Int) = n.oct := by omega
  rw [this]; omega

theorem degSemitone_strictMono (L : List Int) (h : ScaleOK L) (i j : Nat) (hij : i < j) :
    degSemitone L i < degSemitone L j := by
  induction j with
  | zero => omega
  | succ k ih =>
    have := C01.degSemitone_succ L h k
    by_cases hik : i = k
    · subst hik; exact this
    · have := ih (by omega); omega

/-- insertion sort leaves a list with non-decreasing keys unchanged -/
theorem sortByKey_sorted {α : Type} (k : α → Int) (l : List α) (h : l.Pairwise (fun a b => k a ≤ k b)) :
    sortByKey k l = l := by
  induction l with
  | nil => rfl
  | cons a t ih =>
    have ht := (List.pairwise_cons.mp h).2
    have ha := (List.pairwise_cons.mp h).1
    unfold sortByKey at *
    simp only [List.foldr_cons]
    rw [ih ht]
    cases t with
    | nil => rfl
    | cons b r =>
      have : k a ≤ k b := ha b (by simp)
      simp [sortByKey.insertFront, this]

theorem mapM_ok {α β : Type} (f : α → Res β) (g : α → β) (l : List α) (h : ∀ x ∈ l, f x = .ok (g x)) :
    l.mapM f = .ok (l.map g) := by
  induction l with
  | nil => rfl
  | cons a t ih =>
    simp only [List.mapM_cons, h a (by simp), ih (fun x hx => h x (by simp [hx])), bind, Except.bind,
      pure, Except.pure, List.map_cons]

theorem sortStrs_nil : sortStrs [] = [] := by unfold sortStrs; simp

/-- without modifiers `_chord_notes_calc` returns the figure's table row, provided the row
is made of plain notes with strictly ascending offsets -/
theorem chordNotesCalc_plain (c : Chord) (fig : Fig) (base : List Note)
    (hb : BASE_EXTENSION_DICT fig = some base) (hp : ∀ n ∈ base, PlainNote n)
    (hasc : (base.map noteOffset).Pairwise (· < ·)) (he : 0 ≤ c.elem ∧ c.elem < 7) :
    c.chordNotesCalc fig [] [] [] = .ok base := by
  unfold Chord.chordNotesCalc
  simp only [hb, calcReplacements, calcAdditions, calcRemovals, bind, Except.bind, pure, Except.pure]
  have hm : base.mapM (reqPitch c) = .ok (base.map (fun n => c.degPitch (noteOffset n))) := by
    apply mapM_ok
    intro n hn
    unfold reqPitch
    simp only [basicPitch_plain c n (hp n hn) he, bind, Except.bind, pure, Except.pure]
  rw [hm]
  simp only
  congr 1
  apply sortByKey_sorted
  have hok := C01.scales_ok c.ton.mode
  rw [List.pairwise_map] at hasc
  have hasc' : base.Pairwise (fun a b => a ∈ base ∧ b ∈ base ∧ noteOffset a < noteOffset b) := by
    have := List.Pairwise.and_mem.mp hasc
    exact this.imp (fun ⟨h1, h2, h3⟩ => ⟨h1, h2, h3⟩)
  refine hasc'.imp ?_
  intro a b ⟨ha, hb', hab⟩
  unfold pitchKey
  rw [basicPitch_plain c a (hp a ha) he, basicPitch_plain c b (hp b hb') he]
  simp only
  unfold Chord.degPitch
  have := degSemitone_strictMono _ hok (c.elem.toNat + noteOffset a) (c.elem.toNat + noteOffset b) (by omega)
  omega

end MV
