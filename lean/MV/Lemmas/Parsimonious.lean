/-
Helper lemmas for C19, parsimonious voice leading: symbolic evaluation of
`Chord.pvlFrom` on a plain triad / seventh chord (every step of the code keeps the chord
in the family `mkP cand f o`), reduction to the finite core `pvlCore` (normalised
transposition in -6..6 x bass intervals of the figures), the core table by `decide`, and
the closed form `parsimonious_plain`.
-/
import MV.Model.VoiceLeading
import MV.Props.C02
namespace MV
open Gen C02

def sevenFigs : List Fig := [.f0, .f6, .f64, .f7, .f65, .f43, .f2]

/-- a plain chord on the harmony of `c`: figure `f`, chord octave `o`, tonality octave 0 -/
def mkP (c : Chord) (f : Fig) (o : Int) : Chord :=
  { c with ext := { fig := f }, oct := o, ton := { c.ton with oct := 0 } }

def bassOff : Fig → Nat
  | .f6 | .f65 => 2 | .f64 | .f43 => 4 | .f2 => 6 | _ => 0

theorem mkP_plain (c : Chord) (f : Fig) (o : Int) : Plain (mkP c f o) := ⟨rfl, rfl, rfl⟩

theorem bass_mkP (c : Chord) (f : Fig) (o : Int) (hf : f ∈ sevenFigs) (he : 0 ≤ c.elem ∧ c.elem < 7) :
    (mkP c f o).bassPitch
      = .ok (c.ton.deg + 12 * o + degSemitone (SCALES c.ton.mode) (c.elem.toNat + bassOff f)) := by
  unfold Chord.bassPitch
  rw [plain_extension_pitches (mkP c f o) (mkP_plain c f o) he]
  simp only [bind, Except.bind]
  simp only [sevenFigs, List.mem_cons, List.mem_nil_iff, or_false] at hf
  rcases hf with rfl | rfl | rfl | rfl | rfl | rfl | rfl <;>
  · simp [mkP, figShape, invOffsets, thirds, pyIndex, bassOff, Chord.degPitch, Chord.base, List.range, List.range.loop]

theorem extNotes_plain (c : Chord) (hp : Plain c) (he : 0 ≤ c.elem ∧ c.elem < 7) :
    ∃ ns, c.extensionNotes = .ok ns := by
  obtain ⟨base, hb, hpl, hoff, _⟩ := base_table_is_stacked_thirds c.ext.fig
  have hasc := (invOffsets_asc c.ext.fig).1
  rw [← hoff] at hasc
  refine ⟨base, ?_⟩
  unfold Chord.extensionNotes Ext.props
  rw [hp.1, hp.2.1, hp.2.2, sortStrs_nil]
  exact chordNotesCalc_plain c _ base hb hpl hasc he

/-- `chord[fig]` on a plain chord -/
theorem withExt_plain (c : Chord) (f : Fig) (he : 0 ≤ c.elem ∧ c.elem < 7) :
    c.withExt { fig := f } = .ok { c with ext := { fig := f } } := by
  obtain ⟨ns, hns⟩ := extNotes_plain { c with ext := { fig := f } } ⟨rfl, rfl, rfl⟩ he
  unfold Chord.withExt
  simp only [hns, bind, Except.bind, pure, Except.pure, Ext.normalize, sortStrs_nil]

def rootOf : Fig → Fig
  | .f0 | .f6 | .f64 => .f0
  | .f7 | .f65 | .f43 | .f2 => .f7
  | f => f

theorem toRootExt_plain (c : Chord) (hp : Plain c) (he : 0 ≤ c.elem ∧ c.elem < 7) :
    c.toRootExt = .ok { c with ext := { fig := rootOf c.ext.fig } } := by
  unfold Chord.toRootExt Ext.props
  rw [hp.1, hp.2.1, hp.2.2, sortStrs_nil]
  simp only
  have := withExt_plain c (rootOf c.ext.fig) he
  cases hf : c.ext.fig <;> simp only [hf, rootOf] at this ⊢ <;> exact this

theorem seven_mem (f : Fig) (hf : f ∈ sevenFigs) : f ∈ fourFigs ∨ f ∈ threeFigs := by
  simp only [sevenFigs, List.mem_cons, List.mem_nil_iff, or_false] at hf
  rcases hf with rfl | rfl | rfl | rfl | rfl | rfl | rfl <;> simp [fourFigs, threeFigs]

theorem invFig_seven (f : Fig) (k : Int) (hf : f ∈ sevenFigs) : invFig f k ∈ sevenFigs := by
  rcases seven_mem f hf with h | h
  · have := (invFig_mem f k).1 h
    simp only [fourFigs, List.mem_cons, List.mem_nil_iff, or_false] at this
    rcases this with h | h | h | h <;> simp [h, sevenFigs]
  · have := (invFig_mem f k).2 h
    simp only [threeFigs, List.mem_cons, List.mem_nil_iff, or_false] at this
    rcases this with h | h | h <;> simp [h, sevenFigs]

theorem invert_mkP (c : Chord) (f : Fig) (o k : Int) (hf : f ∈ sevenFigs) (he : 0 ≤ c.elem ∧ c.elem < 7) :
    (mkP c f o).invert k = .ok (mkP c (invFig f k) o) := by
  rw [invert_eq]
  have : (mkP c f o).ext.fig ∈ fourFigs ∨ (mkP c f o).ext.fig ∈ threeFigs := seven_mem f hf
  simp only [this, if_true]
  have h2 : invExt (mkP c f o).ext k = { fig := invFig f k } := by
    unfold invExt; simp [mkP, sortStrs_nil]
  rw [h2]
  exact withExt_plain (mkP c f o) (invFig f k) he

theorem o_mkP (c : Chord) (f : Fig) (o k : Int) : (mkP c f o).o k = mkP c f (o + k) := rfl

def figIdx (f : Fig) : Int := ((figShape f).2 : Int)

theorem invIdx_mkP (c : Chord) (f : Fig) (o : Int) : (mkP c f o).inversionIndex = .ok (figIdx f) := by
  obtain ⟨_, _, _, _, h⟩ := base_table_is_stacked_thirds f
  unfold Chord.inversionIndex
  show (match BASE_CHORDAL_TRANSLATION_DICT f with | some i => _ | none => _) = _
  rw [h]; rfl

/-- interval (semitones above the chord root) of the bass of figure `f` -/
def ivC (c : Chord) (f : Fig) : Int :=
  degSemitone (SCALES c.ton.mode) (c.elem.toNat + bassOff f) - degSemitone (SCALES c.ton.mode) c.elem.toNat

/-- the re-voicing in reduced form: `nt` = normalised transposition, `iv` = bass interval of
each figure; result = (figure, octave relative to `-offset_octave`).  `nt + 12 * off + iv f`
is the distance of the new bass from the reference bass. -/
def pvlCore (rf : Fig) (nb : Int) (iv : Fig → Int) (nt : Int) (dir : Dir) : Fig × Int :=
  let opt := - roundHalfEven (nb * nt) 12
  let f3 := invFig rf opt
  let o4 : Int := if opt < 0 then -1 else 0
  let rel := nt + 12 * o4 + iv f3
  if rel > 0 ∧ dir = .down then
    (invFig f3 (figIdx f3 - 1 - figIdx f3), if figIdx f3 - 1 < 0 then o4 + -1 else o4)
  else if rel < 0 ∧ dir = .up then
    (invFig f3 (figIdx f3 + 1 - figIdx f3), if figIdx f3 + 1 > nb - 1 then o4 + 1 else o4)
  else (f3, o4)

theorem ite_mkP (p : Prop) [Decidable p] (c : Chord) (f : Fig) (a b : Int) :
    (if p then mkP c f a else mkP c f b) = mkP c f (if p then a else b) := by
  split <;> rfl

theorem pvlFrom_plain (root : Int) (cand : Chord) (nb : Int) (dir : Dir) (hp : Plain cand)
    (hf : cand.ext.fig ∈ sevenFigs) (he : 0 ≤ cand.elem ∧ cand.elem < 7)
    (R0 oo nt : Int) (hR : R0 = cand.ton.deg + degSemitone (SCALES cand.ton.mode) cand.elem.toNat)
    (hoo : oo = roundHalfEven (R0 - root) 12) (hnt : nt = R0 - root - oo * 12) :
    Chord.pvlFrom root cand nb dir
      = .ok (mkP cand (pvlCore (rootOf cand.ext.fig) nb (ivC cand) nt dir).1
                      (-oo + (pvlCore (rootOf cand.ext.fig) nb (ivC cand) nt dir).2)) := by
  have hrf : rootOf cand.ext.fig ∈ sevenFigs := by
    simp only [sevenFigs, List.mem_cons, List.mem_nil_iff, or_false] at hf
    rcases hf with h | h | h | h | h | h | h <;> simp [h, rootOf, sevenFigs]
  have hb0 : bassOff (rootOf cand.ext.fig) = 0 := by
    simp only [sevenFigs, List.mem_cons, List.mem_nil_iff, or_false] at hf
    rcases hf with h | h | h | h | h | h | h <;> simp [h, rootOf, bassOff]
  unfold Chord.pvlFrom
  have h1 : ({ cand with oct := 0, ton := { cand.ton with oct := 0 } } : Chord).toRootExt
      = .ok (mkP cand (rootOf cand.ext.fig) 0) :=
    toRootExt_plain ({ cand with oct := 0, ton := { cand.ton with oct := 0 } } : Chord) hp he
  have hf3 : ∀ k, invFig (rootOf cand.ext.fig) k ∈ sevenFigs := fun k => invFig_seven _ k hrf
  simp only [h1, bind, Except.bind, bass_mkP cand _ _ hrf he, hb0, Nat.add_zero, Int.mul_zero, Int.add_zero,
    o_mkP, invert_mkP cand _ _ _ hrf he, ite_mkP, bass_mkP cand _ _ (hf3 _) he, invIdx_mkP,
    invert_mkP cand _ _ _ (hf3 _) he, pure, Except.pure]
  rw [← hR, ← hoo, ← hnt]
  unfold pvlCore
  dsimp only
  generalize -roundHalfEven (nb * nt) 12 = opt
  generalize hf3' : invFig (rootOf cand.ext.fig) opt = f3
  have hc : ∀ o4 : Int, (cand.ton.deg + 12 * (0 + -oo + o4) + degSemitone (SCALES cand.ton.mode) (cand.elem.toNat + bassOff f3))
      - root = nt + 12 * o4 + ivC cand f3 := by
    intro o4; unfold ivC; omega
  by_cases hopt : opt < 0
  · simp only [hopt, if_true]
    have := hc (-1)
    by_cases hd : nt + 12 * -1 + ivC cand f3 > 0 ∧ dir = Dir.down
    · have hd' : cand.ton.deg + 12 * (0 + -oo + -1) + degSemitone (SCALES cand.ton.mode) (cand.elem.toNat + bassOff f3) > root ∧ dir = Dir.down :=
        ⟨by omega, hd.2⟩
      rw [if_pos hd', if_pos hd]
      congr 2
      by_cases hx : figIdx f3 - 1 < 0 <;> simp only [hx, if_true, if_false] <;> omega
    · have hd' : ¬ (cand.ton.deg + 12 * (0 + -oo + -1) + degSemitone (SCALES cand.ton.mode) (cand.elem.toNat + bassOff f3) > root ∧ dir = Dir.down) := by
        intro h; exact hd ⟨by omega, h.2⟩
      rw [if_neg hd', if_neg hd]
      by_cases hu : nt + 12 * -1 + ivC cand f3 < 0 ∧ dir = Dir.up
      · have hu' : cand.ton.deg + 12 * (0 + -oo + -1) + degSemitone (SCALES cand.ton.mode) (cand.elem.toNat + bassOff f3) < root ∧ dir = Dir.up :=
          ⟨by omega, hu.2⟩
        rw [if_pos hu', if_pos hu]
        congr 2
        by_cases hx : figIdx f3 + 1 > nb - 1 <;> simp only [hx, if_true, if_false] <;> omega
      · have hu' : ¬ (cand.ton.deg + 12 * (0 + -oo + -1) + degSemitone (SCALES cand.ton.mode) (cand.elem.toNat + bassOff f3) < root ∧ dir = Dir.up) := by
          intro h; exact hu ⟨by omega, h.2⟩
        rw [if_neg hu', if_neg hu]
        congr 2
        omega
  · simp only [hopt, if_false]
    have := hc 0
    by_cases hd : nt + 12 * 0 + ivC cand f3 > 0 ∧ dir = Dir.down
    · have hd' : cand.ton.deg + 12 * (0 + -oo) + degSemitone (SCALES cand.ton.mode) (cand.elem.toNat + bassOff f3) > root ∧ dir = Dir.down :=
        ⟨by omega, hd.2⟩
      rw [if_pos hd', if_pos hd]
      congr 2
      by_cases hx : figIdx f3 - 1 < 0 <;> simp only [hx, if_true, if_false] <;> omega
    · have hd' : ¬ (cand.ton.deg + 12 * (0 + -oo) + degSemitone (SCALES cand.ton.mode) (cand.elem.toNat + bassOff f3) > root ∧ dir = Dir.down) := by
        intro h; exact hd ⟨by omega, h.2⟩
      rw [if_neg hd', if_neg hd]
      by_cases hu : nt + 12 * 0 + ivC cand f3 < 0 ∧ dir = Dir.up
      · have hu' : cand.ton.deg + 12 * (0 + -oo) + degSemitone (SCALES cand.ton.mode) (cand.elem.toNat + bassOff f3) < root ∧ dir = Dir.up :=
          ⟨by omega, hu.2⟩
        rw [if_pos hu', if_pos hu]
        congr 2
        by_cases hx : figIdx f3 + 1 > nb - 1 <;> simp only [hx, if_true, if_false] <;> omega
      · have hu' : ¬ (cand.ton.deg + 12 * (0 + -oo) + degSemitone (SCALES cand.ton.mode) (cand.elem.toNat + bassOff f3) < root ∧ dir = Dir.up) := by
          intro h; exact hu ⟨by omega, h.2⟩
        rw [if_neg hu', if_neg hu]
        congr 2
        omega

/-! ### the finite core -/

def ivOf (a b c : Int) : Fig → Int
  | .f6 | .f65 => a
  | .f64 | .f43 => b
  | .f2 => c
  | _ => 0

/-- what the re-voicing must achieve, on the reduced form: distance of the new bass from the
reference bass at most 5 semitones (a fourth), on the requested side, figure in the family -/
def coreOK (rf : Fig) (nb : Int) (a b c nt : Int) (dir : Dir) : Bool :=
  let r := pvlCore rf nb (ivOf a b c) nt dir
  let rel := nt + 12 * r.2 + ivOf a b c r.1
  decide (-5 ≤ rel ∧ rel ≤ 5) && (dir != .down || decide (rel ≤ 0)) && (dir != .up || decide (0 ≤ rel))
    && decide (dir = .none → -3 ≤ rel ∧ rel ≤ 3)

theorem core_table3 (dir : Dir) :
    ∀ i : Nat, i < 13 → ∀ ja : Nat, ja < 2 → ∀ jb : Nat, jb < 3 → ∀ jc : Nat, jc < 3 →
      coreOK .f0 3 (3 + (ja : Int)) (6 + (jb : Int)) (9 + (jc : Int)) ((i : Int) - 6) dir = true := by
  cases dir <;> decide

theorem core_table4 (dir : Dir) :
    ∀ i : Nat, i < 13 → ∀ ja : Nat, ja < 2 → ∀ jb : Nat, jb < 3 → ∀ jc : Nat, jc < 3 →
      coreOK .f7 4 (3 + (ja : Int)) (6 + (jb : Int)) (9 + (jc : Int)) ((i : Int) - 6) dir = true := by
  cases dir <;> decide

theorem rhe_bound (t : Int) : -6 ≤ t - roundHalfEven t 12 * 12 ∧ t - roundHalfEven t 12 * 12 ≤ 6 := by
  unfold roundHalfEven
  simp only
  split
  · omega
  · split
    · omega
    · split <;> omega

/-- the chord tones of every degree of every generated scale: third 3..4, fifth 6..8,
seventh 9..11 semitones above the root -/
theorem interval_table (md : Mode) :
    ∀ e : Nat, e < 7 →
      (3 ≤ degSemitone (SCALES md) (e + 2) - degSemitone (SCALES md) e ∧ degSemitone (SCALES md) (e + 2) - degSemitone (SCALES md) e ≤ 4) ∧
      (6 ≤ degSemitone (SCALES md) (e + 4) - degSemitone (SCALES md) e ∧ degSemitone (SCALES md) (e + 4) - degSemitone (SCALES md) e ≤ 8) ∧
      (9 ≤ degSemitone (SCALES md) (e + 6) - degSemitone (SCALES md) e ∧ degSemitone (SCALES md) (e + 6) - degSemitone (SCALES md) e ≤ 11) := by
  cases md <;> decide

theorem ivC_eq_ivOf (c : Chord) : ivC c = ivOf (ivC c .f6) (ivC c .f64) (ivC c .f2) := by
  funext f
  cases f <;> simp [ivC, ivOf, bassOff]

theorem chordNotes_len_plain (c : Chord) (hp : Plain c) (he : 0 ≤ c.elem ∧ c.elem < 7) :
    ∃ ns, c.chordNotes = .ok ns ∧ ns.length = (figShape c.ext.fig).1 := by
  obtain ⟨base, hb, hpl, hoff, _⟩ := base_table_is_stacked_thirds c.ext.fig.rootFig
  have hasc := (invOffsets_asc c.ext.fig.rootFig).1
  rw [← hoff] at hasc
  refine ⟨base, ?_, ?_⟩
  · unfold Chord.chordNotes Ext.props
    rw [hp.1, hp.2.1, hp.2.2, sortStrs_nil]
    exact chordNotesCalc_plain c _ base hb hpl hasc he
  · have := congrArg List.length hoff
    rw [List.length_map, rootFig_shape] at this
    rw [this]; simp [invOffsets, thirds]

/-- reduced-form guarantee for a real plain triad or seventh chord -/
theorem core_ok (cand : Chord) (dir : Dir) (nt : Int) (hnt : -6 ≤ nt ∧ nt ≤ 6)
    (hf : cand.ext.fig ∈ sevenFigs) (he : 0 ≤ cand.elem ∧ cand.elem < 7) :
    coreOK (rootOf cand.ext.fig) (((figShape cand.ext.fig).1 : Nat) : Int)
      (ivC cand .f6) (ivC cand .f64) (ivC cand .f2) nt dir = true := by
  have hiv := interval_table cand.ton.mode cand.elem.toNat (by omega)
  obtain ⟨⟨a1, a2⟩, ⟨b1, b2⟩, ⟨c1, c2⟩⟩ := hiv
  have r6 : ivC cand .f6 = degSemitone (SCALES cand.ton.mode) (cand.elem.toNat + 2) - degSemitone (SCALES cand.ton.mode) cand.elem.toNat := rfl
  have r64 : ivC cand .f64 = degSemitone (SCALES cand.ton.mode) (cand.elem.toNat + 4) - degSemitone (SCALES cand.ton.mode) cand.elem.toNat := rfl
  have r2 : ivC cand .f2 = degSemitone (SCALES cand.ton.mode) (cand.elem.toNat + 6) - degSemitone (SCALES cand.ton.mode) cand.elem.toNat := rfl
  have ea : (3 + (((ivC cand .f6 - 3).toNat : Nat) : Int)) = ivC cand .f6 := by
    omega
  have eb : (6 + (((ivC cand .f64 - 6).toNat : Nat) : Int)) = ivC cand .f64 := by
    omega
  have ec : (9 + (((ivC cand .f2 - 9).toNat : Nat) : Int)) = ivC cand .f2 := by
    omega
  have en : ((((nt + 6).toNat : Nat) : Int) - 6) = nt := by omega
  have la : (ivC cand .f6 - 3).toNat < 2 := by omega
  have lb : (ivC cand .f64 - 6).toNat < 3 := by omega
  have lc : (ivC cand .f2 - 9).toNat < 3 := by omega
  have ln : (nt + 6).toNat < 13 := by omega
  have t3 := core_table3 dir _ ln _ la _ lb _ lc
  have t4 := core_table4 dir _ ln _ la _ lb _ lc
  rw [ea, eb, ec, en] at t3 t4
  simp only [sevenFigs, List.mem_cons, List.mem_nil_iff, or_false] at hf
  rcases hf with h | h | h | h | h | h | h <;> rw [h] <;> first | exact t3 | exact t4

/-- a plain triad or seventh chord on one of the seven library degrees -/
def PlainCand (c : Chord) : Prop := Plain c ∧ c.ext.fig ∈ sevenFigs ∧ 0 ≤ c.elem ∧ c.elem < 7

theorem rootOf_family (f : Fig) (hf : f ∈ sevenFigs) (k : Int) :
    (invFig (rootOf f) k ∈ threeFigs ↔ f ∈ threeFigs) ∧ (invFig (rootOf f) k ∈ fourFigs ↔ f ∈ fourFigs) := by
  have hm := invFig_mem (rootOf f) k
  simp only [sevenFigs, List.mem_cons, List.mem_nil_iff, or_false] at hf
  rcases hf with rfl | rfl | rfl | rfl | rfl | rfl | rfl
  all_goals
    simp only [rootOf] at hm ⊢
    first
      | (have h3 := hm.2 (by simp [threeFigs])
         refine ⟨⟨fun _ => by simp [threeFigs], fun _ => h3⟩, ⟨fun h4 => ?_, fun h4 => ?_⟩⟩
         · simp only [threeFigs, fourFigs, List.mem_cons, List.mem_nil_iff, or_false] at h3 h4
           rcases h3 with h | h | h <;> rw [h] at h4 <;> simp at h4
         · simp [fourFigs] at h4)
      | (have h4 := hm.1 (by simp [fourFigs])
         refine ⟨⟨fun h3 => ?_, fun h3 => ?_⟩, ⟨fun _ => by simp [fourFigs], fun _ => h4⟩⟩
         · simp only [threeFigs, fourFigs, List.mem_cons, List.mem_nil_iff, or_false] at h3 h4
           rcases h4 with h | h | h | h <;> rw [h] at h3 <;> simp at h3
         · simp [threeFigs] at h3)

theorem pvlCore_fig (rf : Fig) (nb : Int) (iv : Fig → Int) (nt : Int) (dir : Dir) (hrf : rf ∈ sevenFigs) :
    ∃ k, (pvlCore rf nb iv nt dir).1 = invFig rf k := by
  have hadd : ∀ a b, invFig (invFig rf a) b = invFig rf (a + b) := by
    intro a b
    rcases seven_mem rf hrf with h | h
    · exact (invFig_four rf h b a).1
    · exact (invFig_three rf h b a).1
  unfold pvlCore
  dsimp only
  repeat' split
  all_goals first | exact ⟨_, hadd _ _⟩ | exact ⟨_, rfl⟩

/-- **the re-voicing of a plain candidate in closed form, with its guarantees** -/
theorem parsimonious_plain (self cand : Chord) (dir : Dir) (root : Int)
    (hs : self.bassPitch = .ok root) (hn : ∃ ns, self.chordNotes = .ok ns) (hc : PlainCand cand) :
    ∃ f o, self.parsimonious cand dir = .ok (mkP cand f o) ∧ f ∈ sevenFigs ∧
      (f ∈ threeFigs ↔ cand.ext.fig ∈ threeFigs) ∧ (f ∈ fourFigs ↔ cand.ext.fig ∈ fourFigs) ∧
      ∃ b, (mkP cand f o).bassPitch = .ok b ∧ -5 ≤ b - root ∧ b - root ≤ 5 ∧
        (dir = .down → b ≤ root) ∧ (dir = .up → root ≤ b) ∧ (dir = .none → -3 ≤ b - root ∧ b - root ≤ 3) := by
  obtain ⟨hp, hf, he⟩ := hc
  obtain ⟨ns, hns⟩ := hn
  obtain ⟨cn, hcn, hlen⟩ := chordNotes_len_plain cand hp he
  unfold Chord.parsimonious
  simp only [hns, hcn, hs, bind, Except.bind]
  have hnt := rhe_bound (cand.ton.deg + degSemitone (SCALES cand.ton.mode) cand.elem.toNat - root)
  have hmain := pvlFrom_plain root cand (cn.length : Int) dir hp hf he _ _ _ rfl rfl rfl
  have hok := core_ok cand dir _ hnt hf he
  rw [← hlen] at hok
  have hrf : rootOf cand.ext.fig ∈ sevenFigs := by
    simp only [sevenFigs, List.mem_cons, List.mem_nil_iff, or_false] at hf
    rcases hf with h | h | h | h | h | h | h <;> simp [h, rootOf, sevenFigs]
  unfold coreOK at hok
  rw [← ivC_eq_ivOf cand] at hok
  generalize hnt' : cand.ton.deg + degSemitone (SCALES cand.ton.mode) cand.elem.toNat - root -
      roundHalfEven (cand.ton.deg + degSemitone (SCALES cand.ton.mode) cand.elem.toNat - root) 12 * 12 = nt at *
  generalize hoo : roundHalfEven (cand.ton.deg + degSemitone (SCALES cand.ton.mode) cand.elem.toNat - root) 12 = oo at *
  obtain ⟨k, hk⟩ := pvlCore_fig (rootOf cand.ext.fig) (cn.length : Int) (ivC cand) nt dir hrf
  generalize hr : pvlCore (rootOf cand.ext.fig) (cn.length : Int) (ivC cand) nt dir = r at *
  have hfr : r.1 ∈ sevenFigs := by rw [hk]; exact invFig_seven _ _ hrf
  refine ⟨r.1, -oo + r.2, hmain, hfr, ?_, ?_, ?_⟩
  · rw [hk]; exact (rootOf_family _ hf k).1
  · rw [hk]; exact (rootOf_family _ hf k).2
  · refine ⟨_, bass_mkP cand r.1 _ hfr he, ?_⟩
    simp only [Bool.and_eq_true, decide_eq_true_eq, Bool.or_eq_true, bne_iff_ne, ne_eq] at hok
    obtain ⟨⟨⟨h1, h2⟩, h3⟩, h4⟩ := hok
    have hrel : cand.ton.deg + 12 * (-oo + r.2) + degSemitone (SCALES cand.ton.mode) (cand.elem.toNat + bassOff r.1) - root
        = nt + 12 * r.2 + ivC cand r.1 := by
      unfold ivC; omega
    refine ⟨by omega, by omega, ?_, ?_, ?_⟩
    · intro hd; rcases h2 with h | h
      · exact absurd hd h
      · omega
    · intro hd; rcases h3 with h | h
      · exact absurd hd h
      · omega
    · intro hd; have := h4 hd; omega

theorem family_shape (f g : Fig) (hf : f ∈ sevenFigs) (hg : g ∈ sevenFigs) (h : f ∈ threeFigs ↔ g ∈ threeFigs) :
    (figShape f).1 = (figShape g).1 := by
  simp only [sevenFigs, List.mem_cons, List.mem_nil_iff, or_false] at hf hg
  rcases hf with rfl | rfl | rfl | rfl | rfl | rfl | rfl <;>
  rcases hg with rfl | rfl | rfl | rfl | rfl | rfl | rfl <;>
  first | rfl | (simp [threeFigs] at h)

/-- same chord tones: the root-position arpeggio of the re-voiced chord is that of the
candidate, tone by tone, up to octaves -/
theorem chordPitches_mkP (cand : Chord) (f : Fig) (o : Int) (hc : PlainCand cand) (hf : f ∈ sevenFigs)
    (hfam : f ∈ threeFigs ↔ cand.ext.fig ∈ threeFigs) :
    ∃ ps ps', cand.chordPitches = .ok ps ∧ (mkP cand f o).chordPitches = .ok ps' ∧
      ps'.map (· % 12) = ps.map (· % 12) := by
  obtain ⟨hp, hg, he⟩ := hc
  refine ⟨_, _, plain_chord_pitches cand hp he, plain_chord_pitches (mkP cand f o) (mkP_plain _ _ _) he, ?_⟩
  have : (figShape (mkP cand f o).ext.fig).1 = (figShape cand.ext.fig).1 := family_shape f _ hf hg hfam
  rw [this, List.map_map, List.map_map]
  apply List.map_congr_left
  intro j _
  simp only [Function.comp, Chord.degPitch, Chord.base, mkP]
  omega


/-! ### any candidate (modifiers included): the result is a re-voicing -/

/-- `c'` is a re-voicing of `c`: same degree, tonality (degree, mode), parts and modifiers
(up to written order), figure in the same family; only figure, chord octave and tonality
octave may differ -/
def Rv (c c' : Chord) : Prop :=
  c'.elem = c.elem ∧ c'.ton.deg = c.ton.deg ∧ c'.ton.mode = c.ton.mode ∧ c'.parts = c.parts ∧
  sortStrs c'.ext.repl = sortStrs c.ext.repl ∧ sortStrs c'.ext.add = sortStrs c.ext.add ∧
  sortStrs c'.ext.rem = sortStrs c.ext.rem ∧
  (c'.ext.fig ∈ threeFigs ↔ c.ext.fig ∈ threeFigs) ∧ (c'.ext.fig ∈ fourFigs ↔ c.ext.fig ∈ fourFigs)

theorem Rv.refl (c : Chord) : Rv c c := ⟨rfl, rfl, rfl, rfl, rfl, rfl, rfl, Iff.rfl, Iff.rfl⟩

theorem Rv.trans {a b c : Chord} (h1 : Rv a b) (h2 : Rv b c) : Rv a c := by
  obtain ⟨a1, a2, a3, a4, a5, a6, a7, a8, a9⟩ := h1
  obtain ⟨b1, b2, b3, b4, b5, b6, b7, b8, b9⟩ := h2
  exact ⟨b1.trans a1, b2.trans a2, b3.trans a3, b4.trans a4, b5.trans a5, b6.trans a6, b7.trans a7,
    b8.trans a8, b9.trans a9⟩

/-- a step of the algorithm: a re-voicing that keeps the tonality object -/
def Rs (c c' : Chord) : Prop := Rv c c' ∧ c'.ton = c.ton

theorem Rs.refl (c : Chord) : Rs c c := ⟨Rv.refl c, rfl⟩
theorem Rs.trans {a b c : Chord} (h1 : Rs a b) (h2 : Rs b c) : Rs a c := ⟨h1.1.trans h2.1, h2.2.trans h1.2⟩
theorem Rs.o (c : Chord) (k : Int) : Rs c (c.o k) := ⟨⟨rfl, rfl, rfl, rfl, rfl, rfl, rfl, Iff.rfl, Iff.rfl⟩, rfl⟩

theorem Rs.withExt (c c1 : Chord) (e : Ext) (h : c.withExt e = .ok c1)
    (hr : e.repl = sortStrs c.ext.repl) (ha : e.add = sortStrs c.ext.add) (hm : e.rem = sortStrs c.ext.rem)
    (h3 : e.fig ∈ threeFigs ↔ c.ext.fig ∈ threeFigs) (h4 : e.fig ∈ fourFigs ↔ c.ext.fig ∈ fourFigs) : Rs c c1 := by
  obtain ⟨hc1, _⟩ := withExt_ok c e c1 h
  subst hc1
  refine ⟨⟨rfl, rfl, rfl, rfl, ?_, ?_, ?_, h3, h4⟩, rfl⟩
  · show sortStrs (sortStrs e.repl) = _; rw [hr, sortStrs_idem, sortStrs_idem]
  · show sortStrs (sortStrs e.add) = _; rw [ha, sortStrs_idem, sortStrs_idem]
  · show sortStrs (sortStrs e.rem) = _; rw [hm, sortStrs_idem, sortStrs_idem]

theorem Rs.toRootExt (c c1 : Chord) (h : c.toRootExt = .ok c1) : Rs c c1 := by
  unfold Chord.toRootExt Ext.props at h
  simp only at h
  refine Rs.withExt c c1 _ h rfl rfl rfl ?_ ?_ <;> cases c.ext.fig <;> simp [threeFigs, fourFigs]

theorem Rs.invert (c c1 : Chord) (k : Int) (h : c.invert k = .ok c1) : Rs c c1 := by
  rw [invert_eq] at h
  by_cases hf : c.ext.fig ∈ fourFigs ∨ c.ext.fig ∈ threeFigs
  · simp only [hf, if_true] at h
    refine Rs.withExt c c1 _ h rfl rfl rfl ?_ ?_
    · show invFig c.ext.fig k ∈ threeFigs ↔ _
      rcases hf with h4 | h3
      · have := (invFig_mem c.ext.fig k).1 h4
        constructor
        · intro h; exfalso
          simp only [fourFigs, threeFigs, List.mem_cons, List.mem_nil_iff, or_false] at this h
          rcases this with e | e | e | e <;> rw [e] at h <;> simp at h
        · intro h; exfalso
          simp only [fourFigs, threeFigs, List.mem_cons, List.mem_nil_iff, or_false] at h4 h
          rcases h4 with e | e | e | e <;> rw [e] at h <;> simp at h
      · exact ⟨fun _ => h3, fun _ => (invFig_mem c.ext.fig k).2 h3⟩
    · show invFig c.ext.fig k ∈ fourFigs ↔ _
      rcases hf with h4 | h3
      · exact ⟨fun _ => h4, fun _ => (invFig_mem c.ext.fig k).1 h4⟩
      · have := (invFig_mem c.ext.fig k).2 h3
        constructor
        · intro h; exfalso
          simp only [fourFigs, threeFigs, List.mem_cons, List.mem_nil_iff, or_false] at this h
          rcases this with e | e | e <;> rw [e] at h <;> simp at h
        · intro h; exfalso
          simp only [fourFigs, threeFigs, List.mem_cons, List.mem_nil_iff, or_false] at h3 h
          rcases h3 with e | e | e <;> rw [e] at h <;> simp at h
  · simp [hf] at h

theorem Rs.ite (p : Prop) [Decidable p] (c : Chord) (k : Int) : Rs c (if p then c.o k else c) := by
  split
  · exact Rs.o c k
  · exact Rs.refl c

theorem invert_ok_fig (c c1 : Chord) (k : Int) (h : c.invert k = .ok c1) :
    c1.ext.fig ∈ fourFigs ∨ c1.ext.fig ∈ threeFigs := by
  rw [invert_eq] at h
  by_cases hf : c.ext.fig ∈ fourFigs ∨ c.ext.fig ∈ threeFigs
  · simp only [hf, if_true] at h
    obtain ⟨hc1, _⟩ := withExt_ok c _ c1 h
    subst hc1
    show invFig c.ext.fig k ∈ fourFigs ∨ invFig c.ext.fig k ∈ threeFigs
    rcases hf with h4 | h3
    · exact Or.inl ((invFig_mem _ k).1 h4)
    · exact Or.inr ((invFig_mem _ k).2 h3)
  · simp [hf] at h

theorem ite_o_fig (p : Prop) [Decidable p] (c : Chord) (k : Int) : (if p then c.o k else c).ext = c.ext := by
  split <;> rfl

/-- every successful run of the re-voicing, for ANY candidate (modifiers included) and any
reference bass, returns a re-voicing of the candidate in the sense of `Rv`, with tonality
octave 0 and a triad / seventh-chord figure -/
theorem pvlFrom_rv (root : Int) (cand : Chord) (nb : Int) (dir : Dir) (c' : Chord)
    (h : Chord.pvlFrom root cand nb dir = .ok c') :
    Rv cand c' ∧ c'.ton.oct = 0 ∧ (c'.ext.fig ∈ fourFigs ∨ c'.ext.fig ∈ threeFigs) := by
  have h0 : Rv cand ({ cand with oct := 0, ton := { cand.ton with oct := 0 } } : Chord) :=
    ⟨rfl, rfl, rfl, rfl, rfl, rfl, rfl, Iff.rfl, Iff.rfl⟩
  suffices hs : Rs ({ cand with oct := 0, ton := { cand.ton with oct := 0 } } : Chord) c' ∧
      (c'.ext.fig ∈ fourFigs ∨ c'.ext.fig ∈ threeFigs) by
    refine ⟨h0.trans hs.1.1, ?_, hs.2⟩
    rw [hs.1.2]
  unfold Chord.pvlFrom at h
  simp only [bind, Except.bind] at h
  cases h1 : ({ cand with oct := 0, ton := { cand.ton with oct := 0 } } : Chord).toRootExt with
  | error e => simp [h1] at h
  | ok fc1 =>
    have r1 := Rs.toRootExt _ _ h1
    simp only [h1] at h
    cases h2 : fc1.bassPitch with
    | error e => simp [h2] at h
    | ok otherRoot =>
      simp only [h2] at h
      generalize hoo : roundHalfEven (otherRoot - root) 12 = oo at h
      generalize hopt : -roundHalfEven (nb * (otherRoot - root - oo * 12)) 12 = opt at h
      cases h3 : (fc1.o (-oo)).invert opt with
      | error e => simp [h3] at h
      | ok fc3 =>
        have r3 := r1.trans ((Rs.o fc1 (-oo)).trans (Rs.invert _ _ _ h3))
        have f3 := invert_ok_fig _ _ _ h3
        simp only [h3] at h
        have r4 := r3.trans (Rs.ite (opt < 0) fc3 (-1))
        have f4 : (if opt < 0 then fc3.o (-1) else fc3).ext.fig ∈ fourFigs ∨ (if opt < 0 then fc3.o (-1) else fc3).ext.fig ∈ threeFigs := by
          rw [ite_o_fig]; exact f3
        generalize (if opt < 0 then fc3.o (-1) else fc3) = fc4 at h r4 f4
        cases h4 : fc4.bassPitch with
        | error e => simp [h4] at h
        | ok b =>
          simp only [h4] at h
          split at h
          · cases h5 : fc4.inversionIndex with
            | error e => simp [h5] at h
            | ok idx =>
              simp only [h5] at h
              cases h6 : fc4.invert (idx - 1 - idx) with
              | error e => simp [h6] at h
              | ok fc5 =>
                simp only [h6, pure, Except.pure, Except.ok.injEq] at h
                rw [← h]
                refine ⟨r4.trans ((Rs.invert _ _ _ h6).trans (Rs.ite _ fc5 (-1))), ?_⟩
                rw [ite_o_fig]; exact invert_ok_fig _ _ _ h6
          · split at h
            · cases h5 : fc4.inversionIndex with
              | error e => simp [h5] at h
              | ok idx =>
                simp only [h5] at h
                cases h6 : fc4.invert (idx + 1 - idx) with
                | error e => simp [h6] at h
                | ok fc5 =>
                  simp only [h6, pure, Except.pure, Except.ok.injEq] at h
                  rw [← h]
                  refine ⟨r4.trans ((Rs.invert _ _ _ h6).trans (Rs.ite _ fc5 1)), ?_⟩
                  rw [ite_o_fig]; exact invert_ok_fig _ _ _ h6
            · simp only [pure, Except.pure, Except.ok.injEq] at h
              rw [← h]; exact ⟨r4, f4⟩

end MV
