/-
Lemmas for C11: `Score.replace_instruments` / `normalize_instrument_names` (the parts of
every chord re-listed in the order of the score's instruments, under new names) and the
full normalisation.
-/
import MV.Lemmas.RenotateSplit
namespace MV
open Gen C02

/-! ### first-appearance lists; chord duration as a set maximum -/
/-! first-appearance lists have no repetition -/

theorem dedupInto_nodup (acc l : List String) (h : acc.Nodup) : (dedupInto acc l).Nodup := by
  induction l generalizing acc with
  | nil => exact h
  | cons a r ih =>
    unfold dedupInto at ih ⊢
    simp only [List.foldl_cons]
    by_cases hc : acc.contains a = true
    · simp only [hc, if_true]; exact ih acc h
    · simp only [hc, Bool.false_eq_true, if_false]
      apply ih
      rw [List.nodup_append]
      refine ⟨h, by simp, ?_⟩
      intro x hx y hy
      simp only [List.mem_singleton] at hy
      subst hy
      intro he; subst he
      exact hc (List.contains_iff_mem.mpr hx)

theorem trackList_nodup (s : Score) : (trackList s).Nodup := by
  rw [trackList_eq]; exact dedupInto_nodup [] _ List.nodup_nil

/-! `Chord.duration` only depends on the set of part durations -/

theorem foldl_max_ge (l : List Rat) (d : Rat) : d ≤ l.foldl max d ∧ ∀ x ∈ l, x ≤ l.foldl max d := by
  induction l generalizing d with
  | nil => exact ⟨by grind, fun x hx => by cases hx⟩
  | cons a r ih =>
    simp only [List.foldl_cons]
    obtain ⟨h1, h2⟩ := ih (max d a)
    have hda : d ≤ max d a ∧ a ≤ max d a := by constructor <;> grind
    refine ⟨by grind, ?_⟩
    intro x hx
    rcases List.mem_cons.mp hx with rfl | hx
    · grind
    · exact h2 x hx

theorem foldl_max_mem (l : List Rat) (d : Rat) : l.foldl max d = d ∨ l.foldl max d ∈ l := by
  induction l generalizing d with
  | nil => exact Or.inl rfl
  | cons a r ih =>
    simp only [List.foldl_cons]
    rcases ih (max d a) with h | h
    · have : max d a = d ∨ max d a = a := by grind
      rcases this with e | e
      · left; rw [h, e]
      · right; rw [h, e]; simp
    · right; simp [h]

theorem dmax_same_elems (l1 l2 : List Rat) (h1 : ∀ x ∈ l1, x ∈ l2) (h2 : ∀ x ∈ l2, x ∈ l1) : dmax l1 = dmax l2 := by
  have key : ∀ (a b : List Rat), (∀ x ∈ a, x ∈ b) → a ≠ [] → dmax a ≤ dmax b := by
    intro a b hab hne
    cases a with
    | nil => exact absurd rfl hne
    | cons d ds =>
      have hmem : dmax (d :: ds) ∈ d :: ds := by
        simp only [dmax]
        rcases foldl_max_mem ds d with h | h
        · rw [h]; simp
        · simp [h]
      have hin := hab _ hmem
      cases b with
      | nil => cases hin
      | cons e es =>
        simp only [dmax] at hin ⊢
        obtain ⟨g1, g2⟩ := foldl_max_ge es e
        rcases List.mem_cons.mp hin with h | h
        · rw [h]; exact g1
        · exact g2 _ h
  cases l1 with
  | nil =>
    cases l2 with
    | nil => rfl
    | cons e es => exact absurd (h2 e (by simp)) (by simp)
  | cons d ds =>
    cases l2 with
    | nil => exact absurd (h1 d (by simp)) (by simp)
    | cons e es =>
      have a1 := key (d :: ds) (e :: es) h1 (by simp)
      have a2 := key (e :: es) (d :: ds) h2 (by simp)
      grind

/-! ### the parts of a chord under new names -/
/-- the new name of a part under a renaming dictionary -/
def renameOf (dict : List (String × String)) (ins : String) : String := (dict.lookup ins).getD ins

/-- the parts of a chord after `replace_instruments`, when no two instruments get the same name -/
def renamedParts (ρ : String → String) (G : List String) (c : Chord) : List (String × Melody) :=
  G.filterMap (fun ins => (c.parts.lookup ins).map (fun m => (ρ ins, m)))

/-- the loop of `replace_instruments` for one chord -/
def renameStep (ρ : String → String) (c : Chord) (acc : List (String × Melody)) (ins : String) : List (String × Melody) :=
  match c.parts.lookup ins with
  | none => acc
  | some m =>
      let nn := ρ ins
      if acc.any (·.1 == nn) then acc.map (fun p => if p.1 == nn then (nn, m) else p) else acc ++ [(nn, m)]

theorem replaceInstruments_eq (s : Score) (dict : List (String × String)) :
    Score.replaceInstruments s dict =
      s.map (fun c => c.withParts ((trackList s).foldl (renameStep (renameOf dict) c) [])) := rfl

theorem rename_fold (ρ : String → String) (c : Chord) (L : List String) (acc : List (String × Melody))
    (hnd : (L.map ρ).Nodup) (hdis : ∀ p ∈ acc, p.1 ∉ L.map ρ) :
    L.foldl (renameStep ρ c) acc = acc ++ L.filterMap (fun ins => (c.parts.lookup ins).map (fun m => (ρ ins, m))) := by
  induction L generalizing acc with
  | nil => simp
  | cons a r ih =>
    simp only [List.map_cons, List.nodup_cons] at hnd
    simp only [List.foldl_cons, List.filterMap_cons]
    cases hl : c.parts.lookup a with
    | none =>
      simp only [renameStep, hl, Option.map_none]
      exact ih acc hnd.2 (fun p hp hm => hdis p hp (by simp [hm]))
    | some m =>
      simp only [renameStep, hl, Option.map_some]
      have hany : acc.any (fun p => p.1 == ρ a) = false := by
        apply Bool.eq_false_iff.mpr
        intro h
        obtain ⟨p, hp, hpe⟩ := List.any_eq_true.mp h
        have : p.1 = ρ a := by simpa using hpe
        exact hdis p hp (by simp [this])
      simp only [hany, Bool.false_eq_true, if_false]
      rw [ih (acc ++ [(ρ a, m)]) hnd.2 ?_]
      · simp
      · intro p hp hm
        rcases List.mem_append.mp hp with h | h
        · exact hdis p h (by simp [hm])
        · simp only [List.mem_singleton] at h
          subst h
          exact hnd.1 hm

theorem renamedParts_lookup_none (ρ : String → String) (G : List String) (c : Chord) (t : String)
    (h : t ∉ G.map ρ) : (renamedParts ρ G c).lookup t = none := by
  apply lookup_none_of_not_mem
  intro hm
  apply h
  obtain ⟨p, hp, rfl⟩ := List.mem_map.mp hm
  obtain ⟨ins, hins, hpe⟩ := List.mem_filterMap.mp hp
  cases hl : c.parts.lookup ins with
  | none => rw [hl] at hpe; cases hpe
  | some m =>
    rw [hl] at hpe
    simp only [Option.map_some, Option.some.injEq] at hpe
    rw [← hpe]
    exact List.mem_map.mpr ⟨ins, hins, rfl⟩

/-- the part that gets the new name of `g` is the part that was named `g` -/
theorem renamedParts_lookup (ρ : String → String) (G : List String) (c : Chord) (hnd : (G.map ρ).Nodup)
    (g : String) (hg : g ∈ G) : (renamedParts ρ G c).lookup (ρ g) = c.parts.lookup g := by
  unfold renamedParts
  induction G with
  | nil => cases hg
  | cons a r ih =>
    simp only [List.map_cons, List.nodup_cons] at hnd
    simp only [List.filterMap_cons]
    by_cases hga : g = a
    · subst hga
      cases hl : c.parts.lookup g with
      | none =>
        simp only [Option.map_none]
        exact renamedParts_lookup_none ρ r c (ρ g) hnd.1
      | some m => simp
    · have hgr : g ∈ r := by
        rcases List.mem_cons.mp hg with h | h
        · exact absurd h hga
        · exact h
      have hne : ρ g ≠ ρ a := by
        intro he
        apply hnd.1
        rw [← he]; exact List.mem_map.mpr ⟨g, hgr, rfl⟩
      cases hl : c.parts.lookup a with
      | none => simp only [Option.map_none]; exact ih hnd.2 hgr
      | some m =>
        simp only [Option.map_some, List.lookup_cons]
        have : (ρ g == ρ a) = false := by simpa using hne
        rw [this]; exact ih hnd.2 hgr

theorem lookup_of_mem_nodup (ps : List (String × Melody)) (hnd : (ps.map (·.1)).Nodup) (k : String) (m : Melody)
    (h : (k, m) ∈ ps) : ps.lookup k = some m := by
  induction ps with
  | nil => cases h
  | cons a r ih =>
    obtain ⟨ka, ma⟩ := a
    simp only [List.map_cons, List.nodup_cons] at hnd
    simp only [List.lookup_cons]
    rcases List.mem_cons.mp h with h' | h'
    · injection h' with h1 h2; subst h1; subst h2; simp
    · have : k ≠ ka := by
        intro he; subst he
        exact hnd.1 (List.mem_map.mpr ⟨(k, m), h', rfl⟩)
      have hk : (k == ka) = false := by simpa using this
      rw [hk]; exact ih hnd.2 h'

/-- the renamed chord lasts as long as the chord -/
theorem renamedParts_dur (ρ : String → String) (G : List String) (c : Chord) (hc : (c.parts.map (·.1)).Nodup)
    (hsub : ∀ k ∈ c.parts.map (·.1), k ∈ G) : (c.withParts (renamedParts ρ G c)).dur = c.dur := by
  rw [dur_eq_dmax, dur_eq_dmax]
  apply dmax_same_elems
  · intro x hx
    obtain ⟨p', hp', rfl⟩ := List.mem_map.mp hx
    obtain ⟨ins, _, hpe⟩ := List.mem_filterMap.mp hp'
    cases hl : c.parts.lookup ins with
    | none => rw [hl] at hpe; cases hpe
    | some m =>
      rw [hl] at hpe
      simp only [Option.map_some, Option.some.injEq] at hpe
      obtain ⟨l1, l2, e, _⟩ := List.lookup_eq_some_iff.mp hl
      refine List.mem_map.mpr ⟨(ins, m), by rw [e]; simp, ?_⟩
      rw [← hpe]
  · intro x hx
    obtain ⟨p, hp, rfl⟩ := List.mem_map.mp hx
    have hk : p.1 ∈ G := hsub p.1 (List.mem_map.mpr ⟨p, hp, rfl⟩)
    have hl := lookup_of_mem_nodup c.parts hc p.1 p.2 hp
    refine List.mem_map.mpr ⟨(ρ p.1, p.2), ?_, rfl⟩
    exact List.mem_filterMap.mpr ⟨p.1, hk, by rw [hl]; rfl⟩

/-! ### renaming and first appearances -/
theorem inj_of_nodup_map (ρ : String → String) (G : List String) (h : (G.map ρ).Nodup) (x y : String)
    (hx : x ∈ G) (hy : y ∈ G) (he : ρ x = ρ y) : x = y := by
  induction G with
  | nil => cases hx
  | cons a r ih =>
    simp only [List.map_cons, List.nodup_cons] at h
    rcases List.mem_cons.mp hx with rfl | hx' <;> rcases List.mem_cons.mp hy with rfl | hy'
    · rfl
    · exact absurd (List.mem_map.mpr ⟨y, hy', he.symm⟩) h.1
    · exact absurd (List.mem_map.mpr ⟨x, hx', he⟩) h.1
    · exact ih h.2 hx' hy'

/-- renaming commutes with taking first appearances -/
theorem dedupInto_map (ρ : String → String) (G : List String) (hnd : (G.map ρ).Nodup) (acc l : List String)
    (ha : ∀ x ∈ acc, x ∈ G) (hl : ∀ x ∈ l, x ∈ G) :
    dedupInto (acc.map ρ) (l.map ρ) = (dedupInto acc l).map ρ := by
  induction l generalizing acc with
  | nil => rfl
  | cons a r ih =>
    have haG : a ∈ G := hl a (by simp)
    have hc : (acc.map ρ).contains (ρ a) = acc.contains a := by
      cases h : acc.contains a with
      | true => exact List.contains_iff_mem.mpr (List.mem_map.mpr ⟨a, List.contains_iff_mem.mp h, rfl⟩)
      | false =>
        apply Bool.eq_false_iff.mpr
        intro h2
        obtain ⟨x, hx, he⟩ := List.mem_map.mp (List.contains_iff_mem.mp h2)
        have := inj_of_nodup_map ρ G hnd x a (ha x hx) haG he
        subst this
        rw [List.contains_iff_mem.mpr hx] at h; cases h
    unfold dedupInto at ih ⊢
    simp only [List.map_cons, List.foldl_cons, hc]
    by_cases h : acc.contains a = true
    · simp only [h, if_true]
      exact ih acc ha (fun x hx => hl x (by simp [hx]))
    · simp only [h, Bool.false_eq_true, if_false]
      have := ih (acc ++ [a]) (fun x hx => by
        rcases List.mem_append.mp hx with h1 | h1
        · exact ha x h1
        · simp only [List.mem_singleton] at h1; subst h1; exact haG) (fun x hx => hl x (by simp [hx]))
      simpa using this

theorem news_subset (acc l : List String) : ∀ x ∈ news acc l, x ∈ l := by
  induction l generalizing acc with
  | nil => intro x hx; simp [news] at hx
  | cons a r ih =>
    intro x hx
    simp only [news] at hx
    by_cases h : acc.contains a = true
    · simp only [h, if_true] at hx; simp [ih acc x hx]
    · simp only [h, Bool.false_eq_true, if_false, List.mem_cons] at hx
      rcases hx with rfl | hx
      · simp
      · simp [ih _ x hx]

/-- listing, chord after chord, the instruments present in the order of the score's
instrument list gives the same first appearances -/
theorem dedupInto_relist (Ns : List (List String)) (A G : List String) (hG : G = dedupInto A Ns.flatten) :
    dedupInto A (Ns.flatMap (fun N => G.filter (fun g => N.contains g))) = G := by
  induction Ns generalizing A with
  | nil => simp [dedupInto] at hG ⊢; exact hG.symm
  | cons N Ns' ih =>
    simp only [List.flatten_cons, dedupInto_append] at hG
    simp only [List.flatMap_cons, dedupInto_append]
    have hclaim : dedupInto A (G.filter (fun g => N.contains g)) = dedupInto A N := by
      have hA' : dedupInto A N = A ++ news A N := dedupInto_eq A N
      have hGd : G = (A ++ news A N) ++ news (A ++ news A N) Ns'.flatten := by
        rw [hG, hA', dedupInto_eq]
      have hmemN : ∀ x ∈ N, x ∈ A ++ news A N := by
        intro x hx
        rw [← hA', mem_dedupInto]; exact Or.inr hx
      rw [hGd, List.filter_append, List.filter_append]
      have h2 : (news A N).filter (fun g => N.contains g) = news A N := by
        apply List.filter_eq_self.mpr
        intro x hx
        exact List.contains_iff_mem.mpr (news_subset A N x hx)
      have h3 : (news (A ++ news A N) Ns'.flatten).filter (fun g => N.contains g) = [] := by
        apply List.filter_eq_nil_iff.mpr
        intro x hx hc
        exact news_not_mem _ _ x hx (hmemN x (List.contains_iff_mem.mp hc))
      rw [h2, h3, List.append_nil, dedupInto_append]
      have h1 : dedupInto A (A.filter (fun g => N.contains g)) = A := by
        apply dedupInto_subset
        intro x hx
        exact (List.mem_filter.mp hx).1
      rw [h1, dedupInto_news, hA']
    rw [hclaim]
    exact ih (dedupInto A N) hG

/-! ### replace_instruments plays the same -/
/-- the score after `replace_instruments`, when no two instruments get the same name -/
def renamedScore (ρ : String → String) (s : Score) : Score :=
  s.map (fun c => c.withParts (renamedParts ρ (trackList s) c))

theorem replaceInstruments_renamed (s : Score) (dict : List (String × String))
    (hnd : ((trackList s).map (renameOf dict)).Nodup) :
    Score.replaceInstruments s dict = renamedScore (renameOf dict) s := by
  rw [replaceInstruments_eq]
  unfold renamedScore renamedParts
  apply List.map_congr_left
  intro c _
  rw [rename_fold (renameOf dict) c (trackList s) [] hnd (fun p hp => by cases hp)]
  simp

theorem renamedParts_names (ρ : String → String) (G : List String) (c : Chord) :
    (renamedParts ρ G c).map (·.1) = (G.filter (fun g => (c.parts.map (·.1)).contains g)).map ρ := by
  unfold renamedParts
  induction G with
  | nil => rfl
  | cons a r ih =>
    simp only [List.filterMap_cons, List.filter_cons]
    cases hl : c.parts.lookup a with
    | none =>
      have : (c.parts.map (·.1)).contains a = false := by
        apply Bool.eq_false_iff.mpr
        intro h
        obtain ⟨m, hm⟩ := lookup_some_of_mem c.parts a (List.contains_iff_mem.mp h)
        rw [hl] at hm; cases hm
      simp only [Option.map_none, this, Bool.false_eq_true, if_false]
      exact ih
    | some m =>
      have : (c.parts.map (·.1)).contains a = true :=
        List.contains_iff_mem.mpr (mem_of_lookup_some c.parts a m hl)
      simp only [Option.map_some, this, if_true, List.map_cons, ih]

theorem renamed_trackList (ρ : String → String) (s : Score) (hnd : ((trackList s).map ρ).Nodup) :
    trackList (renamedScore ρ s) = (trackList s).map ρ := by
  generalize hG : trackList s = G at hnd
  have hflat : (renamedScore ρ s).flatMap (fun c => c.parts.map (·.1))
      = ((s.map (fun c => c.parts.map (·.1))).flatMap (fun N => G.filter (fun g => N.contains g))).map ρ := by
    unfold renamedScore
    rw [hG]
    simp only [List.flatMap_map, List.map_flatMap]
    clear hG hnd
    induction s with
    | nil => rfl
    | cons c cs ih =>
      simp only [List.flatMap_cons, ih]
      congr 1
      exact renamedParts_names ρ G c
  rw [trackList_eq, hflat]
  have hGeq : G = dedupInto [] (s.map (fun c => c.parts.map (·.1))).flatten := by
    rw [← hG, trackList_eq, List.flatMap_def]
  have hrel := dedupInto_relist (s.map (fun c => c.parts.map (·.1))) [] G hGeq
  have := dedupInto_map ρ G hnd [] ((s.map (fun c => c.parts.map (·.1))).flatMap (fun N => G.filter (fun g => N.contains g)))
    (fun x hx => by cases hx) (fun x hx => by
      obtain ⟨N, _, hxN⟩ := List.mem_flatMap.mp hx
      exact (List.mem_filter.mp hxN).1)
  simp only [List.map_nil] at this
  rw [this, hrel]

/-- the rows of the track under its new name are the rows of the track -/
theorem renamed_trackRows (ρ : String → String) (G : List String) (hnd : (G.map ρ).Nodup) (g : String) (hg : g ∈ G)
    (idx : Nat) (s : Score) (hd : DistinctParts s) (hsub : ∀ c ∈ s, ∀ k ∈ c.parts.map (·.1), k ∈ G)
    (time : Rat) (last : Option Int) :
    trackRows (ρ g) idx (s.map (fun c => c.withParts (renamedParts ρ G c))) time last = trackRows g idx s time last := by
  induction s generalizing time last with
  | nil => rfl
  | cons c cs ih =>
    have hd' : DistinctParts cs := fun x hx => hd x (by simp [hx])
    have hsub' : ∀ c ∈ cs, ∀ k ∈ c.parts.map (·.1), k ∈ G := fun x hx => hsub x (by simp [hx])
    simp only [List.map_cons, trackRows]
    have hl : (c.withParts (renamedParts ρ G c)).parts.lookup (ρ g) = c.parts.lookup g :=
      renamedParts_lookup ρ G c hnd g hg
    rw [hl, renamedParts_dur ρ G c (hd c (by simp)) (hsub c (by simp))]
    cases c.parts.lookup g with
    | none => exact ih hd' hsub' _ _
    | some m =>
      simp only
      have hcongr : ∀ (q : Melody) (tm : Rat) (l : Option Int),
          melodyToRows q (c.withParts (renamedParts ρ G c)) idx tm l = melodyToRows q c idx tm l := by
        intro q
        induction q with
        | nil => intro tm l; rfl
        | cons x xs ihx =>
          intro tm l
          simp only [melodyToRows]
          have : noteToRow x (c.withParts (renamedParts ρ G c)) idx tm l = noteToRow x c idx tm l := by
            unfold noteToRow; rw [noteToPitch_congr _ _ (sameHead_withParts c _)]
          rw [this]
          simp only [bind, Except.bind]
          cases noteToRow x c idx tm l with
          | error e => rfl
          | ok v => simp only [ihx]
      rw [hcongr]
      simp only [bind, Except.bind]
      cases melodyToRows m c idx time last with
      | error e => rfl
      | ok v => simp only [ih hd' hsub']

theorem zipIdx_map' {α β : Type} (f : α → β) (l : List α) (k : Nat) :
    (l.map f).zipIdx k = (l.zipIdx k).map (fun x => (f x.1, x.2)) := by
  induction l generalizing k with
  | nil => rfl
  | cons a r ih => simp only [List.map_cons, List.zipIdx_cons, ih]

theorem mapM_map' {α β γ : Type} (f : α → β) (g : β → Res γ) (l : List α) : (l.map f).mapM g = l.mapM (fun x => g (f x)) := by
  induction l with
  | nil => rfl
  | cons a r ih => simp only [List.map_cons, List.mapM_cons, ih]

theorem mapM_congr' {α β : Type} (f g : α → Res β) (l : List α) (h : ∀ x ∈ l, f x = g x) : l.mapM f = l.mapM g := by
  induction l with
  | nil => rfl
  | cons a r ih =>
    simp only [List.mapM_cons, h a (by simp), ih (fun x hx => h x (by simp [hx]))]

theorem mem_zipIdx_fst {α : Type} (l : List α) (k : Nat) (x : α × Nat) (h : x ∈ l.zipIdx k) : x.1 ∈ l := by
  induction l generalizing k with
  | nil => cases h
  | cons a r ih =>
    simp only [List.zipIdx_cons, List.mem_cons] at h
    rcases h with rfl | h
    · simp
    · simp [ih _ h]

/-- **replace_instruments / normalize_instrument_names play the same** (the tracks keep their
order; only their names change) -/
theorem renamedScore_plays (ρ : String → String) (s : Score) (hnd : ((trackList s).map ρ).Nodup) (hd : DistinctParts s) :
    plays (renamedScore ρ s) = plays s := by
  have hT := renamed_trackList ρ s hnd
  have hper : perTrack (renamedScore ρ s) = perTrack s := by
    unfold perTrack
    rw [hT, zipIdx_map', mapM_map']
    apply mapM_congr'
    intro x hx
    have hxG : x.1 ∈ trackList s := mem_zipIdx_fst _ _ x hx
    exact renamed_trackRows ρ (trackList s) hnd x.1 hxG x.2 s hd
      (fun c hc k hk => (mem_trackList s k).mpr (List.mem_flatMap.mpr ⟨c, hc, hk⟩)) 0 none
  cases hp : perTrack s with
  | error e => rw [plays_perTrack_error s e hp, plays_perTrack_error _ e (by rw [hper, hp])]
  | ok per => rw [plays_perTrack s per hp, plays_perTrack _ per (by rw [hper, hp])]

/-! ### what each step of the normalisation keeps of the layout -/
/-! what the note-wise re-notations keep of the layout -/

theorem all2_mem_right {α : Type} {R : α → α → Prop} (l l' : List α) (h : All2 R l l') :
    ∀ y ∈ l', ∃ x ∈ l, R x y := by
  induction h with
  | nil => intro y hy; cases hy
  | cons h1 _ ih =>
    intro y hy
    rcases List.mem_cons.mp hy with rfl | hy
    · exact ⟨_, by simp, h1⟩
    · obtain ⟨x, hx, hr⟩ := ih y hy
      exact ⟨x, by simp [hx], hr⟩

theorem chordRel_splittable (c c' : Chord) (h : ChordRel c c')
    (hc : ∀ p ∈ c.parts, PosDur p.2 ∧ melodyDuration p.2 = c.dur) :
    ∀ p' ∈ c'.parts, PosDur p'.2 ∧ melodyDuration p'.2 = c'.dur := by
  intro p' hp'
  obtain ⟨p, hp, _, hm⟩ := all2_mem_right _ _ h p' hp'
  have hd := all2_durs c c' p.2 p'.2 hm
  obtain ⟨h1, h2⟩ := hc p hp
  refine ⟨?_, ?_⟩
  · intro n hn
    have : n.dur ∈ p'.2.map (·.dur) := List.mem_map.mpr ⟨n, hn, rfl⟩
    rw [hd] at this
    obtain ⟨n0, hn0, e⟩ := List.mem_map.mp this
    rw [← e]; exact h1 n0 hn0
  · unfold melodyDuration at h2 ⊢
    rw [hd, h2, chordRel_dur c c' h]

theorem rel_splittable (s s' : Score) (h : All2 ChordRel s s') (hs : Splittable s) : Splittable s' := by
  intro c' hc'
  obtain ⟨c, hc, hr⟩ := all2_mem_right _ _ h c' hc'
  exact chordRel_splittable c c' hr (hs c hc)

theorem rel_distinct (s s' : Score) (h : All2 ChordRel s s') (hs : DistinctParts s) : DistinctParts s' := by
  intro c' hc'
  obtain ⟨c, hc, hr⟩ := all2_mem_right _ _ h c' hc'
  rw [all2_names _ _ hr]; exact hs c hc

theorem rel_positive (s s' : Score) (h : All2 ChordRel s s') (hs : ∀ c ∈ s, 0 < c.dur) : ∀ c' ∈ s', 0 < c'.dur := by
  intro c' hc'
  obtain ⟨c, hc, hr⟩ := all2_mem_right _ _ h c' hc'
  rw [chordRel_dur c c' hr]; exact hs c hc

theorem toStandardNote_elems (s s1 : Score) (he : ScoreElemOK s) (h1 : Score.toStandardNote s = .ok s1) : ScoreElemOK s1 := by
  intro c1 hc1
  unfold Score.toStandardNote scoreMapM at h1
  obtain ⟨c, hc, hcc⟩ := mapM_mem _ s s1 h1 c1 hc1
  unfold Chord.toStandardNote Chord.mapNotesM at hcc
  simp only [bind, Except.bind, pure, Except.pure] at hcc
  split at hcc
  · cases hcc
  · injection hcc with hcc; rw [← hcc]; exact he c hc

/-! the renamed score keeps the layout too -/

theorem renamed_splittable (ρ : String → String) (s : Score) (hd : DistinctParts s) (hs : Splittable s) :
    Splittable (renamedScore ρ s) := by
  intro c' hc'
  obtain ⟨c, hc, rfl⟩ := List.mem_map.mp hc'
  have hdur := renamedParts_dur ρ (trackList s) c (hd c hc)
    (fun k hk => (mem_trackList s k).mpr (List.mem_flatMap.mpr ⟨c, hc, hk⟩))
  intro p' hp'
  obtain ⟨ins, _, hpe⟩ := List.mem_filterMap.mp hp'
  cases hl : c.parts.lookup ins with
  | none => rw [hl] at hpe; cases hpe
  | some m =>
    rw [hl] at hpe
    simp only [Option.map_some, Option.some.injEq] at hpe
    obtain ⟨l1, l2, e, _⟩ := List.lookup_eq_some_iff.mp hl
    have hmem : (ins, m) ∈ c.parts := by rw [e]; simp
    obtain ⟨h1, h2⟩ := hs c hc (ins, m) hmem
    rw [← hpe, hdur]
    exact ⟨h1, h2⟩

theorem renamed_positive (ρ : String → String) (s : Score) (hd : DistinctParts s) (hs : ∀ c ∈ s, 0 < c.dur) :
    ∀ c' ∈ renamedScore ρ s, 0 < c'.dur := by
  intro c' hc'
  obtain ⟨c, hc, rfl⟩ := List.mem_map.mp hc'
  rw [renamedParts_dur ρ (trackList s) c (hd c hc)
    (fun k hk => (mem_trackList s k).mpr (List.mem_flatMap.mpr ⟨c, hc, hk⟩))]
  exact hs c hc

/-! the split keeps chords positive and their harmony -/

theorem pieceChords_pos_head (c0 : Chord) (D : Rat) (hok : SplitOK c0 D) (ds : List Rat) (hpos : ∀ d ∈ ds, 0 < d) (s : Rat)
    (hs : 0 ≤ s) (hsum : s + sumRat ds ≤ D) :
    ∀ x ∈ pieceChords c0 s ds, 0 < x.dur ∧ SameHead x c0 := by
  induction ds generalizing s with
  | nil => intro x hx; simp [pieceChords] at hx
  | cons d r ih =>
    have hd : 0 < d := hpos d (by simp)
    have hr : ∀ x ∈ r, 0 < x := fun x hx => hpos x (by simp [hx])
    have hnn := sumRat_nonneg r hr
    rw [sumRat_cons] at hsum
    intro x hx
    simp only [pieceChords, List.mem_cons] at hx
    rcases hx with rfl | hx
    · rw [piece_dur c0 D hok s d hs hd (by grind)]; exact ⟨hd, sameHead_withParts c0 _⟩
    · exact ih hr (s + d) (by grind) (by grind) x hx

theorem splitTooLong_pos_head (s : Score) (mx : Rat) (hmx : 0 < mx) (hs : Splittable s) (hp : ∀ c ∈ s, 0 < c.dur)
    (blocks : List (List Chord))
    (h : s.mapM (fun c => if c.dur > mx then c.split mx else pure [c]) = .ok blocks) :
    ∀ c' ∈ blocks.flatten, 0 < c'.dur ∧ ∃ c ∈ s, SameHead c' c := by
  induction s generalizing blocks with
  | nil =>
    simp only [List.mapM_nil, pure, Except.pure] at h
    injection h with h; subst h; intro c' hc'; simp at hc'
  | cons c cs ih =>
    simp only [List.mapM_cons, bind, Except.bind, pure, Except.pure] at h
    have hcs : Splittable cs := fun x hx => hs x (by simp [hx])
    have hpcs : ∀ x ∈ cs, 0 < x.dur := fun x hx => hp x (by simp [hx])
    have hc := hs c (by simp)
    by_cases hlong : c.dur > mx
    · simp only [hlong, if_true] at h
      have hok := splitOK_of_long c mx hmx hlong hc
      rw [chordSplit_eq c mx hmx hlong hok] at h
      simp only at h
      cases hrest : cs.mapM (fun c => if c.dur > mx then c.split mx else Except.ok [c]) with
      | error e => rw [hrest] at h; cases h
      | ok bs =>
        rw [hrest] at h
        simp only at h
        injection h with h; subst h
        obtain ⟨t1, t2, t3⟩ := splitTemplate_spec c.dur mx hmx hlong
        intro c' hc'
        simp only [List.flatten_cons] at hc'
        rcases List.mem_append.mp hc' with h1 | h1
        · obtain ⟨a1, a2⟩ := pieceChords_pos_head (c.andInt 0) c.dur (splitOK_andZero c c.dur hok) _
            (fun d hd => (t1 d hd).1) 0 (by grind) (by rw [t2]; grind) c' h1
          exact ⟨a1, c, by simp, a2⟩
        · obtain ⟨a1, c0, hc0, a2⟩ := ih hcs hpcs bs hrest c' h1
          exact ⟨a1, c0, by simp [hc0], a2⟩
    · simp only [hlong, if_false] at h
      cases hrest : cs.mapM (fun c => if c.dur > mx then c.split mx else Except.ok [c]) with
      | error e => rw [hrest] at h; cases h
      | ok bs =>
        rw [hrest] at h
        simp only at h
        injection h with h; subst h
        intro c' hc'
        simp only [List.flatten_cons, List.singleton_append] at hc'
        rcases List.mem_cons.mp hc' with rfl | h1
        · exact ⟨hp c' (by simp), c', by simp, ⟨⟨rfl, rfl, rfl⟩, rfl⟩⟩
        · obtain ⟨a1, c0, hc0, a2⟩ := ih hcs hpcs bs hrest c' h1
          exact ⟨a1, c0, by simp [hc0], a2⟩

/-! ### the full normalisation -/
/-- no two parts of the score get the same name from `normalize_instrument_names` (true for
part names of the form `name__idx`; decidable) -/
def RenamingInjective (s : Score) : Prop :=
  ((trackList s).map (renameOf (renameDict (trackList s)))).Nodup

theorem bassPitch_congr (c c' : Chord) (h : SameHead c c') : c.bassPitch = c'.bassPitch := by
  unfold Chord.bassPitch; rw [extensionPitches_congr c c' h]

theorem sameHead_trans (a b c : Chord) (h1 : SameHead a b) (h2 : SameHead b c) : SameHead a c :=
  ⟨⟨h1.1.1.trans h2.1.1, h1.1.2.1.trans h2.1.2.1, h1.1.2.2.trans h2.1.2.2⟩, h1.2.trans h2.2⟩

theorem filter_all {α : Type} (l : List α) (p : α → Bool) (h : ∀ x ∈ l, p x = true) : l.filter p = l :=
  List.filter_eq_self.mpr h

/-- **the full normalisation used after import** (standard notes, octave correction, part
names, chords of at most 8 quarters, no empty chord): what is played is unchanged, every chord
lasts at most 8 quarters and has its bass within half an octave of middle C -/
theorem normalize_spec (s s' : Score) (he : ScoreElemOK s) (hd : DistinctParts s) (hsp : Splittable s)
    (hpos : ∀ c ∈ s, 0 < c.dur) (hinj : RenamingInjective s) (h : Score.normalize s = .ok s') :
    (∀ snd, plays s = .ok snd → plays s' = .ok snd) ∧ (∀ c' ∈ s', c'.dur ≤ 8) ∧
    (∀ c' ∈ s', ∃ b, c'.bassPitch = .ok b ∧ -6 < b ∧ b ≤ 6) := by
  unfold Score.normalize at h
  simp only [bind, Except.bind, pure, Except.pure] at h
  cases h1 : Score.toStandardNote s with
  | error e => rw [h1] at h; cases h
  | ok s1 =>
    rw [h1] at h
    simp only at h
    cases h2 : Score.correctChordOctave s1 with
    | error e => rw [h2] at h; cases h
    | ok s2 =>
      rw [h2] at h
      simp only at h
      cases h4 : Score.splitTooLongChords (Score.normalizeInstrumentNames s2) 8 with
      | error e => rw [h4] at h; cases h
      | ok s4 =>
        rw [h4] at h
        simp only at h
        injection h with h
        -- steps 1 and 2: chord by chord, note by note
        have R1 : All2 ChordRel s s1 := scoreMapM_rel s s1 _ (fun c hc c' hcc =>
          mapNotesM_rel c c' _ (fun n n' hn => toStandardNote_sim c (he c hc) n n' hn) hcc) h1
        have he1 := toStandardNote_elems s s1 he h1
        have R2 : All2 ChordRel s1 s2 :=
          scoreMapM_rel s1 s2 _ (fun c hc c' hcc => (correctOctave_spec c c' (he1 c hc) hcc).1) h2
        have hbass := correctChordOctave_range s1 s2 he1 h2
        have P1 := plays_of_sameRendering s s1 (sameRendering_of_rel s s1 R1)
        have P2 := plays_of_sameRendering s1 s2 (sameRendering_of_rel s1 s2 R2)
        have hT2 : trackList s2 = trackList s := (trackList_of_rel s1 s2 R2).trans (trackList_of_rel s s1 R1)
        have hd2 := rel_distinct s1 s2 R2 (rel_distinct s s1 R1 hd)
        have hsp2 := rel_splittable s1 s2 R2 (rel_splittable s s1 R1 hsp)
        have hpos2 := rel_positive s1 s2 R2 (rel_positive s s1 R1 hpos)
        -- step 3: new names
        have hinj2 : ((trackList s2).map (renameOf (renameDict (trackList s2)))).Nodup := by rw [hT2]; exact hinj
        have h3 : Score.normalizeInstrumentNames s2 = renamedScore (renameOf (renameDict (trackList s2))) s2 :=
          replaceInstruments_renamed s2 _ hinj2
        rw [h3] at h4
        have P3 := renamedScore_plays (renameOf (renameDict (trackList s2))) s2 hinj2 hd2
        have hsp3 := renamed_splittable (renameOf (renameDict (trackList s2))) s2 hd2 hsp2
        have hpos3 := renamed_positive (renameOf (renameDict (trackList s2))) s2 hd2 hpos2
        -- step 4: the split
        obtain ⟨P4, _, hmax⟩ := splitTooLongChords_spec _ s4 8 (by grind) hsp3 h4
        have hblocks : ∃ blocks, (renamedScore (renameOf (renameDict (trackList s2))) s2).mapM
            (fun c => if c.dur > 8 then c.split 8 else pure [c]) = .ok blocks ∧ s4 = blocks.flatten := by
          unfold Score.splitTooLongChords at h4
          simp only [bind, Except.bind, pure, Except.pure] at h4
          split at h4
          · cases h4
          · rename_i blocks hb
            injection h4 with h4
            exact ⟨blocks, hb, h4.symm⟩
        obtain ⟨blocks, hb, hs4⟩ := hblocks
        have hph := splitTooLong_pos_head _ 8 (by grind) hsp3 hpos3 blocks hb
        rw [← hs4] at hph
        -- step 5: nothing to remove
        have h5 : Score.removeEmptyChords s4 = s4 := by
          unfold Score.removeEmptyChords
          apply filter_all
          intro c' hc'
          simpa using (hph c' hc').1
        rw [h5] at h
        subst h
        refine ⟨fun snd hp => ?_, hmax, ?_⟩
        · apply P4
          rw [P3]
          exact P2 snd (P1 snd hp)
        · intro c' hc'
          obtain ⟨_, c3, hc3, hh3⟩ := hph c' hc'
          obtain ⟨c2, hc2, rfl⟩ := List.mem_map.mp hc3
          obtain ⟨b, hb1, hb2⟩ := hbass c2 hc2
          refine ⟨b, ?_, hb2⟩
          rw [bassPitch_congr c' c2 (sameHead_trans _ _ _ hh3 (sameHead_withParts c2 _))]
          exact hb1

end MV
