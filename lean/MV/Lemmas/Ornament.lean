/-
Lemmas for C16 (ornament realisation).

Part A — exact arithmetic (`rd = id`): every builder returns a figure of the same total
          duration, made of non-negative pieces, and never raises (`Good`).
Part B — transfer: a rounding function that fixes every piece of every intermediate figure
          of the exact run produces the same run (`chain_transfer`).
Part C — denominators of the pieces of one builder (closed-form sufficient condition).
-/
import Mathlib.Tactic.Ring
import Mathlib.Tactic.Linarith
import Mathlib.Tactic.FieldSimp
import Mathlib.Tactic.Positivity
import MV.Model.Ornament

namespace MV.Orn
open MV

/-! ## sums of durations -/

@[simp] theorem durSum_nil : durSum [] = 0 := rfl
@[simp] theorem durSum_cons (n : Note) (ns : List Note) : durSum (n :: ns) = n.dur + durSum ns := rfl

theorem durSum_append (a b : List Note) : durSum (a ++ b) = durSum a + durSum b := by
  induction a with
  | nil => simp
  | cons n ns ih => simp [ih, add_assoc]

theorem durSum_map_mul (f : Note → Note) (c : Rat) (h : ∀ n, (f n).dur = n.dur * c) (ns : List Note) :
    durSum (ns.map f) = durSum ns * c := by
  induction ns with
  | nil => simp
  | cons n ns ih => simp [ih, h, add_mul]

theorem durSum_map_same (f : Note → Note) (h : ∀ n, (f n).dur = n.dur) (ns : List Note) :
    durSum (ns.map f) = durSum ns := by
  induction ns with
  | nil => simp
  | cons n ns ih => simp [ih, h]

theorem durSum_replicate (k : Nat) (t : Note) : durSum (List.replicate k t) = k * t.dur := by
  induction k with
  | zero => simp
  | succ k ih => simp [List.replicate_succ, ih]; ring

/-- all pieces of a list have a non-negative duration -/
def NonnegL (l : List Note) : Prop := ∀ p ∈ l, 0 ≤ p.dur

theorem nonnegL_nil : NonnegL [] := by intro p hp; simp at hp

theorem nonnegL_append {a b : List Note} : NonnegL (a ++ b) ↔ NonnegL a ∧ NonnegL b := by
  unfold NonnegL
  constructor
  · intro h; exact ⟨fun p hp => h p (List.mem_append_left _ hp), fun p hp => h p (List.mem_append_right _ hp)⟩
  · rintro ⟨ha, hb⟩ p hp
    rcases List.mem_append.mp hp with h | h
    · exact ha p h
    · exact hb p h

theorem nonnegL_singleton {n : Note} : NonnegL [n] ↔ 0 ≤ n.dur := by
  unfold NonnegL; simp

theorem nonnegL_cons {n : Note} {l : List Note} : NonnegL (n :: l) ↔ 0 ≤ n.dur ∧ NonnegL l := by
  unfold NonnegL; simp

theorem nonnegL_map (f : Note → Note) (l : List Note) (h : ∀ n ∈ l, 0 ≤ (f n).dur) : NonnegL (l.map f) := by
  intro p hp
  obtain ⟨q, hq, rfl⟩ := List.mem_map.mp hp
  exact h q hq

theorem durSum_nonneg {l : List Note} (h : NonnegL l) : 0 ≤ durSum l := by
  induction l with
  | nil => simp
  | cons n ns ih =>
    obtain ⟨h1, h2⟩ := nonnegL_cons.mp h
    have := ih h2
    simp only [durSum_cons]; linarith

/-! ## `NM` -/

theorem NM.duration_eq (x : NM) : x.duration = durSum x.notes := by
  cases x <;> simp [NM.duration, NM.notes]

@[simp] theorem NM.add_notes (a b : NM) : (a.add b).notes = a.notes ++ b.notes := rfl

theorem NM.add_duration (a b : NM) : (a.add b).duration = a.duration + b.duration := by
  rw [NM.duration_eq, NM.duration_eq a, NM.duration_eq b, NM.add_notes, durSum_append]

@[simp] theorem NM.note_notes (n : Note) : (NM.note n).notes = [n] := rfl
@[simp] theorem NM.mel_notes (ns : List Note) : (NM.mel ns).notes = ns := rfl
@[simp] theorem NM.note_duration (n : Note) : (NM.note n).duration = n.dur := rfl
@[simp] theorem NM.mel_duration (ns : List Note) : (NM.mel ns).duration = durSum ns := rfl

@[simp] theorem copy_id (n : Note) : copy id n = n := rfl
@[simp] theorem setDur_dur (rd : Rat → Rat) (n : Note) (v : Rat) : (setDur rd n v).dur = rd v := rfl
@[simp] theorem augment_id_dur (n : Note) (v : Rat) : (augment id n v).dur = n.dur * v := rfl
@[simp] theorem zeroDur_dur (rd : Rat → Rat) (n : Note) : (zeroDur rd n).dur = 0 := by simp [zeroDur]
@[simp] theorem clearTags_id_dur (n : Note) : (clearTags id n).dur = n.dur := rfl

theorem NM.n_duration (rd : Rat → Rat) (x : NM) : (x.n rd).duration = 0 := by
  cases x with
  | note k => simp [NM.n]
  | mel ns =>
    simp only [NM.n, NM.mel_duration]
    induction ns with
    | nil => simp
    | cons a as ih => simp [ih]

theorem NM.n_nonneg (rd : Rat → Rat) (x : NM) : NonnegL (x.n rd).notes := by
  cases x with
  | note k => simp [NM.n, nonnegL_singleton]
  | mel ns => exact nonnegL_map _ _ (fun n _ => by simp)

/-- `x.set_duration(v)` in exact arithmetic, for a figure of non-zero duration -/
theorem setDuration_id (x : NM) (v : Rat) (hd : x.duration ≠ 0) :
    ∃ y, x.setDuration id v = .ok y ∧ y.duration = v ∧
      (NonnegL x.notes → 0 ≤ x.duration → 0 ≤ v → NonnegL y.notes) := by
  cases x with
  | note n =>
    refine ⟨_, rfl, rfl, fun _ _ hv => ?_⟩
    simpa [nonnegL_singleton] using hv
  | mel ns =>
    have hD : durSum ns ≠ 0 := hd
    refine ⟨.mel (ns.map (fun n => augment id n (v / durSum ns))), by simp [NM.setDuration, hD], ?_, ?_⟩
    · simp only [NM.mel_duration]
      rw [durSum_map_mul _ (v / durSum ns) (fun n => by simp)]
      field_simp
    · intro hn h0 hv
      have hpos : 0 < durSum ns := lt_of_le_of_ne h0 (Ne.symm hD)
      refine nonnegL_map _ _ (fun q hq => ?_)
      have := hn q hq
      simp only [augment_id_dur]
      positivity

/-! ## Part A : the builders in exact arithmetic -/

/-- a step that never raises, keeps the total duration and keeps the pieces non-negative -/
def Good (f : NM → Res NM) : Prop :=
  ∀ x, ∃ y, f x = .ok y ∧ y.duration = x.duration ∧ (NonnegL x.notes → NonnegL y.notes)

theorem good_pure_self : Good (fun x => (pure x : Res NM)) := fun x => ⟨x, rfl, rfl, id⟩

theorem good_stepIf (c : Bool) {f : NM → Res NM} (h : Good f) : Good (stepIf c f) := by
  intro x
  unfold stepIf
  cases c
  · exact ⟨x, rfl, rfl, id⟩
  · simpa using h x

/-- `accent` on a note — the only argument `realize_tags` gives it (first step, on `note.copy()`); on a melody the
code raises `TypeError`, so `accent` is not `Good` as a function of every figure -/
theorem accent_note_good (c : Bool) (n : Note) :
    ∃ y, stepIf c accent (.note n) = .ok y ∧ y.duration = n.dur ∧ (0 ≤ n.dur → NonnegL y.notes) := by
  cases c
  · exact ⟨_, rfl, rfl, fun h => nonnegL_singleton.mpr h⟩
  · exact ⟨_, rfl, rfl, fun h => by simpa [nonnegL_singleton] using h⟩

theorem good_mordantWith (aux : Note) : Good (mordantWith id aux) := by
  intro x
  unfold mordantWith
  by_cases h : x.duration ≥ 1 / 2
  · have hd : x.duration ≠ 0 := by intro h0; rw [h0] at h; norm_num at h
    have h0 : 0 ≤ x.duration := by linarith
    obtain ⟨a, ha, had, han⟩ := setDuration_id x (1 / 4) hd
    obtain ⟨c, hc, hcd, hcn⟩ := setDuration_id x (x.duration - 2 * (1 / 4)) hd
    refine ⟨(a.add (.note (setDur id aux (1 / 4)))).add c, ?_, ?_, ?_⟩
    · simp only [h, if_true, ha, hc, bind, Except.bind, pure, Except.pure]
    · simp only [NM.add_duration, had, hcd, NM.note_duration, setDur_dur, id]; ring
    · intro hn
      simp only [NM.add_notes, NM.note_notes, nonnegL_append, nonnegL_singleton, setDur_dur, id]
      exact ⟨⟨han hn h0 (by norm_num), by norm_num⟩, hcn hn h0 (by linarith)⟩
  · exact ⟨x, by simp only [h, if_false]; rfl, rfl, id⟩

theorem good_grupettoFigure (up down : Note) (md : Rat) (hmd : 0 ≤ md) (x : NM)
    (hx : 3 * md ≤ x.duration) (hpos : 0 < x.duration) :
    ∃ y, grupettoFigure id up down md x = .ok y ∧ y.duration = x.duration ∧
      (NonnegL x.notes → NonnegL y.notes) := by
  unfold grupettoFigure
  have hd : x.duration ≠ 0 := ne_of_gt hpos
  obtain ⟨c, hc, hcd, hcn⟩ := setDuration_id x md hd
  refine ⟨((((x.n id).add (.note (setDur id up md))).add c).add (.note (setDur id down md))).add
      (.note (setDur id up (x.duration - 3 * md))), by simp only [hc, bind, Except.bind, pure, Except.pure], ?_, ?_⟩
  · simp only [NM.add_duration, hcd, NM.note_duration, setDur_dur, id, NM.n_duration]; ring
  · intro hn
    simp only [NM.add_notes, NM.note_notes, nonnegL_append, nonnegL_singleton, setDur_dur, id]
    exact ⟨⟨⟨⟨NM.n_nonneg _ x, hmd⟩, hcn hn (le_of_lt hpos) hmd⟩, hmd⟩, by linarith⟩

theorem good_grupetto : Good (grupetto id) := by
  intro x
  unfold grupetto
  by_cases h1 : x.duration ≥ 3 / 2
  · simp only [h1, if_true]
    exact good_grupettoFigure su1 sd1 (1 / 2) (by norm_num) x (by linarith) (by linarith)
  · by_cases h2 : x.duration ≥ 1 / 2
    · simp only [h1, h2, if_true, if_false]
      exact good_grupettoFigure su1 sd1 (2 / 3 * (1 / 4)) (by norm_num) x (by linarith) (by linarith)
    · exact ⟨x, by simp only [h1, h2, if_false]; rfl, rfl, id⟩

theorem good_grupettoSmall (up down : Note) :
    Good (fun x => if x.duration ≥ 1 / 2 then grupettoFigure id up down (2 / 3 * (1 / 4)) x else pure x) := by
  intro x
  by_cases h2 : x.duration ≥ 1 / 2
  · simp only [h2, if_true]
    exact good_grupettoFigure up down (2 / 3 * (1 / 4)) (by norm_num) x (by linarith) (by linarith)
  · exact ⟨x, by simp only [h2, if_false]; rfl, rfl, id⟩

theorem good_invGrupetto : Good (invGrupetto id) := good_grupettoSmall sd1 su1
theorem good_chromaGrupetto : Good (chromaGrupetto id) := good_grupettoSmall hu1 hd1
theorem good_invChromaGrupetto : Good (invChromaGrupetto id) := good_grupettoSmall hd1 hu1

/-! ### roll -/

/-- Python's `int()` of a fraction that truncates to a positive integer: the fraction is
positive and at least its truncation -/
theorem pyInt_of_pos {q : Rat} (h : 0 < pyInt q) : 0 < q ∧ ((pyInt q : Int) : Rat) ≤ q := by
  unfold pyInt at *
  have hden : (0 : Int) < q.den := by exact_mod_cast q.den_pos
  have hnum : 0 ≤ q.num := by
    by_contra hn'
    have hn : q.num < 0 := by omega
    have h1 : q.num / (q.den : Int) < 0 := Int.ediv_neg_of_neg_of_pos hn hden
    rw [Int.tdiv_eq_ediv] at h
    have h2 : (if 0 ≤ q.num ∨ (q.den : Int) ∣ q.num then (0 : Int) else (q.den : Int).sign) ≤ 1 := by
      split
      · omega
      · rw [Int.sign_eq_one_of_pos hden]
    omega
  rw [Int.tdiv_eq_ediv, if_pos (Or.inl hnum), add_zero] at h ⊢
  have hnpos : 0 < q.num := by
    rcases Int.lt_or_eq_of_le hnum with h' | h'
    · exact h'
    · rw [← h'] at h; simp at h
  refine ⟨Rat.num_pos.mp hnpos, ?_⟩
  have h3 : q.num / (q.den : Int) * (q.den : Int) ≤ q.num := Int.ediv_mul_le q.num (ne_of_gt hden)
  have h4 : ((q.num / (q.den : Int) : Int) : Rat) * (q.den : Rat) ≤ (q.num : Rat) := by exact_mod_cast h3
  have hdq : (0 : Rat) < (q.den : Rat) := by exact_mod_cast q.den_pos
  calc ((q.num / (q.den : Int) : Int) : Rat)
      = ((q.num / (q.den : Int) : Int) : Rat) * (q.den : Rat) / (q.den : Rat) := by field_simp
    _ ≤ (q.num : Rat) / (q.den : Rat) := div_le_div_of_nonneg_right h4 (le_of_lt hdq)
    _ = q := Rat.num_div_den q

theorem rollLoop_sum (piece : List Note) (aux : Note) (m : Rat) (hp : durSum piece = m) (ha : aux.dur = m) :
    ∀ (k i : Nat), durSum (rollLoop piece aux i k) = k * m := by
  intro k
  induction k with
  | zero => intro i; simp [rollLoop]
  | succ k ih =>
    intro i
    simp only [rollLoop, durSum_append, ih]
    split
    · rw [hp]; push_cast; ring
    · simp only [durSum_cons, durSum_nil, ha]; push_cast; ring

theorem rollLoop_nonneg (piece : List Note) (aux : Note) (hp : NonnegL piece) (ha : 0 ≤ aux.dur) :
    ∀ (k i : Nat), NonnegL (rollLoop piece aux i k) := by
  intro k
  induction k with
  | zero => intro i; simp [rollLoop, nonnegL_nil]
  | succ k ih =>
    intro i
    simp only [rollLoop, nonnegL_append]
    refine ⟨?_, ih _⟩
    split
    · exact hp
    · exact nonnegL_singleton.mpr ha

theorem good_rollWith (md : Rat) (hmd : 0 < md) : Good (rollWith id md) := by
  intro x
  unfold rollWith
  by_cases h : pyInt (x.duration / md) ≤ 0
  · exact ⟨x, by simp only [h, if_true]; rfl, rfl, id⟩
  · have hnb : 0 < pyInt (x.duration / md) := by omega
    obtain ⟨hq, hle⟩ := pyInt_of_pos hnb
    have hpos : 0 < x.duration := (div_pos_iff_of_pos_right hmd).mp hq
    obtain ⟨pc, hpc, hpcd, hpcn⟩ := setDuration_id x md (ne_of_gt hpos)
    have hpcd' : durSum pc.notes = md := by rw [← NM.duration_eq]; exact hpcd
    have hcast : ((pyInt (x.duration / md)).toNat : Rat) = ((pyInt (x.duration / md) : Int) : Rat) := by
      have : ((pyInt (x.duration / md)).toNat : Int) = pyInt (x.duration / md) := Int.toNat_of_nonneg (le_of_lt hnb)
      exact_mod_cast this
    have hbody := rollLoop_sum pc.notes (setDur id su1 md) md hpcd' rfl (pyInt (x.duration / md)).toNat 0
    have hle' : ((pyInt (x.duration / md) : Int) : Rat) * md ≤ x.duration := (le_div_iff₀ hmd).mp hle
    by_cases he : ((pyInt (x.duration / md) : Int) : Rat) ≠ x.duration / md
    · refine ⟨.mel (rollLoop pc.notes (setDur id su1 md) 0 (pyInt (x.duration / md)).toNat
          ++ [setDur id lCont (x.duration - (pyInt (x.duration / md) : Int) * md)]), ?_, ?_, ?_⟩
      · simp only [h, if_false, hpc, he, if_true, bind, Except.bind, pure, Except.pure, ne_eq, not_false_eq_true]
      · simp only [NM.mel_duration, durSum_append, hbody, durSum_cons, durSum_nil, setDur_dur, id, hcast]; ring
      · intro hn
        simp only [NM.mel_notes, nonnegL_append, nonnegL_singleton, setDur_dur, id]
        exact ⟨rollLoop_nonneg _ _ (hpcn hn (le_of_lt hpos) (le_of_lt hmd)) (le_of_lt hmd) _ _, by linarith⟩
    · have he' : ((pyInt (x.duration / md) : Int) : Rat) = x.duration / md := not_not.mp he
      refine ⟨.mel (rollLoop pc.notes (setDur id su1 md) 0 (pyInt (x.duration / md)).toNat), ?_, ?_, ?_⟩
      · simp only [h, if_false, hpc, he', bind, Except.bind, pure, Except.pure, ne_eq, not_true_eq_false]
      · simp only [NM.mel_duration, hbody, hcast, he']; field_simp
      · intro hn
        exact rollLoop_nonneg _ _ (hpcn hn (le_of_lt hpos) (le_of_lt hmd)) (le_of_lt hmd) _ _

theorem good_roll : Good (roll id) := good_rollWith (1 / 4) (by norm_num)
theorem good_rollFast : Good (rollFast id) := good_rollWith (1 / 6) (by norm_num)

/-! ### suspensions, retarded -/

theorem good_suspension (last : Option Note) : Good (fun x => suspension id x last) := by
  intro x
  unfold suspension
  by_cases h : last.isSome ∧ x.duration > 0
  · have hpos : 0 < x.duration := h.2
    obtain ⟨b, hb, hbd, hbn⟩ := setDuration_id x (x.duration / 2) (ne_of_gt hpos)
    refine ⟨(NM.note (setDur id lCont (x.duration / 2))).add b, ?_, ?_, ?_⟩
    · simp only [h, and_self, if_true, hb, bind, Except.bind, pure, Except.pure]
    · simp only [NM.add_duration, hbd, NM.note_duration, setDur_dur, id]; ring
    · intro hn
      simp only [NM.add_notes, NM.note_notes, nonnegL_append, nonnegL_singleton, setDur_dur, id]
      exact ⟨by linarith, hbn hn (le_of_lt hpos) (by linarith)⟩
  · exact ⟨x, by simp only [h, if_false]; rfl, rfl, id⟩

theorem good_suspensionPrevRepeat (last : Option Note) : Good (fun x => suspensionPrevRepeat id x last) := by
  intro x
  unfold suspensionPrevRepeat
  cases last with
  | none => exact ⟨x, rfl, rfl, id⟩
  | some ln =>
    by_cases h : x.duration > 0
    · have hpos : 0 < x.duration := h
      obtain ⟨b, hb, hbd, hbn⟩ := setDuration_id x (x.duration / 2) (ne_of_gt hpos)
      refine ⟨(NM.note (setDur id ln (x.duration / 2))).add b, ?_, ?_, ?_⟩
      · simp only [h, if_true, hb, bind, Except.bind, pure, Except.pure]
      · simp only [NM.add_duration, hbd, NM.note_duration, setDur_dur, id]; ring
      · intro hn
        simp only [NM.add_notes, NM.note_notes, nonnegL_append, nonnegL_singleton, setDur_dur, id]
        exact ⟨by linarith, hbn hn (le_of_lt hpos) (by linarith)⟩
    · exact ⟨x, by simp only [h, if_false]; rfl, rfl, id⟩

theorem good_retarded : Good (retarded id) := by
  intro x
  unfold retarded
  by_cases h : x.duration > 1 / 12
  · have hpos : 0 < x.duration := by linarith
    obtain ⟨b, hb, hbd, hbn⟩ := setDuration_id x (x.duration - 1 / 12) (ne_of_gt hpos)
    refine ⟨(NM.note (setDur id lCont (1 / 12))).add b, ?_, ?_, ?_⟩
    · simp only [h, if_true, hb, bind, Except.bind, pure, Except.pure]
    · simp only [NM.add_duration, hbd, NM.note_duration, setDur_dur, id]; ring
    · intro hn
      simp only [NM.add_notes, NM.note_notes, nonnegL_append, nonnegL_singleton, setDur_dur, id]
      exact ⟨by norm_num, hbn hn (le_of_lt hpos) (by linarith)⟩
  · exact ⟨x, by simp only [h, if_false]; rfl, rfl, id⟩

/-! ### interpolate -/

@[simp] theorem setAmp_dur (n : Note) (a : Rat) : (setAmp n a).dur = n.dur := rfl

theorem good_interpolate (next : Option Note) : Good (fun x => interpolate id x next) := by
  intro x
  unfold interpolate
  cases x with
  | mel ns => exact ⟨_, rfl, rfl, id⟩
  | note nn =>
    cases next with
    | none => exact ⟨_, rfl, rfl, id⟩
    | some nx =>
      simp only
      split
      · exact ⟨_, rfl, rfl, id⟩
      · split
        · exact ⟨_, rfl, rfl, id⟩
        · rename_i hdelta
          have hk : (scaleVal nx - scaleVal nn).natAbs ≠ 0 := by
            intro h0; exact hdelta (Int.natAbs_eq_zero.mp h0)
          have hk1 : 1 ≤ (scaleVal nx - scaleVal nn).natAbs := Nat.one_le_iff_ne_zero.mpr hk
          have hkq : ((scaleVal nx - scaleVal nn).natAbs : Rat) ≠ 0 := by exact_mod_cast hk
          have hkpos : (0 : Rat) < ((scaleVal nx - scaleVal nn).natAbs : Rat) := by exact_mod_cast hk1
          refine ⟨_, rfl, ?_, ?_⟩
          · simp only [NM.mel_duration, NM.note_duration]
            rw [durSum_map_same _ (fun n => setAmp_dur n _)]
            simp only [durSum_cons, durSum_replicate, setDur_dur, id]
            have ht : (if scaleVal nx - scaleVal nn > 0 then setDur id su1 (nn.dur / ((scaleVal nx - scaleVal nn).natAbs : Rat))
                else setDur id sd1 (nn.dur / ((scaleVal nx - scaleVal nn).natAbs : Rat))).dur
                = nn.dur / ((scaleVal nx - scaleVal nn).natAbs : Rat) := by split <;> rfl
            rw [ht, Nat.cast_sub hk1]
            field_simp
            ring
          · intro hn
            have hd0 : 0 ≤ nn.dur := nonnegL_singleton.mp hn
            refine nonnegL_map _ _ (fun q hq => ?_)
            simp only [setAmp_dur]
            rcases List.mem_cons.mp hq with rfl | hq
            · simp only [setDur_dur, id]; positivity
            · rw [List.eq_of_mem_replicate hq]
              split <;> (simp only [setDur_dur, id]; positivity)

/-! ### the chain of the fifteen `if`s -/

theorem good_chain {fs : List (NM → Res NM)} (h : ∀ f ∈ fs, Good f) : Good (chain fs) := by
  induction fs with
  | nil => intro x; exact ⟨x, rfl, rfl, id⟩
  | cons f fs ih =>
    intro x
    obtain ⟨y, hy, hyd, hyn⟩ := h f (List.mem_cons_self ..) x
    obtain ⟨z, hz, hzd, hzn⟩ := ih (fun g hg => h g (List.mem_cons_of_mem _ hg)) y
    refine ⟨z, ?_, by rw [hzd, hyd], fun hn => hzn (hyn hn)⟩
    simp only [chain, hy, hz]

theorem good_steps (tags : List String) (last next : Option Note) :
    ∀ f ∈ (steps id tags last next).tail, Good f := by
  intro f hf
  simp only [steps, List.tail_cons, List.mem_cons, List.mem_nil_iff, or_false] at hf
  rcases hf with rfl | rfl | rfl | rfl | rfl | rfl | rfl | rfl | rfl | rfl | rfl | rfl | rfl | rfl
  · exact good_stepIf _ (good_mordantWith su1)
  · exact good_stepIf _ (good_mordantWith sd1)
  · exact good_stepIf _ (good_mordantWith hu1)
  · exact good_stepIf _ (good_mordantWith hd1)
  · exact good_stepIf _ good_grupetto
  · exact good_stepIf _ good_invGrupetto
  · exact good_stepIf _ good_chromaGrupetto
  · exact good_stepIf _ good_invChromaGrupetto
  · exact good_stepIf _ good_roll
  · exact good_stepIf _ good_rollFast
  · exact good_stepIf _ (good_suspension last)
  · exact good_stepIf _ (good_suspensionPrevRepeat last)
  · exact good_stepIf _ good_retarded
  · exact good_stepIf _ (good_interpolate next)

theorem clearNoteTags_id_duration (x : NM) : (x.clearNoteTags id).duration = x.duration := by
  cases x with
  | note k => rfl
  | mel ns => simp only [NM.clearNoteTags, NM.mel_duration]; exact durSum_map_same (clearTags id) (fun _ => rfl) ns

theorem clearNoteTags_id_nonneg (x : NM) (h : NonnegL x.notes) : NonnegL (x.clearNoteTags id).notes := by
  cases x with
  | note k => simpa [NM.clearNoteTags, nonnegL_singleton] using h
  | mel ns => exact nonnegL_map _ _ (fun n hn => h n hn)

/-- **exact arithmetic**: realising the tags of any note in any context never raises, returns a
figure whose pieces sum to the note's duration, and the pieces are non-negative when the note's
duration is -/
theorem realizeTags_id (note : Note) (last next : Option Note) :
    ∃ y, realizeTags id note last next = .ok y ∧ y.duration = note.dur ∧
      (0 ≤ note.dur → NonnegL y.notes) := by
  obtain ⟨y0, hy0, hy0d, hy0n⟩ := accent_note_good (note.tags.contains "accent") (copy id note)
  obtain ⟨x, hx, hxd, hxn⟩ := good_chain (good_steps note.tags last next) y0
  have hs : steps id note.tags last next
      = stepIf (note.tags.contains "accent") accent :: (steps id note.tags last next).tail := rfl
  have hch : chain (steps id note.tags last next) (.note (copy id note)) = .ok x := by
    rw [hs]; simp only [chain, hy0]; exact hx
  have hxd' : x.duration = note.dur := by rw [hxd, hy0d]; rfl
  refine ⟨x.clearNoteTags id, ?_, ?_, ?_⟩
  · simp only [realizeTags, hch, finish, hxd', if_true]
  · rw [clearNoteTags_id_duration]; exact hxd'
  · intro h0
    exact clearNoteTags_id_nonneg x (hxn (hy0n h0))

/-! ## Part B : a rounding that fixes every stage piece changes nothing -/

/-- `rd` leaves every duration of the list unchanged -/
def FixL (rd : Rat → Rat) (l : List Note) : Prop := ∀ p ∈ l, rd p.dur = p.dur

/-- round every piece (what a `copy()` of every note does) -/
def NM.mapCopy (rd : Rat → Rat) : NM → NM
  | .note n => .note (copy rd n)
  | .mel ns => .mel (ns.map (copy rd))

theorem copy_of_fix {rd : Rat → Rat} {n : Note} (h : rd n.dur = n.dur) : copy rd n = n := by
  cases n; simp_all [copy]

theorem map_copy_of_fix {rd : Rat → Rat} {l : List Note} (h : FixL rd l) : l.map (copy rd) = l := by
  induction l with
  | nil => rfl
  | cons a as ih =>
    rw [List.map_cons, copy_of_fix (h a (List.mem_cons_self ..)), ih (fun p hp => h p (List.mem_cons_of_mem _ hp))]

theorem NM.mapCopy_of_fix {rd : Rat → Rat} {x : NM} (h : FixL rd x.notes) : x.mapCopy rd = x := by
  cases x with
  | note n => simp only [NM.mapCopy]; rw [copy_of_fix (h n (by simp))]
  | mel ns => simp only [NM.mapCopy]; rw [map_copy_of_fix (show FixL rd ns from h)]

@[simp] theorem NM.mapCopy_notes (rd : Rat → Rat) (x : NM) : (x.mapCopy rd).notes = x.notes.map (copy rd) := by
  cases x <;> rfl

theorem NM.mapCopy_add (rd : Rat → Rat) (a b : NM) : (a.add b).mapCopy rd = (a.mapCopy rd).add (b.mapCopy rd) := by
  cases a <;> cases b <;> simp [NM.add, NM.mapCopy]

theorem NM.mapCopy_note_setDur (rd : Rat → Rat) (a : Note) (v : Rat) :
    (NM.note (setDur id a v)).mapCopy rd = NM.note (setDur rd a v) := rfl

theorem NM.n_rel (rd : Rat → Rat) (hz : rd 0 = 0) (x : NM) : x.n rd = (x.n id).mapCopy rd := by
  cases x with
  | note k => simp [NM.n, NM.mapCopy, zeroDur, copy, hz]
  | mel ns => simp [NM.n, NM.mapCopy, zeroDur, copy, hz]

theorem setDuration_rel (rd : Rat → Rat) (x : NM) (v : Rat) (hx : FixL rd x.notes) :
    x.setDuration rd v = (x.setDuration id v).map (NM.mapCopy rd) := by
  cases x with
  | note n => rfl
  | mel ns =>
    simp only [NM.setDuration]
    by_cases hD : durSum ns = 0
    · simp only [hD, if_true]; rfl
    · simp only [hD, if_false, Except.map, NM.mapCopy, List.map_map]
      congr 2
      apply List.map_congr_left
      intro n hn
      have := hx n hn
      simp [augment, copy, this]

/-- the step under `rd` is the exact step followed by one rounding of every piece -/
def Rel (rd : Rat → Rat) (f g : NM → Res NM) : Prop :=
  ∀ x, FixL rd x.notes → f x = (g x).map (NM.mapCopy rd)

theorem rel_stepIf (rd : Rat → Rat) (c : Bool) {f g : NM → Res NM} (h : Rel rd f g) :
    Rel rd (stepIf c f) (stepIf c g) := by
  intro x hx
  unfold stepIf
  cases c
  · simp [pure, Except.pure, Except.map, NM.mapCopy_of_fix hx]
  · simpa using h x hx

theorem rel_accent (rd : Rat → Rat) : Rel rd accent accent := by
  intro x hx
  cases x with
  | note n =>
    have h := hx n (by simp)
    simp only [accent, Except.map, NM.mapCopy, copy, h]
  | mel ns => rfl

theorem rel_mordantWith (rd : Rat → Rat) (aux : Note) : Rel rd (mordantWith rd aux) (mordantWith id aux) := by
  intro x hx
  unfold mordantWith
  simp only
  split
  · rw [setDuration_rel rd x _ hx, setDuration_rel rd x _ hx]
    cases NM.setDuration id x (1 / 4) <;> cases NM.setDuration id x (x.duration - 2 * (1 / 4)) <;>
      simp [bind, Except.bind, Except.map, pure, Except.pure, NM.mapCopy_add, NM.mapCopy_note_setDur]
  · simp [pure, Except.pure, Except.map, NM.mapCopy_of_fix hx]

theorem rel_grupettoFigure (rd : Rat → Rat) (hz : rd 0 = 0) (up down : Note) (md : Rat) :
    Rel rd (grupettoFigure rd up down md) (grupettoFigure id up down md) := by
  intro x hx
  unfold grupettoFigure
  simp only
  rw [setDuration_rel rd x _ hx, NM.n_rel rd hz]
  cases NM.setDuration id x md <;>
    simp [bind, Except.bind, Except.map, pure, Except.pure, NM.mapCopy_add, NM.mapCopy_note_setDur]

theorem rel_grupetto (rd : Rat → Rat) (hz : rd 0 = 0) : Rel rd (grupetto rd) (grupetto id) := by
  intro x hx
  unfold grupetto
  simp only
  split
  · exact rel_grupettoFigure rd hz _ _ _ x hx
  · split
    · exact rel_grupettoFigure rd hz _ _ _ x hx
    · simp [pure, Except.pure, Except.map, NM.mapCopy_of_fix hx]

theorem rel_grupettoSmall (rd : Rat → Rat) (hz : rd 0 = 0) (up down : Note) :
    Rel rd (fun x => if x.duration ≥ 1 / 2 then grupettoFigure rd up down (2 / 3 * (1 / 4)) x else pure x)
      (fun x => if x.duration ≥ 1 / 2 then grupettoFigure id up down (2 / 3 * (1 / 4)) x else pure x) := by
  intro x hx
  simp only
  split
  · exact rel_grupettoFigure rd hz _ _ _ x hx
  · simp [pure, Except.pure, Except.map, NM.mapCopy_of_fix hx]

theorem rollLoop_map (c : Note → Note) (piece : List Note) (aux : Note) :
    ∀ (k i : Nat), rollLoop (piece.map c) (c aux) i k = (rollLoop piece aux i k).map c := by
  intro k
  induction k with
  | zero => intro i; rfl
  | succ k ih =>
    intro i
    simp only [rollLoop, ih, List.map_append]
    split <;> simp

theorem rel_rollWith (rd : Rat → Rat) (md : Rat) : Rel rd (rollWith rd md) (rollWith id md) := by
  intro x hx
  unfold rollWith
  simp only
  split
  · simp [pure, Except.pure, Except.map, NM.mapCopy_of_fix hx]
  · rw [setDuration_rel rd x _ hx]
    cases NM.setDuration id x md with
    | error e => rfl
    | ok pc =>
      have h1 : setDur rd su1 md = copy rd (setDur id su1 md) := rfl
      simp only [Except.map, bind, Except.bind, NM.mapCopy_notes, h1, rollLoop_map]
      split
      · simp [pure, Except.pure, NM.mapCopy, setDur, copy]
      · simp [pure, Except.pure, NM.mapCopy]

theorem rel_suspension (rd : Rat → Rat) (last : Option Note) :
    Rel rd (fun x => suspension rd x last) (fun x => suspension id x last) := by
  intro x hx
  unfold suspension
  simp only
  split
  · rw [setDuration_rel rd x _ hx]
    cases NM.setDuration id x (x.duration / 2) <;>
      simp [bind, Except.bind, Except.map, pure, Except.pure, NM.mapCopy_add, NM.mapCopy_note_setDur]
  · simp [pure, Except.pure, Except.map, NM.mapCopy_of_fix hx]

theorem rel_suspensionPrevRepeat (rd : Rat → Rat) (last : Option Note) :
    Rel rd (fun x => suspensionPrevRepeat rd x last) (fun x => suspensionPrevRepeat id x last) := by
  intro x hx
  unfold suspensionPrevRepeat
  cases last with
  | none => simp [pure, Except.pure, Except.map, NM.mapCopy_of_fix hx]
  | some ln =>
    simp only
    split
    · rw [setDuration_rel rd x _ hx]
      cases NM.setDuration id x (x.duration / 2) <;>
        simp [bind, Except.bind, Except.map, pure, Except.pure, NM.mapCopy_add, NM.mapCopy_note_setDur]
    · simp [pure, Except.pure, Except.map, NM.mapCopy_of_fix hx]

theorem rel_retarded (rd : Rat → Rat) : Rel rd (retarded rd) (retarded id) := by
  intro x hx
  unfold retarded
  simp only
  split
  · rw [setDuration_rel rd x _ hx]
    cases NM.setDuration id x (x.duration - 1 / 12) <;>
      simp [bind, Except.bind, Except.map, pure, Except.pure, NM.mapCopy_add, NM.mapCopy_note_setDur]
  · simp [pure, Except.pure, Except.map, NM.mapCopy_of_fix hx]

theorem copy_setAmp (rd : Rat → Rat) (p : Note) (a : Rat) : copy rd (setAmp p a) = setAmp (copy rd p) a := rfl

theorem rel_interpolate (rd : Rat → Rat) (next : Option Note) :
    Rel rd (fun x => interpolate rd x next) (fun x => interpolate id x next) := by
  intro x hx
  unfold interpolate
  cases x with
  | mel ns => simp [pure, Except.pure, Except.map, NM.mapCopy_of_fix hx]
  | note nn =>
    cases next with
    | none => simp [pure, Except.pure, Except.map, NM.mapCopy_of_fix hx]
    | some nx =>
      simp only
      split
      · simp [pure, Except.pure, Except.map, NM.mapCopy_of_fix hx]
      · split
        · simp [pure, Except.pure, Except.map, NM.mapCopy_of_fix hx]
        · simp only [pure, Except.pure, Except.map, NM.mapCopy, List.map_cons, List.map_replicate]
          congr 3
          split <;> rfl

/-- `P` holds at every intermediate figure of the run of `fs` from `x` (and at `x`) -/
def stagesAll (P : NM → Bool) : List (NM → Res NM) → NM → Bool
  | [], x => P x
  | f :: fs, x => P x && (match f x with
      | .ok y => stagesAll P fs y
      | .error _ => true)

theorem stagesAll_head {P : NM → Bool} {fs : List (NM → Res NM)} {x : NM} (h : stagesAll P fs x = true) :
    P x = true := by
  cases fs with
  | nil => exact h
  | cons f fs => simp only [stagesAll, Bool.and_eq_true] at h; exact h.1

theorem stagesAll_last {P : NM → Bool} {fs : List (NM → Res NM)} {x y : NM} (h : stagesAll P fs x = true)
    (hy : chain fs x = .ok y) : P y = true := by
  induction fs generalizing x with
  | nil => simp only [chain, Except.ok.injEq] at hy; subst hy; exact h
  | cons f fs ih =>
    simp only [stagesAll, Bool.and_eq_true] at h
    simp only [chain] at hy
    cases hf : f x with
    | error e => rw [hf] at hy; cases hy
    | ok z =>
      rw [hf] at hy h
      exact ih h.2 hy

theorem chain_transfer (rd : Rat → Rat) (P : NM → Bool) (hP : ∀ x, P x = true → FixL rd x.notes)
    {fs gs : List (NM → Res NM)} (hrel : List.Forall₂ (Rel rd) fs gs) (x : NM)
    (h : stagesAll P gs x = true) : chain fs x = chain gs x := by
  induction hrel generalizing x with
  | nil => rfl
  | @cons f g fs gs hfg _ ih =>
    simp only [stagesAll, Bool.and_eq_true] at h
    have hfx := hfg x (hP x h.1)
    simp only [chain, hfx]
    cases hg : g x with
    | error e => rfl
    | ok y =>
      rw [hg] at h
      have hy : FixL rd y.notes := hP y (stagesAll_head h.2)
      simp only [Except.map, NM.mapCopy_of_fix hy]
      exact ih y h.2

theorem rel_steps (rd : Rat → Rat) (hz : rd 0 = 0) (tags : List String) (last next : Option Note) :
    List.Forall₂ (Rel rd) (steps rd tags last next) (steps id tags last next) := by
  unfold steps
  refine .cons (rel_stepIf rd _ (rel_accent rd)) <| .cons (rel_stepIf rd _ (rel_mordantWith rd su1)) <|
    .cons (rel_stepIf rd _ (rel_mordantWith rd sd1)) <| .cons (rel_stepIf rd _ (rel_mordantWith rd hu1)) <|
    .cons (rel_stepIf rd _ (rel_mordantWith rd hd1)) <| .cons (rel_stepIf rd _ (rel_grupetto rd hz)) <|
    .cons (rel_stepIf rd _ (rel_grupettoSmall rd hz sd1 su1)) <| .cons (rel_stepIf rd _ (rel_grupettoSmall rd hz hu1 hd1)) <|
    .cons (rel_stepIf rd _ (rel_grupettoSmall rd hz hd1 hu1)) <| .cons (rel_stepIf rd _ (rel_rollWith rd (1 / 4))) <|
    .cons (rel_stepIf rd _ (rel_rollWith rd (1 / 6))) <| .cons (rel_stepIf rd _ (rel_suspension rd last)) <|
    .cons (rel_stepIf rd _ (rel_suspensionPrevRepeat rd last)) <| .cons (rel_stepIf rd _ (rel_retarded rd)) <|
    .cons (rel_stepIf rd _ (rel_interpolate rd next)) .nil

theorem clearNoteTags_of_fix {rd : Rat → Rat} {x : NM} (h : FixL rd x.notes) :
    x.clearNoteTags rd = x.clearNoteTags id := by
  cases x with
  | note k =>
    have := h k (by simp)
    simp [NM.clearNoteTags, clearTags, copy, this]
  | mel ns =>
    simp only [NM.clearNoteTags]
    congr 1
    apply List.map_congr_left
    intro n hn
    have := h n hn
    simp [clearTags, copy, this]

/-- **transfer**: if `rd` fixes 0 and every piece of every intermediate figure of the exact run,
the run under `rd` is the exact run -/
theorem realizeTags_transfer (rd : Rat → Rat) (hz : rd 0 = 0) (P : NM → Bool)
    (hP : ∀ x, P x = true → FixL rd x.notes) (note : Note) (last next : Option Note)
    (h : stagesAll P (steps id note.tags last next) (.note note) = true) :
    realizeTags rd note last next = realizeTags id note last next := by
  have h0 : FixL rd (NM.note note).notes := hP _ (stagesAll_head h)
  have hc : copy rd note = note := copy_of_fix (h0 note (by simp))
  unfold realizeTags
  rw [hc, copy_id, chain_transfer rd P hP (rel_steps rd hz note.tags last next) _ h]
  cases hch : chain (steps id note.tags last next) (NM.note note) with
  | error e => rfl
  | ok y =>
    have hy : FixL rd y.notes := hP y (stagesAll_last h hch)
    simp only [finish, clearNoteTags_of_fix hy]

/-! ## the rounding of the code -/

theorem limitDen_of_den_le {q : Rat} (h : q.den ≤ Gen.LIMIT_DENOM) : limitDen q = q := by
  unfold limitDen limitDenominator
  rw [if_pos h]

theorem limitDen_zero : limitDen 0 = 0 := limitDen_of_den_le (by decide)

/-- every piece of the figure is representable: denominator at most `LIMIT_DENOM` -/
def denOK (x : NM) : Bool := x.notes.all (fun p => decide (p.dur.den ≤ Gen.LIMIT_DENOM))

theorem denOK_fix {x : NM} (h : denOK x = true) : FixL limitDen x.notes := by
  intro p hp
  simp only [denOK, List.all_eq_true, decide_eq_true_eq] at h
  exact limitDen_of_den_le (h p hp)

/-! ## melodies -/

/-- the figure written for one note fills exactly that note's span -/
def SpanOK (fig : List Note) (n : Note) : Prop := durSum fig = n.dur ∧ (0 ≤ n.dur → NonnegL fig)

/-- realising `n` between `l` and `x` succeeds with a figure that fills the span of `n` -/
def RealOK (rd : Rat → Rat) (n : Note) (l x : Option Note) : Prop :=
  ∃ y, realizeTags rd n l x = .ok y ∧ SpanOK y.notes n

theorem realOK_id (n : Note) (l x : Option Note) : RealOK id n l x := by
  obtain ⟨y, hy, hd, hn⟩ := realizeTags_id n l x
  exact ⟨y, hy, by rw [← NM.duration_eq]; exact hd, hn⟩

/-- the (note, previous, next) triples `Melody.realize_tags` passes to `Note.realize_tags` -/
def contexts (final : Option Note) : Option Note → List Note → List (Note × Option Note × Option Note)
  | _, [] => []
  | prev, [n] => [(n, prev, final)]
  | prev, n :: m :: rest => (n, prev, some m) :: contexts final (some n) (m :: rest)

theorem melodyLoop_ok (rd : Rat → Rat) (final : Option Note) :
    ∀ (notes : List Note) (prev : Option Note),
      (∀ c ∈ contexts final prev notes, RealOK rd c.1 c.2.1 c.2.2) →
      ∃ figs, melodyLoop rd final prev notes = .ok figs.flatten ∧ List.Forall₂ SpanOK figs notes := by
  intro notes
  induction notes with
  | nil => intro prev _; exact ⟨[], rfl, .nil⟩
  | cons n tl ih =>
    intro prev h
    cases tl with
    | nil =>
      obtain ⟨y, hy, hs⟩ := h (n, prev, final) (by simp [contexts])
      refine ⟨[y.notes], ?_, .cons hs .nil⟩
      simp [melodyLoop, hy, bind, Except.bind, pure, Except.pure]
    | cons m rest =>
      obtain ⟨y, hy, hs⟩ := h (n, prev, some m) (by simp [contexts])
      obtain ⟨figs, hf, hF⟩ := ih (some n) (fun c hc => h c (by simp [contexts, hc]))
      refine ⟨y.notes :: figs, ?_, .cons hs hF⟩
      simp [melodyLoop, hy, hf, bind, Except.bind, pure, Except.pure]

theorem contexts_mem_fst {final : Option Note} :
    ∀ {notes : List Note} {prev : Option Note} {c : Note × Option Note × Option Note},
      c ∈ contexts final prev notes → c.1 ∈ notes := by
  intro notes
  induction notes with
  | nil => intro prev c h; simp [contexts] at h
  | cons n tl ih =>
    intro prev c h
    cases tl with
    | nil => simp only [contexts, List.mem_singleton] at h; subst h; simp
    | cons m rest =>
      simp only [contexts, List.mem_cons] at h
      rcases h with rfl | h
      · simp
      · exact List.mem_cons_of_mem _ (ih (by simpa [List.mem_cons] using h))

theorem durSum_flatten_of_spans {figs : List (List Note)} {notes : List Note}
    (h : List.Forall₂ SpanOK figs notes) : durSum figs.flatten = durSum notes := by
  induction h with
  | nil => rfl
  | cons h1 _ ih => simp only [List.flatten_cons, durSum_append, ih, h1.1, durSum_cons]

theorem nonneg_flatten_of_spans {figs : List (List Note)} {notes : List Note}
    (h : List.Forall₂ SpanOK figs notes) (hn : NonnegL notes) : NonnegL figs.flatten := by
  induction h with
  | nil => exact nonnegL_nil
  | cons h1 _ ih =>
    obtain ⟨ha, hb⟩ := nonnegL_cons.mp hn
    simp only [List.flatten_cons, nonnegL_append]
    exact ⟨h1.2 ha, ih hb⟩

/-- the first `i` figures end exactly where the first `i` written notes end -/
theorem spans_prefix {figs : List (List Note)} {notes : List Note} (h : List.Forall₂ SpanOK figs notes) (i : Nat) :
    durSum (figs.take i).flatten = durSum (notes.take i) := by
  induction h generalizing i with
  | nil => simp
  | cons h1 _ ih =>
    cases i with
    | zero => simp
    | succ i => simp only [List.take_succ_cons, List.flatten_cons, durSum_append, durSum_cons, ih, h1.1]

/-! ## Part C : denominators of the pieces of one builder -/

/-- every duration of the list has a denominator ≤ `LIMIT_DENOM` -/
def DenL (l : List Note) : Prop := ∀ p ∈ l, p.dur.den ≤ Gen.LIMIT_DENOM

theorem denOK_iff (x : NM) : denOK x = true ↔ DenL x.notes := by
  simp [denOK, DenL]

theorem denL_append {a b : List Note} : DenL (a ++ b) ↔ DenL a ∧ DenL b := by
  unfold DenL
  constructor
  · intro h; exact ⟨fun p hp => h p (List.mem_append_left _ hp), fun p hp => h p (List.mem_append_right _ hp)⟩
  · rintro ⟨ha, hb⟩ p hp
    rcases List.mem_append.mp hp with h | h
    · exact ha p h
    · exact hb p h

theorem denL_singleton {n : Note} : DenL [n] ↔ n.dur.den ≤ Gen.LIMIT_DENOM := by
  unfold DenL; simp

theorem den_sub_le (a b : Rat) : (a - b).den ≤ a.den * b.den :=
  Nat.le_of_dvd (Nat.mul_pos a.den_pos b.den_pos) (Rat.sub_den_dvd a b)

theorem den_mul_le (a b : Rat) : (a * b).den ≤ a.den * b.den :=
  Nat.le_of_dvd (Nat.mul_pos a.den_pos b.den_pos) (Rat.mul_den_dvd a b)

/-- `d - c` for a constant `c` whose denominator is at most `k` -/
theorem den_sub_const {d c : Rat} {k : Nat} (hc : c.den ≤ k) (h : k * d.den ≤ Gen.LIMIT_DENOM) :
    (d - c).den ≤ Gen.LIMIT_DENOM := by
  have h1 := den_sub_le d c
  have h2 : d.den * c.den ≤ d.den * k := Nat.mul_le_mul_left _ hc
  have h3 : d.den * k = k * d.den := Nat.mul_comm _ _
  omega

theorem den_div_nat (a : Rat) (k : Nat) (hk : k ≠ 0) : (a / (k : Rat)).den ≤ a.den * k := by
  rw [div_eq_mul_inv]
  have h := den_mul_le a ((k : Rat)⁻¹)
  rw [Rat.inv_natCast_den, if_neg hk] at h
  exact h

theorem den_intCast_mul (z : Int) (m : Rat) : ((z : Rat) * m).den ≤ m.den := by
  have h := den_mul_le (z : Rat) m
  simpa using h

theorem den_le_of_12 {d : Rat} {k : Nat} (hk : k ≤ 12) (h : 12 * d.den ≤ Gen.LIMIT_DENOM) : k * d.den ≤ Gen.LIMIT_DENOM := by
  have : k * d.den ≤ 12 * d.den := Nat.mul_le_mul_right _ hk
  omega

theorem den_mordantWith (aux n : Note) (h : 12 * n.dur.den ≤ Gen.LIMIT_DENOM) :
    ∀ y, mordantWith id aux (.note n) = .ok y → denOK y = true := by
  intro y hy
  have hn : n.dur.den ≤ Gen.LIMIT_DENOM := by omega
  unfold mordantWith at hy
  by_cases hc : (NM.note n).duration ≥ 1 / 2
  · simp only [hc, if_true, NM.setDuration, bind, Except.bind, pure, Except.pure, Except.ok.injEq] at hy
    subst hy
    rw [denOK_iff]
    simp only [NM.add_notes, NM.note_notes, denL_append, denL_singleton, setDur_dur, id, NM.note_duration]
    refine ⟨⟨by decide +kernel, by decide +kernel⟩, ?_⟩
    exact den_sub_const (k := 2) (by decide +kernel) (den_le_of_12 (by omega) h)
  · simp only [hc, if_false, pure, Except.pure, Except.ok.injEq] at hy
    subst hy
    rw [denOK_iff, NM.note_notes, denL_singleton]; exact hn

theorem stagesAll_inactive {P : NM → Bool} {fs : List (NM → Res NM)} (h : ∀ g ∈ fs, ∀ z, g z = .ok z)
    {x : NM} (hx : P x = true) : stagesAll P fs x = true := by
  induction fs with
  | nil => exact hx
  | cons g fs ih =>
    simp only [stagesAll, h g (List.mem_cons_self ..) x, hx, Bool.true_and]
    exact ih (fun g' hg' => h g' (List.mem_cons_of_mem _ hg'))

theorem stagesAll_one {P : NM → Bool} {pre post : List (NM → Res NM)} {f : NM → Res NM} {x : NM}
    (hpre : ∀ g ∈ pre, ∀ z, g z = .ok z) (hpost : ∀ g ∈ post, ∀ z, g z = .ok z)
    (hx : P x = true) (hf : ∀ y, f x = .ok y → P y = true) : stagesAll P (pre ++ f :: post) x = true := by
  induction pre with
  | nil =>
    simp only [List.nil_append, stagesAll, hx, Bool.true_and]
    cases hfx : f x with
    | error e => rfl
    | ok y => exact stagesAll_inactive hpost (hf y hfx)
  | cons g pre ih =>
    simp only [List.cons_append, stagesAll, hpre g (List.mem_cons_self ..) x, hx, Bool.true_and]
    exact ih (fun g' hg' => hpre g' (List.mem_cons_of_mem _ hg'))


theorem den_one_le : (1 : Nat) ≤ Gen.LIMIT_DENOM := by decide

theorem den_note_of_12 {n : Note} (h : 12 * n.dur.den ≤ Gen.LIMIT_DENOM) : denOK (.note n) = true := by
  rw [denOK_iff, NM.note_notes, denL_singleton]; omega

theorem den_accent (n : Note) (h : 12 * n.dur.den ≤ Gen.LIMIT_DENOM) :
    ∀ y, accent (.note n) = .ok y → denOK y = true := by
  intro y hy
  simp only [accent, Except.ok.injEq] at hy
  subst hy
  rw [denOK_iff, NM.note_notes, denL_singleton]; show n.dur.den ≤ _; omega

theorem den_grupettoFigure (up down n : Note) (md : Rat) (hmd : md.den ≤ Gen.LIMIT_DENOM) (h3 : (3 * md).den ≤ 12)
    (h : 12 * n.dur.den ≤ Gen.LIMIT_DENOM) :
    ∀ y, grupettoFigure id up down md (.note n) = .ok y → denOK y = true := by
  intro y hy
  unfold grupettoFigure at hy
  simp only [NM.setDuration, bind, Except.bind, pure, Except.pure, Except.ok.injEq] at hy
  subst hy
  rw [denOK_iff]
  simp only [NM.add_notes, NM.note_notes, NM.n, denL_append, denL_singleton, setDur_dur, id, NM.note_duration,
    zeroDur_dur]
  exact ⟨⟨⟨⟨by decide +kernel, hmd⟩, hmd⟩, hmd⟩, den_sub_const h3 h⟩

theorem den_grupetto (n : Note) (h : 12 * n.dur.den ≤ Gen.LIMIT_DENOM) :
    ∀ y, grupetto id (.note n) = .ok y → denOK y = true := by
  intro y hy
  unfold grupetto at hy
  by_cases h1 : (NM.note n).duration ≥ 3 / 2
  · simp only [h1, if_true] at hy
    exact den_grupettoFigure _ _ n _ (by decide +kernel) (by decide +kernel) h y hy
  · by_cases h2 : (NM.note n).duration ≥ 1 / 2
    · simp only [h1, h2, if_true, if_false] at hy
      exact den_grupettoFigure _ _ n _ (by decide +kernel) (by decide +kernel) h y hy
    · simp only [h1, h2, if_false, pure, Except.pure, Except.ok.injEq] at hy
      subst hy; exact den_note_of_12 h

theorem den_grupettoSmall (up down n : Note) (h : 12 * n.dur.den ≤ Gen.LIMIT_DENOM) :
    ∀ y, (if (NM.note n).duration ≥ 1 / 2 then grupettoFigure id up down (2 / 3 * (1 / 4)) (.note n) else pure (.note n))
      = .ok y → denOK y = true := by
  intro y hy
  by_cases h2 : (NM.note n).duration ≥ 1 / 2
  · simp only [h2, if_true] at hy
    exact den_grupettoFigure _ _ n _ (by decide +kernel) (by decide +kernel) h y hy
  · simp only [h2, if_false, pure, Except.pure, Except.ok.injEq] at hy
    subst hy; exact den_note_of_12 h

theorem rollLoop_all (Q : Note → Prop) (piece : List Note) (aux : Note) (hp : ∀ p ∈ piece, Q p) (ha : Q aux) :
    ∀ (k i : Nat), ∀ p ∈ rollLoop piece aux i k, Q p := by
  intro k
  induction k with
  | zero => intro i p hp'; simp [rollLoop] at hp'
  | succ k ih =>
    intro i p hp'
    simp only [rollLoop, List.mem_append] at hp'
    rcases hp' with h | h
    · split at h
      · exact hp p h
      · rw [List.mem_singleton] at h; subst h; exact ha
    · exact ih _ p h

theorem den_rollWith (md : Rat) (hmd : md.den ≤ 12) (n : Note) (h : 12 * n.dur.den ≤ Gen.LIMIT_DENOM) :
    ∀ y, rollWith id md (.note n) = .ok y → denOK y = true := by
  intro y hy
  have hd1 : 1 ≤ n.dur.den := n.dur.den_pos
  have hmdL : md.den ≤ Gen.LIMIT_DENOM := by omega
  unfold rollWith at hy
  by_cases hnb : pyInt ((NM.note n).duration / md) ≤ 0
  · simp only [hnb, if_true, pure, Except.pure, Except.ok.injEq] at hy
    subst hy; exact den_note_of_12 h
  · have hbody : ∀ k, DenL (rollLoop (NM.note (setDur id n md)).notes (setDur id su1 md) 0 k) := by
      intro k
      exact rollLoop_all (fun p => p.dur.den ≤ Gen.LIMIT_DENOM) _ _
        (by intro p hp; simp only [NM.note_notes, List.mem_singleton] at hp; subst hp; exact hmdL) hmdL k 0
    simp only [hnb, if_false, NM.setDuration, bind, Except.bind, pure, Except.pure] at hy
    by_cases he : ((pyInt ((NM.note n).duration / md) : Int) : Rat) ≠ (NM.note n).duration / md
    · simp only [he, if_true, ne_eq, not_false_eq_true, Except.ok.injEq] at hy
      subst hy
      rw [denOK_iff, NM.mel_notes, denL_append, denL_singleton]
      refine ⟨hbody _, ?_⟩
      simp only [setDur_dur, id, NM.note_duration]
      have h1 := den_sub_le n.dur (((pyInt (n.dur / md) : Int) : Rat) * md)
      have h2 := den_intCast_mul (pyInt (n.dur / md)) md
      have h3 : n.dur.den * (((pyInt (n.dur / md) : Int) : Rat) * md).den ≤ n.dur.den * 12 :=
        Nat.mul_le_mul_left _ (le_trans h2 hmd)
      omega
    · have he' : ((pyInt ((NM.note n).duration / md) : Int) : Rat) = (NM.note n).duration / md := not_not.mp he
      simp only [he', ne_eq, not_true_eq_false, if_false, Except.ok.injEq] at hy
      subst hy
      rw [denOK_iff, NM.mel_notes]
      exact hbody _

theorem den_div_two (a : Rat) : (a / 2).den ≤ a.den * 2 := by
  have := den_div_nat a 2 (by decide)
  simpa using this

theorem den_suspension (last : Option Note) (n : Note) (h : 12 * n.dur.den ≤ Gen.LIMIT_DENOM) :
    ∀ y, suspension id (.note n) last = .ok y → denOK y = true := by
  intro y hy
  have h2 := den_div_two n.dur
  unfold suspension at hy
  by_cases hc : last.isSome ∧ (NM.note n).duration > 0
  · simp only [hc, and_self, if_true, NM.setDuration, bind, Except.bind, pure, Except.pure, Except.ok.injEq] at hy
    subst hy
    rw [denOK_iff]
    simp only [NM.add_notes, NM.note_notes, denL_append, denL_singleton, setDur_dur, id, NM.note_duration]
    exact ⟨by omega, by omega⟩
  · simp only [hc, if_false, pure, Except.pure, Except.ok.injEq] at hy
    subst hy; exact den_note_of_12 h

theorem den_suspensionPrevRepeat (last : Option Note) (n : Note) (h : 12 * n.dur.den ≤ Gen.LIMIT_DENOM) :
    ∀ y, suspensionPrevRepeat id (.note n) last = .ok y → denOK y = true := by
  intro y hy
  have h2 := den_div_two n.dur
  unfold suspensionPrevRepeat at hy
  cases last with
  | none =>
    simp only [pure, Except.pure, Except.ok.injEq] at hy
    subst hy; exact den_note_of_12 h
  | some ln =>
    by_cases hc : (NM.note n).duration > 0
    · simp only [hc, if_true, NM.setDuration, bind, Except.bind, pure, Except.pure, Except.ok.injEq] at hy
      subst hy
      rw [denOK_iff]
      simp only [NM.add_notes, NM.note_notes, denL_append, denL_singleton, setDur_dur, id, NM.note_duration]
      exact ⟨by omega, by omega⟩
    · simp only [hc, if_false, pure, Except.pure, Except.ok.injEq] at hy
      subst hy; exact den_note_of_12 h

theorem den_retarded (n : Note) (h : 12 * n.dur.den ≤ Gen.LIMIT_DENOM) :
    ∀ y, retarded id (.note n) = .ok y → denOK y = true := by
  intro y hy
  unfold retarded at hy
  by_cases hc : (NM.note n).duration > 1 / 12
  · simp only [hc, if_true, NM.setDuration, bind, Except.bind, pure, Except.pure, Except.ok.injEq] at hy
    subst hy
    rw [denOK_iff]
    simp only [NM.add_notes, NM.note_notes, denL_append, denL_singleton, setDur_dur, id, NM.note_duration]
    exact ⟨by decide +kernel, den_sub_const (k := 12) (by decide +kernel) h⟩
  · simp only [hc, if_false, pure, Except.pure, Except.ok.injEq] at hy
    subst hy; exact den_note_of_12 h

/-- `interpolate` cuts the note into `|Δ|` equal pieces, `Δ` the distance in scale steps to the next note -/
theorem den_interpolate (next : Option Note) (n : Note) (h : 12 * n.dur.den ≤ Gen.LIMIT_DENOM)
    (hk : ∀ nx, next = some nx → n.dur.den * (scaleVal nx - scaleVal n).natAbs ≤ Gen.LIMIT_DENOM) :
    ∀ y, interpolate id (.note n) next = .ok y → denOK y = true := by
  intro y hy
  unfold interpolate at hy
  cases next with
  | none =>
    simp only [pure, Except.pure, Except.ok.injEq] at hy
    subst hy; exact den_note_of_12 h
  | some nx =>
    simp only at hy
    split at hy
    · simp only [pure, Except.pure, Except.ok.injEq] at hy
      subst hy; exact den_note_of_12 h
    · split at hy
      · simp only [pure, Except.pure, Except.ok.injEq] at hy
        subst hy; exact den_note_of_12 h
      · rename_i hdelta
        have hk0 : (scaleVal nx - scaleVal n).natAbs ≠ 0 := by
          intro h0; exact hdelta (Int.natAbs_eq_zero.mp h0)
        have hpiece : (n.dur / ((scaleVal nx - scaleVal n).natAbs : Rat)).den ≤ Gen.LIMIT_DENOM :=
          le_trans (den_div_nat _ _ hk0) (hk nx rfl)
        simp only [pure, Except.pure, Except.ok.injEq] at hy
        subst hy
        rw [denOK_iff, NM.mel_notes]
        intro p hp
        obtain ⟨q, hq, rfl⟩ := List.mem_map.mp hp
        simp only [setAmp_dur]
        rcases List.mem_cons.mp hq with rfl | hq
        · exact hpiece
        · rw [List.eq_of_mem_replicate hq]
          split <;> exact hpiece

/-- a note without tags: nothing fires -/
theorem untagged_stages (note : Note) (last next : Option Note) (ht : note.tags = [])
    (h : note.dur.den ≤ Gen.LIMIT_DENOM) :
    stagesAll denOK (steps id note.tags last next) (.note note) = true := by
  rw [ht]
  refine stagesAll_inactive ?_ (by rw [denOK_iff, NM.note_notes, denL_singleton]; exact h)
  simp [steps, stepIf, pure, Except.pure]

/-- **one ornament tag**: if `12 · den(d) ≤ LIMIT_DENOM` (and, for `interpolate`, `den(d) · |Δ| ≤ LIMIT_DENOM`),
every intermediate figure is representable -/
theorem single_tag_stages (t : String) (note : Note) (last next : Option Note) (ht : note.tags = [t])
    (h : 12 * note.dur.den ≤ Gen.LIMIT_DENOM)
    (hk : t = "interpolate" → ∀ nx, next = some nx →
      note.dur.den * (scaleVal nx - scaleVal note).natAbs ≤ Gen.LIMIT_DENOM) :
    stagesAll denOK (steps id note.tags last next) (.note note) = true := by
  have hx := den_note_of_12 h
  rw [ht]
  by_cases h1 : t = "accent"
  · subst h1
    exact stagesAll_one (pre := (steps id ["accent"] last next).take 0) (post := (steps id ["accent"] last next).drop 1)
      (f := stepIf true accent) (by simp) (by simp [steps, stepIf, pure, Except.pure]) hx (den_accent note h)
  by_cases h2 : t = "mordant"
  · subst h2
    exact stagesAll_one (pre := (steps id ["mordant"] last next).take 1) (post := (steps id ["mordant"] last next).drop 2)
      (f := stepIf true (mordant id)) (by simp [steps, stepIf, pure, Except.pure]) (by simp [steps, stepIf, pure, Except.pure])
      hx (den_mordantWith su1 note h)
  by_cases h3 : t = "inv_mordant"
  · subst h3
    exact stagesAll_one (pre := (steps id ["inv_mordant"] last next).take 2) (post := (steps id ["inv_mordant"] last next).drop 3)
      (f := stepIf true (invMordant id)) (by simp [steps, stepIf, pure, Except.pure]) (by simp [steps, stepIf, pure, Except.pure])
      hx (den_mordantWith sd1 note h)
  by_cases h4 : t = "chroma_mordant"
  · subst h4
    exact stagesAll_one (pre := (steps id ["chroma_mordant"] last next).take 3) (post := (steps id ["chroma_mordant"] last next).drop 4)
      (f := stepIf true (chromaMordant id)) (by simp [steps, stepIf, pure, Except.pure]) (by simp [steps, stepIf, pure, Except.pure])
      hx (den_mordantWith hu1 note h)
  by_cases h5 : t = "inv_chroma_mordant"
  · subst h5
    exact stagesAll_one (pre := (steps id ["inv_chroma_mordant"] last next).take 4) (post := (steps id ["inv_chroma_mordant"] last next).drop 5)
      (f := stepIf true (invChromaMordant id)) (by simp [steps, stepIf, pure, Except.pure]) (by simp [steps, stepIf, pure, Except.pure])
      hx (den_mordantWith hd1 note h)
  by_cases h6 : t = "grupetto"
  · subst h6
    exact stagesAll_one (pre := (steps id ["grupetto"] last next).take 5) (post := (steps id ["grupetto"] last next).drop 6)
      (f := stepIf true (grupetto id)) (by simp [steps, stepIf, pure, Except.pure]) (by simp [steps, stepIf, pure, Except.pure])
      hx (den_grupetto note h)
  by_cases h7 : t = "inv_grupetto"
  · subst h7
    exact stagesAll_one (pre := (steps id ["inv_grupetto"] last next).take 6) (post := (steps id ["inv_grupetto"] last next).drop 7)
      (f := stepIf true (invGrupetto id)) (by simp [steps, stepIf, pure, Except.pure]) (by simp [steps, stepIf, pure, Except.pure])
      hx (den_grupettoSmall sd1 su1 note h)
  by_cases h8 : t = "chroma_grupetto"
  · subst h8
    exact stagesAll_one (pre := (steps id ["chroma_grupetto"] last next).take 7) (post := (steps id ["chroma_grupetto"] last next).drop 8)
      (f := stepIf true (chromaGrupetto id)) (by simp [steps, stepIf, pure, Except.pure]) (by simp [steps, stepIf, pure, Except.pure])
      hx (den_grupettoSmall hu1 hd1 note h)
  by_cases h9 : t = "inv_chroma_grupetto"
  · subst h9
    exact stagesAll_one (pre := (steps id ["inv_chroma_grupetto"] last next).take 8) (post := (steps id ["inv_chroma_grupetto"] last next).drop 9)
      (f := stepIf true (invChromaGrupetto id)) (by simp [steps, stepIf, pure, Except.pure]) (by simp [steps, stepIf, pure, Except.pure])
      hx (den_grupettoSmall hd1 hu1 note h)
  by_cases h10 : t = "roll"
  · subst h10
    exact stagesAll_one (pre := (steps id ["roll"] last next).take 9) (post := (steps id ["roll"] last next).drop 10)
      (f := stepIf true (roll id)) (by simp [steps, stepIf, pure, Except.pure]) (by simp [steps, stepIf, pure, Except.pure])
      hx (den_rollWith (1 / 4) (by decide +kernel) note h)
  by_cases h11 : t = "roll_fast"
  · subst h11
    exact stagesAll_one (pre := (steps id ["roll_fast"] last next).take 10) (post := (steps id ["roll_fast"] last next).drop 11)
      (f := stepIf true (rollFast id)) (by simp [steps, stepIf, pure, Except.pure]) (by simp [steps, stepIf, pure, Except.pure])
      hx (den_rollWith (1 / 6) (by decide +kernel) note h)
  by_cases h12 : t = "suspension_prev"
  · subst h12
    exact stagesAll_one (pre := (steps id ["suspension_prev"] last next).take 11) (post := (steps id ["suspension_prev"] last next).drop 12)
      (f := stepIf true (fun x => suspension id x last)) (by simp [steps, stepIf, pure, Except.pure]) (by simp [steps, stepIf, pure, Except.pure])
      hx (den_suspension last note h)
  by_cases h13 : t = "suspension_prev_repeat"
  · subst h13
    exact stagesAll_one (pre := (steps id ["suspension_prev_repeat"] last next).take 12) (post := (steps id ["suspension_prev_repeat"] last next).drop 13)
      (f := stepIf true (fun x => suspensionPrevRepeat id x last)) (by simp [steps, stepIf, pure, Except.pure]) (by simp [steps, stepIf, pure, Except.pure])
      hx (den_suspensionPrevRepeat last note h)
  by_cases h14 : t = "retarded"
  · subst h14
    exact stagesAll_one (pre := (steps id ["retarded"] last next).take 13) (post := (steps id ["retarded"] last next).drop 14)
      (f := stepIf true (retarded id)) (by simp [steps, stepIf, pure, Except.pure]) (by simp [steps, stepIf, pure, Except.pure])
      hx (den_retarded note h)
  by_cases h15 : t = "interpolate"
  · subst h15
    exact stagesAll_one (pre := (steps id ["interpolate"] last next).take 14) (post := (steps id ["interpolate"] last next).drop 15)
      (f := stepIf true (fun x => interpolate id x next)) (by simp [steps, stepIf, pure, Except.pure]) (by simp [steps])
      hx (den_interpolate next note h (hk rfl))
  · -- a tag the realiser does not know: nothing fires
    refine stagesAll_inactive ?_ hx
    simp [steps, stepIf, pure, Except.pure, Ne.symm h1, Ne.symm h2, Ne.symm h3, Ne.symm h4, Ne.symm h5, Ne.symm h6,
      Ne.symm h7, Ne.symm h8, Ne.symm h9, Ne.symm h10, Ne.symm h11, Ne.symm h12, Ne.symm h13, Ne.symm h14, Ne.symm h15]

/-! ## notes the code's arithmetic handles -/

/-- on an input whose exact stages are all representable, the code realises the note like exact arithmetic -/
theorem realOK_of_stages (note : Note) (last next : Option Note)
    (h : stagesAll denOK (steps id note.tags last next) (.note note) = true) : RealOK limitDen note last next := by
  rw [RealOK, realizeTags_transfer limitDen limitDen_zero denOK (fun _ hx => denOK_fix hx) note last next h]
  exact realOK_id note last next

/-- a note the code's arithmetic handles in *every* context: no tag, or one tag other than `interpolate`,
and `12 · den(d) ≤ LIMIT_DENOM` (every duration of the table qualifies) -/
def SimpleNote (n : Note) : Prop :=
  (n.tags = [] ∨ ∃ t, n.tags = [t] ∧ t ≠ "interpolate") ∧ 12 * n.dur.den ≤ Gen.LIMIT_DENOM

theorem simpleNote_realOK (n : Note) (h : SimpleNote n) (l x : Option Note) : RealOK limitDen n l x := by
  obtain ⟨ht, h12⟩ := h
  apply realOK_of_stages
  rcases ht with ht | ⟨t, ht, hne⟩
  · exact untagged_stages n l x ht (by have := n.dur.den_pos; omega)
  · exact single_tag_stages t n l x ht h12 (fun h => absurd h hne)

/-! ## Part D : melodies inside chords, scores and MIDI tracks -/

theorem mapM_ok_forall₂ {α β : Type} (f : α → Res β) (R : α → β → Prop) (l : List α)
    (h : ∀ a ∈ l, ∃ b, f a = .ok b ∧ R a b) : ∃ out, l.mapM f = .ok out ∧ List.Forall₂ R l out := by
  induction l with
  | nil => exact ⟨[], rfl, .nil⟩
  | cons a as ih =>
    obtain ⟨b, hb, hr⟩ := h a (List.mem_cons_self ..)
    obtain ⟨bs, hbs, hrs⟩ := ih (fun a' ha' => h a' (List.mem_cons_of_mem _ ha'))
    refine ⟨b :: bs, ?_, .cons hr hrs⟩
    simp [List.mapM_cons, hb, hbs, bind, Except.bind, pure, Except.pure]

theorem pyIndex_last_ok {α : Type} {l : List α} (h : l ≠ []) : ∃ a, pyIndex l (-1) = .ok a := by
  unfold pyIndex
  have hl : 0 < l.length := List.length_pos_iff.mpr h
  have h1 : ¬ ((-1 + (l.length : Int)) < 0 ∨ (-1 + (l.length : Int)) ≥ (l.length : Int)) := by omega
  have h2 : (-1 + (l.length : Int)).toNat < l.length := by omega
  simp only [show ((-1 : Int) < 0) from by decide, if_true, h1, if_false, List.getElem?_eq_getElem h2]
  exact ⟨_, rfl⟩

theorem pyIndex_zero_ok {α : Type} {l : List α} (h : l ≠ []) : ∃ a, pyIndex l 0 = .ok a := by
  unfold pyIndex
  have hl : 0 < l.length := List.length_pos_iff.mpr h
  have h1 : ¬ ((0 : Int) ≥ (l.length : Int)) := by omega
  have h2 : (0 : Int).toNat < l.length := by simpa using hl
  simp only [show ¬ ((0 : Int) < 0) from by decide, if_false, false_or, h1, List.getElem?_eq_getElem h2]
  exact ⟨_, rfl⟩

/-! ## chords, scores, tracks -/

/-- realising any note of the list succeeds in every context, with a figure filling its span -/
def AllRealOK (rd : Rat → Rat) (notes : List Note) : Prop := ∀ n ∈ notes, ∀ l x, RealOK rd n l x

theorem allRealOK_id (notes : List Note) : AllRealOK id notes := fun n _ l x => realOK_id n l x

theorem melodyRealize_ok (rd : Rat → Rat) (notes : List Note) (last final : Option Note) (hne : notes ≠ [])
    (h : AllRealOK rd notes) :
    ∃ figs, melodyRealize rd notes last final = .ok figs.flatten ∧ List.Forall₂ SpanOK figs notes := by
  obtain ⟨figs, hf, hF⟩ := melodyLoop_ok rd final notes last (fun c hc => h c.1 (contexts_mem_fst hc) c.2.1 c.2.2)
  refine ⟨figs, ?_, hF⟩
  cases notes with
  | nil => exact absurd rfl hne
  | cons n tl => simpa [melodyRealize] using hf

/-- a realised part: same name, and its notes are the concatenation of one span-filling figure per written note -/
def PartSpan (p p' : String × Melody) : Prop :=
  p'.1 = p.1 ∧ ∃ figs, p'.2 = figs.flatten ∧ List.Forall₂ SpanOK figs p.2

def ChordSpan (c c' : Chord) : Prop :=
  c'.elem = c.elem ∧ c'.ext = c.ext ∧ c'.ton = c.ton ∧ c'.oct = c.oct ∧ List.Forall₂ PartSpan c.parts c'.parts

/-- what the code needs of a chord: no empty part; and every note realisable under `rd` -/
def ChordReady (rd : Rat → Rat) (c : Chord) : Prop := ∀ p ∈ c.parts, p.2 ≠ [] ∧ AllRealOK rd p.2

theorem chordRealize_ok (rd : Rat → Rat) (c : Chord) (lastD finalD : List (String × Note)) (h : ChordReady rd c) :
    ∃ c', chordRealize rd c lastD finalD = .ok c' ∧ ChordSpan c c' := by
  obtain ⟨out, ho, hF⟩ := mapM_ok_forall₂
    (fun (p : String × Melody) => do
      let m ← melodyRealize rd p.2 (lastD.lookup p.1) (finalD.lookup p.1)
      pure (p.1, m)) PartSpan c.parts (by
      intro p hp
      obtain ⟨figs, hf, hF⟩ := melodyRealize_ok rd p.2 (lastD.lookup p.1) (finalD.lookup p.1) (h p hp).1 (h p hp).2
      exact ⟨(p.1, figs.flatten), by simp [hf, bind, Except.bind, pure, Except.pure], rfl, figs, rfl, hF⟩)
  refine ⟨{ c with parts := out }, ?_, rfl, rfl, rfl, rfl, hF⟩
  unfold chordRealize
  rw [ho]
  rfl

theorem lastNotes_ok (c : Chord) (h : ∀ p ∈ c.parts, p.2 ≠ []) : ∃ d, lastNotes c = .ok d := by
  obtain ⟨out, ho, _⟩ := mapM_ok_forall₂
    (fun (p : String × Melody) => do let n ← pyIndex p.2 (-1); pure (p.1, n)) (fun _ _ => True) c.parts (by
      intro p hp
      obtain ⟨a, ha⟩ := pyIndex_last_ok (h p hp)
      exact ⟨(p.1, a), by simp [ha, bind, Except.bind, pure, Except.pure], trivial⟩)
  exact ⟨out, ho⟩

theorem firstNotes_ok (c : Chord) (h : ∀ p ∈ c.parts, p.2 ≠ []) : ∃ d, firstNotes c = .ok d := by
  obtain ⟨out, ho, _⟩ := mapM_ok_forall₂
    (fun (p : String × Melody) => do let n ← pyIndex p.2 0; pure (p.1, n)) (fun _ _ => True) c.parts (by
      intro p hp
      obtain ⟨a, ha⟩ := pyIndex_zero_ok (h p hp)
      exact ⟨(p.1, a), by simp [ha, bind, Except.bind, pure, Except.pure], trivial⟩)
  exact ⟨out, ho⟩

theorem scoreLoop_ok (rd : Rat → Rat) :
    ∀ (cs : List Chord) (lastD finalD : List (String × Note)) (prev : Option Chord),
      (∀ p, prev = some p → ∀ q ∈ p.parts, q.2 ≠ []) → (∀ c ∈ cs, ChordReady rd c) →
      ∃ out, scoreLoop rd lastD finalD prev cs = .ok out ∧ List.Forall₂ ChordSpan cs out := by
  intro cs
  induction cs with
  | nil => intro _ _ _ _ _; exact ⟨[], rfl, .nil⟩
  | cons c rest ih =>
    intro lastD finalD prev hprev hall
    have hc : ChordReady rd c := hall c (List.mem_cons_self ..)
    have hcne : ∀ q ∈ c.parts, q.2 ≠ [] := fun q hq => (hc q hq).1
    obtain ⟨lastD', hl⟩ : ∃ d, lastNotesAt prev lastD = .ok d := by
      cases prev with
      | none => exact ⟨lastD, rfl⟩
      | some p => exact lastNotes_ok p (hprev p rfl)
    obtain ⟨finalD', hf⟩ : ∃ d, finalNotesAt rest finalD = .ok d := by
      cases rest with
      | nil => exact ⟨finalD, rfl⟩
      | cons nx _ =>
        exact firstNotes_ok nx (fun q hq => (hall nx (List.mem_cons_of_mem _ (List.mem_cons_self ..)) q hq).1)
    obtain ⟨c', hc', hcs⟩ := chordRealize_ok rd c lastD' finalD' hc
    obtain ⟨tl, htl, hF⟩ := ih lastD' finalD' (some c) (fun p hp => by cases hp; exact hcne)
      (fun c2 h2 => hall c2 (List.mem_cons_of_mem _ h2))
    refine ⟨c' :: tl, ?_, .cons hcs hF⟩
    simp only [scoreLoop, hl, hf, hc', htl, bind, Except.bind, pure, Except.pure]

theorem durSum_of_partSpan {p p' : String × Melody} (h : PartSpan p p') : durSum p'.2 = durSum p.2 := by
  obtain ⟨_, figs, hf, hF⟩ := h
  rw [hf, durSum_flatten_of_spans hF]

theorem chordDuration_of_span {c c' : Chord} (h : ChordSpan c c') : chordDuration c' = chordDuration c := by
  obtain ⟨_, _, _, _, hp⟩ := h
  unfold chordDuration
  revert hp
  generalize c.parts = ps
  generalize c'.parts = ps'
  intro hp
  cases hp with
  | nil => rfl
  | cons h1 hrest =>
    simp only
    rw [durSum_of_partSpan h1]
    generalize durSum _ = acc
    induction hrest generalizing acc with
    | nil => rfl
    | cons h2 _ ih => simp only [List.foldl_cons, durSum_of_partSpan h2]; exact ih _

/-! ### MIDI rows of one track -/

/-- the chords that contain the track, each with the onset the *written* score gives it -/
def writtenBlocks (track : String) : Rat → List Chord → List (Rat × Melody)
  | _, [] => []
  | t, c :: rest =>
      (match c.parts.lookup track with
        | some m => [(t, m)]
        | none => []) ++ writtenBlocks track (t + chordDuration c) rest

/-- a rendered block: it starts at the written onset of its chord and consists of one span-filling
figure per written note -/
def BlockSpan (b' : Rat × List (List Note)) (b : Rat × Melody) : Prop :=
  b'.1 = b.1 ∧ List.Forall₂ SpanOK b'.2 b.2

theorem partOrSilence_ne (c : Chord) (track : String) (h : ∀ q ∈ c.parts, q.2 ≠ []) : partOrSilence c track ≠ [] := by
  unfold partOrSilence
  cases hl : c.parts.lookup track with
  | none => simp
  | some m =>
    simp only
    have hm : (track, m) ∈ c.parts := by
      have := List.lookup_eq_some_iff.mp hl
      obtain ⟨l1, l2, h1, _⟩ := this
      rw [h1]; simp
    exact h _ hm

theorem lookup_mem {c : Chord} {track : String} {m : Melody} (hl : c.parts.lookup track = some m) :
    (track, m) ∈ c.parts := by
  obtain ⟨l1, l2, h1, _⟩ := List.lookup_eq_some_iff.mp hl
  rw [h1]; simp

theorem trackLoop_ok (rd : Rat → Rat) (track : String) :
    ∀ (cs : List Chord) (time : Rat) (prev : Option Chord),
      (∀ p, prev = some p → ∀ q ∈ p.parts, q.2 ≠ []) → (∀ c ∈ cs, ChordReady rd c) →
      ∃ blocks : List (Rat × List (List Note)),
        trackLoop rd track time prev cs = .ok (blocks.flatMap (fun b => rowsOf b.1 b.2.flatten)) ∧
        List.Forall₂ BlockSpan blocks (writtenBlocks track time cs) := by
  intro cs
  induction cs with
  | nil => intro _ _ _ _; exact ⟨[], rfl, .nil⟩
  | cons c rest ih =>
    intro time prev hprev hall
    have hc : ChordReady rd c := hall c (List.mem_cons_self ..)
    have hcne : ∀ q ∈ c.parts, q.2 ≠ [] := fun q hq => (hc q hq).1
    obtain ⟨tl, htl, hF⟩ := ih (time + chordDuration c) (some c) (fun p hp => by cases hp; exact hcne)
      (fun c2 h2 => hall c2 (List.mem_cons_of_mem _ h2))
    cases hl : c.parts.lookup track with
    | none =>
      refine ⟨tl, ?_, ?_⟩
      · simp only [trackLoop, trackChord, hl, htl, bind, Except.bind, pure, Except.pure, List.nil_append]
      · simpa [writtenBlocks, hl] using hF
    | some part =>
      have hpart := hc _ (lookup_mem hl)
      obtain ⟨last, hlast⟩ : ∃ d, trackLast prev track = .ok d := by
        cases prev with
        | none => exact ⟨none, rfl⟩
        | some p =>
          obtain ⟨a, ha⟩ := pyIndex_last_ok (partOrSilence_ne p track (hprev p rfl))
          exact ⟨some a, by simp [trackLast, ha, bind, Except.bind, pure, Except.pure]⟩
      obtain ⟨next, hnext⟩ : ∃ d, trackNext rest track = .ok d := by
        cases rest with
        | nil => exact ⟨none, rfl⟩
        | cons nx _ =>
          obtain ⟨a, ha⟩ := pyIndex_zero_ok (partOrSilence_ne nx track
            (fun q hq => (hall nx (List.mem_cons_of_mem _ (List.mem_cons_self ..)) q hq).1))
          exact ⟨some a, by simp [trackNext, ha, bind, Except.bind, pure, Except.pure]⟩
      obtain ⟨figs, hfigs, hFig⟩ := melodyRealize_ok rd part last next hpart.1 hpart.2
      refine ⟨(time, figs) :: tl, ?_, ?_⟩
      · simp only [trackLoop, trackChord, hl, hlast, hnext, hfigs, htl, bind, Except.bind, pure, Except.pure,
          List.flatMap_cons]
      · simp only [writtenBlocks, hl, List.singleton_append]
        exact .cons ⟨rfl, hFig⟩ hF

/-- rows of a figure list: the last row ends `durSum` after the start, every row's duration is the piece's -/
theorem rowsOf_durations (t : Rat) (l : List Note) : (rowsOf t l).map (·.2) = l.map (·.dur) := by
  induction l generalizing t with
  | nil => rfl
  | cons n ns ih => simp [rowsOf, ih]

theorem rowsOf_onsets_ge (t : Rat) (l : List Note) (h : NonnegL l) : ∀ r ∈ rowsOf t l, t ≤ r.1 := by
  induction l generalizing t with
  | nil => intro r hr; simp [rowsOf] at hr
  | cons n ns ih =>
    intro r hr
    obtain ⟨h1, h2⟩ := nonnegL_cons.mp h
    simp only [rowsOf, List.mem_cons] at hr
    rcases hr with rfl | hr
    · exact le_refl _
    · have := ih (t + n.dur) h2 r hr
      linarith

/-- the row that renders the first piece of figure `i` starts at the written onset of note `i` -/
theorem rowsOf_append (t : Rat) (a b : List Note) : rowsOf t (a ++ b) = rowsOf t a ++ rowsOf (t + durSum a) b := by
  induction a generalizing t with
  | nil => simp [rowsOf]
  | cons n ns ih => simp [rowsOf, ih, add_assoc]


end MV.Orn
