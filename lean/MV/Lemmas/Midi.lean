/-
Helper lemmas for C07 (the MIDI writer): ticks on the 480 grid, per-track delta times, what
`apply_events` leaves in each track, and the specification-side definitions used by the theorems
of `MV/Props/C07.lean`.
-/
import MV.Model.Midi
import MV.Lemmas.Window
namespace MV.Midi
open MV

/-! ### times on the tick grid -/

/-- a time (in quarter notes) that is a whole number of ticks -/
def WholeTick (q : Rat) : Prop := (q * (TICKS : Int)).den = 1
instance (q : Rat) : Decidable (WholeTick q) := by unfold WholeTick; infer_instance

/-- the tick of a time (exact on the grid) -/
def tickOf (q : Rat) : Int := (q * (TICKS : Int)).num

theorem rat_eq_num_of_den_one {q : Rat} (h : q.den = 1) : q = (q.num : Rat) :=
  Rat.ext (by simp) (by simp [h])

theorem wholeTick_eq {q : Rat} (h : WholeTick q) : q * (TICKS : Int) = (tickOf q : Rat) :=
  rat_eq_num_of_den_one h

theorem truncRat_intCast (n : Int) : truncRat (n : Rat) = n := by
  simp [truncRat]

theorem truncRat_sub_mul {o p : Rat} (ho : WholeTick o) (hp : WholeTick p) :
    truncRat ((o - p) * (TICKS : Int)) = tickOf o - tickOf p := by
  have : (o - p) * (TICKS : Int) = ((tickOf o - tickOf p : Int) : Rat) := by
    rw [Rat.intCast_sub, ← wholeTick_eq ho, ← wholeTick_eq hp]; grind
  rw [this, truncRat_intCast]

theorem truncRat_mul {o : Rat} (ho : WholeTick o) : truncRat (o * (TICKS : Int)) = tickOf o := by
  rw [wholeTick_eq ho, truncRat_intCast]

theorem wholeTick_zero : WholeTick 0 := by decide +kernel

theorem tickOf_zero : tickOf 0 = 0 := by decide +kernel

/-- on the grid the tick is monotone in the time -/
theorem tickOf_le {a b : Rat} (ha : WholeTick a) (hb : WholeTick b) (h : a ≤ b) : tickOf a ≤ tickOf b := by
  have h1 := wholeTick_eq ha
  have h2 := wholeTick_eq hb
  have h3 : (tickOf a : Rat) ≤ (tickOf b : Rat) := by
    rw [← h1, ← h2]
    have : (0 : Rat) ≤ ((TICKS : Int) : Rat) := by decide
    exact Rat.mul_le_mul_of_nonneg_right h this
  exact Rat.intCast_le_intCast.mp h3

theorem tickOf_lt {a b : Rat} (ha : WholeTick a) (hb : WholeTick b) (h : a < b) : tickOf a < tickOf b := by
  have h1 := wholeTick_eq ha
  have h2 := wholeTick_eq hb
  have h3 : (tickOf a : Rat) < (tickOf b : Rat) := by
    rw [← h1, ← h2]
    have : (0 : Rat) < ((TICKS : Int) : Rat) := by decide
    exact Rat.mul_lt_mul_of_pos_right h this
  exact Rat.intCast_lt_intCast.mp h3

/-! ### per-track delta times -/

/-- single-track version of `withDeltas`: `p` is the offset of the previous event of the track -/
def deltas1 : List Ev → Option Rat → List Ev
  | [], _ => []
  | e :: es, p => { e with delta := deltaOf p e.offset } :: deltas1 es (some e.offset)

/-- `groupby('TRACK').diff()` seen from one track: the events of track `k`, each with the time since
the previous event of track `k` -/
theorem withDeltas_filter (k : Nat) (evs : List Ev) (prev : List (Nat × Rat)) :
    (withDeltas evs prev).filter (fun e => e.track = k) =
      deltas1 (evs.filter (fun e => e.track = k)) (prev.lookup k) := by
  induction evs generalizing prev with
  | nil => simp [withDeltas, deltas1]
  | cons e es ih =>
    simp only [withDeltas]
    by_cases h : e.track = k
    · subst h
      simp [deltas1, ih]
    · have hk : (k == e.track) = false := beq_eq_false_iff_ne.mpr (fun x => h x.symm)
      simp only [List.filter_cons, h, decide_false, Bool.false_eq_true, ↓reduceIte, ih, List.lookup_cons, hk]

theorem deltas1_length (es : List Ev) (p) : (deltas1 es p).length = es.length := by
  induction es generalizing p with
  | nil => rfl
  | cons e es ih => simp [deltas1, ih]

/-! ### what `apply_events` leaves in each track -/

/-- the message of an event row, without mido's range checks -/
def msgOf (channels : List Int) (e : Ev) : Msg :=
  let ch := (channels[e.track]?).getD 0
  if e.isOn then .noteOn (truncRat (e.delta * TICKS)) ch e.pitch (truncRat e.vel)
  else .noteOff (truncRat (e.delta * TICKS)) ch e.pitch (truncRat e.vel)

/-- the range checks of one event row -/
def evOK (channels : List Int) (e : Ev) : Bool :=
  channelOK ((channels[e.track]?).getD 0) && byteOK e.pitch && byteOK (truncRat e.vel)

theorem evMsg_eq (channels : List Int) (e : Ev) :
    evMsg channels e = if evOK channels e then .ok (msgOf channels e) else .error .value := by
  unfold evMsg evOK msgOf
  simp only []

theorem applyEvents_ok {evs : List Ev} {tracks out : List (List Msg)} {channels : List Int}
    (h : applyEvents evs tracks channels = .ok out) :
    (∀ e ∈ evs, evOK channels e = true ∧ e.track < tracks.length) ∧ out.length = tracks.length ∧
    ∀ k, out[k]? = (tracks[k]?).map (· ++ (evs.filter (fun e => e.track = k)).map (msgOf channels)) := by
  induction evs generalizing tracks with
  | nil =>
    simp only [applyEvents, Except.ok.injEq] at h
    subst h
    simp
  | cons e es ih =>
    simp only [applyEvents, evMsg_eq] at h
    by_cases hok : evOK channels e = true
    · simp only [hok, ↓reduceIte] at h
      by_cases hlt : e.track < tracks.length
      · simp only [bind, Except.bind, hlt, ↓reduceIte] at h
        obtain ⟨h1, h2, h3⟩ := ih h
        refine ⟨?_, ?_, ?_⟩
        · intro e' he'
          rcases List.mem_cons.mp he' with rfl | he'
          · exact ⟨hok, hlt⟩
          · have := h1 e' he'
            simpa using this
        · simpa using h2
        · intro k
          rw [h3 k, List.getElem?_modify]
          by_cases hk : e.track = k
          · subst hk
            simp
            cases tracks[e.track]? <;> simp
          · simp [hk]
      · simp [bind, Except.bind, hlt] at h
    · simp [hok, bind, Except.bind] at h

/-- the other direction: when every event row passes mido's checks and names an existing track,
`apply_events` cannot raise -/
theorem applyEvents_succeeds (evs : List Ev) (tracks : List (List Msg)) (channels : List Int)
    (h : ∀ e ∈ evs, evOK channels e = true ∧ e.track < tracks.length) :
    ∃ out, applyEvents evs tracks channels = .ok out := by
  induction evs generalizing tracks with
  | nil => exact ⟨tracks, rfl⟩
  | cons e es ih =>
    have he := h e (by simp)
    simp only [applyEvents, evMsg_eq, he.1, ↓reduceIte, bind, Except.bind, he.2]
    apply ih
    intro e' he'
    have := h e' (by simp [he'])
    simpa using this

/-! ### reading a track back -/

theorem decodeFrom_append (t0 : Int) (a b : List Msg) :
    decodeFrom t0 (a ++ b) = decodeFrom t0 a ++ decodeFrom (t0 + (a.map Msg.delta).sum) b := by
  induction a generalizing t0 with
  | nil => simp [decodeFrom]
  | cons m ms ih =>
    simp only [List.cons_append, decodeFrom, ih, List.map_cons, List.sum_cons]
    congr 3
    omega

theorem decodeFrom_zero_deltas (t0 : Int) (a : List Msg) (h : ∀ m ∈ a, m.delta = 0) :
    decodeFrom t0 a = a.map (fun m => (t0, m)) := by
  induction a generalizing t0 with
  | nil => rfl
  | cons m ms ih =>
    have hm : m.delta = 0 := h m (by simp)
    simp only [decodeFrom, hm, Int.add_zero, List.map_cons]
    rw [ih t0 (fun x hx => h x (by simp [hx]))]

/-- the note messages of a decoded track: (tick, is note_on, channel, key, velocity) -/
def noteEvents : List (Int × Msg) → List (Int × Bool × Int × Int × Int)
  | [] => []
  | (t, .noteOn _ c k v) :: r => (t, true, c, k, v) :: noteEvents r
  | (t, .noteOff _ c k v) :: r => (t, false, c, k, v) :: noteEvents r
  | (_, .program ..) :: r | (_, .trackName ..) :: r | (_, .setTempo ..) :: r | (_, .timeSig ..) :: r => noteEvents r

theorem noteEvents_append (a b : List (Int × Msg)) : noteEvents (a ++ b) = noteEvents a ++ noteEvents b := by
  induction a with
  | nil => rfl
  | cons x xs ih =>
    obtain ⟨t, m⟩ := x
    cases m <;> simp [noteEvents, ih]

theorem deltaOf_eq (p : Option Rat) (o : Rat) : deltaOf p o = o - p.getD 0 := by
  cases p <;> simp [deltaOf, Rat.sub_eq_add_neg, Rat.add_zero]

/-- what a note message should say about an event row: tick of its offset, kind, channel of its
track, key, velocity -/
def evSpec (channels : List Int) (e : Ev) : Int × Bool × Int × Int × Int :=
  (tickOf e.offset, e.isOn, (channels[e.track]?).getD 0, e.pitch, truncRat e.vel)

/-- telescoping: on the grid the running sum of the written delta times is the tick of the offset -/
theorem decode_deltas1 (channels : List Int) (es : List Ev) (p : Option Rat) (t0 : Int)
    (hes : ∀ e ∈ es, WholeTick e.offset) (hp : WholeTick (p.getD 0)) (ht : t0 = tickOf (p.getD 0)) :
    noteEvents (decodeFrom t0 ((deltas1 es p).map (msgOf channels))) = es.map (evSpec channels) := by
  induction es generalizing p t0 with
  | nil => rfl
  | cons e es ih =>
    have he : WholeTick e.offset := hes e (by simp)
    have hd : truncRat (deltaOf p e.offset * (TICKS : Int)) = tickOf e.offset - tickOf (p.getD 0) := by
      rw [deltaOf_eq]; exact truncRat_sub_mul he hp
    have ih' := ih (some e.offset) (tickOf e.offset) (fun x hx => hes x (by simp [hx])) he rfl
    simp only [deltas1, List.map_cons, msgOf, decodeFrom]
    by_cases hon : e.isOn = true
    · simp only [hon, ↓reduceIte, Msg.delta, noteEvents, hd, evSpec]
      have : t0 + (tickOf e.offset - tickOf (p.getD 0)) = tickOf e.offset := by omega
      rw [this]
      exact congrArg _ ih'
    · have hon' : e.isOn = false := by simpa using hon
      simp only [hon', Bool.false_eq_true, ↓reduceIte, Msg.delta, noteEvents, hd, evSpec]
      have : t0 + (tickOf e.offset - tickOf (p.getD 0)) = tickOf e.offset := by omega
      rw [this]
      exact congrArg _ ih'

/-- every written delta time is non-negative when the offsets of the track do not decrease -/
theorem deltas1_nonneg (es : List Ev) (p : Option Rat)
    (hs : List.Pairwise (fun a b : Ev => a.offset ≤ b.offset) es) (hp : ∀ e ∈ es, p.getD 0 ≤ e.offset) :
    ∀ e ∈ deltas1 es p, 0 ≤ e.delta := by
  induction es generalizing p with
  | nil => simp [deltas1]
  | cons e es ih =>
    intro x hx
    simp only [deltas1, List.mem_cons] at hx
    rcases hx with rfl | hx
    · simp only [deltaOf_eq]
      have := hp e (by simp)
      grind
    · rw [List.pairwise_cons] at hs
      exact ih (some e.offset) hs.2 (fun y hy => by simpa using hs.1 y hy) x hx

/-! ### the sorted event frame -/

theorem evLe_iff (a b : Ev) : evLe a b = true ↔
    a.track < b.track ∨ (a.track = b.track ∧ (a.offset < b.offset ∨ (a.offset = b.offset ∧ (a.isOn = false ∨ b.isOn = true)))) := by
  simp [evLe]

theorem evLe_trans (a b c : Ev) (h1 : evLe a b = true) (h2 : evLe b c = true) : evLe a c = true := by
  rw [evLe_iff] at *
  rcases h1 with h1 | ⟨h1, h1'⟩ <;> rcases h2 with h2 | ⟨h2, h2'⟩
  · left; omega
  · left; omega
  · left; omega
  · right
    refine ⟨by omega, ?_⟩
    rcases h1' with h1' | ⟨h1', h1''⟩ <;> rcases h2' with h2' | ⟨h2', h2''⟩
    · left; grind
    · left; rw [← h2']; exact h1'
    · left; rw [h1']; exact h2'
    · right
      refine ⟨h1'.trans h2', ?_⟩
      cases ha : a.isOn <;> cases hb : b.isOn <;> cases hc : c.isOn <;> simp_all

theorem evLe_total (a b : Ev) : (evLe a b || evLe b a) = true := by
  rw [Bool.or_eq_true, evLe_iff, evLe_iff]
  rcases Nat.lt_trichotomy a.track b.track with h | h | h
  · left; left; exact h
  · have tri : a.offset < b.offset ∨ a.offset = b.offset ∨ b.offset < a.offset := by grind
    rcases tri with h' | h' | h'
    · left; right; exact ⟨h, Or.inl h'⟩
    · cases ha : a.isOn
      · left; right; exact ⟨h, Or.inr ⟨h', Or.inl rfl⟩⟩
      · right; right; exact ⟨h.symm, Or.inr ⟨h'.symm, Or.inr rfl⟩⟩
    · right; right; exact ⟨h.symm, Or.inl h'⟩
  · right; left; exact h

theorem insertBy_perm (le : α → α → Bool) (x : α) (l : List α) : (insertBy le x l).Perm (x :: l) := by
  induction l with
  | nil => exact List.Perm.refl _
  | cons y ys ih =>
    simp only [insertBy]
    split
    · exact List.Perm.refl _
    · exact (List.Perm.cons y ih).trans (List.Perm.swap x y ys)

theorem sortBy_perm (le : α → α → Bool) (l : List α) : (sortBy le l).Perm l := by
  induction l with
  | nil => exact List.Perm.refl _
  | cons x xs ih =>
    simp only [sortBy, List.foldr_cons]
    exact (insertBy_perm le x _).trans (List.Perm.cons x ih)

theorem insertBy_pairwise {le : α → α → Bool} (htrans : ∀ a b c, le a b = true → le b c = true → le a c = true)
    (htotal : ∀ a b, (le a b || le b a) = true) (x : α) (l : List α)
    (h : l.Pairwise (fun a b => le a b = true)) : (insertBy le x l).Pairwise (fun a b => le a b = true) := by
  induction l with
  | nil => simp [insertBy]
  | cons y ys ih =>
    rw [List.pairwise_cons] at h
    simp only [insertBy]
    by_cases hxy : le x y = true
    · simp only [hxy, ↓reduceIte]
      refine List.pairwise_cons.mpr ⟨?_, List.pairwise_cons.mpr h⟩
      intro z hz
      rcases List.mem_cons.mp hz with rfl | hz
      · exact hxy
      · exact htrans _ _ _ hxy (h.1 z hz)
    · simp only [hxy, Bool.false_eq_true, ↓reduceIte]
      have hyx : le y x = true := by
        have := htotal x y
        simpa [hxy] using this
      refine List.pairwise_cons.mpr ⟨?_, ih h.2⟩
      intro z hz
      rcases List.mem_cons.mp ((insertBy_perm le x ys).mem_iff.mp hz) with rfl | hz
      · exact hyx
      · exact h.1 z hz

theorem sortBy_pairwise {le : α → α → Bool} (htrans : ∀ a b c, le a b = true → le b c = true → le a c = true)
    (htotal : ∀ a b, (le a b || le b a) = true) (l : List α) :
    (sortBy le l).Pairwise (fun a b => le a b = true) := by
  induction l with
  | nil => simp [sortBy]
  | cons x xs ih =>
    simp only [sortBy, List.foldr_cons]
    exact insertBy_pairwise htrans htotal x _ ih

/-- `df_events` after the second `sort_values`, before the deltas -/
def sortedEvents (rows : List Row) : List Ev :=
  sortBy evLe ((sortBy rowLe rows).map rowOn ++ (sortBy rowLe rows).map rowOff)

theorem prepareEvents_eq (rows : List Row) :
    prepareEvents rows = (withDeltas (sortedEvents rows) []).map addMiddleC := rfl

theorem map_append_map_perm_flatMap {α β : Type} (f g : α → β) (l : List α) :
    (l.map f ++ l.map g).Perm (l.flatMap (fun x => [f x, g x])) := by
  induction l with
  | nil => simp
  | cons x xs ih =>
    simp only [List.map_cons, List.cons_append, List.flatMap_cons]
    refine List.Perm.cons _ ?_
    exact (List.perm_middle).trans (List.Perm.cons _ ih)

/-- the frame holds exactly one NOTE_ON and one NOTE_OFF row per note -/
theorem sortedEvents_perm (rows : List Row) :
    (sortedEvents rows).Perm (rows.flatMap (fun r => [rowOn r, rowOff r])) := by
  unfold sortedEvents
  refine (sortBy_perm _ _).trans ?_
  refine (map_append_map_perm_flatMap rowOn rowOff _).trans ?_
  exact (sortBy_perm rowLe rows).flatMap_right _

/-- … sorted by (track, offset, type) with NOTE_OFF before NOTE_ON -/
theorem sortedEvents_sorted (rows : List Row) :
    (sortedEvents rows).Pairwise (fun a b => evLe a b = true) :=
  sortBy_pairwise evLe_trans evLe_total _

theorem deltas1_map_addMiddleC (es : List Ev) (p : Option Rat) :
    deltas1 (es.map addMiddleC) p = (deltas1 es p).map addMiddleC := by
  induction es generalizing p with
  | nil => rfl
  | cons e es ih => simp [deltas1, ih, addMiddleC]

/-- the event rows of track `k`, as `apply_events` meets them -/
theorem prepare_track (rows : List Row) (k : Nat) :
    (prepareEvents rows).filter (fun e => e.track = k) =
      deltas1 (((sortedEvents rows).filter (fun e => e.track = k)).map addMiddleC) none := by
  rw [prepareEvents_eq, List.filter_map, deltas1_map_addMiddleC]
  have : ((fun e : Ev => decide (e.track = k)) ∘ addMiddleC) = (fun e : Ev => decide (e.track = k)) := by
    funext e; rfl
  rw [this, withDeltas_filter]
  rfl

theorem flatMap_pair_filter_track (rows : List Row) (k : Nat) :
    (rows.flatMap (fun r => [rowOn r, rowOff r])).filter (fun e => e.track = k) =
      (rows.filter (fun r => r.track = k)).flatMap (fun r => [rowOn r, rowOff r]) := by
  induction rows with
  | nil => rfl
  | cons r rs ih =>
    have hon : (rowOn r).track = r.track := rfl
    have hoff : (rowOff r).track = r.track := rfl
    by_cases h : r.track = k
    · simp only [List.flatMap_cons, List.filter_append, ih, List.filter_cons, hon, hoff, h, decide_true,
        ↓reduceIte, List.filter_nil]
    · simp only [List.flatMap_cons, List.filter_append, ih, List.filter_cons, hon, hoff, h, decide_false,
        Bool.false_eq_true, ↓reduceIte, List.filter_nil, List.nil_append]

/-! ### one track of the written file -/

def Msg.isNote : Msg → Bool
  | .noteOn .. | .noteOff .. => true
  | _ => false

/-- messages in front of the notes of a track: delta 0, no note message -/
def IsHeader (hd : List Msg) : Prop := ∀ m ∈ hd, m.delta = 0 ∧ m.isNote = false

theorem header_decode (hd : List Msg) (h : IsHeader hd) (t0 : Int) :
    noteEvents (decodeFrom t0 hd) = [] ∧ (hd.map Msg.delta).sum = 0 := by
  induction hd generalizing t0 with
  | nil => exact ⟨rfl, rfl⟩
  | cons m ms ih =>
    have hm := h m (by simp)
    have ih' := ih (fun x hx => h x (by simp [hx]))
    refine ⟨?_, by simp [hm.1, (ih' t0).2]⟩
    have := (ih' (t0 + m.delta)).1
    cases m <;> simp_all [decodeFrom, noteEvents, Msg.isNote]

/-- the two note messages the property asks for a sounding row: on at the onset, off at the end,
key `60 + pitch`, velocity `int(amp)` -/
def rowNotes (ch : Int) (r : Row) : List (Int × Bool × Int × Int × Int) :=
  [(tickOf r.offset, true, ch, r.pitch + 60, truncRat r.vel),
   (tickOf (r.offset + r.dur), false, ch, r.pitch + 60, truncRat r.vel)]

def expectedNotes (ch : Int) (k : Nat) (rows : List Row) : List (Int × Bool × Int × Int × Int) :=
  (rows.filter (fun r => r.track = k)).flatMap (rowNotes ch)

/-- order of the note messages of a track: ticks never decrease and at one tick every note_off
comes before every note_on -/
def NoteOrder (a b : Int × Bool × Int × Int × Int) : Prop :=
  a.1 < b.1 ∨ (a.1 = b.1 ∧ (a.2.1 = false ∨ b.2.1 = true))

def RowsOnGrid (rows : List Row) : Prop := ∀ r ∈ rows, WholeTick r.offset ∧ WholeTick (r.offset + r.dur)

theorem mem_sortedEvents {rows : List Row} {e : Ev} (h : e ∈ sortedEvents rows) :
    ∃ r ∈ rows, e = rowOn r ∨ e = rowOff r := by
  have := (sortedEvents_perm rows).mem_iff.mp h
  simp only [List.mem_flatMap, List.mem_cons, List.not_mem_nil, or_false] at this
  exact this

theorem sortedEvents_onGrid {rows : List Row} (hg : RowsOnGrid rows) :
    ∀ e ∈ sortedEvents rows, WholeTick e.offset := by
  intro e he
  obtain ⟨r, hr, h | h⟩ := mem_sortedEvents he
  · subst h; exact (hg r hr).1
  · subst h; exact (hg r hr).2

theorem track_notes {rows : List Row} {tracks0 out : List (List Msg)} {channels : List Int} {k : Nat}
    {hd : List Msg} (h : applyEvents (prepareEvents rows) tracks0 channels = .ok out)
    (hk : tracks0[k]? = some hd) (hh : IsHeader hd) (hg : RowsOnGrid rows) :
    ∃ trk, out[k]? = some trk ∧
      noteEvents (decode trk) =
        (((sortedEvents rows).filter (fun e => e.track = k)).map addMiddleC).map (evSpec channels) := by
  obtain ⟨_, _, h3⟩ := applyEvents_ok h
  refine ⟨_, by rw [h3 k, hk]; rfl, ?_⟩
  obtain ⟨hn, hs⟩ := header_decode hd hh 0
  rw [decode, decodeFrom_append, noteEvents_append, hn, hs, List.nil_append, prepare_track]
  apply decode_deltas1
  · intro e he
    simp only [List.mem_map, List.mem_filter] at he
    obtain ⟨e', ⟨he', _⟩, rfl⟩ := he
    exact sortedEvents_onGrid hg e' he'
  · exact wholeTick_zero
  · simp [tickOf_zero]

theorem evSpec_rowOn (channels : List Int) (r : Row) :
    evSpec channels (addMiddleC (rowOn r)) =
      (tickOf r.offset, true, (channels[r.track]?).getD 0, r.pitch + 60, truncRat r.vel) := rfl

theorem evSpec_rowOff (channels : List Int) (r : Row) :
    evSpec channels (addMiddleC (rowOff r)) =
      (tickOf (r.offset + r.dur), false, (channels[r.track]?).getD 0, r.pitch + 60, truncRat r.vel) := rfl

theorem flatMap_congr_mem {α β : Type} (l : List α) (f g : α → List β) (h : ∀ x ∈ l, f x = g x) :
    l.flatMap f = l.flatMap g := by
  induction l with
  | nil => rfl
  | cons x xs ih =>
    simp only [List.flatMap_cons, h x (by simp), ih (fun y hy => h y (by simp [hy]))]

/-- the notes read back from track `k` are, up to the order among simultaneous messages of the
same kind, exactly the two messages of every sounding row of that track -/
theorem track_notes_perm (rows : List Row) (channels : List Int) (k : Nat) :
    ((((sortedEvents rows).filter (fun e => e.track = k)).map addMiddleC).map (evSpec channels)).Perm
      (expectedNotes ((channels[k]?).getD 0) k rows) := by
  have h1 := ((sortedEvents_perm rows).filter (fun e => e.track = k))
  rw [flatMap_pair_filter_track] at h1
  have h2 := (h1.map addMiddleC).map (evSpec channels)
  refine h2.trans ?_
  unfold expectedNotes
  rw [List.map_map, List.map_flatMap]
  apply List.Perm.of_eq
  apply flatMap_congr_mem
  intro r hr
  have : r.track = k := by simpa using (List.mem_filter.mp hr).2
  simp [evSpec_rowOn, evSpec_rowOff, rowNotes, this]

theorem track_notes_order {rows : List Row} (hg : RowsOnGrid rows) (channels : List Int) (k : Nat) :
    ((((sortedEvents rows).filter (fun e => e.track = k)).map addMiddleC).map (evSpec channels)).Pairwise
      NoteOrder := by
  rw [List.map_map, List.pairwise_map]
  have hs := (sortedEvents_sorted rows).filter (fun e => decide (e.track = k))
  refine hs.imp_of_mem ?_
  intro a b ha hb hab
  have hta : a.track = k := by simpa using (List.mem_filter.mp ha).2
  have htb : b.track = k := by simpa using (List.mem_filter.mp hb).2
  have hwa := sortedEvents_onGrid hg a (List.mem_filter.mp ha).1
  have hwb := sortedEvents_onGrid hg b (List.mem_filter.mp hb).1
  rw [evLe_iff] at hab
  rcases hab with hlt | ⟨_, hlt | ⟨heq, hty⟩⟩
  · omega
  · left; exact tickOf_lt hwa hwb hlt
  · right
    refine ⟨by simp [Function.comp, evSpec, addMiddleC, heq], ?_⟩
    simpa [Function.comp, evSpec, addMiddleC] using hty

/-! ### `set_tracks` -/

/-- the first message of track `i`, given the final channel list -/
def headOf (names : List String) (instruments : List Int) (channels : List Int) (i : Nat) : List Msg :=
  if isDrumAt names i then [.program 0 9 0]
  else if i < instruments.length then [.program 0 ((channels[i]?).getD 0) ((instruments[i]?).getD 0)]
  else if i ≠ 9 then [.program 0 ((channels[i]?).getD 0) 0]
  else []

theorem mkProgram_ok {c p : Int} {m : Msg} (h : mkProgram c p = .ok m) : m = .program 0 c p := by
  unfold mkProgram at h
  split at h <;> simp_all

theorem headStep_spec {names : List String} {instr chs chs1 : List Int} {i : Nat} {head : List Msg}
    (h : headStep names instr chs i = .ok (head, chs1)) :
    chs1 = (if isDrumAt names i then chs.set i 9 else chs) ∧ head = headOf names instr chs i := by
  unfold headStep at h
  unfold headOf
  by_cases hd : isDrumAt names i = true
  · simp only [hd, ↓reduceIte] at h ⊢
    cases hm : mkProgram 9 0 with
    | error e => simp [hm, Except.map] at h
    | ok m =>
      simp only [hm, Except.map, Except.ok.injEq, Prod.mk.injEq] at h
      exact ⟨h.2.symm, by rw [← h.1, mkProgram_ok hm]⟩
  · simp only [hd, Bool.false_eq_true, ↓reduceIte] at h ⊢
    by_cases hi : i < instr.length
    · simp only [hi, ↓reduceIte] at h ⊢
      cases hm : mkProgram (chs[i]?.getD 0) (instr[i]?.getD 0) with
      | error e => simp [hm, Except.map] at h
      | ok m =>
        simp only [hm, Except.map, Except.ok.injEq, Prod.mk.injEq] at h
        exact ⟨h.2.symm, by rw [← h.1, mkProgram_ok hm]⟩
    · simp only [hi, ↓reduceIte] at h ⊢
      by_cases h9 : i ≠ 9
      · simp only [h9, ne_eq, not_false_eq_true, ↓reduceIte] at h ⊢
        cases hm : mkProgram (chs[i]?.getD 0) 0 with
        | error e => simp [hm, Except.map] at h
        | ok m =>
          simp only [hm, Except.map, Except.ok.injEq, Prod.mk.injEq] at h
          exact ⟨h.2.symm, by rw [← h.1, mkProgram_ok hm]⟩
      · simp only [h9, ↓reduceIte, pure, Except.pure, Except.ok.injEq, Prod.mk.injEq] at h ⊢
        exact ⟨h.2.symm, h.1.symm⟩

theorem headOf_congr (names : List String) (instr a b : List Int) (i : Nat)
    (h : isDrumAt names i = false → a[i]? = b[i]?) : headOf names instr a i = headOf names instr b i := by
  unfold headOf
  by_cases hd : isDrumAt names i = true
  · simp [hd]
  · have := h (by simpa using hd)
    simp [hd, this]

theorem trackHeads_spec {names : List String} {instr chs chs' : List Int} {i n : Nat} {heads : List (List Msg)}
    (h : trackHeads names instr chs i n = .ok (heads, chs')) :
    heads.length = n ∧ chs'.length = chs.length ∧
    (∀ x, chs'[x]? = if i ≤ x ∧ x < i + n ∧ isDrumAt names x = true then (chs[x]?).map (fun _ => 9) else chs[x]?) ∧
    (∀ j, j < n → heads[j]? = some (headOf names instr chs' (i + j))) := by
  induction n generalizing i chs heads chs' with
  | zero =>
    simp only [trackHeads, Except.ok.injEq, Prod.mk.injEq] at h
    obtain ⟨rfl, rfl⟩ := h
    refine ⟨rfl, rfl, ?_, ?_⟩
    · intro x; split
      · omega
      · rfl
    · intro j hj; omega
  | succ n ih =>
    simp only [trackHeads] at h
    cases hs : headStep names instr chs i with
    | error e => simp [hs] at h
    | ok p =>
      obtain ⟨head, chs1⟩ := p
      simp only [hs] at h
      cases ht : trackHeads names instr chs1 (i + 1) n with
      | error e => simp [ht] at h
      | ok q =>
        obtain ⟨rest, chs2⟩ := q
        simp only [ht, Except.ok.injEq, Prod.mk.injEq] at h
        obtain ⟨rfl, rfl⟩ := h
        obtain ⟨h1, h2, h3, h4⟩ := ih ht
        obtain ⟨hc, hh⟩ := headStep_spec hs
        have hlen : chs1.length = chs.length := by rw [hc]; split <;> simp
        have hx : ∀ x, chs2[x]? =
            if i ≤ x ∧ x < i + (n + 1) ∧ isDrumAt names x = true then (chs[x]?).map (fun _ => 9) else chs[x]? := by
          intro x
          rw [h3 x, hc]
          by_cases hxi : x = i
          · subst hxi
            by_cases hd : isDrumAt names x = true
            · simp [hd, List.getElem?_set]
              split <;> simp_all
            · simp [hd]
          · by_cases hd : isDrumAt names i = true
            · simp only [hd, ↓reduceIte, List.getElem?_set, show ¬ i = x from fun e => hxi e.symm]
              have : (i + 1 ≤ x ∧ x < i + 1 + n ∧ isDrumAt names x = true) ↔ (i ≤ x ∧ x < i + (n + 1) ∧ isDrumAt names x = true) := by
                constructor <;> (intro ⟨a, b, c⟩; exact ⟨by omega, by omega, c⟩)
              simp only [this]
            · simp only [hd, Bool.false_eq_true, ↓reduceIte]
              have : (i + 1 ≤ x ∧ x < i + 1 + n ∧ isDrumAt names x = true) ↔ (i ≤ x ∧ x < i + (n + 1) ∧ isDrumAt names x = true) := by
                constructor <;> (intro ⟨a, b, c⟩; exact ⟨by omega, by omega, c⟩)
              simp only [this]
        refine ⟨by simp [h1], by omega, hx, ?_⟩
        intro j hj
        cases j with
        | zero =>
          simp only [List.getElem?_cons_zero, Nat.add_zero, Option.some.injEq]
          rw [hh]
          apply headOf_congr
          intro hd
          rw [hx i]
          simp [hd]
        | succ j =>
          simp only [List.getElem?_cons_succ]
          rw [h4 j (by omega)]
          congr 2
          omega

theorem mkTempo_ok {bpm : Int} {m : Msg} (h : mkTempo bpm = .ok m) : m = .setTempo 0 (bpm2tempo bpm) := by
  unfold mkTempo at h
  split at h
  · simp at h
  · simp only at h
    split at h <;> simp_all

theorem mkTimeSig_ok {n d : Int} {m : Msg} (h : mkTimeSig n d = .ok m) : m = .timeSig 0 n d := by
  unfold mkTimeSig at h
  split at h <;> simp_all

theorem headOf_isHeader (names instr chs i) : IsHeader (headOf names instr chs i) := by
  unfold headOf IsHeader
  split
  · simp [Msg.delta, Msg.isNote]
  · split
    · simp [Msg.delta, Msg.isNote]
    · split <;> simp [Msg.delta, Msg.isNote]

/-- the tempo and time-signature messages `set_tracks` appends to track 0 -/
def metas (tempo : Int) (ts : Int × Int) : List Msg :=
  [.trackName 0, .setTempo 0 (bpm2tempo tempo), .timeSig 0 ts.1 ts.2]

theorem setTracks_spec {nb : Nat} {names : List String} {instr chs chs' : List Int} {tempo : Int} {ts : Int × Int}
    {tracks0 : List (List Msg)} (h : setTracks nb names instr chs tempo ts = .ok (tracks0, chs')) :
    tracks0.length = nb + 1 ∧ chs'.length = chs.length ∧
    (∀ x, chs'[x]? = if x < nb + 1 ∧ isDrumAt names x = true then (chs[x]?).map (fun _ => 9) else chs[x]?) ∧
    tracks0[0]? = some (headOf names instr chs' 0 ++ metas tempo ts) ∧
    (∀ j, 0 < j → j < nb + 1 → tracks0[j]? = some (headOf names instr chs' j)) := by
  unfold setTracks at h
  simp only [bind, Except.bind] at h
  cases ht : trackHeads names instr chs 0 (nb + 1) with
  | error e => simp [ht] at h
  | ok p =>
    obtain ⟨heads, c⟩ := p
    simp only [ht] at h
    cases hm : mkTempo tempo with
    | error e => simp [hm] at h
    | ok t =>
      simp only [hm] at h
      cases hs : mkTimeSig ts.1 ts.2 with
      | error e => simp [hs] at h
      | ok s =>
        simp only [hs] at h
        obtain ⟨h1, h2, h3, h4⟩ := trackHeads_spec ht
        cases heads with
        | nil => simp at h1
        | cons hd hs' =>
          simp only [pure, Except.pure, Except.ok.injEq, Prod.mk.injEq] at h
          obtain ⟨rfl, rfl⟩ := h
          refine ⟨by simpa using h1, h2, ?_, ?_, ?_⟩
          · intro x
            rw [h3 x]
            simp
          · have := h4 0 (by omega)
            simp only [List.getElem?_cons_zero, Nat.add_zero, Option.some.injEq] at this
            simp [this, metas, mkTempo_ok hm, mkTimeSig_ok hs]
          · intro j hj hj'
            cases j with
            | zero => omega
            | succ j =>
              have := h4 (j + 1) hj'
              simpa using this

theorem setTracks_headers {nb : Nat} {names : List String} {instr chs chs' : List Int} {tempo : Int} {ts : Int × Int}
    {tracks0 : List (List Msg)} (h : setTracks nb names instr chs tempo ts = .ok (tracks0, chs'))
    {k : Nat} {hd : List Msg} (hk : tracks0[k]? = some hd) : IsHeader hd := by
  obtain ⟨h1, _, _, h4, h5⟩ := setTracks_spec h
  have hlt : k < nb + 1 := by
    have := (List.getElem?_eq_some_iff.mp hk).1
    omega
  cases k with
  | zero =>
    rw [h4] at hk
    obtain rfl := Option.some.inj hk
    intro m hm
    rcases List.mem_append.mp hm with hm | hm
    · exact headOf_isHeader _ _ _ _ m hm
    · simp only [metas, List.mem_cons, List.not_mem_nil, or_false] at hm
      rcases hm with rfl | rfl | rfl <;> simp [Msg.delta, Msg.isNote]
  | succ k =>
    rw [h5 (k + 1) (by omega) hlt] at hk
    obtain rfl := Option.some.inj hk
    exact headOf_isHeader _ _ _ _

/-! ### `matrix_to_mid` taken apart -/

/-- the sounding rows with their final track numbers, as `matrix_to_mid` hands them to `prepare_df_for_events` -/
def finalRows (rows : List Row) (names : List String) (programs : List Int) : List Row :=
  (setupInstruments (mergeContinuations rows) names programs).2.1
def finalNames (rows : List Row) (names : List String) (programs : List Int) : List String :=
  (setupInstruments (mergeContinuations rows) names programs).1
def finalInstruments (rows : List Row) (names : List String) (programs : List Int) : List Int :=
  (setupInstruments (mergeContinuations rows) names programs).2.2

theorem matrixToMid_inv {rows names programs tempo ts tracks}
    (h : matrixToMid rows names programs tempo ts = .ok tracks) :
    ∃ nb tracks0 channels,
      nbTracks (finalRows rows names programs) = .ok nb ∧
      setTracks nb (finalNames rows names programs) (finalInstruments rows names programs)
        (initChannels (finalInstruments rows names programs) nb) tempo ts = .ok (tracks0, channels) ∧
      applyEvents (prepareEvents (finalRows rows names programs)) tracks0 channels = .ok tracks := by
  unfold matrixToMid at h
  simp only [bind, Except.bind] at h
  unfold finalRows finalNames finalInstruments
  generalize setupInstruments (mergeContinuations rows) names programs = su at *
  obtain ⟨n', r', i'⟩ := su
  simp only at h ⊢
  cases hnb : nbTracks r' with
  | error e => simp [hnb] at h
  | ok nb =>
    simp only [hnb] at h
    cases hst : setTracks nb n' i' (initChannels i' nb) tempo ts with
    | error e => simp [hst] at h
    | ok p =>
      obtain ⟨t0, ch⟩ := p
      simp only [hst] at h
      exact ⟨nb, t0, ch, rfl, hst, h⟩

/-- the channel of track `k` in the written file -/
def trackChannel (names : List String) (instruments : List Int) (k : Nat) : Int :=
  if isDrumAt names k then 9 else numberToChannel (voiceToChannel (instrumentList instruments) instruments k)

theorem initChannels_get (instruments : List Int) (nb k : Nat) (hk : k < nb + 1) :
    (initChannels instruments nb)[k]? =
      some (numberToChannel (voiceToChannel (instrumentList instruments) instruments k)) := by
  simp [initChannels, List.getElem?_map, List.getElem?_range hk]

theorem setTracks_channel {nb : Nat} {names : List String} {instr chs' : List Int} {tempo : Int} {ts : Int × Int}
    {tracks0 : List (List Msg)}
    (h : setTracks nb names instr (initChannels instr nb) tempo ts = .ok (tracks0, chs')) (k : Nat) (hk : k < nb + 1) :
    chs'[k]? = some (trackChannel names instr k) := by
  obtain ⟨_, _, h3, _, _⟩ := setTracks_spec h
  rw [h3 k, initChannels_get instr nb k hk]
  unfold trackChannel
  by_cases hd : isDrumAt names k = true <;> simp [hd, hk]

/-! ### when the export cannot raise -/

theorem nbTracks_ok {rows : List Row} {nb : Nat} (h : nbTracks rows = .ok nb) : ∀ r ∈ rows, r.track ≤ nb := by
  unfold nbTracks at h
  cases rows with
  | nil => simp at h
  | cons r rs =>
    simp only [List.map_cons, Except.ok.injEq] at h
    have key : ∀ (l : List Nat) (a : Nat), a ≤ l.foldl max a ∧ ∀ x ∈ l, x ≤ l.foldl max a := by
      intro l
      induction l with
      | nil => intro a; simp
      | cons y ys ih =>
        intro a
        simp only [List.foldl_cons, List.mem_cons]
        obtain ⟨h1, h2⟩ := ih (max a y)
        refine ⟨by omega, ?_⟩
        intro x hx
        rcases hx with rfl | hx
        · omega
        · exact h2 x hx
    obtain ⟨h1, h2⟩ := key (rs.map (·.track)) r.track
    intro x hx
    rcases List.mem_cons.mp hx with rfl | hx
    · omega
    · have := h2 x.track (List.mem_map.mpr ⟨x, hx, rfl⟩)
      omega

theorem nbTracks_ne_nil {rows : List Row} (h : rows ≠ []) : ∃ nb, nbTracks rows = .ok nb := by
  unfold nbTracks
  cases rows with
  | nil => exact absurd rfl h
  | cons r rs => exact ⟨_, rfl⟩

theorem nbTracks_nil : nbTracks [] = .error .value := rfl


theorem mem_withDeltas {evs : List Ev} {prev : List (Nat × Rat)} {e : Ev} (h : e ∈ withDeltas evs prev) :
    ∃ e0 ∈ evs, e.track = e0.track ∧ e.pitch = e0.pitch ∧ e.vel = e0.vel ∧ e.isOn = e0.isOn ∧ e.offset = e0.offset := by
  induction evs generalizing prev with
  | nil => simp [withDeltas] at h
  | cons x xs ih =>
    simp only [withDeltas, List.mem_cons] at h
    rcases h with rfl | h
    · exact ⟨x, by simp, rfl, rfl, rfl, rfl, rfl⟩
    · obtain ⟨e0, he0, h'⟩ := ih h
      exact ⟨e0, by simp [he0], h'⟩

theorem mem_prepareEvents {rows : List Row} {e : Ev} (h : e ∈ prepareEvents rows) :
    ∃ r ∈ rows, e.track = r.track ∧ e.pitch = r.pitch + 60 ∧ e.vel = r.vel := by
  rw [prepareEvents_eq] at h
  obtain ⟨e1, he1, rfl⟩ := List.mem_map.mp h
  obtain ⟨e0, he0, h1, h2, h3, _, _⟩ := mem_withDeltas he1
  obtain ⟨r, hr, hh | hh⟩ := mem_sortedEvents he0
  · subst hh; exact ⟨r, hr, by simp [addMiddleC, h1, rowOn], by simp [addMiddleC, h2, rowOn], by simp [addMiddleC, h3, rowOn]⟩
  · subst hh; exact ⟨r, hr, by simp [addMiddleC, h1, rowOff], by simp [addMiddleC, h2, rowOff], by simp [addMiddleC, h3, rowOff]⟩

/-- the range checks of the program change of track `x` -/
def headOK (names : List String) (instr chs : List Int) (x : Nat) : Prop :=
  isDrumAt names x = true ∨ (channelOK ((chs[x]?).getD 0) = true ∧ byteOK ((instr[x]?).getD 0) = true)

theorem mkProgram_succeeds {c p : Int} (hc : channelOK c = true) (hp : byteOK p = true) :
    mkProgram c p = .ok (.program 0 c p) := by
  simp [mkProgram, hc, hp]

theorem headStep_succeeds (names : List String) (instr chs : List Int) (i : Nat) (h : headOK names instr chs i) :
    ∃ r, headStep names instr chs i = .ok r := by
  unfold headStep
  by_cases hd : isDrumAt names i = true
  · simp only [hd, ↓reduceIte]
    rw [mkProgram_succeeds (by decide) (by decide)]
    exact ⟨_, rfl⟩
  · rcases h with h | ⟨hc, hp⟩
    · exact absurd h hd
    · simp only [hd, Bool.false_eq_true, ↓reduceIte]
      by_cases hi : i < instr.length
      · simp only [hi, ↓reduceIte]
        rw [mkProgram_succeeds hc hp]
        exact ⟨_, rfl⟩
      · simp only [hi, ↓reduceIte]
        by_cases h9 : i ≠ 9
        · simp only [h9, ne_eq, not_false_eq_true, ↓reduceIte]
          rw [mkProgram_succeeds hc (by decide)]
          exact ⟨_, rfl⟩
        · simp only [h9, ↓reduceIte]
          exact ⟨_, rfl⟩

theorem trackHeads_succeeds (names : List String) (instr chs : List Int) (i n : Nat)
    (h : ∀ x, i ≤ x → x < i + n → headOK names instr chs x) : ∃ r, trackHeads names instr chs i n = .ok r := by
  induction n generalizing i chs with
  | zero => exact ⟨_, rfl⟩
  | succ n ih =>
    obtain ⟨⟨head, chs1⟩, hs⟩ := headStep_succeeds names instr chs i (h i (by omega) (by omega))
    simp only [trackHeads, hs]
    obtain ⟨hc, _⟩ := headStep_spec hs
    have : ∀ x, i + 1 ≤ x → x < i + 1 + n → headOK names instr chs1 x := by
      intro x hx1 hx2
      have := h x (by omega) (by omega)
      unfold headOK at this ⊢
      have hget : chs1[x]? = chs[x]? := by
        rw [hc]; split
        · rw [List.getElem?_set]; simp [show ¬ i = x by omega]
        · rfl
      rw [hget]; exact this
    obtain ⟨⟨rest, chs2⟩, ht⟩ := ih chs1 (i + 1) this
    simp only [ht]
    exact ⟨_, rfl⟩


theorem roundHalfEven_bounds (x : Rat) : x.floor ≤ roundHalfEven x ∧ roundHalfEven x ≤ x.floor + 1 := by
  unfold roundHalfEven
  simp only
  split
  · omega
  · split
    · omega
    · split <;> omega

theorem bpm2tempo_range {bpm : Int} (h : 4 ≤ bpm) : 0 ≤ bpm2tempo bpm ∧ bpm2tempo bpm ≤ 16777215 := by
  unfold bpm2tempo
  have hb : (0 : Rat) < (bpm : Rat) := Rat.intCast_pos.mpr (by omega)
  have h4 : (4 : Rat) ≤ (bpm : Rat) := by
    have := Rat.intCast_le_intCast.mpr h
    simpa using this
  obtain ⟨h1, h2⟩ := roundHalfEven_bounds ((60000000 : Rat) / bpm)
  have hx0 : (0 : Rat) ≤ (60000000 : Rat) / bpm := by
    apply Rat.le_of_lt
    rw [Rat.lt_div_iff hb]
    grind
  have hx1 : (60000000 : Rat) / bpm < ((15000001 : Int) : Rat) := by
    rw [Rat.div_lt_iff hb]
    have : ((15000001 : Int) : Rat) = (15000001 : Rat) := by rfl
    rw [this]
    grind
  have hf0 : 0 ≤ ((60000000 : Rat) / bpm).floor := Rat.le_floor_iff.mpr (by simpa using hx0)
  have hf1 : ((60000000 : Rat) / bpm).floor < 15000001 := Rat.floor_lt_iff.mpr hx1
  omega

theorem mkTempo_succeeds {bpm : Int} (h : 4 ≤ bpm) : mkTempo bpm = .ok (.setTempo 0 (bpm2tempo bpm)) := by
  obtain ⟨h1, h2⟩ := bpm2tempo_range h
  have : bpm ≠ 0 := by omega
  simp [mkTempo, this, h1, h2]

theorem mkTimeSig_succeeds {n d : Int} (h1 : 0 ≤ n) (h2 : n ≤ 255) (h3 : isPow2 64 d = true) :
    mkTimeSig n d = .ok (.timeSig 0 n d) := by
  simp [mkTimeSig, h1, h2, h3]


theorem voice_mem (instr : List Int) (k : Nat) : (instr[k]?).getD 0 ∈ instrumentList instr := by
  unfold instrumentList
  rw [mem_sortedDedup]
  cases h : instr[k]? with
  | none => simp
  | some p =>
    have := List.mem_of_getElem? h
    simp [this]

theorem voiceToChannel_lt (instr : List Int) (k : Nat) :
    0 ≤ voiceToChannel (instrumentList instr) instr k ∧
    voiceToChannel (instrumentList instr) instr k < (instrumentList instr).length := by
  unfold voiceToChannel
  have := List.idxOf_lt_length_of_mem (voice_mem instr k)
  omega

/-- at most 15 distinct programs (program 0 always counted) fit the 15 non-drum channels -/
theorem trackChannel_ok (names : List String) (instr : List Int) (k : Nat)
    (h : (instrumentList instr).length ≤ 15) : channelOK (trackChannel names instr k) = true := by
  unfold trackChannel
  split
  · decide
  · obtain ⟨h0, h1⟩ := voiceToChannel_lt instr k
    unfold numberToChannel channelOK
    split <;> simp <;> omega

/-- a non-drum track never lands on the percussion channel -/
theorem numberToChannel_ne_nine (n : Int) : numberToChannel n ≠ 9 := by
  unfold numberToChannel; split <;> omega

theorem numberToChannel_inj {a b : Int} (h : numberToChannel a = numberToChannel b) : a = b := by
  unfold numberToChannel at h
  split at h <;> split at h <;> omega


theorem numberToChannel_ok (instr : List Int) (k : Nat) (h : (instrumentList instr).length ≤ 15) :
    channelOK (numberToChannel (voiceToChannel (instrumentList instr) instr k)) = true := by
  obtain ⟨h0, h1⟩ := voiceToChannel_lt instr k
  unfold numberToChannel channelOK
  split <;> simp <;> omega

theorem setTracks_succeeds (nb : Nat) (names : List String) (instr : List Int) (tempo : Int) (ts : Int × Int)
    (hprog : ∀ p ∈ instr, byteOK p = true) (hch : (instrumentList instr).length ≤ 15)
    (htempo : 4 ≤ tempo) (hts : 0 ≤ ts.1 ∧ ts.1 ≤ 255 ∧ isPow2 64 ts.2 = true) :
    ∃ r, setTracks nb names instr (initChannels instr nb) tempo ts = .ok r := by
  have hh : ∀ x, 0 ≤ x → x < 0 + (nb + 1) → headOK names instr (initChannels instr nb) x := by
    intro x _ hx
    right
    rw [initChannels_get instr nb x (by omega)]
    refine ⟨numberToChannel_ok instr x hch, ?_⟩
    cases h : instr[x]? with
    | none => decide
    | some p => exact hprog p (List.mem_of_getElem? h)
  obtain ⟨⟨heads, chs⟩, ht⟩ := trackHeads_succeeds names instr (initChannels instr nb) 0 (nb + 1) hh
  obtain ⟨hl, _, _, _⟩ := trackHeads_spec ht
  unfold setTracks
  simp only [bind, Except.bind, ht, mkTempo_succeeds htempo, mkTimeSig_succeeds hts.1 hts.2.1 hts.2.2]
  cases heads with
  | nil => simp at hl
  | cons h hs => exact ⟨_, rfl⟩

theorem matrixToMid_succeeds (rows : List Row) (names : List String) (programs : List Int) (tempo : Int) (ts : Int × Int)
    (hne : finalRows rows names programs ≠ [])
    (hrows : ∀ r ∈ finalRows rows names programs, byteOK (r.pitch + 60) = true ∧ byteOK (truncRat r.vel) = true)
    (hprog : ∀ p ∈ finalInstruments rows names programs, byteOK p = true)
    (hch : (instrumentList (finalInstruments rows names programs)).length ≤ 15)
    (htempo : 4 ≤ tempo) (hts : 0 ≤ ts.1 ∧ ts.1 ≤ 255 ∧ isPow2 64 ts.2 = true) :
    ∃ tracks, matrixToMid rows names programs tempo ts = .ok tracks := by
  obtain ⟨nb, hnb⟩ := nbTracks_ne_nil hne
  obtain ⟨⟨tracks0, chs⟩, hst⟩ := setTracks_succeeds nb (finalNames rows names programs)
    (finalInstruments rows names programs) tempo ts hprog hch htempo hts
  obtain ⟨hl, _, _, _, _⟩ := setTracks_spec hst
  have hev : ∀ e ∈ prepareEvents (finalRows rows names programs), evOK chs e = true ∧ e.track < tracks0.length := by
    intro e he
    obtain ⟨r, hr, h1, h2, h3⟩ := mem_prepareEvents he
    have hle := nbTracks_ok hnb r hr
    have hc := setTracks_channel hst e.track (by omega)
    refine ⟨?_, by omega⟩
    unfold evOK
    rw [hc, h2, h3]
    simp [trackChannel_ok _ _ _ hch, (hrows r hr).1, (hrows r hr).2]
  obtain ⟨out, hout⟩ := applyEvents_succeeds _ tracks0 chs hev
  refine ⟨out, ?_⟩
  unfold matrixToMid
  simp only [finalRows, finalNames, finalInstruments] at hnb hst hout
  simp only [bind, Except.bind, hnb, hst, hout]


/-! ### continuations: the index dictionary against the direct definition -/

/-- total duration of the continuation rows of track `t` that directly follow (up to the next
non-continuation row of `t`) -/
def contTail (t : Nat) : List Row → Rat
  | [] => 0
  | r :: rs => if r.track = t then (if r.cont then r.dur + contTail t rs else 0) else contTail t rs

def withDur (a : Row) (d : Rat) : Row := { a with dur := d }

@[simp] theorem withDur_track (a : Row) (d : Rat) : (withDur a d).track = a.track := rfl
@[simp] theorem withDur_cont (a : Row) (d : Rat) : (withDur a d).cont = a.cont := rfl
@[simp] theorem withDur_silence (a : Row) (d : Rat) : (withDur a d).silence = a.silence := rfl
theorem withDur_self (a : Row) : withDur a a.dur = a := by cases a; rfl
theorem withDur_add_zero (a : Row) : withDur a (a.dur + 0) = a := by rw [Rat.add_zero, withDur_self]

/-- every non-continuation row held for as long as the continuations that directly follow it in its track -/
def extendAll : List Row → List Row
  | [] => []
  | r :: rs => (if r.cont then r else withDur r (r.dur + contTail r.track rs)) :: extendAll rs

/-- the sounding notes of a note matrix, stated directly: the rows that are neither silence nor
continuation, each lasting until the end of the continuations tied to it -/
def soundingRows (rows : List Row) : List Row :=
  (extendAll rows).filter (fun r => !r.cont && !r.silence)

theorem addDur_eq (rows : List Row) (i : Nat) (d : Rat) :
    addDur rows i d = rows.modify i (fun a => withDur a (a.dur + d)) := rfl

theorem addDur_length (rows : List Row) (i : Nat) (d : Rat) : (addDur rows i d).length = rows.length := by
  simp [addDur]

def bumpF (last : List (Nat × Nat)) (rest : List Row) (j : Nat) (a : Row) : Row :=
  if last.lookup a.track = some j then withDur a (a.dur + contTail a.track rest) else a

/-- `last_note_index` points at rows of the right track -/
def LastOK (acc : List Row) (last : List (Nat × Nat)) : Prop :=
  ∀ t i, last.lookup t = some i → ∃ a, acc[i]? = some a ∧ a.track = t

theorem lookup_setLast (last : List (Nat × Nat)) (t i t' : Nat) :
    (setLast last t i).lookup t' = if t' = t then some i else last.lookup t' := by
  unfold setLast
  by_cases h : t' = t
  · subst h; simp [List.lookup_cons]
  · have : (t' == t) = false := by simpa using h
    simp only [List.lookup_cons, this, h, ↓reduceIte]
    induction last with
    | nil => rfl
    | cons p ps ih =>
      obtain ⟨a, b⟩ := p
      by_cases ha : a = t
      · subst ha
        simp [List.filter_cons, List.lookup_cons, this, ih]
      · have h1 : (a != t) = true := by simpa using ha
        simp only [List.filter_cons, h1, ↓reduceIte, List.lookup_cons, ih]


theorem mergeLoop_spec (rest acc : List Row) (last : List (Nat × Nat)) (hl : LastOK acc last) :
    mergeLoop rest acc last = acc.mapIdx (bumpF last rest) ++ extendAll rest := by
  induction rest generalizing acc last with
  | nil =>
    simp only [mergeLoop, extendAll, List.append_nil]
    apply List.ext_getElem?
    intro j
    rw [List.getElem?_mapIdx]
    cases acc[j]? with
    | none => rfl
    | some a =>
      simp only [Option.map_some, bumpF, contTail]
      split
      · rw [withDur_add_zero]
      · rfl
  | cons r rs ih =>
    by_cases hc : r.cont = true
    · -- a continuation row
      cases hlk : last.lookup r.track with
      | some i =>
        obtain ⟨ai, hai, hti⟩ := hl _ _ hlk
        have hl' : LastOK (addDur acc i r.dur ++ [r]) last := by
          intro t i' h
          obtain ⟨a, ha, hta⟩ := hl t i' h
          have hlt : i' < acc.length := (List.getElem?_eq_some_iff.mp ha).1
          by_cases hii : i = i'
          · subst hii
            refine ⟨withDur a (a.dur + r.dur), ?_, hta⟩
            rw [List.getElem?_append_left (by rw [addDur_length]; exact hlt)]
            simp only [addDur_eq, List.getElem?_modify, ↓reduceIte, ha, Option.map_eq_map, Option.map_some]
          · refine ⟨a, ?_, hta⟩
            rw [List.getElem?_append_left (by rw [addDur_length]; exact hlt)]
            simp only [addDur_eq, List.getElem?_modify, hii, ↓reduceIte, ha]
            rfl
        simp only [mergeLoop, hc, ↓reduceIte, hlk]
        rw [ih _ _ hl', extendAll]
        simp only [hc, ↓reduceIte]
        rw [List.mapIdx_append]
        have hlast : [r].mapIdx (fun j => bumpF last rs (j + (addDur acc i r.dur).length)) = [r] := by
          simp only [List.mapIdx_cons, List.mapIdx_nil, Nat.zero_add, bumpF, hlk]
          have : i ≠ (addDur acc i r.dur).length := by
            have := (List.getElem?_eq_some_iff.mp hai).1
            rw [addDur_length]; omega
          simp only [Option.some.injEq, this, ↓reduceIte]
        rw [hlast]
        have hfront : (addDur acc i r.dur).mapIdx (bumpF last rs) = acc.mapIdx (bumpF last (r :: rs)) := by
          apply List.ext_getElem?
          intro j
          rw [List.getElem?_mapIdx, List.getElem?_mapIdx]
          simp only [addDur_eq, List.getElem?_modify]
          by_cases hij : i = j
          · subst hij
            simp only [↓reduceIte, hai, Option.map_eq_map, Option.map_some, Option.some.injEq, bumpF, withDur_track, hti, hlk]
            simp only [contTail, hti, ↓reduceIte, hc]
            show withDur (withDur ai (ai.dur + r.dur)) ((withDur ai (ai.dur + r.dur)).dur + contTail r.track rs) = _
            simp only [withDur, Rat.add_assoc]
          · simp only [hij, ↓reduceIte]
            cases hj : acc[j]? with
            | none => rfl
            | some a =>
              show Option.map (bumpF last rs j) (some a) = _
              simp only [Option.map_some, Option.some.injEq, bumpF]
              by_cases hla : last.lookup a.track = some j
              · have hne : r.track ≠ a.track := by
                  intro e; rw [← e, hlk] at hla; exact hij (Option.some.inj hla)
                simp only [hla, ↓reduceIte, contTail, hne]
              · simp only [hla, ↓reduceIte]
        rw [hfront]
        simp
      | none =>
        have hl' : LastOK (acc ++ [r]) last := by
          intro t i' h
          obtain ⟨a, ha, hta⟩ := hl t i' h
          have hlt : i' < acc.length := (List.getElem?_eq_some_iff.mp ha).1
          exact ⟨a, by rw [List.getElem?_append_left hlt]; exact ha, hta⟩
        simp only [mergeLoop, hc, ↓reduceIte, hlk]
        rw [ih _ _ hl', extendAll]
        simp only [hc, ↓reduceIte]
        rw [List.mapIdx_append]
        have hlast : [r].mapIdx (fun j => bumpF last rs (j + acc.length)) = [r] := by
          simp [List.mapIdx_cons, bumpF, hlk]
        rw [hlast]
        have hfront : acc.mapIdx (bumpF last rs) = acc.mapIdx (bumpF last (r :: rs)) := by
          apply List.ext_getElem?
          intro j
          rw [List.getElem?_mapIdx, List.getElem?_mapIdx]
          cases hj : acc[j]? with
          | none => rfl
          | some a =>
            simp only [Option.map_some, Option.some.injEq, bumpF]
            by_cases hla : last.lookup a.track = some j
            · have hne : r.track ≠ a.track := by
                intro e; rw [← e, hlk] at hla; exact absurd hla (by simp)
              simp only [hla, ↓reduceIte, contTail, hne]
            · simp only [hla, ↓reduceIte]
        rw [hfront]
        simp
    · -- a note or a silence: it becomes the last row of its track
      have hc' : r.cont = false := by simpa using hc
      have hl' : LastOK (acc ++ [r]) (setLast last r.track acc.length) := by
        intro t i' h
        rw [lookup_setLast] at h
        by_cases ht : t = r.track
        · subst ht
          simp only [↓reduceIte, Option.some.injEq] at h
          subst h
          exact ⟨r, by simp, rfl⟩
        · simp only [ht, ↓reduceIte] at h
          obtain ⟨a, ha, hta⟩ := hl t i' h
          have hlt : i' < acc.length := (List.getElem?_eq_some_iff.mp ha).1
          exact ⟨a, by rw [List.getElem?_append_left hlt]; exact ha, hta⟩
      simp only [mergeLoop, hc', Bool.false_eq_true, ↓reduceIte]
      rw [ih _ _ hl', extendAll]
      simp only [hc', Bool.false_eq_true, ↓reduceIte]
      rw [List.mapIdx_append]
      have hlast : [r].mapIdx (fun j => bumpF (setLast last r.track acc.length) rs (j + acc.length)) =
          [withDur r (r.dur + contTail r.track rs)] := by
        simp [List.mapIdx_cons, bumpF, lookup_setLast]
      rw [hlast]
      have hfront : acc.mapIdx (bumpF (setLast last r.track acc.length) rs) = acc.mapIdx (bumpF last (r :: rs)) := by
        apply List.ext_getElem?
        intro j
        rw [List.getElem?_mapIdx, List.getElem?_mapIdx]
        cases hj : acc[j]? with
        | none => rfl
        | some a =>
          have hjl : j < acc.length := (List.getElem?_eq_some_iff.mp hj).1
          simp only [Option.map_some, Option.some.injEq, bumpF, lookup_setLast]
          by_cases hta : a.track = r.track
          · have hne : acc.length ≠ j := by omega
            simp only [hta, ↓reduceIte, Option.some.injEq, hne, contTail, hc', Bool.false_eq_true]
            split
            · rw [withDur_add_zero]
            · rfl
          · have hne : r.track ≠ a.track := fun e => hta e.symm
            simp only [hta, ↓reduceIte, contTail, hne]
      rw [hfront]
      simp


theorem mergeContinuations_eq (rows : List Row) : mergeContinuations rows = soundingRows rows := by
  unfold mergeContinuations soundingRows
  rw [mergeLoop_spec rows [] [] (by intro t i h; simp at h)]
  simp

/-! ### channels -/

theorem idxOf_inj_of_mem {L : List Int} {a b : Int} (ha : a ∈ L) (hb : b ∈ L) (h : L.idxOf a = L.idxOf b) : a = b := by
  have h1 := List.idxOf_lt_length_of_mem ha
  have h2 := List.idxOf_lt_length_of_mem hb
  have e1 := List.getElem_idxOf h1
  have e2 := List.getElem_idxOf h2
  rw [← e1, ← e2]
  simp only [h]

/-- two non-drum tracks with different programs get different channels -/
theorem trackChannel_inj (names : List String) (instr : List Int) (j k : Nat)
    (hj : isDrumAt names j = false) (hk : isDrumAt names k = false)
    (h : trackChannel names instr j = trackChannel names instr k) :
    (instr[j]?).getD 0 = (instr[k]?).getD 0 := by
  unfold trackChannel at h
  simp only [hj, hk, Bool.false_eq_true, ↓reduceIte] at h
  have := numberToChannel_inj h
  unfold voiceToChannel at this
  exact idxOf_inj_of_mem (voice_mem instr j) (voice_mem instr k) (by omega)

theorem trackChannel_drum (names : List String) (instr : List Int) (k : Nat) (hk : isDrumAt names k = true) :
    trackChannel names instr k = 9 := by
  simp [trackChannel, hk]

theorem trackChannel_not_drum (names : List String) (instr : List Int) (k : Nat) (hk : isDrumAt names k = false) :
    trackChannel names instr k ≠ 9 := by
  simp only [trackChannel, hk, Bool.false_eq_true, ↓reduceIte]
  exact numberToChannel_ne_nine _


/-! ### delta times are never negative -/

theorem truncRat_nonneg {q : Rat} (h : 0 ≤ q) : 0 ≤ truncRat q := by
  unfold truncRat
  have : 0 ≤ q.num := Rat.num_nonneg.mpr h
  exact Int.tdiv_nonneg this (Int.natCast_nonneg _)

theorem prepareEvents_deltas_nonneg (rows : List Row) (h : ∀ r ∈ rows, 0 ≤ r.offset ∧ 0 ≤ r.dur) :
    ∀ e ∈ prepareEvents rows, 0 ≤ e.delta ∧ 0 ≤ truncRat (e.delta * TICKS) := by
  intro e he
  have hmem : e ∈ (prepareEvents rows).filter (fun x => x.track = e.track) := by
    simp [List.mem_filter, he]
  rw [prepare_track] at hmem
  have hoff : ∀ x ∈ sortedEvents rows, 0 ≤ x.offset := by
    intro x hx
    obtain ⟨r, hr, hh | hh⟩ := mem_sortedEvents hx
    · subst hh; exact (h r hr).1
    · subst hh
      have := h r hr
      show 0 ≤ r.offset + r.dur
      grind
  have hs : List.Pairwise (fun a b : Ev => a.offset ≤ b.offset)
      (((sortedEvents rows).filter (fun x => x.track = e.track)).map addMiddleC) := by
    rw [List.pairwise_map]
    refine ((sortedEvents_sorted rows).filter _).imp_of_mem ?_
    intro a b ha hb hab
    have hta : a.track = e.track := by simpa using (List.mem_filter.mp ha).2
    have htb : b.track = e.track := by simpa using (List.mem_filter.mp hb).2
    rw [evLe_iff] at hab
    show a.offset ≤ b.offset
    rcases hab with hlt | ⟨_, hlt | ⟨heq, _⟩⟩
    · omega
    · exact Rat.le_of_lt hlt
    · rw [heq]; exact Rat.le_refl
  have hd := deltas1_nonneg _ none hs (by
    intro x hx
    obtain ⟨y, hy, rfl⟩ := List.mem_map.mp hx
    exact hoff y (List.mem_filter.mp hy).1) e hmem
  refine ⟨hd, truncRat_nonneg ?_⟩
  have : (0 : Rat) ≤ ((TICKS : Int) : Rat) := by decide
  exact Rat.mul_nonneg hd this


/-! ### `setup_instruments`: the in-place relabelling, one track number at a time -/

/-- one assignment `matrix[matrix[:, TRACK] == old, TRACK] = new`, seen from a track number -/
def sub1 (old new x : Nat) : Nat := if x = old then new else x

/-- all assignments in the order the code makes them -/
def substAll (steps : List (Nat × Nat)) (x : Nat) : Nat := steps.foldl (fun x s => sub1 s.1 s.2 x) x

/-- the (old, new) pairs of `relabel`: group after group, track after track -/
def relabelSteps (g : Groups) : List (Nat × Nat) :=
  g.zipIdx.flatMap (fun pj => pj.1.2.map (fun t => (t, pj.2)))

theorem relabelOne_eq (rows : List Row) (old new : Nat) :
    relabelOne rows old new = rows.map (fun r => { r with track := sub1 old new r.track }) := by
  unfold relabelOne sub1
  apply List.map_congr_left
  intro r _
  split <;> rfl

theorem foldl_relabelOne (S : List (Nat × Nat)) (rows : List Row) :
    S.foldl (fun rows s => relabelOne rows s.1 s.2) rows =
      rows.map (fun r => { r with track := substAll S r.track }) := by
  induction S generalizing rows with
  | nil => simp [substAll]
  | cons s S ih =>
    simp only [List.foldl_cons]
    rw [ih, relabelOne_eq, List.map_map]
    apply List.map_congr_left
    intro r _
    rfl

theorem relabel_eq_substAll (rows : List Row) (g : Groups) :
    relabel rows g = rows.map (fun r => { r with track := substAll (relabelSteps g) r.track }) := by
  rw [← foldl_relabelOne]
  unfold relabel relabelSteps
  generalize g.zipIdx = L
  induction L generalizing rows with
  | nil => rfl
  | cons pj L ih =>
    simp only [List.foldl_cons, List.flatMap_cons, List.foldl_append, List.foldl_map]
    exact ih _

theorem substAll_stable (L : List (Nat × Nat)) (x : Nat) (h : ∀ s ∈ L, s.1 = x → s.2 = x) : substAll L x = x := by
  induction L with
  | nil => rfl
  | cons s L ih =>
    simp only [substAll, List.foldl_cons]
    have hs : sub1 s.1 s.2 x = x := by
      unfold sub1
      split
      · rename_i hx; exact h s (by simp) hx.symm
      · rfl
    rw [hs]
    exact ih (fun s' hs' => h s' (by simp [hs']))

/-- a track number that some step renames to `j`, and only to `j`, ends as `j`: later steps name
groups `≥ j` and never rename a number below their own -/
theorem substAll_hit (L : List (Nat × Nat)) (x j : Nat) (hmem : (x, j) ∈ L)
    (huniq : ∀ s ∈ L, s.1 = x → s.2 = j)
    (hsorted : L.Pairwise (fun a b => a.2 ≤ b.2)) (hle : ∀ s ∈ L, s.2 ≤ s.1) : substAll L x = j := by
  induction L with
  | nil => simp at hmem
  | cons s L ih =>
    rw [List.pairwise_cons] at hsorted
    simp only [substAll, List.foldl_cons]
    by_cases hs : s.1 = x
    · have hsj : s.2 = j := huniq s (by simp) hs
      have : sub1 s.1 s.2 x = j := by simp [sub1, hs, hsj]
      rw [this]
      apply substAll_stable
      intro s' hs' h1
      have h2 := hsorted.1 s' hs'
      have h3 := hle s' (by simp [hs'])
      omega
    · have : sub1 s.1 s.2 x = x := by
        unfold sub1; split
        · rename_i hx; exact absurd hx.symm hs
        · rfl
      rw [this]
      have hmem' : (x, j) ∈ L := by
        rcases List.mem_cons.mp hmem with h | h
        · exact absurd (by rw [← h]) hs
        · exact h
      exact ih hmem' (fun s' hs' => huniq s' (by simp [hs'])) hsorted.2 (fun s' hs' => hle s' (by simp [hs']))

/-! ### `instrument_group`: which part lands in which group -/

/-- state of the grouping loop after the parts `0..n-1` (keys `ks`): distinct group keys, every
member of group `j` is a part `≥ j` with that key, every part seen so far sits in a group -/
structure GInv (ks : List Int) (n : Nat) (g : Groups) : Prop where
  keys_nodup : (g.map (·.1)).Nodup
  members : ∀ (j : Nat) (key : Int) (ts : List Nat), g[j]? = some (key, ts) → ∀ t ∈ ts, j ≤ t ∧ t < n ∧ ks[t]? = some key
  covered : ∀ t, t < n → ∃ (j : Nat) (key : Int) (ts : List Nat), g[j]? = some (key, ts) ∧ t ∈ ts
  short : g.length ≤ n
  keys_from : ∀ p ∈ g, ∃ t, t < n ∧ ks[t]? = some p.1

theorem GInv.nil (ks : List Int) : GInv ks 0 [] :=
  ⟨by simp, by intro j key ts h; simp at h, by intro t h; omega, by simp, by intro p hp; simp at hp⟩

theorem any_key_iff (g : Groups) (k : Int) : g.any (·.1 == k) = true ↔ k ∈ g.map (·.1) := by
  rw [List.any_eq_true, List.mem_map]
  constructor
  · rintro ⟨p, hp, hpk⟩
    exact ⟨p, hp, by simpa using hpk⟩
  · rintro ⟨p, hp, hpk⟩
    exact ⟨p, hp, by simpa using hpk⟩

theorem GInv.step {ks : List Int} {n : Nat} {g : Groups} {k : Int} (h : GInv ks n g) (hk : ks[n]? = some k) :
    GInv ks (n + 1) (g.add k n) := by
  unfold Groups.add
  by_cases hany : g.any (·.1 == k) = true
  · simp only [hany, ↓reduceIte]
    have hmap : (g.map (fun p => if p.1 == k then (p.1, p.2 ++ [n]) else p)).map (·.1) = g.map (·.1) := by
      rw [List.map_map]
      apply List.map_congr_left
      intro p _
      simp only [Function.comp]
      split <;> rfl
    refine ⟨by rw [hmap]; exact h.keys_nodup, ?_, ?_, by simpa using Nat.le_succ_of_le h.short, ?_⟩
    rotate_left 2
    · intro p hp
      obtain ⟨q, hq, rfl⟩ := List.mem_map.mp hp
      obtain ⟨t, ht, hkt⟩ := h.keys_from q hq
      refine ⟨t, by omega, ?_⟩
      split <;> exact hkt
    · intro j key ts hj t ht
      rw [List.getElem?_map] at hj
      cases hgj : g[j]? with
      | none => simp [hgj] at hj
      | some p =>
        obtain ⟨key0, ts0⟩ := p
        have hjlt : j < g.length := (List.getElem?_eq_some_iff.mp hgj).1
        simp only [hgj, Option.map_some, Option.some.injEq] at hj
        by_cases hkk : (key0 == k) = true
        · simp only [hkk, ↓reduceIte, Prod.mk.injEq] at hj
          obtain ⟨rfl, rfl⟩ := hj
          rcases List.mem_append.mp ht with ht | ht
          · obtain ⟨a, b, c⟩ := h.members j key0 ts0 hgj t ht
            exact ⟨a, by omega, c⟩
          · have : t = n := by simpa using ht
            subst this
            have hs := h.short
            refine ⟨by omega, by omega, ?_⟩
            rw [hk]; simp at hkk; rw [hkk]
        · simp only [hkk, Bool.false_eq_true, ↓reduceIte, Prod.mk.injEq] at hj
          obtain ⟨rfl, rfl⟩ := hj
          obtain ⟨a, b, c⟩ := h.members j key0 ts0 hgj t ht
          exact ⟨a, by omega, c⟩
    · intro t ht
      by_cases htn : t < n
      · obtain ⟨j, key, ts, hj, hts⟩ := h.covered t htn
        by_cases hkk : (key == k) = true
        · have hkk' : key = k := by simpa using hkk
          exact ⟨j, key, ts ++ [n], by rw [List.getElem?_map, hj]; simp [hkk'], by simp [hts]⟩
        · have hkk' : ¬ key = k := by simpa using hkk
          exact ⟨j, key, ts, by rw [List.getElem?_map, hj]; simp [hkk'], hts⟩
      · have : t = n := by omega
        subst this
        obtain ⟨p, hp, hpk⟩ := List.any_eq_true.mp hany
        obtain ⟨j, hjlt, hj⟩ := List.getElem_of_mem hp
        refine ⟨j, p.1, p.2 ++ [t], ?_, by simp⟩
        have hpk' : p.1 = k := by simpa using hpk
        rw [List.getElem?_map, List.getElem?_eq_getElem hjlt, hj]
        simp [hpk']
  · simp only [hany, Bool.false_eq_true, ↓reduceIte]
    have hnot : k ∉ g.map (·.1) := fun hm => hany ((any_key_iff g k).mpr hm)
    refine ⟨?_, ?_, ?_, by simpa using h.short, ?_⟩
    rotate_left 3
    · intro p hp
      rcases List.mem_append.mp hp with hp | hp
      · obtain ⟨t, ht, hkt⟩ := h.keys_from p hp
        exact ⟨t, by omega, hkt⟩
      · have : p = (k, [n]) := by simpa using hp
        subst this
        exact ⟨n, by omega, hk⟩
    · rw [List.map_append, List.nodup_append]
      refine ⟨h.keys_nodup, by simp, ?_⟩
      intro a ha b hb
      simp only [List.map_cons, List.map_nil, List.mem_singleton] at hb
      subst hb
      intro e; subst e; exact hnot ha
    · intro j key ts hj t ht
      by_cases hjl : j < g.length
      · rw [List.getElem?_append_left hjl] at hj
        obtain ⟨a, b, c⟩ := h.members j key ts hj t ht
        exact ⟨a, by omega, c⟩
      · rw [List.getElem?_append_right (by omega)] at hj
        have hj0 : j - g.length = 0 := by
          by_contra hne
          have : (j - g.length) ≥ 1 := by omega
          simp [show j - g.length ≠ 0 from hne] at hj
        rw [hj0] at hj
        simp only [List.getElem?_cons_zero, Option.some.injEq, Prod.mk.injEq] at hj
        obtain ⟨rfl, rfl⟩ := hj
        have : t = n := by simpa using ht
        subst this
        have := h.short
        exact ⟨by omega, by omega, hk⟩
    · intro t ht
      by_cases htn : t < n
      · obtain ⟨j, key, ts, hj, hts⟩ := h.covered t htn
        have hjl : j < g.length := (List.getElem?_eq_some_iff.mp hj).1
        exact ⟨j, key, ts, by rw [List.getElem?_append_left hjl]; exact hj, hts⟩
      · have : t = n := by omega
        subst this
        exact ⟨g.length, k, [t], by simp, by simp⟩

/-- the key under which a part is grouped: −1 for percussion, else its program -/
def keyOf (n : String) (p : Int) : Int := if n.startsWith "drums_" then -1 else p

def partKeys (names : List String) (programs : List Int) : List Int :=
  (names.zip programs).map (fun np => keyOf np.1 np.2)

theorem groupTracks_eq (names : List String) (programs : List Int) :
    groupTracks names programs = (partKeys names programs).zipIdx.foldl (fun (g : Groups) ki => g.add ki.1 ki.2) [] := by
  unfold groupTracks partKeys
  generalize names.zip programs = L
  have key : ∀ (L : List (String × Int)) (i0 : Nat) (g : Groups),
      (L.zipIdx i0).foldl (fun g x => if x.1.1.startsWith "drums_" then g.add (-1) x.2 else g.add x.1.2 x.2) g =
        ((L.map (fun np => keyOf np.1 np.2)).zipIdx i0).foldl (fun (g : Groups) ki => g.add ki.1 ki.2) g := by
    intro L
    induction L with
    | nil => intro i0 g; rfl
    | cons x xs ih =>
      intro i0 g
      simp only [List.zipIdx_cons, List.foldl_cons, List.map_cons]
      rw [ih]
      congr 1
      unfold keyOf
      split <;> rfl
  exact key L 0 []

theorem GInv.foldl (pre rest : List Int) (g : Groups) (h : GInv (pre ++ rest) pre.length g) :
    GInv (pre ++ rest) (pre ++ rest).length ((rest.zipIdx pre.length).foldl (fun (g : Groups) ki => g.add ki.1 ki.2) g) := by
  induction rest generalizing pre g with
  | nil => simpa using h
  | cons k rest ih =>
    simp only [List.zipIdx_cons, List.foldl_cons]
    have hk : (pre ++ k :: rest)[pre.length]? = some k := by simp
    have h' := h.step hk
    have e : pre ++ k :: rest = (pre ++ [k]) ++ rest := by simp
    have := ih (pre ++ [k]) (g.add k pre.length) (by rw [← e]; simpa using h')
    rw [← e] at this
    simpa using this

theorem groupTracks_inv (names : List String) (programs : List Int) :
    GInv (partKeys names programs) (partKeys names programs).length (groupTracks names programs) := by
  rw [groupTracks_eq]
  have := GInv.foldl [] (partKeys names programs) [] (by simpa using GInv.nil _)
  simpa using this

/-! ### the relabelling steps of a well-formed grouping -/

theorem mem_relabelSteps {g : Groups} {s : Nat × Nat} :
    s ∈ relabelSteps g ↔ ∃ (key : Int) (ts : List Nat), g[s.2]? = some (key, ts) ∧ s.1 ∈ ts := by
  unfold relabelSteps
  simp only [List.mem_flatMap, List.mem_map]
  constructor
  · rintro ⟨⟨⟨key, ts⟩, j⟩, hpj, t, ht, rfl⟩
    exact ⟨key, ts, List.mem_zipIdx_iff_getElem?.mp hpj, ht⟩
  · rintro ⟨key, ts, hg, ht⟩
    exact ⟨((key, ts), s.2), List.mem_zipIdx_iff_getElem?.mpr hg, s.1, ht, rfl⟩

theorem relabelSteps_sorted (g : Groups) : (relabelSteps g).Pairwise (fun a b => a.2 ≤ b.2) := by
  unfold relabelSteps
  have key : ∀ (L : Groups) (k : Nat),
      ((L.zipIdx k).flatMap (fun pj => pj.1.2.map (fun t => (t, pj.2)))).Pairwise (fun a b => a.2 ≤ b.2) ∧
      ∀ s ∈ (L.zipIdx k).flatMap (fun pj => pj.1.2.map (fun t => (t, pj.2))), k ≤ s.2 := by
    intro L
    induction L with
    | nil => intro k; simp
    | cons p L ih =>
      intro k
      obtain ⟨h1, h2⟩ := ih (k + 1)
      simp only [List.zipIdx_cons, List.flatMap_cons]
      constructor
      · rw [List.pairwise_append]
        refine ⟨?_, h1, ?_⟩
        · rw [List.pairwise_map]
          exact List.pairwise_of_forall (fun _ _ => Nat.le_refl _)
        · intro a ha b hb
          obtain ⟨t, _, rfl⟩ := List.mem_map.mp ha
          have := h2 b hb
          simp only
          omega
      · intro s hs
        rcases List.mem_append.mp hs with hs | hs
        · obtain ⟨t, _, rfl⟩ := List.mem_map.mp hs
          exact Nat.le_refl _
        · have := h2 s hs; omega
  exact (key g 0).1

/-- with a well-formed grouping the in-place relabelling sends every part to the index of its own group -/
theorem substAll_group {ks : List Int} {n : Nat} {g : Groups} (h : GInv ks n g) {t j : Nat} {key : Int} {ts : List Nat}
    (hj : g[j]? = some (key, ts)) (ht : t ∈ ts) : substAll (relabelSteps g) t = j := by
  apply substAll_hit
  · exact mem_relabelSteps.mpr ⟨key, ts, hj, ht⟩
  · intro s hs hst
    obtain ⟨key', ts', hg', ht'⟩ := mem_relabelSteps.mp hs
    rw [hst] at ht'
    have k1 := (h.members j key ts hj t ht).2.2
    have k2 := (h.members s.2 key' ts' hg' t ht').2.2
    have hkk : key' = key := by rw [k1] at k2; exact (Option.some.inj k2).symm
    have hjl : j < (g.map (·.1)).length := by simpa using (List.getElem?_eq_some_iff.mp hj).1
    have e1 : (g.map (·.1))[j]? = some key := by rw [List.getElem?_map, hj]; rfl
    have e2 : (g.map (·.1))[s.2]? = some key := by rw [List.getElem?_map, hg', hkk]; rfl
    exact ((List.getElem?_inj hjl h.keys_nodup).mp (e1.trans e2.symm)).symm
  · exact relabelSteps_sorted g
  · intro s hs
    obtain ⟨key', ts', hg', ht'⟩ := mem_relabelSteps.mp hs
    exact (h.members s.2 key' ts' hg' s.1 ht').1

/-- a percussion part name, as `setup_instruments` tests it -/
def isDrumsName (n : String) : Bool := n.startsWith "drums_" || n.startsWith "drums"

theorem partKeys_markDrums (names : List String) (programs : List Int) :
    partKeys names (markDrums names programs) =
      (names.zip programs).map (fun np => if isDrumsName np.1 then -1 else np.2) := by
  unfold partKeys markDrums
  induction names generalizing programs with
  | nil => simp
  | cons n ns ih =>
    cases programs with
    | nil => simp
    | cons p ps =>
      simp only [List.zip_cons_cons, List.map_cons, ih, List.cons.injEq, and_true]
      unfold keyOf isDrumsName
      by_cases h1 : n.startsWith "drums_" = true <;> by_cases h2 : n.startsWith "drums" = true <;> simp [h1, h2]

/-- **grouping.**  With `g` the groups `setup_instruments` builds: every part `t` is renamed to one final track
`idx t` (the sequential in-place assignments never collide), two parts share a final track exactly when they
have the same key, and the program of that track is the key's (0 for percussion). -/
theorem grouping (names : List String) (programs : List Int) (rows : List Row) :
    let ks := partKeys names (markDrums names programs)
    let g := groupTracks names (markDrums names programs)
    let idx := substAll (relabelSteps g)
    relabel rows g = rows.map (fun r => { r with track := idx r.track }) ∧
    (∀ t t', t < ks.length → t' < ks.length → (idx t = idx t' ↔ ks[t]? = ks[t']?)) ∧
    (∀ t, t < ks.length → ∃ key, ks[t]? = some key ∧
      (g.map (fun p => if p.1 = -1 then (0 : Int) else p.1))[idx t]? = some (if key = -1 then 0 else key)) := by
  intro ks g idx
  have hinv : GInv ks ks.length g := groupTracks_inv names (markDrums names programs)
  refine ⟨relabel_eq_substAll rows g, ?_, ?_⟩
  · intro t t' ht ht'
    obtain ⟨j, key, ts, hj, hts⟩ := hinv.covered t ht
    obtain ⟨j', key', ts', hj', hts'⟩ := hinv.covered t' ht'
    have e1 : idx t = j := substAll_group hinv hj hts
    have e2 : idx t' = j' := substAll_group hinv hj' hts'
    have k1 := (hinv.members j key ts hj t hts).2.2
    have k2 := (hinv.members j' key' ts' hj' t' hts').2.2
    rw [e1, e2, k1, k2]
    constructor
    · intro e; subst e
      rw [hj] at hj'
      have := Option.some.inj hj'
      simp only [Prod.mk.injEq] at this
      rw [this.1]
    · intro e
      have hkk : key = key' := Option.some.inj e
      have hjl : j < (g.map (·.1)).length := by simpa using (List.getElem?_eq_some_iff.mp hj).1
      have a1 : (g.map (·.1))[j]? = some key := by rw [List.getElem?_map, hj]; rfl
      have a2 : (g.map (·.1))[j']? = some key := by rw [List.getElem?_map, hj', hkk]; rfl
      exact (List.getElem?_inj hjl hinv.keys_nodup).mp (a1.trans a2.symm)
  · intro t ht
    obtain ⟨j, key, ts, hj, hts⟩ := hinv.covered t ht
    have e1 : idx t = j := substAll_group hinv hj hts
    refine ⟨key, (hinv.members j key ts hj t hts).2.2, ?_⟩
    rw [e1, List.getElem?_map, hj]
    rfl

/-- the programs of the final tracks are programs of parts (or 0) -/
theorem finalInstruments_mem (rows : List Row) (names : List String) (programs : List Int) :
    ∀ p ∈ finalInstruments rows names programs, p = 0 ∨ p ∈ programs := by
  intro p hp
  have hinv := groupTracks_inv names (markDrums names programs)
  simp only [finalInstruments, setupInstruments, List.mem_map] at hp
  obtain ⟨q, hq, rfl⟩ := hp
  obtain ⟨t, _, hkt⟩ := hinv.keys_from q hq
  rw [partKeys_markDrums, List.getElem?_map] at hkt
  cases hz : (names.zip programs)[t]? with
  | none => simp [hz] at hkt
  | some np =>
    simp only [hz, Option.map_some, Option.some.injEq] at hkt
    by_cases hd : isDrumsName np.1 = true
    · simp only [hd, ↓reduceIte] at hkt
      left; simp [← hkt]
    · simp only [hd, Bool.false_eq_true, ↓reduceIte] at hkt
      by_cases h1 : q.1 = -1
      · left; simp [h1]
      · right
        simp only [h1, ↓reduceIte]
        rw [← hkt]
        exact (List.of_mem_zip (List.mem_of_getElem? hz)).2


/-! ### rounding -/

theorem roundHalfEven_nearest (x : Rat) :
    x - 1 / 2 ≤ (roundHalfEven x : Rat) ∧ (roundHalfEven x : Rat) ≤ x + 1 / 2 := by
  have h1 := Rat.floor_le x
  have h2 := Rat.lt_floor_add_one x
  rw [Rat.intCast_add] at h2
  have h3 : ((1 : Int) : Rat) = 1 := rfl
  rw [h3] at h2
  unfold roundHalfEven
  simp only
  split
  · rename_i h; constructor <;> grind
  · split
    · rename_i h h'
      rw [Rat.intCast_add, h3]
      constructor <;> grind
    · rename_i h h'
      have : x - (x.floor : Rat) = 1 / 2 := by grind
      split
      · constructor <;> grind
      · rw [Rat.intCast_add, h3]; constructor <;> grind

end MV.Midi
