/-
C14 importer lemmas 14/15 — the bar loop (`barLoop_spec`), `playScore` = Render.trackRows + merge, `inferScore_spec`.
-/
import MV.Lemmas.ImportStep
namespace MV
open Gen

/-! ### the whole score -/

/-- reading the part `v` over a score (the renderer's `create_melody_for_track`, rows merged on the fly) -/
def playScore (v : String) (idx : Nat) : Score → Rat → TrackSt → Res TrackSt
  | [], _, st => .ok st
  | c :: cs, time, st =>
      match playPart v idx c time st with
      | .error e => .error e
      | .ok st' => playScore v idx cs (time + c.dur) st'

/-- hypotheses on the bars: chord degrees 0..6, each chord lasts exactly its bar, bar lines in the fine set -/
def BarsOK (Tset : List Rat) : Rat → List (Chord × (Rat × Rat)) → Prop
  | T, [] => T ∈ Tset
  | T, (ch, bar) :: rest =>
      (0 ≤ ch.elem ∧ ch.elem < 7) ∧ ch.dur = bar.2 - bar.1 ∧ 0 < ch.dur ∧ T ∈ Tset ∧ BarsOK Tset (T + ch.dur) rest

def endTime : Rat → List (Chord × (Rat × Rat)) → Rat
  | T, [] => T
  | T, (ch, _) :: rest => endTime (T + ch.dur) rest

/-- every chord of the score has a part, and every part lasts exactly the bar length -/
def BarsExact : Score → List (Chord × (Rat × Rat)) → Prop
  | [], _ => True
  | c :: cs, (_, bar) :: rest => c.parts ≠ [] ∧ (∀ p ∈ c.parts, melodyDuration p.2 = bar.2 - bar.1) ∧ BarsExact cs rest
  | _ :: _, [] => False

theorem barLoop_spec {instruments : List (Int × String)} {offs : List (Int × Int)} {tracks : List Int} {Tset : List Rat}
    {seq : List Item} (hI : InputOK (voiceName instruments offs) instruments tracks Tset seq) (nbars : Nat) :
    ∀ (rest : List (Chord × (Rat × Rat))) (k : Nat) (T : Rat) (st : ImportState),
      StateOK (voiceName instruments offs) seq nbars k T st → k + rest.length = nbars → BarsOK Tset T rest →
      ∃ score, barLoop seq instruments offs tracks nbars st rest = .ok score ∧ BarsExact score rest ∧
        ∀ v idx tst, TrackOK (voiceItems (voiceName instruments offs) seq v) T tst →
          ∃ tst', playScore v idx score T tst = .ok tst' ∧
            TrackOK (voiceItems (voiceName instruments offs) seq v) (endTime T rest) tst' := by
  intro rest
  induction rest with
  | nil =>
      intro k T st _ _ _
      exact ⟨[], rfl, trivial, fun v idx tst h => ⟨tst, rfl, h⟩⟩
  | cons cb rest ih =>
      intro k T st hst hlen hB
      obtain ⟨ch, bar⟩ := cb
      obtain ⟨he, hd, hpos, hT, hB'⟩ := hB
      have hT' : T + ch.dur ∈ Tset := by
        cases rest with
        | nil => exact hB'
        | cons cb' _ => obtain ⟨_, _⟩ := cb'; exact hB'.2.2.2.1
      simp only [List.length_cons] at hlen
      have hkn : (k : Int) ≤ (nbars : Int) - 1 := by omega
      obtain ⟨out, st', hstep, hst', hsome, hnone⟩ := barStep_spec hI nbars k T st hst hkn ch bar he hd hpos hT hT'
      obtain ⟨tail, htail, hexact, hplay⟩ := ih (k + 1) (T + ch.dur) st' hst' (by omega) hB'
      cases hout : out with
      | some c =>
          obtain ⟨hp1, hp2, hp3⟩ := hsome c hout
          refine ⟨c :: tail, ?_, ⟨hp1, fun p hp => by rw [← hd]; exact hp2 p hp, hexact⟩, ?_⟩
          · simp only [barLoop, hstep, htail, hout, bind, Except.bind, pure, Except.pure]
          · intro v idx tst htst
            obtain ⟨tst1, h1, hok1⟩ := hp3 v idx tst htst
            obtain ⟨tst2, h2, hok2⟩ := hplay v idx tst1 hok1
            refine ⟨tst2, ?_, hok2⟩
            simp only [playScore, h1, chord_dur_of_parts c ch.dur hp1 hp2]
            exact h2
      | none =>
          obtain ⟨hk, htr⟩ := hnone hout
          have hrest : rest = [] := by
            cases rest with
            | nil => rfl
            | cons _ _ => simp only [List.length_cons] at hlen; omega
          subst hrest
          simp only [barLoop, pure, Except.pure, Except.ok.injEq] at htail
          subst htail
          refine ⟨[], ?_, trivial, ?_⟩
          · simp only [barLoop, hstep, hout, bind, Except.bind, pure, Except.pure]
          · intro v idx tst htst
            exact ⟨tst, rfl, htr v tst htst⟩

end MV

namespace MV
open Gen

theorem mergeRows_append (a b : List Row) (st : List Ev × Bool) :
    mergeRows (a ++ b) st = mergeRows b (mergeRows a st) := by
  unfold mergeRows; exact List.foldl_append

/-- `playScore` is the renderer model's `trackRows` followed by the merge of ties -/
theorem playScore_rows (v : String) (idx : Nat) : ∀ (s : Score) (time : Rat) (tst : TrackSt),
    (match trackRows v idx s time tst.last with
      | .error e => (.error e : Res (List Ev × Bool))
      | .ok rows => .ok (mergeRows rows (tst.evs, tst.isOpen)))
    = (match playScore v idx s time tst with
      | .error e => .error e
      | .ok t' => .ok (t'.evs, t'.isOpen)) := by
  intro s
  induction s with
  | nil => intro time tst; simp [trackRows, playScore, mergeRows, pure, Except.pure]
  | cons c cs ih =>
      intro time tst
      simp only [trackRows, playScore, playPart]
      cases hl : c.parts.lookup v with
      | none =>
          simp only []
          exact ih (time + c.dur) { tst with last := none }
      | some part =>
          simp only [playMelody, bind, Except.bind]
          cases hm : melodyToRows part c idx time tst.last with
          | error e => rfl
          | ok p =>
              obtain ⟨rows, last'⟩ := p
              simp only [pure, Except.pure]
              have := ih (time + c.dur) ⟨(mergeRows rows (tst.evs, tst.isOpen)).1, (mergeRows rows (tst.evs, tst.isOpen)).2, last'⟩
              simp only [] at this
              rw [← this]
              cases trackRows v idx cs (time + c.dur) last' with
              | error e => rfl
              | ok rest => simp only [mergeRows_append]

/-- **what sounds in part `v`** of a score: the rows the renderer model writes for that track
(`trackRows` of MV/Model/Render.lean = `create_melody_for_track`), ties merged into the open note -/
def sound (v : String) (idx : Nat) (s : Score) : Res (List Ev) := do
  let rows ← trackRows v idx s 0 none
  pure (mergeRows rows ([], false)).1.reverse

/-- the sounding note an item asks for -/
def fullEv (it : Item) : Ev :=
  { pitch := it.pitch - 60, onset := it.start, dur := it.stop - it.start, vel := (it.vel : Rat) }

theorem sound_of_playScore (v : String) (idx : Nat) (s : Score) (tst' : TrackSt)
    (h : playScore v idx s 0 ⟨[], false, none⟩ = .ok tst') : sound v idx s = .ok tst'.evs.reverse := by
  have := playScore_rows v idx s 0 ⟨[], false, none⟩
  rw [h] at this
  simp only [] at this
  unfold sound
  cases hr : trackRows v idx s 0 none with
  | error e => rw [hr] at this; cases this
  | ok rows =>
      rw [hr] at this
      simp only [Except.ok.injEq] at this
      simp only [bind, Except.bind, pure, Except.pure, this]

theorem before_all (I : List Item) (t T : Rat) (hc : Chain t I) (hend : ∀ n ∈ I, n.stop ≤ T) :
    (before T I).map (evOf T) = I.map fullEv := by
  have hb : before T I = I := by
    unfold before
    rw [List.filter_eq_self]
    intro n hn
    have := (chain_mem I t hc n hn).2.1
    have := hend n hn
    simp only [decide_eq_true_eq]; grind
  rw [hb]
  apply List.map_congr_left
  intro n hn
  unfold evOf fullEv
  have : min n.stop T = n.stop := by have := hend n hn; grind
  rw [this]

theorem before_zero (I : List Item) (hc : Chain 0 I) : before 0 I = [] := by
  unfold before
  rw [List.filter_eq_nil_iff]
  intro n hn
  have := (chain_mem I 0 hc n hn).1
  simp only [decide_eq_true_eq]; grind

end MV

namespace MV
open Gen

theorem inferScore_spec (seq : List Item) (chords : List Chord) (instruments : List (Int × String))
    (bars : List (Rat × Rat)) (offs : List (Int × Int)) (Tset : List Rat)
    (hoffs : voiceOffsets seq instruments (sortedDedup (seq.map (·.track))) = .ok offs)
    (hN : NameOK (voiceName instruments offs) seq) (hD : NoDrum instruments seq) (hf : FineSet Tset)
    (hV : ∀ v, VoiceOK Tset (voiceItems (voiceName instruments offs) seq v))
    (hlen : chords.length = bars.length) (hB : BarsOK Tset 0 (chords.zip bars))
    (hend : ∀ n ∈ seq, n.stop ≤ endTime 0 (chords.zip bars)) :
    ∃ score, inferScore seq chords instruments bars = .ok score ∧ BarsExact score (chords.zip bars) ∧
      ∀ v idx, sound v idx score = .ok ((voiceItems (voiceName instruments offs) seq v).map fullEv) := by
  have hI : InputOK (voiceName instruments offs) instruments (sortedDedup (seq.map (·.track))) Tset seq :=
    ⟨hN, hD, sortedDedup_asc _, fun a ha => (mem_sortedDedup _ _).mpr (List.mem_map_of_mem ha), hf, hV⟩
  have hp0 : ∀ v, pendingAt 0 (voiceItems (voiceName instruments offs) seq v) = none := by
    intro v; rw [pendingAt_eq, before_zero _ (hV v).chain]; rfl
  have hst : StateOK (voiceName instruments offs) seq bars.length 0 0 {} := by
    refine ⟨rfl, rfl, fun h => absurd rfl h, fun _ => rfl, by simp [keys], ?_, fun h => absurd rfl h⟩
    intro v; rw [hp0 v]; rfl
  obtain ⟨score, hloop, hexact, hplay⟩ := barLoop_spec hI bars.length (chords.zip bars) 0 0 {} hst
    (by simp [List.length_zip, hlen]) hB
  refine ⟨score, ?_, hexact, ?_⟩
  · unfold inferScore
    simp only [hoffs, bind, Except.bind]
    exact hloop
  · intro v idx
    have h0 : TrackOK (voiceItems (voiceName instruments offs) seq v) 0 ⟨[], false, none⟩ := by
      refine ⟨?_, ?_⟩
      · rw [before_zero _ (hV v).chain]; rfl
      · intro d hd; rw [hp0 v] at hd; cases hd
    obtain ⟨tst', hps, hok⟩ := hplay v idx _ h0
    rw [sound_of_playScore v idx score tst' hps, hok.evs, List.reverse_reverse]
    congr 1
    apply before_all _ 0 _ (hV v).chain
    intro n hn
    exact hend n (List.mem_filter.mp hn).1

end MV
