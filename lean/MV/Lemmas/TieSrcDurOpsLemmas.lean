/-
Lemmas for the source tie of the duration operations (`SrcDurOps`, DESIGN.md §9.6): the bound `LIMIT_DENOM ≥ 1` that
removes the `ValueError` branch of `limit_denominator`, `mapM` over pointwise equal functions, a `filterM` whose
test cannot raise on the elements present, Fraction division, item stores at both ends of a list.
-/
import MV.Gen.SrcDurOps
import MV.Lemmas.Duration

namespace MV.Tie

/-- `x.limit_denominator(LIMIT_DENOM)` never raises: the generated constant is ≥ 1 -/
theorem limit_checked (x : Rat) :
    limitDenominatorChecked ((Gen.LIMIT_DENOM : Nat) : Int) x = .ok (limitD x) := by
  have h : ¬ (((Gen.LIMIT_DENOM : Nat) : Int) < 1) := by decide
  unfold limitDenominatorChecked limitD
  rw [if_neg h, Int.toNat_natCast]

theorem frac2_one (i : Int) : Src.Py.frac2 i 1 = .ok (i : Rat) := by
  unfold Src.Py.frac2
  have : ¬ ((1 : Int) = 0) := by decide
  rw [if_neg this]
  have : (i : Rat) / ((1 : Int) : Rat) = (i : Rat) := by
    have h1 : ((1 : Int) : Rat) = 1 := rfl
    rw [h1]; grind
  rw [this]

theorem mapM_congr {α β : Type} (f g : α → Res β) (l : List α) (h : ∀ x, f x = g x) : l.mapM f = l.mapM g := by
  have : f = g := funext h
  rw [this]

open MV.Src

theorem filterAuxM_ok {α : Type} (f : α → Res Bool) (g : α → Bool) :
    ∀ (l acc : List α), (∀ x ∈ l, f x = .ok (g x)) →
      List.filterAuxM f l acc = .ok ((l.filter g).reverse ++ acc) := by
  intro l
  induction l with
  | nil => intro acc _; rfl
  | cons x xs ih =>
    intro acc h
    have hx := h x (List.mem_cons_self ..)
    have hxs : ∀ y ∈ xs, f y = .ok (g y) := fun y hy => h y (List.mem_cons_of_mem _ hy)
    unfold List.filterAuxM
    rw [hx]
    show List.filterAuxM f xs (cond (g x) (x :: acc) acc) = _
    rw [ih _ hxs]
    cases hg : g x <;> simp [hg]

theorem filterM_ok {α : Type} (f : α → Res Bool) (g : α → Bool) (l : List α) (h : ∀ x ∈ l, f x = .ok (g x)) :
    l.filterM f = .ok (l.filter g) := by
  unfold List.filterM
  rw [filterAuxM_ok f g l [] h]
  simp [bind, Except.bind, pure, Except.pure]

/-- the candidate figures: the comprehension with the raising filter is the model's double filter -/
theorem candidates_src (d : Rat) :
    (((Gen.DURATION_TO_STR.map (fun p => p.1)).filter (fun (d : Rat) => (decide (d ≠ (((0 : Int) : Int) : Rat))))).filterM
        (fun (c : Rat) => do let t_1 ← Py.ratDiv d c; pure ((decide ((t_1.den : Int) = (1 : Int))) && (decide (c < d)))))
      = .ok (decompCandidates d) := by
  unfold decompCandidates
  have e : (fun (d : Rat) => (decide (d ≠ (((0 : Int) : Int) : Rat)))) = (fun c => c != 0) := by
    funext c
    show decide (c ≠ 0) = (c != 0)
    rw [Bool.eq_iff_iff]; simp
  rw [e]
  apply filterM_ok
  intro c hc
  have hc0 : c ≠ 0 := by
    have := (List.mem_filter.mp hc).2
    simpa using this
  unfold Py.ratDiv
  rw [if_neg hc0]
  show Except.ok _ = Except.ok _
  congr 1
  congr 1
  rw [Bool.eq_iff_iff]
  simp

theorem maxRat_cons (x : Rat) (xs : List Rat) : Py.maxRat (x :: xs) = .ok (MV.maxRat (x :: xs)) := rfl

theorem ratDiv_ne {a b : Rat} (h : b ≠ 0) : Py.ratDiv a b = .ok (a / b) := by
  unfold Py.ratDiv; rw [if_neg h]
theorem ratDiv_zero (a : Rat) : Py.ratDiv a 0 = .error .zerodiv := by
  unfold Py.ratDiv; rw [if_pos rfl]

theorem two_ends {α : Type} : ∀ l : List α, l.length > 1 → ∃ a mid b, l = a :: (mid ++ [b]) := by
  intro l h
  match l, h with
  | a :: t, h =>
    have ht : t ≠ [] := by intro e; subst e; simp at h
    obtain ⟨mid, b, hb⟩ := List.eq_nil_or_concat t |>.resolve_left ht
    exact ⟨a, mid, b, by rw [hb, List.concat_eq_append]⟩

theorem setItem_zero {α : Type} (a x : α) (l : List α) : Py.setItem (a :: l) 0 x = .ok (x :: l) := by
  unfold Py.setItem
  simp

theorem setItem_last {α : Type} (a : α) (l : List α) (b y : α) :
    Py.setItem (a :: (l ++ [b])) (-1) y = .ok (a :: (l ++ [y])) := by
  have hlen : (a :: (l ++ [b])).length = l.length + 2 := by simp
  unfold Py.setItem
  have h1 : ((-1 : Int) < 0) := by decide
  simp only [h1, if_true, hlen]
  have h2 : (-1 + ((l.length + 2 : Nat) : Int)) = ((l.length + 1 : Nat) : Int) := by push_cast; ring
  rw [h2]
  have h3 : ¬ (((l.length + 1 : Nat) : Int) < 0 ∨ ((l.length + 1 : Nat) : Int) ≥ ((l.length + 2 : Nat) : Int)) := by
    push_cast; omega
  rw [if_neg h3, Int.toNat_natCast, List.set_cons_succ, List.set_append_right _ _ (by omega)]
  simp

theorem dur_table_ok : DurTableOK := by decide +kernel

/-- more fuel does not change a result that was reached -/
theorem decompRecurse_mono : ∀ (k : Nat) (n : Note) (l : List Note), decompRecurse k n = .ok l →
    ∀ k', k ≤ k' → decompRecurse k' n = .ok l := by
  intro k
  induction k with
  | zero => intro n l h; cases h
  | succ k ih =>
    intro n l h k' hk
    obtain ⟨k'', rfl⟩ : ∃ k'', k' = k'' + 1 := ⟨k' - 1, by omega⟩
    have hk2 : k ≤ k'' := by omega
    unfold decompRecurse at h ⊢
    by_cases ht : inDurTable n.dur = true
    · simp only [ht, if_true] at h ⊢; exact h
    · simp only [ht] at h ⊢
      by_cases hc : (decompCandidates n.dur).length = 0
      · simp only [hc, if_true] at h ⊢; exact h
      · simp only [hc, if_false] at h ⊢
        by_cases hd : n.dur = 0
        · simp [hd, bind, Except.bind] at h
        · simp only [hd, if_false, bind, Except.bind] at h ⊢
          cases hb : n.augment (DArg.frac (MV.maxRat (decompCandidates n.dur) / n.dur)) with
          | error e => rw [hb] at h; cases h
          | ok base =>
            rw [hb] at h; simp only [] at h ⊢
            cases hn : n.augment (DArg.frac ((n.dur - base.dur) / n.dur)) with
            | error e => rw [hn] at h; cases h
            | ok nn =>
              rw [hn] at h; simp only [] at h ⊢
              cases hr : decompRecurse k (continuation nn.dur) with
              | error e => rw [hr] at h; cases h
              | ok rest =>
                rw [hr] at h
                rw [ih _ _ hr k'' hk2]
                exact h

/-- what `Note.decompose_duration` does with the result of `_recurse` (the text of the model, after its first line) -/
def decompPost (result : List Note) : Res (List Note) := do
  if result.length > 1 then
    let rev := result.reverse
    let first ← pyIndex rev 0
    let last ← pyIndex rev (-1)
    let dur := first.dur
    if last.dur = 0 then .error .zerodiv
    let newFirst ← last.copy.augment (.frac (dur / last.dur))
    let newLast := continuation last.dur
    pure ((rev.set 0 newFirst).set (rev.length - 1) newLast)
  else pure result

theorem decomposeDuration_eq (n : Note) :
    n.decomposeDuration = (decompRecurse (decompFuel n.dur) n >>= decompPost) := rfl

/-- the model's own bound is enough, so any larger bound gives the same decomposition -/
theorem decompRecurse_ge (n : Note) (fuel : Nat) (h : decompFuel n.dur ≤ fuel) :
    decompRecurse fuel n = decompRecurse (decompFuel n.dur) n := by
  obtain ⟨hf1, hf2⟩ := decompFuel_enough n.dur
  obtain ⟨l, hl, _⟩ := decompRecurse_spec dur_table_ok _ n hf1 hf2
  rw [hl, decompRecurse_mono _ n l hl fuel h]

theorem mapM_map_mem {α β γ : Type} (f : α → Res β) (g : α → Res γ) (h : β → γ) :
    ∀ l : List α, (∀ x ∈ l, (f x).map h = g x) → (l.mapM f).map (List.map h) = l.mapM g := by
  intro l
  induction l with
  | nil => intro _; rfl
  | cons x xs ih =>
    intro hx
    rw [List.mapM_cons, List.mapM_cons, ← hx x (List.mem_cons_self ..), ← ih (fun y hy => hx y (List.mem_cons_of_mem _ hy))]
    cases f x with
    | error e => rfl
    | ok b =>
      cases List.mapM f xs with
      | error e => rfl
      | ok bs => rfl

theorem mapM_nil_iff {α β : Type} (f : α → Res β) (l : List α) (h : l.mapM f = .ok []) : l = [] := by
  cases l with
  | nil => rfl
  | cons x xs =>
    rw [List.mapM_cons] at h
    cases hx : f x with
    | error e => rw [hx] at h; cases h
    | ok b =>
      rw [hx] at h
      cases hxs : List.mapM f xs with
      | error e => rw [hxs] at h; cases h
      | ok bs => rw [hxs] at h; cases h

/-- `sum(parts, None)` from the second summand on: every further piece is appended as it is -/
theorem foldl_add_pieces (F : Melody → NoteOrMelody → Melody) (hF : ∀ acc x, F acc x = acc ++ x.notes)
    (xs : List NoteOrMelody) (acc : Melody) :
    xs.foldl F acc = acc ++ (xs.map NoteOrMelody.notes).flatten := by
  induction xs generalizing acc with
  | nil => simp
  | cons x xs ih => rw [List.foldl_cons, ih, hF]; simp [List.append_assoc]

theorem foldl_max_nat (l : List Nat) : ∀ a : Nat, a ≤ l.foldl max a ∧ ∀ x ∈ l, x ≤ l.foldl max a := by
  induction l with
  | nil => intro a; exact ⟨Nat.le_refl _, fun x hx => by cases hx⟩
  | cons y ys ih =>
    intro a
    rw [List.foldl_cons]
    obtain ⟨h1, h2⟩ := ih (max a y)
    refine ⟨Nat.le_trans (Nat.le_max_left a y) h1, ?_⟩
    intro x hx
    rcases List.mem_cons.mp hx with rfl | hx
    · exact Nat.le_trans (Nat.le_max_right a x) h1
    · exact h2 x hx

/-- a depth bound that is enough for every note of a melody -/
theorem melody_fuel_ge (m : Melody) : ∀ n ∈ m, decompFuel n.dur ≤ (m.map (fun n => decompFuel n.dur)).foldl max 0 := by
  intro n hn
  exact (foldl_max_nat _ 0).2 _ (List.mem_map_of_mem hn)

theorem range_map_const {α : Type} (k : Int) (c : α) :
    (Py.range (0 : Int) k).map (fun (_ : Int) => c) = List.replicate k.toNat c := by
  unfold Py.range
  rw [List.map_map]
  have : (k - 0).toNat = k.toNat := by simp
  rw [this]
  generalize k.toNat = n
  induction n with
  | zero => rfl
  | succ n ih => rw [List.range_succ, List.map_append, ih, List.replicate_succ']; rfl

theorem mapParts_of_mapM (G : String × Melody → Res (String × Melody)) (f : Melody → Res Melody)
    (h : ∀ kv, G kv = (do let t ← f kv.2; pure (kv.1, t))) (ps : List (String × Melody)) :
    ps.mapM G = mapParts f ps := by
  induction ps with
  | nil => rfl
  | cons p ps ih =>
    rw [List.mapM_cons, ih, h p]
    show _ = (do let m ← f p.2; let r ← mapParts f ps; pure ((p.1, m) :: r))
    cases f p.2 with
    | error e => rfl
    | ok m => cases mapParts f ps <;> rfl

theorem mapParts_congr (f g : Melody → Res Melody) (ps : List (String × Melody)) (h : ∀ p ∈ ps, f p.2 = g p.2) :
    mapParts f ps = mapParts g ps := by
  induction ps with
  | nil => rfl
  | cons p ps ih =>
    unfold mapParts
    rw [h p (List.mem_cons_self ..), ih (fun q hq => h q (List.mem_cons_of_mem _ hq))]

theorem empty_score_iff (c : Chord) : Chord_empty_score c = decide (c.parts.length = 0) := by
  unfold Chord_empty_score Py.len
  rw [List.length_map]
  rw [Bool.eq_iff_iff]; simp

theorem mapM_congr_mem {α β : Type} (f g : α → Res β) (l : List α) (h : ∀ x ∈ l, f x = g x) : l.mapM f = l.mapM g := by
  induction l with
  | nil => rfl
  | cons x xs ih =>
    rw [List.mapM_cons, List.mapM_cons, h x (List.mem_cons_self ..), ih (fun y hy => h y (List.mem_cons_of_mem _ hy))]

/-- all notes of a chord / of a score (for the depth bound of the decomposition) -/
def chordNotes (c : Chord) : List Note := c.parts.flatMap (fun p => p.2)
def scoreNotes (s : Score) : List Note := s.flatMap chordNotes
def notesFuel (l : List Note) : Nat := (l.map (fun n => decompFuel n.dur)).foldl max 0

theorem notesFuel_ge (l : List Note) : ∀ n ∈ l, decompFuel n.dur ≤ notesFuel l := melody_fuel_ge l

theorem chord_fuel_ge (c : Chord) : ∀ p ∈ c.parts, ∀ n ∈ p.2, decompFuel n.dur ≤ notesFuel (chordNotes c) := by
  intro p hp n hn
  exact notesFuel_ge _ n (List.mem_flatMap.mpr ⟨p, hp, hn⟩)

theorem score_fuel_ge (s : Score) : ∀ c ∈ s, ∀ p ∈ c.parts, ∀ n ∈ p.2, decompFuel n.dur ≤ notesFuel (scoreNotes s) := by
  intro c hc p hp n hn
  exact notesFuel_ge _ n (List.mem_flatMap.mpr ⟨c, hc, List.mem_flatMap.mpr ⟨p, hp, hn⟩⟩)

end MV.Tie
