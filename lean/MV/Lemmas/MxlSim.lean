/-
Simulation between the exporter's voice loop (`MV.Mxl.noteStep` …) and the rows of the MIDI note
matrix (`noteToRow` …): the invariant `Inv` indexed by the walk state `Sync`, preserved by every
note, by the padding of a short part and by an absent part.
-/
import MV.Lemmas.Mxl
namespace MV.Mxl
open MV Gen

/-! ### one step of the two folds -/

theorem flush_none {a : Acc} (h : a.opn = none) : a.flush = a.closed := by
  simp [Acc.flush, h]

theorem stepV_rest (a : Acc) (d : Rat) :
    stepV a (Elem.rest d) = { closed := a.flush, opn := none, tied := false, time := a.time + d } := by
  simp [stepV, Elem.rest]

theorem stepV_note_untied (a : Acc) (m : Int) (d : Rat) (t : Option Tie) (h : a.tied = false) :
    stepV a { pitch := some m, dur := d, tie := t }
      = { closed := a.flush, opn := some ⟨m, a.time, d⟩, tied := tieOut t, time := a.time + d } := by
  unfold stepV
  cases ho : a.opn with
  | none => simp [ho, Acc.flush]
  | some ev => simp [h]

theorem stepV_note_tied (a : Acc) (ev : Ev) (d : Rat) (t : Option Tie) (h : a.tied = true)
    (ho : a.opn = some ev) :
    stepV a { pitch := some ev.pitch, dur := d, tie := t }
      = { a with opn := some { ev with dur := ev.dur + d }, tied := tieOut t, time := a.time + d } := by
  unfold stepV
  simp [h, ho]

/-- re-marking the tie of a *note* only changes the `tied` flag of the fold -/
theorem stepV_retie (a : Acc) (e : Elem) (t : Option Tie) (h : e.pitch.isSome = true) :
    stepV a { e with tie := t } = { stepV a e with tied := tieOut t } := by
  unfold stepV
  cases hp : e.pitch with
  | none => simp [hp] at h
  | some p =>
      simp only
      cases ho : a.opn with
      | none => simp
      | some ev =>
          simp only [hp]
          split <;> rfl

theorem stepV_time (a : Acc) (e : Elem) : (stepV a e).time = a.time + e.dur := by
  unfold stepV
  split
  · rfl
  · split
    · split <;> rfl
    · rfl

theorem soundV_eq_accRev (l : List Elem) : soundV l.reverse = (accRev l).flush := by
  unfold soundV
  congr 1
  induction l with
  | nil => rfl
  | cons e r ih => simp [accRev, List.foldl_append, ih]

/-! ### the invariant -/

/-- the voice written so far (`st`) and the rows folded so far (`aR`, `lastR`, `time`) agree -/
structure Inv (σ : Sync) (st : VState) (aR : Acc) (lastR : Option Int) (time : Rat) : Prop where
  time_eq : (accRev st.rev).time = time
  untied : (accRev st.rev).tied = false
  flush_eq : (accRev st.rev).flush = aR.flush.map Ev.key
  ref : σ ≠ .fresh → ∃ q, lastR = some q ∧ st.lastPitch = some q
  fresh : σ = .fresh → lastR = none
  quiet : σ ≠ .snd → st.lastIsSilence = true ∧ (accRev st.rev).opn = none
  sil : σ = .sil → aR.opn = none
  snd : σ = .snd → ∃ q ev e r, lastR = some q ∧ st.lastSpelling = some (60 + q) ∧ st.lastIsSilence = false ∧
      aR.opn = some ev ∧ ev.pitch = q ∧ (accRev st.rev).opn = some ev.key ∧
      (accRev st.rev).closed = aR.closed.map Ev.key ∧ st.rev = e :: r ∧ e.pitch.isSome = true

theorem inv_init : Inv .fresh {} {} none 0 := by
  constructor <;> simp [accRev, Acc.flush]

/-- the exporter and the renderer compute the same pitch for a note of the claim -/
theorem pitch_agree {σ st aR lastR time} {c : Chord} {n : Note} {p p' : Int} (inv : Inv σ st aR lastR time)
    (hs : ¬ (n.kind.isRelative = true ∧ σ = .fresh))
    (hV : pitchResult c n st.lastPitch = .ok p) (hR : noteToPitch c n (lastR.getD 0) = .ok (some p')) :
    p = p' := by
  unfold pitchResult at hV
  by_cases hrel : n.kind.isRelative = true
  · have hσ : σ ≠ .fresh := fun h => hs ⟨hrel, h⟩
    obtain ⟨q, hq1, hq2⟩ := inv.ref hσ
    simp only [hrel, if_true, hq2, hq1, Option.getD_some] at hV hR
    simp only [hR, bind, Except.bind, pure, Except.pure, Except.ok.injEq] at hV
    exact hV.symm
  · have hrel' : n.kind.isRelative = false := by simpa using hrel
    simp only [hrel', Bool.false_eq_true, if_false] at hV
    rw [noteToPitch_last_indep hrel' 0 (lastR.getD 0), hR] at hV
    simp only [bind, Except.bind, pure, Except.pure, Except.ok.injEq] at hV
    exact hV.symm

theorem noteStep_note {c : Chord} {n : Note} {st st' : VState} (hk : n.kind.isNote = true)
    (hV : noteStep c false st n = .ok st') :
    ∃ sp p m, getNoteSpelling c n st.lastPitch = .ok (sp, p) ∧ sp.midi = .ok m ∧
      st' = { rev := { pitch := some m, dur := n.dur } :: st.rev, lastSpelling := some m,
              lastPitch := some p, lastIsSilence := false } := by
  unfold noteStep at hV
  simp only [hk, if_true] at hV
  cases hg : getNoteSpelling c n st.lastPitch with
  | error e => simp [hg, bind, Except.bind] at hV
  | ok spp =>
      obtain ⟨sp, p⟩ := spp
      cases hm : sp.midi with
      | error e => simp [hg, hm, bind, Except.bind] at hV
      | ok m =>
          simp only [hg, hm, bind, Except.bind, pure, Except.pure, Bool.not_false, Bool.or_true, if_true,
            Except.ok.injEq] at hV
          exact ⟨sp, p, m, rfl, hm, hV.symm⟩

theorem noteStep_sim_note {σ st aR lastR time} {c : Chord} {n : Note} {track : Nat} {row lastR' st'}
    (inv : Inv σ st aR lastR time) (hk : n.kind.isNote = true)
    (hs : ¬ (n.kind.isRelative = true ∧ σ = .fresh))
    (hR : noteToRow n c track time lastR = .ok (row, lastR'))
    (hV : noteStep c false st n = .ok st') :
    Inv .snd st' (stepR aR row) lastR' (time + n.dur) := by
  obtain ⟨sp, p, m, hg, hm, rfl⟩ := noteStep_note hk hV
  obtain ⟨p', hp', hrp, hro, hrd, hrs, hrc, rfl⟩ := noteToRow_note hk hR
  have hpp : p = p' := pitch_agree inv hs (getNoteSpelling_pitch hg) hp'
  subst hpp
  have hmm : m = 60 + p := (getNoteSpelling_midi hg).1 m hm
  subst hmm
  have hstepR : stepR aR row = { aR with closed := aR.flush, opn := some ⟨p, time, n.dur⟩ } := by
    unfold stepR; simp [hrs, hrc, hrp, hro, hrd]
  have hacc : accRev ({ pitch := some (60 + p), dur := n.dur } :: st.rev)
      = { closed := (accRev st.rev).flush, opn := some ⟨60 + p, time, n.dur⟩, tied := false, time := time + n.dur } := by
    simp only [accRev]
    rw [stepV_note_untied _ _ _ _ inv.untied, inv.time_eq]
    rfl
  rw [hstepR]
  constructor
  · simp only [hacc]
  · simp only [hacc]
  · rw [hacc]
    show (accRev st.rev).flush ++ [_] = List.map Ev.key (aR.flush ++ [_])
    rw [inv.flush_eq]
    simp [Ev.key]
  · intro _; exact ⟨p, rfl, rfl⟩
  · intro h; cases h
  · intro h; exact absurd rfl h
  · intro h; cases h
  · intro _
    refine ⟨p, ⟨p, time, n.dur⟩, _, _, rfl, rfl, rfl, rfl, rfl, ?_, ?_, rfl, rfl⟩
    · simp only [hacc]; rfl
    · simp only [hacc, inv.flush_eq]

theorem kind_r_not_note {n : Note} (hk : n.kind = .r) : n.kind.isNote = false := by rw [hk]; rfl
theorem kind_l_not_note {n : Note} (hk : n.kind = .l) : n.kind.isNote = false := by rw [hk]; rfl

theorem noteStep_r {c : Chord} {n : Note} {st : VState} (nr : Bool) (hk : n.kind = .r) :
    noteStep c nr st n = .ok { st with rev := Elem.rest n.dur :: st.rev, lastIsSilence := true } := by
  unfold noteStep; simp [hk, Kind.isNote, pure, Except.pure]

theorem noteStep_l {c : Chord} {n : Note} {st : VState} (nr : Bool) (hk : n.kind = .l) :
    noteStep c nr st n = .ok (tieOrRest st n.dur) := by
  unfold noteStep; simp [hk, Kind.isNote, pure, Except.pure]

theorem flush_closed (f : List Ev) (t : Bool) (tm : Rat) :
    ({ closed := f, opn := none, tied := t, time := tm } : Acc).flush = f := by simp [Acc.flush]

/-- appending a rest to the voice while the renderer's fold keeps its flushed content -/
theorem inv_rest {σ σ' st aR aR' lastR lastR' time} (d : Rat) (inv : Inv σ st aR lastR time)
    (hflush : aR'.flush = aR.flush)
    (hσ' : σ' ≠ .snd)
    (href : σ' ≠ .fresh → ∃ q, lastR' = some q ∧ st.lastPitch = some q)
    (hfresh : σ' = .fresh → lastR' = none)
    (hsil : σ' = .sil → aR'.opn = none) :
    Inv σ' { st with rev := Elem.rest d :: st.rev, lastIsSilence := true } aR' lastR' (time + d) := by
  have hacc : accRev (Elem.rest d :: st.rev)
      = { closed := (accRev st.rev).flush, opn := none, tied := false, time := time + d } := by
    simp only [accRev]; rw [stepV_rest, inv.time_eq]
  constructor
  · simp only [hacc]
  · simp only [hacc]
  · simp only [hacc, flush_closed, inv.flush_eq, hflush]
  · exact href
  · exact hfresh
  · intro _; simp only [hacc]; exact ⟨trivial, trivial⟩
  · exact hsil
  · intro h; exact absurd h hσ'

theorem noteStep_sim_rest {σ st aR lastR time} {c : Chord} {n : Note} {track : Nat} {row lastR' st'}
    (inv : Inv σ st aR lastR time) (hk : n.kind = .r)
    (hR : noteToRow n c track time lastR = .ok (row, lastR'))
    (hV : noteStep c false st n = .ok st') :
    Inv (if σ = .fresh then .fresh else .sil) st' (stepR aR row) lastR' (time + n.dur) := by
  obtain ⟨hrd, hrs, hrc, rfl⟩ := noteToRow_rest hk hR
  rw [noteStep_r false hk, Except.ok.injEq] at hV
  subst hV
  have hstepR : stepR aR row = { aR with closed := aR.flush, opn := none } := by
    unfold stepR; simp [hrs, hrc]
  rw [hstepR]
  apply inv_rest n.dur inv
  · simp [Acc.flush]
  · split <;> simp
  · intro h
    have : σ ≠ .fresh := by intro hf; simp [hf] at h
    exact inv.ref this
  · intro h
    have : σ = .fresh := Decidable.byContradiction (fun hf => by simp [hf] at h)
    exact inv.fresh this
  · intro _; rfl

theorem tieOrRest_silent {st : VState} (d : Rat) (h : st.lastIsSilence = true) :
    tieOrRest st d = { st with rev := Elem.rest d :: st.rev, lastIsSilence := true } := by
  unfold tieOrRest
  split
  · rename_i hs _; rw [h] at hs; cases hs
  · rfl

theorem stepR_cont_none {aR : Acc} {row : Row} (hc : row.cont = true) (ho : aR.opn = none) : stepR aR row = aR := by
  unfold stepR
  cases aR
  simp_all

theorem noteStep_sim_cont {σ st aR lastR time} {c : Chord} {n : Note} {track : Nat} {row lastR' st'}
    (inv : Inv σ st aR lastR time) (hk : n.kind = .l) (hσ : σ ≠ .desync)
    (hR : noteToRow n c track time lastR = .ok (row, lastR'))
    (hV : noteStep c false st n = .ok st') :
    Inv σ st' (stepR aR row) lastR' (time + n.dur) := by
  obtain ⟨hrd, hrs, hrc, rfl⟩ := noteToRow_cont hk hR
  rw [noteStep_l false hk, Except.ok.injEq] at hV
  subst hV
  by_cases hsnd : σ = .snd
  · -- a sounding note is prolonged: tie on the voice, continuation row in the matrix
    subst hsnd
    obtain ⟨q, ev, e, r, hl, hsp, hsil, hao, hevp, hvo, hvc, hrev, hep⟩ := inv.snd rfl
    have htie : tieOrRest st n.dur = { st with rev := { pitch := some (60 + q), dur := n.dur, tie := some .stop }
        :: { e with tie := some .start } :: r } := by
      unfold tieOrRest; rw [hsp, hsil, hrev]
    rw [htie]
    have hstepR : stepR aR row = { aR with opn := some { ev with dur := ev.dur + n.dur } } := by
      unfold stepR; simp [hl] at hrc; simp [hrc, hao, hrd]
    rw [hstepR]
    have hV0 : accRev (e :: r) = accRev st.rev := by rw [hrev]
    have hacc : accRev ({ pitch := some (60 + q), dur := n.dur, tie := some Tie.stop } :: { e with tie := some .start } :: r)
        = { accRev st.rev with opn := some { ev.key with dur := ev.key.dur + n.dur }, tied := false, time := time + n.dur } := by
      have h1 : accRev ({ e with tie := some .start } :: r) = { accRev st.rev with tied := true } := by
        rw [← hV0]; simp only [accRev]; rw [stepV_retie _ _ _ hep]; rfl
      have hkp : ev.key.pitch = 60 + q := by simp [Ev.key, hevp]
      rw [accRev, h1, ← hkp]
      rw [stepV_note_tied { accRev st.rev with tied := true } ev.key _ _ rfl hvo]
      simp [tieOut, inv.time_eq]
    constructor
    · rw [hacc]
    · rw [hacc]
    · rw [hacc]; simp only [Acc.flush, hvc]; simp [Ev.key]
    · intro _; obtain ⟨q', h1, h2⟩ := inv.ref (by simp); exact ⟨q', h1, h2⟩
    · intro h; cases h
    · intro h; exact absurd rfl h
    · intro h; cases h
    · intro _
      refine ⟨q, { ev with dur := ev.dur + n.dur }, _, _, hl, hsp, hsil, rfl, hevp, ?_, ?_, rfl, rfl⟩
      · rw [hacc]; rfl
      · rw [hacc]; exact hvc
  · -- nothing is sounding on the exporter's side: a rest
    obtain ⟨hq1, hq2⟩ := inv.quiet hsnd
    rw [tieOrRest_silent _ hq1]
    apply inv_rest n.dur inv
    · -- the renderer: a silence row (no reference) or a continuation row with nothing to prolong
      cases hl : lastR' with
      | none =>
          simp [hl] at hrs hrc
          unfold stepR; simp [hrs, hrc, Acc.flush]
      | some q =>
          simp [hl] at hrc
          have hsil : σ = .sil := by
            cases σ <;> simp_all
            exact absurd (inv.fresh rfl) (by simp)
          rw [stepR_cont_none hrc (inv.sil hsil)]
    · exact hsnd
    · exact inv.ref
    · exact inv.fresh
    · intro h
      cases hl : lastR' with
      | none => exact absurd (inv.ref (by rw [h]; simp)) (by simp [hl])
      | some q =>
          simp [hl] at hrc
          rw [stepR_cont_none hrc (inv.sil h)]; exact inv.sil h


/-- every note of the claim keeps the invariant -/
theorem noteStep_sim {σ σ' st aR lastR time} {c : Chord} {n : Note} {track : Nat} {row lastR' st'}
    (inv : Inv σ st aR lastR time) (hs : syncNote true σ n = some σ')
    (hR : noteToRow n c track time lastR = .ok (row, lastR'))
    (hV : noteStep c false st n = .ok st') :
    Inv σ' st' (stepR aR row) lastR' (time + n.dur) := by
  unfold syncNote at hs
  by_cases hk : n.kind.isNote = true
  · simp only [hk, if_true] at hs
    by_cases hrel : (n.kind.isRelative && σ == .fresh) = true
    · simp [hrel] at hs
    · simp only [hrel, Bool.false_eq_true, if_false, Option.some.injEq] at hs
      subst hs
      apply noteStep_sim_note inv hk _ hR hV
      intro ⟨h1, h2⟩
      apply hrel
      simp [h1, h2]
  · simp only [hk, Bool.false_eq_true, if_false] at hs
    by_cases hr : n.kind = .r
    · simp only [hr, beq_self_eq_true, if_true, Option.some.injEq] at hs
      have := noteStep_sim_rest inv hr hR hV
      rw [← hs]
      by_cases hf : σ = .fresh
      · simpa [hf] using this
      · simpa [hf] using this
    · have hr' : (n.kind == Kind.r) = false := by simpa using hr
      simp only [hr', Bool.false_eq_true, if_false] at hs
      by_cases hl : n.kind = .l
      · simp only [hl, beq_self_eq_true, if_true, Bool.and_true] at hs
        by_cases hd : σ = .desync
        · simp [hd] at hs
        · have hd' : (σ == Sync.desync) = false := by simpa using hd
          simp only [hd', Bool.false_eq_true, if_false, Option.some.injEq] at hs
          subst hs
          exact noteStep_sim_cont inv hl hd hR hV
      · have hl' : (n.kind == Kind.l) = false := by simpa using hl
        simp [hl'] at hs

theorem melodyDuration_cons (n : Note) (ns : Melody) : melodyDuration (n :: ns) = n.dur + melodyDuration ns := by
  unfold melodyDuration sumRat
  simp only [List.map_cons, List.foldl_cons]
  have key : ∀ (l : List Rat) (a : Rat), l.foldl (· + ·) a = a + l.foldl (· + ·) 0 := by
    intro l
    induction l with
    | nil => intro a; simp; grind
    | cons x xs ih => intro a; simp only [List.foldl_cons]; rw [ih (a + x), ih (0 + x)]; grind
  rw [key _ (0 + n.dur)]
  grind

/-- a whole melody keeps the invariant -/
theorem notesLoop_sim {c : Chord} {track : Nat} : ∀ (m : Melody) {σ σ' st aR lastR time rows lastR' st'},
    Inv σ st aR lastR time → syncMelody true σ m = some σ' →
    melodyToRows m c track time lastR = .ok (rows, lastR') →
    notesLoop c false st m = .ok st' →
    Inv σ' st' (rows.foldl stepR aR) lastR' (time + melodyDuration m)
  | [], σ, σ', st, aR, lastR, time, rows, lastR', st', inv, hs, hR, hV => by
      simp only [syncMelody, Option.some.injEq] at hs
      simp only [melodyToRows, pure, Except.pure, Except.ok.injEq, Prod.mk.injEq] at hR
      simp only [notesLoop, pure, Except.pure, Except.ok.injEq] at hV
      obtain ⟨rfl, rfl⟩ := hR
      subst hs; subst hV
      have : time + melodyDuration [] = time := by simp [melodyDuration, sumRat]; grind
      rw [this]
      exact inv
  | n :: ns, σ, σ', st, aR, lastR, time, rows, lastR', st', inv, hs, hR, hV => by
      simp only [syncMelody] at hs
      cases hs1 : syncNote true σ n with
      | none => simp [hs1] at hs
      | some σ1 =>
        simp only [hs1] at hs
        simp only [melodyToRows, bind, Except.bind] at hR
        cases hr1 : noteToRow n c track time lastR with
        | error e => simp [hr1] at hR
        | ok rl =>
          obtain ⟨row, last1⟩ := rl
          simp only [hr1] at hR
          cases hr2 : melodyToRows ns c track (time + n.dur) last1 with
          | error e => simp [hr2] at hR
          | ok rl2 =>
            obtain ⟨rows2, last2⟩ := rl2
            simp only [hr2, pure, Except.pure, Except.ok.injEq, Prod.mk.injEq] at hR
            obtain ⟨rfl, rfl⟩ := hR
            simp only [notesLoop, bind, Except.bind] at hV
            cases hv1 : noteStep c false st n with
            | error e => simp [hv1] at hV
            | ok st1 =>
              simp only [hv1] at hV
              have inv1 := noteStep_sim inv hs1 hr1 hv1
              have := notesLoop_sim ns inv1 hs hr2 hV
              rw [melodyDuration_cons, List.foldl_cons]
              have ht : time + (n.dur + melodyDuration ns) = time + n.dur + melodyDuration ns := by grind
              rw [ht]
              exact this


theorem foldl_max_ge (ds : List Rat) : ∀ (d : Rat), d ≤ ds.foldl max d ∧ ∀ x ∈ ds, x ≤ ds.foldl max d := by
  induction ds with
  | nil => intro d; simp
  | cons y ys ih =>
      intro d
      simp only [List.foldl_cons, List.mem_cons]
      obtain ⟨h1, h2⟩ := ih (max d y)
      refine ⟨by grind, ?_⟩
      intro x hx
      rcases hx with rfl | hx
      · grind
      · exact h2 x hx

theorem lookup_mem {part : String} {parts : List (String × Melody)} {m : Melody}
    (h : parts.lookup part = some m) : (part, m) ∈ parts := by
  induction parts with
  | nil => simp at h
  | cons x xs ih =>
      obtain ⟨a, b⟩ := x
      simp only [List.lookup_cons] at h
      split at h
      · rename_i hb
        simp at hb; cases h; simp [hb]
      · simp [ih h]

theorem part_le_chord {c : Chord} {part : String} {m : Melody} (h : c.parts.lookup part = some m) :
    melodyDuration m ≤ c.dur := by
  have hm := lookup_mem h
  have hx : melodyDuration m ∈ c.parts.map (fun p => melodyDuration p.2) :=
    List.mem_map.mpr ⟨(part, m), hm, rfl⟩
  unfold Chord.dur
  split
  · rename_i he; rw [he] at hx; simp at hx
  · rename_i d ds he
    rw [he] at hx
    obtain ⟨h1, h2⟩ := foldl_max_ge ds d
    rcases List.mem_cons.mp hx with hx | hx
    · rw [hx]; exact h1
    · exact h2 _ hx

theorem syncPad_ne_snd (σ : Sync) : syncPad σ ≠ .snd := by cases σ <;> simp [syncPad]
theorem syncPad_fresh {σ : Sync} (h : syncPad σ = .fresh) : σ = .fresh := by cases σ <;> simp_all [syncPad]
theorem syncPad_sil {σ : Sync} (h : syncPad σ = .sil) : σ = .sil := by cases σ <;> simp_all [syncPad]

/-- a chord in which the part is present keeps the invariant (padding of a short part included) -/
theorem chordStep_sim_present {part : String} {c : Chord} {m : Melody} {track : Nat}
    {σ σ1 st aR lastR time rows lastR' st'}
    (hl : c.parts.lookup part = some m) (inv : Inv σ st aR lastR time)
    (hs : syncMelody true σ m = some σ1)
    (hR : melodyToRows m c track time lastR = .ok (rows, lastR'))
    (hV : chordStep part false st c = .ok st') :
    Inv (if melodyDuration m < c.dur then syncPad σ1 else σ1) st' (rows.foldl stepR aR) lastR' (time + c.dur) := by
  unfold chordStep at hV
  simp only [hl, bind, Except.bind] at hV
  cases hv1 : notesLoop c false st m with
  | error e => simp [hv1] at hV
  | ok st1 =>
    simp only [hv1] at hV
    have inv1 := notesLoop_sim m inv hs hR hv1
    by_cases hshort : melodyDuration m < c.dur
    · simp only [hshort, if_true, pure, Except.pure, Except.ok.injEq] at hV ⊢
      subst hV
      have ht : time + c.dur = time + melodyDuration m + (c.dur - melodyDuration m) := by grind
      rw [ht]
      apply inv_rest _ inv1 rfl (syncPad_ne_snd σ1)
      · intro h; exact inv1.ref (fun hf => h (by rw [hf]; rfl))
      · intro h; exact inv1.fresh (syncPad_fresh h)
      · intro h; exact inv1.sil (syncPad_sil h)
    · simp only [hshort, if_false, pure, Except.pure, Except.ok.injEq] at hV ⊢
      subst hV
      have hle := part_le_chord hl
      have ht : time + c.dur = time + melodyDuration m := by grind
      rw [ht]
      exact inv1

/-- a chord from which the part is absent: a rest as long as the chord, the reference is forgotten -/
theorem chordStep_sim_absent {part : String} {c : Chord} {σ st aR lastR time st'}
    (hl : c.parts.lookup part = none) (inv : Inv σ st aR lastR time)
    (hV : chordStep part false st c = .ok st') :
    Inv .fresh st' aR none (time + c.dur) := by
  unfold chordStep at hV
  simp only [hl, pure, Except.pure, Except.ok.injEq] at hV
  subst hV
  apply inv_rest _ inv rfl (by simp)
  · intro h; exact absurd rfl h
  · intro _; rfl
  · intro h; cases h

/-- the whole score: the invariant at the end, at time `Σ chord durations` -/
theorem chordsLoop_sim {part : String} {track : Nat} : ∀ (s : Score) {σ σ' st aR lastR time rows st'},
    Inv σ st aR lastR time → syncScore true part σ s = some σ' →
    trackRows part track s time lastR = .ok rows →
    chordsLoop part false st s = .ok st' →
    ∃ lastR', Inv σ' st' (rows.foldl stepR aR) lastR' ((s.map Chord.dur).foldl (· + ·) time)
  | [], σ, σ', st, aR, lastR, time, rows, st', inv, hs, hR, hV => by
      simp only [syncScore, Option.some.injEq] at hs
      simp only [trackRows, pure, Except.pure, Except.ok.injEq] at hR
      simp only [chordsLoop, pure, Except.pure, Except.ok.injEq] at hV
      subst hs; subst hV; subst hR
      exact ⟨lastR, inv⟩
  | c :: cs, σ, σ', st, aR, lastR, time, rows, st', inv, hs, hR, hV => by
      simp only [syncScore] at hs
      simp only [chordsLoop, bind, Except.bind] at hV
      cases hv1 : chordStep part false st c with
      | error e => simp [hv1] at hV
      | ok st1 =>
        simp only [hv1] at hV
        simp only [List.map_cons, List.foldl_cons]
        cases hl : c.parts.lookup part with
        | none =>
            simp only [syncChord, hl] at hs
            simp only [trackRows, hl] at hR
            have inv1 := chordStep_sim_absent hl inv hv1
            exact chordsLoop_sim cs inv1 hs hR hV
        | some m =>
            simp only [syncChord, hl] at hs
            cases hs1 : syncMelody true σ m with
            | none => simp [hs1] at hs
            | some σ1 =>
              simp only [hs1] at hs
              simp only [trackRows, hl, bind, Except.bind] at hR
              cases hr1 : melodyToRows m c track time lastR with
              | error e => simp [hr1] at hR
              | ok rl =>
                obtain ⟨rows1, last1⟩ := rl
                simp only [hr1] at hR
                cases hr2 : trackRows part track cs (time + c.dur) last1 with
                | error e => simp [hr2] at hR
                | ok rows2 =>
                  simp only [hr2, pure, Except.pure, Except.ok.injEq] at hR
                  subst hR
                  have inv1 := chordStep_sim_present hl inv hs1 hr1 hv1
                  rw [List.foldl_append]
                  exact chordsLoop_sim cs inv1 hs hr2 hV

/-! ### totality -/

/-- the part of the invariant that totality needs: both sides hold the same reference pitch -/
def RefInv (σ : Sync) (st : VState) (lastR : Option Int) : Prop :=
  σ ≠ .fresh → ∃ q, lastR = some q ∧ st.lastPitch = some q

theorem pitch_total {σ st lastR} {c : Chord} {n : Note} {p : Int} (href : RefInv σ st lastR)
    (hs : ¬ (n.kind.isRelative = true ∧ σ = .fresh))
    (hR : noteToPitch c n (lastR.getD 0) = .ok (some p)) : pitchResult c n st.lastPitch = .ok p := by
  unfold pitchResult
  by_cases hrel : n.kind.isRelative = true
  · have hσ : σ ≠ .fresh := fun h => hs ⟨hrel, h⟩
    obtain ⟨q, hq1, hq2⟩ := href hσ
    simp only [hrel, if_true, hq2, hq1, Option.getD_some] at hR ⊢
    simp only [hR, bind, Except.bind, pure, Except.pure]
  · have hrel' : n.kind.isRelative = false := by simpa using hrel
    simp only [hrel', Bool.false_eq_true, if_false]
    rw [noteToPitch_last_indep hrel' 0 (lastR.getD 0), hR]
    simp only [bind, Except.bind, pure, Except.pure]

theorem tieOrRest_lastPitch (st : VState) (d : Rat) : (tieOrRest st d).lastPitch = st.lastPitch := by
  unfold tieOrRest; split <;> rfl

theorem noteStep_total {b : Bool} {σ σ' st lastR} {time : Rat} {c : Chord} {n : Note} {track : Nat} {row lastR'}
    (href : RefInv σ st lastR) (hs : syncNote b σ n = some σ')
    (hR : noteToRow n c track time lastR = .ok (row, lastR'))
    (hrange : row.silence = false → row.cont = false → -36 ≤ row.pitch)
    (hd : 0 ≤ c.ton.deg ∧ c.ton.deg < 12) :
    ∃ st', noteStep c false st n = .ok st' ∧ RefInv σ' st' lastR' := by
  unfold syncNote at hs
  by_cases hk : n.kind.isNote = true
  · simp only [hk, if_true] at hs
    by_cases hrel : (n.kind.isRelative && σ == .fresh) = true
    · simp [hrel] at hs
    · simp only [hrel, Bool.false_eq_true, if_false, Option.some.injEq] at hs
      subst hs
      obtain ⟨p, hp, hrp, _, _, hrs, hrc, rfl⟩ := noteToRow_note hk hR
      have hns : ¬ (n.kind.isRelative = true ∧ σ = .fresh) := by
        intro ⟨h1, h2⟩; apply hrel; simp [h1, h2]
      have hpr := pitch_total (st := st) href hns hp
      obtain ⟨sp, hg⟩ := getNoteSpelling_total hpr hd
      have hm := (getNoteSpelling_midi hg).2 (by rw [← hrp]; exact hrange hrs hrc)
      refine ⟨{ rev := { pitch := some (60 + p), dur := n.dur } :: st.rev, lastSpelling := some (60 + p),
                lastPitch := some p, lastIsSilence := false }, ?_, ?_⟩
      · unfold noteStep
        simp only [hk, if_true, hg, hm, bind, Except.bind, pure, Except.pure, Bool.not_false, Bool.or_true]
      · intro _; exact ⟨p, rfl, rfl⟩
  · simp only [hk, Bool.false_eq_true, if_false] at hs
    by_cases hr : n.kind = .r
    · simp only [hr, beq_self_eq_true, if_true, Option.some.injEq] at hs
      obtain ⟨_, _, _, rfl⟩ := noteToRow_rest hr hR
      refine ⟨_, noteStep_r false hr, ?_⟩
      intro hσ'
      have : σ ≠ .fresh := by intro hf; rw [← hs] at hσ'; simp [hf] at hσ'
      exact href this
    · have hr' : (n.kind == Kind.r) = false := by simpa using hr
      simp only [hr', Bool.false_eq_true, if_false] at hs
      by_cases hl : n.kind = .l
      · simp only [hl, beq_self_eq_true, if_true] at hs
        obtain ⟨_, _, _, rfl⟩ := noteToRow_cont hl hR
        refine ⟨_, noteStep_l false hl, ?_⟩
        have hσ : σ' = σ := by
          split at hs
          · cases hs
          · cases hs; rfl
        rw [hσ]
        intro h
        obtain ⟨q, h1, h2⟩ := href h
        exact ⟨q, h1, by rw [tieOrRest_lastPitch]; exact h2⟩
      · have hl' : (n.kind == Kind.l) = false := by simpa using hl
        simp [hl'] at hs

/-- rows that sound lie in the notation range (MIDI number ≥ 24) -/
def RowsInRange (rows : List Row) : Prop :=
  ∀ r ∈ rows, r.silence = false → r.cont = false → -36 ≤ r.pitch

theorem notesLoop_total {b : Bool} {c : Chord} {track : Nat} (hd : 0 ≤ c.ton.deg ∧ c.ton.deg < 12) :
    ∀ (m : Melody) {σ σ' st lastR} {time : Rat} {rows lastR'},
    RefInv σ st lastR → syncMelody b σ m = some σ' →
    melodyToRows m c track time lastR = .ok (rows, lastR') → RowsInRange rows →
    ∃ st', notesLoop c false st m = .ok st' ∧ RefInv σ' st' lastR'
  | [], σ, σ', st, lastR, time, rows, lastR', href, hs, hR, _ => by
      simp only [syncMelody, Option.some.injEq] at hs
      simp only [melodyToRows, pure, Except.pure, Except.ok.injEq, Prod.mk.injEq] at hR
      obtain ⟨_, rfl⟩ := hR
      subst hs
      exact ⟨st, rfl, href⟩
  | n :: ns, σ, σ', st, lastR, time, rows, lastR', href, hs, hR, hrange => by
      simp only [syncMelody] at hs
      cases hs1 : syncNote b σ n with
      | none => simp [hs1] at hs
      | some σ1 =>
        simp only [hs1] at hs
        simp only [melodyToRows, bind, Except.bind] at hR
        cases hr1 : noteToRow n c track time lastR with
        | error e => simp [hr1] at hR
        | ok rl =>
          obtain ⟨row, last1⟩ := rl
          simp only [hr1] at hR
          cases hr2 : melodyToRows ns c track (time + n.dur) last1 with
          | error e => simp [hr2] at hR
          | ok rl2 =>
            obtain ⟨rows2, last2⟩ := rl2
            simp only [hr2, pure, Except.pure, Except.ok.injEq, Prod.mk.injEq] at hR
            obtain ⟨rfl, rfl⟩ := hR
            obtain ⟨st1, hv1, href1⟩ := noteStep_total (st := st) href hs1 hr1
              (hrange row (List.mem_cons_self)) hd
            obtain ⟨st2, hv2, href2⟩ := notesLoop_total hd ns (st := st1) href1 hs hr2
              (fun r hr => hrange r (List.mem_cons_of_mem _ hr))
            refine ⟨st2, ?_, href2⟩
            simp only [notesLoop, bind, Except.bind, hv1, hv2]

theorem chordsLoop_total {b : Bool} {part : String} {track : Nat} :
    ∀ (s : Score) {σ σ' st lastR} {time : Rat} {rows},
    (∀ c ∈ s, 0 ≤ c.ton.deg ∧ c.ton.deg < 12) →
    RefInv σ st lastR → syncScore b part σ s = some σ' →
    trackRows part track s time lastR = .ok rows → RowsInRange rows →
    ∃ st', chordsLoop part false st s = .ok st'
  | [], σ, σ', st, lastR, time, rows, _, _, _, _, _ => ⟨st, rfl⟩
  | c :: cs, σ, σ', st, lastR, time, rows, hdeg, href, hs, hR, hrange => by
      simp only [syncScore] at hs
      have hd := hdeg c (List.mem_cons_self)
      have hdeg' : ∀ c' ∈ cs, 0 ≤ c'.ton.deg ∧ c'.ton.deg < 12 := fun c' h => hdeg c' (List.mem_cons_of_mem _ h)
      cases hl : c.parts.lookup part with
      | none =>
          simp only [syncChord, hl] at hs
          simp only [trackRows, hl] at hR
          have href1 : RefInv .fresh { st with rev := Elem.rest c.dur :: st.rev, lastIsSilence := true } none :=
            fun h => absurd rfl h
          obtain ⟨st2, hv2⟩ := chordsLoop_total cs hdeg' href1 hs hR hrange
          refine ⟨st2, ?_⟩
          simp only [chordsLoop, chordStep, hl, bind, Except.bind, pure, Except.pure]
          exact hv2
      | some m =>
          simp only [syncChord, hl] at hs
          cases hs1 : syncMelody b σ m with
          | none => simp [hs1] at hs
          | some σ1 =>
            simp only [hs1] at hs
            simp only [trackRows, hl, bind, Except.bind] at hR
            cases hr1 : melodyToRows m c track time lastR with
            | error e => simp [hr1] at hR
            | ok rl =>
              obtain ⟨rows1, last1⟩ := rl
              simp only [hr1] at hR
              cases hr2 : trackRows part track cs (time + c.dur) last1 with
              | error e => simp [hr2] at hR
              | ok rows2 =>
                simp only [hr2, pure, Except.pure, Except.ok.injEq] at hR
                subst hR
                obtain ⟨st1, hv1, href1⟩ := notesLoop_total hd m (st := st) href hs1 hr1
                  (fun r hr => hrange r (List.mem_append_left _ hr))
                have hrange2 : RowsInRange rows2 := fun r hr => hrange r (List.mem_append_right _ hr)
                by_cases hshort : melodyDuration m < c.dur
                · simp only [hshort, if_true] at hs
                  have href1' : RefInv (syncPad σ1)
                      { st1 with rev := Elem.rest (c.dur - melodyDuration m) :: st1.rev, lastIsSilence := true } last1 :=
                    fun h => href1 (fun hf => h (by rw [hf]; rfl))
                  obtain ⟨st2, hv2⟩ := chordsLoop_total cs hdeg' href1' hs hr2 hrange2
                  refine ⟨st2, ?_⟩
                  simp only [chordsLoop, chordStep, hl, bind, Except.bind, pure, Except.pure, hv1, hshort, if_true]
                  exact hv2
                · simp only [hshort, if_false] at hs
                  obtain ⟨st2, hv2⟩ := chordsLoop_total cs hdeg' href1 hs hr2 hrange2
                  refine ⟨st2, ?_⟩
                  simp only [chordsLoop, chordStep, hl, bind, Except.bind, pure, Except.pure, hv1, hshort, if_false]
                  exact hv2


/-! ### the voice is as long as the score -/

theorem accRev_time (l : List Elem) : (accRev l).time = sumRat (l.reverse.map (·.dur)) := by
  induction l with
  | nil => rfl
  | cons e r ih =>
      simp only [accRev, stepV_time, ih, sumRat, List.reverse_cons, List.map_append, List.foldl_append,
        List.map_cons, List.map_nil, List.foldl_cons, List.foldl_nil]

theorem tieOrRest_time (st : VState) (d : Rat) :
    (accRev (tieOrRest st d).rev).time = (accRev st.rev).time + d := by
  unfold tieOrRest
  split
  · rename_i e r _ _ hrev
    simp only [accRev, stepV_time, hrev]
  · simp only [accRev, stepV_time, Elem.rest]

theorem noteStep_time {b : Bool} {σ σ'} {c : Chord} {n : Note} {st st' : VState}
    (hs : syncNote b σ n = some σ') (hV : noteStep c false st n = .ok st') :
    (accRev st'.rev).time = (accRev st.rev).time + n.dur := by
  by_cases hk : n.kind.isNote = true
  · obtain ⟨sp, p, m, _, _, rfl⟩ := noteStep_note hk hV
    simp only [accRev, stepV_time]
  · unfold syncNote at hs
    simp only [hk, Bool.false_eq_true, if_false] at hs
    by_cases hr : n.kind = .r
    · rw [noteStep_r false hr, Except.ok.injEq] at hV
      subst hV
      simp only [accRev, stepV_time, Elem.rest]
    · have hr' : (n.kind == Kind.r) = false := by simpa using hr
      simp only [hr', Bool.false_eq_true, if_false] at hs
      by_cases hl : n.kind = .l
      · rw [noteStep_l false hl, Except.ok.injEq] at hV
        subst hV
        exact tieOrRest_time st n.dur
      · have hl' : (n.kind == Kind.l) = false := by simpa using hl
        simp [hl'] at hs

theorem notesLoop_time {b : Bool} {c : Chord} : ∀ (m : Melody) {σ σ'} {st st' : VState},
    syncMelody b σ m = some σ' → notesLoop c false st m = .ok st' →
    (accRev st'.rev).time = (accRev st.rev).time + melodyDuration m
  | [], σ, σ', st, st', _, hV => by
      simp only [notesLoop, pure, Except.pure, Except.ok.injEq] at hV
      subst hV
      simp [melodyDuration, sumRat]; grind
  | n :: ns, σ, σ', st, st', hs, hV => by
      simp only [syncMelody] at hs
      cases hs1 : syncNote b σ n with
      | none => simp [hs1] at hs
      | some σ1 =>
        simp only [hs1] at hs
        simp only [notesLoop, bind, Except.bind] at hV
        cases hv1 : noteStep c false st n with
        | error e => simp [hv1] at hV
        | ok st1 =>
          simp only [hv1] at hV
          rw [notesLoop_time ns hs hV, noteStep_time hs1 hv1, melodyDuration_cons]
          grind

theorem chordsLoop_time {b : Bool} {part : String} : ∀ (s : Score) {σ σ'} {st st' : VState},
    syncScore b part σ s = some σ' → chordsLoop part false st s = .ok st' →
    (accRev st'.rev).time = (s.map Chord.dur).foldl (· + ·) (accRev st.rev).time
  | [], σ, σ', st, st', _, hV => by
      simp only [chordsLoop, pure, Except.pure, Except.ok.injEq] at hV
      subst hV; rfl
  | c :: cs, σ, σ', st, st', hs, hV => by
      simp only [syncScore] at hs
      simp only [chordsLoop, bind, Except.bind] at hV
      cases hv1 : chordStep part false st c with
      | error e => simp [hv1] at hV
      | ok st1 =>
        simp only [hv1] at hV
        simp only [List.map_cons, List.foldl_cons]
        have h1 : (accRev st1.rev).time = (accRev st.rev).time + c.dur ∧
            ∃ σ1, syncChord b part σ c = some σ1 ∧ syncScore b part σ1 cs = some σ' := by
          cases hsc : syncChord b part σ c with
          | none => simp [hsc] at hs
          | some σ1 =>
            simp only [hsc] at hs
            refine ⟨?_, σ1, rfl, hs⟩
            unfold chordStep at hv1
            unfold syncChord at hsc
            cases hl : c.parts.lookup part with
            | none =>
                simp only [hl, pure, Except.pure, Except.ok.injEq] at hv1
                subst hv1
                simp only [accRev, stepV_time, Elem.rest]
            | some m =>
                simp only [hl, bind, Except.bind] at hv1 hsc
                cases hsm : syncMelody b σ m with
                | none => simp [hsm] at hsc
                | some σm =>
                  cases hn : notesLoop c false st m with
                  | error e => simp [hn] at hv1
                  | ok stn =>
                    simp only [hn] at hv1
                    have ht := notesLoop_time m hsm hn
                    by_cases hshort : melodyDuration m < c.dur
                    · simp only [hshort, if_true, pure, Except.pure, Except.ok.injEq] at hv1
                      subst hv1
                      simp only [accRev, stepV_time, Elem.rest, ht]
                      grind
                    · simp only [hshort, if_false, pure, Except.pure, Except.ok.injEq] at hv1
                      subst hv1
                      have hle := part_le_chord hl
                      rw [ht]; grind
        obtain ⟨ht, σ1, _, hs2⟩ := h1
        rw [chordsLoop_time cs hs2 hV, ht]


/-! ### relating the two walks -/

theorem syncNote_strict_imp {σ σ' : Sync} {n : Note} (h : syncNote true σ n = some σ') :
    syncNote false σ n = some σ' := by
  unfold syncNote at h ⊢
  cases hk : n.kind <;> cases σ <;> simp_all [Kind.isNote, Kind.isRelative] <;> (subst h; simp)

theorem syncMelody_strict_imp : ∀ (m : Melody) {σ σ' : Sync}, syncMelody true σ m = some σ' →
    syncMelody false σ m = some σ'
  | [], _, _, h => h
  | n :: ns, σ, σ', h => by
      simp only [syncMelody] at h ⊢
      cases h1 : syncNote true σ n with
      | none => simp [h1] at h
      | some σ1 =>
        simp only [h1] at h
        simp only [syncNote_strict_imp h1]
        exact syncMelody_strict_imp ns h

theorem syncScore_strict_imp {part : String} : ∀ (s : Score) {σ σ' : Sync}, syncScore true part σ s = some σ' →
    syncScore false part σ s = some σ'
  | [], _, _, h => h
  | c :: cs, σ, σ', h => by
      simp only [syncScore] at h ⊢
      cases h1 : syncChord true part σ c with
      | none => simp [h1] at h
      | some σ1 =>
        simp only [h1] at h
        have : syncChord false part σ c = some σ1 := by
          unfold syncChord at h1 ⊢
          split
          · rename_i m hl
            simp only [hl] at h1
            cases hm : syncMelody true σ m with
            | none => simp [hm] at h1
            | some σm => simp only [hm] at h1; simp only [syncMelody_strict_imp m hm]; exact h1
          · rename_i hl; simpa [hl] using h1
        simp only [this]
        exact syncScore_strict_imp cs h

/-- without `desync` the strict and the plain walk agree on a note and stay out of `desync` -/
theorem syncNote_no_desync {σ σ' : Sync} {n : Note} (hσ : σ ≠ .desync) (h : syncNote false σ n = some σ') :
    syncNote true σ n = some σ' ∧ σ' ≠ .desync := by
  unfold syncNote at h ⊢
  cases hk : n.kind <;> cases σ <;> simp_all [Kind.isNote, Kind.isRelative] <;> (subst h; simp)

theorem syncMelody_no_desync : ∀ (m : Melody) {σ σ' : Sync}, σ ≠ .desync → syncMelody false σ m = some σ' →
    syncMelody true σ m = some σ' ∧ σ' ≠ .desync
  | [], σ, σ', hσ, h => by simp only [syncMelody, Option.some.injEq] at h ⊢; subst h; exact ⟨rfl, hσ⟩
  | n :: ns, σ, σ', hσ, h => by
      simp only [syncMelody] at h ⊢
      cases h1 : syncNote false σ n with
      | none => simp [h1] at h
      | some σ1 =>
        simp only [h1] at h
        obtain ⟨h2, h3⟩ := syncNote_no_desync hσ h1
        simp only [h2]
        exact syncMelody_no_desync ns h3 h


theorem syncScore_filled {part : String} : ∀ (s : Score) {σ σ' : Sync}, Filled s part → σ ≠ .desync →
    syncScore false part σ s = some σ' → syncScore true part σ s = some σ'
  | [], _, _, _, _, h => h
  | c :: cs, σ, σ', hf, hσ, h => by
      simp only [syncScore] at h ⊢
      have hf' : Filled cs part := fun c' hc' => hf c' (List.mem_cons_of_mem _ hc')
      cases h1 : syncChord false part σ c with
      | none => simp [h1] at h
      | some σ1 =>
        simp only [h1] at h
        have : syncChord true part σ c = some σ1 ∧ σ1 ≠ .desync := by
          unfold syncChord at h1 ⊢
          cases hl : c.parts.lookup part with
          | none => simp only [hl, Option.some.injEq] at h1 ⊢; subst h1; exact ⟨rfl, by simp⟩
          | some m =>
            simp only [hl] at h1 ⊢
            have hns := hf c List.mem_cons_self m hl
            cases hm : syncMelody false σ m with
            | none => simp [hm] at h1
            | some σm =>
              obtain ⟨h2, h3⟩ := syncMelody_no_desync m hσ hm
              simp only [hm, hns, if_false, Option.some.injEq] at h1
              subst h1
              simp only [h2, hns, if_false]
              exact ⟨trivial, h3⟩
        simp only [this.1]
        exact syncScore_filled cs hf' this.2 h

end MV.Mxl
