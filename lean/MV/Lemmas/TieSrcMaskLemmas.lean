/-
Helper lemmas for the source tie of group `SrcMask` (`MV/Props/TieSrcMask.lean`): the loops of the dispatcher as py2lean
writes them (left folds over the tuple of loop-carried variables, a `mapM` over the keys of the parts dict) against the
structural recursions of the model (`melodyLoop`, `chordsLoop`, `partsLoop` of `MV/Model/Transform.lean`).
-/
import MV.Model.PyMask
import MV.Model.Py
import MV.Lemmas.Transform

namespace MV.Tie

open MV MV.Transform MV.PyMask

theorem foldlM_congr {σ α : Type} {F G : σ → α → Res σ} (h : ∀ s x, F s x = G s x) (l : List α) (s : σ) :
    l.foldlM F s = l.foldlM G s := by
  have : F = G := by funext s x; exact h s x
  rw [this]

theorem mapM_congr {α β : Type} {F G : α → Res β} (h : ∀ x, F x = G x) (l : List α) :
    l.mapM F = l.mapM G := by
  have : F = G := by funext x; exact h x
  rw [this]

/-- no keyword written in the call is a key of `kwargs` already -/
theorem kwDistinct_false2 : kwDistinct [false, false] = .ok () := rfl
theorem kwDistinct_false3 : kwDistinct [false, false, false] = .ok () := rfl

theorem filter_true {α : Type} (l : List α) : List.filter (fun _ => true) l = l :=
  List.filter_eq_self.mpr (fun _ _ => rfl)

theorem unionTags_nil (t : List String) : unionTags [] t = t := by
  simp [unionTags]

/-- `len(a.intersection(b)) > 0`: some element of `b` is in `a` -/
theorem setInter_pos (a b : List String) :
    decide ((Py.len (setInter a b)) > (0 : Int)) = b.any (fun t => a.contains t) := by
  have h1 : (Py.len (setInter a b) > 0) ↔ (a.filter (fun t => b.contains t)) ≠ [] := by
    unfold setInter Py.len
    cases hf : a.filter (fun t => b.contains t) with
    | nil => simp
    | cons x xs => rw [List.eraseDups_cons]; simp
  have h2 : (a.filter (fun t => b.contains t)) ≠ [] ↔ ∃ t, t ∈ b ∧ t ∈ a := by
    rw [Ne, List.filter_eq_nil_iff]
    simp only [List.contains_iff_mem, Classical.not_forall, Classical.not_not]
    constructor
    · rintro ⟨t, ha, hb⟩; exact ⟨t, hb, ha⟩
    · rintro ⟨t, hb, ha⟩; exact ⟨t, ha, hb⟩
  rw [Bool.eq_iff_iff]
  simp only [decide_eq_true_eq, List.any_eq_true, List.contains_iff_mem]
  rw [h1, h2]

/-! ### apply_on_melody -/

/-- one turn of the loop of `apply_on_melody`: the state is `(beat, idx, last_note, new_melody)` -/
def melStep (T : Transformer) (on : Mask) (K : Ctx) (st : Rat × Int × Option Note × List Note) (m : Note) :
    Res (Rat × Int × Option Note × List Note) := do
  let k : Ctx := { K with beat := some st.1, idx := some st.2.1, lastNote := st.2.2.1 }
  let r ← if on.call (.note m) k then T.actNote m k else pure (T.defaultNote m)
  match r with
  | some n => pure (st.1 + m.dur, st.2.1 + 1, some m, st.2.2.2 ++ [n])
  | none => pure (st.1 + m.dur, st.2.1 + 1, some m, st.2.2.2)

/-- the fold appends, to what it has accumulated, exactly the list the model's recursion returns -/
theorem melFold (T : Transformer) (on : Mask) (K : Ctx) (notes : List Note) (b : Rat) (i : Int) (l : Option Note)
    (acc : List Note) :
    (notes.foldlM (melStep T on K) (b, i, l, acc) >>= fun st => pure st.2.2.2)
      = (melodyLoop T on K notes b i l >>= fun tail => pure (acc ++ tail) : Res (List Note)) := by
  induction notes generalizing b i l acc with
  | nil => simp [melodyLoop]
  | cons m rest ih =>
    rw [List.foldlM_cons, melodyLoop]
    simp only [melStep]
    cases hc : on.call (.note m) { K with beat := some b, idx := some i, lastNote := l } with
    | true =>
      simp only [if_true, bind_assoc]
      cases hr : T.actNote m { K with beat := some b, idx := some i, lastNote := l } with
      | error e => rfl
      | ok r =>
        cases r with
        | none =>
          simp only [bind, Except.bind, pure, Except.pure] at ih ⊢
          rw [ih]
        | some n =>
          simp only [bind, Except.bind, pure, Except.pure] at ih ⊢
          rw [ih]
          cases melodyLoop T on K rest (b + m.dur) (i + 1) (some m) <;> simp
    | false =>
      simp only [Bool.false_eq_true, if_false, bind_assoc]
      cases hd : T.defaultNote m with
      | none =>
          simp only [bind, Except.bind, pure, Except.pure] at ih ⊢
          rw [ih]
      | some n =>
          simp only [bind, Except.bind, pure, Except.pure] at ih ⊢
          rw [ih]
          cases melodyLoop T on K rest (b + m.dur) (i + 1) (some m) <;> simp

/-! ### apply_on_score -/

/-- one turn of the loop of `apply_on_score`: the state is `(beat, idx, last_chord, score)` -/
def scStep (T : Transformer) (on : Mask) (K : Ctx) (st : Rat × Int × Option TChord × TScore) (m : TChord) :
    Res (Rat × Int × Option TChord × TScore) := do
  let k : Ctx := { K with chordBeat := some st.1, chordIdx := some st.2.1, lastChord := st.2.2.1 }
  let r ← if on.call (.chord m) k then callChord T m on k else pure (T.defaultChord m)
  match r with
  | some c => pure (st.1 + m.duration, st.2.1 + 1, some m, scoreAddChord st.2.2.2 c)
  | none => pure (st.1 + m.duration, st.2.1 + 1, some m, st.2.2.2)

theorem scoreAddChord_copy (s : TScore) (c : TChord) :
    (scoreAddChord s c).copy.chords = s.copy.chords ++ [c.copy] := by
  simp [scoreAddChord, TScore.copy, chordCopy_idem, Function.comp_def]

theorem scoreAddChord_tags (s : TScore) (c : TChord) : (scoreAddChord s c).tags = s.tags := rfl

/-- `score += chord` copies what was accumulated and appends the chord itself; the final `add_tags` copies once more:
every chord ends up copied at least once, and copying is idempotent, so the result is the model's list of copies -/
theorem scFold (T : Transformer) (on : Mask) (K : Ctx) (tags : List String) (cs : List TChord) (b : Rat) (i : Int)
    (l : Option TChord) (acc : TScore) :
    (cs.foldlM (scStep T on K) (b, i, l, acc) >>= fun st => pure (scoreAddTags st.2.2.2 tags))
      = (chordsLoop T on K cs b i l >>= fun tail =>
          pure { chords := acc.copy.chords ++ tail, tags := unionTags acc.tags tags } : Res TScore) := by
  induction cs generalizing b i l acc with
  | nil => simp [chordsLoop, scoreAddTags]
  | cons m rest ih =>
    rw [List.foldlM_cons, chordsLoop]
    simp only [scStep]
    cases hc : on.call (.chord m) { K with chordBeat := some b, chordIdx := some i, lastChord := l } with
    | true =>
      simp only [if_true, bind_assoc]
      cases hr : callChord T m on { K with chordBeat := some b, chordIdx := some i, lastChord := l } with
      | error e => rfl
      | ok r =>
        cases r with
        | none =>
          simp only [bind, Except.bind, pure, Except.pure] at ih ⊢
          rw [ih]
        | some n =>
          simp only [bind, Except.bind, pure, Except.pure] at ih ⊢
          rw [ih]
          cases chordsLoop T on K rest (b + m.duration) (i + 1) (some m) with
          | error e => rfl
          | ok tail => simp [scoreAddChord_copy, scoreAddChord_tags]
    | false =>
      simp only [Bool.false_eq_true, if_false, bind_assoc]
      cases hd : T.defaultChord m with
      | none =>
          simp only [bind, Except.bind, pure, Except.pure] at ih ⊢
          rw [ih]
      | some n =>
          simp only [bind, Except.bind, pure, Except.pure] at ih ⊢
          rw [ih]
          cases chordsLoop T on K rest (b + m.duration) (i + 1) (some m) with
          | error e => rfl
          | ok tail => simp [scoreAddChord_copy, scoreAddChord_tags]

/-! ### apply_on_chord -/

/-- the value the dict comprehension of `apply_on_chord` computes for one key (`all` = `element.score`) -/
def partVal (T : Transformer) (on : Mask) (K : Ctx) (c : TChord) (all : List (String × TMelody)) (key : String) :
    Res (String × Option TMelody) := do
  let mel ← lookupKey key all
  let k : Ctx := { K with chord := some c, instrument := some key }
  let r ← if on.call (.melody mel) k then (do let mel' ← lookupKey key all; callMelody T mel' on k)
          else (do let mel' ← lookupKey key all; pure (T.defaultMelody mel'))
  pure (key, r)

/-- the final `chord(**{part: melody … if melody is not None})` on the dict of optional melodies -/
def keepParts (t : List (String × Option TMelody)) : List (String × TMelody) :=
  (t.filterMap (fun kv => match kv.2 with | some v => some (kv.1, v) | none => none)).map (fun p => (p.1, p.2.copy))

theorem lookupKey_of_mem (l : List (String × TMelody)) (hn : (l.map (·.1)).Nodup) (p : String × TMelody) (hp : p ∈ l) :
    lookupKey p.1 l = .ok p.2 := by
  induction l with
  | nil => cases hp
  | cons q rest ih =>
    simp only [List.map_cons, List.nodup_cons] at hn
    rcases List.mem_cons.mp hp with rfl | hp'
    · simp [lookupKey, List.lookup]
    · have hne : p.1 ≠ q.1 := by
        intro h
        exact hn.1 (h ▸ List.mem_map_of_mem (f := (·.1)) hp')
      have := ih hn.2 hp'
      simp only [lookupKey, List.lookup] at this ⊢
      have hb : (p.1 == q.1) = false := by simpa using hne
      rw [hb]
      exact this

/-- key after key, the comprehension computes what the model's recursion over the pairs computes, provided every key of
the pairs finds its own melody in the dict (true for the dict's own items when the names are distinct) -/
theorem partsMap (T : Transformer) (on : Mask) (K : Ctx) (c : TChord) (all ps : List (String × TMelody))
    (h : ∀ p ∈ ps, lookupKey p.1 all = .ok p.2) :
    ((ps.map (·.1)).mapM (partVal T on K c all) >>= fun t => pure (keepParts t))
      = partsLoop T on K c ps := by
  induction ps with
  | nil => rfl
  | cons p rest ih =>
    obtain ⟨key, mel⟩ := p
    have hp : lookupKey key all = .ok mel := h (key, mel) List.mem_cons_self
    have ih := ih (fun q hq => h q (List.mem_cons_of_mem _ hq))
    rw [List.map_cons, List.mapM_cons, partsLoop]
    simp only [partVal, hp]
    simp only [bind, Except.bind, pure, Except.pure] at ih ⊢
    rw [← ih]
    cases hc : on.call (.melody mel) { K with chord := some c, instrument := some key } with
    | true =>
      simp only [if_true]
      cases hr : callMelody T mel on { K with chord := some c, instrument := some key } with
      | error e => rfl
      | ok r =>
        cases (rest.map (·.1)).mapM (partVal T on K c all) with
        | error e => cases r <;> rfl
        | ok t => cases r <;> simp [keepParts]
    | false =>
      simp only [Bool.false_eq_true, if_false]
      cases (rest.map (·.1)).mapM (partVal T on K c all) with
      | error e => cases T.defaultMelody mel <;> rfl
      | ok t => cases T.defaultMelody mel <;> simp [keepParts]

/-! ### the `__call__` of the transformer families -/

/-- what the `apply_on_*` reached by `T(element, on=…, **kwargs)` needs of the keyword arguments and of the element -/
def callOK (e : Elem) (K : Ctx) : Prop :=
  match e with
  | .note _ => True
  | .melody _ => K.beat = none ∧ K.idx = none ∧ K.lastNote = none
  | .chord c => (K.chord = none ∧ K.instrument = none) ∧ (c.parts.map (·.1)).Nodup ∧ c.base.parts = []
  | .score _ => K.chordBeat = none ∧ K.chordIdx = none ∧ K.lastChord = none

instance (e : Elem) (K : Ctx) : Decidable (callOK e K) := by
  cases e <;> unfold callOK <;> infer_instance

end MV.Tie
