/-
Lemmas for C11, score level: when do two scores give the same note matrix (up to the
fields that are played)?  A threaded, per-track similarity that follows the renderer's
last-pitch bookkeeping, its stateless special case for note-wise re-notations, and the
instances for the re-notations of `MV.Model.Renotate`.
-/
import MV.Lemmas.Renotate
namespace MV
open Gen C02

/-! ### rows and melodies -/
/-- `n'` on `c'` sounds like `n` on `c` when the last sounding pitch is `last` -/
def NoteSimAt (c c' : Chord) (last : Int) (n n' : Note) : Prop :=
  n'.dur = n.dur ∧ (n'.kind == .r) = (n.kind == .r) ∧ (n'.kind == .l) = (n.kind == .l) ∧
  ∀ p, noteToPitch c n last = .ok p → noteToPitch c' n' last = .ok p

theorem noteToRow_sim (c c' : Chord) (n n' : Note) (t : Nat) (time : Rat) (last : Option Int)
    (h : NoteSimAt c c' (last.getD 0) n n') (row : Row) (l1 : Option Int)
    (hr : noteToRow n c t time last = .ok (row, l1)) :
    ∃ row', noteToRow n' c' t time last = .ok (row', l1) ∧ row'.core = row.core := by
  obtain ⟨hd, hkr, hkl, hp⟩ := h
  unfold noteToRow at hr ⊢
  simp only [bind, Except.bind, pure, Except.pure] at hr ⊢
  cases hq : noteToPitch c n (last.getD 0) with
  | error e => rw [hq] at hr; cases hr
  | ok p =>
    rw [hq] at hr
    rw [hp p hq]
    simp only at hr ⊢
    injection hr with hr
    injection hr with h1 h2
    subst h1 h2
    refine ⟨?w, ?h1, ?h2⟩
    case h1 => rw [hkr, hkl]
    case h2 => simp only [Row.core, hd]

/-- threaded similarity of two melodies: note by note, following the renderer's last pitch -/
def MelSim (c c' : Chord) : Option Int → Melody → Melody → Prop
  | _, [], [] => True
  | last, n :: ns, n' :: ns' =>
      NoteSimAt c c' (last.getD 0) n n' ∧
      ∀ p, noteToPitch c n (last.getD 0) = .ok p →
        MelSim c c' (if n.kind == .r || n.kind == .l then last else some (p.getD 0)) ns ns'
  | _, _, _ => False

theorem noteToRow_last (c : Chord) (n : Note) (t : Nat) (time : Rat) (last : Option Int) (row : Row) (l1 : Option Int)
    (hr : noteToRow n c t time last = .ok (row, l1)) :
    ∃ p, noteToPitch c n (last.getD 0) = .ok p ∧
      l1 = (if n.kind == .r || n.kind == .l then last else some (p.getD 0)) := by
  unfold noteToRow at hr
  simp only [bind, Except.bind, pure, Except.pure] at hr
  cases hq : noteToPitch c n (last.getD 0) with
  | error e => rw [hq] at hr; cases hr
  | ok p =>
    rw [hq] at hr
    simp only at hr
    injection hr with hr
    injection hr with h1 h2
    refine ⟨p, rfl, ?_⟩
    rw [← h2]
    cases hk : (n.kind == Kind.r) <;> cases hl : (n.kind == Kind.l) <;> cases last <;> simp

theorem melodyToRows_sim (c c' : Chord) (t : Nat) (m m' : Melody) (time : Rat) (last : Option Int)
    (h : MelSim c c' last m m') (rows : List Row) (l1 : Option Int)
    (hr : melodyToRows m c t time last = .ok (rows, l1)) :
    ∃ rows', melodyToRows m' c' t time last = .ok (rows', l1) ∧ rows'.map Row.core = rows.map Row.core := by
  induction m generalizing m' time last rows with
  | nil =>
    cases m' with
    | nil =>
      simp only [melodyToRows, pure, Except.pure] at hr ⊢
      injection hr with hr; injection hr with h1 h2; subst h1 h2
      exact ⟨[], rfl, rfl⟩
    | cons a b => simp [MelSim] at h
  | cons n ns ih =>
    cases m' with
    | nil => simp [MelSim] at h
    | cons n' ns' =>
      simp only [MelSim] at h
      obtain ⟨hn, hrest⟩ := h
      simp only [melodyToRows, bind, Except.bind, pure, Except.pure] at hr ⊢
      cases hrow : noteToRow n c t time last with
      | error e => rw [hrow] at hr; cases hr
      | ok v =>
        obtain ⟨row, l2⟩ := v
        rw [hrow] at hr
        simp only at hr
        obtain ⟨row', hrow', hcore⟩ := noteToRow_sim c c' n n' t time last hn row l2 hrow
        obtain ⟨p, hp, hl2⟩ := noteToRow_last c n t time last row l2 hrow
        rw [hrow']
        simp only
        cases hrs : melodyToRows ns c t (time + n.dur) l2 with
        | error e => rw [hrs] at hr; cases hr
        | ok w =>
          obtain ⟨rs, l3⟩ := w
          rw [hrs] at hr
          simp only at hr
          injection hr with hr; injection hr with h1 h2; subst h1 h2
          have hsim := hrest p hp
          rw [← hl2] at hsim
          obtain ⟨rs', hrs', hc⟩ := ih ns' (time + n.dur) l2 hsim rs hrs
          rw [hn.1, hrs']
          exact ⟨row' :: rs', rfl, by simp [hcore, hc]⟩

/-! ### tracks and scores -/
/-- threaded similarity of two scores along one track -/
def trackSim (t : String) : Option Int → Score → Score → Prop
  | _, [], [] => True
  | last, c :: cs, c' :: cs' =>
      c'.dur = c.dur ∧
      (match c.parts.lookup t, c'.parts.lookup t with
       | some m, some m' =>
           MelSim c c' last m m' ∧
           ∀ idx time rows l1, melodyToRows m c idx time last = .ok (rows, l1) → trackSim t l1 cs cs'
       | none, none => trackSim t none cs cs'
       | _, _ => False)
  | _, _, _ => False

theorem trackRows_sim (t : String) (idx : Nat) (s s' : Score) (time : Rat) (last : Option Int)
    (h : trackSim t last s s') (rows : List Row) (hr : trackRows t idx s time last = .ok rows) :
    ∃ rows', trackRows t idx s' time last = .ok rows' ∧ rows'.map Row.core = rows.map Row.core := by
  induction s generalizing s' time last rows with
  | nil =>
    cases s' with
    | nil =>
      simp only [trackRows, pure, Except.pure] at hr ⊢
      injection hr with hr; subst hr; exact ⟨[], rfl, rfl⟩
    | cons a b => simp [trackSim] at h
  | cons c cs ih =>
    cases s' with
    | nil => simp [trackSim] at h
    | cons c' cs' =>
      simp only [trackSim] at h
      obtain ⟨hd, hm⟩ := h
      simp only [trackRows] at hr ⊢
      cases h1 : c.parts.lookup t with
      | none =>
        cases h2 : c'.parts.lookup t with
        | some m' => rw [h1, h2] at hm; exact absurd hm (by simp)
        | none =>
          rw [h1, h2] at hm
          rw [h1] at hr
          simp only at hm hr ⊢
          rw [hd]
          exact ih cs' _ _ hm rows hr
      | some m =>
        cases h2 : c'.parts.lookup t with
        | none => rw [h1, h2] at hm; exact absurd hm (by simp)
        | some m' =>
          rw [h1, h2] at hm
          rw [h1] at hr
          simp only at hm hr ⊢
          obtain ⟨hmel, hrest⟩ := hm
          simp only [bind, Except.bind, pure, Except.pure] at hr ⊢
          cases hrows : melodyToRows m c idx time last with
          | error e => rw [hrows] at hr; cases hr
          | ok v =>
            obtain ⟨rs, l1⟩ := v
            rw [hrows] at hr
            simp only at hr
            obtain ⟨rs', hrs', hc⟩ := melodyToRows_sim c c' idx m m' time last hmel rs l1 hrows
            rw [hrs']
            simp only
            cases hrest' : trackRows t idx cs (time + c.dur) l1 with
            | error e => rw [hrest'] at hr; cases hr
            | ok rest =>
              rw [hrest'] at hr
              simp only at hr
              injection hr with hr; subst hr
              obtain ⟨rest', hr1, hr2⟩ := ih cs' (time + c.dur) l1 (hrest idx time rs l1 hrows) rest hrest'
              rw [hd, hr1]
              exact ⟨rs' ++ rest', rfl, by simp [hc, hr2]⟩

/-- element-wise relation of two lists of the same length -/
inductive All2 {α β : Type} (R : α → β → Prop) : List α → List β → Prop
  | nil : All2 R [] []
  | cons {a b l l'} : R a b → All2 R l l' → All2 R (a :: l) (b :: l')

theorem mapM_rel {α β : Type} (f g : α → Res β) (R : β → β → Prop) (l : List α)
    (h : ∀ x ∈ l, ∀ r, f x = .ok r → ∃ r', g x = .ok r' ∧ R r r') (rs : List β) (hr : l.mapM f = .ok rs) :
    ∃ rs', l.mapM g = .ok rs' ∧ All2 R rs rs' := by
  induction l generalizing rs with
  | nil =>
    simp only [List.mapM_nil, pure, Except.pure] at hr ⊢
    injection hr with hr; subst hr; exact ⟨[], rfl, All2.nil⟩
  | cons a t ih =>
    simp only [List.mapM_cons, bind, Except.bind, pure, Except.pure] at hr ⊢
    cases ha : f a with
    | error e => rw [ha] at hr; cases hr
    | ok r =>
      rw [ha] at hr
      simp only at hr
      cases ht : t.mapM f with
      | error e => rw [ht] at hr; cases hr
      | ok rt =>
        rw [ht] at hr
        simp only at hr
        injection hr with hr; subst hr
        obtain ⟨r', hr', hR⟩ := h a (by simp) r ha
        obtain ⟨rt', hrt', hF⟩ := ih (fun x hx => h x (by simp [hx])) rt ht
        rw [hr', hrt']
        exact ⟨r' :: rt', rfl, All2.cons hR hF⟩

theorem flatten_core (a b : List (List Row)) (h : All2 (fun r r' => r'.map Row.core = r.map Row.core) a b) :
    b.flatten.map Row.core = a.flatten.map Row.core := by
  induction h with
  | nil => rfl
  | cons h1 _ ih => simp [List.flatten_cons, h1, ih]

/-- **two scores with the same tracks that are similar along every track give the same
note matrix** (fields that are played), and the second renders whenever the first does -/
theorem getNotes_sim (s s' : Score) (hT : trackList s' = trackList s) (h : ∀ t, trackSim t none s s')
    (rows : List Row) (hr : getNotes s = .ok rows) :
    ∃ rows', getNotes s' = .ok rows' ∧ rows'.map Row.core = rows.map Row.core := by
  unfold getNotes at hr ⊢
  simp only [bind, Except.bind, pure, Except.pure] at hr ⊢
  rw [hT]
  cases hp : (trackList s).zipIdx.mapM (fun (x : String × Nat) => trackRows x.1 x.2 s 0 none) with
  | error e =>
    have : (trackList s).zipIdx.mapM (fun (x : String × Nat) => match x with | (t, i) => trackRows t i s 0 none) = .error e := hp
    rw [this] at hr; cases hr
  | ok per =>
    have hp' : (trackList s).zipIdx.mapM (fun (x : String × Nat) => match x with | (t, i) => trackRows t i s 0 none) = .ok per := hp
    rw [hp'] at hr
    simp only at hr
    injection hr with hr; subst hr
    obtain ⟨per', hper', hF⟩ := mapM_rel (fun (x : String × Nat) => trackRows x.1 x.2 s 0 none)
      (fun (x : String × Nat) => trackRows x.1 x.2 s' 0 none)
      (fun r r' => r'.map Row.core = r.map Row.core) _
      (fun x _ r hx => trackRows_sim x.1 x.2 s s' 0 none (h x.1) r hx) per hp
    have : (trackList s).zipIdx.mapM (fun (x : String × Nat) => match x with | (t, i) => trackRows t i s' 0 none) = .ok per' := hper'
    rw [this]
    exact ⟨per'.flatten, rfl, flatten_core _ _ hF⟩

/-! ### stateless (note-wise) re-notations -/
/-- stateless similarity: for every last pitch -/
def NoteSim (c c' : Chord) (n n' : Note) : Prop := ∀ last, NoteSimAt c c' last n n'

theorem melSim_of_all2 (c c' : Chord) (m m' : Melody) (h : All2 (NoteSim c c') m m') :
    ∀ last, MelSim c c' last m m' := by
  induction h with
  | nil => intro last; simp [MelSim]
  | cons h1 _ ih =>
    intro last
    simp only [MelSim]
    exact ⟨h1 _, fun p _ => ih _⟩

theorem all2_durs (c c' : Chord) (m m' : Melody) (h : All2 (NoteSim c c') m m') :
    m'.map (·.dur) = m.map (·.dur) := by
  induction h with
  | nil => rfl
  | cons h1 _ ih => simp only [List.map_cons, (h1 0).1, ih]

/-- chords related part by part (same names in the same order, note-wise similar melodies) -/
def ChordRel (c c' : Chord) : Prop :=
  All2 (fun (p p' : String × Melody) => p'.1 = p.1 ∧ All2 (NoteSim c c') p.2 p'.2) c.parts c'.parts

theorem all2_lookup {R : Melody → Melody → Prop} (ps ps' : List (String × Melody))
    (h : All2 (fun (p p' : String × Melody) => p'.1 = p.1 ∧ R p.2 p'.2) ps ps') (t : String) :
    (ps.lookup t = none ∧ ps'.lookup t = none) ∨
      ∃ m m', ps.lookup t = some m ∧ ps'.lookup t = some m' ∧ R m m' := by
  induction h with
  | nil => left; exact ⟨rfl, rfl⟩
  | @cons a b l l' h1 _ ih =>
    obtain ⟨n1, m1⟩ := a
    obtain ⟨n2, m2⟩ := b
    simp only at h1
    obtain ⟨hn, hm⟩ := h1
    subst hn
    simp only [List.lookup_cons]
    cases ht : (t == n2) with
    | true => right; exact ⟨m1, m2, rfl, rfl, hm⟩
    | false => exact ih

theorem all2_names {R : Melody → Melody → Prop} (ps ps' : List (String × Melody))
    (h : All2 (fun (p p' : String × Melody) => p'.1 = p.1 ∧ R p.2 p'.2) ps ps') :
    ps'.map (·.1) = ps.map (·.1) := by
  induction h with
  | nil => rfl
  | cons h1 _ ih => simp only [List.map_cons, h1.1, ih]

theorem all2_partDurs (c c' : Chord) (ps ps' : List (String × Melody))
    (h : All2 (fun (p p' : String × Melody) => p'.1 = p.1 ∧ All2 (NoteSim c c') p.2 p'.2) ps ps') :
    ps'.map (fun p => melodyDuration p.2) = ps.map (fun p => melodyDuration p.2) := by
  induction h with
  | nil => rfl
  | cons h1 _ ih =>
    simp only [List.map_cons, ih]
    unfold melodyDuration
    rw [all2_durs c c' _ _ h1.2]

theorem chordRel_dur (c c' : Chord) (h : ChordRel c c') : c'.dur = c.dur := by
  unfold Chord.dur
  rw [all2_partDurs c c' _ _ h]

theorem trackSim_of_rel (s s' : Score) (h : All2 ChordRel s s') : ∀ t last, trackSim t last s s' := by
  induction h with
  | nil => intro t last; simp [trackSim]
  | @cons c c' cs cs' h1 _ ih =>
    intro t last
    simp only [trackSim]
    refine ⟨chordRel_dur c c' h1, ?_⟩
    rcases all2_lookup _ _ h1 t with ⟨e1, e2⟩ | ⟨m, m', e1, e2, hm⟩
    · rw [e1, e2]; exact ih t none
    · rw [e1, e2]
      exact ⟨melSim_of_all2 c c' m m' hm last, fun _ _ _ l1 _ => ih t l1⟩

theorem trackList_of_rel (s s' : Score) (h : All2 ChordRel s s') : trackList s' = trackList s := by
  unfold trackList
  congr 1
  induction h with
  | nil => rfl
  | cons h1 _ ih => simp only [List.flatMap_cons, ih, all2_names _ _ h1]

/-- **lifting**: a re-notation that relates the chords one by one, part by part and note by
note (each note sounding the same for every last pitch) keeps the whole note matrix -/
theorem getNotes_of_rel (s s' : Score) (h : All2 ChordRel s s') (rows : List Row) (hr : getNotes s = .ok rows) :
    ∃ rows', getNotes s' = .ok rows' ∧ rows'.map Row.core = rows.map Row.core :=
  getNotes_sim s s' (trackList_of_rel s s' h) (fun t => trackSim_of_rel s s' h t none) rows hr

/-! the note-wise conversions `chord.mapNotesM f` -/

theorem mapM_all2 {α : Type} (f : α → Res α) (R : α → α → Prop) (l l' : List α)
    (h : ∀ x ∈ l, ∀ y, f x = .ok y → R x y) (hm : l.mapM f = .ok l') : All2 R l l' := by
  induction l generalizing l' with
  | nil =>
    simp only [List.mapM_nil, pure, Except.pure] at hm
    injection hm with hm; subst hm; exact All2.nil
  | cons a t ih =>
    simp only [List.mapM_cons, bind, Except.bind, pure, Except.pure] at hm
    cases ha : f a with
    | error e => rw [ha] at hm; cases hm
    | ok y =>
      rw [ha] at hm
      simp only at hm
      cases ht : t.mapM f with
      | error e => rw [ht] at hm; cases hm
      | ok t' =>
        rw [ht] at hm
        simp only at hm
        injection hm with hm; subst hm
        exact All2.cons (h a (by simp) y ha) (ih t' (fun x hx => h x (by simp [hx])) ht)

theorem noteSim_withParts (c c' : Chord) (ps ps' : List (String × Melody)) (n n' : Note)
    (h : NoteSim c c' n n') : NoteSim (c.withParts ps) (c'.withParts ps') n n' := by
  intro last
  obtain ⟨h1, h2, h3, h4⟩ := h last
  refine ⟨h1, h2, h3, ?_⟩
  intro p hp
  rw [noteToPitch_congr _ _ (sameHead_withParts c' ps')]
  rw [noteToPitch_congr _ _ (sameHead_withParts c ps)] at hp
  exact h4 p hp

/-- a note-wise conversion whose notes sound the same relates the chord to its image -/
theorem mapNotesM_rel (c c' : Chord) (f : Note → Chord → Res Note)
    (hf : ∀ n n', f n c = .ok n' → NoteSim c c n n') (h : c.mapNotesM f = .ok c') : ChordRel c c' := by
  unfold Chord.mapNotesM at h
  simp only [bind, Except.bind, pure, Except.pure] at h
  split at h
  · cases h
  · rename_i parts hp
    injection h with h; subst h
    unfold ChordRel
    have : All2 (fun (p p' : String × Melody) => p'.1 = p.1 ∧ All2 (NoteSim c c) p.2 p'.2) c.parts parts := by
      apply mapM_all2 _ _ _ _ _ hp
      intro p _ p' hp'
      cases hm : p.2.mapM (fun n => f n c) with
      | error e => rw [hm] at hp'; cases hp'
      | ok m =>
        rw [hm] at hp'
        simp only at hp'
        injection hp' with hp'; subst hp'
        exact ⟨rfl, mapM_all2 _ _ _ _ (fun n _ n' hn => hf n n' hn) hm⟩
    -- move to the chord with its new parts
    have hgen : ∀ (ps ps' : List (String × Melody)),
        All2 (fun (p p' : String × Melody) => p'.1 = p.1 ∧ All2 (NoteSim c c) p.2 p'.2) ps ps' →
        All2 (fun (p p' : String × Melody) => p'.1 = p.1 ∧ All2 (NoteSim c (c.withParts parts)) p.2 p'.2) ps ps' := by
      intro ps ps' hh
      induction hh with
      | nil => exact All2.nil
      | cons h1 _ ih =>
        refine All2.cons ⟨h1.1, ?_⟩ ih
        have : ∀ (m m' : Melody), All2 (NoteSim c c) m m' → All2 (NoteSim c (c.withParts parts)) m m' := by
          intro m m' hmm
          induction hmm with
          | nil => exact All2.nil
          | cons g1 _ ih2 =>
            refine All2.cons ?_ ih2
            intro last
            obtain ⟨a1, a2, a3, a4⟩ := g1 last
            exact ⟨a1, a2, a3, fun p hp => by rw [noteToPitch_congr _ _ (sameHead_withParts c parts)]; exact a4 p hp⟩
        exact this _ _ h1.2
    exact hgen _ _ this

/-! ### to_standard_note, to_chord_note, to_extension_note -/
theorem pyIndex_mem {α : Type} (l : List α) (i : Int) (x : α) (h : pyIndex l i = .ok x) : x ∈ l := by
  unfold pyIndex at h
  simp only at h
  generalize (if i < 0 then i + (l.length : Int) else i) = j at h
  by_cases hj : j < 0 ∨ j ≥ (l.length : Int)
  · simp [hj] at h
  · simp only [hj, if_false] at h
    cases hy : l[j.toNat]? with
    | none => rw [hy] at h; cases h
    | some y => rw [hy] at h; injection h with h; subst h; exact List.mem_of_getElem? hy

/-- shape of `to_standard_note`: duration and the rest / continuation / sounding status are kept -/
theorem toStandardNote_shape (c : Chord) (n n' : Note) (h : n.toStandardNote c = .ok n') :
    n'.dur = n.dur ∧ (n'.kind == .r) = (n.kind == .r) ∧ (n'.kind == .l) = (n.kind == .l) := by
  by_cases hk : n.kind = .c ∨ n.kind = .b ∨ n.kind = .a
  · have hflag : (n.kind == .r) = false ∧ (n.kind == .l) = false := by
      rcases hk with hk | hk | hk <;> rw [hk] <;> exact ⟨rfl, rfl⟩
    have key : n'.dur = n.dur ∧ (n'.kind = .s ∨ n'.kind = .h) := by
      unfold Note.toStandardNote at h
      rcases hk with hk | hk | hk
      · simp only [hk, beq_iff_eq, reduceCtorEq, if_false, bind, Except.bind] at h
        cases hc : c.chordNotes with
        | error e => rw [hc] at h; cases h
        | ok cands =>
          rw [hc] at h
          simp only at h
          by_cases h0 : cands.length = 0
          · simp [h0] at h
          · simp only [h0, if_false] at h
            cases hcand : pyIndex cands (n.val % (cands.length : Int)) with
            | error e => rw [hcand] at h; cases h
            | ok cand =>
              rw [hcand] at h
              simp only [pure, Except.pure] at h
              injection h with h; subst h
              exact ⟨rfl, (toneOK_o cand _ (chordNotes_tones c cands hc cand (pyIndex_mem _ _ _ hcand))).1⟩
      · simp only [hk, beq_self_eq_true, if_true, bind, Except.bind] at h
        cases hc : c.extensionNotes with
        | error e => rw [hc] at h; cases h
        | ok cands =>
          rw [hc] at h
          simp only at h
          by_cases h0 : cands.length = 0
          · simp [h0] at h
          · simp only [h0, if_false] at h
            cases hcand : pyIndex cands (n.val % (cands.length : Int)) with
            | error e => rw [hcand] at h; cases h
            | ok cand =>
              rw [hcand] at h
              simp only [pure, Except.pure] at h
              injection h with h; subst h
              exact ⟨rfl, (toneOK_o cand _ (extensionNotes_tones c cands hc cand (pyIndex_mem _ _ _ hcand))).1⟩
      · simp only [hk, bind, Except.bind] at h
        cases hp : c.toPitch n none with
        | error e => rw [hp] at h; cases h
        | ok v =>
          rw [hp] at h
          cases v with
          | none => cases h
          | some p =>
            simp only at h
            cases hb : c.parse p with
            | error e => rw [hb] at h; cases h
            | ok b =>
              rw [hb] at h
              simp only [pure, Except.pure] at h
              injection h with h; subst h
              refine ⟨rfl, ?_⟩
              unfold Chord.parse at hb
              simp only [bind, Except.bind, pure, Except.pure] at hb
              repeat' split at hb
              all_goals first | (injection hb with hb; subst hb; first | exact Or.inl rfl | exact Or.inr rfl) | cases hb
    rw [hflag.1, hflag.2]
    rcases key.2 with h2 | h2 <;> rw [h2] <;> exact ⟨key.1, rfl, rfl⟩
  · have := toStandardNote_other c n ⟨fun h => hk (Or.inr (Or.inr h)), fun h => hk (Or.inr (Or.inl h)), fun h => hk (Or.inl h)⟩
    rw [this] at h; injection h with h; subst h
    exact ⟨rfl, rfl, rfl⟩

theorem toStandardNote_sim (c : Chord) (he : ElemOK c) (n n' : Note) (h : n.toStandardNote c = .ok n') :
    NoteSim c c n n' := by
  intro last
  obtain ⟨h1, h2, h3⟩ := toStandardNote_shape c n n' h
  exact ⟨h1, h2, h3, fun p hp => (toStandardNote_pitch c n n' last he h p hp).1⟩

theorem toChordNote_sim (c : Chord) (he : ElemOK c) (n n' : Note) (h : n.toChordNote c = .ok n') :
    NoteSim c c n n' := by
  intro last
  obtain ⟨h1, h2, h3, h4, _⟩ := toChordNote_pitch c n n' last he h
  exact ⟨h2, h3, h4, fun p hp => by rw [h1]; exact hp⟩

theorem toExtensionNote_sim (c : Chord) (he : ElemOK c) (n n' : Note) (h : n.toExtensionNote c = .ok n') :
    NoteSim c c n n' := by
  intro last
  obtain ⟨h1, h2, h3, h4, _⟩ := toExtensionNote_pitch c n n' last he h
  exact ⟨h2, h3, h4, fun p hp => by rw [h1]; exact hp⟩

/-- every chord of the score has its degree among the seven `Element`s -/
def ScoreElemOK (s : Score) : Prop := ∀ c ∈ s, ElemOK c

theorem scoreMapM_rel (s s' : Score) (f : Chord → Res Chord) (hf : ∀ c ∈ s, ∀ c', f c = .ok c' → ChordRel c c')
    (h : scoreMapM s f = .ok s') : All2 ChordRel s s' := by
  unfold scoreMapM at h
  exact mapM_all2 f ChordRel s s' hf h

/-! ### octave correction -/
theorem all2_refl {α : Type} (R : α → α → Prop) (h : ∀ a, R a a) (l : List α) : All2 R l l := by
  induction l with
  | nil => exact All2.nil
  | cons a t ih => exact All2.cons (h a) ih

theorem all2_trans {α : Type} (R S T : α → α → Prop) (h : ∀ a b c, R a b → S b c → T a c)
    (l l' l'' : List α) (h1 : All2 R l l') (h2 : All2 S l' l'') : All2 T l l'' := by
  induction h1 generalizing l'' with
  | nil => cases h2; exact All2.nil
  | cons r _ ih =>
    cases h2 with
    | cons s hs => exact All2.cons (h _ _ _ r s) (ih _ hs)

theorem all2_map {α : Type} (R : α → α → Prop) (f : α → α) (h : ∀ a, R a (f a)) (l : List α) : All2 R l (l.map f) := by
  induction l with
  | nil => exact All2.nil
  | cons a t ih => exact All2.cons (h a) ih

theorem noteSim_refl (c : Chord) (n : Note) : NoteSim c c n n := fun _ => ⟨rfl, rfl, rfl, fun _ hp => hp⟩

theorem noteSim_trans (c c' c'' : Chord) (n n' n'' : Note) (h1 : NoteSim c c' n n') (h2 : NoteSim c' c'' n' n'') :
    NoteSim c c'' n n'' := by
  intro last
  obtain ⟨a1, a2, a3, a4⟩ := h1 last
  obtain ⟨b1, b2, b3, b4⟩ := h2 last
  exact ⟨b1.trans a1, b2.trans a2, b3.trans a3, fun p hp => b4 p (a4 p hp)⟩

theorem chordRel_refl (c : Chord) : ChordRel c c :=
  all2_refl _ (fun p => ⟨rfl, all2_refl _ (noteSim_refl c) p.2⟩) _

theorem chordRel_trans (c c' c'' : Chord) (h1 : ChordRel c c') (h2 : ChordRel c' c'') : ChordRel c c'' := by
  unfold ChordRel at *
  refine all2_trans _ _ _ ?_ _ _ _ h1 h2
  intro p p' p'' ⟨a1, a2⟩ ⟨b1, b2⟩
  exact ⟨b1.trans a1, all2_trans (NoteSim c c') (NoteSim c' c'') (NoteSim c c'') (fun x y z => noteSim_trans c c' c'' x y z) _ _ _ a2 b2⟩

theorem shiftNote_sim (c : Chord) (he : ElemOK c) (k : Int) (ps : List (String × Melody)) (n : Note) :
    NoteSim c ((c.o (-k)).withParts ps) n (shiftNote n k) := by
  intro last
  have hk : (shiftNote n k).kind = n.kind := by
    unfold shiftNote; split
    · rfl
    · exact o_kind n k
  have hd : (shiftNote n k).dur = n.dur := by
    unfold shiftNote; split
    · rfl
    · unfold Note.o Note.oabs; split <;> rfl
  refine ⟨hd, by rw [hk], by rw [hk], ?_⟩
  intro p hp
  rw [noteToPitch_congr _ _ (sameHead_withParts (c.o (-k)) ps), noteToPitch_octaveShift c n k last he]
  exact hp

/-- one step of the octave correction relates the chord to the shifted one -/
theorem octaveStep_rel (c : Chord) (he : ElemOK c) (k : Int) :
    ChordRel c ((c.o (-k)).withParts (c.parts.map (fun p => (p.1, oChordRelative p.2 k)))) := by
  unfold ChordRel
  show All2 _ c.parts (c.parts.map (fun p => (p.1, oChordRelative p.2 k)))
  apply all2_map
  intro p
  refine ⟨rfl, ?_⟩
  show All2 _ p.2 (oChordRelative p.2 k)
  unfold oChordRelative
  apply all2_map
  intro n
  exact shiftNote_sim c he k _ n

theorem bassPitch_step (c : Chord) (he : ElemOK c) (k : Int) (ps : List (String × Melody)) :
    ((c.o k).withParts ps).bassPitch = rmap (· + 12 * k) c.bassPitch := by
  unfold Chord.bassPitch
  rw [extensionPitches_congr _ _ (sameHead_withParts (c.o k) ps), extensionPitches_o c k he]
  cases c.extensionPitches with
  | error e => rfl
  | ok sc => simp only [rmap, bind, Except.bind]; exact pyIndex_map _ _ _

/-- **octave correction**: the result is related to the source, keeps its degree, and its
bass lies in (−6, 6] -/
theorem correctOctaveFuel_spec (fuel : Nat) (c c' : Chord) (he : ElemOK c) (h : correctOctaveFuel fuel c = .ok c') :
    ChordRel c c' ∧ ElemOK c' ∧ ∃ b, c'.bassPitch = .ok b ∧ -6 < b ∧ b ≤ 6 := by
  induction fuel generalizing c with
  | zero => simp [correctOctaveFuel] at h
  | succ fuel ih =>
    simp only [correctOctaveFuel, bind, Except.bind] at h
    cases hb : c.bassPitch with
    | error e => rw [hb] at h; cases h
    | ok bass =>
      rw [hb] at h
      simp only at h
      by_cases h1 : bass > 6
      · simp only [h1, if_true] at h
        have he1 : ElemOK ((c.o (-1)).withParts (c.parts.map (fun p => (p.1, oChordRelative p.2 1)))) := he
        obtain ⟨r1, r2, r3⟩ := ih ((c.o (-1)).withParts (c.parts.map (fun p => (p.1, oChordRelative p.2 1)))) he1 h
        have hs := octaveStep_rel c he 1
        exact ⟨chordRel_trans c _ c' hs r1, r2, r3⟩
      · simp only [h1, if_false] at h
        by_cases h2 : bass ≤ -6
        · simp only [h2, if_true] at h
          have he1 : ElemOK ((c.o 1).withParts (c.parts.map (fun p => (p.1, oChordRelative p.2 (-1))))) := he
          obtain ⟨r1, r2, r3⟩ := ih ((c.o 1).withParts (c.parts.map (fun p => (p.1, oChordRelative p.2 (-1))))) he1 h
          have hs := octaveStep_rel c he (-1)
          rw [show -(-1 : Int) = 1 from rfl] at hs
          exact ⟨chordRel_trans c _ c' hs r1, r2, r3⟩
        · simp only [h2, if_false, pure, Except.pure] at h
          injection h with h; subst h
          exact ⟨chordRel_refl c, he, bass, hb, by omega, by omega⟩

/-- calls of `inverse_recursive_correct_octave` needed from a given bass -/
def octaveCalls (b : Int) : Int :=
  if b > 6 then (b - 7) / 12 + 2 else if b ≤ -6 then (-b - 6) / 12 + 2 else 1

theorem correctOctaveFuel_terminates (fuel : Nat) (c : Chord) (b : Int) (he : ElemOK c) (hb : c.bassPitch = .ok b)
    (hf : octaveCalls b ≤ (fuel : Int)) : ∃ c', correctOctaveFuel fuel c = .ok c' := by
  induction fuel generalizing c b with
  | zero => unfold octaveCalls at hf; split at hf <;> (try split at hf) <;> omega
  | succ fuel ih =>
    simp only [correctOctaveFuel, bind, Except.bind, hb]
    by_cases h1 : b > 6
    · simp only [h1, if_true]
      have hb' := bassPitch_step c he (-1) (c.parts.map (fun p => (p.1, oChordRelative p.2 1)))
      rw [hb] at hb'
      refine ih _ (b + 12 * -1) he hb' ?_
      unfold octaveCalls at hf ⊢
      simp only [h1, if_true] at hf
      split <;> (try split) <;> omega
    · simp only [h1, if_false]
      by_cases h2 : b ≤ -6
      · simp only [h2, if_true]
        have hb' := bassPitch_step c he 1 (c.parts.map (fun p => (p.1, oChordRelative p.2 (-1))))
        rw [hb] at hb'
        refine ih _ (b + 12 * 1) he hb' ?_
        unfold octaveCalls at hf ⊢
        simp only [h1, h2, if_true, if_false] at hf
        split <;> (try split) <;> omega
      · simp only [h2, if_false]
        exact ⟨c, rfl⟩

theorem octaveFuel_enough (b : Int) : octaveCalls b ≤ (octaveFuel b : Int) := by
  unfold octaveCalls octaveFuel
  split <;> (try split) <;> omega

/-! ### the dictionary of last pitches -/
theorem lookup_map_key (m : LastMap) (k k' : String) (v : Option Int) :
    List.lookup k' (m.map (fun p => if p.1 == k then (k, v) else p)) =
      if k' = k then (if m.any (·.1 == k) then some v else none) else List.lookup k' m := by
  induction m with
  | nil => simp
  | cons a t ih =>
    obtain ⟨ka, va⟩ := a
    simp only [List.map_cons, List.any_cons]
    by_cases hka : ka = k
    · subst hka
      simp only [beq_self_eq_true, if_true, Bool.true_or, List.lookup_cons]
      by_cases h : k' = ka
      · subst h; simp
      · have h' : (k' == ka) = false := by simpa using h
        simp only [h', h, if_false]
        rw [ih]; simp [h]
    · have hka' : (ka == k) = false := by simpa using hka
      simp only [hka', Bool.false_eq_true, if_false, Bool.false_or, List.lookup_cons]
      by_cases h : k' = ka
      · subst h
        have : ¬ k' = k := hka
        simp [this]
      · have h' : (k' == ka) = false := by simpa using h
        simp only [h']
        exact ih

theorem lookup_append_one (m : LastMap) (k k' : String) (v : Option Int) :
    List.lookup k' (m ++ [(k, v)]) =
      match List.lookup k' m with
      | some x => some x
      | none => if k' = k then some v else none := by
  induction m with
  | nil =>
    simp only [List.nil_append, List.lookup_cons, List.lookup_nil]
    by_cases h : k' = k
    · subst h; simp
    · have h' : (k' == k) = false := by simpa using h
      simp [h', h]
  | cons a t ih =>
    obtain ⟨ka, va⟩ := a
    simp only [List.cons_append, List.lookup_cons]
    cases (k' == ka) with
    | true => rfl
    | false => exact ih

theorem lookup_none_of_not_any (m : LastMap) (k : String) (h : m.any (·.1 == k) = false) : List.lookup k m = none := by
  induction m with
  | nil => rfl
  | cons a t ih =>
    obtain ⟨ka, va⟩ := a
    simp only [List.any_cons, Bool.or_eq_false_iff] at h
    simp only [List.lookup_cons]
    have : (k == ka) = false := by
      have := h.1
      simp only [beq_eq_false_iff_ne, ne_eq] at this ⊢
      exact fun e => this e.symm
    rw [this]; exact ih h.2

theorem lastMap_get_set (m : LastMap) (k k' : String) (v : Option Int) :
    (m.set k v).get k' = if k' = k then v else m.get k' := by
  unfold LastMap.set LastMap.get
  by_cases hany : m.any (·.1 == k) = true
  · simp only [hany, if_true]
    rw [lookup_map_key]
    by_cases h : k' = k
    · simp [h, hany]
    · simp [h]
  · have hany' : m.any (·.1 == k) = false := Bool.eq_false_iff.mpr hany
    simp only [hany', Bool.false_eq_true, if_false]
    rw [lookup_append_one]
    by_cases h : k' = k
    · subst h
      rw [lookup_none_of_not_any m k' hany']
      simp
    · simp only [h, if_false]
      cases List.lookup k' m <;> rfl

/-! ### to_absolute_note along a melody -/
/-- reference bookkeeping of one note: `st` says "the renderer's last pitch and the one threaded
by `to_absolute_note` agree".  A relative note needs that; drum / pattern notes break it (the
renderer takes them as reference, `to_absolute_note` does not); any other sounding note
restores it. -/
def refNote (st : Bool) (n : Note) : Option Bool :=
  if n.kind == .r || n.kind == .l then some st
  else if n.kind == .d || n.kind == .x then some false
  else if n.kind.isRelative then (if st then some true else none)
  else some true

def refMelody : Bool → Melody → Option Bool
  | st, [] => some st
  | st, n :: ns => match refNote st n with
      | none => none
      | some st' => refMelody st' ns

/-- how `Melody.to_absolute_note` threads its last pitch -/
def threadLast (tp last : Option Int) : Option Int :=
  match tp with
  | some p => some p
  | none => last

theorem kind_cases (k : Kind) :
    ((k == .r || k == .l) = true ∧ k.isNote = false) ∨
    ((k == .r || k == .l) = false ∧ (k == .d || k == .x) = true ∧ k.isNote = false) ∨
    ((k == .r || k == .l) = false ∧ (k == .d || k == .x) = false ∧ k.isNote = true) := by
  cases k <;> decide

/-- **to_absolute_note, melody level**: along a well-referenced melody the absolute melody is
similar to the source (threaded), keeps the durations, and both bookkeepings stay in step -/
theorem melodyToAbsolute_sim (c c' : Chord) (hh : SameHead c' c) (m m' : Melody) (lastA lastA' lastR : Option Int)
    (st st' : Bool) (h : melodyToAbsolute c m lastA = .ok (m', lastA')) (hI : st = true → lastR = lastA)
    (href : refMelody st m = some st') :
    MelSim c c' lastR m m' ∧ m'.map (·.dur) = m.map (·.dur) ∧
    (∀ idx time rows l1, melodyToRows m c idx time lastR = .ok (rows, l1) → (st' = true → l1 = lastA')) := by
  induction m generalizing m' lastA lastR st with
  | nil =>
    simp only [melodyToAbsolute, pure, Except.pure] at h
    injection h with h; injection h with h1 h2; subst h1 h2
    simp only [refMelody] at href
    injection href with href; subst href
    refine ⟨by simp [MelSim], rfl, ?_⟩
    intro idx time rows l1 hr
    simp only [melodyToRows, pure, Except.pure] at hr
    injection hr with hr; injection hr with _ h2
    rw [← h2]; exact hI
  | cons n ns ih =>
    simp only [melodyToAbsolute, bind, Except.bind, pure, Except.pure] at h
    cases hn' : n.toAbsoluteNote c lastA with
    | error e => rw [hn'] at h; cases h
    | ok n' =>
      rw [hn'] at h
      simp only at h
      cases ht : c.toPitch n' lastA with
      | error e => rw [ht] at h; cases h
      | ok tp =>
        rw [ht] at h
        simp only at h
        cases hrest : melodyToAbsolute c ns _ with
        | error e => rw [hrest] at h; cases h
        | ok v =>
          obtain ⟨r, l⟩ := v
          rw [hrest] at h
          simp only at h
          injection h with h; injection h with h1 h2; subst h1 h2
          replace hrest : melodyToAbsolute c ns (threadLast tp lastA) = .ok (r, l) := hrest
          simp only [refMelody] at href
          cases hrn : refNote st n with
          | none => rw [hrn] at href; cases href
          | some st1 =>
            rw [hrn] at href
            simp only at href
            -- the note itself
            have key : NoteSimAt c c' (lastR.getD 0) n n' ∧ n'.dur = n.dur ∧
                ∀ p0, noteToPitch c n (lastR.getD 0) = .ok p0 →
                  (st1 = true → (if n.kind == .r || n.kind == .l then lastR else some (p0.getD 0))
                      = threadLast tp lastA) := by
              unfold refNote at hrn
              rcases kind_cases n.kind with ⟨k1, k2⟩ | ⟨k1, k2, k3⟩ | ⟨k1, k2, k3⟩
              · -- rest or continuation
                rw [toAbsoluteNote_rest c n lastA k2] at hn'
                injection hn' with hn'; subst hn'
                simp only [k1, if_true] at hrn
                injection hrn with hrn; subst hrn
                refine ⟨⟨rfl, rfl, rfl, fun p hp => by rw [noteToPitch_congr _ _ hh]; exact hp⟩, rfl, ?_⟩
                intro p0 _ hst
                simp only [k1, if_true]
                have hl : tp = none ∨ (n.kind = .l ∧ tp = lastA) := by
                  unfold Chord.toPitch at ht
                  by_cases hkl : n.kind = .l
                  · simp only [hkl, if_true, pure, Except.pure] at ht
                    injection ht with ht; exact Or.inr ⟨hkl, ht.symm⟩
                  · simp only [hkl, if_false, k2, Bool.not_false, if_true, pure, Except.pure] at ht
                    injection ht with ht; exact Or.inl ht.symm
                rcases hl with hl | ⟨_, hl⟩
                · rw [hl]; exact hI hst
                · rw [hl, hI hst]; cases lastA <;> rfl
              · -- drum or pattern note
                rw [toAbsoluteNote_rest c n lastA k3] at hn'
                injection hn' with hn'; subst hn'
                simp only [k1, k2, Bool.false_eq_true, if_false, if_true] at hrn
                injection hrn with hrn; subst hrn
                exact ⟨⟨rfl, rfl, rfl, fun p hp => by rw [noteToPitch_congr _ _ hh]; exact hp⟩, rfl,
                  fun _ _ hst => absurd hst (by simp)⟩
              · -- a sounding note
                obtain ⟨p, hp, hn'eq⟩ := toAbsoluteNote_spec c n n' lastA k3 hn'
                have hkr : (n.kind == Kind.r) = false ∧ (n.kind == Kind.l) = false := by
                  simpa [Bool.or_eq_false_iff] using k1
                have hn'k : n'.kind = .a := by rw [hn'eq]
                have hn'd : n'.dur = n.dur := by rw [hn'eq]
                have hflags : (n'.kind == .r) = (n.kind == .r) ∧ (n'.kind == .l) = (n.kind == .l) := by
                  rw [hn'k, hkr.1, hkr.2]; exact ⟨rfl, rfl⟩
                -- what the code threads on
                have htp : tp = some p := by
                  have hna : n'.kind.isNote = true := by rw [hn'k]; rfl
                  rw [toPitch_isNote c n' lastA hna] at ht
                  have : n'.kind.isRelative = false := by rw [hn'k]; rfl
                  simp only [this, Bool.false_eq_true, if_false] at ht
                  rw [hn'eq, absolute_of_pitch c n p 0] at ht
                  injection ht with ht; exact ht.symm
                -- the pitch the renderer computes for the source note
                have hsrc : noteToPitch c n (lastR.getD 0) = .ok (some p) := by
                  rw [toPitch_isNote c n lastA k3] at hp
                  cases hrel : n.kind.isRelative with
                  | false =>
                    rw [hrel] at hp
                    simp only [Bool.false_eq_true, if_false] at hp
                    rw [noteToPitch_last_irrelevant c n _ 0 hrel]; exact hp
                  | true =>
                    rw [hrel] at hp
                    simp only [if_true] at hp
                    simp only [k1, k2, Bool.false_eq_true, if_false, hrel, if_true] at hrn
                    cases hst : st with
                    | false => rw [hst] at hrn; simp at hrn
                    | true =>
                      rw [hI hst]
                      cases lastA with
                      | none => simp at hp
                      | some lp => simpa using hp
                refine ⟨⟨hn'd, hflags.1, hflags.2, ?_⟩, hn'd, ?_⟩
                · intro p0 hp0
                  rw [hsrc] at hp0; injection hp0 with hp0; subst hp0
                  rw [noteToPitch_congr _ _ hh, hn'eq]
                  exact absolute_of_pitch c n p _
                · intro p0 hp0 _
                  rw [hsrc] at hp0; injection hp0 with hp0; subst hp0
                  simp only [k1, Bool.false_eq_true, if_false, htp, Option.getD_some, threadLast]
            obtain ⟨hsim, hdur, hnext⟩ := key
            refine ⟨?_, by simp only [List.map_cons, hdur]; congr 1; exact (ih r _ _ st1 hrest (fun _ => rfl) href |>.2.1), ?_⟩
            · simp only [MelSim]
              refine ⟨hsim, ?_⟩
              intro p0 hp0
              exact (ih r _ _ st1 hrest (hnext p0 hp0) href).1
            · intro idx time rows l1 hr
              simp only [melodyToRows, bind, Except.bind, pure, Except.pure] at hr
              cases hrow : noteToRow n c idx time lastR with
              | error e => rw [hrow] at hr; cases hr
              | ok w =>
                obtain ⟨row, l2⟩ := w
                rw [hrow] at hr
                simp only at hr
                cases hrs : melodyToRows ns c idx (time + n.dur) l2 with
                | error e => rw [hrs] at hr; cases hr
                | ok w2 =>
                  obtain ⟨rs, l3⟩ := w2
                  rw [hrs] at hr
                  simp only at hr
                  injection hr with hr; injection hr with _ h2; subst h2
                  obtain ⟨p0, hp0, hl2⟩ := noteToRow_last c n idx time lastR row l2 hrow
                  have := (ih r _ l2 st1 hrest (by rw [hl2]; exact hnext p0 hp0) href).2.2
                  exact this idx (time + n.dur) rs l3 hrs

/-! ### to_absolute_note on a chord -/
/-- what `Chord.to_absolute_note` does to the part named `t` and to its dictionary entry
(part names of a chord are distinct: they are dictionary keys) -/
theorem chordPartsToAbsolute_lookup (c : Chord) (ps ps' : List (String × Melody)) (lm lm' : LastMap)
    (h : chordPartsToAbsolute c ps lm = .ok (ps', lm')) (hnd : (ps.map (·.1)).Nodup) (t : String) :
    ps'.map (·.1) = ps.map (·.1) ∧
    ((ps.lookup t = none ∧ ps'.lookup t = none ∧ lm'.get t = lm.get t) ∨
     (∃ m m' l, ps.lookup t = some m ∧ ps'.lookup t = some m' ∧
        melodyToAbsolute c m (lm.get t) = .ok (m', l) ∧ lm'.get t = l)) := by
  induction ps generalizing ps' lm with
  | nil =>
    simp only [chordPartsToAbsolute, pure, Except.pure] at h
    injection h with h; injection h with h1 h2; subst h1 h2
    exact ⟨rfl, Or.inl ⟨rfl, rfl, rfl⟩⟩
  | cons a rest ih =>
    obtain ⟨name, m⟩ := a
    simp only [chordPartsToAbsolute, bind, Except.bind, pure, Except.pure] at h
    cases hm : melodyToAbsolute c m (lm.get name) with
    | error e => rw [hm] at h; cases h
    | ok v =>
      obtain ⟨m', l⟩ := v
      rw [hm] at h
      simp only at h
      cases hr : chordPartsToAbsolute c rest (lm.set name l) with
      | error e => rw [hr] at h; cases h
      | ok w =>
        obtain ⟨rest', lm2⟩ := w
        rw [hr] at h
        simp only at h
        injection h with h; injection h with h1 h2; subst h1 h2
        simp only [List.map_cons, List.nodup_cons] at hnd
        obtain ⟨hnotin, hnd'⟩ := hnd
        obtain ⟨hnames, hcase⟩ := ih rest' (lm.set name l) hr hnd'
        refine ⟨by simp only [List.map_cons, hnames], ?_⟩
        simp only [List.lookup_cons]
        by_cases ht : t = name
        · subst ht
          simp only [beq_self_eq_true]
          right
          refine ⟨m, m', l, rfl, rfl, hm, ?_⟩
          -- `t` does not occur in the rest: its entry is the one just written
          rcases hcase with ⟨_, _, e3⟩ | ⟨m2, _, _, e1, _⟩
          · rw [e3, lastMap_get_set]; simp
          · exfalso
            apply hnotin
            have : (t, m2) ∈ rest := by
              have := List.lookup_eq_some_iff.mp e1
              obtain ⟨l1, l2, rfl, _⟩ := this
              simp
            exact List.mem_map.mpr ⟨(t, m2), this, rfl⟩
        · have ht' : (t == name) = false := by simpa using ht
          simp only [ht']
          rcases hcase with ⟨e1, e2, e3⟩ | ⟨m2, m2', l2, e1, e2, e3, e4⟩
          · left; refine ⟨e1, e2, ?_⟩
            rw [e3, lastMap_get_set]; simp [ht]
          · right
            refine ⟨m2, m2', l2, e1, e2, ?_, e4⟩
            rw [lastMap_get_set] at e3; simpa [ht] using e3

theorem chordPartsToAbsolute_durs (c : Chord) (ps ps' : List (String × Melody)) (lm lm' : LastMap)
    (h : chordPartsToAbsolute c ps lm = .ok (ps', lm'))
    (hd : ∀ m m' a b, melodyToAbsolute c m a = .ok (m', b) → m'.map (·.dur) = m.map (·.dur)) :
    ps'.map (fun p => melodyDuration p.2) = ps.map (fun p => melodyDuration p.2) := by
  induction ps generalizing ps' lm with
  | nil =>
    simp only [chordPartsToAbsolute, pure, Except.pure] at h
    injection h with h; injection h with h1 h2; subst h1; rfl
  | cons a rest ih =>
    obtain ⟨name, m⟩ := a
    simp only [chordPartsToAbsolute, bind, Except.bind, pure, Except.pure] at h
    cases hm : melodyToAbsolute c m (lm.get name) with
    | error e => rw [hm] at h; cases h
    | ok v =>
      obtain ⟨m', l⟩ := v
      rw [hm] at h
      simp only at h
      cases hr : chordPartsToAbsolute c rest (lm.set name l) with
      | error e => rw [hr] at h; cases h
      | ok w =>
        obtain ⟨rest', lm2⟩ := w
        rw [hr] at h
        simp only at h
        injection h with h; injection h with h1 h2; subst h1; subst h2
        simp only [List.map_cons, ih rest' _ hr]
        unfold melodyDuration
        rw [hd m m' _ _ hm]

/-- durations are kept by `Melody.to_absolute_note` whatever the references are -/
theorem melodyToAbsolute_durs (c : Chord) (m m' : Melody) (a b : Option Int)
    (h : melodyToAbsolute c m a = .ok (m', b)) : m'.map (·.dur) = m.map (·.dur) := by
  induction m generalizing m' a with
  | nil =>
    simp only [melodyToAbsolute, pure, Except.pure] at h
    injection h with h; injection h with h1 _; subst h1; rfl
  | cons n ns ih =>
    simp only [melodyToAbsolute, bind, Except.bind, pure, Except.pure] at h
    cases hn' : n.toAbsoluteNote c a with
    | error e => rw [hn'] at h; cases h
    | ok n' =>
      rw [hn'] at h
      simp only at h
      cases ht : c.toPitch n' a with
      | error e => rw [ht] at h; cases h
      | ok tp =>
        rw [ht] at h
        simp only at h
        cases hrest : melodyToAbsolute c ns _ with
        | error e => rw [hrest] at h; cases h
        | ok v =>
          obtain ⟨r, l⟩ := v
          rw [hrest] at h
          simp only at h
          injection h with h; injection h with h1 h2; subst h1; subst h2
          have hd : n'.dur = n.dur := by
            by_cases hk : n.kind.isNote = true
            · obtain ⟨p, _, e⟩ := toAbsoluteNote_spec c n n' a hk hn'
              rw [e]
            · have hk' : n.kind.isNote = false := by simpa using hk
              rw [toAbsoluteNote_rest c n a hk'] at hn'
              injection hn' with hn'; rw [← hn']
          simp only [List.map_cons, hd, ih r _ hrest]

/-! ### to_absolute_note along a track -/
/-- well-referencedness of track `t`: every relative note is reached with both bookkeepings
in step; a chord from which the part is absent resets the renderer but not the dictionary -/
def refTrack (t : String) : Bool → Score → Bool
  | _, [] => true
  | st, c :: cs =>
      match c.parts.lookup t with
      | none => refTrack t false cs
      | some m =>
          match refMelody st m with
          | none => false
          | some st' => refTrack t st' cs

/-- every relative note of the score has a reference (see `refNote`) -/
def WellReferenced (s : Score) : Prop := ∀ t, refTrack t false s = true

/-- part names are dictionary keys -/
def DistinctParts (s : Score) : Prop := ∀ c ∈ s, (c.parts.map (·.1)).Nodup

theorem scoreToAbsolute_trackSim (t : String) (s s' : Score) (lm : LastMap) (lastR : Option Int) (st : Bool)
    (h : scoreToAbsolute s lm = .ok s') (hI : st = true → lastR = lm.get t) (href : refTrack t st s = true)
    (hnd : DistinctParts s) : trackSim t lastR s s' ∧ s'.flatMap (fun c => c.parts.map (·.1)) = s.flatMap (fun c => c.parts.map (·.1)) := by
  induction s generalizing s' lm lastR st with
  | nil =>
    simp only [scoreToAbsolute, pure, Except.pure] at h
    injection h with h; subst h
    exact ⟨by simp [trackSim], rfl⟩
  | cons c cs ih =>
    simp only [scoreToAbsolute, Chord.toAbsoluteNote, bind, Except.bind, pure, Except.pure] at h
    cases hp : chordPartsToAbsolute c c.parts lm with
    | error e => rw [hp] at h; cases h
    | ok v =>
      obtain ⟨parts', lm'⟩ := v
      rw [hp] at h
      simp only at h
      cases hr : scoreToAbsolute cs lm' with
      | error e => rw [hr] at h; cases h
      | ok rest =>
        rw [hr] at h
        simp only at h
        injection h with h; subst h
        have hndc : (c.parts.map (·.1)).Nodup := hnd c (by simp)
        have hnd' : DistinctParts cs := fun x hx => hnd x (by simp [hx])
        obtain ⟨hnames, hcase⟩ := chordPartsToAbsolute_lookup c c.parts parts' lm lm' hp hndc t
        have hdur : (c.withParts parts').dur = c.dur := by
          unfold Chord.dur
          simp only [Chord.withParts]
          rw [chordPartsToAbsolute_durs c c.parts parts' lm lm' hp (fun m m' a b hm => melodyToAbsolute_durs c m m' a b hm)]
        simp only [refTrack] at href
        refine ⟨?_, ?_⟩
        · simp only [trackSim]
          refine ⟨hdur, ?_⟩
          show (match c.parts.lookup t, parts'.lookup t with
            | some m, some m' => MelSim c (c.withParts parts') lastR m m' ∧
                ∀ idx time rows l1, melodyToRows m c idx time lastR = .ok (rows, l1) → trackSim t l1 cs rest
            | none, none => trackSim t none cs rest
            | _, _ => False)
          rcases hcase with ⟨e1, e2, e3⟩ | ⟨m, m', l, e1, e2, e3, e4⟩
          · rw [e1, e2]
            rw [e1] at href
            exact (ih rest lm' none false hr (fun hf => absurd hf (by simp)) href hnd').1
          · rw [e1, e2]
            rw [e1] at href
            simp only at href
            cases hrm : refMelody st m with
            | none => rw [hrm] at href; cases href
            | some st1 =>
              rw [hrm] at href
              simp only at href
              obtain ⟨hsim, _, hnext⟩ := melodyToAbsolute_sim c (c.withParts parts') (sameHead_withParts c parts')
                m m' (lm.get t) l lastR st st1 e3 hI hrm
              refine ⟨hsim, ?_⟩
              intro idx time rows l1 hrows
              exact (ih rest lm' l1 st1 hr (fun hst => by rw [e4]; exact hnext idx time rows l1 hrows hst) href hnd').1
        · simp only [List.flatMap_cons]
          have hrestnames : rest.flatMap (fun c => c.parts.map (·.1)) = cs.flatMap (fun c => c.parts.map (·.1)) := by
            -- names do not depend on the bookkeeping: run the induction with the trivial state
            have : ∀ (s s' : Score) (lm : LastMap), scoreToAbsolute s lm = .ok s' →
                s'.flatMap (fun c => c.parts.map (·.1)) = s.flatMap (fun c => c.parts.map (·.1)) := by
              intro s
              induction s with
              | nil =>
                intro s' lm h
                simp only [scoreToAbsolute, pure, Except.pure] at h
                injection h with h; subst h; rfl
              | cons d ds ihd =>
                intro s' lm h
                simp only [scoreToAbsolute, Chord.toAbsoluteNote, bind, Except.bind, pure, Except.pure] at h
                cases hp2 : chordPartsToAbsolute d d.parts lm with
                | error e => rw [hp2] at h; cases h
                | ok v2 =>
                  obtain ⟨pp, lm2⟩ := v2
                  rw [hp2] at h
                  simp only at h
                  cases hr2 : scoreToAbsolute ds lm2 with
                  | error e => rw [hr2] at h; cases h
                  | ok rest2 =>
                    rw [hr2] at h
                    simp only at h
                    injection h with h; subst h
                    simp only [List.flatMap_cons, ihd rest2 lm2 hr2]
                    congr 1
                    -- names of the parts of one chord
                    have : ∀ (ps ps' : List (String × Melody)) (a b : LastMap),
                        chordPartsToAbsolute d ps a = .ok (ps', b) → ps'.map (·.1) = ps.map (·.1) := by
                      intro ps
                      induction ps with
                      | nil =>
                        intro ps' a b h
                        simp only [chordPartsToAbsolute, pure, Except.pure] at h
                        injection h with h; injection h with h1 _; subst h1; rfl
                      | cons q qs ihq =>
                        intro ps' a b h
                        obtain ⟨qn, qm⟩ := q
                        simp only [chordPartsToAbsolute, bind, Except.bind, pure, Except.pure] at h
                        cases hm : melodyToAbsolute d qm (a.get qn) with
                        | error e => rw [hm] at h; cases h
                        | ok v3 =>
                          obtain ⟨qm', ql⟩ := v3
                          rw [hm] at h
                          simp only at h
                          cases hq : chordPartsToAbsolute d qs (a.set qn ql) with
                          | error e => rw [hq] at h; cases h
                          | ok v4 =>
                            obtain ⟨qs', b2⟩ := v4
                            rw [hq] at h
                            simp only at h
                            injection h with h; injection h with h1 _; subst h1
                            simp only [List.map_cons, ihq qs' _ _ hq]
                    exact this d.parts pp lm lm2 hp2
            exact this cs rest lm' hr
          rw [hrestnames]
          congr 1

/-! ### same rendering: the score-level statements -/
/-- same tracks and, whenever the source renders, the same note matrix in all played fields -/
def SameRendering (s s' : Score) : Prop :=
  trackList s' = trackList s ∧
  ∀ rows, getNotes s = .ok rows → ∃ rows', getNotes s' = .ok rows' ∧ rows'.map Row.core = rows.map Row.core

theorem sameRendering_refl (s : Score) : SameRendering s s := ⟨rfl, fun rows h => ⟨rows, h, rfl⟩⟩

theorem sameRendering_trans (s s' s'' : Score) (h1 : SameRendering s s') (h2 : SameRendering s' s'') :
    SameRendering s s'' := by
  refine ⟨h2.1.trans h1.1, ?_⟩
  intro rows hr
  obtain ⟨rows', hr', hc'⟩ := h1.2 rows hr
  obtain ⟨rows'', hr'', hc''⟩ := h2.2 rows' hr'
  exact ⟨rows'', hr'', hc''.trans hc'⟩

/-- the same note matrix means the same notes are played -/
theorem plays_of_sameRendering (s s' : Score) (h : SameRendering s s') (snd : List (List (Int × Rat × Rat)))
    (hp : plays s = .ok snd) : plays s' = .ok snd := by
  unfold plays at hp ⊢
  simp only [bind, Except.bind, pure, Except.pure] at hp ⊢
  cases hr : getNotes s with
  | error e => rw [hr] at hp; cases hp
  | ok rows =>
    rw [hr] at hp
    obtain ⟨rows', hr', hc⟩ := h.2 rows hr
    rw [hr']
    simp only at hp ⊢
    rw [hc, h.1]
    exact hp

theorem sameRendering_of_rel (s s' : Score) (h : All2 ChordRel s s') : SameRendering s s' :=
  ⟨trackList_of_rel s s' h, fun rows hr => getNotes_of_rel s s' h rows hr⟩

/-! the four note-wise re-notations and the octave correction -/

theorem toStandardNote_sameRendering (s s' : Score) (he : ScoreElemOK s) (h : Score.toStandardNote s = .ok s') :
    SameRendering s s' :=
  sameRendering_of_rel s s' (scoreMapM_rel s s' _ (fun c hc c' hcc =>
    mapNotesM_rel c c' _ (fun n n' hn => toStandardNote_sim c (he c hc) n n' hn) hcc) h)

theorem toChordNote_sameRendering (s s' : Score) (he : ScoreElemOK s) (h : Score.toChordNote s = .ok s') :
    SameRendering s s' :=
  sameRendering_of_rel s s' (scoreMapM_rel s s' _ (fun c hc c' hcc =>
    mapNotesM_rel c c' _ (fun n n' hn => toChordNote_sim c (he c hc) n n' hn) hcc) h)

theorem toExtensionNote_sameRendering (s s' : Score) (he : ScoreElemOK s) (h : Score.toExtensionNote s = .ok s') :
    SameRendering s s' :=
  sameRendering_of_rel s s' (scoreMapM_rel s s' _ (fun c hc c' hcc =>
    mapNotesM_rel c c' _ (fun n n' hn => toExtensionNote_sim c (he c hc) n n' hn) hcc) h)

theorem correctOctave_spec (c c' : Chord) (he : ElemOK c) (h : c.correctOctave = .ok c') :
    ChordRel c c' ∧ ElemOK c' ∧ ∃ b, c'.bassPitch = .ok b ∧ -6 < b ∧ b ≤ 6 := by
  unfold Chord.correctOctave at h
  simp only [bind, Except.bind] at h
  cases hb : c.bassPitch with
  | error e => rw [hb] at h; cases h
  | ok b => rw [hb] at h; exact correctOctaveFuel_spec _ c c' he h

theorem correctOctave_terminates (c : Chord) (b : Int) (he : ElemOK c) (hb : c.bassPitch = .ok b) :
    ∃ c', c.correctOctave = .ok c' := by
  unfold Chord.correctOctave
  simp only [bind, Except.bind, hb]
  exact correctOctaveFuel_terminates _ c b he hb (octaveFuel_enough b)

theorem correctChordOctave_sameRendering (s s' : Score) (he : ScoreElemOK s) (h : Score.correctChordOctave s = .ok s') :
    SameRendering s s' :=
  sameRendering_of_rel s s' (scoreMapM_rel s s' _ (fun c hc c' hcc => (correctOctave_spec c c' (he c hc) hcc).1) h)

theorem mapM_mem {α β : Type} (f : α → Res β) (l : List α) (l' : List β) (h : l.mapM f = .ok l') :
    ∀ y ∈ l', ∃ x ∈ l, f x = .ok y := by
  induction l generalizing l' with
  | nil =>
    simp only [List.mapM_nil, pure, Except.pure] at h
    injection h with h; subst h; intro y hy; cases hy
  | cons a t ih =>
    simp only [List.mapM_cons, bind, Except.bind, pure, Except.pure] at h
    cases ha : f a with
    | error e => rw [ha] at h; cases h
    | ok b =>
      rw [ha] at h
      simp only at h
      cases ht : t.mapM f with
      | error e => rw [ht] at h; cases h
      | ok t' =>
        rw [ht] at h
        simp only at h
        injection h with h; subst h
        intro y hy
        rcases List.mem_cons.mp hy with rfl | hy
        · exact ⟨a, by simp, ha⟩
        · obtain ⟨x, hx, hfx⟩ := ih t' ht y hy
          exact ⟨x, by simp [hx], hfx⟩

theorem correctChordOctave_range (s s' : Score) (he : ScoreElemOK s) (h : Score.correctChordOctave s = .ok s') :
    ∀ c' ∈ s', ∃ b, c'.bassPitch = .ok b ∧ -6 < b ∧ b ≤ 6 := by
  intro c' hc'
  unfold Score.correctChordOctave scoreMapM at h
  obtain ⟨c, hc, hcc⟩ := mapM_mem _ s s' h c' hc'
  exact (correctOctave_spec c c' (he c hc) hcc).2.2

/-! to_absolute_note and to_scale_note -/

theorem toAbsoluteNote_sameRendering (s s' : Score) (hw : WellReferenced s) (hd : DistinctParts s)
    (h : Score.toAbsoluteNote s = .ok s') : SameRendering s s' := by
  unfold Score.toAbsoluteNote at h
  have hall := fun t => scoreToAbsolute_trackSim t s s' [] none false h (fun hf => absurd hf (by simp)) (hw t) hd
  have hT : trackList s' = trackList s := by
    unfold trackList; rw [(hall "").2]
  exact ⟨hT, fun rows hr => getNotes_sim s s' hT (fun t => (hall t).1) rows hr⟩

theorem scoreToAbsolute_elems (s s' : Score) (lm : LastMap) (h : scoreToAbsolute s lm = .ok s') (he : ScoreElemOK s) :
    ScoreElemOK s' := by
  induction s generalizing s' lm with
  | nil =>
    simp only [scoreToAbsolute, pure, Except.pure] at h
    injection h with h; subst h; intro c hc; cases hc
  | cons c cs ih =>
    simp only [scoreToAbsolute, Chord.toAbsoluteNote, bind, Except.bind, pure, Except.pure] at h
    cases hp : chordPartsToAbsolute c c.parts lm with
    | error e => rw [hp] at h; cases h
    | ok v =>
      obtain ⟨parts', lm'⟩ := v
      rw [hp] at h
      simp only at h
      cases hr : scoreToAbsolute cs lm' with
      | error e => rw [hr] at h; cases h
      | ok rest =>
        rw [hr] at h
        simp only at h
        injection h with h; subst h
        intro x hx
        rcases List.mem_cons.mp hx with rfl | hx
        · exact he c (by simp)
        · exact ih rest lm' hr (fun y hy => he y (by simp [hy])) x hx

theorem toScaleNote_sim (c : Chord) (he : ElemOK c) (n n' : Note) (h : n.toScaleNote c = .ok n') :
    NoteSim c c n n' := by
  intro last
  by_cases hk : n.kind.isNote = true
  · obtain ⟨_, h2, h3, h4⟩ := toScaleNote_pitch c n n' last he hk h
    obtain ⟨k1, k2⟩ := isNote_not_l n hk
    have f1 : (n.kind == .r) = false := by simpa using k2
    have f2 : (n.kind == .l) = false := by simpa using k1
    refine ⟨h3, ?_, ?_, fun p hp => by rw [h2]; exact hp⟩
    · rw [f1]; rcases h4 with h4 | h4 <;> rw [h4] <;> rfl
    · rw [f2]; rcases h4 with h4 | h4 <;> rw [h4] <;> rfl
  · have hk' : n.kind.isNote = false := by simpa using hk
    unfold Note.toScaleNote at h
    simp only [hk', Bool.not_false, if_true, pure, Except.pure] at h
    injection h with h; subst h
    exact noteSim_refl c n last

theorem toScaleNote_sameRendering (s s' : Score) (he : ScoreElemOK s) (hw : WellReferenced s) (hd : DistinctParts s)
    (h : Score.toScaleNote s = .ok s') : SameRendering s s' := by
  unfold Score.toScaleNote at h
  simp only [bind, Except.bind] at h
  cases ha : Score.toAbsoluteNote s with
  | error e => rw [ha] at h; cases h
  | ok a =>
    rw [ha] at h
    simp only at h
    have h1 := toAbsoluteNote_sameRendering s a hw hd ha
    have hea : ScoreElemOK a := scoreToAbsolute_elems s a [] ha he
    have h2 : SameRendering a s' :=
      sameRendering_of_rel a s' (scoreMapM_rel a s' _ (fun c hc c' hcc =>
        mapNotesM_rel c c' _ (fun n n' hn => toScaleNote_sim c (hea c hc) n n' hn) hcc) h)
    exact sameRendering_trans s a s' h1 h2

/-! ### decidable well-referencedness; decompose_duration -/
/-! well-referencedness only concerns the tracks of the score -/

theorem lookup_none_of_not_mem (ps : List (String × Melody)) (t : String) (h : t ∉ ps.map (·.1)) :
    ps.lookup t = none := by
  induction ps with
  | nil => rfl
  | cons a r ih =>
    obtain ⟨k, m⟩ := a
    simp only [List.map_cons, List.mem_cons, not_or] at h
    simp only [List.lookup_cons]
    have : (t == k) = false := by simpa using h.1
    rw [this]; exact ih h.2

theorem refTrack_absent (t : String) (s : Score) (st : Bool)
    (h : t ∉ s.flatMap (fun c => c.parts.map (·.1))) : refTrack t st s = true := by
  induction s generalizing st with
  | nil => rfl
  | cons c cs ih =>
    simp only [List.flatMap_cons, List.mem_append, not_or] at h
    simp only [refTrack, lookup_none_of_not_mem c.parts t h.1]
    exact ih false h.2

theorem mem_trackList_aux (l : List String) (acc : List String) (x : String) :
    x ∈ l.foldl (fun acc p => if acc.contains p then acc else acc ++ [p]) acc ↔ x ∈ acc ∨ x ∈ l := by
  induction l generalizing acc with
  | nil => simp
  | cons a r ih =>
    simp only [List.foldl_cons, ih, List.mem_cons]
    by_cases hc : acc.contains a = true
    · simp only [hc, if_true]
      have : a ∈ acc := List.contains_iff_mem.mp hc
      constructor
      · rintro (h | h)
        · exact Or.inl h
        · exact Or.inr (Or.inr h)
      · rintro (h | h | h)
        · exact Or.inl h
        · subst h; exact Or.inl this
        · exact Or.inr h
    · simp only [hc, Bool.false_eq_true, if_false, List.mem_append, List.mem_singleton]
      constructor
      · rintro ((h | h) | h)
        · exact Or.inl h
        · exact Or.inr (Or.inl h)
        · exact Or.inr (Or.inr h)
      · rintro (h | h | h)
        · exact Or.inl (Or.inl h)
        · exact Or.inl (Or.inr h)
        · exact Or.inr h

theorem mem_trackList (s : Score) (x : String) : x ∈ trackList s ↔ x ∈ s.flatMap (fun c => c.parts.map (·.1)) := by
  unfold trackList
  rw [mem_trackList_aux]; simp

/-- decidable form of `WellReferenced`: only the tracks of the score matter -/
def wellReferencedB (s : Score) : Bool := (trackList s).all (fun t => refTrack t false s)

theorem wellReferenced_of_B (s : Score) (h : wellReferencedB s = true) : WellReferenced s := by
  intro t
  by_cases ht : t ∈ trackList s
  · unfold wellReferencedB at h
    exact List.all_eq_true.mp h t ht
  · exact refTrack_absent t s false (fun hm => ht ((mem_trackList s t).mpr hm))

/-! decompose_duration: the note keeps its identity, the rest are continuations, nothing is lost -/

theorem sumRat_cons (a : Rat) (l : List Rat) : sumRat (a :: l) = a + sumRat l := by
  unfold sumRat
  simp only [List.foldl_cons]
  have : ∀ (l : List Rat) (x y : Rat), List.foldl (· + ·) (x + y) l = x + List.foldl (· + ·) y l := by
    intro l
    induction l with
    | nil => intro x y; rfl
    | cons b r ih => intro x y; simp only [List.foldl_cons]; rw [← ih]; congr 1; grind
  have h0 : (0 : Rat) + a = a + 0 := by grind
  rw [h0, this]

theorem sumRat_append (l1 l2 : List Rat) : sumRat (l1 ++ l2) = sumRat l1 + sumRat l2 := by
  induction l1 with
  | nil => simp only [List.nil_append]; unfold sumRat; simp only [List.foldl_nil]; grind
  | cons a r ih => simp only [List.cons_append, sumRat_cons, ih]; grind

theorem sumRat_reverse (l : List Rat) : sumRat l.reverse = sumRat l := by
  induction l with
  | nil => rfl
  | cons a r ih =>
    simp only [List.reverse_cons, sumRat_append, ih, sumRat_cons]
    unfold sumRat; simp only [List.foldl_nil]; grind

theorem decomposeDurs_sum (fuel : Nat) (d : Rat) (ds : List Rat) (h : decomposeDurs fuel d = .ok ds) :
    sumRat ds = d ∧ ds ≠ [] := by
  induction fuel generalizing d ds with
  | zero => simp [decomposeDurs] at h
  | succ fuel ih =>
    simp only [decomposeDurs] at h
    split at h
    · simp only [pure, Except.pure] at h
      injection h with h; subst h
      refine ⟨?_, by simp⟩
      rw [sumRat_cons]; unfold sumRat; simp only [List.foldl_nil]; grind
    · split at h
      · simp only [pure, Except.pure] at h
        injection h with h; subst h
        refine ⟨?_, by simp⟩
        rw [sumRat_cons]; unfold sumRat; simp only [List.foldl_nil]; grind
      · rename_i ch _
        simp only [bind, Except.bind, pure, Except.pure] at h
        cases hr : decomposeDurs fuel (d - ch) with
        | error e => rw [hr] at h; cases h
        | ok rest =>
          rw [hr] at h
          simp only at h
          injection h with h; subst h
          refine ⟨?_, by simp⟩
          rw [sumRat_cons, (ih _ _ hr).1]; grind

/-- **decompose_duration, note level**: the result is the note itself with a shorter duration
followed by continuations only, and the durations add up to the note's duration -/
theorem decomposeDuration_spec (n : Note) (m : Melody) (h : n.decomposeDuration = .ok m) :
    ∃ d0 rest, m = { n with dur := d0 } :: rest.map continuation ∧ d0 + sumRat rest = n.dur := by
  unfold Note.decomposeDuration at h
  simp only [bind, Except.bind, pure, Except.pure] at h
  cases hd : decomposeDurs (decomposeFuel n.dur) n.dur with
  | error e => rw [hd] at h; cases h
  | ok ds =>
    rw [hd] at h
    simp only at h
    obtain ⟨hsum, hne⟩ := decomposeDurs_sum _ _ _ hd
    have hrev := sumRat_reverse ds
    cases hr : ds.reverse with
    | nil => exact absurd (List.reverse_eq_nil_iff.mp hr) hne
    | cons d0 rest =>
      rw [hr] at h hrev
      rw [sumRat_cons] at hrev
      cases rest with
      | nil =>
        simp only at h
        injection h with h; subst h
        refine ⟨n.dur, [], rfl, ?_⟩
        unfold sumRat; simp only [List.foldl_nil]; grind
      | cons d1 r2 =>
        simp only at h
        injection h with h; subst h
        exact ⟨d0, d1 :: r2, rfl, by rw [hrev, hsum]⟩

end MV
