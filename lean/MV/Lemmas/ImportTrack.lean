/-
C14 importer lemmas 12/15 — the track invariant `TrackOK` across a bar (present / absent part), fineness of `barMelody`, chord duration.
-/
import MV.Lemmas.ImportBarDicts
namespace MV
open Gen

/-! ### the track of one part, bar by bar -/

/-- invariant of the reading of part `I` at the bar line `T`: the events so far are the notes begun
before `T`, cut at `T`; if a tie is pending the latest note is still open -/
structure TrackOK (I : List Item) (T : Rat) (tst : TrackSt) : Prop where
  evs : tst.evs = ((before T I).map (evOf T)).reverse
  tie : ∀ d, pendingAt T I = some d → tst.isOpen = true ∧ tst.last ≠ none

theorem lastPitch_some : ∀ (ns : List Item) (l : Option Int), ns ≠ [] → lastPitch ns l ≠ none := by
  intro ns
  induction ns with
  | nil => intro l h; exact absurd rfl h
  | cons n r ih =>
      intro l _
      cases r with
      | nil => simp [lastPitch]
      | cons m r' => exact ih (some (n.pitch - 60)) (by simp)

theorem trackOK_absent {Tset : List Rat} {I : List Item} (hv : VoiceOK Tset I) (T T' : Rat) (hTT : T < T')
    (tst : TrackSt) (h : TrackOK I T tst) (hnil : inBar T T' I = []) (hp : pendingAt T I = none)
    (b : Bool) (l : Option Int) : TrackOK I T' ⟨tst.evs, b, l⟩ := by
  constructor
  · have := events_step hv T T' (by grind)
    rw [hnil, hp] at this
    simp only [List.map_nil, List.reverse_nil, List.nil_append, afterTie] at this
    rw [this]; exact h.evs
  · intro d hd
    have := pending_step hv T T' hTT
    rw [hnil, hp, barPending_nil T T' hTT, hd] at this
    cases this

theorem trackOK_bar {Tset : List Rat} {I : List Item} (hv : VoiceOK Tset I) (hf : FineSet Tset) (c : Chord)
    (he : 0 ≤ c.elem ∧ c.elem < 7) (idx : Nat) (T T' : Rat) (hTT : T < T') (hT : T ∈ Tset) (hT' : T' ∈ Tset)
    (tst : TrackSt) (h : TrackOK I T tst) :
    ∃ tst', playMelody c idx (barMelody c T T' (pendingAt T I) (inBar T T' I)) T tst = .ok tst' ∧ TrackOK I T' tst' := by
  have hb := voice_barOK hv hf T T' hTT hT hT'
  have hst : ∀ d, pendingAt T I = some d → tst.isOpen = true ∧ tst.last ≠ none ∧ tst.evs ≠ [] := by
    intro d hd
    obtain ⟨h1, h2⟩ := h.tie d hd
    refine ⟨h1, h2, ?_⟩
    rw [h.evs]
    rw [pendingAt_eq] at hd
    obtain ⟨A', x, hA, _, _⟩ := pend_some _ _ _ hd
    rw [hA]; simp
  refine ⟨_, play_barMelody c he idx hb tst hst, ?_, ?_⟩
  · simp only []
    rw [h.evs]; exact (events_step hv T T' (by grind)).symm
  · intro d hd
    have hps := pending_step hv T T' hTT
    rw [hd] at hps
    simp only [barPending] at hps
    by_cases hE : T' < endOf (contStart T (pendingAt T I)) (inBar T T' I)
    · refine ⟨by simp only [decide_eq_true_eq]; grind, ?_⟩
      by_cases hnil : inBar T T' I = []
      · rw [hnil]; simp only [lastPitch]
        rw [hnil] at hE; simp only [endOf] at hE
        cases hp : pendingAt T I with
        | none => rw [hp] at hE; simp only [contStart] at hE; grind
        | some d0 => exact (h.tie d0 hp).2
      · exact lastPitch_some _ _ hnil
    · simp [hE] at hps

end MV

namespace MV
open Gen

/-! ### the chord of a bar -/

theorem fine_min {a b : Rat} (ha : Fine a) (hb : Fine b) : Fine (min a b) := by
  by_cases h : a ≤ b
  · have : min a b = a := by grind
    rw [this]; exact ha
  · have : min a b = b := by grind
    rw [this]; exact hb

theorem gapRest_fine (a b : Rat) (hf : Fine (b - a)) : ∀ n ∈ gapRest a b, Fine n.dur := by
  unfold gapRest
  by_cases h : a < b
  · simp only [h, if_true, mkSilence_fine _ hf]
    intro n hn; simp only [List.mem_singleton] at hn; subst hn; exact hf
  · simp only [h, if_false]; intro n hn; cases hn

theorem loopMel_fine (c : Chord) (be : Rat) (T : List Rat) (hT : FineSet T) (hbe : be ∈ T) : ∀ (ns : List Item) (t : Rat),
    t ∈ T → (∀ n ∈ ns, n.start ∈ T ∧ n.stop ∈ T) → ∀ x ∈ loopMel c be t ns, Fine x.dur := by
  intro ns
  induction ns with
  | nil => intro t _ _ x hx; cases hx
  | cons n rest ih =>
      intro t ht hmem x hx
      have hn := hmem n (List.mem_cons_self ..)
      simp only [loopMel, List.mem_append, List.mem_cons] at hx
      rcases hx with hx | rfl | hx
      · exact gapRest_fine _ _ (hT _ hn.1 _ ht) x hx
      · show Fine (min n.stop be - n.start)
        by_cases h : n.stop ≤ be
        · have : min n.stop be = n.stop := by grind
          rw [this]; exact hT _ hn.2 _ hn.1
        · have : min n.stop be = be := by grind
          rw [this]; exact hT _ hbe _ hn.1
      · exact ih _ hn.2 (fun y hy => hmem y (List.mem_cons_of_mem _ hy)) x hx

theorem barMelody_fine {T bs be cont ns} (c : Chord) (h : BarOK T bs be cont ns) :
    ∀ x ∈ barMelody c bs be cont ns, Fine x.dur := by
  have hE := endOf_mem T ns _ h.ht0 h.hmem
  intro x hx
  simp only [barMelody, List.mem_append] at hx
  rcases hx with (hx | hx) | hx
  · cases cont with
    | none => cases hx
    | some d =>
        simp only [contHead, List.mem_singleton] at hx
        subst hx
        show Fine (min d (be - bs))
        apply fine_min _ (h.fine _ h.hbe _ h.hbs)
        have := h.fine _ h.ht0 _ h.hbs
        simp only [contStart] at this
        have e : bs + d - bs = d := by grind
        rw [e] at this; exact this
  · exact loopMel_fine c be T h.fine h.hbe ns _ h.ht0 h.hmem x hx
  · exact gapRest_fine _ _ (h.fine _ h.hbe _ hE) x hx

theorem copyLim_barMelody {T bs be cont ns} (c : Chord) (h : BarOK T bs be cont ns) :
    (barMelody c bs be cont ns).map Note.copyLim = barMelody c bs be cont ns := by
  have : (barMelody c bs be cont ns).map Note.copyLim = (barMelody c bs be cont ns).map id :=
    List.map_congr_left (fun n hn => by
      unfold Note.copyLim; rw [limDur_fine _ (barMelody_fine c h n hn)]; rfl)
  rw [this, List.map_id]

theorem parse_congr (c c' : Chord) (h : C02.SameHarm c c') (p : Int) : c.parse p = c'.parse p := by
  obtain ⟨e, x, t, o, ps⟩ := c
  obtain ⟨e', x', t', o', ps'⟩ := c'
  obtain ⟨h1, h2, h3⟩ := h
  simp only at h1 h2 h3
  subst h1 h2 h3
  rfl

theorem barMelody_congr (c c' : Chord) (h : C02.SameHarm c c') (bs be : Rat) (cont : Option Rat) (ns : List Item) :
    barMelody c bs be cont ns = barMelody c' bs be cont ns := by
  have hn : ∀ it d, noteOf c it d = noteOf c' it d := by
    intro it d; unfold noteOf parsed; rw [parse_congr c c' h]
  have hl : ∀ (ns : List Item) (t : Rat), loopMel c be t ns = loopMel c' be t ns := by
    intro ns
    induction ns with
    | nil => intro t; rfl
    | cons n r ih => intro t; simp only [loopMel, hn, ih]
  unfold barMelody; rw [hl]

theorem lookup_map_snd {β γ : Type} (f : β → γ) (d : List (String × β)) (k : String) :
    (d.map (fun p => (p.1, f p.2))).lookup k = (d.lookup k).map f := by
  induction d with
  | nil => rfl
  | cons p ps ih =>
      obtain ⟨pk, pv⟩ := p
      simp only [List.map_cons, List.lookup_cons]
      cases (k == pk) <;> simp [ih]

theorem mem_lookup_of_nodup {β : Type} (d : List (String × β)) (h : (keys d).Nodup) (k : String) (v : β)
    (hm : (k, v) ∈ d) : d.lookup k = some v := by
  induction d with
  | nil => cases hm
  | cons p ps ih =>
      obtain ⟨pk, pv⟩ := p
      simp only [keys, List.map_cons, List.nodup_cons] at h
      rw [List.lookup_cons]
      rcases List.mem_cons.mp hm with e | hm'
      · cases e; simp
      · have hne : k ≠ pk := by
          intro e; subst e
          exact h.1 (List.mem_map_of_mem (f := (·.1)) hm')
        have : (k == pk) = false := by simpa using hne
        rw [this]; exact ih h.2 hm'

theorem foldl_max_const (L : Rat) : ∀ (ds : List Rat), (∀ d ∈ ds, d = L) → ds.foldl max L = L := by
  intro ds
  induction ds with
  | nil => intro _; rfl
  | cons d r ih =>
      intro h
      have hd := h d (List.mem_cons_self ..)
      simp only [List.foldl_cons, hd]
      have : max L L = L := by grind
      rw [this]; exact ih (fun x hx => h x (List.mem_cons_of_mem _ hx))

theorem chord_dur_of_parts (c : Chord) (L : Rat) (hne : c.parts ≠ []) (h : ∀ p ∈ c.parts, melodyDuration p.2 = L) :
    c.dur = L := by
  unfold Chord.dur
  cases hp : c.parts with
  | nil => exact absurd hp hne
  | cons p ps =>
      rw [hp] at h
      simp only [List.map_cons]
      rw [h p (List.mem_cons_self ..)]
      apply foldl_max_const
      intro d hd
      obtain ⟨q, hq, rfl⟩ := List.mem_map.mp hd
      exact h q (List.mem_cons_of_mem _ hq)

end MV
