/-
Lemmas about the `matrix_to_events` loop (C03, C07): the event map, per-track reading of
the global loop, stable sort by offset.
-/
import MV.Model.Render
namespace MV

def SortedBy (k : α → Rat) (l : List α) : Prop := l.Pairwise (fun a b => k a ≤ k b)

theorem mem_ins (k : α → Rat) (x y : α) (l : List α) : y ∈ sortByRat.ins k x l ↔ y = x ∨ y ∈ l := by
  induction l with
  | nil => simp [sortByRat.ins]
  | cons a t ih =>
    simp only [sortByRat.ins]
    split
    · simp
    · simp only [List.mem_cons, ih]
      constructor
      · rintro (h | h | h) <;> simp [h]
      · rintro (h | h | h) <;> simp [h]

theorem ins_sorted (k : α → Rat) (x : α) (l : List α) (h : SortedBy k l) : SortedBy k (sortByRat.ins k x l) := by
  induction l with
  | nil => simp [sortByRat.ins, SortedBy]
  | cons a t ih =>
    have ht := (List.pairwise_cons.mp h).2
    have ha := (List.pairwise_cons.mp h).1
    simp only [sortByRat.ins]
    split
    · rename_i hxa
      apply List.pairwise_cons.mpr
      refine ⟨?_, h⟩
      intro b hb
      rcases List.mem_cons.mp hb with rfl | hb
      · exact hxa
      · exact Rat.le_trans hxa (ha b hb)
    · rename_i hxa
      apply List.pairwise_cons.mpr
      refine ⟨?_, ih ht⟩
      intro b hb
      rcases (mem_ins k x b t).mp hb with rfl | hb
      · rcases (Rat.le_total : k a ≤ k b ∨ k b ≤ k a) with h1 | h1
        · exact h1
        · exact absurd h1 hxa
      · exact ha b hb

theorem sortByRat_sorted (k : α → Rat) (l : List α) : SortedBy k (sortByRat k l) := by
  unfold sortByRat
  induction l with
  | nil => simp [SortedBy]
  | cons a t ih => simp only [List.foldr_cons]; exact ins_sorted k a _ ih

theorem ins_of_le_all (k : α → Rat) (x : α) (l : List α) (h : ∀ y ∈ l, k x ≤ k y) :
    sortByRat.ins k x l = x :: l := by
  cases l with
  | nil => rfl
  | cons a t => simp [sortByRat.ins, h a (by simp)]

theorem sortByRat_of_sorted (k : α → Rat) (l : List α) (h : SortedBy k l) : sortByRat k l = l := by
  induction l with
  | nil => rfl
  | cons a t ih =>
    have ht := (List.pairwise_cons.mp h).2
    have ha := (List.pairwise_cons.mp h).1
    unfold sortByRat at *
    simp only [List.foldr_cons]
    rw [ih ht]
    exact ins_of_le_all k a t ha

theorem ins_filter (k : α → Rat) (p : α → Bool) (x : α) (l : List α) (h : SortedBy k l) :
    (sortByRat.ins k x l).filter p = if p x then sortByRat.ins k x (l.filter p) else l.filter p := by
  induction l with
  | nil => simp only [sortByRat.ins, List.filter_cons, List.filter_nil]
  | cons a t ih =>
    have ht := (List.pairwise_cons.mp h).2
    have ha := (List.pairwise_cons.mp h).1
    simp only [sortByRat.ins]
    by_cases hxa : k x ≤ k a
    · simp only [hxa, if_true]
      -- x is ≤ everything in a :: t, hence in the filtered list
      have hall : ∀ y ∈ (a :: t).filter p, k x ≤ k y := by
        intro y hy
        have hy' := (List.mem_filter.mp hy).1
        rcases List.mem_cons.mp hy' with rfl | hy'
        · exact hxa
        · exact Rat.le_trans hxa (ha y hy')
      by_cases hpx : p x = true
      · simp only [hpx, if_true, List.filter_cons]
        rw [ins_of_le_all k x _ (by simpa [List.filter_cons] using hall)]
      · simp only [hpx, List.filter_cons]
        simp
    · simp only [hxa, if_false, List.filter_cons]
      by_cases hpa : p a = true
      · simp only [hpa, if_true, ih ht]
        by_cases hpx : p x = true
        · simp only [hpx, if_true, sortByRat.ins, hxa, if_false]
        · simp only [hpx]; simp
      · simp only [hpa, ih ht]; simp

/-- a stable sort commutes with filtering -/
theorem sortByRat_filter (k : α → Rat) (p : α → Bool) (l : List α) :
    (sortByRat k l).filter p = sortByRat k (l.filter p) := by
  induction l with
  | nil => rfl
  | cons a t ih =>
    have hs := sortByRat_sorted k t
    unfold sortByRat at *
    simp only [List.foldr_cons, List.filter_cons]
    rw [ins_filter k p a _ hs, ih]
    split <;> simp


/-! per-track reading of the `matrix_to_events` loop -/

def keysOf (m : EvMap) : List Nat := m.map (·.1)

theorem any_iff_mem (m : EvMap) (t : Nat) : m.any (·.1 == t) = true ↔ t ∈ keysOf m := by
  unfold keysOf
  simp [List.any_eq_true]

def repl (t : Nat) (evs : List Event) (p : Nat × List Event) : Nat × List Event :=
  if p.1 == t then (t, evs) else p

theorem lookup_map_other (m : EvMap) (t t' : Nat) (evs : List Event) (hne : t' ≠ t) :
    List.lookup t' (m.map (repl t evs)) = List.lookup t' m := by
  induction m with
  | nil => rfl
  | cons p rest ih =>
    simp only [List.map_cons, repl]
    by_cases hp : p.1 = t
    · have h1 : (t' == t) = false := by simpa using hne
      have h2 : (t' == p.1) = false := by rw [hp]; exact h1
      simp only [hp, beq_self_eq_true, if_true, List.lookup, h1, h2]
      exact ih
    · have hpb : (p.1 == t) = false := by simpa using hp
      simp only [hpb, Bool.false_eq_true, if_false, List.lookup]
      cases (t' == p.1)
      · exact ih
      · rfl

theorem lookup_map_same (m : EvMap) (t : Nat) (evs : List Event) (h : t ∈ keysOf m) :
    List.lookup t (m.map (repl t evs)) = some evs := by
  induction m with
  | nil => simp [keysOf] at h
  | cons p rest ih =>
    simp only [List.map_cons, repl]
    by_cases hp : p.1 = t
    · simp [hp, List.lookup]
    · have hpb : (p.1 == t) = false := by simpa using hp
      have htb : (t == p.1) = false := by simpa using (fun h => hp h.symm)
      simp only [hpb, Bool.false_eq_true, if_false, List.lookup, htb]
      apply ih
      simp only [keysOf, List.map_cons, List.mem_cons] at h
      rcases h with h | h
      · exact absurd h.symm hp
      · exact h

theorem lookup_append_other (m : EvMap) (t t' : Nat) (evs : List Event) (hne : t' ≠ t) :
    List.lookup t' (m ++ [(t, evs)]) = List.lookup t' m := by
  induction m with
  | nil =>
    have h1 : (t' == t) = false := by simpa using hne
    simp [List.lookup, h1]
  | cons p rest ih =>
    simp only [List.cons_append, List.lookup]
    cases (t' == p.1)
    · exact ih
    · rfl

theorem lookup_append_same (m : EvMap) (t : Nat) (evs : List Event) (h : t ∉ keysOf m) :
    List.lookup t (m ++ [(t, evs)]) = some evs := by
  induction m with
  | nil => simp [List.lookup]
  | cons p rest ih =>
    have hp : ¬ t = p.1 := by intro hh; apply h; simp [keysOf, hh]
    have htb : (t == p.1) = false := by simpa using hp
    simp only [List.cons_append, List.lookup, htb]
    apply ih
    intro hh; apply h; simp only [keysOf, List.map_cons, List.mem_cons]; exact Or.inr hh

theorem set_eq (m : EvMap) (t : Nat) (evs : List Event) :
    m.set t evs = if t ∈ keysOf m then m.map (repl t evs) else m ++ [(t, evs)] := by
  unfold EvMap.set
  by_cases h : t ∈ keysOf m
  · simp only [(any_iff_mem m t).mpr h, if_true, h]; rfl
  · have : ¬ m.any (·.1 == t) = true := fun hh => h ((any_iff_mem m t).mp hh)
    simp only [this, if_false, h]
    simp

theorem get_set_same (m : EvMap) (t : Nat) (evs : List Event) : (m.set t evs).get t = some evs := by
  rw [set_eq]; unfold EvMap.get
  split
  · rename_i h; exact lookup_map_same m t evs h
  · rename_i h; exact lookup_append_same m t evs h

theorem get_set_other (m : EvMap) (t t' : Nat) (evs : List Event) (hne : t' ≠ t) :
    (m.set t evs).get t' = m.get t' := by
  rw [set_eq]; unfold EvMap.get
  split
  · exact lookup_map_other m t t' evs hne
  · exact lookup_append_other m t t' evs hne

theorem keys_set (m : EvMap) (t : Nat) (evs : List Event) :
    keysOf (m.set t evs) = if t ∈ keysOf m then keysOf m else keysOf m ++ [t] := by
  rw [set_eq]
  by_cases h : t ∈ keysOf m
  · simp only [h, if_true]
    unfold keysOf
    rw [List.map_map]
    apply List.map_congr_left
    intro p _
    simp only [Function.comp, repl]
    by_cases hp : p.1 = t
    · simp [hp]
    · have hpb : (p.1 == t) = false := by simpa using hp
      simp [hpb]
  · simp only [h, if_false]
    unfold keysOf; simp

/-- the event a row starts (seconds = quarter notes × 60 / tempo) -/
def evOf (tempo : Rat) (r : Row) : Event :=
  { pitch := r.pitch, offset := r.offset * 60 / tempo, dur := r.dur * 60 / tempo, vel := r.vel.floor,
    track := r.track, silence := r.silence }

/-- what one row does to the event list of its own track -/
def stepTrack (tempo : Rat) (cur : Option (List Event)) (r : Row) : Option (List Event) :=
  if !r.cont then some (cur.getD [] ++ [evOf tempo r])
  else match cur with
    | some evs =>
        match evs.reverse with
        | lastEv :: before => some (before.reverse ++ [{ lastEv with dur := lastEv.dur + r.dur * 60 / tempo }])
        | [] => some evs
    | none => some [{ evOf tempo r with silence := true }]

def NoTempo (rows : List Row) : Prop := ∀ r ∈ rows, r.tempo = none

/-- the map after one row of the loop -/
def stepMap (tempo : Rat) (m : EvMap) (r : Row) : EvMap :=
  if !r.cont then m.set r.track ((m.get r.track).getD [] ++ [evOf tempo r])
  else match m.get r.track with
    | some evs =>
        match evs.reverse with
        | lastEv :: before => m.set r.track (before.reverse ++ [{ lastEv with dur := lastEv.dur + r.dur * 60 / tempo }])
        | [] => m
    | none => m.set r.track [{ evOf tempo r with silence := true }]

theorem eventsLoop_cons (r : Row) (rs : List Row) (tempo : Rat) (m : EvMap) (hr : r.tempo = none) :
    eventsLoop (r :: rs) tempo m = eventsLoop rs tempo (stepMap tempo m r) := by
  rw [eventsLoop]
  simp only [hr, stepMap, evOf]
  by_cases hc : (!r.cont) = true
  · simp only [hc, if_true]
  · simp only [hc, if_false]
    cases hg : m.get r.track with
    | none => rfl
    | some evs =>
      simp only
      cases hrev : evs.reverse with
      | nil => rfl
      | cons a b => rfl

theorem mem_keys_of_get (m : EvMap) (t : Nat) (evs : List Event) (h : m.get t = some evs) : t ∈ keysOf m := by
  unfold EvMap.get at h
  induction m with
  | nil => simp [List.lookup] at h
  | cons p rest ih =>
    simp only [List.lookup] at h
    by_cases hp : t = p.1
    · simp [keysOf, hp]
    · have : (t == p.1) = false := by simpa using hp
      simp only [this] at h
      simp only [keysOf, List.map_cons, List.mem_cons]
      exact Or.inr (ih h)

theorem stepMap_get (tempo : Rat) (m : EvMap) (r : Row) (t : Nat) :
    (stepMap tempo m r).get t = if t = r.track then stepTrack tempo (m.get t) r else m.get t := by
  unfold stepMap stepTrack
  by_cases ht : t = r.track
  · subst ht
    simp only [if_true]
    split
    · exact get_set_same _ _ _
    · cases hg : m.get r.track with
      | none => exact get_set_same _ _ _
      | some evs =>
        simp only
        cases hrev : evs.reverse with
        | nil => simp only [hg]
        | cons a b => exact get_set_same _ _ _
  · simp only [ht, if_false]
    split
    · exact get_set_other _ _ _ _ ht
    · cases hg : m.get r.track with
      | none => exact get_set_other _ _ _ _ ht
      | some evs =>
        simp only
        cases hrev : evs.reverse with
        | nil => rfl
        | cons a b => exact get_set_other _ _ _ _ ht

theorem stepMap_keys (tempo : Rat) (m : EvMap) (r : Row) :
    keysOf (stepMap tempo m r) = if r.track ∈ keysOf m then keysOf m else keysOf m ++ [r.track] := by
  unfold stepMap
  split
  · exact keys_set _ _ _
  · cases hg : m.get r.track with
    | none => exact keys_set _ _ _
    | some evs =>
      simp only
      cases hrev : evs.reverse with
      | nil => simp [mem_keys_of_get m _ evs hg]
      | cons a b => exact keys_set _ _ _

/-- **the global loop is per-track processing**: after the loop, the event list of track `t`
is what `stepTrack` makes of the rows of track `t`, in order -/
theorem eventsLoop_get (rows : List Row) (tempo : Rat) (m : EvMap) (hn : NoTempo rows) (t : Nat) :
    (eventsLoop rows tempo m).get t
      = (rows.filter (fun r => r.track == t)).foldl (stepTrack tempo) (m.get t) := by
  induction rows generalizing m with
  | nil => simp [eventsLoop]
  | cons r rs ih =>
    rw [eventsLoop_cons r rs tempo m (hn r (by simp)), ih _ (fun x hx => hn x (by simp [hx]))]
    rw [stepMap_get]
    by_cases ht : t = r.track
    · subst ht; simp [List.filter_cons]
    · have : (r.track == t) = false := by simpa using (fun h => ht h.symm)
      simp [List.filter_cons, this, ht]

/-- tracks in order of first appearance -/
def addKeys (ks : List Nat) (ts : List Nat) : List Nat :=
  ts.foldl (fun acc t => if t ∈ acc then acc else acc ++ [t]) ks

theorem eventsLoop_keys (rows : List Row) (tempo : Rat) (m : EvMap) (hn : NoTempo rows) :
    keysOf (eventsLoop rows tempo m) = addKeys (keysOf m) (rows.map (·.track)) := by
  induction rows generalizing m with
  | nil => simp [eventsLoop, addKeys]
  | cons r rs ih =>
    rw [eventsLoop_cons r rs tempo m (hn r (by simp)), ih _ (fun x hx => hn x (by simp [hx])), stepMap_keys]
    simp [addKeys]

end MV
