/-
Helper lemmas for the source tie of the re-voicing kernels (`MV/Props/TieSrcPvl.lean`, group `SrcPvl`, DESIGN.md §9.6):
the two facts of group `SrcOps` the generated file uses (`Chord.o`, `Note.o`; re-proved here because `MV/Props/TieOps`
sits on `MV/Model/Transpose`, which defines `Melody.o` under the same name as `MV/Model/VoiceLeading`), the reading of a
direction, the model's `pvlFrom` rewritten in the code's shape (an `if` around the rest of the function instead of a
conditional value), and the loops: `Score.get_parsimonious_voice_leading` (a monadic left fold over the pair
`(previous_chord, final_score)` against the model's recursion `pvlLoop`), the kept-voice loop of
`recursive_correct_octave` (a fold of dictionary stores against `shiftKept`), `find_optimal_octaves` (an accumulator that
starts as `None` against `mapM`), list / matrix indexing with natural indices, and the nested comprehension of
`get_pitch_solution` (two `mapM`s over `enumerate`, each entry looking the candidate list up by index, against the model's
structural recursions `candMat` / `candRow`).
-/
import MV.Gen.SrcPvl
namespace MV.TiePvl
open MV
theorem chord_o_src (c : Chord) (k : Int) : Src.Chord_o c k = c.o k := rfl
theorem note_o_src (n : Note) (k : Int) : Src.Note_o n k = n.o k := by
  have h : Src.Note_oabs n k = n.oabs k := rfl
  unfold Src.Note_o Note.o; rw [h]; cases n.kind <;> rfl

theorem dirOf_down (d : Option String) : Src.dirEq d "down" = decide (Src.dirOf d = Dir.down) := by
  unfold Src.dirEq Src.dirOf
  by_cases h1 : d = some "up"
  · subst h1; decide
  · by_cases h2 : d = some "down"
    · subst h2; decide
    · simp [h1, h2]

theorem dirOf_up (d : Option String) : Src.dirEq d "up" = decide (Src.dirOf d = Dir.up) := by
  unfold Src.dirEq Src.dirOf
  by_cases h1 : d = some "up"
  · subst h1; decide
  · by_cases h2 : d = some "down"
    · subst h2; decide
    · simp [h1, h2]


theorem ite_decide_congr {α} (p : Prop) [Decidable p] {a a' b b' : α} (ha : a = a') (hb : b = b') :
    (if decide p = true then a else b) = if p then a' else b' := by
  subst ha hb; by_cases h : p <;> simp [h]

theorem ok_bind {α β} (a : α) (f : α → Res β) : (Except.ok a >>= f) = f a := rfl


/-- the direction-dependent tail of the model's `pvlFrom` -/
def pvlTail (root nb : Int) (dir : Dir) (fc : Chord) : Res Chord := do
  let b ← fc.bassPitch
  if b > root ∧ dir = .down then
    let idx ← fc.inversionIndex
    let fc5 ← fc.invert (idx - 1 - idx)
    pure (if idx - 1 < 0 then fc5.o (-1) else fc5)
  else if b < root ∧ dir = .up then
    let idx ← fc.inversionIndex
    let fc5 ← fc.invert (idx + 1 - idx)
    pure (if idx + 1 > nb - 1 then fc5.o 1 else fc5)
  else
    pure fc

/-- the model's `pvlFrom` with the conditional octave shift written as the code writes it: an `if` around the rest -/
theorem pvlFrom_split (root : Int) (cand : Chord) (nb : Int) (dir : Dir) :
    Chord.pvlFrom root cand nb dir = (do
      let fc1 ← ({ cand with oct := 0, ton := { cand.ton with oct := 0 } } : Chord).toRootExt
      let otherRoot ← fc1.bassPitch
      let fc3 ← (fc1.o (-roundHalfEven (otherRoot - root) 12)).invert
        (-roundHalfEven (nb * (otherRoot - root - roundHalfEven (otherRoot - root) 12 * 12)) 12)
      if -roundHalfEven (nb * (otherRoot - root - roundHalfEven (otherRoot - root) 12 * 12)) 12 < 0
      then pvlTail root nb dir (fc3.o (-1)) else pvlTail root nb dir fc3) := by
  unfold Chord.pvlFrom
  refine bind_congr (fun fc1 => bind_congr (fun otherRoot => bind_congr (fun fc3 => ?_)))
  by_cases h : -roundHalfEven (nb * (otherRoot - root - roundHalfEven (otherRoot - root) 12 * 12)) 12 < 0
  · simp only [h, if_true]; rfl
  · simp only [h, if_false]; rfl

/-- the tail as the code writes it (`bass_pitch` is read once per test) -/
theorem pvl_tail (fc : Chord) (root nb : Int) (d : Option String) :
    (do let t_8 ← fc.bassPitch
        if (decide (t_8 > root) && Src.dirEq d "down") = true then do
            let t_9 ← fc.inversionIndex
            let t_10 ← fc.invert (t_9 - 1 - t_9)
            if decide (t_9 - 1 < 0) = true then pure (t_10.o (-1)) else pure t_10
          else do
            let t_11 ← fc.bassPitch
            if (decide (t_11 < root) && Src.dirEq d "up") = true then do
                let t_12 ← fc.inversionIndex
                let t_13 ← fc.invert (t_12 + 1 - t_12)
                if decide (t_12 + 1 > nb - 1) = true then pure (t_13.o 1) else pure t_13
              else pure fc : Res Chord) = pvlTail root nb (Src.dirOf d) fc := by
  unfold pvlTail
  cases hb : fc.bassPitch with
  | error e => rfl
  | ok b =>
    simp only [ok_bind, dirOf_down, dirOf_up, Bool.and_eq_true, decide_eq_true_eq]
    split
    · refine bind_congr (fun idx => bind_congr (fun fc5 => ?_))
      split <;> rfl
    · split
      · refine bind_congr (fun idx => bind_congr (fun fc5 => ?_))
        split <;> rfl
      · rfl

theorem chord_parsimonious_src (self cand : Chord) (d : Option String) :
    Src.Chord_get_parsimonious_voice_leading self cand d = self.parsimonious cand (Src.dirOf d) := by
  unfold Src.Chord_get_parsimonious_voice_leading Chord.parsimonious
  refine bind_congr (fun t1 => ?_)
  refine bind_congr (fun t2 => ?_)
  refine bind_congr (fun t3 => ?_)
  rw [pvlFrom_split]
  refine bind_congr (fun t5 => ?_)
  refine bind_congr (fun t6 => ?_)
  simp only [Src.roundQuot, chord_o_src, Py.len]
  refine bind_congr (fun t7 => ?_)
  exact ite_decide_congr _ (pvl_tail _ _ _ _) (pvl_tail _ _ _ _)

/-- one turn of the loop of `Score.get_parsimonious_voice_leading`, as generated -/
def spvlStep (from_first : Bool) (st : Chord × List Chord) (it : Option String × Chord) : Res (Chord × List Chord) := do
  let previous_chord : Chord := st.1
  let final_score : List Chord := st.2
  let pr_3 := it
  let direction : Option String := pr_3.1
  let chord : Chord := pr_3.2
  let t_4 ← Src.Chord_get_parsimonious_voice_leading previous_chord chord direction
  let new_previous_chord : Chord := t_4
  if (!from_first) then
    let previous_chord : Chord := new_previous_chord
    let final_score : List Chord := (final_score ++ [new_previous_chord])
    pure (previous_chord, final_score)
  else
    let final_score : List Chord := (final_score ++ [new_previous_chord])
    pure (previous_chord, final_score)

theorem spvl_fold (ff : Bool) (l : List (Option String × Chord)) (prev : Chord) (acc : List Chord) {β} (k : List Chord → Res β) :
    (do let st ← l.foldlM (spvlStep ff) (prev, acc); k st.2) =
    (do let tl ← pvlLoop ff prev (l.map (fun p => (Src.dirOf p.1, p.2))); k (acc ++ tl)) := by
  induction l generalizing prev acc with
  | nil => simp [pvlLoop]
  | cons x xs ih =>
    rw [List.foldlM_cons, List.map_cons, pvlLoop]
    simp only [spvlStep, chord_parsimonious_src, bind_assoc]
    cases h : prev.parsimonious x.2 (Src.dirOf x.1) with
    | error e => rfl
    | ok nw =>
      simp only [ok_bind]
      cases ff
      · simp only [Bool.not_false, if_true, pure_bind, ih]
        simp
      · simp only [Bool.not_true, Bool.false_eq_true, if_false, pure_bind, ih]
        simp

theorem zip_dirOf (dirs : List (Option String)) (cs : List Chord) :
    (List.zip dirs cs).map (fun p => (Src.dirOf p.1, p.2)) = (dirs.map Src.dirOf).zip cs := by
  induction dirs generalizing cs with
  | nil => rfl
  | cons d ds ih => cases cs with
    | nil => rfl
    | cons c cs => simp [ih]

theorem ite_decide_not {α} {p q : Prop} [Decidable p] [Decidable q] {a b a' b' : α} (h : p ↔ ¬ q) (ha : a = b') (hb : b = a') :
    (if decide p = true then a else b) = if q then a' else b' := by
  subst ha hb; by_cases hq : q <;> simp [hq, h]

theorem score_parsimonious_list (s : Score) (ff : Bool) (dirs : List (Option String)) :
    Src.Score_get_parsimonious_voice_leading_list s ff dirs = Score.parsimonious s ff (.list (dirs.map Src.dirOf)) := by
  cases s with
  | nil => rfl
  | cons c cs =>
    have h0 : pyIndex (c :: cs) 0 = .ok c := rfl
    have hs : Py.sliceFrom (c :: cs) 1 = cs := rfl
    unfold Src.Score_get_parsimonious_voice_leading_list Score.parsimonious
    simp only [h0, ok_bind, hs]
    refine ite_decide_not ?_ ?_ rfl
    · simp only [Py.len, List.length_cons, List.length_map]; omega
    · have := spvl_fold ff (List.zip dirs cs) c [] (fun fs => (pure ([c] ++ fs) : Res (List Chord)))
      refine Eq.trans this ?_
      rw [zip_dirOf]; rfl

theorem nonesTimes_dirs (n : Int) : (Src.nonesTimes [none] n).map Src.dirOf = List.replicate n.toNat Dir.none := by
  unfold Src.nonesTimes
  induction n.toNat with
  | zero => rfl
  | succ k ih => simp only [List.replicate_succ, List.flatMap_cons, List.map_append, ih]; rfl

theorem strsTimes_dirs (d : String) (n : Int) :
    (Src.strsTimes [d] n).map Src.dirOf = List.replicate n.toNat (Src.dirOf (some d)) := by
  unfold Src.strsTimes
  induction n.toNat with
  | zero => rfl
  | succ k ih => simp only [List.replicate_succ, List.flatMap_cons, List.map_append, ih]; rfl

theorem len_pred (s : Score) : (Py.len s - 1).toNat = s.length - 1 := by
  unfold Py.len; omega

theorem score_parsimonious_none (s : Score) (ff : Bool) :
    Src.Score_get_parsimonious_voice_leading_none s ff () = Score.parsimonious s ff .none := by
  have h : Src.Score_get_parsimonious_voice_leading_none s ff ()
      = Src.Score_get_parsimonious_voice_leading_list s ff (Src.nonesTimes [none] (Py.len s - 1)) := rfl
  rw [h, score_parsimonious_list, nonesTimes_dirs, len_pred]; rfl

theorem score_parsimonious_str (s : Score) (ff : Bool) (d : String) :
    Src.Score_get_parsimonious_voice_leading_str s ff d = Score.parsimonious s ff (.all (Src.dirOf (some d))) := by
  have h : Src.Score_get_parsimonious_voice_leading_str s ff d
      = Src.Score_get_parsimonious_voice_leading_list s ff (Src.strsTimes [d] (Py.len s - 1)) := rfl
  rw [h, score_parsimonious_list, strsTimes_dirs, len_pred]; rfl

theorem melody_o_src (m : Melody) (k : Int) : Src.Melody_o m k = Melody.o m k := by
  unfold Src.Melody_o Melody.o
  simp only [note_o_src]

theorem lookup_any (l : List (String × Melody)) (v : String) (x : Melody) (h : l.lookup v = some x) :
    l.any (fun p => p.1 == v) = true := by
  induction l with
  | nil => cases h
  | cons p ps ih =>
    obtain ⟨k, w⟩ := p
    simp only [List.lookup_cons] at h
    simp only [List.any_cons]
    cases hk : (v == k)
    · rw [hk] at h; simp [ih h]
    · have : k = v := (beq_iff_eq.mp hk).symm
      simp [this]

/-- `d[k] = v` on a key that exists is the model's `setPart` -/
theorem partsSet_setPart (c : Chord) (v : String) (m0 m : Melody) (h : lookupKey v c.parts = .ok m0) :
    ({ c with parts := Src.partsSet c.parts v m } : Chord) = c.setPart v m := by
  unfold Src.partsSet Chord.setPart
  have hany : c.parts.any (fun p => p.1 == v) = true := by
    unfold lookupKey at h
    cases hl : c.parts.lookup v with
    | none => rw [hl] at h; cases h
    | some x => exact lookup_any _ _ _ hl
  rw [if_pos hany]
  congr 1
  apply List.map_congr_left
  intro p _
  by_cases hp : p.1 == v
  · simp only [hp, if_true]; rw [beq_iff_eq.mp hp]
  · simp [hp]

/-- one turn of the kept-voice loop of `recursive_correct_octave`, as generated -/
def shiftStep (k : Int) (st : Chord) (it : String × Bool) : Res Chord := do
  let new_chord : Chord := st
  let pr := it
  let voice : String := pr.1
  let change : Bool := pr.2
  if (!change) then
    let t ← lookupKey voice new_chord.parts
    let new_chord : Chord := { new_chord with parts := (Src.partsSet new_chord.parts voice (Src.Melody_o t k)) }
    pure new_chord
  else
    pure new_chord

theorem shift_fold_step (k : Int) (l : List (String × Bool)) (c : Chord) :
    l.foldlM (shiftStep k) c = shiftKept k l c := by
  induction l generalizing c with
  | nil => rfl
  | cons x xs ih =>
    obtain ⟨v, ch⟩ := x
    rw [List.foldlM_cons, shiftKept]
    cases ch
    · simp only [shiftStep, Bool.not_false, if_true, Bool.false_eq_true, if_false, bind_assoc]
      cases hl : lookupKey v c.parts with
      | error e => rfl
      | ok m => simp only [ok_bind, pure_bind, melody_o_src, partsSet_setPart c v m _ hl, ih]
    · simp only [shiftStep, Bool.not_true, Bool.false_eq_true, if_false, if_true, pure_bind, ih]

/-- the kept-voice loop of `recursive_correct_octave` -/
theorem shift_fold (k : Int) (l : List (String × Bool)) (c : Chord) :
    l.foldlM (fun (st : Chord) (it : String × Bool) => do
        let new_chord : Chord := st
        let pr := it
        let voice : String := pr.1
        let change : Bool := pr.2
        if (!change) then
          let t ← lookupKey voice new_chord.parts
          let new_chord : Chord := { new_chord with parts := (Src.partsSet new_chord.parts voice (Src.Melody_o t k)) }
          pure new_chord
        else
          pure new_chord) c = shiftKept k l c := shift_fold_step k l c

theorem correct_octave_src (fuel : Nat) (cfg : VLCfg) (c : Chord) :
    Src.VoiceLeading_recursive_correct_octave fuel cfg c = correctOctave (cfg.fixed.zip cfg.change) fuel c := by
  induction fuel generalizing c with
  | zero => rfl
  | succ n ih =>
    unfold Src.VoiceLeading_recursive_correct_octave correctOctave
    refine bind_congr (fun b => ?_)
    simp only [chord_o_src, shift_fold, ih]
    exact ite_decide_congr _ rfl (ite_decide_congr _ rfl rfl)

/-- the accumulator of `find_optimal_octaves`: `None`, then a score that grows -/
def accApp : Option Score → List Chord → Option Score
  | none, [] => none
  | none, r => some r
  | some a, r => some (a ++ r)

theorem octaves_fold (f : Chord → Res Chord) (l : List Chord) (acc : Option Score) :
    l.foldlM (fun (st : Option Score) (chord : Chord) => do
        let new_score : Option Score := st
        let t_1 ← f chord
        let new_score : Score := (Src.scoreRadd new_score t_1)
        pure (some new_score)) acc = (do let r ← l.mapM f; pure (accApp acc r)) := by
  induction l generalizing acc with
  | nil => cases acc <;> simp [accApp]
  | cons x xs ih =>
    rw [List.foldlM_cons, List.mapM_cons]
    simp only [bind_assoc]
    cases hx : f x with
    | error e => rfl
    | ok y =>
      simp only [ok_bind, pure_bind, ih]
      refine bind_congr (fun r => ?_)
      cases acc <;> simp [accApp, Src.scoreRadd]

theorem find_optimal_octaves_src (fuel : Nat) (cfg : VLCfg) (s : Score) :
    Src.VoiceLeading_find_optimal_octaves fuel cfg s =
      (do let r ← cfg.findOptimalOctaves fuel s; pure (if r.isEmpty then none else some r)) := by
  unfold Src.VoiceLeading_find_optimal_octaves VLCfg.findOptimalOctaves
  have hf : (fun c => Src.VoiceLeading_recursive_correct_octave fuel cfg c) = correctOctave (cfg.fixed.zip cfg.change) fuel := by
    funext c; exact correct_octave_src fuel cfg c
  have := octaves_fold (Src.VoiceLeading_recursive_correct_octave fuel cfg) s none
  simp only [bind_pure] at this ⊢
  refine Eq.trans this ?_
  rw [show Src.VoiceLeading_recursive_correct_octave fuel cfg = correctOctave (cfg.fixed.zip cfg.change) fuel from hf]
  refine bind_congr (fun r => ?_)
  cases r <;> rfl

/-- `l[i]` with a natural index -/
theorem pyIndex_nat {α} (l : List α) (i : Nat) :
    pyIndex l (i : Int) = (match l[i]? with | some x => .ok x | none => .error .index) := by
  unfold pyIndex
  have h1 : ¬ ((i : Int) < 0) := by omega
  simp only [if_neg h1]
  by_cases h : i < l.length
  · have h2 : ¬ ((i : Int) < 0 ∨ (i : Int) ≥ (l.length : Int)) := by omega
    rw [if_neg h2, Int.toNat_natCast]
    cases l[i]? <;> rfl
  · have h2 : ((i : Int) < 0 ∨ (i : Int) ≥ (l.length : Int)) := by omega
    have h3 : l[i]? = none := List.getElem?_eq_none (by omega)
    rw [if_pos h2, h3]

theorem idx2_py {α} (m : List (List α)) (i j : Nat) :
    (do let r ← pyIndex m (i : Int); pyIndex r (j : Int)) = idx2 m i j := by
  unfold idx2
  rw [pyIndex_nat]
  cases m[i]? with
  | none => rfl
  | some r =>
    simp only [ok_bind]
    rw [pyIndex_nat]
    cases r[j]? <;> rfl

theorem candidate_at_src (st : VLState) (i j : Nat) :
    Src.VoiceLeading_get_candidate_at st i j = idx2 st.cands i j := by
  unfold Src.VoiceLeading_get_candidate_at
  rw [← idx2_py]

theorem current_pitch_at_src (st : VLState) (i j : Nat) :
    Src.VoiceLeading_get_current_pitch_at st i j = idx2 st.pitch i j := by
  unfold Src.VoiceLeading_get_current_pitch_at Src.npIdx2
  rw [← idx2_py]

theorem corrected (n : Note) (l : List Int) (v : Int) :
    ({ ({ n with val := Src.npMod v (Py.len l) } : Note) with oct := n.oct + Src.npFloorDiv v (Py.len l) } : Note)
      = correctedNote n l.length v := by
  unfold Src.npMod Src.npFloorDiv correctedNote Py.len
  by_cases h : (l.length : Int) = 0
  · simp only [h, if_true]
  · have hp : (0 : Int) ≤ (l.length : Int) := by omega
    simp only [h, if_false, Int.fmod_eq_emod_of_nonneg _ hp, Int.fdiv_eq_ediv_of_nonneg _ hp]

theorem corrected_note_src (st : VLState) (n : Note) (nv : Mat) (i j : Nat) :
    Src.VoiceLeading_get_corrected_note st n nv i j =
      (do let cand ← idx2 st.cands i j; let v ← idx2 nv i j; pure (correctedNote n cand.length v)) := by
  unfold Src.VoiceLeading_get_corrected_note
  rw [candidate_at_src]
  refine bind_congr (fun cand => ?_)
  unfold Src.npIdx2
  rw [idx2_py]
  refine bind_congr (fun v => ?_)
  exact congrArg pure (corrected n cand v)

theorem mapM_length {α β} (f : α → Res β) (l : List α) (r : List β) (h : l.mapM f = .ok r) : r.length = l.length := by
  induction l generalizing r with
  | nil => rw [List.mapM_nil] at h; cases h; rfl
  | cons x xs ih =>
    rw [List.mapM_cons] at h
    cases hx : f x with
    | error e => rw [hx] at h; cases h
    | ok y =>
      cases hr : xs.mapM f with
      | error e => rw [hx, hr] at h; cases h
      | ok ys =>
        rw [hx, hr] at h
        cases h
        simp [ih ys hr]

theorem find_optimal_octaves_nonempty (fuel : Nat) (cfg : VLCfg) (s : Score) (h : s ≠ []) :
    Src.VoiceLeading_find_optimal_octaves fuel cfg s = (do let r ← cfg.findOptimalOctaves fuel s; pure (some r)) := by
  rw [find_optimal_octaves_src]
  cases hr : cfg.findOptimalOctaves fuel s with
  | error e => rfl
  | ok r =>
    have hl := mapM_length _ _ _ hr
    have : r ≠ [] := by
      intro h0; rw [h0] at hl; exact h (List.eq_nil_of_length_eq_zero hl.symm)
    cases r with
    | nil => exact absurd rfl this
    | cons _ _ => rfl

theorem movement_src (st : VLState) (p : Mat) : Src.VoiceLeading_get_movement st p = movement p := rfl

/-- one entry of `get_pitch_solution`, as generated (the candidate list is looked up three times) -/
def elemImg (cands : List (List (List Int))) (i j : Int) (nv : Int) : Res Int := do
  let t_4 ← pyIndex cands i; let t_5 ← pyIndex t_4 j; let t_6 ← pyIndex cands i; let t_7 ← pyIndex t_6 j
  let t_8 ← pyIndex t_5 (Src.npMod nv (Py.len t_7)); let t_9 ← pyIndex cands i; let t_10 ← pyIndex t_9 j
  pure (t_8 + ((12 : Int) * (Src.npFloorDiv nv (Py.len t_10))))

theorem elemImg_eq (cands : List (List (List Int))) (i j : Int) (nv : Int) (ci : List (List Int)) (c : List Int)
    (h1 : pyIndex cands i = .ok ci) (h2 : pyIndex ci j = .ok c) : elemImg cands i j nv = candPitch c nv := by
  unfold elemImg candPitch
  simp only [h1, h2, ok_bind, Src.npMod, Src.npFloorDiv, Py.len]
  by_cases h : (c.length : Int) = 0
  · have hc : c = [] := List.eq_nil_of_length_eq_zero (by omega)
    subst hc
    simp only [List.length_nil, Int.natCast_zero, if_true]
    rfl
  · have hp : (0 : Int) ≤ (c.length : Int) := by omega
    simp only [h, if_false, Int.fmod_eq_emod_of_nonneg _ hp, Int.fdiv_eq_ediv_of_nonneg _ hp]

theorem pyIndex_drop {α} (l : List α) (k : Nat) :
    (l.drop k = [] ∧ pyIndex l (k : Int) = .error .index) ∨ (∃ x, l.drop k = x :: l.drop (k + 1) ∧ pyIndex l (k : Int) = .ok x) := by
  rw [pyIndex_nat]
  by_cases h : k < l.length
  · right
    refine ⟨l[k], ?_, ?_⟩
    · exact List.drop_eq_getElem_cons h
    · simp [List.getElem?_eq_getElem h]
  · left
    refine ⟨List.drop_eq_nil_of_le (by omega), ?_⟩
    simp [List.getElem?_eq_none (show l.length ≤ k by omega)]

def enumFrom {α} (k : Nat) (l : List α) : List (Int × α) := (l.zipIdx k).map (fun p => ((p.2 : Int), p.1))

theorem enumFrom_cons {α} (k : Nat) (x : α) (l : List α) : enumFrom k (x :: l) = ((k : Int), x) :: enumFrom (k + 1) l := by
  simp [enumFrom, List.zipIdx_cons]

theorem row_img (cands : List (List (List Int))) (i : Int) (ci : List (List Int)) (h1 : pyIndex cands i = .ok ci)
    (row : List Int) (k : Nat) :
    (enumFrom k row).mapM (fun q => elemImg cands i q.1 q.2) = candRow (ci.drop k) row := by
  induction row generalizing k with
  | nil => cases ci.drop k <;> rfl
  | cons v vs ih =>
    rw [enumFrom_cons, List.mapM_cons]
    rcases pyIndex_drop ci k with ⟨hd, he⟩ | ⟨c, hd, he⟩
    · rw [hd]
      have : elemImg cands i (k : Int) v = .error .index := by
        unfold elemImg; simp only [h1, he, ok_bind]; rfl
      simp only [this]; rfl
    · rw [hd, candRow, elemImg_eq cands i k v ci c h1 he, ih (k + 1)]

/-- a row whose row of candidates does not exist: nothing is asked for an empty row, `IndexError` at the first entry otherwise -/
theorem row_img_none (cands : List (List (List Int))) (i : Int) (h1 : pyIndex cands i = .error .index) (row : List Int) (k : Nat) :
    (enumFrom k row).mapM (fun q => elemImg cands i q.1 q.2) = candRow [] row := by
  cases row with
  | nil => rfl
  | cons v vs =>
    rw [enumFrom_cons, List.mapM_cons]
    have : elemImg cands i (k : Int) v = .error .index := by
      unfold elemImg; simp only [h1]; rfl
    simp only [this]; rfl

theorem mat_img (cands : List (List (List Int))) (rows : Mat) (k : Nat) :
    (enumFrom k rows).mapM (fun p => (enumFrom 0 p.2).mapM (fun q => elemImg cands p.1 q.1 q.2)) = candMat (cands.drop k) rows := by
  induction rows generalizing k with
  | nil => cases cands.drop k <;> rfl
  | cons r rs ih =>
    rw [enumFrom_cons, List.mapM_cons]
    rcases pyIndex_drop cands k with ⟨hd, he⟩ | ⟨c, hd, he⟩
    · have hd' : cands.drop (k + 1) = [] := List.drop_eq_nil_of_le (by have := List.drop_eq_nil_iff.mp hd; omega)
      rw [hd, candMat, row_img_none cands k he r 0, ih (k + 1), hd']
    · rw [hd, candMat, row_img cands k c he r 0, List.drop_zero, ih (k + 1)]

theorem rowZip_scale (a b : List Int) :
    rowZip (· + ·) a (b.map (fun x => 12 * x)) = rowZip (fun x o => x + 12 * o) a b := by
  induction a generalizing b with
  | nil => cases b <;> rfl
  | cons x xs ih => cases b with
    | nil => rfl
    | cons y ys => simp only [List.map_cons, rowZip, ih]

theorem matZip_scale (a b : Mat) :
    matZip (· + ·) a (Src.npScale 12 b) = matZip (fun x o => x + 12 * o) a b := by
  unfold Src.npScale
  induction a generalizing b with
  | nil => cases b <;> rfl
  | cons x xs ih => cases b with
    | nil => rfl
    | cons y ys => simp only [List.map_cons, matZip, ih, rowZip_scale]

theorem pitch_solution_src (st : VLState) (dv : Mat) :
    Src.VoiceLeading_get_pitch_solution st dv = st.pitchSolution dv := by
  unfold Src.VoiceLeading_get_pitch_solution VLState.pitchSolution
  cases hz : matZip (· + ·) st.val dv with
  | error e => rfl
  | ok nv =>
    simp only [ok_bind]
    have := mat_img st.cands nv 0
    rw [List.drop_zero] at this
    rw [← this]
    simp only [matZip_scale, bind_pure]
    rfl

end MV.TiePvl
