/-
Decidability of the hypotheses of the import theorem (C14), so that concrete inputs can be shown to
satisfy them by kernel evaluation (`decide +kernel`): non-vacuity examples.
-/
import MV.Lemmas.ImportGrid
namespace MV
open Gen

instance decChain : (t : Rat) → (l : List Item) → Decidable (Chain t l)
  | _, [] => isTrue trivial
  | t, n :: r =>
      have := decChain n.stop r
      (inferInstance : Decidable (t ≤ n.start ∧ n.start < n.stop ∧ Chain n.stop r))

instance (T : List Rat) : Decidable (FineSet T) := by unfold FineSet; exact inferInstance

instance (Tset : List Rat) (I : List Item) : Decidable (VoiceOK Tset I) :=
  decidable_of_iff (Chain 0 I ∧ ∀ n ∈ I, n.start ∈ Tset ∧ n.stop ∈ Tset)
    ⟨fun ⟨a, b⟩ => ⟨a, b⟩, fun h => ⟨h.chain, h.mem⟩⟩

instance decBarsOK (Tset : List Rat) : (T : Rat) → (l : List (Chord × (Rat × Rat))) → Decidable (BarsOK Tset T l)
  | T, [] => (inferInstance : Decidable (T ∈ Tset))
  | T, (ch, bar) :: rest =>
      have := decBarsOK Tset (T + ch.dur) rest
      (inferInstance : Decidable ((0 ≤ ch.elem ∧ ch.elem < 7) ∧ ch.dur = bar.2 - bar.1 ∧ 0 < ch.dur ∧ T ∈ Tset ∧ BarsOK Tset (T + ch.dur) rest))

instance (name : Item → String) (l : List Item) : Decidable (NameOK name l) := by unfold NameOK; exact inferInstance
instance (ins : List (Int × String)) (l : List Item) : Decidable (NoDrum ins l) := by unfold NoDrum; exact inferInstance

end MV
