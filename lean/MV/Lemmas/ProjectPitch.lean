/-
Lemmas for C13 (pitch keeping): `Chord.parse` then `Chord.to_pitch` is the identity; the pitch calculus
reads only the chord symbol; re-notation in absolute / scale notes keeps the sounding pitch.
-/
import MV.Props.C01
import MV.Lemmas.ProjectKeep
namespace MV.Proj
open MV Gen MV.C01

/-! ### the pitch calculus only reads the chord symbol, never the parts -/

section
variable (c : Chord) (ps : List (String × Melody)) (n : Note)

theorem basicPitch_parts : basicPitch ({c with parts := ps} : Chord) n = basicPitch c n := by
  unfold basicPitch Note.realChord; cases n.mode <;> rfl

theorem pitchKey_parts : pitchKey ({c with parts := ps} : Chord) = pitchKey c := by
  funext n; unfold pitchKey; rw [basicPitch_parts]

theorem reqPitch_parts : reqPitch ({c with parts := ps} : Chord) = reqPitch c := by
  funext n; unfold reqPitch; rw [basicPitch_parts]

theorem calc_parts (fig : Fig) (r a m : List String) :
    Chord.chordNotesCalc ({c with parts := ps} : Chord) fig r a m = Chord.chordNotesCalc c fig r a m := by
  unfold Chord.chordNotesCalc; rw [reqPitch_parts, pitchKey_parts]

theorem chordPitches_parts : Chord.chordPitches ({c with parts := ps} : Chord) = Chord.chordPitches c := by
  unfold Chord.chordPitches Chord.chordNotes pitchesOf
  simp only [calc_parts, reqPitch_parts]

theorem extensionPitches_parts : Chord.extensionPitches ({c with parts := ps} : Chord) = Chord.extensionPitches c := by
  unfold Chord.extensionPitches Chord.extensionNotes pitchesOf
  simp only [calc_parts, reqPitch_parts]

theorem noteToPitch_parts (last : Int) : noteToPitch ({c with parts := ps} : Chord) n last = noteToPitch c n last := by
  unfold noteToPitch
  simp only [basicPitch_parts, chordPitches_parts, extensionPitches_parts]
  cases n.kind <;> first | rfl | (unfold Note.realChord; cases n.mode <;> rfl)

theorem toPitch_parts (last : Option Int) : Chord.toPitch ({c with parts := ps} : Chord) n last = Chord.toPitch c n last := by
  unfold Chord.toPitch
  simp only [noteToPitch_parts]
end

theorem degSemitone_mono (L : List Int) (h : ScaleOK L) (j k : Nat) : degSemitone L j ≤ degSemitone L (j + k) := by
  induction k with
  | zero => exact Int.le_refl _
  | succ k ih =>
    have := degSemitone_succ L h (j + k)
    rw [← Nat.add_assoc]; omega

theorem degSemitone_lt_octave (L : List Int) (h : ScaleOK L) (j i : Nat) (hi : i < 7) :
    degSemitone L j ≤ degSemitone L (j + i) ∧ degSemitone L (j + i) < degSemitone L j + 12 := by
  refine ⟨degSemitone_mono L h j i, ?_⟩
  have h1 := degSemitone_octave L j
  have h2 : degSemitone L (j + i) < degSemitone L (j + 7) := by
    have hm := degSemitone_mono L h (j + i + 1) (6 - i)
    have hs := degSemitone_succ L h (j + i)
    have e : j + i + 1 + (6 - i) = j + 7 := by omega
    rw [e] at hm; omega
  omega

theorem toPitch_plain (c : Chord) (n : Note) (hk : n.kind = .s ∨ n.kind = .h ∨ n.kind = .a) :
    c.toPitch n none = noteToPitch c n 0 := by
  unfold Chord.toPitch
  rcases hk with hk | hk | hk <;> simp [hk, Kind.isNote, Kind.isRelative]

theorem rootPitch_plain (c : Chord) (n : Note) (hm : n.mode = none) (he : 0 ≤ c.elem ∧ c.elem < 7) :
    rootPitch c n = c.scalePitches.getD 0 0 := by
  have hL : (SCALES c.ton.mode).length = 7 := scales_len _
  have hg0 := scalePitches_getD c 0 hL he (by omega)
  simp only [rootPitch, effMode, hm, Option.getD_none, hg0, Tonality.absDegree, Nat.add_zero]

/-- `Chord.parse` then `Chord.to_pitch` is the identity on pitches (any duration, dynamics, tags put on the
parsed note) -/
theorem parse_roundtrip (c : Chord) (p : Int) (q : Note) (he : 0 ≤ c.elem ∧ c.elem < 7) (h : c.parse p = .ok q)
    (d amp : Rat) (tags : List String) :
    c.toPitch { q with dur := d, amp := amp, tags := tags } none = .ok (some p) := by
  have hL : (SCALES c.ton.mode).length = 7 := scales_len _
  have hok := scales_ok c.ton.mode
  have hlen := scalePitches_length c hL he
  have hg0 := scalePitches_getD c 0 hL he (by omega)
  unfold Chord.parse at h
  simp only [] at h
  split at h
  · -- the pitch class belongs to the chord scale
    simp only [bind, Except.bind, pure, Except.pure] at h
    rw [pyIndex_nonneg _ 0 0 (by omega) (by omega)] at h
    simp only [Int.toNat_zero] at h
    split at h
    · simp at h
    · rename_i idx hidx
      simp only [Except.ok.injEq] at h
      subst h
      obtain ⟨hlt, hp, _⟩ := List.findIdx?_eq_some_iff_getElem.mp hidx
      simp only [List.length_map] at hlt
      have hi7 : idx < 7 := by omega
      simp only [List.getElem_map, beq_iff_eq] at hp
      have hgi := scalePitches_getD c idx hL he hi7
      have hget : c.scalePitches.getD idx 0 = c.scalePitches[idx] := by
        simp [List.getD_eq_getElem?_getD, List.getElem?_eq_getElem (by omega : idx < c.scalePitches.length)]
      have hb := degSemitone_lt_octave (SCALES c.ton.mode) hok c.elem.toNat idx hi7
      rw [toPitch_plain _ _ (Or.inl rfl), pitch_scale c _ 0 rfl rfl he]
      simp only [effMode, Option.getD_none]
      congr 2
      simp only [Int.ofNat_eq_natCast]
      have e1 : ((idx : Int) % 7).toNat = idx := by omega
      have e2 : (idx : Int) / 7 = 0 := by omega
      rw [e1, e2]
      simp only [Tonality.absDegree] at hg0 hgi
      rw [hget] at hgi
      rw [hg0]
      simp only [Nat.add_zero] at *
      omega
  · -- chromatic spelling above the chord root
    rename_i hnot
    unfold Chord.chromaticPitches at h
    simp only [bind, Except.bind, pure, Except.pure] at h
    rw [pyIndex_nonneg _ 0 0 (by omega) (by omega)] at h
    simp only [Int.toNat_zero] at h
    rw [pyIndex_nonneg _ 0 0 (by omega) (by simp)] at h
    simp only [Int.toNat_zero] at h
    split at h
    · simp at h
    · rename_i idx hidx
      simp only [Except.ok.injEq] at h
      subst h
      obtain ⟨hlt, hp, _⟩ := List.findIdx?_eq_some_iff_getElem.mp hidx
      simp only [List.length_map, List.length_range] at hlt
      simp only [List.getElem_map, List.getElem_range, beq_iff_eq] at hp
      rw [toPitch_plain _ _ (Or.inr (Or.inl rfl)), pitch_chromatic c _ 0 rfl he]
      congr 2
      rw [rootPitch_plain c _ rfl he]
      have hc0 := chromatic_getD (c.scalePitches.getD 0 0) 0 (by omega)
      rw [hc0]
      simp only [Int.ofNat_eq_natCast] at hp ⊢
      omega

/-! ### what sounds: pitch and velocity of absolute notes -/

/-- pitch (middle C = 0) and velocity of a note written in absolute form -/
def πp (n : Note) : Int × Int := (n.val + 12 * n.oct, n.amp.floor)

/-- a note in absolute form: every pitched note is an `a` note -/
def AbsN (n : Note) : Prop := n.kind.isNote = true → n.kind = .a

/-- the absolute reading of a note in its chord -/
def absNote (c : Chord) (n : Note) : Note :=
  if n.kind.isNote then
    match c.toPitch n none with
    | .ok (some p) => { n with kind := .a, val := p, oct := 0 }
    | _ => n
  else n

def absChord (c : Chord) : Chord := { c with parts := c.parts.map (fun q => (q.1, q.2.map (absNote c))) }

/-- the absolute reading of a score: every pitched note replaced by the pitch it has in its chord -/
def absView (s : Score) : Score := s.map absChord

theorem toPitch_abs (c : Chord) (n : Note) (last : Option Int) (hk : n.kind = .a) :
    c.toPitch n last = .ok (some (n.val + 12 * n.oct)) := by
  unfold Chord.toPitch
  simp only [hk, Kind.isNote, Kind.isRelative, reduceCtorEq, if_false, Bool.not_true, Bool.false_eq_true]
  exact pitch_absolute c n 0 hk

theorem noteToAbsolute_abs (c : Chord) (n n' : Note) (last : Option Int) (ha : AbsN n)
    (h : noteToAbsolute c n last = .ok n') : RN πp n' n ∧ AbsN n' := by
  unfold noteToAbsolute at h
  by_cases hk : n.kind.isNote = true
  · have hka := ha hk
    simp only [hk, Bool.not_true, Bool.false_eq_true, if_false, toPitch_abs c n last hka, bind, Except.bind,
      pure, Except.pure, Except.ok.injEq] at h
    subst h
    refine ⟨⟨rfl, ?_, ?_⟩, fun _ => rfl⟩
    · simp [cls, hka]
    · simp only [πp, sym]; congr 1; omega
  · simp only [hk, Bool.not_false, if_true, Except.ok.injEq] at h
    subst h
    exact ⟨⟨rfl, rfl, rfl⟩, ha⟩

theorem noteToScale_abs (c : Chord) (n n' : Note) (he : 0 ≤ c.elem ∧ c.elem < 7) (ha : AbsN n)
    (h : noteToScale c n = .ok n') : RN πp (absNote c n') n := by
  unfold noteToScale at h
  by_cases hk : n.kind.isNote = true
  · have hka := ha hk
    simp only [hk, Bool.not_true, Bool.false_eq_true, if_false, toPitch_abs c n none hka, bind, Except.bind] at h
    cases hq : c.parse (n.val + 12 * n.oct) with
    | error e => rw [hq] at h; simp at h
    | ok q =>
      rw [hq] at h
      simp only [pure, Except.pure, Except.ok.injEq] at h
      subst h
      have hrt := parse_roundtrip c _ q he hq n.dur ((n.amp.floor : Int) : Rat) n.tags
      have hqk := parse_kind c _ q hq
      have hisn : ({ q with dur := n.dur, amp := ((n.amp.floor : Int) : Rat), tags := n.tags } : Note).kind.isNote = true := by
        rcases hqk with hh | hh <;> simp [hh, Kind.isNote]
      unfold absNote
      simp only [hisn, if_true, hrt]
      refine ⟨rfl, ?_, ?_⟩
      · simp [cls, hka]
      · simp only [πp, sym, Rat.floor_intCast]; congr 1; omega
  · simp only [hk, Bool.not_false, if_true, Except.ok.injEq] at h
    subst h
    unfold absNote
    simp only [hk, Bool.false_eq_true, if_false]
    exact ⟨rfl, rfl, rfl⟩


theorem mapM_rel_mem {α β : Type} (R : β → α → Prop) (f : α → Res β) (l : List α) (r : List β)
    (hf : ∀ x ∈ l, ∀ y, f x = .ok y → R y x) (h : l.mapM f = .ok r) : All₂ R r l := by
  induction l generalizing r with
  | nil => simp [List.mapM_nil, pure, Except.pure] at h; subst h; exact All₂.nil
  | cons x xs ih =>
    rw [List.mapM_cons] at h
    obtain ⟨a, ha, h⟩ := bind_ok h
    obtain ⟨b, hb, h⟩ := bind_ok h
    simp [pure, Except.pure] at h
    subst h
    exact All₂.cons (hf x (by simp) a ha) (ih b (fun y hy => hf y (by simp [hy])) hb)

theorem All₂.map_rel {α β γ : Type} {R : γ → β → Prop} (g : α → γ) {l : List α} {m : List β}
    (h : All₂ (fun a b => R (g a) b) l m) : All₂ R (l.map g) m := by
  induction h with
  | nil => exact All₂.nil
  | cons h1 _ ih => exact All₂.cons h1 ih

theorem absNote_parts (c : Chord) (ps : List (String × Melody)) (n : Note) :
    absNote ({ c with parts := ps } : Chord) n = absNote c n := by
  unfold absNote; rw [toPitch_parts]

/-- `Chord.to_scale_notes` on a chord in absolute form: the absolute reading of the result is the chord -/
theorem chordToScale_abs (c c' : Chord) (he : 0 ≤ c.elem ∧ c.elem < 7) (ha : ∀ q ∈ c.parts, ∀ n ∈ q.2, AbsN n)
    (h : chordToScale c = .ok c') : RC πp (absChord c') c := by
  unfold chordToScale at h
  obtain ⟨parts, hp, h⟩ := bind_ok h
  simp only [pure, Except.pure, Except.ok.injEq] at h
  subst h
  unfold absChord RC RP
  simp only []
  apply All₂.map_rel
  apply mapM_rel_mem _ _ _ _ _ hp
  intro x hx y hxy
  obtain ⟨m, hm, hxy⟩ := bind_ok hxy
  simp only [pure, Except.pure, Except.ok.injEq] at hxy
  subst hxy
  refine ⟨rfl, ?_⟩
  simp only []
  apply All₂.map_rel
  apply mapM_rel_mem _ _ _ _ _ hm
  intro n hn n' hnn'
  rw [absNote_parts]
  exact noteToScale_abs c n n' he (ha x hx n hn) hnn'

/-- every note of the score satisfies `P` -/
def NotesP (P : Note → Prop) (s : Score) : Prop := ∀ c ∈ s, ∀ q ∈ c.parts, ∀ n ∈ q.2, P n

theorem melodyToAbsolute_abs (c : Chord) (m m' : Melody) (last l' : Option Int) (ha : ∀ n ∈ m, AbsN n)
    (h : melodyToAbsolute c m last = .ok (m', l')) : All₂ (RN πp) m' m ∧ ∀ n ∈ m', AbsN n := by
  induction m generalizing m' last l' with
  | nil => simp [melodyToAbsolute] at h; rw [h.1]; exact ⟨All₂.nil, fun n hn => by simp at hn⟩
  | cons n ns ih =>
    unfold melodyToAbsolute at h
    obtain ⟨n', hn, h⟩ := bind_ok h
    obtain ⟨tmp, _, h⟩ := bind_ok h
    obtain ⟨r, hr, h⟩ := bind_ok h
    obtain ⟨rest, le⟩ := r
    simp only [pure, Except.pure, Except.ok.injEq, Prod.mk.injEq] at h
    obtain ⟨rfl, rfl⟩ := h
    have h1 := noteToAbsolute_abs c n n' last (ha n (by simp)) hn
    have h2 := ih _ _ _ (fun x hx => ha x (by simp [hx])) hr
    refine ⟨All₂.cons h1.1 h2.1, ?_⟩
    intro x hx
    simp only [List.mem_cons] at hx
    rcases hx with hx | hx
    · subst hx; exact h1.2
    · exact h2.2 x hx

theorem chordToAbsolute_go_abs (c : Chord) (ps ps' : List (String × Melody)) (lasts l' : List (String × Int))
    (ha : ∀ q ∈ ps, ∀ n ∈ q.2, AbsN n)
    (h : chordToAbsolute.go c ps lasts = .ok (ps', l')) : RP πp ps' ps ∧ ∀ q ∈ ps', ∀ n ∈ q.2, AbsN n := by
  induction ps generalizing ps' lasts l' with
  | nil => simp [chordToAbsolute.go] at h; rw [h.1]; exact ⟨All₂.nil, fun q hq => by simp at hq⟩
  | cons q qs ih =>
    obtain ⟨p, m⟩ := q
    unfold chordToAbsolute.go at h
    obtain ⟨r, hr, h⟩ := bind_ok h
    obtain ⟨m', lm⟩ := r
    obtain ⟨r2, hr2, h⟩ := bind_ok h
    obtain ⟨rest, le⟩ := r2
    simp only [pure, Except.pure, Except.ok.injEq, Prod.mk.injEq] at h
    obtain ⟨rfl, rfl⟩ := h
    have h1 := melodyToAbsolute_abs c m m' _ _ (ha (p, m) (by simp)) hr
    have h2 := ih _ _ _ (fun x hx => ha x (by simp [hx])) hr2
    refine ⟨All₂.cons ⟨rfl, h1.1⟩ h2.1, ?_⟩
    intro x hx
    simp only [List.mem_cons] at hx
    rcases hx with hx | hx
    · subst hx; exact h1.2
    · exact h2.2 x hx

theorem scoreToAbsolute_go_abs (s A : List Chord) (lasts : List (String × Int)) (ha : NotesP AbsN s)
    (h : scoreToAbsolute.go s lasts = .ok A) : RS πp A s ∧ NotesP AbsN A ∧ A.map header = s.map header := by
  induction s generalizing A lasts with
  | nil => simp [scoreToAbsolute.go] at h; subst h; exact ⟨All₂.nil, fun c hc => by simp at hc, rfl⟩
  | cons c cs ih =>
    unfold scoreToAbsolute.go at h
    obtain ⟨r, hr, h⟩ := bind_ok h
    obtain ⟨c', l'⟩ := r
    obtain ⟨rest, hrest, h⟩ := bind_ok h
    simp only [pure, Except.pure, Except.ok.injEq] at h
    subst h
    unfold chordToAbsolute at hr
    obtain ⟨r2, hr2, hr⟩ := bind_ok hr
    obtain ⟨parts, le⟩ := r2
    simp only [pure, Except.pure, Except.ok.injEq, Prod.mk.injEq] at hr
    obtain ⟨rfl, rfl⟩ := hr
    have h1 := chordToAbsolute_go_abs c _ _ _ _ (ha c (by simp)) hr2
    have h2 := ih _ _ (fun x hx => ha x (by simp [hx])) hrest
    refine ⟨All₂.cons h1.1 h2.1, ?_, by simp only [List.map_cons, h2.2.2]; rfl⟩
    intro x hx
    simp only [List.mem_cons] at hx
    rcases hx with hx | hx
    · subst hx; exact h1.2
    · exact h2.2.1 x hx

/-- whatever the score, `Score.to_absolute_note` returns a score in absolute form -/
theorem noteToAbsolute_form (c : Chord) (n n' : Note) (last : Option Int) (h : noteToAbsolute c n last = .ok n') : AbsN n' := by
  unfold noteToAbsolute at h
  by_cases hk : n.kind.isNote = true
  · simp only [hk, Bool.not_true, Bool.false_eq_true, if_false] at h
    obtain ⟨r, _, h⟩ := bind_ok h
    cases r with
    | none => simp at h
    | some pch =>
      simp only [pure, Except.pure, Except.ok.injEq] at h
      subst h
      exact fun _ => rfl
  · simp only [hk, Bool.not_false, if_true, Except.ok.injEq] at h
    subst h
    exact fun hh => absurd hh hk


theorem melodyToAbsolute_form (c : Chord) (m m' : Melody) (last l' : Option Int)
    (h : melodyToAbsolute c m last = .ok (m', l')) : ∀ n ∈ m', AbsN n := by
  induction m generalizing m' last l' with
  | nil => simp [melodyToAbsolute] at h; rw [h.1]; exact fun n hn => by simp at hn
  | cons n ns ih =>
    unfold melodyToAbsolute at h
    obtain ⟨n', hn, h⟩ := bind_ok h
    obtain ⟨tmp, _, h⟩ := bind_ok h
    obtain ⟨r, hr, h⟩ := bind_ok h
    obtain ⟨rest, le⟩ := r
    simp only [pure, Except.pure, Except.ok.injEq, Prod.mk.injEq] at h
    obtain ⟨rfl, rfl⟩ := h
    intro x hx
    simp only [List.mem_cons] at hx
    rcases hx with hx | hx
    · subst hx; exact noteToAbsolute_form c n _ last hn
    · exact ih _ _ _ hr x hx

theorem chordToAbsolute_go_form (c : Chord) (ps ps' : List (String × Melody)) (lasts l' : List (String × Int))
    (h : chordToAbsolute.go c ps lasts = .ok (ps', l')) : ∀ q ∈ ps', ∀ n ∈ q.2, AbsN n := by
  induction ps generalizing ps' lasts l' with
  | nil => simp [chordToAbsolute.go] at h; rw [h.1]; exact fun q hq => by simp at hq
  | cons q qs ih =>
    obtain ⟨p, m⟩ := q
    unfold chordToAbsolute.go at h
    obtain ⟨r, hr, h⟩ := bind_ok h
    obtain ⟨m', lm⟩ := r
    obtain ⟨r2, hr2, h⟩ := bind_ok h
    obtain ⟨rest, le⟩ := r2
    simp only [pure, Except.pure, Except.ok.injEq, Prod.mk.injEq] at h
    obtain ⟨rfl, rfl⟩ := h
    intro x hx
    simp only [List.mem_cons] at hx
    rcases hx with hx | hx
    · subst hx; exact melodyToAbsolute_form c m m' _ _ hr
    · exact ih _ _ _ hr2 x hx

theorem scoreToAbsolute_go_form (s A : List Chord) (lasts : List (String × Int))
    (h : scoreToAbsolute.go s lasts = .ok A) : NotesP AbsN A := by
  induction s generalizing A lasts with
  | nil => simp [scoreToAbsolute.go] at h; subst h; exact fun c hc => by simp at hc
  | cons c cs ih =>
    unfold scoreToAbsolute.go at h
    obtain ⟨r, hr, h⟩ := bind_ok h
    obtain ⟨c', l'⟩ := r
    obtain ⟨rest, hrest, h⟩ := bind_ok h
    simp only [pure, Except.pure, Except.ok.injEq] at h
    subst h
    unfold chordToAbsolute at hr
    obtain ⟨r2, hr2, hr⟩ := bind_ok hr
    obtain ⟨parts, le⟩ := r2
    simp only [pure, Except.pure, Except.ok.injEq, Prod.mk.injEq] at hr
    obtain ⟨rfl, rfl⟩ := hr
    intro x hx
    simp only [List.mem_cons] at hx
    rcases hx with hx | hx
    · subst hx; exact chordToAbsolute_go_form c _ _ _ _ hr2
    · exact ih _ _ hrest x hx

/-- `Score.to_absolute_note` always returns a score in absolute form -/
theorem scoreToAbsolute_form (s A : Score) (h : scoreToAbsolute s = .ok A) : NotesP AbsN A :=
  scoreToAbsolute_go_form s A [] h

/-! ### slicing keeps note properties that do not depend on the duration -/

/-- `P` holds for rests and continuations and does not look at durations -/
structure Stable (P : Note → Prop) : Prop where
  sil : ∀ d, P (silence d)
  cont : ∀ d, P (continuation d)
  dur : ∀ n d, P n → P { n with dur := d }

theorem cutSpec_P (P : Note → Prop) (hP : Stable P) (m : List Note) (t a b : Rat) (h : ∀ n ∈ m, P n) :
    ∀ n ∈ cutSpec m t a b, P n := by
  induction m generalizing t with
  | nil => intro n hn; simp [cutSpec] at hn
  | cons x xs ih =>
    intro n hn
    simp only [cutSpec, List.mem_append] at hn
    rcases hn with hn | hn
    · unfold cutNote at hn
      split at hn
      · simp at hn
      · split at hn
        · split at hn
          · simp at hn
          · simp only [Option.toList_some, List.mem_singleton] at hn; subst hn; exact hP.cont _
        · simp only [Option.toList_some, List.mem_singleton] at hn; subst hn; exact hP.dur _ _ (h x (by simp))
    · exact ih _ (fun y hy => h y (by simp [hy])) n hn

theorem sliceSpec_P (P : Note → Prop) (hP : Stable P) (s : List Chord) (u a b : Rat) (h : NotesP P s) :
    NotesP P (sliceSpec s u a b) := by
  induction s generalizing u with
  | nil => intro c hc; simp [sliceSpec] at hc
  | cons c cs ih =>
    intro x hx
    simp only [sliceSpec, List.mem_append] at hx
    rcases hx with hx | hx
    · split at hx
      · simp at hx
      · simp only [List.mem_singleton] at hx
        subst hx
        intro q hq n hn
        unfold cutChord at hq
        simp only [List.mem_map] at hq
        obtain ⟨q0, hq0, rfl⟩ := hq
        exact cutSpec_P P hP q0.2 _ _ _ (h c (by simp) q0 hq0) n hn
    · exact ih _ (fun y hy => h y (by simp [hy])) x hx

theorem gather_P (P : Note → Prop) (hP : Stable P) (s : List Chord) (p : String) (h : NotesP P s) :
    ∀ n ∈ gather s p, P n := by
  intro n hn
  unfold gather at hn
  simp only [List.mem_flatMap] at hn
  obtain ⟨c, hc, hn⟩ := hn
  cases hl : c.parts.lookup p with
  | some m => rw [hl] at hn; exact h c hc (p, m) (lookup_mem _ _ _ hl) n hn
  | none =>
    rw [hl] at hn
    simp only [List.mem_singleton] at hn
    subst hn; exact hP.sil _

theorem projSpec_P (P : Note → Prop) (hP : Stable P) (src : Score) (tgt : List Chord) (a : Rat) (h : NotesP P src) :
    NotesP P (projSpec src tgt a) := by
  induction tgt generalizing a with
  | nil => intro c hc; simp [projSpec] at hc
  | cons c2 cs ih =>
    intro x hx
    simp only [projSpec] at hx
    split at hx
    · simp at hx
    · simp only [List.mem_cons] at hx
      rcases hx with hx | hx
      · subst hx
        intro q hq n hn
        unfold windowChord at hq
        simp only [List.mem_map] at hq
        obtain ⟨p, _, rfl⟩ := hq
        exact gather_P P hP _ p (sliceSpec_P P hP src 0 _ _ h) n hn
      · exact ih _ x hx

theorem absN_stable : Stable AbsN :=
  ⟨fun _ hh => by simp [silence, Kind.isNote] at hh, fun _ hh => by simp [continuation, Kind.isNote] at hh,
   fun _ _ h => h⟩

theorem projSpec_elem (src : Score) (tgt : List Chord) (a : Rat) (h : ∀ c ∈ tgt, 0 ≤ c.elem ∧ c.elem < 7) :
    ∀ c ∈ projSpec src tgt a, 0 ≤ c.elem ∧ c.elem < 7 := by
  induction tgt generalizing a with
  | nil => intro c hc; simp [projSpec] at hc
  | cons c2 cs ih =>
    intro x hx
    simp only [projSpec] at hx
    split at hx
    · simp at hx
    · simp only [List.mem_cons] at hx
      rcases hx with hx | hx
      · subst hx; exact h c2 (by simp)
      · exact ih _ (fun y hy => h y (by simp [hy])) x hx


theorem All₂.trans' {α β γ : Type} {R : α → β → Prop} {S : β → γ → Prop} {T : α → γ → Prop}
    (hT : ∀ a b c, R a b → S b c → T a c) {l : List α} {m : List β} {o : List γ}
    (h1 : All₂ R l m) (h2 : All₂ S m o) : All₂ T l o := by
  induction h1 generalizing o with
  | nil => cases h2; exact All₂.nil
  | cons hab _ ih =>
    cases h2 with
    | cons hbc hrest => exact All₂.cons (hT _ _ _ hab hbc) (ih hrest)

theorem RN.trans {β : Type} {π : Note → β} {a b c : Note} (h1 : RN π a b) (h2 : RN π b c) : RN π a c :=
  ⟨h1.1.trans h2.1, h1.2.1.trans h2.2.1, h1.2.2.trans h2.2.2⟩

theorem RP.trans {β : Type} {π : Note → β} {P Q S : List (String × Melody)} (h1 : RP π P Q) (h2 : RP π Q S) : RP π P S := by
  unfold RP at *
  refine All₂.trans' ?_ h1 h2
  intro a b c hab hbc
  refine ⟨hab.1.trans hbc.1, ?_⟩
  exact All₂.trans' (T := RN π) (fun x y z (hxy : RN π x y) (hyz : RN π y z) => RN.trans hxy hyz) hab.2 hbc.2

theorem RS.trans {β : Type} {π : Note → β} {s1 s2 s3 : Score} (h1 : RS π s1 s2) (h2 : RS π s2 s3) : RS π s1 s3 := by
  unfold RS at *
  refine All₂.trans' ?_ h1 h2
  intro a b c hab hbc
  exact RP.trans hab hbc

theorem mapM_chordToScale_abs (A R : Score) (he : ∀ c ∈ A, 0 ≤ c.elem ∧ c.elem < 7) (ha : NotesP AbsN A)
    (h : A.mapM chordToScale = .ok R) : RS πp (absView R) A := by
  unfold absView
  apply All₂.map_rel
  apply mapM_rel_mem _ _ _ _ _ h
  intro c hc c' hcc'
  exact chordToScale_abs c c' (he c hc) (ha c hc) hcc'

/-- `Score.to_scale_note` on a score in absolute form: read back in absolute terms, the result is the score -/
theorem scoreToScale_abs (X R : Score) (he : ∀ c ∈ X, 0 ≤ c.elem ∧ c.elem < 7) (ha : NotesP AbsN X)
    (h : scoreToScale X = .ok R) : RS πp (absView R) X := by
  unfold scoreToScale at h
  obtain ⟨A, hA, h⟩ := bind_ok h
  have h1 := scoreToAbsolute_go_abs X A [] ha hA
  have heA : ∀ c ∈ A, 0 ≤ c.elem ∧ c.elem < 7 := by
    intro c hc
    have hh := h1.2.2
    obtain ⟨i, hi, rfl⟩ := List.getElem_of_mem hc
    have hl : A.length = X.length := All₂.length h1.1
    have : header A[i] = header (X[i]'(by omega)) := by
      have := congrArg (fun l => l[i]?) hh
      simp only [List.getElem?_map, List.getElem?_eq_getElem hi, List.getElem?_eq_getElem (by omega : i < X.length),
        Option.map_some, Option.some.injEq] at this
      exact this
    have hx := he (X[i]'(by omega)) (List.getElem_mem _)
    simp only [header, Prod.mk.injEq] at this
    rw [this.1]; exact hx
  exact (mapM_chordToScale_abs A R heA h1.2.1 h).trans h1.1


/-- **pitch keeping, plain projection**: read back in absolute terms (every note replaced by the pitch it has in
its — the target's — chord), the result shows at every instant before the common end the pitch, velocity and
onset that the absolute re-notation `A` of the source shows, and nothing afterwards -/
theorem keepPitch_plain (src tgt res : Score) (f : Flags) (hkp : f.keepPitch = true) (hvl : f.voiceLeading = false)
    (hks : f.keepScore = false)
    (hs : ∀ c ∈ src, EqualParts c) (ht : ∀ c ∈ tgt, 0 < c.dur) (he : ∀ c ∈ tgt, 0 ≤ c.elem ∧ c.elem < 7)
    (h : projectOnScore src tgt f = .ok (some res)) :
    ∃ A, scoreToAbsolute src = .ok A ∧ ∀ p τ, 0 ≤ τ →
      evMap πp (den none (gather (absView res) p) 0 τ) =
        if τ < min (scoreDuration src) (scoreDuration tgt) then evMap πp (den none (gather A p) 0 τ) else none := by
  unfold projectOnScore at h
  obtain ⟨S0, h0, hA⟩ := bind_ok h
  obtain ⟨A, h1, hB⟩ := bind_ok hA
  obtain ⟨r2, h2, hC⟩ := bind_ok hB
  obtain ⟨r3, h3, hD⟩ := bind_ok hC
  clear h hA hB hC
  have e3 : r3 = r2 := by
    unfold stageKeepScore at h3
    simp only [hks, Bool.false_eq_true, if_false, Except.ok.injEq] at h3
    exact h3.symm
  subst e3
  have hAbs : scoreToAbsolute src = .ok A := by
    unfold stageAbsolute at h1
    simpa only [hkp, if_true] using h1
  refine ⟨A, hAbs, ?_⟩
  have hrelA := scoreToAbsolute_rel src A hAbs
  have hsA : ∀ c ∈ A, EqualParts c := hrelA.1.symm.equalParts hs
  unfold stageProject at h2
  simp only [hvl, Bool.false_eq_true, if_false] at h2
  rw [projectPlain_eq A tgt (fun c hc => (hsA c hc).wf) (fun c hc => by have := ht c hc; grind)] at h2
  simp only [Except.ok.injEq] at h2
  subst h2
  unfold stageScale at hD
  simp only [hkp, if_true] at hD
  split at hD
  · simp at hD
  · rename_i X hX
    split at hX
    · simp at hX
    · simp only [Option.some.injEq] at hX
      subst hX
      obtain ⟨R, hR, hD⟩ := bind_ok hD
      simp only [pure, Except.pure, Except.ok.injEq, Option.some.injEq] at hD
      subst hD
      have hform : NotesP AbsN (projSpec A tgt 0) := projSpec_P AbsN absN_stable A tgt 0 (scoreToAbsolute_form src A hAbs)
      have hrel := scoreToScale_abs (projSpec A tgt 0) R (projSpec_elem A tgt 0 he) hform hR
      intro p τ hτ
      rw [hrel.denRel p τ]
      have hd := projSpec_den A tgt p 0 hsA ht (by grind) τ hτ
      rw [carryAt_early _ _ _ _ (by grind)] at hd
      have e : (0 : Rat) + scoreDuration tgt = scoreDuration tgt := by grind
      rw [hd, e, hrelA.1.sdur, evMap_ite]

/-! ### voice-leading mode: it never fails, and on absolute notes it is the plain projection -/

/-- tonic pitch classes 0..11 (what `Tonality` holds) -/
def TonOK (s : Score) : Prop := ∀ c ∈ s, 0 ≤ c.ton.deg ∧ c.ton.deg < 12

theorem degree_table_total : ∀ k : Nat, k < 12 → (lookupKey (k : Int) DEGREE_TO_SCALE_DEGREE).toOption.isSome = true := by
  decide

theorem offset_ok (c1 c2 : Chord) (h1 : 0 ≤ c1.ton.deg ∧ c1.ton.deg < 12) (h2 : 0 ≤ c2.ton.deg ∧ c2.ton.deg < 12) :
    ∃ v, offsetBetweenChords c1 c2 = .ok v := by
  unfold offsetBetweenChords
  simp only []
  have hk : (c2.ton.deg - c1.ton.deg).natAbs < 12 := by omega
  have := degree_table_total _ hk
  cases hl : lookupKey ((c2.ton.deg - c1.ton.deg).natAbs : Int) DEGREE_TO_SCALE_DEGREE with
  | error e => rw [hl] at this; simp [Except.toOption] at this
  | ok t => exact ⟨_, rfl⟩

theorem mapM_total {α β : Type} (f : α → Res β) (l : List α) (h : ∀ x ∈ l, ∃ y, f x = .ok y) : ∃ r, l.mapM f = .ok r := by
  induction l with
  | nil => exact ⟨[], rfl⟩
  | cons x xs ih =>
    obtain ⟨y, hy⟩ := h x (by simp)
    obtain ⟨r, hr⟩ := ih (fun z hz => h z (by simp [hz]))
    exact ⟨y :: r, by rw [List.mapM_cons, hy, hr]; rfl⟩

theorem projectOnOneChord_total (s : Score) (hne : s ≠ []) (ht : TonOK s) : ∃ r, projectOnOneChord s = .ok r := by
  cases s with
  | nil => exact absurd rfl hne
  | cons c0 cs =>
    obtain ⟨o, ho⟩ := mapM_total (offsetBetweenChords c0) (c0 :: cs)
      (fun x hx => offset_ok c0 x (ht c0 (by simp)) (ht x hx))
    unfold projectOnOneChord
    simp only [ho, bind, Except.bind, pure, Except.pure]
    exact ⟨_, rfl⟩

/-- voice-leading mode never fails on the property's domain -/
theorem projectKeepNotes_total (src tgt : Score) (hs : ∀ c ∈ src, EqualParts c) (hsn : src ≠ [])
    (ht : ∀ c ∈ tgt, 0 < c.dur) (htn : tgt ≠ []) (h1 : TonOK src) (h2 : TonOK tgt) :
    ∃ X, projectKeepNotes src tgt = .ok X := by
  obtain ⟨⟨oc, o1⟩, hr1⟩ := projectOnOneChord_total src hsn h1
  obtain ⟨⟨oc2, offs⟩, hr2⟩ := projectOnOneChord_total tgt htn h2
  have hoc := (projectOnOneChord_spec src oc o1 hs hr1).1
  have hsoc : ∀ c ∈ [oc], EqualParts c := fun c hc => by simp at hc; subst hc; exact hoc.equal
  have hpl := projectPlain_eq [oc] tgt (fun c hc => (hsoc c hc).wf) (fun c hc => by have := ht c hc; grind)
  have hne : projSpec [oc] tgt 0 ≠ [] := by
    obtain ⟨c2, cs, rfl⟩ := List.exists_cons_of_ne_nil htn
    have hd2 := ht c2 (by simp)
    have hpos : ∀ c ∈ [oc], 0 < c.dur := fun c hc => (hsoc c hc).2.2
    have : sliceSpec [oc] 0 0 (0 + c2.dur) ≠ [] := by
      intro hh
      have := (sliceSpec_nil_iff [oc] 0 0 (0 + c2.dur) hpos (by grind) (by grind)).mp hh
      rw [sdur_cons, sdur_nil] at this
      have := hoc.equal.2.2
      grind
    cases hsl : sliceSpec [oc] 0 0 (0 + c2.dur) with
    | nil => exact absurd hsl this
    | cons x xs => simp [projSpec, hsl]
  unfold projectKeepNotes
  simp only [hr1, hr2, hpl, bind, Except.bind]
  cases hp : projSpec [oc] tgt 0 with
  | nil => exact absurd hp hne
  | cons x xs => exact ⟨_, rfl⟩

theorem noteAnd_abs (n : Note) (k : Int) (h : AbsN n) : noteAnd n k = n := by
  unfold noteAnd
  cases hk : n.kind <;> simp only [] <;> (exfalso; have := h (by simp [hk, Kind.isNote]); simp [hk] at this)

theorem melodyAnd_abs (m : Melody) (k : Int) (h : ∀ n ∈ m, AbsN n) : melodyAnd m k = m := by
  unfold melodyAnd
  conv => rhs; rw [← List.map_id m]
  exact List.map_congr_left (fun n hn => noteAnd_abs n k (h n hn))

theorem chordAnd_abs (c : Chord) (k : Int) (h : ∀ q ∈ c.parts, ∀ n ∈ q.2, AbsN n) : chordAnd c k = c := by
  unfold chordAnd
  have : c.parts.map (fun p => (p.1, melodyAnd p.2 k)) = c.parts := by
    conv => rhs; rw [← List.map_id c.parts]
    exact List.map_congr_left (fun q hq => by rw [melodyAnd_abs q.2 k (h q hq)]; rfl)
  rw [this]

theorem zipMap_abs (l : List Chord) (offs : List Int) (hl : l.length ≤ offs.length) (h : NotesP AbsN l) :
    (l.zip offs).map (fun (x : Chord × Int) => chordAnd x.1 (-x.2)) = l := by
  induction l generalizing offs with
  | nil => rfl
  | cons c cs ih =>
    cases offs with
    | nil => simp at hl
    | cons i is =>
      simp only [List.zip_cons_cons, List.map_cons]
      rw [chordAnd_abs c (-i) (h c (by simp)), ih is (by simpa using hl) (fun x hx => h x (by simp [hx]))]

/-- on a score in absolute form `project_on_one_chord` gathers the lines unchanged -/
theorem oneChord_line_abs (s : List Chord) (offs : List Int) (p : String) (hl : offs.length = s.length) (h : NotesP AbsN s) :
    (s.zip offs).flatMap (fun (x : Chord × Int) => match x.1.parts.lookup p with
        | some m => melodyAnd m x.2
        | none => [silence x.1.dur]) = gather s p := by
  induction s generalizing offs with
  | nil => rfl
  | cons c cs ih =>
    cases offs with
    | nil => simp at hl
    | cons i is =>
      rw [gather_cons]
      simp only [List.zip_cons_cons, List.flatMap_cons]
      rw [ih is (by simpa using hl) (fun x hx => h x (by simp [hx]))]
      congr 1
      cases hlk : c.parts.lookup p with
      | none => rfl
      | some m => exact melodyAnd_abs m i (h c (by simp) (p, m) (lookup_mem _ _ _ hlk))

theorem projectOnOneChord_abs (s : Score) (oc : Chord) (offs : List Int) (hs : ∀ c ∈ s, EqualParts c) (ha : NotesP AbsN s)
    (h : projectOnOneChord s = .ok (oc, offs)) :
    (∀ p τ, den none (gather [oc] p) 0 τ = den none (gather s p) 0 τ) ∧ NotesP AbsN [oc] := by
  cases s with
  | nil => simp [projectOnOneChord] at h
  | cons c0 cs =>
    unfold projectOnOneChord at h
    simp only [] at h
    obtain ⟨o, ho, h⟩ := bind_ok h
    simp only [pure, Except.pure, Except.ok.injEq, Prod.mk.injEq] at h
    obtain ⟨hoc, rfl⟩ := h
    have hlen := mapM_length _ _ _ ho
    have hline : ∀ p, ((c0 :: cs).zip o).flatMap (fun (x : Chord × Int) => match x.1.parts.lookup p with
          | some m => melodyAnd m x.2
          | none => [silence x.1.dur]) = gather (c0 :: cs) p := fun p => oneChord_line_abs (c0 :: cs) o p hlen ha
    have hlk : ∀ p, oc.parts.lookup p = if p ∈ instruments (c0 :: cs) then some (gather (c0 :: cs) p) else none := by
      intro p
      rw [← hoc]
      have := lookup_map_self (instruments (c0 :: cs)) (fun p => ((c0 :: cs).zip o).flatMap
        (fun (x : Chord × Int) => match x.1.parts.lookup p with
          | some m => melodyAnd m x.2
          | none => [silence x.1.dur])) p
      rw [hline p] at this
      exact this
    constructor
    · intro p τ
      have hg1 : gather [oc] p = (match oc.parts.lookup p with | some m => m | none => [silence oc.dur]) := by
        rw [gather_cons]; exact List.append_nil _
      rw [hg1, hlk p]
      by_cases hp : p ∈ instruments (c0 :: cs)
      · rw [if_pos hp]
      · rw [if_neg hp]
        rw [den_rests _ _ _ _ (by intro n hn; simp at hn; subst hn; rfl), den_rests _ _ _ _ (gather_rests _ p hp)]
    · intro c hc q hq n hn
      simp only [List.mem_singleton] at hc
      subst hc
      have hq' := hq
      rw [← hoc] at hq'
      simp only [List.mem_map] at hq'
      obtain ⟨p, _, rfl⟩ := hq'
      simp only [] at hn
      have : n ∈ gather (c0 :: cs) p := by rw [← hline p]; exact hn
      exact gather_P AbsN absN_stable _ p ha n this


/-- what the third block returns on a source in absolute form, in either mode: a score `X` in absolute form on the
target's chords which shows, part by part and instant by instant, the source up to the common end -/
theorem stageProject_abs (A tgt X : Score) (f : Flags) (hsA : ∀ c ∈ A, EqualParts c) (ha : NotesP AbsN A)
    (ht : ∀ c ∈ tgt, 0 < c.dur) (he : ∀ c ∈ tgt, 0 ≤ c.elem ∧ c.elem < 7)
    (h : stageProject tgt f A = .ok (some X)) :
    NotesP AbsN X ∧ (∀ c ∈ X, 0 ≤ c.elem ∧ c.elem < 7) ∧
    ∀ p τ, 0 ≤ τ → den none (gather X p) 0 τ =
      if τ < min (scoreDuration A) (scoreDuration tgt) then den none (gather A p) 0 τ else none := by
  unfold stageProject at h
  cases hvl : f.voiceLeading with
  | false =>
    simp only [hvl, Bool.false_eq_true, if_false] at h
    rw [projectPlain_eq A tgt (fun c hc => (hsA c hc).wf) (fun c hc => by have := ht c hc; grind)] at h
    simp only [Except.ok.injEq] at h
    split at h
    · simp at h
    · simp only [Option.some.injEq] at h
      subst h
      refine ⟨projSpec_P AbsN absN_stable A tgt 0 ha, projSpec_elem A tgt 0 he, ?_⟩
      intro p τ hτ
      have hd := projSpec_den A tgt p 0 hsA ht (by grind) τ hτ
      rw [carryAt_early _ _ _ _ (by grind)] at hd
      have e : (0 : Rat) + scoreDuration tgt = scoreDuration tgt := by grind
      rw [hd, e]
  | true =>
    simp only [hvl, if_true] at h
    obtain ⟨r, hr, h⟩ := bind_ok h
    simp only [pure, Except.pure, Except.ok.injEq, Option.some.injEq] at h
    subst h
    unfold projectKeepNotes at hr
    obtain ⟨r1, h1, hr⟩ := bind_ok hr
    obtain ⟨oc, o1⟩ := r1
    obtain ⟨r2, h2, hr⟩ := bind_ok hr
    obtain ⟨oc2, offs⟩ := r2
    simp only [] at hr
    obtain ⟨r3, h3, hr⟩ := bind_ok hr
    have hoc := (projectOnOneChord_spec A oc o1 hsA h1).1
    have hocabs := projectOnOneChord_abs A oc o1 hsA ha h1
    have hoffs := projectOnOneChord_offs tgt oc2 offs h2
    have hsoc : ∀ c ∈ [oc], EqualParts c := fun c hc => by simp at hc; subst hc; exact hoc.equal
    rw [projectPlain_eq [oc] tgt (fun c hc => (hsoc c hc).wf) (fun c hc => by have := ht c hc; grind)] at h3
    simp only [Except.ok.injEq] at h3
    subst h3
    split at hr
    · simp at hr
    · rename_i proj hproj
      simp only [pure, Except.pure, Except.ok.injEq] at hr
      subst hr
      have hp : proj = projSpec [oc] tgt 0 := by
        split at hproj
        · simp at hproj
        · simp at hproj; exact hproj.symm
      subst hp
      have hform : NotesP AbsN (projSpec [oc] tgt 0) := projSpec_P AbsN absN_stable [oc] tgt 0 hocabs.2
      have hle : (projSpec [oc] tgt 0).length ≤ offs.length := by
        rw [hoffs]; exact projSpec_length_le _ _ _
      have hid : ((projSpec [oc] tgt 0).zip offs).map (fun (x : Chord × Int) => chordAnd x.1 (-x.2)) = projSpec [oc] tgt 0 :=
        zipMap_abs _ _ hle hform
      have hid' : (List.map (fun x => match x with | (c, i) => chordAnd c (-i)) ((projSpec [oc] tgt 0).zip offs)) =
          projSpec [oc] tgt 0 := hid
      rw [hid']
      refine ⟨hform, projSpec_elem [oc] tgt 0 he, ?_⟩
      intro p τ hτ
      have hd := projSpec_den [oc] tgt p 0 hsoc ht (by grind) τ hτ
      rw [carryAt_early _ _ _ _ (by grind)] at hd
      have e : (0 : Rat) + scoreDuration tgt = scoreDuration tgt := by grind
      have hd1 : scoreDuration [oc] = scoreDuration A := by rw [sdur_cons, sdur_nil, hoc.dur]; grind
      rw [hd, e, hd1, hocabs.1 p τ]

/-- **pitch keeping, both modes**: read back in absolute terms (every note replaced by the pitch it has in
its — the target's — chord), the result shows at every instant before the common end the pitch, velocity and
onset that the absolute re-notation `A` of the source shows, and nothing afterwards -/
theorem keepPitch_sound (src tgt res : Score) (f : Flags) (hkp : f.keepPitch = true) (hks : f.keepScore = false)
    (hs : ∀ c ∈ src, EqualParts c) (ht : ∀ c ∈ tgt, 0 < c.dur) (he : ∀ c ∈ tgt, 0 ≤ c.elem ∧ c.elem < 7)
    (h : projectOnScore src tgt f = .ok (some res)) :
    ∃ A, scoreToAbsolute src = .ok A ∧ ∀ p τ, 0 ≤ τ →
      evMap πp (den none (gather (absView res) p) 0 τ) =
        if τ < min (scoreDuration src) (scoreDuration tgt) then evMap πp (den none (gather A p) 0 τ) else none := by
  unfold projectOnScore at h
  obtain ⟨S0, h0, hA⟩ := bind_ok h
  obtain ⟨A, h1, hB⟩ := bind_ok hA
  obtain ⟨r2, h2, hC⟩ := bind_ok hB
  obtain ⟨r3, h3, hD⟩ := bind_ok hC
  clear h hA hB hC
  have e3 : r3 = r2 := by
    unfold stageKeepScore at h3
    simp only [hks, Bool.false_eq_true, if_false, Except.ok.injEq] at h3
    exact h3.symm
  subst e3
  have hAbs : scoreToAbsolute src = .ok A := by
    unfold stageAbsolute at h1
    simpa only [hkp, if_true] using h1
  refine ⟨A, hAbs, ?_⟩
  have hrelA := scoreToAbsolute_rel src A hAbs
  have hsA : ∀ c ∈ A, EqualParts c := hrelA.1.symm.equalParts hs
  obtain ⟨X, rfl⟩ := stageScale_none f r3 res hD
  obtain ⟨hform, helem, hden⟩ := stageProject_abs A tgt X f hsA (scoreToAbsolute_form src A hAbs) ht he h2
  unfold stageScale at hD
  simp only [hkp, if_true] at hD
  obtain ⟨R, hR, hD⟩ := bind_ok hD
  simp only [pure, Except.pure, Except.ok.injEq, Option.some.injEq] at hD
  subst hD
  have hrel := scoreToScale_abs X R helem hform hR
  intro p τ hτ
  rw [hrel.denRel p τ, hden p τ hτ, hrelA.1.sdur, evMap_ite]

end MV.Proj
