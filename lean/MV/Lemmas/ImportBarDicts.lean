/-
C14 importer lemmas 11/15 — `barDicts_spec`: `chord_dict` and `continuations` after a bar, part by part.
-/
import MV.Lemmas.ImportGroups
import MV.Lemmas.ImportVoice
namespace MV
open Gen

/-- `fold_groups` when the result of a group only depends on its name -/
theorem fold_groups_byName (c : Chord) (ts te : Rat) (Rv : String → Melody × Option Note)
    (groups : List Group) (cd : List (String × Melody)) (conts : List (String × Note))
    (hnd : (groups.map (·.1)).Nodup) (hk : (keys conts).Nodup)
    (hall : ∀ g ∈ groups, parseVoice g.2.2 c ts te 1 (conts.lookup g.1) g.2.1 = .ok (Rv g.1)) :
    ∃ cd' conts', groups.foldlM (groupStep c ts te) (cd, conts) = .ok (cd', conts') ∧ (keys conts').Nodup ∧
      ((keys cd).Nodup → (keys cd').Nodup) ∧
      ∀ v, (cd'.lookup v = if v ∈ groups.map (·.1) then some (Rv v).1 else cd.lookup v) ∧
           (conts'.lookup v = if v ∈ groups.map (·.1) then (Rv v).2 else conts.lookup v) := by
  obtain ⟨cd', conts', hf, hk', hcdn, hl⟩ := fold_groups c ts te (fun g => Rv g.1) groups cd conts hnd hk hall
  refine ⟨cd', conts', hf, hk', hcdn, ?_⟩
  intro v
  obtain ⟨h1, h2⟩ := hl v
  cases hfind : groups.find? (fun g => g.1 == v) with
  | none =>
      have hnot : v ∉ groups.map (·.1) := by
        rw [List.find?_eq_none] at hfind
        intro hm
        obtain ⟨g, hg, e⟩ := List.mem_map.mp hm
        exact hfind g hg (by simpa using e)
      rw [hfind] at h1 h2
      simp only [hnot, if_false]
      exact ⟨h1, h2⟩
  | some g =>
      have hgv : g.1 = v := by simpa using List.find?_some hfind
      have hin : v ∈ groups.map (·.1) := by
        rw [← hgv]; exact List.mem_map_of_mem (List.mem_of_find?_eq_some hfind)
      rw [hfind] at h1 h2
      simp only [hin, if_true]
      simp only [] at h1 h2
      rw [hgv] at h1 h2
      exact ⟨h1, h2⟩

end MV

namespace MV
open Gen

/-- the items of the part `v` -/
def voiceItems (name : Item → String) (seq : List Item) (v : String) : List Item := seq.filter (fun n => name n == v)

/-- global hypotheses on the input of the importer (`name` is the part name of an item) -/
structure InputOK (name : Item → String) (instruments : List (Int × String)) (tracks : List Int)
    (Tset : List Rat) (seq : List Item) : Prop where
  names : NameOK name seq
  nodrum : NoDrum instruments seq
  tracksAsc : Asc tracks
  tracksAll : ∀ a ∈ seq, a.track ∈ tracks
  fine : FineSet Tset
  voices : ∀ v, VoiceOK Tset (voiceItems name seq v)

/-- what one bar holds for the part `v` -/
def voiceBar (name : Item → String) (seq : List Item) (c : Chord) (T T' : Rat) (v : String) : Melody × Option Note :=
  (barMelody c T T' (pendingAt T (voiceItems name seq v)) (inBar T T' (voiceItems name seq v)),
   barPending (endOf (contStart T (pendingAt T (voiceItems name seq v))) (inBar T T' (voiceItems name seq v))) T')

/-- the part `v` is written in the bar: a note of it starts there, or a tie is pending -/
def Present (name : Item → String) (seq : List Item) (T T' : Rat) (v : String) : Prop :=
  ¬ (inBar T T' (voiceItems name seq v) = [] ∧ pendingAt T (voiceItems name seq v) = none)

theorem window_filter (name : Item → String) (seq : List Item) (T T' : Rat) (v : String) :
    (seq.filter (fun n => decide (T ≤ n.start) && decide (n.start < T'))).filter (fun n => name n == v)
      = inBar T T' (voiceItems name seq v) := by
  unfold inBar voiceItems
  rw [List.filter_filter, List.filter_filter]
  apply List.filter_congr
  intro x _; exact Bool.and_comm _ _

theorem barPending_nil (T T' : Rat) (h : T < T') : barPending (endOf (contStart T none) []) T' = none := by
  simp only [contStart, endOf, barPending]
  have : ¬ (T' < T) := by grind
  simp [this]

theorem barDicts_spec {instruments : List (Int × String)} {offs : List (Int × Int)} {tracks : List Int} {Tset : List Rat}
    {seq : List Item} (hI : InputOK (voiceName instruments offs) instruments tracks Tset seq)
    (c : Chord) (he : 0 ≤ c.elem ∧ c.elem < 7) (T T' : Rat) (hTT : T < T') (hT : T ∈ Tset) (hT' : T' ∈ Tset)
    (conts0 : List (String × Note)) (hk : (keys conts0).Nodup)
    (hc0 : ∀ v, conts0.lookup v = (pendingAt T (voiceItems (voiceName instruments offs) seq v)).map contNote) :
    ∃ cd conts', barDicts seq instruments offs tracks conts0 c T T' = .ok (cd, conts') ∧ (keys conts').Nodup ∧
      (keys cd).Nodup ∧
      (∀ v, conts'.lookup v = (pendingAt T' (voiceItems (voiceName instruments offs) seq v)).map contNote) ∧
      (∀ v, cd.lookup v = if inBar T T' (voiceItems (voiceName instruments offs) seq v) = [] ∧
                              pendingAt T (voiceItems (voiceName instruments offs) seq v) = none then none
                          else some (voiceBar (voiceName instruments offs) seq c T T' v).1) := by
  obtain ⟨cn, hcn⟩ : ∃ cn, cn = seq.filter (fun n => decide (T ≤ n.start) && decide (n.start < T')) := ⟨_, rfl⟩
  have hsub : ∀ a ∈ cn, a ∈ seq := fun a ha => by rw [hcn] at ha; exact (List.mem_filter.mp ha).1
  have hNcn : NameOK (voiceName instruments offs) cn := fun a ha b hb => hI.names a (hsub a ha) b (hsub b hb)
  have hDcn : NoDrum instruments cn := fun a ha => hI.nodrum a (hsub a ha)
  have hok : ∀ v, BarOK Tset T T' (pendingAt T (voiceItems (voiceName instruments offs) seq v)) (inBar T T' (voiceItems (voiceName instruments offs) seq v)) :=
    fun v => voice_barOK (hI.voices v) hI.fine T T' hTT hT hT'
  have hparse : ∀ v, parseVoice (inBar T T' (voiceItems (voiceName instruments offs) seq v)) c T T' 1 (conts0.lookup v) false
      = .ok (voiceBar (voiceName instruments offs) seq c T T' v) := by
    intro v; rw [hc0 v]; exact parseVoice_chain c he (hok v)
  -- first loop
  have hg1 : ∀ g ∈ barGroups instruments offs tracks cn,
      parseVoice g.2.2 c T T' 1 (conts0.lookup g.1) g.2.1 = .ok (voiceBar (voiceName instruments offs) seq c T T' g.1) := by
    intro g hg
    obtain ⟨_, h2, h3⟩ := barGroups_spec instruments offs tracks cn hNcn hDcn g hg
    rw [h2, h3, hcn, window_filter]; exact hparse g.1
  obtain ⟨cd1, conts1, hf1, hk1, hcdn1, hl1⟩ := fold_groups_byName c T T' (voiceBar (voiceName instruments offs) seq c T T') _ [] conts0
    (barGroups_nodup instruments offs tracks cn hNcn hI.tracksAsc) hk hg1
  have hmemG : ∀ v, v ∈ (barGroups instruments offs tracks cn).map (·.1) ↔ inBar T T' (voiceItems (voiceName instruments offs) seq v) ≠ [] := by
    intro v
    constructor
    · intro hm
      obtain ⟨g, hg, e⟩ := List.mem_map.mp hm
      obtain ⟨h1, h2, _⟩ := barGroups_spec instruments offs tracks cn hNcn hDcn g hg
      rw [h2, hcn, window_filter, e] at h1; exact h1
    · intro hne
      rw [← window_filter, ← hcn] at hne
      obtain ⟨g, hg, e⟩ := barGroups_complete instruments offs tracks cn hNcn (fun a ha => hI.tracksAll a (hsub a ha)) v hne
      rw [← e]; exact List.mem_map_of_mem hg
  -- second loop
  obtain ⟨held, hheldeq⟩ : ∃ held, held = (conts1.map (·.1)).filter (fun v => !(cd1.any (·.1 == v))) := ⟨_, rfl⟩
  have hheld : ∀ v, v ∈ held ↔ (conts1.lookup v ≠ none ∧ cd1.lookup v = none) := by
    intro v
    simp only [hheldeq, List.mem_filter, Bool.not_eq_true', ← Bool.not_eq_true, any_key_iff, lookup_none_iff, ne_eq,
      Decidable.not_not]
  have hheldnd : held.Nodup := by
    have : (conts1.map (·.1)).Nodup := hk1
    rw [hheldeq]; exact this.sublist List.filter_sublist
  have hcd1 : ∀ v, cd1.lookup v = none ↔ inBar T T' (voiceItems (voiceName instruments offs) seq v) = [] := by
    intro v
    rw [(hl1 v).1]
    by_cases hm : v ∈ (barGroups instruments offs tracks cn).map (·.1)
    · simp only [hm, if_true]
      constructor
      · intro h; cases h
      · intro h; exact absurd h ((hmemG v).mp hm)
    · simp only [hm, if_false, List.lookup_nil, true_iff]
      have := (hmemG v).not.mp hm
      simpa using this
  have hconts1 : ∀ v, inBar T T' (voiceItems (voiceName instruments offs) seq v) = [] → conts1.lookup v = conts0.lookup v := by
    intro v hv
    rw [(hl1 v).2]
    have hm : v ∉ (barGroups instruments offs tracks cn).map (·.1) := by
      rw [hmemG]; simpa using hv
    simp only [hm, if_false]
  have hsome : ∀ v ∈ held, (conts1.lookup v).isSome = true := by
    intro v hv
    have := ((hheld v).mp hv).1
    cases h : conts1.lookup v with
    | none => exact absurd h this
    | some _ => rfl
  have hg2 : ∀ g ∈ held.map (fun v => ((v, false, []) : Group)),
      parseVoice g.2.2 c T T' 1 (conts1.lookup g.1) g.2.1 = .ok (voiceBar (voiceName instruments offs) seq c T T' g.1) := by
    intro g hg
    obtain ⟨v, hv, rfl⟩ := List.mem_map.mp hg
    have hnil := (hcd1 v).mp ((hheld v).mp hv).2
    have := hparse v
    rw [hnil] at this
    show parseVoice [] c T T' 1 (conts1.lookup v) false = _
    rw [hconts1 v hnil]; exact this
  have hnames2 : (held.map (fun v => ((v, false, []) : Group))).map (·.1) = held := by
    rw [List.map_map]; exact List.map_id'' (fun _ => rfl) _
  obtain ⟨cd2, conts2, hf2, hk2, hcdn2, hl2⟩ := fold_groups_byName c T T' (voiceBar (voiceName instruments offs) seq c T T') _ cd1 conts1
    (by rw [hnames2]; exact hheldnd) hk1 hg2
  refine ⟨cd2, conts2, ?_, hk2, hcdn2 (hcdn1 (by simp [keys])), ?_, ?_⟩
  · unfold barDicts
    simp only [bind, Except.bind]
    rw [← hcn, hf1]
    simp only []
    rw [← hheldeq, fold_held c T T' held cd1 conts1 hheldnd hsome]
    exact hf2
  · intro v
    rw [(hl2 v).2, hnames2]
    have hps := pending_step (hI.voices v) T T' hTT
    by_cases hv : v ∈ held
    · simp only [hv, if_true]; exact hps
    · simp only [hv, if_false]
      by_cases hnil : inBar T T' (voiceItems (voiceName instruments offs) seq v) = []
      · -- no note, not held: no pending tie
        have h1 := hconts1 v hnil
        have h2 : conts1.lookup v = none := by
          by_contra hne
          exact hv ((hheld v).mpr ⟨hne, (hcd1 v).mpr hnil⟩)
        rw [h2]
        rw [h1, hc0 v] at h2
        have hp : pendingAt T (voiceItems (voiceName instruments offs) seq v) = none := by
          cases hh : pendingAt T (voiceItems (voiceName instruments offs) seq v) with
          | none => rfl
          | some d => rw [hh] at h2; cases h2
        have : barPending (endOf (contStart T (pendingAt T (voiceItems (voiceName instruments offs) seq v))) (inBar T T' (voiceItems (voiceName instruments offs) seq v))) T' = none := by
          rw [hp, hnil]; exact barPending_nil T T' hTT
        rw [← hps, this]
      · rw [(hl1 v).2]
        have hm : v ∈ (barGroups instruments offs tracks cn).map (·.1) := (hmemG v).mpr hnil
        simp only [hm, if_true]; exact hps
  · intro v
    rw [(hl2 v).1, hnames2]
    by_cases hv : v ∈ held
    · simp only [hv, if_true]
      obtain ⟨h1, h2⟩ := (hheld v).mp hv
      have hnil := (hcd1 v).mp h2
      rw [hconts1 v hnil, hc0 v] at h1
      have hp : pendingAt T (voiceItems (voiceName instruments offs) seq v) ≠ none := by
        intro hh; rw [hh] at h1; exact h1 rfl
      simp only [hnil, hp, and_false, if_false]
    · simp only [hv, if_false]
      by_cases hnil : inBar T T' (voiceItems (voiceName instruments offs) seq v) = []
      · have h2 : conts1.lookup v = none := by
          by_contra hne
          exact hv ((hheld v).mpr ⟨hne, (hcd1 v).mpr hnil⟩)
        rw [hconts1 v hnil, hc0 v] at h2
        have hp : pendingAt T (voiceItems (voiceName instruments offs) seq v) = none := by
          cases hh : pendingAt T (voiceItems (voiceName instruments offs) seq v) with
          | none => rfl
          | some d => rw [hh] at h2; cases h2
        simp only [hnil, hp, and_self, if_true]
        exact (hcd1 v).mpr hnil
      · simp only [hnil, false_and, if_false]
        rw [(hl1 v).1]
        have hm : v ∈ (barGroups instruments offs tracks cn).map (·.1) := (hmemG v).mpr hnil
        simp only [hm, if_true]

end MV
