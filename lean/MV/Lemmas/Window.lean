/-
Structure of the octave-replicated window of `relative_scale_*` (C09).
-/
import MV.Lemmas.Asc
import Mathlib.Tactic.ByContra
namespace MV
open Rel

def PcsOK (pcs : List Int) : Prop := pcs ≠ [] ∧ Asc pcs ∧ ∀ x ∈ pcs, 0 ≤ x ∧ x < 12

theorem insertFront_asc (a : Int) (t : List Int) (h : Asc (a :: t)) : sortByKey.insertFront id a t = a :: t := by
  cases t with
  | nil => rfl
  | cons b r =>
    have : a < b := (List.pairwise_cons.mp h).1 b (by simp)
    simp [sortByKey.insertFront]; omega

theorem sortInts_asc (L : List Int) (h : Asc L) : sortInts L = L := by
  induction L with
  | nil => rfl
  | cons a t ih =>
    have ht : Asc t := (List.pairwise_cons.mp h).2
    unfold sortInts sortByKey at *
    simp only [List.foldr_cons]
    rw [ih ht]
    exact insertFront_asc a t h

theorem scaleMod_id (pcs : List Int) (h : PcsOK pcs) : scaleMod pcs = pcs := by
  unfold scaleMod
  have : pcs.map (· % 12) = pcs := by
    conv => rhs; rw [← List.map_id pcs]
    apply List.map_congr_left
    intro x hx; have := h.2.2 x hx; simp; omega
  rw [this, sortInts_asc pcs h.2.1]

theorem mem_wholeScale (pcs : List Int) (h : PcsOK pcs) (x : Int) :
    x ∈ wholeScale pcs ↔ (x % 12 ∈ pcs ∧ -120 ≤ x ∧ x < 120) := by
  unfold wholeScale
  simp only [List.mem_flatMap, List.mem_range, List.mem_map]
  constructor
  · rintro ⟨o, ho, s, hs, rfl⟩
    have := h.2.2 s hs
    have e : (s + (Int.ofNat o - 10) * 12) % 12 = s := by simp; omega
    rw [e]
    refine ⟨hs, ?_, ?_⟩ <;> simp <;> omega
  · rintro ⟨hm, hlo, hhi⟩
    refine ⟨((x / 12) + 10).toNat, by omega, x % 12, hm, ?_⟩
    have : Int.ofNat ((x / 12) + 10).toNat = x / 12 + 10 := by simp; omega
    rw [this]; omega

theorem wholeScale_asc (pcs : List Int) (h : PcsOK pcs) : Asc (wholeScale pcs) := by
  unfold wholeScale Asc
  rw [List.pairwise_flatMap]
  constructor
  · intro o _
    rw [List.pairwise_map]
    exact h.2.1.imp (by intro a b hab; omega)
  · have : (List.range 20).Pairwise (· < ·) := List.pairwise_lt_range
    refine this.imp ?_
    intro o1 o2 ho x hx y hy
    simp only [List.mem_map] at hx hy
    obtain ⟨s1, hs1, rfl⟩ := hx
    obtain ⟨s2, hs2, rfl⟩ := hy
    have := h.2.2 s1 hs1
    have := h.2.2 s2 hs2
    simp; omega
theorem mem_insertFront (x y : Int) (l : List Int) :
    y ∈ sortByKey.insertFront id x l ↔ y = x ∨ y ∈ l := by
  induction l with
  | nil => simp [sortByKey.insertFront]
  | cons a t ih =>
    simp only [sortByKey.insertFront, id]
    split
    · simp
    · simp only [List.mem_cons, ih]
      constructor
      · rintro (h | h | h) <;> simp [h]
      · rintro (h | h | h) <;> simp [h]

theorem insertFront_sorted (x : Int) (l : List Int) (h : l.Pairwise (· ≤ ·)) :
    (sortByKey.insertFront id x l).Pairwise (· ≤ ·) := by
  induction l with
  | nil => simp [sortByKey.insertFront]
  | cons a t ih =>
    have ht := (List.pairwise_cons.mp h).2
    have ha := (List.pairwise_cons.mp h).1
    simp only [sortByKey.insertFront, id]
    split
    · rename_i hxa
      apply List.pairwise_cons.mpr
      refine ⟨?_, h⟩
      intro b hb
      rcases List.mem_cons.mp hb with rfl | hb
      · exact hxa
      · have := ha b hb; omega
    · rename_i hxa
      apply List.pairwise_cons.mpr
      refine ⟨?_, ih ht⟩
      intro b hb
      rcases (mem_insertFront x b t).mp hb with rfl | hb
      · omega
      · exact ha b hb

theorem sortInts_sorted (l : List Int) : (sortInts l).Pairwise (· ≤ ·) := by
  unfold sortInts sortByKey
  induction l with
  | nil => simp
  | cons a t ih => simp only [List.foldr_cons]; exact insertFront_sorted a _ ih

theorem mem_sortInts (l : List Int) (y : Int) : y ∈ sortInts l ↔ y ∈ l := by
  unfold sortInts sortByKey
  induction l with
  | nil => simp
  | cons a t ih => simp only [List.foldr_cons, mem_insertFront, ih, List.mem_cons]

theorem mem_dedupAdj (l : List Int) (y : Int) : y ∈ sortedDedup.dedupAdj l ↔ y ∈ l := by
  induction l with
  | nil => simp [sortedDedup.dedupAdj]
  | cons a t ih =>
    cases t with
    | nil => simp [sortedDedup.dedupAdj]
    | cons b r =>
      simp only [sortedDedup.dedupAdj]
      split
      · rename_i hab
        subst hab
        rw [ih]; simp
      · simp only [List.mem_cons] at ih ⊢
        rw [ih]

theorem dedupAdj_asc (l : List Int) (h : l.Pairwise (· ≤ ·)) : Asc (sortedDedup.dedupAdj l) := by
  induction l with
  | nil => simp [sortedDedup.dedupAdj, Asc]
  | cons a t ih =>
    have ht := (List.pairwise_cons.mp h).2
    have ha := (List.pairwise_cons.mp h).1
    cases t with
    | nil => simp [sortedDedup.dedupAdj, Asc]
    | cons b r =>
      simp only [sortedDedup.dedupAdj]
      split
      · exact ih ht
      · rename_i hab
        apply List.pairwise_cons.mpr
        refine ⟨?_, ih ht⟩
        intro y hy
        have hy' := (mem_dedupAdj (b :: r) y).mp hy
        have hab' : a ≤ b := ha b (by simp)
        rcases List.mem_cons.mp hy' with rfl | hy'
        · omega
        · have := (List.pairwise_cons.mp ht).1 y hy'; omega

/-- the pitch-class list `get_relative_scale_value` works with is well formed -/
theorem sortedDedup_ok (scale : List Int) (hne : scale ≠ []) :
    PcsOK (sortedDedup (scale.map (· % 12))) := by
  unfold sortedDedup
  refine ⟨?_, dedupAdj_asc _ (sortInts_sorted _), ?_⟩
  · intro hnil
    cases scale with
    | nil => exact hne rfl
    | cons a t =>
      have : a % 12 ∈ sortedDedup.dedupAdj (sortInts ((a :: t).map (· % 12))) := by
        rw [mem_dedupAdj, mem_sortInts]; simp
      rw [hnil] at this; simp at this
  · intro x hx
    rw [mem_dedupAdj, mem_sortInts] at hx
    obtain ⟨y, _, rfl⟩ := List.mem_map.mp hx
    omega

theorem mem_sortedDedup (l : List Int) (y : Int) : y ∈ sortedDedup l ↔ y ∈ l := by
  unfold sortedDedup; rw [mem_dedupAdj, mem_sortInts]

theorem pyIndex_eq {l : List α} {i : Int} (j : Nat) (hj : j < l.length)
    (hji : (j : Int) = (if i < 0 then i + l.length else i)) : pyIndex l i = .ok l[j] := by
  unfold pyIndex
  dsimp only
  rw [← hji]
  have : ¬ ((j : Int) < 0 ∨ (j : Int) ≥ l.length) := by omega
  simp [this, hj]

theorem asc_index_of_mem (L : List Int) (h : Asc L) (p : Int) (hp : p ∈ L) :
    ∃ hi : (L.filter (fun y => decide (y < p))).length < L.length,
      L[(L.filter (fun y => decide (y < p))).length] = p := by
  obtain ⟨i, hi, rfl⟩ := List.mem_iff_getElem.mp hp
  have := asc_count_lt L h i hi
  rw [this]
  exact ⟨hi, rfl⟩

/-- `k = 0`, upward candidate: the least system pitch `≥ last` -/
theorem relUp0_spec (pcs : List Int) (hp : PcsOK pcs) (last u : Int) (h : relUp 0 last pcs = .ok u) :
    u ∈ wholeScale pcs ∧ last ≤ u ∧ ∀ y ∈ wholeScale pcs, last ≤ y → u ≤ y := by
  unfold relUp at h
  rw [scaleMod_id pcs hp] at h
  have hasc := wholeScale_asc pcs hp
  simp only [if_true, ge_iff_le] at h
  have hmemf : u ∈ (wholeScale pcs).filter (fun s => decide (last ≤ s)) := by
    obtain ⟨j, hj, hjr, _⟩ := pyIndex_ok h
    rw [← hjr]; exact List.getElem_mem _
  have hu := List.mem_filter.mp hmemf
  rw [asc_filter_ge _ hasc last] at h
  obtain ⟨j, hj, hjr, hji⟩ := pyIndex_ok h
  simp only [Int.lt_irrefl, if_false] at hji
  have hj0 : j = 0 := by omega
  subst hj0
  generalize ha : ((wholeScale pcs).filter (fun y => decide (y < last))).length = a at hj hjr
  have hlen : a < (wholeScale pcs).length := by simp at hj; omega
  have hr : (wholeScale pcs)[a]'hlen = u := by rw [← hjr]; simp
  refine ⟨hu.1, by simpa using hu.2, ?_⟩
  intro y hy hly
  by_contra hlt
  have hlt : y < u := by omega
  have hcnt := asc_count_lt _ hasc a hlen
  rw [hr] at hcnt
  have h1 := count_split (wholeScale pcs) (fun z => decide (z < last)) (fun z => decide (z < u))
    (by intro z; simp; have := hu.2; simp at this; omega)
  have h2 : 0 < ((wholeScale pcs).filter (fun z => decide (z < u) && !decide (z < last))).length := by
    apply List.length_pos_of_mem (a := y)
    simp [hy, hlt]; omega
  omega

/-- `k = 0`, downward candidate: the greatest system pitch `≤ last` -/
theorem relDown0_spec (pcs : List Int) (hp : PcsOK pcs) (last d : Int) (h : relDown 0 last pcs = .ok d) :
    d ∈ wholeScale pcs ∧ d ≤ last ∧ ∀ y ∈ wholeScale pcs, y ≤ last → y ≤ d := by
  unfold relDown at h
  rw [scaleMod_id pcs hp] at h
  have hasc := wholeScale_asc pcs hp
  simp only [if_true] at h
  have hmemf : d ∈ (wholeScale pcs).filter (fun s => decide (s ≤ last)) := by
    obtain ⟨j, hj, hjr, _⟩ := pyIndex_ok h
    rw [← hjr]; exact List.getElem_mem _
  have hd := List.mem_filter.mp hmemf
  rw [asc_filter_le _ hasc last] at h
  have hble : ((wholeScale pcs).filter (fun y => decide (y ≤ last))).length ≤ (wholeScale pcs).length :=
    List.length_filter_le _ _
  generalize hb : ((wholeScale pcs).filter (fun y => decide (y ≤ last))).length = b at h hble
  obtain ⟨j, hj, hjr, hji⟩ := pyIndex_ok h
  have hlen : (List.take b (wholeScale pcs)).length = b := by simp; omega
  rw [hlen] at hji hj
  have hneg : ((-1 : Int) < 0) := by omega
  simp only [hneg, if_true] at hji
  have hr : (wholeScale pcs)[j]'(by omega) = d := by rw [← hjr]; simp
  refine ⟨hd.1, by simpa using hd.2, ?_⟩
  intro y hy hyl
  by_contra hlt
  have hlt : d < y := by omega
  have hcle := asc_count_le _ hasc j (by omega)
  rw [hr] at hcle
  have h1 := count_split (wholeScale pcs) (fun z => decide (z ≤ d)) (fun z => decide (z ≤ last))
    (by intro z; simp; have := hd.2; simp at this; omega)
  have h2 : 0 < ((wholeScale pcs).filter (fun z => decide (z ≤ last) && !decide (z ≤ d))).length := by
    apply List.length_pos_of_mem (a := y)
    simp [hy, hyl]; omega
  omega


end MV
