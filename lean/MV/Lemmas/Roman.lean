/-
Helper definitions and lemmas for C15 (the annotation parser).

* `Lq`, `SigOK`        bar length of a time signature, "supported" signatures
* `gap`, `gaps`        the durations the annotation asks for: each chord lasts until the next
                       symbol, the last one until the end of its bar; telescoping sums
* `addChord_first/next` what `add_chord` does to the state
* `wf`, `places`, `chordsOf`   well-formed element lists, the (bar, position) written before each
                       chord symbol, the chord of each symbol
* `Inv`, `barChord_inv`, `run_wf`, `parse_wf`   the invariant of `ScoreInterpreter.parse`, the
                       induction over the elements, the closed form of the result
* `shiftBars`, `wf_shift`, `places_shift`, `gaps_shift`   bar numbers only matter through differences
* `beatUnit`, `beatPos_closed`   beat labels
* `analyzeOneChord_key`  the key enters the figure analysis only as an offset
* `lexLine_bar`, `lexLines_bars`, `lexLine_ts`, `lexText_render`   from the text to the elements
-/
import MV.Model.Roman
import Mathlib.Tactic.Ring
import Mathlib.Tactic.Linarith
import Mathlib.Tactic.FieldSimp

namespace MV.Roman
open MV Gen

/-! ### small facts -/

theorem limitDen_of_den_le (m : Nat) (x : Rat) (h : x.den ≤ m) : limitDen m x = x := by
  unfold limitDen; simp [h]

/-- bar length in quarter notes: `4 * n / d` -/
def Lq (ts : Int × Int) : Rat := ((4 * ts.1 : Int) : Rat) / ((ts.2 : Int) : Rat)

/-- a supported time signature: non-zero denominator, positive bar length that
`limit_denominator(8)` leaves alone -/
def SigOK (ts : Int × Int) : Prop := ts.2 ≠ 0 ∧ 0 < Lq ts ∧ (Lq ts).den ≤ 8

instance (ts : Int × Int) : Decidable (SigOK ts) := by unfold SigOK; exact inferInstance

theorem barLen_ok (ts : Int × Int) (h : SigOK ts) : barLen ts = .ok (Lq ts) := by
  unfold barLen Lq; simp [h.1]

def isOk : Res α → Bool
  | .ok _ => true
  | .error _ => false

theorem setLast_cons (x y : α) (l : List α) (h : l ≠ []) : setLast (x :: l) y = x :: setLast l y := by
  unfold setLast; rw [List.dropLast_cons_of_ne_nil h]; rfl

theorem map_setLast (f : α → β) (l : List α) (x : α) : (setLast l x).map f = setLast (l.map f) (f x) := by
  unfold setLast; simp [List.map_dropLast]

/-! ### the durations an annotation asks for -/

/-- time from position `a` to position `b` (bar number, position inside the bar) -/
def gap (L : Rat) (a b : Int × Rat) : Rat := L * ((b.1 - a.1 : Int) : Rat) + (b.2 - a.2)

/-- each symbol lasts until the next one, the last one until the end of its bar -/
def gapsFrom (L : Rat) : (Int × Rat) → List (Int × Rat) → List Rat
  | a, [] => [L - a.2]
  | a, q :: qs => gap L a q :: gapsFrom L q qs

def gaps (L : Rat) : List (Int × Rat) → List Rat
  | [] => []
  | a :: qs => gapsFrom L a qs

theorem gapsFrom_ne_nil (L : Rat) (a : Int × Rat) (qs : List (Int × Rat)) : gapsFrom L a qs ≠ [] := by
  cases qs <;> simp [gapsFrom]

theorem gapsFrom_length (L : Rat) (a : Int × Rat) (qs : List (Int × Rat)) :
    (gapsFrom L a qs).length = qs.length + 1 := by
  induction qs generalizing a with
  | nil => rfl
  | cons q qs ih => simp [gapsFrom, ih]

theorem gaps_length (L : Rat) (P : List (Int × Rat)) : (gaps L P).length = P.length := by
  cases P with
  | nil => rfl
  | cons a qs => simp [gaps, gapsFrom_length]

theorem gapsFrom_snoc (L : Rat) (a q : Int × Rat) (qs : List (Int × Rat)) :
    gapsFrom L a (qs ++ [q]) = setLast (gapsFrom L a qs) (gap L ((a :: qs).getLast (by simp)) q) ++ [L - q.2] := by
  induction qs generalizing a with
  | nil => simp [gapsFrom, setLast]
  | cons r rs ih =>
      simp only [List.cons_append, gapsFrom]
      rw [ih r, setLast_cons _ _ _ (gapsFrom_ne_nil L r rs)]
      simp [List.getLast_cons]

theorem gaps_snoc (L : Rat) (P : List (Int × Rat)) (a q : Int × Rat) (h : P.getLast? = some a) :
    gaps L (P ++ [q]) = setLast (gaps L P) (gap L a q) ++ [L - q.2] := by
  cases P with
  | nil => simp at h
  | cons b qs =>
      simp only [List.cons_append, gaps]
      rw [gapsFrom_snoc]
      have : (b :: qs).getLast (by simp) = a := by
        rw [List.getLast?_eq_some_getLast (by simp)] at h
        exact Option.some.inj h
      rw [this]

theorem gapsFrom_getLast (L : Rat) (a : Int × Rat) (qs : List (Int × Rat)) :
    (gapsFrom L a qs).getLast? = some (L - ((a :: qs).getLast (by simp)).2) := by
  induction qs generalizing a with
  | nil => simp [gapsFrom]
  | cons r rs ih =>
      simp only [gapsFrom, List.getLast?_cons, ih]
      simp [List.getLast_cons]

theorem gaps_getLast (L : Rat) (P : List (Int × Rat)) (a : Int × Rat) (h : P.getLast? = some a) :
    (gaps L P).getLast? = some (L - a.2) := by
  cases P with
  | nil => simp at h
  | cons b qs =>
      simp only [gaps, gapsFrom_getLast]
      rw [List.getLast?_eq_some_getLast (by simp)] at h
      rw [Option.some.inj h]

/-- telescoping: the durations add up to the span of bars minus the position of the first symbol -/
theorem gapsFrom_sum (L : Rat) (a : Int × Rat) (qs : List (Int × Rat)) :
    (gapsFrom L a qs).sum = L * (((((a :: qs).getLast (by simp)).1 - a.1 + 1 : Int)) : Rat) - a.2 := by
  induction qs generalizing a with
  | nil => simp [gapsFrom]
  | cons r rs ih =>
      simp only [gapsFrom, List.sum_cons, ih, gap]
      simp only [List.getLast_cons (List.cons_ne_nil r rs)]
      push_cast
      ring

/-- start time of symbol `i` = time from the first symbol to it -/
theorem gapsFrom_take_sum (L : Rat) (a : Int × Rat) (qs : List (Int × Rat)) (i : Nat) (hi : i ≤ qs.length) :
    ((gapsFrom L a qs).take i).sum = gap L a ((a :: qs)[i]'(by simp; omega)) := by
  induction qs generalizing a i with
  | nil =>
      have : i = 0 := by simpa using hi
      subst this
      simp [gap]
  | cons r rs ih =>
      cases i with
      | zero => simp [gap]
      | succ j =>
          simp only [gapsFrom, List.take_succ_cons, List.sum_cons]
          rw [ih r j (by simpa using hi)]
          simp only [List.getElem_cons_succ, gap]
          push_cast
          ring

/-! ### `add_chord` -/

theorem addChord_first (st : St) (c : Chord) (d : Rat) (h : st.score = none) :
    st.addChord c d = .ok { st with
      started := (st.barNumber, st.currentBeat)
      pickup := if st.currentBeat > 0 then st.currentBeat else st.pickup
      score := some [{ chord := c, dur := d }]
      prevTs := st.ts } := by
  unfold St.addChord
  simp [h]

theorem addChord_next (st : St) (c : Chord) (d pd : Rat) (cs : List OutChord) (last : OutChord)
    (h : st.score = some cs) (hl : cs.getLast? = some last) (hpd : st.prevDuration = .ok pd)
    (hne : pd * ((st.barNumber - st.started.1 : Int) : Rat) + (st.currentBeat - st.started.2) ≠ 0)
    (hld : last.dur ≠ 0)
    (hden : (pd * ((st.barNumber - st.started.1 : Int) : Rat) + (st.currentBeat - st.started.2)).den ≤ LIMIT_DENOM) :
    st.addChord c d = .ok { st with
      started := (st.barNumber, st.currentBeat)
      score := some (setLast cs { last with dur := pd * ((st.barNumber - st.started.1 : Int) : Rat) + (st.currentBeat - st.started.2) }
                      ++ [{ chord := c, dur := d }])
      prevTs := st.ts } := by
  unfold St.addChord
  have hmul : last.dur * ((pd * ((st.barNumber - st.started.1 : Int) : Rat) + (st.currentBeat - st.started.2)) / last.dur)
      = pd * ((st.barNumber - st.started.1 : Int) : Rat) + (st.currentBeat - st.started.2) := by
    field_simp
  simp only [h, hpd, hl]
  rw [if_neg hne, if_neg hld, hmul, limitDen_of_den_le _ _ hden]
  simp

/-! ### well-formed element lists and what they ask for -/

/-- lexicographic "strictly later" on (bar, position) -/
def later (a : Int × Rat) (b : Int) (pos : Rat) : Bool :=
  decide (a.1 < b) || (decide (a.1 = b) && decide (a.2 < pos))

/-- Well-formed body of an annotation (no time signature inside), checked symbol by symbol:
bar numbers increase; every beat label is readable and does not go back; every chord symbol
has a bar, is readable in the key in force, sits inside its bar, strictly later than the
previous symbol, and the durations involved are within the note resolution `LIMIT_DENOM`.
Arguments: bar in force (none before the first bar line), position in it, key and mode in
force, position of the previous chord symbol. -/
def wf (ts : Int × Int) : List Elem → Option Int → Rat → Int → KMode → Option (Int × Rat) → Bool
  | [], _, _, _, _, _ => true
  | .bar i :: es, bar, _, key, mode, last =>
      (match bar with | none => true | some b => decide (b < i)) && wf ts es (some i) 0 key mode last
  | .beat v :: es, some b, pos, key, mode, last =>
      match beatPos ts v with
      | .ok r => decide (pos ≤ r) && wf ts es (some b) r key mode last
      | .error _ => false
  | .curTon k md :: es, bar, pos, _, _, last => wf ts es bar pos k md last
  | .tonLine t :: es, bar, pos, _, _, last =>
      match currentTonality t with
      | .ok (k, md) => wf ts es bar pos k md last
      | .error _ => false
  | .chord t :: es, some b, pos, key, mode, last =>
      isOk (chordOfFigure t key mode) && decide (0 ≤ pos) && decide (pos < Lq ts)
      && decide ((Lq ts - pos).den ≤ LIMIT_DENOM)
      && (match last with
          | none => true
          | some a => later a b pos && decide ((gap (Lq ts) a (b, pos)).den ≤ LIMIT_DENOM))
      && wf ts es (some b) pos key mode (some (b, pos))
  | _, _, _, _, _, _ => false

/-- the (bar, position) written before each chord symbol -/
def places (ts : Int × Int) : List Elem → Option Int → Rat → List (Int × Rat)
  | [], _, _ => []
  | .bar i :: es, _, _ => places ts es (some i) 0
  | .beat v :: es, bar, pos => places ts es bar (match beatPos ts v with | .ok r => r | .error _ => pos)
  | .chord _ :: es, bar, pos => (bar.getD 0, pos) :: places ts es bar pos
  | _ :: es, bar, pos => places ts es bar pos

/-- the chord of each chord symbol, read in the key in force -/
def chordsOf : List Elem → Int → KMode → List Chord
  | [], _, _ => []
  | .curTon k md :: es, _, _ => chordsOf es k md
  | .tonLine t :: es, key, mode =>
      match currentTonality t with
      | .ok (k, md) => chordsOf es k md
      | .error _ => chordsOf es key mode
  | .chord t :: es, key, mode =>
      (match chordOfFigure t key mode with | .ok c => [c] | .error _ => []) ++ chordsOf es key mode
  | _ :: es, key, mode => chordsOf es key mode

/-- the invariant of `ScoreInterpreter.parse` between two elements: `P` are the positions of the
chord symbols read so far, `C` their chords -/
structure Inv (ts : Int × Int) (st : St) (bar : Option Int) (pos : Rat) (key : Int) (mode : KMode)
    (P : List (Int × Rat)) (C : List Chord) : Prop where
  hts : st.ts = ts
  hbar : st.barNumber = bar.getD 0
  hpos : st.currentBeat = pos
  hkey : st.key = key
  hmode : st.mode = mode
  hnone : P = [] → st.score = none ∧ st.pickup = 0 ∧ C = []
  hsome : ∀ a, P.getLast? = some a →
      st.prevTs = ts ∧ st.started = a ∧ a.2 < Lq ts ∧
      (∃ p0, P.head? = some p0 ∧ st.pickup = p0.2) ∧
      ∃ cs, st.score = some cs ∧ cs.map (·.dur) = gaps (Lq ts) P ∧ cs.map (·.chord) = C

theorem gap_pos (L : Rat) (hL : 0 < L) (a : Int × Rat) (b : Int) (pos : Rat) (h : later a b pos = true)
    (ha : a.2 < L) (hp : 0 ≤ pos) : 0 < gap L a (b, pos) := by
  unfold later at h
  unfold gap
  simp only [Bool.or_eq_true, Bool.and_eq_true, decide_eq_true_eq] at h
  rcases h with h | ⟨h1, h2⟩
  · have h1 : (1 : Rat) ≤ ((b - a.1 : Int) : Rat) := by exact_mod_cast (by omega : (1 : Int) ≤ b - a.1)
    have h2 : L * 1 ≤ L * ((b - a.1 : Int) : Rat) := mul_le_mul_of_nonneg_left h1 (le_of_lt hL)
    simp only at *
    linarith
  · subst h1
    simp only [sub_self, Int.cast_zero, mul_zero, zero_add]
    linarith

theorem prevDuration_ok (st : St) (ts : Int × Int) (hs : SigOK ts) (h : st.prevTs = ts) :
    st.prevDuration = .ok (Lq ts) := by
  unfold St.prevDuration
  rw [h, barLen_ok ts hs]
  simp only [bind, Except.bind, pure, Except.pure]
  rw [limitDen_of_den_le _ _ hs.2.2]

/-- one chord symbol: the previous chord is closed at the time elapsed since it started, the new
one lasts to the end of its bar -/
theorem barChord_inv (ts : Int × Int) (hs : SigOK ts) (st : St) (b : Int) (pos : Rat) (key : Int) (mode : KMode)
    (P : List (Int × Rat)) (C : List Chord) (t : Str) (c : Chord)
    (inv : Inv ts st (some b) pos key mode P C)
    (hc : chordOfFigure t key mode = .ok c) (h0 : 0 ≤ pos) (hlt : pos < Lq ts)
    (hden : (Lq ts - pos).den ≤ LIMIT_DENOM)
    (hlast : ∀ a, P.getLast? = some a → later a b pos = true ∧ (gap (Lq ts) a (b, pos)).den ≤ LIMIT_DENOM) :
    Inv ts (st.barChord t) (some b) pos key mode (P ++ [(b, pos)]) (C ++ [c]) := by
  obtain ⟨hts, hbar, hpos, hkey, hmode, hnone, hsome⟩ := inv
  simp only [Option.getD_some] at hbar
  have hdur : st.duration = .ok (Lq ts) := by unfold St.duration; rw [hts, barLen_ok ts hs]
  have hnew : limitDen LIMIT_DENOM (limitDen LIMIT_DENOM (Lq ts - st.currentBeat)) = Lq ts - pos := by
    rw [hpos, limitDen_of_den_le _ _ hden, limitDen_of_den_le _ _ hden]
  unfold St.barChord
  rw [hkey, hmode, hc]
  simp only [hdur, hnew]
  cases hP : P.getLast? with
  | none =>
      have hPnil : P = [] := List.getLast?_eq_none_iff.mp hP
      obtain ⟨hsc, hpk, hC⟩ := hnone hPnil
      subst hC
      rw [addChord_first st c _ hsc]
      subst hPnil
      refine ⟨hts, by simp [hbar], hpos, hkey, hmode, by simp, ?_⟩
      intro a ha
      simp only [List.nil_append, List.getLast?_singleton, Option.some.injEq] at ha
      subst ha
      refine ⟨hts, by simp [hbar, hpos], hlt, ⟨(b, pos), by simp, ?_⟩, [{ chord := c, dur := Lq ts - pos }], rfl, by simp [gaps, gapsFrom], by simp⟩
      simp only [hpos, hpk]
      split
      · rfl
      · linarith
  | some a =>
      obtain ⟨hprev, hstart, halt, ⟨p0, hp0, hpick⟩, cs, hsc, hdurs, hchords⟩ := hsome a hP
      obtain ⟨hlater, hgden⟩ := hlast a hP
      have hgl := gaps_getLast (Lq ts) P a hP
      rw [← hdurs, List.getLast?_map] at hgl
      cases hcl : cs.getLast? with
      | none => rw [hcl] at hgl; simp at hgl
      | some last =>
          rw [hcl] at hgl
          simp only [Option.map_some, Option.some.injEq] at hgl
          have hgapeq : Lq ts * ((st.barNumber - st.started.1 : Int) : Rat) + (st.currentBeat - st.started.2)
              = gap (Lq ts) a (b, pos) := by
            rw [hbar, hstart, hpos]; rfl
          have hgpos := gap_pos (Lq ts) hs.2.1 a b pos hlater halt h0
          rw [addChord_next st c _ (Lq ts) cs last hsc hcl (prevDuration_ok st ts hs hprev)
            (by rw [hgapeq]; exact ne_of_gt hgpos) (by rw [hgl]; linarith) (by rw [hgapeq]; exact hgden)]
          rw [hgapeq]
          refine ⟨hts, by simp [hbar], hpos, hkey, hmode, by simp, ?_⟩
          intro a' ha'
          simp only [List.getLast?_append, List.getLast?_singleton, Option.some_or, Option.some.injEq] at ha'
          subst ha'
          refine ⟨hts, by simp [hbar, hpos], hlt, ⟨p0, ?_, hpick⟩, _, rfl, ?_, ?_⟩
          · cases P with
            | nil => simp at hP
            | cons x xs => simpa using hp0
          · rw [List.map_append, map_setLast, hdurs, gaps_snoc _ _ _ _ hP]
            simp
          · rw [List.map_append, map_setLast]
            simp only [List.map_cons, List.map_nil]
            rw [← hchords]
            congr 1
            unfold setLast
            have := List.dropLast_append_getLast? last hcl
            conv_rhs => rw [← this]
            simp

theorem run_cons (e : Elem) (es : List Elem) (st : St) :
    run (e :: es) st = (match st.step e with | .ok st' => run es st' | .error err => .error err) := by
  simp only [run, bind, Except.bind]
  cases st.step e <;> rfl

theorem isOk_eq_true {r : Res α} (h : isOk r = true) : ∃ x, r = .ok x := by
  cases r with
  | ok x => exact ⟨x, rfl⟩
  | error e => simp [isOk] at h

/-- the induction over the elements of a well-formed body -/
theorem run_wf (ts : Int × Int) (hs : SigOK ts) :
    ∀ (body : List Elem) (st : St) (bar : Option Int) (pos : Rat) (key : Int) (mode : KMode)
      (P : List (Int × Rat)) (C : List Chord),
      Inv ts st bar pos key mode P C → wf ts body bar pos key mode P.getLast? = true →
      ∃ st' bar' pos' key' mode', run body st = .ok st' ∧
        Inv ts st' bar' pos' key' mode' (P ++ places ts body bar pos) (C ++ chordsOf body key mode) := by
  intro body
  induction body with
  | nil =>
      intro st bar pos key mode P C inv _
      exact ⟨st, bar, pos, key, mode, rfl, by simpa [places, chordsOf] using inv⟩
  | cons e es ih =>
      intro st bar pos key mode P C inv h
      rw [run_cons]
      cases e with
      | ts n d => simp [wf] at h
      | event => simp [wf] at h
      | tonLine t =>
          simp only [wf] at h
          cases hct : currentTonality t with
          | error err => rw [hct] at h; simp at h
          | ok km =>
              obtain ⟨k, md⟩ := km
              rw [hct] at h
              have hstep : st.step (.tonLine t) = .ok { st with key := k, mode := md } := by
                simp only [St.step, hct, bind, Except.bind, pure, Except.pure]
              rw [hstep]
              have inv' : Inv ts { st with key := k, mode := md } bar pos k md P C :=
                ⟨inv.hts, inv.hbar, inv.hpos, rfl, rfl, inv.hnone, inv.hsome⟩
              obtain ⟨st', b', p', k', m', hr, hi⟩ := ih _ bar pos k md P C inv' h
              exact ⟨st', b', p', k', m', hr, by simpa [places, chordsOf, hct] using hi⟩
      | curTon k md =>
          simp only [wf] at h
          have hstep : st.step (.curTon k md) = .ok { st with key := k, mode := md } := rfl
          rw [hstep]
          have inv' : Inv ts { st with key := k, mode := md } bar pos k md P C :=
            ⟨inv.hts, inv.hbar, inv.hpos, rfl, rfl, inv.hnone, inv.hsome⟩
          obtain ⟨st', b', p', k', m', hr, hi⟩ := ih _ bar pos k md P C inv' h
          exact ⟨st', b', p', k', m', hr, by simpa [places, chordsOf] using hi⟩
      | bar i =>
          simp only [wf, Bool.and_eq_true] at h
          obtain ⟨hb, h⟩ := h
          have hcond : i > st.barNumber ∨ st.barNumber = 0 := by
            rw [inv.hbar]
            cases bar with
            | none => right; rfl
            | some b => left; simpa using hb
          have hstep : st.step (.bar i) = .ok { st with barNumber := i, currentBeat := 0 } := by
            simp only [St.step, St.setBarNumber, if_pos hcond]
          rw [hstep]
          have inv' : Inv ts { st with barNumber := i, currentBeat := 0 } (some i) 0 key mode P C :=
            ⟨inv.hts, rfl, rfl, inv.hkey, inv.hmode, inv.hnone, inv.hsome⟩
          obtain ⟨st', b', p', k', m', hr, hi⟩ := ih _ (some i) 0 key mode P C inv' h
          exact ⟨st', b', p', k', m', hr, by simpa [places, chordsOf] using hi⟩
      | beat v =>
          cases bar with
          | none => simp [wf] at h
          | some b =>
              simp only [wf] at h
              cases hbp : beatPos ts v with
              | error err => rw [hbp] at h; simp at h
              | ok r =>
                  rw [hbp] at h
                  simp only [Bool.and_eq_true, decide_eq_true_eq] at h
                  obtain ⟨hle, h⟩ := h
                  have hstep : st.step (.beat v) = .ok (st.setCurrentBeat r) := by
                    simp only [St.step, beatRealValue, inv.hts, hbp, bind, Except.bind, pure, Except.pure]
                  rw [hstep]
                  have inv' : Inv ts (st.setCurrentBeat r) (some b) r key mode P C := by
                    unfold St.setCurrentBeat
                    split
                    · rename_i hrle
                      rw [inv.hpos] at hrle
                      have : pos = r := le_antisymm hle hrle
                      subst this
                      exact inv
                    · exact ⟨inv.hts, inv.hbar, rfl, inv.hkey, inv.hmode, inv.hnone, inv.hsome⟩
                  obtain ⟨st', b', p', k', m', hr, hi⟩ := ih _ (some b) r key mode P C inv' h
                  exact ⟨st', b', p', k', m', hr, by simpa [places, chordsOf, hbp] using hi⟩
      | chord t =>
          cases bar with
          | none => simp [wf] at h
          | some b =>
              simp only [wf, Bool.and_eq_true, decide_eq_true_eq] at h
              obtain ⟨⟨⟨⟨⟨hok, h0⟩, hlt⟩, hden⟩, hlast⟩, h⟩ := h
              obtain ⟨c, hc⟩ := isOk_eq_true hok
              have hstep : st.step (.chord t) = .ok (st.barChord t) := rfl
              rw [hstep]
              have hlast' : ∀ a, P.getLast? = some a →
                  later a b pos = true ∧ (gap (Lq ts) a (b, pos)).den ≤ LIMIT_DENOM := by
                intro a ha
                rw [ha] at hlast
                simpa using hlast
              have inv' := barChord_inv ts hs st b pos key mode P C t c inv hc h0 hlt hden hlast'
              have hgl : (P ++ [(b, pos)]).getLast? = some (b, pos) := by simp
              obtain ⟨st', b', p', k', m', hr, hi⟩ := ih _ (some b) pos key mode _ _ inv' (by rw [hgl]; exact h)
              refine ⟨st', b', p', k', m', hr, ?_⟩
              simpa [places, chordsOf, hc] using hi

theorem run_append (a b : List Elem) (st : St) :
    run (a ++ b) st = (match run a st with | .ok st' => run b st' | .error err => .error err) := by
  induction a generalizing st with
  | nil => rfl
  | cons e es ih =>
      simp only [List.cons_append, run_cons]
      cases st.step e with
      | ok st' => exact ih st'
      | error err => rfl

/-- the state after the lines before the first bar: a signature in force, nothing played yet -/
def Clean (st : St) (ts : Int × Int) : Prop :=
  st.ts = ts ∧ st.score = none ∧ st.barNumber = 0 ∧ st.currentBeat = 0 ∧ st.pickup = 0

instance (st : St) (ts : Int × Int) : Decidable (Clean st ts) := by unfold Clean; exact inferInstance

theorem places_length (ts : Int × Int) (body : List Elem) (bar : Option Int) (pos : Rat) :
    (places ts body bar pos).length = (body.filter (fun e => match e with | .chord _ => true | _ => false)).length := by
  induction body generalizing bar pos with
  | nil => rfl
  | cons e es ih => cases e <;> simp [places, ih]

/-- everything `ScoreFormatter.parse` returns for a well-formed annotation, in closed form -/
theorem parse_wf (ts : Int × Int) (hs : SigOK ts) (pre body : List Elem) (st0 : St)
    (hpre : run pre {} = .ok st0) (hclean : Clean st0 ts)
    (hwf : wf ts body none 0 st0.key st0.mode none = true)
    (hne : places ts body none 0 ≠ []) :
    ∃ p, parseElems (pre ++ body) = .ok p ∧ p.ts = ts ∧
      p.chords.map (·.chord) = chordsOf body st0.key st0.mode ∧
      p.chords.map (·.dur) = gaps (Lq ts) (places ts body none 0) ∧
      ∃ p0, (places ts body none 0).head? = some p0 ∧ p.pickup = p0.2 := by
  obtain ⟨h1, h2, h3, h4, h5⟩ := hclean
  have inv0 : Inv ts st0 none 0 st0.key st0.mode [] [] :=
    ⟨h1, by simpa using h3, h4, rfl, rfl, fun _ => ⟨h2, h5, rfl⟩, by simp⟩
  obtain ⟨st', b', p', k', m', hr, hi⟩ := run_wf ts hs body st0 none 0 st0.key st0.mode [] [] inv0 (by simpa using hwf)
  simp only [List.nil_append] at hi
  obtain ⟨a, ha⟩ : ∃ a, (places ts body none 0).getLast? = some a := by
    cases hgl : (places ts body none 0).getLast? with
    | none => exact absurd (List.getLast?_eq_none_iff.mp hgl) hne
    | some a => exact ⟨a, rfl⟩
  obtain ⟨_, _, _, hp0, cs, hsc, hd, hc⟩ := hi.hsome a ha
  refine ⟨{ chords := cs, pickup := st'.pickup, ts := st'.ts }, ?_, hi.hts, hc, hd, hp0⟩
  unfold parseElems
  rw [run_append, hpre]
  simp only [hr, bind, Except.bind, finish, hsc]

/-! ### the first bar may carry any number -/

def shiftElem (k : Int) : Elem → Elem
  | .bar i => .bar (i + k)
  | e => e

/-- the same annotation with every bar number moved by `k` -/
def shiftBars (k : Int) (body : List Elem) : List Elem := body.map (shiftElem k)

def shiftPos (k : Int) (a : Int × Rat) : Int × Rat := (a.1 + k, a.2)

theorem gap_shift (L : Rat) (k : Int) (a b : Int × Rat) : gap L (shiftPos k a) (shiftPos k b) = gap L a b := by
  unfold gap shiftPos
  simp only
  have : b.1 + k - (a.1 + k) = b.1 - a.1 := by omega
  rw [this]

theorem gapsFrom_shift (L : Rat) (k : Int) (a : Int × Rat) (qs : List (Int × Rat)) :
    gapsFrom L (shiftPos k a) (qs.map (shiftPos k)) = gapsFrom L a qs := by
  induction qs generalizing a with
  | nil => simp [gapsFrom, shiftPos]
  | cons q qs ih => simp only [List.map_cons, gapsFrom, gap_shift, ih]

theorem gaps_shift (L : Rat) (k : Int) (P : List (Int × Rat)) : gaps L (P.map (shiftPos k)) = gaps L P := by
  cases P with
  | nil => rfl
  | cons a qs => simp only [List.map_cons, gaps, gapsFrom_shift]

theorem later_shift (k : Int) (a : Int × Rat) (b : Int) (pos : Rat) :
    later (shiftPos k a) (b + k) pos = later a b pos := by
  unfold later shiftPos
  simp only
  congr 1
  · simp
  · congr 1
    simp

theorem wf_shift (ts : Int × Int) (k : Int) (body : List Elem) (bar : Option Int) (pos : Rat) (key : Int)
    (mode : KMode) (last : Option (Int × Rat)) :
    wf ts (shiftBars k body) (bar.map (· + k)) pos key mode (last.map (shiftPos k)) = wf ts body bar pos key mode last := by
  induction body generalizing bar pos key mode last with
  | nil => simp [shiftBars, wf]
  | cons e es ih =>
      unfold shiftBars at ih ⊢
      cases e with
      | ts n d => simp [shiftElem, wf]
      | event => simp [shiftElem, wf]
      | tonLine t =>
          simp only [List.map_cons, shiftElem, wf]
          cases currentTonality t with
          | error err => rfl
          | ok km => exact ih ..
      | curTon k' md => simp only [List.map_cons, shiftElem, wf]; exact ih ..
      | bar i =>
          simp only [List.map_cons, shiftElem, wf]
          have := ih (some i) 0 key mode last
          simp only [Option.map_some] at this
          rw [this]
          cases bar <;> simp
      | beat v =>
          cases bar with
          | none => simp [shiftElem, wf]
          | some b =>
              simp only [List.map_cons, shiftElem, wf, Option.map_some]
              cases beatPos ts v with
              | error err => rfl
              | ok r =>
                  have := ih (some b) r key mode last
                  simp only [Option.map_some] at this
                  simp only [this]
      | chord t =>
          cases bar with
          | none => simp [shiftElem, wf]
          | some b =>
              simp only [List.map_cons, shiftElem, wf, Option.map_some]
              have := ih (some b) pos key mode (some (b, pos))
              simp only [Option.map_some, shiftPos] at this
              rw [this]
              cases last with
              | none => simp
              | some a =>
                  simp only [Option.map_some]
                  have h1 := later_shift k a b pos
                  have h2 := gap_shift (Lq ts) k a (b, pos)
                  simp only [shiftPos] at h1 h2
                  simp only [shiftPos, h1, h2]

theorem places_shift (ts : Int × Int) (k : Int) (body : List Elem) (bar : Option Int) (pos : Rat) (key : Int)
    (mode : KMode) (last : Option (Int × Rat)) (h : wf ts body bar pos key mode last = true) :
    places ts (shiftBars k body) (bar.map (· + k)) pos = (places ts body bar pos).map (shiftPos k) := by
  induction body generalizing bar pos key mode last with
  | nil => simp [shiftBars, places]
  | cons e es ih =>
      unfold shiftBars at ih ⊢
      cases e with
      | ts n d => simp [wf] at h
      | event => simp [wf] at h
      | tonLine t =>
          simp only [wf] at h
          cases hct : currentTonality t with
          | error err => rw [hct] at h; simp at h
          | ok km => rw [hct] at h; simpa [shiftElem, places] using ih _ _ _ _ _ h
      | curTon k' md => simp only [wf] at h; simpa [shiftElem, places] using ih _ _ _ _ _ h
      | bar i =>
          simp only [wf, Bool.and_eq_true] at h
          simpa [shiftElem, places] using ih (some i) 0 _ _ _ h.2
      | beat v =>
          cases bar with
          | none => simp [wf] at h
          | some b =>
              simp only [wf] at h
              cases hbp : beatPos ts v with
              | error err => rw [hbp] at h; simp at h
              | ok r =>
                  rw [hbp] at h
                  simp only [Bool.and_eq_true] at h
                  simpa [shiftElem, places, hbp] using ih (some b) r _ _ _ h.2
      | chord t =>
          cases bar with
          | none => simp [wf] at h
          | some b =>
              simp only [wf, Bool.and_eq_true] at h
              simpa [shiftElem, places, shiftPos] using ih (some b) pos _ _ _ h.2

theorem chordsOf_shift (k : Int) (body : List Elem) (key : Int) (mode : KMode) :
    chordsOf (shiftBars k body) key mode = chordsOf body key mode := by
  induction body generalizing key mode with
  | nil => rfl
  | cons e es ih =>
      unfold shiftBars at ih ⊢
      cases e with
      | tonLine t =>
          simp only [List.map_cons, shiftElem, chordsOf]
          cases currentTonality t <;> simp [ih]
      | _ => simp [shiftElem, chordsOf, ih]

/-! ### beat labels -/

/-- quarter notes per beat: dotted quarter in 6/8, half note in 2/2, quarter note otherwise -/
def beatUnit (ts : Int × Int) : Rat := if ts = (6, 8) then 3 / 2 else if ts = (2, 2) then 2 else 1

theorem beatPos_closed (ts : Int × Int) (hs : SigOK ts) (v : Str) (x : Rat)
    (hv : parseDecimal v = .ok x) (hx : x.den ≤ 8) :
    beatPos ts v = .ok ((x - 1) * beatUnit ts) := by
  have hL := barLen_ok ts hs
  have hLne : Lq ts ≠ 0 := ne_of_gt hs.2.1
  unfold beatPos
  simp only [hL, hv, bind, Except.bind, pure, Except.pure, if_neg hLne, limitDen_of_den_le 8 x hx]
  unfold conventionBeats beatUnit
  by_cases h68 : ts = (6, 8)
  · subst h68
    have h1 : limitDen 8 ((2 : Rat) / Lq (6, 8)) = 2 / 3 := by decide +kernel
    simp only [if_true, Option.getD_some, h1]
    norm_num
    ring
  · by_cases h22 : ts = (2, 2)
    · subst h22
      have h1 : limitDen 8 ((2 : Rat) / Lq (2, 2)) = 1 / 2 := by decide +kernel
      simp only [h68, if_false, if_true, Option.getD_some, h1]
      norm_num
      ring
    · simp only [h68, h22, if_false, Option.getD_none, div_self hLne]
      have h1 : limitDen 8 (1 : Rat) = 1 := by decide +kernel
      rw [h1]
      norm_num

/-! ### the key only enters the analysis as an offset -/

def relKey (key : Int) (r : Int × Int × Mode) : Int × Int × Mode := (r.1, (key + r.2.1) % 12, r.2.2)

theorem getDegreeAndTonality_key (sec ter : Option Str) (degree : Str) (key : Int) (mode : Mode) :
    getDegreeAndTonality sec ter degree key mode
      = (getDegreeAndTonality sec ter degree 0 mode).map (relKey key) := by
  unfold getDegreeAndTonality relKey
  cases ter with
  | none =>
      cases sec with
      | none =>
          simp only [bind, Except.bind, pure, Except.pure]
          cases lookupStr degree (dictRelativeChange mode) with
          | error e => rfl
          | ok v => simp only [Except.map]; congr 3; omega
      | some s =>
          simp only [bind, Except.bind, pure, Except.pure]
          cases lookupStr s (dictTonality mode) with
          | error e => rfl
          | ok v =>
              simp only
              cases lookupStr degree (dictRelativeChange v.2) with
              | error e => rfl
              | ok w => simp only [Except.map]; congr 3; omega
  | some t =>
      simp only [bind, Except.bind, pure, Except.pure]
      cases lookupStr t (dictTonality mode) with
      | error e => rfl
      | ok u =>
          simp only
          cases sec with
          | none =>
              simp only
              cases lookupStr degree (dictRelativeChange u.2) with
              | error e => rfl
              | ok w => simp only [Except.map]; congr 3; omega
          | some s =>
              simp only
              cases lookupStr s (dictTonality u.2) with
              | error e => rfl
              | ok v =>
                  simp only
                  cases lookupStr degree (dictRelativeChange v.2) with
                  | error e => rfl
                  | ok w => simp only [Except.map]; congr 3; omega

def relKey4 (key : Int) (r : Int × Str × Int × Mode) : Int × Str × Int × Mode :=
  (r.1, r.2.1, (key + r.2.2.1) % 12, r.2.2.2)

theorem analyzeParts_key (prim : Str) (sec ter : Option Str) (key : Int) (mode : KMode) :
    analyzeParts prim sec ter key mode = (analyzeParts prim sec ter 0 mode).map (relKey4 key) := by
  unfold analyzeParts
  simp only [bind, Except.bind, pure, Except.pure]
  cases getDegreeAndExtension (replaceSpecialCases (clean prim)) with
  | error e => rfl
  | ok de =>
      simp only
      cases getDegreeOpt sec with
      | error e => rfl
      | ok sd =>
          simp only
          cases getDegreeOpt ter with
          | error e => rfl
          | ok td =>
              simp only
              rw [getDegreeAndTonality_key]
              cases getDegreeAndTonality sd td de.1 0 mode.toMode with
              | error e => rfl
              | ok r => obtain ⟨a, b, c⟩ := r; simp only [Except.map, relKey, relKey4]

/-- the key of the annotation only shifts the key of the result: analysing in key `k` is analysing
in C and adding `k` (mod 12) -/
theorem analyzeOneChord_key (figure : Str) (key : Int) (mode : KMode) :
    analyzeOneChord figure key mode = (analyzeOneChord figure 0 mode).map (relKey4 key) := by
  unfold analyzeOneChord
  split
  · exact analyzeParts_key ..
  · exact analyzeParts_key ..
  · exact analyzeParts_key ..
  · rfl

theorem chordOfFigure_key_mod (figure : Str) (key : Int) (mode : KMode) :
    chordOfFigure figure key mode = chordOfFigure figure (key % 12) mode := by
  unfold chordOfFigure
  rw [analyzeOneChord_key figure key, analyzeOneChord_key figure (key % 12)]
  cases analyzeOneChord figure 0 mode with
  | error e => rfl
  | ok r =>
      simp only [Except.map, relKey4, bind, Except.bind]
      have : (key % 12 + r.2.2.1) % 12 = (key + r.2.2.1) % 12 := by omega
      rw [this]

/-! ### lexing one bar line -/

theorem lstripChar_replicate (c : Char) (n : Nat) (l : Str) :
    lstripChar c (List.replicate n c ++ l) = lstripChar c l := by
  induction n with
  | zero => rfl
  | succ k ih => simp only [List.replicate_succ, List.cons_append, lstripChar, List.dropWhile_cons, beq_self_eq_true, if_true] at *; exact ih

theorem lstripChar_cons_ne (c d : Char) (l : Str) (h : d ≠ c) : lstripChar c (d :: l) = d :: l := by
  simp [lstripChar, h]

/-- `split(' ')` of a word followed by the rest of the line -/
theorem splitOn_word (sep : Char) (w r : Str) (hw : ¬ w.contains sep) :
    splitOn sep (w ++ sep :: r) = w :: splitOn sep r := by
  induction w with
  | nil => simp [splitOn]
  | cons c cs ih =>
      have hc : (c == sep) = false := by
        simp only [List.contains_cons, Bool.or_eq_true, not_or] at hw
        cases h : (c == sep) with
        | false => rfl
        | true => have := eq_of_beq h; subst this; simp at hw
      have hcs : ¬ cs.contains sep := by
        simp only [List.contains_cons, Bool.or_eq_true, not_or] at hw
        exact hw.2
      simp only [List.cons_append, splitOn, hc, ih hcs]
      rfl

theorem splitOn_single (sep : Char) (w : Str) (hw : ¬ w.contains sep) : splitOn sep w = [w] := by
  induction w with
  | nil => rfl
  | cons c cs ih =>
      have hc : (c == sep) = false := by
        simp only [List.contains_cons, Bool.or_eq_true, not_or] at hw
        cases h : (c == sep) with
        | false => rfl
        | true => have := eq_of_beq h; subst this; simp at hw
      have hcs : ¬ cs.contains sep := by
        simp only [List.contains_cons, Bool.or_eq_true, not_or] at hw
        exact hw.2
      simp only [splitOn, hc, ih hcs]
      rfl

theorem not_contains_of_all_digit (ds : Str) (h : ds.all isAsciiDigit = true) (c : Char)
    (hc : isAsciiDigit c = false) : ds.contains c = false := by
  induction ds with
  | nil => rfl
  | cons d ds ih =>
      simp only [List.all_cons, Bool.and_eq_true] at h
      simp only [List.contains_cons, Bool.or_eq_false_iff]
      refine ⟨?_, ih h.2⟩
      cases hcd : (c == d) with
      | false => rfl
      | true => have := eq_of_beq hcd; subst this; rw [hc] at h; simp at h

theorem beforeFirst_absent (p : Char) (ps w : Str) (h : w.contains p = false) :
    beforeFirst (p :: ps) w = w := by
  induction w with
  | nil => rfl
  | cons c cs ih =>
      simp only [List.contains_cons, Bool.or_eq_false_iff] at h
      have hpc : (p == c) = false := h.1
      simp only [beforeFirst, List.isPrefixOf, hpc, Bool.false_and, Bool.false_eq_true, if_false, ih h.2]

theorem parseInt_digits (ds : Str) (hne : ds ≠ []) (h : ds.all isAsciiDigit = true) :
    parseInt ds = .ok (digitsToNat ds 0 : Nat) := by
  have hp : parseNat ds = .ok (digitsToNat ds 0) := by
    unfold parseNat
    have : ds.isEmpty = false := by cases ds <;> simp_all
    simp [this, h]
  cases ds with
  | nil => exact absurd rfl hne
  | cons c cs =>
      simp only [List.all_cons, Bool.and_eq_true] at h
      have h1 : c ≠ '-' := by intro hc; subst hc; exact absurd h.1 (by decide)
      have h2 : c ≠ '+' := by intro hc; subst hc; exact absurd h.1 (by decide)
      unfold parseInt
      split
      · rename_i r heq; cases heq; exact absurd rfl h1
      · rename_i r heq; cases heq; exact absurd rfl h2
      · simp only [hp, bind, Except.bind, pure, Except.pure]

theorem isTimeSignature_m (l : Str) : isTimeSignature ('m' :: l) = false := by
  have h1 : "Time".toList = ['T', 'i', 'm', 'e'] := by decide
  have h2 : "time".toList = ['t', 'i', 'm', 'e'] := by decide
  simp [isTimeSignature, startsWith, h1, h2, List.isPrefixOf]

theorem isTonalityLine_m (l : Str) : isTonalityLine ('m' :: l) = false := by
  have h1 : "tonality".toList = ['t', 'o', 'n', 'a', 'l', 'i', 't', 'y'] := by decide
  have h2 : "key".toList = ['k', 'e', 'y'] := by decide
  have h3 : lowerChar 'm' = 'm' := by decide
  simp [isTonalityLine, startsWith, h1, h2, lower, h3, List.isPrefixOf]

theorem isEvent_m (l : Str) : isEvent ('m' :: l) = false := by
  have h1 : "!".toList = ['!'] := by decide
  simp [isEvent, startsWith, h1, List.isPrefixOf]

theorem isBar_m (l : Str) : isBar ('m' :: l) = true := by
  have h1 : "m".toList = ['m'] := by decide
  simp [isBar, startsWith, h1, List.isPrefixOf]

/-- the words of a bar line `m<digits>` + tail, where the tail is empty or starts with a blank -/
theorem words_of_bar_line (ds tail : Str) (hdig : ds.all isAsciiDigit = true)
    (htail : tail = [] ∨ ∃ r, tail = ' ' :: r) :
    splitOn ' ' ('m' :: ds ++ tail) = ('m' :: ds) :: (splitOn ' ' tail).drop 1 := by
  have hw : ¬ ('m' :: ds).contains ' ' = true := by
    simp only [List.contains_cons, Bool.or_eq_true, not_or]
    exact ⟨by decide, by rw [not_contains_of_all_digit ds hdig ' ' (by decide)]; simp⟩
  rcases htail with h | ⟨r, h⟩
  · subst h
    rw [List.append_nil, splitOn_single ' ' _ hw]
    rfl
  · subst h
    have := splitOn_word ' ' ('m' :: ds) r hw
    simp only [List.cons_append] at this ⊢
    rw [this]
    simp [splitOn]

/-- **a bar line keeps the number it carries**: for every indentation (tabs, then blanks), every
bar number written in digits and every rest of the line without `=`, `init` reads the line as
bar `<digits>` followed by the elements of its words; the bar is kept unless its number is not
above the last one read (variations). -/
theorem lexLine_bar (tabs blanks : Nat) (ds tail : Str) (st : LexState)
    (hne : ds ≠ []) (hdig : ds.all isAsciiDigit = true)
    (htail : tail = [] ∨ ∃ r, tail = ' ' :: r) (heq : tail.contains '=' = false) :
    lexLine (List.replicate tabs '\t' ++ (List.replicate blanks ' ' ++ ('m' :: ds ++ tail))) st
      = (match getElements ((splitOn ' ' tail).drop 1) false with
         | .error e => .error e
         | .ok els =>
            let idx : Int := (digitsToNat ds 0 : Nat)
            if st.initBar > idx then .ok st
            else if st.initBar ≠ idx then
              .ok { elements := st.elements ++ [Elem.bar idx] ++ els,
                    barElements := (idx, els) :: st.barElements, initBar := idx }
            else .ok st) := by
  unfold lexLine
  have hstrip : lstripChar ' ' (lstripChar '\t' (List.replicate tabs '\t' ++ (List.replicate blanks ' ' ++ ('m' :: ds ++ tail))))
      = 'm' :: ds ++ tail := by
    rw [lstripChar_replicate]
    have : lstripChar '\t' (List.replicate blanks ' ' ++ ('m' :: ds ++ tail)) = List.replicate blanks ' ' ++ ('m' :: ds ++ tail) := by
      cases blanks with
      | zero => exact lstripChar_cons_ne _ _ _ (by decide)
      | succ k => exact lstripChar_cons_ne _ _ _ (by decide)
    rw [this, lstripChar_replicate]
    exact lstripChar_cons_ne _ _ _ (by decide)
  simp only [hstrip]
  have hwords := words_of_bar_line ds tail hdig htail
  have hx : ('m' :: ds).contains 'x' = false := by
    simp only [List.contains_cons, Bool.or_eq_false_iff]
    exact ⟨by decide, not_contains_of_all_digit ds hdig 'x' (by decide)⟩
  have hv : ('m' :: ds).contains 'v' = false := by
    simp only [List.contains_cons, Bool.or_eq_false_iff]
    exact ⟨by decide, not_contains_of_all_digit ds hdig 'v' (by decide)⟩
  have hdash : ('m' :: ds).contains '-' = false := by
    simp only [List.contains_cons, Bool.or_eq_false_iff]
    exact ⟨by decide, not_contains_of_all_digit ds hdig '-' (by decide)⟩
  have heq' : ('m' :: ds ++ tail).contains '=' = false := by
    have h1 : ('m' :: ds).contains '=' = false := by
      simp only [List.contains_cons, Bool.or_eq_false_iff]
      exact ⟨by decide, not_contains_of_all_digit ds hdig '=' (by decide)⟩
    have : ('m' :: ds ++ tail) = ('m' :: ds) ++ tail := rfl
    rw [this, List.contains_append, h1, heq]; rfl
  have hmulti : isMultibar ('m' :: ds ++ tail) = false := by
    unfold isMultibar
    simp only [hwords, List.headD_cons, hdash, heq', Bool.or_false, Bool.and_false]
  have hvar : "var".toList = ['v', 'a', 'r'] := by decide
  have hidx : barIdx ('m' :: ds ++ tail) st.initBar = .ok ((digitsToNat ds 0 : Nat) : Int) := by
    unfold barIdx
    simp only [hwords, List.headD_cons, hvar, beforeFirst_absent 'v' _ _ hv, hx]
    simp only [Bool.false_eq_true, if_false, List.drop_one, List.tail_cons]
    exact parseInt_digits ds hne hdig
  have h1 := isTimeSignature_m (ds ++ tail)
  have h2 := isTonalityLine_m (ds ++ tail)
  have h3 := isEvent_m (ds ++ tail)
  have h4 := isBar_m (ds ++ tail)
  simp only [List.cons_append] at h1 h2 h3 h4 hmulti hidx hwords ⊢
  simp only [h1, h2, h3, h4, hmulti, hidx, hwords, Bool.false_eq_true, if_false, if_true, bind, Except.bind,
    pure, Except.pure, List.drop_one, List.tail_cons]
  cases getElements (splitOn ' ' tail).tail false <;> rfl

/-- one written bar line: indentation, the digits of its number, the rest of the line, and the
elements its words stand for -/
structure BarLineSpec where
  tabs : Nat
  blanks : Nat
  ds : Str
  tail : Str
  els : List Elem

def BarLineSpec.text (b : BarLineSpec) : Str :=
  List.replicate b.tabs '\t' ++ (List.replicate b.blanks ' ' ++ ('m' :: b.ds ++ b.tail))

def BarLineSpec.idx (b : BarLineSpec) : Int := (digitsToNat b.ds 0 : Nat)

def BarLineSpec.good (b : BarLineSpec) : Prop :=
  b.ds ≠ [] ∧ b.ds.all isAsciiDigit = true ∧ (b.tail = [] ∨ ∃ r, b.tail = ' ' :: r) ∧
  b.tail.contains '=' = false ∧ getElements ((splitOn ' ' b.tail).drop 1) false = .ok b.els

/-- bar numbers strictly increasing, starting above `i` -/
def incFrom (i : Int) : List BarLineSpec → Prop
  | [] => True
  | b :: bs => i < b.idx ∧ incFrom b.idx bs

theorem lexLines_bars (bs : List BarLineSpec) (st : LexState)
    (hgood : ∀ b ∈ bs, b.good) (hinc : incFrom st.initBar bs) :
    ∃ st', lexLines (bs.map BarLineSpec.text) st = .ok st' ∧
      st'.elements = st.elements ++ bs.flatMap (fun b => Elem.bar b.idx :: b.els) ∧
      st'.initBar = (bs.getLast?.map BarLineSpec.idx).getD st.initBar := by
  induction bs generalizing st with
  | nil => exact ⟨st, rfl, by simp, by simp⟩
  | cons b bs ih =>
      obtain ⟨h1, h2, h3, h4, h5⟩ := hgood b (by simp)
      obtain ⟨hlt, hinc'⟩ := hinc
      have hline := lexLine_bar b.tabs b.blanks b.ds b.tail st h1 h2 h3 h4
      rw [h5] at hline
      have hidx : ¬ st.initBar > b.idx := by omega
      have hne : st.initBar ≠ b.idx := by omega
      unfold BarLineSpec.idx at hidx hne hlt hinc'
      simp only [hidx, hne, if_false, ne_eq, not_false_eq_true, if_true] at hline
      simp only [List.map_cons, lexLines, BarLineSpec.text, hline, bind, Except.bind]
      obtain ⟨st', hr, he, hi⟩ := ih
        { elements := st.elements ++ [Elem.bar ((digitsToNat b.ds 0 : Nat) : Int)] ++ b.els,
          barElements := (((digitsToNat b.ds 0 : Nat) : Int), b.els) :: st.barElements,
          initBar := ((digitsToNat b.ds 0 : Nat) : Int) }
        (fun b' hb' => hgood b' (by simp [hb'])) hinc'
      refine ⟨st', hr, ?_, ?_⟩
      · rw [he]; simp [BarLineSpec.idx]
      · rw [hi]
        cases bs with
        | nil => simp [BarLineSpec.idx]
        | cons c cs => simp [List.getLast?_cons_cons, List.getLast?_eq_some_getLast (List.cons_ne_nil c cs)]

/-! ### a whole text: time-signature line + bar lines -/

theorem splitOn_lines (sep : Char) (w : Str) (ws : List Str) (hw : ¬ w.contains sep)
    (hws : ∀ x ∈ ws, ¬ x.contains sep) :
    splitOn sep (w ++ ws.flatMap (fun x => sep :: x)) = w :: ws := by
  induction ws generalizing w with
  | nil => simpa using splitOn_single sep w hw
  | cons x xs ih =>
      simp only [List.flatMap_cons, List.cons_append]
      rw [splitOn_word sep w _ hw, ih x (hws x (by simp)) (fun y hy => hws y (by simp [hy]))]

theorem replaceGo_absent (c : Char) (s : Str) (h : s.contains c = false) : replaceGo [c] [] 0 s = s := by
  induction s with
  | nil => rfl
  | cons d ds ih =>
      simp only [List.contains_cons, Bool.or_eq_false_iff] at h
      have hcd : (c == d) = false := h.1
      simp only [replaceGo, List.isPrefixOf, hcd, Bool.false_and, Bool.false_eq_true, if_false, ih h.2]

theorem contains_append_false (a b : Str) (c : Char) (ha : a.contains c = false) (hb : b.contains c = false) :
    (a ++ b).contains c = false := by
  rw [List.contains_append, ha, hb]; rfl

/-- the time-signature line `Time Signature: <n>/<d>` (digits) is read as that signature -/
theorem lexLine_ts (n d : Str) (st : LexState) (hn : n.all isAsciiDigit = true) (hd : d.all isAsciiDigit = true) :
    lexLine ("Time Signature: ".toList ++ (n ++ '/' :: d)) st
      = .ok { st with elements := st.elements ++ [Elem.ts n d] } := by
  have hlit : "Time Signature: ".toList = ['T', 'i', 'm', 'e', ' ', 'S', 'i', 'g', 'n', 'a', 't', 'u', 'r', 'e', ':', ' '] := by decide
  have h1 : "Time".toList = ['T', 'i', 'm', 'e'] := by decide
  have hsp : " ".toList = [' '] := by decide
  have he : "".toList = [] := by decide
  have hnd_colon : (n ++ '/' :: d).contains ':' = false :=
    contains_append_false _ _ _ (not_contains_of_all_digit n hn ':' (by decide))
      (by simp only [List.contains_cons, Bool.or_eq_false_iff]
          exact ⟨by decide, not_contains_of_all_digit d hd ':' (by decide)⟩)
  have hnd_sp : (n ++ '/' :: d).contains ' ' = false :=
    contains_append_false _ _ _ (not_contains_of_all_digit n hn ' ' (by decide))
      (by simp only [List.contains_cons, Bool.or_eq_false_iff]
          exact ⟨by decide, not_contains_of_all_digit d hd ' ' (by decide)⟩)
  have hn_sl : ¬ n.contains '/' = true := by rw [not_contains_of_all_digit n hn '/' (by decide)]; simp
  have hd_sl : ¬ d.contains '/' = true := by rw [not_contains_of_all_digit d hd '/' (by decide)]; simp
  unfold lexLine
  rw [hlit]
  simp only [List.cons_append, List.nil_append]
  rw [lstripChar_cons_ne '\t' 'T' _ (by decide), lstripChar_cons_ne ' ' 'T' _ (by decide)]
  have hts : isTimeSignature ('T' :: 'i' :: 'm' :: 'e' :: ' ' :: 'S' :: 'i' :: 'g' :: 'n' :: 'a' :: 't' :: 'u' :: 'r' :: 'e' :: ':' :: ' ' :: (n ++ '/' :: d)) = true := by
    simp [isTimeSignature, startsWith, h1, List.isPrefixOf]
  simp only [hts, if_true]
  have hsplit : splitOn ':' ('T' :: 'i' :: 'm' :: 'e' :: ' ' :: 'S' :: 'i' :: 'g' :: 'n' :: 'a' :: 't' :: 'u' :: 'r' :: 'e' :: ':' :: ' ' :: (n ++ '/' :: d))
      = ['T', 'i', 'm', 'e', ' ', 'S', 'i', 'g', 'n', 'a', 't', 'u', 'r', 'e'] :: [' ' :: (n ++ '/' :: d)] := by
    have hw : ¬ (['T', 'i', 'm', 'e', ' ', 'S', 'i', 'g', 'n', 'a', 't', 'u', 'r', 'e'] : Str).contains ':' = true := by decide
    have := splitOn_word ':' ['T', 'i', 'm', 'e', ' ', 'S', 'i', 'g', 'n', 'a', 't', 'u', 'r', 'e'] (' ' :: (n ++ '/' :: d)) hw
    simp only [List.cons_append, List.nil_append] at this
    rw [this, splitOn_single ':' (' ' :: (n ++ '/' :: d)) (by
      simp only [List.contains_cons, Bool.or_eq_true, not_or]
      exact ⟨by decide, by rw [hnd_colon]; simp⟩)]
  rw [hsplit]
  simp only
  have hrep : rep " " "" (' ' :: (n ++ '/' :: d)) = n ++ '/' :: d := by
    unfold rep replace
    simp only [hsp, he, List.isEmpty_cons, Bool.false_eq_true, if_false]
    simp only [replaceGo, List.isPrefixOf, beq_self_eq_true, Bool.and_self, if_true, List.length_singleton,
      Nat.sub_self, List.nil_append]
    exact replaceGo_absent ' ' _ hnd_sp
  rw [hrep, splitOn_word '/' n d hn_sl, splitOn_single '/' d hd_sl]

/-- the text `Time Signature: n/d` followed by the bar lines, one per line -/
def renderText (n d : Str) (bs : List BarLineSpec) : Str :=
  ("Time Signature: ".toList ++ (n ++ '/' :: d)) ++ (bs.map BarLineSpec.text).flatMap (fun x => '\n' :: x)

theorem replicate_contains_false (k : Nat) (c x : Char) (h : (x == c) = false) :
    (List.replicate k c).contains x = false := by
  induction k with
  | zero => rfl
  | succ j ih => simp only [List.replicate_succ, List.contains_cons, h, ih, Bool.or_self]

theorem barText_no_newline (b : BarLineSpec) (hdig : b.ds.all isAsciiDigit = true)
    (htail : b.tail.contains '\n' = false) : b.text.contains '\n' = false := by
  unfold BarLineSpec.text
  refine contains_append_false _ _ _ (replicate_contains_false _ _ _ (by decide)) ?_
  refine contains_append_false _ _ _ (replicate_contains_false _ _ _ (by decide)) ?_
  have : ('m' :: b.ds ++ b.tail) = ['m'] ++ (b.ds ++ b.tail) := rfl
  rw [this]
  refine contains_append_false _ _ _ (by decide) ?_
  exact contains_append_false _ _ _ (not_contains_of_all_digit _ hdig '\n' (by decide)) htail

theorem lexText_render (n d : Str) (bs : List BarLineSpec)
    (hn : n.all isAsciiDigit = true) (hd : d.all isAsciiDigit = true)
    (hgood : ∀ b ∈ bs, b.good) (hnl : ∀ b ∈ bs, b.tail.contains '\n' = false) (hinc : incFrom (-1) bs) :
    lexText (renderText n d bs) = .ok (Elem.ts n d :: bs.flatMap (fun b => Elem.bar b.idx :: b.els)) := by
  have hlit : "Time Signature: ".toList = ['T', 'i', 'm', 'e', ' ', 'S', 'i', 'g', 'n', 'a', 't', 'u', 'r', 'e', ':', ' '] := by decide
  have h1 : "Time".toList = ['T', 'i', 'm', 'e'] := by decide
  have hts_nl : ¬ ("Time Signature: ".toList ++ (n ++ '/' :: d)).contains '\n' = true := by
    have : ("Time Signature: ".toList ++ (n ++ '/' :: d)).contains '\n' = false := by
      refine contains_append_false _ _ _ (by decide) ?_
      refine contains_append_false _ _ _ (not_contains_of_all_digit n hn '\n' (by decide)) ?_
      simp only [List.contains_cons, Bool.or_eq_false_iff]
      exact ⟨by decide, not_contains_of_all_digit d hd '\n' (by decide)⟩
    rw [this]; simp
  have hlines : splitOn '\n' (renderText n d bs)
      = ("Time Signature: ".toList ++ (n ++ '/' :: d)) :: bs.map BarLineSpec.text := by
    unfold renderText
    apply splitOn_lines '\n' _ _ hts_nl
    intro x hx
    obtain ⟨b, hb, rfl⟩ := List.mem_map.mp hx
    rw [barText_no_newline b (hgood b hb).2.1 (hnl b hb)]; simp
  have hfirst : firstTimeSignature (("Time Signature: ".toList ++ (n ++ '/' :: d)) :: bs.map BarLineSpec.text) = true := by
    rw [hlit]
    simp [firstTimeSignature, isTimeSignature, startsWith, h1, List.isPrefixOf]
  unfold lexText
  simp only [hlines, hfirst, if_true, lexLines, lexLine_ts n d _ hn hd, bind, Except.bind, pure, Except.pure]
  obtain ⟨st', hr, he, _⟩ := lexLines_bars bs { elements := ([] : List Elem) ++ [Elem.ts n d], barElements := [], initBar := -1 } hgood hinc
  simp only [hr, he]
  rfl

end MV.Roman
