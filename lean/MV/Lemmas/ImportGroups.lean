/-
C14 importer lemmas 10/15 — `barGroups`: under `NameOK` one group per part name, holding exactly the notes of that name.
-/
import MV.Lemmas.ImportFold
import MV.Lemmas.Window
namespace MV

/-- the part names tell (track, voice) pairs apart, and only them -/
def NameOK (name : Item → String) (l : List Item) : Prop :=
  ∀ a ∈ l, ∀ b ∈ l, (a.track = b.track ∧ a.voice = b.voice) ↔ name a = name b

/-- no item is on a drum instrument -/
def NoDrum (instruments : List (Int × String)) (l : List Item) : Prop :=
  ∀ a ∈ l, ((instruments.lookup a.channel).getD "piano").startsWith "drum" = false

theorem sortedDedup_asc (l : List Int) : Asc (sortedDedup l) := dedupAdj_asc _ (sortInts_sorted l)

theorem mem_barGroups (instruments : List (Int × String)) (offs : List (Int × Int)) (tracks : List Int)
    (cn : List Item) (g : Group) :
    g ∈ barGroups instruments offs tracks cn ↔
      ∃ t ∈ tracks, ∃ vo ∈ sortedDedup ((cn.filter (fun n => n.track == t)).map (·.voice)), ∃ first tl,
        (cn.filter (fun n => n.track == t)).filter (fun n => n.voice == vo) = first :: tl ∧
        g = (voiceName instruments offs first, ((instruments.lookup first.channel).getD "piano").startsWith "drum", first :: tl) := by
  unfold barGroups
  simp only [List.mem_flatMap, List.mem_filterMap]
  constructor
  · rintro ⟨t, ht, vo, hvo, h⟩
    refine ⟨t, ht, vo, hvo, ?_⟩
    cases hv : (cn.filter (fun n => n.track == t)).filter (fun n => n.voice == vo) with
    | nil => simp [hv] at h
    | cons first tl =>
        simp only [hv, Option.some.injEq] at h
        exact ⟨first, tl, rfl, h.symm⟩
  · rintro ⟨t, ht, vo, hvo, first, tl, hv, rfl⟩
    exact ⟨t, ht, vo, hvo, by simp [hv]⟩

/-- what a group of a bar is, under `NameOK`: all notes of the bar with the group's name -/
theorem barGroups_spec (instruments : List (Int × String)) (offs : List (Int × Int)) (tracks : List Int)
    (cn : List Item) (hN : NameOK (voiceName instruments offs) cn) (hD : NoDrum instruments cn) (g : Group)
    (hg : g ∈ barGroups instruments offs tracks cn) :
    g.2.2 ≠ [] ∧ g.2.2 = cn.filter (fun n => voiceName instruments offs n == g.1) ∧ g.2.1 = false := by
  rw [mem_barGroups] at hg
  obtain ⟨t, _, vo, _, first, tl, hv, rfl⟩ := hg
  have hfm : first ∈ (cn.filter (fun n => n.track == t)).filter (fun n => n.voice == vo) := by
    rw [hv]; exact List.mem_cons_self ..
  simp only [List.mem_filter, beq_iff_eq] at hfm
  obtain ⟨⟨hfc, hft⟩, hfv⟩ := hfm
  refine ⟨by simp, ?_, hD first hfc⟩
  show first :: tl = _
  rw [← hv, List.filter_filter]
  apply List.filter_congr
  intro x hx
  have := hN x hx first hfc
  rw [hft, hfv] at this
  by_cases hn : voiceName instruments offs x = voiceName instruments offs first
  · have h2 := this.mpr hn
    simp [h2.1, h2.2, hn]
  · have h2 : ¬ (x.track = t ∧ x.voice = vo) := fun h => hn (this.mp h)
    have e1 : (voiceName instruments offs x == voiceName instruments offs first) = false := by simpa using hn
    rw [e1]
    by_cases ht : x.track = t
    · have : x.voice ≠ vo := fun hvv => h2 ⟨ht, hvv⟩
      simp [ht, this]
    · simp [ht]

theorem barGroups_complete (instruments : List (Int × String)) (offs : List (Int × Int)) (tracks : List Int)
    (cn : List Item) (hN : NameOK (voiceName instruments offs) cn) (htr : ∀ a ∈ cn, a.track ∈ tracks) (v : String)
    (hne : cn.filter (fun n => voiceName instruments offs n == v) ≠ []) :
    ∃ g ∈ barGroups instruments offs tracks cn, g.1 = v := by
  obtain ⟨x, hx⟩ := List.exists_mem_of_ne_nil _ hne
  simp only [List.mem_filter, beq_iff_eq] at hx
  obtain ⟨hxc, hxv⟩ := hx
  have hmem : x ∈ (cn.filter (fun n => n.track == x.track)).filter (fun n => n.voice == x.voice) := by
    simp [List.mem_filter, hxc]
  cases hv : (cn.filter (fun n => n.track == x.track)).filter (fun n => n.voice == x.voice) with
  | nil => rw [hv] at hmem; cases hmem
  | cons first tl =>
      have hfm : first ∈ (cn.filter (fun n => n.track == x.track)).filter (fun n => n.voice == x.voice) := by
        rw [hv]; exact List.mem_cons_self ..
      simp only [List.mem_filter, beq_iff_eq] at hfm
      obtain ⟨⟨hfc, hft⟩, hfv⟩ := hfm
      refine ⟨_, (mem_barGroups ..).mpr ⟨x.track, htr x hxc, x.voice, ?_, first, tl, hv, rfl⟩, ?_⟩
      · rw [mem_sortedDedup]; exact List.mem_map_of_mem (by simp [List.mem_filter, hxc])
      · show voiceName instruments offs first = v
        rw [← hxv]; exact (hN first hfc x hxc).mp ⟨hft, hfv⟩

end MV

namespace MV

theorem barGroups_nodup (instruments : List (Int × String)) (offs : List (Int × Int)) (tracks : List Int)
    (cn : List Item) (hN : NameOK (voiceName instruments offs) cn) (htr : Asc tracks) :
    ((barGroups instruments offs tracks cn).map (·.1)).Nodup := by
  unfold List.Nodup barGroups
  rw [List.pairwise_map, List.pairwise_flatMap]
  -- the head of a group produced for (t, vo)
  have head : ∀ t vo (g : Group),
      (match (cn.filter (fun n => n.track == t)).filter (fun n => n.voice == vo) with
        | [] => none
        | first :: _ => some ((voiceName instruments offs first,
            ((instruments.lookup first.channel).getD "piano").startsWith "drum",
            (cn.filter (fun n => n.track == t)).filter (fun n => n.voice == vo)) : Group)) = some g →
      ∃ first ∈ cn, first.track = t ∧ first.voice = vo ∧ g.1 = voiceName instruments offs first := by
    intro t vo g h
    cases hv : (cn.filter (fun n => n.track == t)).filter (fun n => n.voice == vo) with
    | nil => simp [hv] at h
    | cons first tl =>
        have hfm : first ∈ (cn.filter (fun n => n.track == t)).filter (fun n => n.voice == vo) := by
          rw [hv]; exact List.mem_cons_self ..
        simp only [List.mem_filter, beq_iff_eq] at hfm
        simp only [hv, Option.some.injEq] at h
        exact ⟨first, hfm.1.1, hfm.1.2, hfm.2, by rw [← h]⟩
  constructor
  · intro t _
    rw [List.pairwise_filterMap]
    apply List.Pairwise.imp _ (sortedDedup_asc _)
    intro vo vo' hlt g hg g' hg'
    obtain ⟨f, hf, hft, hfv, hgn⟩ := head t vo g hg
    obtain ⟨f', hf', hft', hfv', hgn'⟩ := head t vo' g' hg'
    rw [hgn, hgn']
    intro e
    have := (hN f hf f' hf').mpr e
    omega
  · apply List.Pairwise.imp _ htr
    intro t t' hlt g hg g' hg'
    simp only [List.mem_filterMap] at hg hg'
    obtain ⟨vo, _, hg⟩ := hg
    obtain ⟨vo', _, hg'⟩ := hg'
    obtain ⟨f, hf, hft, hfv, hgn⟩ := head t vo g hg
    obtain ⟨f', hf', hft', hfv', hgn'⟩ := head t' vo' g' hg'
    rw [hgn, hgn']
    intro e
    have := (hN f hf f' hf').mpr e
    omega

end MV
