/-
C14 importer lemmas 2/15 — monophonic runs (`Chain`), the note loop of `_parse_voice` on such a run (`voiceLoop_chain`).
-/
import MV.Lemmas.ImportNote
namespace MV
open Gen

/-- a monophonic run of notes after time `t`: each starts at or after the previous end and has positive length -/
def Chain : Rat → List Item → Prop
  | _, [] => True
  | t, n :: rest => t ≤ n.start ∧ n.start < n.stop ∧ Chain n.stop rest

/-- end of the last note of the run (or `t` if the run is empty) -/
def endOf : Rat → List Item → Rat
  | t, [] => t
  | _, n :: rest => endOf n.stop rest

/-- the rest filling `[a, b)` (nothing if empty) -/
def gapRest (a b : Rat) : Melody := if a < b then [mkSilence (b - a)] else []

/-- what the note loop writes for a monophonic run: rests in the gaps, each note with its length,
cut at `cut` (the bar end; only the last note can exceed it) -/
def loopMel (c : Chord) (cut : Rat) : Rat → List Item → Melody
  | _, [] => []
  | t, n :: rest => gapRest t n.start ++ noteOf c n (min n.stop cut - n.start) :: loopMel c cut n.stop rest

/-- the same without the cut -/
def loopMelRaw (c : Chord) : Rat → List Item → Melody
  | _, [] => []
  | t, n :: rest => gapRest t n.start ++ noteOf c n (n.stop - n.start) :: loopMelRaw c n.stop rest

/-- every difference of two times of the set is a duration `Note(...)` keeps unchanged -/
def FineSet (T : List Rat) : Prop := ∀ a ∈ T, ∀ b ∈ T, Fine (a - b)

theorem appendParsed_eq (c : Chord) (he : 0 ≤ c.elem ∧ c.elem < 7) (it : Item) (d : Rat) (hd : Fine d)
    (hpos : 0 < d) (m : Melody) : appendParsed c it d 1 m = .ok (m ++ [noteOf c it d]) := by
  unfold appendParsed
  rw [parseNote_eq c he it d hd]
  simp only [bind, Except.bind, pure, Except.pure]
  have : (noteOf c it d).dur > 0 := hpos
  simp [this]

theorem voiceLoop_chain (c : Chord) (he : 0 ≤ c.elem ∧ c.elem < 7) (be : Rat) (T : List Rat) (hT : FineSet T) :
    ∀ (ns : List Item) (m : Melody) (t : Rat), Chain t ns → t ∈ T → (∀ n ∈ ns, n.start ∈ T ∧ n.stop ∈ T) →
      voiceLoop c be 1 false ns m t = .ok (m ++ loopMelRaw c t ns, endOf t ns) := by
  intro ns
  induction ns with
  | nil => intro m t _ _ _; simp [voiceLoop, loopMelRaw, endOf, pure, Except.pure]
  | cons n rest ih =>
      intro m t hc ht hmem
      obtain ⟨h1, h2, h3⟩ := hc
      have hn := hmem n (List.mem_cons_self ..)
      have hrest : ∀ x ∈ rest, x.start ∈ T ∧ x.stop ∈ T := fun x hx => hmem x (List.mem_cons_of_mem _ hx)
      have hfd : Fine (n.stop - n.start) := hT _ hn.2 _ hn.1
      have hpos : 0 < n.stop - n.start := by grind
      unfold voiceLoop
      simp only [Bool.false_eq_true, if_false]
      have hno : ¬ (t - n.start > 0) := by grind
      simp only [hno, if_false, hpos, gt_iff_lt, if_true]
      by_cases hlt : t < n.start
      · have hneg : t - n.start < 0 := by grind
        simp only [hneg, if_true, bind, Except.bind]
        rw [appendParsed_eq c he n _ hfd hpos]
        simp only []
        rw [ih _ _ h3 hn.2 hrest]
        have hg : gapRest t n.start = [mkSilence (-(t - n.start) * 1)] := by
          unfold gapRest; simp only [hlt, if_true]; congr 2; grind
        simp only [loopMelRaw, endOf, hg, List.append_assoc, List.cons_append, List.nil_append]
      · have hneg : ¬ (t - n.start < 0) := by grind
        simp only [hneg, if_false, bind, Except.bind]
        rw [appendParsed_eq c he n _ hfd hpos]
        simp only []
        rw [ih _ _ h3 hn.2 hrest]
        have hg : gapRest t n.start = [] := by unfold gapRest; simp only [hlt, if_false]
        simp only [loopMelRaw, endOf, hg, List.append_assoc, List.cons_append, List.nil_append]

end MV
