/-
Lemmas for C04: algebra of `Tonality.add/sub`, the relation "chord `c'` is chord `c` moved by `D`
semitones" (`Shifted`), and equivariance of the whole pitch calculus under it: scale, chromatic,
chord-tone and bass-tone pitches move by exactly `D` (for *any* figure and modifier list, via the
invariant that every chord tone is a scale or chromatic note of the tables), absolute and drum
notes do not move, relative notes move by `D` inside the window (`RelShift`).
-/
import MV.Model.Transpose
import MV.Model.Render
import MV.Lemmas.Scale
import MV.Lemmas.RelShift

namespace MV
open Gen

theorem Tonality.add_assoc' (a b c : Tonality) : (a.add b).add c = a.add (b.add c) := by
  simp only [Tonality.add]
  congr 1 <;> omega

theorem Tonality.add_abs (a b : Tonality) : (a.add b).absDegree = a.absDegree + b.absDegree := by
  simp only [Tonality.add, Tonality.absDegree]; omega

theorem Tonality.sub_abs (a b : Tonality) : (a.sub b).absDegree = a.absDegree - b.absDegree := by
  simp only [Tonality.sub, Tonality.absDegree]; omega

theorem Tonality.pyEq_iff (a b : Tonality) : a.pyEq b = true ↔ (a.absDegree = b.absDegree ∧ a.mode = b.mode) := by
  simp only [Tonality.pyEq, Tonality.rawEq, Tonality.add, Tonality.zero, Tonality.absDegree, Bool.and_eq_true, beq_iff_eq]
  constructor
  · rintro ⟨⟨h1, h2⟩, h3⟩; exact ⟨by omega, h2⟩
  · rintro ⟨h1, h2⟩; exact ⟨⟨by omega, h2⟩, by omega⟩


def Chord.base' (c : Chord) : Int := c.ton.absDegree + 12 * c.oct

theorem scalePitches_nf (c : Chord) :
    c.scalePitches = ((SCALES c.ton.mode).map (· + c.base')).drop c.elem.toNat
      ++ ((SCALES c.ton.mode).map (· + (c.base' + 12))).take c.elem.toNat := by
  unfold Chord.scalePitches Tonality.scalePitches Chord.base'
  simp only [List.map_drop, List.map_take, List.map_append, List.map_map]
  congr 2
  · apply List.map_congr_left; intro x _; simp only [Function.comp]; omega
  · apply List.map_congr_left; intro x _; simp only [Function.comp]; omega

def Shifted (D : Int) (c c' : Chord) : Prop :=
  c'.elem = c.elem ∧ c'.ext = c.ext ∧ c'.ton.mode = c.ton.mode ∧ c'.base' = c.base' + D

theorem scalePitches_shift (D : Int) (c c' : Chord) (h : Shifted D c c') :
    c'.scalePitches = c.scalePitches.map (· + D) := by
  obtain ⟨h1, _, h3, h4⟩ := h
  rw [scalePitches_nf, scalePitches_nf, h1, h3, h4]
  simp only [List.map_append, List.map_map, List.map_drop, List.map_take]
  congr 2
  · apply List.map_congr_left; intro x _; simp only [Function.comp]; omega
  · apply List.map_congr_left; intro x _; simp only [Function.comp]; omega

theorem pyIndex_map {α β : Type} (f : α → β) (l : List α) (i : Int) :
    pyIndex (l.map f) i = (pyIndex l i).map f := by
  unfold pyIndex
  simp only [List.length_map, List.getElem?_map]
  generalize (if i < 0 then i + (l.length : Int) else i) = j
  by_cases hj : j < 0 ∨ j ≥ (l.length : Int)
  · simp only [hj, if_true]; rfl
  · simp only [hj, if_false]; cases l[j.toNat]? <;> rfl

theorem valueToScale_map (v D : Int) (l : List Int) :
    valueToScale v (l.map (· + D)) = (valueToScale v l).map (· + D) := by
  unfold valueToScale
  simp only [List.length_map]
  split
  · rfl
  · rw [pyIndex_map]
    cases pyIndex l (v % (l.length : Int)) with
    | error e => rfl
    | ok x => simp only [Except.map, bind, Except.bind, pure, Except.pure]; congr 1; omega

def shiftO (D : Int) (r : Res (Option Int)) : Res (Option Int) := r.map (Option.map (· + D))

theorem realChord_shifted (D : Int) (c c' : Chord) (n : Note) (h : Shifted D c c') :
    Shifted D (n.realChord c) (n.realChord c') := by
  obtain ⟨h1, h2, h3, h4⟩ := h
  unfold Note.realChord
  cases n.mode with
  | none => exact ⟨h1, h2, h3, h4⟩
  | some md => exact ⟨h1, h2, rfl, by simpa [Chord.base', Tonality.absDegree] using h4⟩

theorem basicPitch_shift (D : Int) (c c' : Chord) (n : Note) (h : Shifted D (n.realChord c) (n.realChord c'))
    (hk : n.kind = .s ∨ n.kind = .h) : basicPitch c' n = shiftO D (basicPitch c n) := by
  have hs := scalePitches_shift D _ _ h
  unfold basicPitch shiftO
  rcases hk with hk | hk
  · simp only [hk]
    cases n.acc with
    | some a =>
        simp only [withAccident, hs, pyIndex_map]
        cases pyIndex (n.realChord c).scalePitches 0 with
        | error e => rfl
        | ok t =>
          cases lookupKey (n.val, a) ACCIDENTS_TO_NOTE with
          | error e => rfl
          | ok d => simp only [Except.map, bind, Except.bind, pure, Except.pure, Option.map]; congr 2; omega
    | none =>
        simp only [hs, valueToScale_map]
        cases valueToScale (n.val + 7 * n.oct) (n.realChord c).scalePitches <;> rfl
  · simp only [hk, hs, pyIndex_map]
    cases pyIndex (n.realChord c).scalePitches 0 with
    | error e => rfl
    | ok root =>
      simp only [Except.map, bind, Except.bind]
      rw [valueToScale_chromatic, valueToScale_chromatic]
      simp only [pure, Except.pure, Option.map]; congr 2; omega

theorem basicPitch_abs (c c' : Chord) (n : Note) (hk : n.kind = .a ∨ n.kind = .d) :
    basicPitch c' n = basicPitch c n := by
  unfold basicPitch
  rcases hk with hk | hk <;> simp only [hk]


/-- table notes are scale or chromatic notes -/
def Note.isSH (n : Note) : Bool := n.kind == .s || n.kind == .h

theorem isSH_o (n : Note) (k : Int) : (n.o k).isSH = n.isSH := by
  unfold Note.o Note.oabs Note.isSH
  cases hk : n.kind <;> simp [hk]

/-- the part of `_chord_notes_calc` that does not look at the chord -/
def preCalc (fig : Fig) (repl add rem : List String) : Res (List Note) := do
  let base ← match BASE_EXTENSION_DICT fig with
    | some l => pure l
    | none => .error .key
  let st0 : CalcState := { notes := base, nwo := base.map noOct }
  let (st1, adds) ← calcReplacements repl st0 add
  let st2 ← calcAdditions adds st1
  let st3 ← calcRemovals rem st2
  pure st3.notes

theorem chordNotesCalc_eq (c : Chord) (fig : Fig) (r a m : List String) :
    c.chordNotesCalc fig r a m = (do
      let ns ← preCalc fig r a m
      let _ ← ns.mapM (reqPitch c)
      pure (sortByKey (pitchKey c) ns)) := by
  unfold Chord.chordNotesCalc preCalc
  cases BASE_EXTENSION_DICT fig with
  | none => rfl
  | some base =>
    simp only [bind, Except.bind, pure, Except.pure]
    cases calcReplacements r { notes := base, nwo := List.map noOct base } a with
    | error e => rfl
    | ok p =>
      obtain ⟨st1, adds⟩ := p
      simp only
      cases calcAdditions adds st1 with
      | error e => rfl
      | ok st2 =>
        simp only
        cases calcRemovals m st2 with
        | error e => rfl
        | ok st3 => rfl

theorem lookupKey_prop {κ ν : Type} [BEq κ] (P : ν → Prop) (k : κ) (l : List (κ × ν)) (v : ν)
    (hl : ∀ p ∈ l, P p.2) (h : lookupKey k l = .ok v) : P v := by
  unfold lookupKey at h
  induction l with
  | nil => simp [List.lookup] at h
  | cons p t ih =>
    obtain ⟨k', v'⟩ := p
    simp only [List.lookup] at h
    cases hb : (k == k') with
    | true =>
      simp only [hb] at h
      cases h
      exact hl _ List.mem_cons_self
    | false =>
      simp only [hb] at h
      exact ih (fun p hp => hl p (by simp [hp])) h

def AllSH (l : List Note) : Prop := ∀ n ∈ l, n.isSH = true

theorem calcReplacements_sh (hT : ∀ p ∈ DICT_REPLACEMENT, p.2.2.isSH = true) (rs : List String) (st : CalcState)
    (adds : List String) (st' : CalcState) (adds' : List String) (hst : AllSH st.notes)
    (h : calcReplacements rs st adds = .ok (st', adds')) : AllSH st'.notes := by
  induction rs generalizing st adds with
  | nil => simp only [calcReplacements] at h; cases h; exact hst
  | cons r rs ih =>
    simp only [calcReplacements, bind, Except.bind] at h
    cases hl : lookupKey r DICT_REPLACEMENT with
    | error e => simp [hl] at h
    | ok p =>
      obtain ⟨replacedNote, newNote⟩ := p
      simp only [hl] at h
      have hnew : newNote.isSH = true :=
        lookupKey_prop (fun (v : Note × Note) => v.2.isSH = true) r DICT_REPLACEMENT _ hT hl
      cases hi : idxOfPy replacedNote st.nwo with
      | none => simp only [hi] at h; exact ih st _ hst h
      | some idx =>
        simp only [hi] at h
        refine ih _ _ ?_ h
        intro n hn
        simp only at hn
        rcases List.mem_or_eq_of_mem_set hn with h1 | h1
        · exact hst n h1
        · rw [h1, isSH_o]; exact hnew

theorem calcAdditions_sh (hT : ∀ p ∈ DICT_ADDITION, p.2.2.isSH = true) (as : List String) (st st' : CalcState)
    (hst : AllSH st.notes) (h : calcAdditions as st = .ok st') : AllSH st'.notes := by
  induction as generalizing st with
  | nil => simp only [calcAdditions] at h; cases h; exact hst
  | cons a as ih =>
    simp only [calcAdditions, bind, Except.bind] at h
    cases hl : lookupKey a DICT_ADDITION with
    | error e => simp [hl] at h
    | ok p =>
      obtain ⟨noteAfter, newNote⟩ := p
      simp only [hl] at h
      have hnew : newNote.isSH = true :=
        lookupKey_prop (fun (v : Note × Note) => v.2.isSH = true) a DICT_ADDITION _ hT hl
      split at h
      · cases h
      · refine ih _ ?_ h
        intro n hn
        simp only at hn
        rename_i i _
        by_cases hle : i + 1 ≤ st.notes.length
        · rcases (List.mem_insertIdx hle).mp hn with h1 | h1
          · rw [h1, isSH_o]; exact hnew
          · exact hst n h1
        · rw [List.insertIdx_of_length_lt (by omega)] at hn
          exact hst n hn

theorem calcRemovals_sh (rs : List String) (st st' : CalcState)
    (hst : AllSH st.notes) (h : calcRemovals rs st = .ok st') : AllSH st'.notes := by
  induction rs generalizing st with
  | nil => simp only [calcRemovals] at h; cases h; exact hst
  | cons r rs ih =>
    simp only [calcRemovals, bind, Except.bind] at h
    cases hl : lookupKey r DICT_REMOVAL with
    | error e => simp [hl] at h
    | ok removed =>
      simp only [hl] at h
      split at h
      · cases h
      · refine ih _ ?_ h
        intro n hn
        exact hst n (List.mem_of_mem_eraseIdx hn)


theorem base_sh (f : Fig) : ((BASE_EXTENSION_DICT f).getD []).all Note.isSH = true := by
  cases f <;> decide
theorem repl_sh : DICT_REPLACEMENT.all (fun p => p.2.2.isSH) = true := by decide
theorem add_sh : DICT_ADDITION.all (fun p => p.2.2.isSH) = true := by decide

theorem preCalc_sh (fig : Fig) (r a m : List String) (ns : List Note) (h : preCalc fig r a m = .ok ns) :
    AllSH ns := by
  unfold preCalc at h
  have hb := base_sh fig
  cases hB : BASE_EXTENSION_DICT fig with
  | none => simp [hB, bind, Except.bind] at h
  | some base =>
    rw [hB] at hb
    simp only [hB, bind, Except.bind, pure, Except.pure] at h
    have h0 : AllSH base := by
      intro n hn; exact List.all_eq_true.mp hb n hn
    cases h1 : calcReplacements r { notes := base, nwo := List.map noOct base } a with
    | error e => simp [h1] at h
    | ok p =>
      obtain ⟨st1, adds⟩ := p
      simp only [h1] at h
      have hs1 := calcReplacements_sh (fun p hp => List.all_eq_true.mp repl_sh p hp) r _ a st1 adds h0 h1
      cases h2 : calcAdditions adds st1 with
      | error e => simp [h2] at h
      | ok st2 =>
        simp only [h2] at h
        have hs2 := calcAdditions_sh (fun p hp => List.all_eq_true.mp add_sh p hp) adds st1 st2 hs1 h2
        cases h3 : calcRemovals m st2 with
        | error e => simp [h3] at h
        | ok st3 =>
          simp only [h3] at h
          cases h
          exact calcRemovals_sh m st2 st3 hs2 h3

/-! sorting by keys that all move by the same amount -/

theorem mem_insertFrontK {α : Type} (k : α → Int) (x y : α) (l : List α) :
    y ∈ sortByKey.insertFront k x l ↔ y = x ∨ y ∈ l := by
  induction l with
  | nil => simp [sortByKey.insertFront]
  | cons a t ih =>
    simp only [sortByKey.insertFront]
    split
    · simp
    · simp only [List.mem_cons, ih]
      constructor
      · rintro (h | h | h) <;> simp [h]
      · rintro (h | h | h) <;> simp [h]

theorem mem_sortByKey {α : Type} (k : α → Int) (y : α) (l : List α) : y ∈ sortByKey k l ↔ y ∈ l := by
  induction l with
  | nil => simp [sortByKey]
  | cons a t ih =>
    unfold sortByKey at *
    simp only [List.foldr_cons, mem_insertFrontK, ih, List.mem_cons]

theorem insertFront_congr {α : Type} (k k' : α → Int) (D : Int) (x : α) (l : List α)
    (hx : k' x = k x + D) (hl : ∀ y ∈ l, k' y = k y + D) :
    sortByKey.insertFront k' x l = sortByKey.insertFront k x l := by
  induction l with
  | nil => rfl
  | cons a t ih =>
    simp only [sortByKey.insertFront]
    have ha := hl a (by simp)
    have : (k' x ≤ k' a) ↔ (k x ≤ k a) := by omega
    simp only [this]
    split
    · rfl
    · rw [ih (fun y hy => hl y (by simp [hy]))]

theorem sortByKey_congr_shift {α : Type} (k k' : α → Int) (D : Int) (l : List α)
    (hl : ∀ y ∈ l, k' y = k y + D) : sortByKey k' l = sortByKey k l := by
  induction l with
  | nil => rfl
  | cons a t ih =>
    have iht := ih (fun y hy => hl y (by simp [hy]))
    unfold sortByKey at *
    simp only [List.foldr_cons]
    rw [iht]
    apply insertFront_congr k k' D
    · exact hl a (by simp)
    · intro y hy
      have : y ∈ sortByKey k t := by unfold sortByKey; exact hy
      exact hl y (by simp [(mem_sortByKey k y t).mp this])



theorem reqPitch_shift (D : Int) (c c' : Chord) (n : Note) (h : Shifted D c c') (hn : n.isSH = true) :
    reqPitch c' n = (reqPitch c n).map (· + D) := by
  have hk : n.kind = .s ∨ n.kind = .h := by
    unfold Note.isSH at hn; simpa using hn
  unfold reqPitch
  rw [basicPitch_shift D c c' n (realChord_shifted D c c' n h) hk]
  unfold shiftO
  cases basicPitch c n with
  | error e => rfl
  | ok o => cases o <;> rfl

theorem mapM_map_res {α β : Type} (f f' : α → Res β) (g : β → β) (l : List α)
    (h : ∀ x ∈ l, f' x = (f x).map g) : l.mapM f' = (l.mapM f).map (List.map g) := by
  induction l with
  | nil => rfl
  | cons a t ih =>
    simp only [List.mapM_cons, h a (by simp), ih (fun x hx => h x (by simp [hx]))]
    cases f a with
    | error e => rfl
    | ok b =>
      cases List.mapM f t with
      | error e => rfl
      | ok bs => rfl

theorem mapM_ok_mem {α β : Type} (f : α → Res β) (l : List α) (bs : List β) (h : l.mapM f = .ok bs) :
    ∀ x ∈ l, ∃ b, f x = .ok b := by
  induction l generalizing bs with
  | nil => intro x hx; simp at hx
  | cons a t ih =>
    simp only [List.mapM_cons, bind, Except.bind] at h
    cases ha : f a with
    | error e => simp [ha] at h
    | ok b =>
      simp only [ha] at h
      cases ht : List.mapM f t with
      | error e => simp [ht] at h
      | ok bs' =>
        intro x hx
        rcases List.mem_cons.mp hx with rfl | hx
        · exact ⟨b, ha⟩
        · exact ih bs' ht x hx

theorem pitchKey_shift (D : Int) (c c' : Chord) (n : Note) (h : Shifted D c c') (hn : n.isSH = true)
    (p : Int) (hp : reqPitch c n = .ok p) : pitchKey c' n = pitchKey c n + D := by
  have hk : n.kind = .s ∨ n.kind = .h := by
    unfold Note.isSH at hn; simpa using hn
  unfold pitchKey
  rw [basicPitch_shift D c c' n (realChord_shifted D c c' n h) hk]
  unfold reqPitch at hp
  unfold shiftO
  cases hb : basicPitch c n with
  | error e => simp [hb, bind, Except.bind] at hp
  | ok o =>
    cases o with
    | none => simp [hb, bind, Except.bind] at hp
    | some q => rfl

/-- the chord tones are the same notes on a moved chord (the sort by pitch sees all keys moved by `D`) -/
theorem chordNotesCalc_shift (D : Int) (c c' : Chord) (h : Shifted D c c') (fig : Fig) (r a m : List String) :
    c'.chordNotesCalc fig r a m = c.chordNotesCalc fig r a m := by
  rw [chordNotesCalc_eq, chordNotesCalc_eq]
  cases hp : preCalc fig r a m with
  | error e => rfl
  | ok ns =>
    have hsh := preCalc_sh fig r a m ns hp
    simp only [bind, Except.bind]
    rw [mapM_map_res (reqPitch c) (reqPitch c') (· + D) ns (fun n hn => reqPitch_shift D c c' n h (hsh n hn))]
    cases hm : ns.mapM (reqPitch c) with
    | error e => rfl
    | ok ps =>
      simp only [Except.map, pure, Except.pure]
      congr 1
      apply sortByKey_congr_shift _ _ D
      intro n hn
      obtain ⟨p, hp⟩ := mapM_ok_mem _ _ _ hm n hn
      exact pitchKey_shift D c c' n h (hsh n hn) p hp

theorem chordNotesCalc_sh (c : Chord) (fig : Fig) (r a m : List String) (ns : List Note)
    (h : c.chordNotesCalc fig r a m = .ok ns) : AllSH ns := by
  rw [chordNotesCalc_eq] at h
  cases hp : preCalc fig r a m with
  | error e => simp [hp, bind, Except.bind] at h
  | ok ns0 =>
    simp only [hp, bind, Except.bind] at h
    cases hm : ns0.mapM (reqPitch c) with
    | error e => simp [hm] at h
    | ok ps =>
      simp only [hm, pure, Except.pure] at h
      cases h
      intro n hn
      exact preCalc_sh fig r a m ns0 hp n ((mem_sortByKey _ _ _).mp hn)

def shiftL (D : Int) (r : Res (List Int)) : Res (List Int) := r.map (List.map (· + D))

theorem pitchesOf_shift (D : Int) (c c' : Chord) (h : Shifted D c c') (ns : List Note) (hs : AllSH ns) :
    pitchesOf c' ns = shiftL D (pitchesOf c ns) := by
  unfold pitchesOf shiftL
  exact mapM_map_res (reqPitch c) (reqPitch c') (· + D) ns (fun n hn => reqPitch_shift D c c' n h (hs n hn))

theorem chordPitches_shift (D : Int) (c c' : Chord) (h : Shifted D c c') :
    c'.chordPitches = shiftL D c.chordPitches := by
  unfold Chord.chordPitches Chord.chordNotes
  rw [h.2.1]
  simp only [chordNotesCalc_shift D c c' h]
  cases hn : c.chordNotesCalc c.ext.props.1.rootFig c.ext.props.2.1 c.ext.props.2.2.1 c.ext.props.2.2.2 with
  | error e => rfl
  | ok ns =>
    simp only [bind, Except.bind]
    exact pitchesOf_shift D c c' h ns (chordNotesCalc_sh c _ _ _ _ ns hn)

theorem extensionPitches_shift (D : Int) (c c' : Chord) (h : Shifted D c c') :
    c'.extensionPitches = shiftL D c.extensionPitches := by
  unfold Chord.extensionPitches Chord.extensionNotes
  rw [h.2.1]
  simp only [chordNotesCalc_shift D c c' h]
  cases hn : c.chordNotesCalc c.ext.props.1 c.ext.props.2.1 c.ext.props.2.2.1 c.ext.props.2.2.2 with
  | error e => rfl
  | ok ns =>
    simp only [bind, Except.bind]
    exact pitchesOf_shift D c c' h ns (chordNotesCalc_sh c _ _ _ _ ns hn)

theorem chromaticPitches_shift (D : Int) (c c' : Chord) (h : Shifted D c c') :
    c'.chromaticPitches = shiftL D c.chromaticPitches := by
  unfold Chord.chromaticPitches shiftL
  rw [scalePitches_shift D c c' h, pyIndex_map]
  cases pyIndex c.scalePitches 0 with
  | error e => rfl
  | ok root =>
    simp only [Except.map, bind, Except.bind, pure, Except.pure, List.map_map]
    congr 1
    apply List.map_congr_left
    intro i _; simp only [Function.comp]; omega


/-- harmonic part of `Shifted`: same degree and figure, tonic + octaves moved by `D`; the mode may differ -/
def ShiftedH (D : Int) (c c' : Chord) : Prop :=
  c'.elem = c.elem ∧ c'.ext = c.ext ∧ c'.base' = c.base' + D

theorem Shifted.toH {D : Int} {c c' : Chord} (h : Shifted D c c') : ShiftedH D c c' := ⟨h.1, h.2.1, h.2.2.2⟩

/-- the operation keeps the system note `n` is read in: the chord keeps its mode, or the note
carries its own mode and is a scale / chromatic note (absolute or relative to the previous pitch) -/
def KeepsSystem (D : Int) (c c' : Chord) (n : Note) : Prop :=
  Shifted D c c' ∨ (ShiftedH D c c' ∧ n.mode.isSome = true ∧
    (n.kind = .s ∨ n.kind = .h ∨ n.kind = .su ∨ n.kind = .sd))

theorem realChord_shifted_of_keeps (D : Int) (c c' : Chord) (n : Note) (h : KeepsSystem D c c' n) :
    (n.kind = .s ∨ n.kind = .h ∨ n.kind = .su ∨ n.kind = .sd) →
    Shifted D (n.realChord c) (n.realChord c') := by
  intro _
  rcases h with h | ⟨⟨h1, h2, h3⟩, hm, _⟩
  · exact realChord_shifted D c c' n h
  · unfold Note.realChord
    cases hmd : n.mode with
    | none => simp [hmd] at hm
    | some md => exact ⟨h1, h2, rfl, by simpa [Chord.base', Tonality.absDegree] using h3⟩

theorem keeps_cb (D : Int) (c c' : Chord) (n : Note) (h : KeepsSystem D c c' n)
    (hk : ¬ (n.kind = .s ∨ n.kind = .h ∨ n.kind = .su ∨ n.kind = .sd)) : Shifted D c c' := by
  rcases h with h | ⟨_, _, hk'⟩
  · exact h
  · exact absurd hk' hk

theorem valueToScale_len_shift (v o D : Int) (sc : List Int) :
    valueToScale (v + ((sc.map (· + D)).length : Int) * o) (sc.map (· + D))
      = (valueToScale (v + (sc.length : Int) * o) sc).map (· + D) := by
  rw [List.length_map, valueToScale_map]

/-- **non-relative chord-relative notes move by exactly `D`** (any value, octave, accidental, figure,
modifiers; the previous pitch is irrelevant) -/
theorem noteToPitch_shift (D : Int) (c c' : Chord) (n : Note) (last last' : Int)
    (hk : n.kind = .s ∨ n.kind = .h ∨ n.kind = .c ∨ n.kind = .b) (h : KeepsSystem D c c' n) :
    noteToPitch c' n last' = shiftO D (noteToPitch c n last) := by
  rcases hk with hk | hk | hk | hk
  · have := basicPitch_shift D c c' n (realChord_shifted_of_keeps D c c' n h (by simp [hk])) (Or.inl hk)
    unfold noteToPitch; simp only [hk]; exact this
  · have := basicPitch_shift D c c' n (realChord_shifted_of_keeps D c c' n h (by simp [hk])) (Or.inr hk)
    unfold noteToPitch; simp only [hk]; exact this
  · have hs := keeps_cb D c c' n h (by simp [hk])
    unfold noteToPitch shiftO
    simp only [hk, chordPitches_shift D c c' hs, shiftL]
    cases c.chordPitches with
    | error e => rfl
    | ok sc =>
      simp only [Except.map, bind, Except.bind]
      rw [valueToScale_len_shift]
      cases valueToScale (n.val + (sc.length : Int) * n.oct) sc <;> rfl
  · have hs := keeps_cb D c c' n h (by simp [hk])
    unfold noteToPitch shiftO
    simp only [hk, extensionPitches_shift D c c' hs, shiftL]
    cases c.extensionPitches with
    | error e => rfl
    | ok sc =>
      simp only [Except.map, bind, Except.bind]
      rw [valueToScale_len_shift]
      cases valueToScale (n.val + (sc.length : Int) * n.oct) sc <;> rfl

/-- **absolute and drum notes, rests, continuations and pattern notes do not depend on the chord** -/
theorem noteToPitch_fixed (c c' : Chord) (n : Note) (last last' : Int)
    (hk : n.kind = .a ∨ n.kind = .d ∨ n.kind = .r ∨ n.kind = .l ∨ n.kind = .x) :
    noteToPitch c' n last' = noteToPitch c n last := by
  unfold noteToPitch basicPitch
  rcases hk with hk | hk | hk | hk | hk <;> simp only [hk]

theorem relValue_ok_ne_nil {d : Bool} {v o last r : Int} {sc : List Int}
    (h : Rel.relValue d v o last sc = .ok r) : sc ≠ [] := by
  intro hnil
  subst hnil
  obtain ⟨e, he⟩ := relValue_nil d v o last
  rw [he] at h; cases h

/-- **relative notes move by exactly `D`** when the reference pitch moves by `D`, inside the window -/
theorem noteToPitch_shift_rel (D : Int) (c c' : Chord) (n : Note) (last r : Int)
    (hk : n.kind.isRelative = true) (h : KeepsSystem D c c' n)
    (hr : noteToPitch c n last = .ok (some r))
    (w1 : Win last) (w2 : Win (last + D)) (w3 : Win r) (w4 : Win (r + D)) :
    noteToPitch c' n (last + D) = .ok (some (r + D)) := by
  have key : ∀ (sc : List Int) (x : Int), Rel.relValue n.kind.isDown n.val n.oct last sc = .ok x → x = r →
      Rel.relValue n.kind.isDown n.val n.oct (last + D) (sc.map (· + D)) = .ok (r + D) := by
    intro sc x hx hxr
    subst hxr
    exact relValue_shift D _ _ _ _ _ sc (relValue_ok_ne_nil hx) hx w1 w2 w3 w4
  have other : ∀ (f : Chord → Res (List Int)), (f c' = shiftL D (f c)) →
      (∀ (ch : Chord) (lp : Int), noteToPitch ch n lp = (do
          let sc ← f ch
          let p ← Rel.relValue n.kind.isDown n.val n.oct lp sc
          pure (some p))) →
      noteToPitch c' n (last + D) = .ok (some (r + D)) := by
    intro f hf hn
    rw [hn c] at hr
    rw [hn c']
    simp only [hf, shiftL]
    cases hfc : f c with
    | error e => simp [hfc, bind, Except.bind] at hr
    | ok sc =>
      simp only [hfc, bind, Except.bind, Except.map] at hr ⊢
      cases hv : Rel.relValue n.kind.isDown n.val n.oct last sc with
      | error e => simp [hv] at hr
      | ok x =>
        simp only [hv, pure, Except.pure, Except.ok.injEq, Option.some.injEq] at hr
        simp only [key sc x hv hr, pure, Except.pure]
  have su_case : (n.kind = .su ∨ n.kind = .sd) →
      noteToPitch c' n (last + D) = .ok (some (r + D)) := by
    intro hsk
    have hs := scalePitches_shift D _ _ (realChord_shifted_of_keeps D c c' n h (by rcases hsk with h | h <;> simp [h]))
    apply other (fun ch => .ok (n.realChord ch).scalePitches)
    · simp only [hs, shiftL, Except.map]
    · intro ch lp; unfold noteToPitch
      rcases hsk with hsk | hsk <;> simp only [hsk] <;> rfl
  cases hkind : n.kind with
  | su => exact su_case (Or.inl hkind)
  | sd => exact su_case (Or.inr hkind)
  | cu | cd =>
    have hs := keeps_cb D c c' n h (by simp [hkind])
    apply other Chord.chordPitches (chordPitches_shift D c c' hs)
    intro ch lp; unfold noteToPitch; simp only [hkind]
  | bu | bd =>
    have hs := keeps_cb D c c' n h (by simp [hkind])
    apply other Chord.extensionPitches (extensionPitches_shift D c c' hs)
    intro ch lp; unfold noteToPitch; simp only [hkind]
  | hu | hd =>
    have hs := keeps_cb D c c' n h (by simp [hkind])
    apply other Chord.chromaticPitches (chromaticPitches_shift D c c' hs)
    intro ch lp; unfold noteToPitch; simp only [hkind]
  | s | h | c | b | a | d | x | r | l => simp [hkind, Kind.isRelative] at hk


theorem map_add_zero (l : List Int) : l.map (· + 0) = l := by
  conv => rhs; rw [← List.map_id l]
  apply List.map_congr_left; intro x _; simp

theorem shiftL_zero (r : Res (List Int)) : shiftL 0 r = r := by
  unfold shiftL; cases r with
  | error e => rfl
  | ok l => simp only [Except.map, map_add_zero]

theorem shiftO_zero (r : Res (Option Int)) : shiftO 0 r = r := by
  unfold shiftO; cases r with
  | error e => rfl
  | ok o => cases o <;> simp [Except.map]

/-- the pitch of a note only depends on the chord's degree, figure, tonality and octave -/
theorem noteToPitch_congr (c c' : Chord) (h : Shifted 0 c c') (n : Note) (last : Int) :
    noteToPitch c' n last = noteToPitch c n last := by
  have h1 : (n.realChord c').scalePitches = (n.realChord c).scalePitches := by
    rw [scalePitches_shift 0 _ _ (realChord_shifted 0 c c' n h), map_add_zero]
  have h2 : c'.chordPitches = c.chordPitches := by rw [chordPitches_shift 0 c c' h, shiftL_zero]
  have h3 : c'.extensionPitches = c.extensionPitches := by rw [extensionPitches_shift 0 c c' h, shiftL_zero]
  have h4 : c'.chromaticPitches = c.chromaticPitches := by rw [chromaticPitches_shift 0 c c' h, shiftL_zero]
  have h5 : basicPitch c' n = basicPitch c n := by
    unfold basicPitch withAccident
    simp only [h1]
  unfold noteToPitch
  simp only [h1, h2, h3, h4, h5]

theorem noteToPitch_parts (c : Chord) (ps : List (String × Melody)) (n : Note) (last : Int) :
    noteToPitch { c with parts := ps } n last = noteToPitch c n last :=
  noteToPitch_congr c { c with parts := ps } ⟨rfl, rfl, rfl, by simp [Chord.base']⟩ n last


theorem bind_some_ok {α : Type} (e : Res α) (f : α → Int) (o : Option Int)
    (h : (do let p ← e; pure (some (f p)) : Res (Option Int)) = .ok o) : ∃ q, o = some q := by
  cases e with
  | error x => simp [bind, Except.bind] at h
  | ok a => simp only [bind, Except.bind, pure, Except.pure, Except.ok.injEq] at h; exact ⟨_, h.symm⟩

theorem bind2_some_ok {α β : Type} (e : Res α) (g : α → Res β) (f : α → β → Int) (o : Option Int)
    (h : (do let a ← e; let p ← g a; pure (some (f a p)) : Res (Option Int)) = .ok o) : ∃ q, o = some q := by
  cases e with
  | error x => simp [bind, Except.bind] at h
  | ok a => exact bind_some_ok (g a) (f a) o h

/-- a sounding note has a pitch whenever `note_to_pitch_result` returns -/
theorem noteToPitch_some (c : Chord) (n : Note) (last : Int) (o : Option Int)
    (hk : n.kind ≠ .r ∧ n.kind ≠ .l ∧ n.kind ≠ .x) (h : noteToPitch c n last = .ok o) : ∃ q, o = some q := by
  unfold noteToPitch at h
  cases hkind : n.kind <;> simp only [hkind] at h hk
  case s =>
    unfold basicPitch at h; simp only [hkind] at h
    cases hacc : n.acc with
    | none => simp only [hacc] at h; exact bind_some_ok _ id o h
    | some a => simp only [hacc] at h; exact bind_some_ok _ id o h
  case h => unfold basicPitch at h; simp only [hkind] at h; exact bind2_some_ok _ _ (fun _ p => p) o h
  case a => unfold basicPitch at h; simp only [hkind] at h; exact bind_some_ok _ id o h
  case d => unfold basicPitch at h; simp only [hkind] at h; exact bind_some_ok _ id o h
  case c => exact bind2_some_ok _ _ (fun _ p => p) o h
  case b => exact bind2_some_ok _ _ (fun _ p => p) o h
  case su => exact bind_some_ok _ id o h
  case sd => exact bind_some_ok _ id o h
  case cu => exact bind2_some_ok _ _ (fun _ p => p) o h
  case cd => exact bind2_some_ok _ _ (fun _ p => p) o h
  case bu => exact bind2_some_ok _ _ (fun _ p => p) o h
  case bd => exact bind2_some_ok _ _ (fun _ p => p) o h
  case hu => exact bind2_some_ok _ _ (fun _ p => p) o h
  case hd => exact bind2_some_ok _ _ (fun _ p => p) o h
  all_goals simp at hk

/-- the pitch system a relative note moves in -/
def relScale (n : Note) (ch : Chord) : Res (List Int) :=
  match n.kind with
  | .su | .sd => .ok (n.realChord ch).scalePitches
  | .cu | .cd => ch.chordPitches
  | .bu | .bd => ch.extensionPitches
  | .hu | .hd => ch.chromaticPitches
  | _ => .ok []

theorem noteToPitch_rel_eq (ch : Chord) (n : Note) (lp : Int) (hk : n.kind.isRelative = true) :
    noteToPitch ch n lp = (do
      let sc ← relScale n ch
      let p ← Rel.relValue n.kind.isDown n.val n.oct lp sc
      pure (some p)) := by
  unfold noteToPitch relScale
  cases hkind : n.kind <;> simp only [hkind, Kind.isRelative] at hk ⊢ <;> first | rfl | (cases hk)

theorem relValue_scale_octave (d : Bool) (v o last k : Int) (sc : List Int) :
    Rel.relValue d v o last (sc.map (· + 12 * k)) = Rel.relValue d v o last sc := by
  unfold Rel.relValue
  have : (sc.map (· + 12 * k)).map (· % 12) = sc.map (· % 12) := by
    rw [List.map_map]; apply List.map_congr_left; intro x _; simp only [Function.comp]; omega
  simp only [this]

/-- on the same chord, a relative note follows its reference by whole octaves -/
theorem noteToPitch_octave_rel (c : Chord) (n : Note) (last r k : Int) (hk : n.kind.isRelative = true)
    (hr : noteToPitch c n last = .ok (some r))
    (w1 : Win last) (w2 : Win (last + 12 * k)) (w3 : Win r) (w4 : Win (r + 12 * k)) :
    noteToPitch c n (last + 12 * k) = .ok (some (r + 12 * k)) := by
  rw [noteToPitch_rel_eq c n _ hk] at hr ⊢
  cases hf : relScale n c with
  | error e => simp [hf, bind, Except.bind] at hr
  | ok sc =>
    simp only [hf, bind, Except.bind] at hr ⊢
    cases hv : Rel.relValue n.kind.isDown n.val n.oct last sc with
    | error e => simp [hv] at hr
    | ok x =>
      simp only [hv, pure, Except.pure, Except.ok.injEq, Option.some.injEq] at hr
      subst hr
      have := relValue_shift (12 * k) _ _ _ _ _ sc (relValue_ok_ne_nil hv) hv w1 w2 w3 w4
      rw [relValue_scale_octave] at this
      simp only [this, pure, Except.pure]

end MV
