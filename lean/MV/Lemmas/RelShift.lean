/-
Converse characterisations of `relUp` / `relDown` (a pitch with the right count *is* the result)
and, from them, shift-equivariance of `get_relative_scale_value` inside the ±10 octave window:
moving the reference pitch and the scale by the same interval moves the result by that interval.
Used by C04 (modulation and octave laws for relative notes).
-/
import MV.Lemmas.Window
import MV.Props.C09

namespace MV
open Rel

/-- converse of `C09.rel_up_counts`: a window pitch above the reference with exactly `k` window
pitches in `(last, r]` is what `relUp k` returns -/
theorem relUp_of_counts (pcs : List Int) (hp : PcsOK pcs) (k last r : Int) (hk : 0 < k)
    (hr : r ∈ wholeScale pcs) (hlt : last < r)
    (hc : (((wholeScale pcs).filter (fun y => decide (last < y) && decide (y ≤ r))).length : Int) = k) :
    relUp k last pcs = .ok r := by
  have hasc := wholeScale_asc pcs hp
  obtain ⟨hir, hre⟩ := asc_index_of_mem _ hasc r hr
  unfold relUp
  rw [scaleMod_id pcs hp]
  have hk0 : ¬ k = 0 := by omega
  simp only [hk0, if_false, ge_iff_le]
  rw [asc_filter_ge _ hasc last]
  have hcl := asc_count_le_split _ hasc last
  have hcr := asc_count_le _ hasc _ hir
  rw [hre] at hcr
  have hsplit := count_split (wholeScale pcs) (fun y => decide (y ≤ last)) (fun y => decide (y ≤ r))
    (by intro y; simp; omega)
  have hfe : (wholeScale pcs).filter (fun y => decide (y ≤ r) && !decide (y ≤ last))
      = (wholeScale pcs).filter (fun y => decide (last < y) && decide (y ≤ r)) := by
    apply List.filter_congr; intro y _
    by_cases h1 : y ≤ r <;> by_cases h2 : y ≤ last <;> simp [h1, h2] <;> omega
  rw [hfe] at hsplit
  have hcont : (wholeScale pcs).contains last = true ↔ last ∈ wholeScale pcs := by simp
  generalize ha : ((wholeScale pcs).filter (fun y => decide (y < last))).length = a at *
  generalize hi : ((wholeScale pcs).filter (fun y => decide (y < r))).length = i at *
  by_cases hin : last ∈ wholeScale pcs
  · have hct : (wholeScale pcs).contains last = true := hcont.mpr hin
    simp only [hin, if_true] at hcl
    simp only [hct, if_true]
    have hj : i - a < ((wholeScale pcs).drop a).length := by simp; omega
    rw [pyIndex_eq (i - a) hj (by have : ¬ (k - 0 < 0) := by omega
                                  simp only [this, if_false]; omega)]
    simp only [List.getElem_drop]
    have : a + (i - a) = i := by omega
    simp only [this, hre]
  · have hct : ¬ (wholeScale pcs).contains last = true := fun h => hin (hcont.mp h)
    simp only [hin, if_false] at hcl
    have hcf : (wholeScale pcs).contains last = false := by simpa using hct
    simp only [hcf, Bool.false_eq_true, if_false]
    have hj : i - a < ((wholeScale pcs).drop a).length := by simp; omega
    rw [pyIndex_eq (i - a) hj (by have : ¬ (k - 1 < 0) := by omega
                                  simp only [this, if_false]; omega)]
    simp only [List.getElem_drop]
    have : a + (i - a) = i := by omega
    simp only [this, hre]

/-- converse of `C09.rel_down_counts` -/
theorem relDown_of_counts (pcs : List Int) (hp : PcsOK pcs) (k last r : Int) (hk : 0 < k)
    (hr : r ∈ wholeScale pcs) (hlt : r < last)
    (hc : (((wholeScale pcs).filter (fun y => decide (r ≤ y) && decide (y < last))).length : Int) = k) :
    relDown k last pcs = .ok r := by
  have hasc := wholeScale_asc pcs hp
  obtain ⟨hir, hre⟩ := asc_index_of_mem _ hasc r hr
  unfold relDown
  rw [scaleMod_id pcs hp]
  have hk0 : ¬ k = 0 := by omega
  simp only [hk0, if_false]
  rw [asc_filter_le _ hasc last]
  have hcl := asc_count_le_split _ hasc last
  have hsplit := count_split (wholeScale pcs) (fun y => decide (y < r)) (fun y => decide (y < last))
    (by intro y; simp; omega)
  have hfe : (wholeScale pcs).filter (fun y => decide (y < last) && !decide (y < r))
      = (wholeScale pcs).filter (fun y => decide (r ≤ y) && decide (y < last)) := by
    apply List.filter_congr; intro y _
    by_cases h1 : y < last <;> by_cases h2 : y < r <;> simp [h1, h2] <;> omega
  rw [hfe] at hsplit
  have hcont : (wholeScale pcs).contains last = true ↔ last ∈ wholeScale pcs := by simp
  have hble : ((wholeScale pcs).filter (fun y => decide (y ≤ last))).length ≤ (wholeScale pcs).length :=
    List.length_filter_le _ _
  generalize hb : ((wholeScale pcs).filter (fun y => decide (y ≤ last))).length = b at *
  generalize ha : ((wholeScale pcs).filter (fun y => decide (y < last))).length = a at *
  generalize hi : ((wholeScale pcs).filter (fun y => decide (y < r))).length = i at *
  have hlen : (List.take b (wholeScale pcs)).length = b := by simp; omega
  by_cases hin : last ∈ wholeScale pcs
  · have hct : (wholeScale pcs).contains last = true := hcont.mpr hin
    simp only [hin, if_true] at hcl
    simp only [hct, if_true]
    have hj : i < (List.take b (wholeScale pcs)).length := by rw [hlen]; omega
    rw [pyIndex_eq i hj (by rw [hlen]
                            have : (-(k + 1) + 0 < 0) := by omega
                            simp only [this, if_true]; omega)]
    simp [hre]
  · have hcf : (wholeScale pcs).contains last = false := by
      have : ¬ (wholeScale pcs).contains last = true := fun h => hin (hcont.mp h)
      simpa using this
    simp only [hin, if_false] at hcl
    simp only [hcf, Bool.false_eq_true, if_false]
    have hj : i < (List.take b (wholeScale pcs)).length := by rw [hlen]; omega
    rw [pyIndex_eq i hj (by rw [hlen]
                            have : (-(k + 1) + 1 < 0) := by omega
                            simp only [this, if_true]; omega)]
    simp [hre]

/-- converse of `relUp0_spec`: the least window pitch `≥ last` is what `relUp 0` returns -/
theorem relUp0_of_spec (pcs : List Int) (hp : PcsOK pcs) (last u : Int)
    (hu : u ∈ wholeScale pcs) (hle : last ≤ u) (hmin : ∀ y ∈ wholeScale pcs, last ≤ y → u ≤ y) :
    relUp 0 last pcs = .ok u := by
  have hasc := wholeScale_asc pcs hp
  obtain ⟨hir, hre⟩ := asc_index_of_mem _ hasc u hu
  unfold relUp
  rw [scaleMod_id pcs hp]
  simp only [if_true, ge_iff_le]
  rw [asc_filter_ge _ hasc last]
  -- no window pitch lies in [last, u)
  have hsplit := count_split (wholeScale pcs) (fun y => decide (y < last)) (fun y => decide (y < u))
    (by intro y; simp; omega)
  have hnil : (wholeScale pcs).filter (fun y => decide (y < u) && !decide (y < last)) = [] := by
    apply List.filter_eq_nil_iff.mpr
    intro y hy
    by_cases h1 : last ≤ y
    · have := hmin y hy h1; simp; omega
    · simp; omega
  rw [hnil] at hsplit
  simp only [List.length_nil, Nat.add_zero] at hsplit
  rw [← hsplit]
  generalize hi : ((wholeScale pcs).filter (fun y => decide (y < u))).length = i at *
  have hj : 0 < ((wholeScale pcs).drop i).length := by simp; omega
  rw [pyIndex_eq 0 hj (by simp)]
  simp [hre]

/-- converse of `relDown0_spec` -/
theorem relDown0_of_spec (pcs : List Int) (hp : PcsOK pcs) (last d : Int)
    (hd : d ∈ wholeScale pcs) (hle : d ≤ last) (hmax : ∀ y ∈ wholeScale pcs, y ≤ last → y ≤ d) :
    relDown 0 last pcs = .ok d := by
  have hasc := wholeScale_asc pcs hp
  obtain ⟨hir, hre⟩ := asc_index_of_mem _ hasc d hd
  unfold relDown
  rw [scaleMod_id pcs hp]
  simp only [if_true]
  rw [asc_filter_le _ hasc last]
  have hcd := asc_count_le _ hasc _ hir
  rw [hre] at hcd
  have hsplit := count_split (wholeScale pcs) (fun y => decide (y ≤ d)) (fun y => decide (y ≤ last))
    (by intro y; simp; omega)
  have hnil : (wholeScale pcs).filter (fun y => decide (y ≤ last) && !decide (y ≤ d)) = [] := by
    apply List.filter_eq_nil_iff.mpr
    intro y hy
    by_cases h1 : y ≤ last
    · have := hmax y hy h1; simp; omega
    · simp; omega
  rw [hnil] at hsplit
  simp only [List.length_nil, Nat.add_zero] at hsplit
  rw [hsplit, hcd]
  generalize hi : ((wholeScale pcs).filter (fun y => decide (y < d))).length = i at *
  have hlen : (List.take (i + 1) (wholeScale pcs)).length = i + 1 := by simp; omega
  have hj : i < (List.take (i + 1) (wholeScale pcs)).length := by rw [hlen]; omega
  rw [pyIndex_eq i hj (by rw [hlen]; simp; omega)]
  simp [hre]


theorem asc_nodup (L : List Int) (h : Asc L) : L.Nodup := by
  unfold List.Nodup
  exact h.imp (by intro a b hab; omega)

/-- counting through a translation: if `y ↦ y + D` matches the selected elements of two ascending
lists, the two selections have the same size -/
theorem count_shift (D : Int) (L L' : List Int) (hL : Asc L) (hL' : Asc L') (p p' : Int → Bool)
    (h : ∀ y, (y ∈ L ∧ p y = true) ↔ (y + D ∈ L' ∧ p' (y + D) = true)) :
    (L.filter p).length = (L'.filter p').length := by
  have h1 : Asc ((L.filter p).map (· + D)) := by
    apply List.Pairwise.map _ _ (hL.filter p)
    intro a b hab; omega
  have h2 : Asc (L'.filter p') := hL'.filter p'
  have hperm : ((L.filter p).map (· + D)).Perm (L'.filter p') := by
    rw [List.perm_ext_iff_of_nodup (asc_nodup _ h1) (asc_nodup _ h2)]
    intro z
    simp only [List.mem_map, List.mem_filter]
    constructor
    · rintro ⟨y, hy, rfl⟩; exact (h y).mp hy
    · intro hz
      refine ⟨z - D, (h (z - D)).mpr ?_, by omega⟩
      have : z - D + D = z := by omega
      rw [this]; exact hz
  have := hperm.length_eq
  simpa using this

/-- two pitch-class systems, the second being the first moved by `D` semitones -/
structure SysShift (D : Int) (pcs pcs' : List Int) : Prop where
  ok : PcsOK pcs
  ok' : PcsOK pcs'
  mem : ∀ x : Int, (x + D) % 12 ∈ pcs' ↔ x % 12 ∈ pcs

theorem mem_ws_shift {D : Int} {pcs pcs' : List Int} (S : SysShift D pcs pcs') (x : Int) :
    x + D ∈ wholeScale pcs' ↔ (x % 12 ∈ pcs ∧ -120 ≤ x + D ∧ x + D < 120) := by
  rw [mem_wholeScale _ S.ok', S.mem]

theorem relUp_shift {D : Int} {pcs pcs' : List Int} (S : SysShift D pcs pcs') (k last r : Int) (hk : 0 < k)
    (h : relUp k last pcs = .ok r) (w1 : -120 ≤ last) (w2 : -120 ≤ last + D) (w3 : r + D < 120) :
    relUp k (last + D) pcs' = .ok (r + D) := by
  obtain ⟨hr, hlt, hc⟩ := C09.rel_up_counts pcs S.ok k last r hk h
  have hrw := (mem_wholeScale pcs S.ok r).mp hr
  apply relUp_of_counts pcs' S.ok' k (last + D) (r + D) hk
  · exact (mem_ws_shift S r).mpr ⟨hrw.1, by omega, w3⟩
  · omega
  · rw [← hc]
    congr 1
    symm
    apply count_shift D _ _ (wholeScale_asc pcs S.ok) (wholeScale_asc pcs' S.ok')
    intro y
    simp only [Bool.and_eq_true, decide_eq_true_eq]
    constructor
    · rintro ⟨hy, h1, h2⟩
      have hyw := (mem_wholeScale pcs S.ok y).mp hy
      exact ⟨(mem_ws_shift S y).mpr ⟨hyw.1, by omega, by omega⟩, by omega, by omega⟩
    · rintro ⟨hy, h1, h2⟩
      have hyw := (mem_ws_shift S y).mp hy
      exact ⟨(mem_wholeScale pcs S.ok y).mpr ⟨hyw.1, by omega, by omega⟩, by omega, by omega⟩

theorem relDown_shift {D : Int} {pcs pcs' : List Int} (S : SysShift D pcs pcs') (k last r : Int) (hk : 0 < k)
    (h : relDown k last pcs = .ok r) (w1 : last < 120) (w2 : last + D < 120) (w3 : -120 ≤ r + D) :
    relDown k (last + D) pcs' = .ok (r + D) := by
  obtain ⟨hr, hlt, hc⟩ := C09.rel_down_counts pcs S.ok k last r hk h
  have hrw := (mem_wholeScale pcs S.ok r).mp hr
  apply relDown_of_counts pcs' S.ok' k (last + D) (r + D) hk
  · exact (mem_ws_shift S r).mpr ⟨hrw.1, w3, by omega⟩
  · omega
  · rw [← hc]
    congr 1
    symm
    apply count_shift D _ _ (wholeScale_asc pcs S.ok) (wholeScale_asc pcs' S.ok')
    intro y
    simp only [Bool.and_eq_true, decide_eq_true_eq]
    constructor
    · rintro ⟨hy, h1, h2⟩
      have hyw := (mem_wholeScale pcs S.ok y).mp hy
      exact ⟨(mem_ws_shift S y).mpr ⟨hyw.1, by omega, by omega⟩, by omega, by omega⟩
    · rintro ⟨hy, h1, h2⟩
      have hyw := (mem_ws_shift S y).mp hy
      exact ⟨(mem_wholeScale pcs S.ok y).mpr ⟨hyw.1, by omega, by omega⟩, by omega, by omega⟩

/-- some pitch of a non-empty system lies in every 12 consecutive integers -/
theorem sys_pitch_above (pcs : List Int) (hp : PcsOK pcs) (x : Int) :
    ∃ y, y % 12 ∈ pcs ∧ x ≤ y ∧ y ≤ x + 11 := by
  obtain ⟨hne, _, hb⟩ := hp
  cases pcs with
  | nil => exact absurd rfl hne
  | cons s t =>
    have := hb s (by simp)
    refine ⟨x + (s - x) % 12, ?_, by omega, by omega⟩
    have : (x + (s - x) % 12) % 12 = s := by omega
    rw [this]; simp

theorem sys_pitch_below (pcs : List Int) (hp : PcsOK pcs) (x : Int) :
    ∃ y, y % 12 ∈ pcs ∧ x - 11 ≤ y ∧ y ≤ x := by
  obtain ⟨y, h1, h2, h3⟩ := sys_pitch_above pcs hp (x - 11)
  exact ⟨y, h1, h2, by omega⟩

/-- the window `[-108, 107]`: every reference in it has system pitches of the ±10 octave window on
both sides -/
def Win (x : Int) : Prop := -108 ≤ x ∧ x ≤ 107

instance (x : Int) : Decidable (Win x) := by unfold Win; exact inferInstance

theorem relUp0_shift {D : Int} {pcs pcs' : List Int} (S : SysShift D pcs pcs') (last u : Int)
    (h : relUp 0 last pcs = .ok u) (w1 : Win last) (w2 : Win (last + D)) :
    relUp 0 (last + D) pcs' = .ok (u + D) := by
  obtain ⟨hu, hle, hmin⟩ := relUp0_spec pcs S.ok last u h
  have huw := (mem_wholeScale pcs S.ok u).mp hu
  obtain ⟨y0, hy0, hy1, hy2⟩ := sys_pitch_above pcs S.ok last
  have hu11 : u ≤ last + 11 := by
    have := hmin y0 ((mem_wholeScale pcs S.ok y0).mpr ⟨hy0, by unfold Win at w1; omega, by unfold Win at w1; omega⟩) hy1
    omega
  unfold Win at w1 w2
  apply relUp0_of_spec pcs' S.ok'
  · exact (mem_ws_shift S u).mpr ⟨huw.1, by omega, by omega⟩
  · omega
  · intro y' hy' hl
    have hyw := (mem_ws_shift S (y' - D)).mp (by have : y' - D + D = y' := by omega
                                                 rw [this]; exact hy')
    by_cases hbig : y' - D < 120
    · have := hmin (y' - D) ((mem_wholeScale pcs S.ok _).mpr ⟨hyw.1, by omega, hbig⟩) (by omega)
      omega
    · omega

theorem relDown0_shift {D : Int} {pcs pcs' : List Int} (S : SysShift D pcs pcs') (last d : Int)
    (h : relDown 0 last pcs = .ok d) (w1 : Win last) (w2 : Win (last + D)) :
    relDown 0 (last + D) pcs' = .ok (d + D) := by
  obtain ⟨hd, hle, hmax⟩ := relDown0_spec pcs S.ok last d h
  have hdw := (mem_wholeScale pcs S.ok d).mp hd
  obtain ⟨y0, hy0, hy1, hy2⟩ := sys_pitch_below pcs S.ok last
  have hd11 : last - 11 ≤ d := by
    have := hmax y0 ((mem_wholeScale pcs S.ok y0).mpr ⟨hy0, by unfold Win at w1; omega, by unfold Win at w1; omega⟩) hy2
    omega
  unfold Win at w1 w2
  apply relDown0_of_spec pcs' S.ok'
  · exact (mem_ws_shift S d).mpr ⟨hdw.1, by omega, by omega⟩
  · omega
  · intro y' hy' hl
    have hyw := (mem_ws_shift S (y' - D)).mp (by have : y' - D + D = y' := by omega
                                                 rw [this]; exact hy')
    by_cases hsmall : -120 ≤ y' - D
    · have := hmax (y' - D) ((mem_wholeScale pcs S.ok _).mpr ⟨hyw.1, hsmall, by omega⟩) (by omega)
      omega
    · omega


theorem pcs_map_mod (pcs : List Int) (hp : PcsOK pcs) : pcs.map (· % 12) = pcs := by
  conv => rhs; rw [← List.map_id pcs]
  apply List.map_congr_left
  intro x hx; have := hp.2.2 x hx; simp; omega

theorem relTotal_shift {D : Int} {pcs pcs' : List Int} (S : SysShift D pcs pcs') (t last r : Int)
    (h : relTotal t last pcs = .ok r) (w1 : Win last) (w2 : Win (last + D)) (w3 : Win r) (w4 : Win (r + D)) :
    relTotal t (last + D) pcs' = .ok (r + D) := by
  unfold relTotal at h ⊢
  by_cases hpos : t > 0
  · simp only [hpos, if_true] at h ⊢
    unfold Win at *
    exact relUp_shift S t last r hpos h (by omega) (by omega) (by omega)
  · by_cases hneg : t < 0
    · simp only [hpos, if_false, hneg, if_true] at h ⊢
      unfold Win at *
      exact relDown_shift S (-t) last r (by omega) h (by omega) (by omega) (by omega)
    · simp only [hpos, if_false, hneg] at h ⊢
      rw [pcs_map_mod pcs S.ok] at h
      rw [pcs_map_mod pcs' S.ok']
      by_cases hin : last % 12 ∈ pcs
      · have h1 : pcs.contains (last % 12) = true := by simpa using hin
        have h2 : pcs'.contains ((last + D) % 12) = true := by simpa using (S.mem last).mpr hin
        simp only [h1, if_true] at h
        simp only [h2, if_true]
        cases h; rfl
      · have h1 : pcs.contains (last % 12) = false := by simpa using hin
        have h2 : pcs'.contains ((last + D) % 12) = false := by
          have : ¬ (last + D) % 12 ∈ pcs' := fun hh => hin ((S.mem last).mp hh)
          simpa using this
        simp only [h1, Bool.false_eq_true, if_false] at h
        simp only [h2, Bool.false_eq_true, if_false]
        cases hu : relUp 0 last pcs with
        | error e => simp [hu, bind, Except.bind] at h
        | ok u =>
          cases hd : relDown 0 last pcs with
          | error e => simp [hu, hd, bind, Except.bind] at h
          | ok d =>
            simp only [hu, hd, bind, Except.bind] at h
            rw [relUp0_shift S last u hu w1 w2, relDown0_shift S last d hd w1 w2]
            simp only [bind, Except.bind]
            have e1 : u + D - (last + D) = u - last := by omega
            have e2 : d + D - (last + D) = d - last := by omega
            rw [e1, e2]
            split at h
            · rename_i hle; simp only [hle, if_true]; cases h; rfl
            · rename_i hle; simp only [hle, if_false]; cases h; rfl

/-- the pitch classes of a scale moved by `D` are those of the scale, moved by `D` -/
theorem sysShift_of_scale (D : Int) (scale : List Int) (hne : scale ≠ []) :
    SysShift D (sortedDedup (scale.map (· % 12))) (sortedDedup ((scale.map (· + D)).map (· % 12))) := by
  refine ⟨sortedDedup_ok scale hne, sortedDedup_ok _ (by simpa using hne), ?_⟩
  intro x
  simp only [mem_sortedDedup, List.mem_map]
  constructor
  · rintro ⟨_, ⟨s, hs, rfl⟩, h⟩; exact ⟨s, hs, by omega⟩
  · rintro ⟨s, hs, h⟩; exact ⟨s + D, ⟨s, hs, rfl⟩, by omega⟩

theorem sysShift_length {D : Int} {pcs pcs' : List Int} (S : SysShift D pcs pcs') : pcs'.length = pcs.length := by
  have hnd : (pcs.map (fun x => (x + D) % 12)).Nodup := by
    unfold List.Nodup
    rw [List.pairwise_map]
    have := List.Pairwise.and_mem.mp S.ok.2.1
    refine this.imp ?_
    intro a b ⟨ha, hb, hab⟩
    have := S.ok.2.2 a ha
    have := S.ok.2.2 b hb
    omega
  have hperm : (pcs.map (fun x => (x + D) % 12)).Perm pcs' := by
    rw [List.perm_ext_iff_of_nodup hnd (asc_nodup _ S.ok'.2.1)]
    intro z
    simp only [List.mem_map]
    constructor
    · rintro ⟨x, hx, rfl⟩
      have := S.ok.2.2 x hx
      have hx' : x % 12 ∈ pcs := by
        have e : x % 12 = x := by omega
        rw [e]; exact hx
      exact (S.mem x).mpr hx'
    · intro hz
      have hzb := S.ok'.2.2 z hz
      have : (z - D + D) % 12 ∈ pcs' := by
        have e : (z - D + D) % 12 = z := by omega
        rw [e]; exact hz
      have hm := (S.mem (z - D)).mp this
      exact ⟨(z - D) % 12, hm, by omega⟩
  have := hperm.length_eq
  simpa using this.symm

/-- **shift-equivariance of `get_relative_scale_value`**: inside the window, moving the reference
pitch and the scale by `D` semitones moves the result by `D` -/
theorem relValue_shift (D : Int) (isDown : Bool) (val oct last r : Int) (scale : List Int) (hne : scale ≠ [])
    (h : relValue isDown val oct last scale = .ok r)
    (w1 : Win last) (w2 : Win (last + D)) (w3 : Win r) (w4 : Win (r + D)) :
    relValue isDown val oct (last + D) (scale.map (· + D)) = .ok (r + D) := by
  have S := sysShift_of_scale D scale hne
  unfold relValue at h ⊢
  simp only [sysShift_length S]
  exact relTotal_shift S _ last r h w1 w2 w3 w4

theorem relValue_nil (isDown : Bool) (val oct last : Int) : ∃ e, relValue isDown val oct last [] = .error e := by
  unfold relValue
  have h0 : sortedDedup (([] : List Int).map (· % 12)) = [] := rfl
  simp only [h0, List.length_nil]
  unfold relTotal relUp relDown
  have hw : wholeScale (scaleMod []) = [] := by
    unfold wholeScale scaleMod; simp [sortInts, sortByKey]
  simp only [hw]
  split <;> split <;> simp [pyIndex, bind, Except.bind]

end MV
